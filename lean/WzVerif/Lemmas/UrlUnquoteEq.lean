/-
The two hand models of `urllib.parse.unquote(s, "utf-8", "werkzeug.url_quote")` are the same function
(C15): C02's (`Model/Urlencode.lean`: strict UTF-8 decoding through Lean core's decoder, a monolithic
re-quoting scanner otherwise) and C15's (`Model/Url.lean`: `firstItem` / `items` / `render`). With it
every theorem about `Url.unquote` speaks about the `unquote` inside C02's `parse_qsl` model.
Imports both models read-only. Core Lean only.
-/
import WzVerif.Lemmas.UrlBuilderForms
namespace Wz.Url
open Wz

theorem hexVal_byte' : ∀ n, n < 256 →
    Wz.hexVal? (Char.ofNat (UInt8.ofNat n).toNat) = Urlencode.hexVal? (UInt8.ofNat n) := by
  decide +kernel

theorem hexVal_byte (x : UInt8) : Wz.hexVal? (Char.ofNat x.toNat) = Urlencode.hexVal? x := by
  have := hexVal_byte' x.toNat x.toNat_lt
  rwa [uint8_ofNat_toNat] at this

/-- `_unquote_impl`: the two models agree on every byte string -/
theorem unquoteBytes_eq : ∀ B : Bytes, Urlencode.unquoteBytes B = unquoteBytes B
  | [] => rfl
  | [c] => by simp [Urlencode.unquoteBytes, unquoteBytes]
  | [c, a] => by simp [Urlencode.unquoteBytes, unquoteBytes]
  | c :: a :: b :: t => by
    have ih1 := unquoteBytes_eq t
    have ih2 := unquoteBytes_eq (a :: b :: t)
    by_cases hc : c = 0x25
    · subst hc
      simp only [Urlencode.unquoteBytes, unquoteBytes, hexVal_byte, if_true, beq_self_eq_true]
      cases Urlencode.hexVal? a <;> cases Urlencode.hexVal? b <;> simp [ih1, ih2]
    · have hc' : (c == 37) = false := by simpa using hc
      simp only [Urlencode.unquoteBytes, unquoteBytes, hc', hc, if_false, Bool.false_eq_true, ih2]

theorem hexU_hexUpper : ∀ n, n < 16 → hexU n = Char.ofNat (Urlencode.hexUpper n).toNat := by decide

theorem pct_eq_pctChars (b : UInt8) : pct b = Urlencode.pctChars b := by
  have h1 := hexU_hexUpper (b.toNat / 16) (by have := b.toNat_lt; omega)
  have h2 := hexU_hexUpper (b.toNat % 16) (Nat.mod_lt _ (by decide))
  simp only [pct, Urlencode.pctChars, Urlencode.pct, List.map_cons, List.map_nil, h1, h2]
  congr 1

theorem decodeQ_cons (fuel : Nat) (b0 : UInt8) (t : Bytes) : decodeQ (fuel+1) (b0::t) =
    render (firstItem b0 t) ++ decodeQ fuel (t.drop ((firstItem b0 t).raw.length - 1)) := by
  simp [decodeQ, items]

theorem render_bad_eq {span : Bytes} (h : ∀ b ∈ span, 0x80 ≤ b) :
    render (.bad span) = span.flatMap Urlencode.pctChars := by
  simp only [render, requote_bad h]
  congr 1
  funext b
  exact pct_eq_pctChars b

/-- `render` with C02's spelling of the re-quoted bytes -/
def renderU : Item → Str
  | .chr c _ => [c]
  | .bad span => span.flatMap Urlencode.pctChars

theorem render_firstItem_eq (b0 : UInt8) (t : Bytes) : render (firstItem b0 t) = renderU (firstItem b0 t) := by
  rcases firstItem_cases b0 t with ⟨_, h⟩ | ⟨span, h, hs⟩ | ⟨c, raw, h, _⟩
  · rw [h]; rfl
  · rw [h, render_bad_eq hs]; rfl
  · rw [h]; rfl

set_option maxRecDepth 8192 in
/-- the re-quoting scanner of C02's model is C15's decoder (every branch of the scanner: lead byte
class, admissible range of the first continuation byte, number of continuation bytes present) -/
theorem decodeQuoteFuel_eq (fuel : Nat) (bs : Bytes) : Urlencode.decodeQuoteFuel fuel bs = decodeQ fuel bs := by
  fun_induction Urlencode.decodeQuoteFuel fuel bs
  all_goals try (simp [decodeQ, items]; done)
  all_goals rw [decodeQ_cons, render_firstItem_eq]
  all_goals try simp +zetaDelta only [Urlencode.inRange, Bool.and_eq_true, decide_eq_true_eq, beq_iff_eq] at *
  all_goals simp [firstItem, leadInfo, takeCont, Py.inRange, renderU, Item.raw, codePoint, *]
  all_goals (congr 1; omega)

/-- what Lean core's strict decoder accepts is the encoding of what it returns -/
theorem utf8Dec_some {bs : Bytes} {s : List Char} (h : utf8Dec? bs = some s) : bs = utf8Enc s := by
  unfold utf8Dec? at h
  cases hd : ByteArray.utf8Decode? bs.toByteArray with
  | none => rw [hd] at h; cases h
  | some a =>
    rw [hd] at h
    simp only [Option.map_some, Option.some.injEq] at h
    have hs : (ByteArray.utf8Decode? bs.toByteArray).isSome := by rw [hd]; rfl
    have := @ByteArray.utf8Encode_get_utf8Decode? bs.toByteArray hs
    have hg : (ByteArray.utf8Decode? bs.toByteArray).get hs = a := by simp [hd]
    rw [hg, h] at this
    simp only [List.utf8Encode] at this
    have h2 := congrArg (fun b => b.data.toList) this
    simpa [utf8Enc] using h2.symm

/-- `bytes.decode("utf-8", "werkzeug.url_quote")`: the two models agree on every byte string -/
theorem decodeUrlQuote_eq (bs : Bytes) : Urlencode.decodeUrlQuote bs = decodeQ (bs.length + 1) bs := by
  unfold Urlencode.decodeUrlQuote
  cases h : utf8Dec? bs with
  | none => exact decodeQuoteFuel_eq _ _
  | some s =>
    have := utf8Dec_some h
    subst this
    simp only
    rw [decodeQ_eq (Nat.le_succ _), decode_utf8Enc render (fun _ _ => rfl)]

theorem flushRun_eq (acc : Bytes) : Urlencode.flushRun acc = unquoteRun acc.reverse := by
  unfold Urlencode.flushRun unquoteRun
  cases acc with
  | nil => simp [unquoteBytes, decodeQ, items]
  | cons b t =>
    simp only [List.isEmpty_cons, Bool.false_eq_true, if_false]
    rw [unquoteBytes_eq, decodeUrlQuote_eq]

theorem unquoteGo_eq : ∀ (s : Str) (acc : Bytes), Urlencode.unquoteGo acc s = unquoteAux s acc
  | [], acc => by simp [Urlencode.unquoteGo, unquoteAux, flushRun_eq]
  | c :: t, acc => by
    simp only [Urlencode.unquoteGo, unquoteAux]
    split
    · exact unquoteGo_eq t _
    · rw [flushRun_eq, unquoteGo_eq t []]

/-- **the two models of `unquote(s, "utf-8", "werkzeug.url_quote")` are equal** on every string -/
theorem unquote_models_eq (s : Str) : Urlencode.unquote s = unquote s :=
  unquoteGo_eq s []

end Wz.Url
