/-
Helper lemmas for the test-client side of C02 (Model/MultipartClient.lean).
-/
import WzVerif.Model.MultipartClient
import WzVerif.Lemmas.MultipartChunks
namespace Wz.Multipart
open Wz

theorem clientPartEvents_eq (guess : Str → Option Str) (key : Str) (v : ClientValue) :
    clientPartEvents guess key v = chunkedEvents (clientPart guess key v) := rfl

theorem clientEvents_eq (guess : Str → Option Str) (items : List (Str × ClientValue)) :
    clientEvents guess items =
      .preamble [] :: ((items.map fun kv => clientPart guess kv.1 kv.2).flatMap chunkedEvents ++ [.epilogue []]) := by
  simp [clientEvents, List.flatMap_map, clientPartEvents_eq]

theorem clientPart_pieces (guess : Str → Option Str) (key : Str) (v : ClientValue) :
    (clientPart guess key v).2.1.flatten ++ (clientPart guess key v).2.2 = (clientPart guess key v).1.payload := by
  cases v with
  | text s => simp [clientPart]
  | file content fn headers =>
    simp [clientPart, readChunks_flatten clientChunkSize content.length [] content (Nat.le_refl _)]

/-- the parts a list of pairs is sent as -/
def clientParts (guess : Str → Option Str) (items : List (Str × ClientValue)) : List Part :=
  items.map fun kv => (clientPart guess kv.1 kv.2).1

/-- the test client's event order is one the encoder accepts, and it writes the standard body -/
theorem clientEncode_eq {bnd : Bytes} (guess : Str → Option Str) (items : List (Str × ClientValue))
    (hv : ∀ p ∈ clientParts guess items, ValidPart .crlf bnd p) :
    clientEncode guess bnd items = .ok (encBody .crlf bnd stdEp (clientParts guess items)) := by
  unfold clientEncode
  rw [clientEvents_eq]
  have := encodeEvents_chunked (bnd := bnd) (items.map fun kv => clientPart guess kv.1 kv.2) (by
    intro c hc
    rcases List.mem_map.1 hc with ⟨kv, hkv, rfl⟩
    exact ⟨hv _ (List.mem_map.2 ⟨kv, hkv, rfl⟩), clientPart_pieces guess kv.1 kv.2⟩)
  rw [this]
  simp [clientParts, List.map_map, Function.comp_def]

/-! ### what the form parser makes of those parts -/

/-- what `Request.form` / `Request.files` must show for the pairs: text values as fields, file values
(with a file name) as files whose headers are the Content-Disposition line the encoder wrote followed
by the value's headers with Content-Type set -/
def clientExpected (guess : Str → Option Str) : List (Str × ClientValue) → FormOut
  | [] => ([], [])
  | (key, .text v) :: t =>
    let r := clientExpected guess t
    ((some key, v) :: r.1, r.2)
  | (key, .file content fn headers) :: t =>
    let r := clientExpected guess t
    (r.1, ⟨some key, fn.getD [],
      cdHeader key fn :: hdrSet "Content-Type".toList (clientContentType guess fn headers) headers,
      content⟩ :: r.2)

/-- every file value carries a file name (a `FileStorage` without one is sent as a plain field) -/
def filesNamed : List (Str × ClientValue) → Bool
  | [] => true
  | (_, .text _) :: t => filesNamed t
  | (_, .file _ fn _) :: t => fn.isSome && filesNamed t

theorem headerGet_cd_contentType (key : Str) (fn : Option Str) (h : Headers) :
    headerGet "content-type".toList (cdHeader key fn :: h) = headerGet "content-type".toList h := by
  have : (lowerAscii kCD == "content-type".toList) = false := by decide +kernel
  simp only [headerGet, cdHeader, this, Bool.false_eq_true, if_false]

theorem formOfParts_client (guess : Str → Option Str) (items : List (Str × ClientValue))
    (hn : filesNamed items = true) (acc : FormOut) :
    formOfParts acc ((clientParts guess items).map decodedPart) =
      .ok (acc.1 ++ (clientExpected guess items).1, acc.2 ++ (clientExpected guess items).2) := by
  induction items generalizing acc with
  | nil => simp [clientParts, formOfParts, clientExpected]
  | cons kv t ih =>
    rcases kv with ⟨key, v⟩
    cases v with
    | text s =>
      have ht : filesNamed t = true := by simpa [filesNamed] using hn
      simp only [clientParts, List.map_cons, formOfParts]
      have hfin : finishP acc (decodedPart (clientPart guess key (.text s)).1) =
          .ok (acc.1 ++ [(some key, s)], acc.2) := by
        simp only [finishP, decodedPart, clientPart, nameOf]
        simp only [Bool.false_eq_true, if_false]
        have hcs : partCharset (cdHeader ((some key : Option Str).getD []) none :: []) = .ok "utf-8".toList := by
          simp only [partCharset, headerGet_cd_contentType]
          rfl
        simp only [hcs]
        simp [decodeCharset, Py.decodeReplace_utf8Enc]
      rw [hfin]
      simp only
      have := ih ht (acc.1 ++ [(some key, s)], acc.2)
      simp only [clientParts] at this
      rw [this]
      simp [clientExpected]
    | file content fn headers =>
      have hn' : fn.isSome = true ∧ filesNamed t = true := by simpa [filesNamed] using hn
      rcases hn' with ⟨hfn, ht⟩
      simp only [clientParts, List.map_cons, formOfParts]
      cases fn with
      | none => simp at hfn
      | some f =>
        have hfin : finishP acc (decodedPart (clientPart guess key (.file content (some f) headers)).1) =
            .ok (acc.1, acc.2 ++ [⟨some key, f,
              cdHeader key (some f) :: hdrSet "Content-Type".toList (clientContentType guess (some f) headers) headers,
              content⟩]) := by
          simp [finishP, decodedPart, clientPart, nameOf]
        rw [hfin]
        simp only
        have := ih ht (acc.1, acc.2 ++ [⟨some key, f,
              cdHeader key (some f) :: hdrSet "Content-Type".toList (clientContentType guess (some f) headers) headers,
              content⟩])
        simp only [clientParts] at this
        rw [this]
        simp [clientExpected]

/-- `Headers.set` makes the value the one `Headers.get` returns -/
theorem headerGet_hdrSet (key value : Str) (h : Headers) :
    headerGet (lowerAscii key) (hdrSet key value h) = some value := by
  induction h with
  | nil => simp [hdrSet, headerGet]
  | cons kv t ih =>
    rcases kv with ⟨k, v⟩
    cases hk : lowerAscii k == lowerAscii key <;> simp [hdrSet, headerGet, hk, ih]

end Wz.Multipart
