/-
Helper lemmas for C14 (path normalisation, safe_join, secure_filename). Core Lean only.
-/
import WzVerif.Model.Paths
namespace Wz.Paths

/-! ### split / join on "/" -/

theorem splitAux_nosep (s : Str) : sep ∉ (splitAux s).1 ∧ ∀ c ∈ (splitAux s).2, sep ∉ c := by
  induction s with
  | nil => simp [splitAux]
  | cons c t ih =>
    by_cases h : c = sep
    · simp only [splitAux, h, if_true]
      refine ⟨by simp, ?_⟩
      intro x hx
      rcases List.mem_cons.mp hx with rfl | hx
      · exact ih.1
      · exact ih.2 x hx
    · simp only [splitAux, h, if_false]
      refine ⟨?_, ih.2⟩
      intro hm
      rcases List.mem_cons.mp hm with e | hm
      · exact h e.symm
      · exact ih.1 hm

theorem splitSep_nosep (s : Str) : ∀ c ∈ splitSep s, sep ∉ c := by
  intro c hc
  rcases List.mem_cons.mp hc with rfl | hc
  · exact (splitAux_nosep s).1
  · exact (splitAux_nosep s).2 c hc

theorem splitSep_cons_sep (t : Str) : splitSep (sep :: t) = [] :: splitSep t := by
  simp [splitSep, splitAux]

theorem splitSep_cons_ne {c : Char} (h : c ≠ sep) (t : Str) :
    splitSep (c :: t) = (c :: (splitAux t).1) :: (splitAux t).2 := by
  simp [splitSep, splitAux, h]

theorem splitSep_append_sep (a b : Str) : splitSep (a ++ sep :: b) = splitSep a ++ splitSep b := by
  induction a with
  | nil => simp [splitSep, splitAux]
  | cons c t ih =>
    by_cases h : c = sep
    · subst h
      rw [List.cons_append, splitSep_cons_sep, splitSep_cons_sep, ih]; rfl
    · rw [List.cons_append, splitSep_cons_ne h, splitSep_cons_ne h]
      have := ih
      simp only [splitSep, List.cons_append, List.cons.injEq] at this
      simp only [splitSep, List.cons_append, this.1, this.2]

theorem splitSep_of_nosep {c : Str} (h : sep ∉ c) : splitSep c = [c] := by
  induction c with
  | nil => rfl
  | cons x t ih =>
    have hx : x ≠ sep := fun e => h (by simp [e])
    have ht : sep ∉ t := fun m => h (List.mem_cons_of_mem _ m)
    have := ih ht
    simp only [splitSep, List.cons.injEq] at this
    rw [splitSep_cons_ne hx, this.1, this.2]

theorem splitSep_joinSep : ∀ (comps : List Str), comps ≠ [] → (∀ c ∈ comps, sep ∉ c) →
    splitSep (joinSep comps) = comps
  | [], h, _ => absurd rfl h
  | [c], _, h => by simpa [joinSep] using splitSep_of_nosep (h c (by simp))
  | c :: d :: t, _, h => by
    have hc := h c (by simp)
    have ht : ∀ x ∈ d :: t, sep ∉ x := fun x hx => h x (List.mem_cons_of_mem _ hx)
    simp only [joinSep]
    rw [splitSep_append_sep, splitSep_of_nosep hc, splitSep_joinSep (d :: t) (by simp) ht]
    rfl

/-! ### the normpath stack machine -/

/-- a component that normpath keeps and that is not `..` -/
def Clean (c : Str) : Prop := c ≠ [] ∧ c ≠ dot ∧ c ≠ dotdot ∧ sep ∉ c

instance (c : Str) : Decidable (Clean c) := by unfold Clean; infer_instance

/-- a component that is skipped (`""`, `"."`) or clean -/
def Harmless (c : Str) : Prop := c = [] ∨ c = dot ∨ Clean c

def skip (c : Str) : Bool := c == [] || c == dot

theorem step_skip {c : Str} (h : skip c = true) (abs : Bool) (stk : List Str) : step abs stk c = stk := by
  have : c = [] ∨ c = dot := by simpa [skip] using h
  simp [step, this]

theorem step_clean {c : Str} (h : Clean c) (abs : Bool) (stk : List Str) : step abs stk c = c :: stk := by
  obtain ⟨h1, h2, h3, _⟩ := h
  simp [step, h1, h2, h3]

theorem foldl_step_filter (abs : Bool) (xs : List Str) (stk : List Str) :
    xs.foldl (step abs) stk = (xs.filter (fun c => !skip c)).foldl (step abs) stk := by
  induction xs generalizing stk with
  | nil => rfl
  | cons c t ih =>
    by_cases h : skip c = true
    · simp [List.filter, h, step_skip h, ih]
    · have h' : skip c = false := by simpa using h
      simp [List.filter, h', ih]

theorem foldl_step_clean (abs : Bool) (cs : List Str) (h : ∀ c ∈ cs, Clean c) (stk : List Str) :
    cs.foldl (step abs) stk = cs.reverse ++ stk := by
  induction cs generalizing stk with
  | nil => rfl
  | cons c t ih =>
    simp only [List.foldl_cons, step_clean (h c (by simp))]
    rw [ih (fun x hx => h x (List.mem_cons_of_mem _ hx))]
    simp

/-- stack invariant: clean components on top of a block of `..` (none when absolute) -/
def Inv (abs : Bool) (stk : List Str) : Prop :=
  ∃ k rest, stk = rest ++ List.replicate k dotdot ∧ (abs = true → k = 0) ∧ ∀ c ∈ rest, Clean c

theorem inv_nil (abs : Bool) : Inv abs [] := ⟨0, [], rfl, fun _ => rfl, by simp⟩

theorem classify (c : Str) (h : sep ∉ c) : c = [] ∨ c = dot ∨ c = dotdot ∨ Clean c := by
  by_cases h1 : c = []
  · exact Or.inl h1
  by_cases h2 : c = dot
  · exact Or.inr (Or.inl h2)
  by_cases h3 : c = dotdot
  · exact Or.inr (Or.inr (Or.inl h3))
  exact Or.inr (Or.inr (Or.inr ⟨h1, h2, h3, h⟩))

theorem step_inv {abs : Bool} {stk : List Str} (hi : Inv abs stk) {c : Str} (hc : sep ∉ c) :
    Inv abs (step abs stk c) := by
  rcases classify c hc with h | h | h | h
  · rw [step_skip (by simp [skip, h])]; exact hi
  · rw [step_skip (by simp [skip, h])]; exact hi
  · subst h
    obtain ⟨k, rest, rfl, hk, hr⟩ := hi
    cases rest with
    | nil =>
      cases k with
      | zero =>
        cases abs with
        | false => exact ⟨1, [], by simp [step, dotdot, dot, List.replicate], by simp, by simp⟩
        | true => exact ⟨0, [], by simp [step, dotdot, dot], by simp, by simp⟩
      | succ k =>
        have : abs = false := by
          cases abs with
          | false => rfl
          | true => exact absurd (hk rfl) (by simp)
        subst this
        refine ⟨k + 2, [], ?_, by simp, by simp⟩
        simp [step, dotdot, dot, List.replicate]
    | cons r rest =>
      have hr0 : Clean r := hr r (by simp)
      have hne : r ≠ dotdot := hr0.2.2.1
      refine ⟨k, rest, ?_, hk, fun x hx => hr x (List.mem_cons_of_mem _ hx)⟩
      have h1 : ¬ (some r = some dotdot) := by simpa using hne
      simp [step, dotdot, dot] at h1 ⊢
      simp [h1]
  · rw [step_clean h]
    obtain ⟨k, rest, rfl, hk, hr⟩ := hi
    refine ⟨k, c :: rest, by simp, hk, ?_⟩
    intro x hx
    rcases List.mem_cons.mp hx with rfl | hx
    · exact h
    · exact hr x hx

theorem foldl_step_inv {abs : Bool} (cs : List Str) (hcs : ∀ c ∈ cs, sep ∉ c) {stk : List Str}
    (hi : Inv abs stk) : Inv abs (cs.foldl (step abs) stk) := by
  induction cs generalizing stk with
  | nil => exact hi
  | cons c t ih =>
    exact ih (fun x hx => hcs x (List.mem_cons_of_mem _ hx)) (step_inv hi (hcs c (by simp)))

theorem normSegs_inv (p : Str) : Inv (initialSlashes p != 0) ((splitSep p).foldl (step (initialSlashes p != 0)) []) :=
  foldl_step_inv _ (splitSep_nosep p) (inv_nil _)

/-! ### leading slashes -/

theorem lead_append_nohead (a b : Str) (hb : b.head? ≠ some sep) : lead (a ++ b) = lead a := by
  induction a with
  | nil =>
    cases b with
    | nil => rfl
    | cons x t =>
      have : x ≠ sep := by simpa using hb
      simp [lead, this]
  | cons c t ih => simp [lead, ih]

theorem lead_append_mem (a x : Str) (h : ∃ c ∈ a, c ≠ sep) : lead (a ++ x) = lead a := by
  induction a with
  | nil => simp at h
  | cons c t ih =>
    by_cases hc : c = sep
    · subst hc
      have : ∃ c ∈ t, c ≠ sep := by
        obtain ⟨y, hy, hne⟩ := h
        rcases List.mem_cons.mp hy with rfl | hy
        · exact absurd rfl hne
        · exact ⟨y, hy, hne⟩
      simp [lead, ih this]
    · simp [lead, hc]

/-! ### posixpath.join with components that do not start with "/" -/

def keep (s : Str) : List Str := (splitSep s).filter (fun c => !skip c)

theorem joinStep_spec {path b : Str} (hp : path ≠ []) (hb : b.head? ≠ some sep) :
    joinStep path b ≠ [] ∧ lead (joinStep path b) = lead path ∧
    keep (joinStep path b) = keep path ++ keep b := by
  unfold joinStep
  rw [if_neg hb]
  by_cases hl : path.getLast? = some sep
  · rw [if_pos (Or.inr hl)]
    obtain ⟨q, rfl⟩ := List.getLast?_eq_some_iff.mp hl
    refine ⟨by simp, ?_, ?_⟩
    · exact lead_append_nohead _ _ hb
    · have e1 : splitSep (q ++ [sep]) = splitSep q ++ [[]] := splitSep_append_sep q []
      simp [keep, e1, splitSep_append_sep, List.filter_append, skip]
  · have hne : ¬ (path = [] ∨ path.getLast? = some sep) := by
      intro h; rcases h with h | h
      · exact hp h
      · exact hl h
    rw [if_neg hne]
    refine ⟨by simp, ?_, ?_⟩
    · apply lead_append_mem
      cases hq : path.getLast? with
      | none => exact absurd (List.getLast?_eq_none_iff.mp hq) hp
      | some c =>
        obtain ⟨q, rfl⟩ := List.getLast?_eq_some_iff.mp hq
        refine ⟨c, by simp, ?_⟩
        intro e; subst e; exact hl hq
    · simp [keep, splitSep_append_sep]

theorem join_spec (fs : List Str) (hfs : ∀ f ∈ fs, f.head? ≠ some sep) {path : Str} (hp : path ≠ []) :
    lead (join path fs) = lead path ∧ keep (join path fs) = keep path ++ (fs.map keep).flatten := by
  induction fs generalizing path with
  | nil => simp [join]
  | cons f t ih =>
    obtain ⟨h1, h2, h3⟩ := joinStep_spec hp (hfs f (by simp))
    have := ih (fun x hx => hfs x (List.mem_cons_of_mem _ hx)) h1
    simp only [join, List.foldl_cons] at this ⊢
    rw [this.1, this.2, h2, h3]
    simp

/-! ### what `safe_join` accepts -/

theorem head_joinSep_ne {comps : List Str} (h : ∀ c ∈ comps, c ≠ [] ∧ sep ∉ c) :
    (joinSep comps).head? ≠ some sep := by
  match comps, h with
  | [], _ => simp [joinSep]
  | [c], h =>
    obtain ⟨h1, h2⟩ := h c (by simp)
    cases c with
    | nil => exact absurd rfl h1
    | cons x t => simp only [joinSep, List.head?_cons]; intro e; apply h2; simp at e; simp [e]
  | c :: d :: t, h =>
    obtain ⟨h1, h2⟩ := h c (by simp)
    cases c with
    | nil => exact absurd rfl h1
    | cons x t => simp only [joinSep, List.cons_append, List.head?_cons]; intro e; apply h2; simp at e; simp [e]

/-- the normal form written out: clean components after a block of `..` -/
theorem normSegs_shape (p : Str) : ∃ k rest, normSegs p = List.replicate k dotdot ++ rest ∧
    (initialSlashes p ≠ 0 → k = 0) ∧ ∀ c ∈ rest, Clean c := by
  obtain ⟨k, rest, h, hk, hr⟩ := normSegs_inv p
  refine ⟨k, rest.reverse, ?_, ?_, by simpa using hr⟩
  · simp [normSegs, normComps, h]
  · intro h0; apply hk; simpa using h0

theorem keep_of_clean {cs : List Str} (h : ∀ c ∈ cs, Clean c) (hne : cs ≠ []) : keep (joinSep cs) = cs := by
  unfold keep
  rw [splitSep_joinSep cs hne (fun c hc => (h c hc).2.2.2)]
  apply List.filter_eq_self.mpr
  intro c hc
  obtain ⟨h1, h2, _, _⟩ := h c hc
  simp [skip, h1, h2]

theorem checkComp_spec {alts : List Char} {f f' : Str} (h : checkComp alts f = some f') :
    f'.head? ≠ some sep ∧ ∀ c ∈ keep f', Clean c := by
  unfold checkComp at h
  generalize hg : (if f = [] then f else normpath f) = g at h
  simp only [Bool.or_eq_true, decide_eq_true_eq] at h
  split at h
  · cases h
  rename_i hcond
  cases h
  simp only [not_or] at hcond
  obtain ⟨⟨⟨⟨_, _⟩, hhead⟩, hdd⟩, hpre⟩ := hcond
  have hf' : f' = if f = [] then f else normpath f := hg.symm
  refine ⟨hhead, ?_⟩
  by_cases hf : f = []
  · simp [hf] at hf'; subst hf'; simp [keep, splitSep, splitAux, skip]
  · rw [if_neg hf] at hf'
    obtain ⟨k, rest, hs, hk, hr⟩ := normSegs_shape f
    unfold normpath at hf'
    rw [if_neg hf] at hf'
    -- the result is relative: no leading slash
    have h0 : initialSlashes f = 0 := by
      by_cases h0 : initialSlashes f = 0
      · exact h0
      · exfalso
        have hk0 := hk h0
        subst hk0
        obtain ⟨n, hn⟩ : ∃ n, initialSlashes f = n + 1 := ⟨initialSlashes f - 1, by omega⟩
        simp [hn, List.replicate_succ] at hf'
        subst hf'
        exact hhead (by simp)
    simp only [h0, List.replicate_zero, List.nil_append] at hf'
    cases k with
    | succ k =>
      exfalso
      -- the first component is `..`: refused
      cases hrest : (List.replicate k dotdot ++ rest) with
      | nil =>
        have : normSegs f = [dotdot] := by rw [hs, List.replicate_succ, List.cons_append, hrest]
        simp [this, joinSep, dotdot] at hf'
        exact hdd (by simp [hf', dotdot])
      | cons d t =>
        have : normSegs f = dotdot :: d :: t := by rw [hs, List.replicate_succ, List.cons_append, hrest]
        simp [this, joinSep, dotdot] at hf'
        apply hpre
        simp [hf', List.isPrefixOf, sep]
    | zero =>
      simp only [List.replicate_zero, List.nil_append] at hs
      by_cases hr0 : rest = []
      · simp [hs, hr0, joinSep] at hf'
        subst hf'
        simp [keep, splitSep, splitAux, skip, dot, sep]
      · have hne : joinSep rest ≠ [] := by
          cases rest with
          | nil => exact absurd rfl hr0
          | cons c t =>
            have := (hr c (by simp)).1
            cases c with
            | nil => exact absurd rfl this
            | cons x y => cases t <;> simp [joinSep]
        rw [hs, if_neg hne] at hf'
        subst hf'
        rw [keep_of_clean hr hr0]
        exact hr

theorem checkAll_spec {alts : List Char} : ∀ {ps fs : List Str}, checkAll alts ps = some fs →
    ∀ f ∈ fs, f.head? ≠ some sep ∧ ∀ c ∈ keep f, Clean c
  | [], fs, h => by simp [checkAll] at h; subst h; simp
  | g :: t, fs, h => by
    simp only [checkAll] at h
    cases hg : checkComp alts g with
    | none => simp [hg] at h
    | some g' =>
      simp only [hg] at h
      cases ht : checkAll alts t with
      | none => simp [ht] at h
      | some fs' =>
        simp [ht] at h
        subst h
        intro f hf
        rcases List.mem_cons.mp hf with rfl | hf
        · exact checkComp_spec hg
        · exact checkAll_spec ht f hf

theorem normSegs_eq_keep (p : Str) :
    normSegs p = ((keep p).foldl (step (initialSlashes p != 0)) []).reverse := by
  simp [normSegs, normComps, keep, ← foldl_step_filter]

theorem initialSlashes_of_lead {a b : Str} (h : lead a = lead b) : initialSlashes a = initialSlashes b := by
  simp [initialSlashes, h]

/-- core of the containment argument, for a non-empty base directory -/
theorem join_contained {d : Str} (hd : d ≠ []) {fs : List Str}
    (hfs : ∀ f ∈ fs, f.head? ≠ some sep ∧ ∀ c ∈ keep f, Clean c) :
    ∃ extra, normSegs (join d fs) = normSegs d ++ extra ∧ (∀ c ∈ extra, Clean c) ∧
      initialSlashes (join d fs) = initialSlashes d := by
  obtain ⟨hl, hk⟩ := join_spec fs (fun f hf => (hfs f hf).1) hd
  have hi := initialSlashes_of_lead hl
  refine ⟨(fs.map keep).flatten, ?_, ?_, hi⟩
  · have hclean : ∀ c ∈ (fs.map keep).flatten, Clean c := by
      intro c hc
      obtain ⟨l, hl, hcl⟩ := List.mem_flatten.mp hc
      obtain ⟨f, hf, rfl⟩ := List.mem_map.mp hl
      exact (hfs f hf).2 c hcl
    rw [normSegs_eq_keep, normSegs_eq_keep d, hk, hi, List.foldl_append, foldl_step_clean _ _ hclean]
    simp
  · intro c hc
    obtain ⟨l, hl, hcl⟩ := List.mem_flatten.mp hc
    obtain ⟨f, hf, rfl⟩ := List.mem_map.mp hl
    exact (hfs f hf).2 c hcl

theorem safeJoinWith_contained {alts : List Char} {d : Str} {ps : List Str} {p : Str}
    (h : safeJoinWith alts d ps = some p) :
    ∃ extra, normSegs p = normSegs d ++ extra ∧ (∀ c ∈ extra, Clean c) ∧
      initialSlashes p = initialSlashes d := by
  unfold safeJoinWith at h
  cases hc : checkAll alts ps with
  | none => simp [hc] at h
  | some fs =>
    simp [hc] at h
    subst h
    by_cases hd : d = []
    · subst hd
      have e1 : normSegs ([] : Str) = normSegs dot := by decide
      have e2 : initialSlashes ([] : Str) = initialSlashes dot := by decide
      rw [e1, e2]
      simpa using join_contained (d := dot) (by simp [dot]) (checkAll_spec hc)
    · simpa [hd] using join_contained hd (checkAll_spec hc)

/-! ### the text of the normal form -/

theorem segments_eq_keep (s : Str) : segments s = keep s := rfl

theorem joinSep_eq_nil {cs : List Str} (h : ∀ c ∈ cs, c ≠ []) (he : joinSep cs = []) : cs = [] := by
  match cs, h, he with
  | [], _, _ => rfl
  | [c], h, he => exact absurd (by simpa [joinSep] using he) (h c (by simp))
  | c :: d :: t, _, he => simp [joinSep] at he

theorem keep_joinSep {cs : List Str} (h : ∀ c ∈ cs, c ≠ [] ∧ c ≠ dot ∧ sep ∉ c) : keep (joinSep cs) = cs := by
  by_cases hne : cs = []
  · subst hne; simp [keep, joinSep, splitSep, splitAux, skip]
  · unfold keep
    rw [splitSep_joinSep cs hne (fun c hc => (h c hc).2.2)]
    apply List.filter_eq_self.mpr
    intro c hc
    obtain ⟨h1, h2, _⟩ := h c hc
    simp [skip, h1, h2]

theorem keep_replicate_sep (k : Nat) (x : Str) : keep (List.replicate k sep ++ x) = keep x := by
  induction k with
  | zero => simp
  | succ k ih =>
    rw [List.replicate_succ, List.cons_append]
    unfold keep at ih ⊢
    rw [splitSep_cons_sep, List.filter_cons]
    simpa [skip] using ih

theorem lead_replicate_sep (k : Nat) (x : Str) (hx : x.head? ≠ some sep) :
    lead (List.replicate k sep ++ x) = k := by
  induction k with
  | zero =>
    cases x with
    | nil => rfl
    | cons c t =>
      have : c ≠ sep := by simpa using hx
      simp [lead, this]
  | succ k ih => simp [List.replicate_succ, lead, ih]

theorem seg_of_normSegs (p : Str) : ∀ c ∈ normSegs p, c ≠ [] ∧ c ≠ dot ∧ sep ∉ c := by
  obtain ⟨k, rest, hs, _, hr⟩ := normSegs_shape p
  intro c hc
  rw [hs] at hc
  rcases List.mem_append.mp hc with hc | hc
  · have := List.eq_of_mem_replicate hc
    subst this
    simp [dotdot, dot, sep]
  · obtain ⟨h1, h2, _, h4⟩ := hr c hc
    exact ⟨h1, h2, h4⟩

theorem initialSlashes_le (p : Str) : initialSlashes p = 0 ∨ initialSlashes p = 1 ∨ initialSlashes p = 2 := by
  unfold initialSlashes
  split <;> simp

theorem initialSlashes_of_lead_eq {x : Str} {k : Nat} (h : lead x = k) (hk : k = 0 ∨ k = 1 ∨ k = 2) :
    initialSlashes x = k := by
  unfold initialSlashes
  rcases hk with rfl | rfl | rfl <;> simp [h]

/-- the text `normpath` returns, for a non-empty path -/
def render (k : Nat) (segs : List Str) : Str :=
  if List.replicate k sep ++ joinSep segs = [] then dot else List.replicate k sep ++ joinSep segs

theorem normpath_eq_render {p : Str} (hp : p ≠ []) : normpath p = render (initialSlashes p) (normSegs p) := by
  simp [normpath, render, hp]

theorem render_spec {k : Nat} {segs : List Str} (hk : k = 0 ∨ k = 1 ∨ k = 2)
    (h : ∀ c ∈ segs, c ≠ [] ∧ c ≠ dot ∧ sep ∉ c) :
    render k segs ≠ [] ∧ keep (render k segs) = segs ∧ initialSlashes (render k segs) = k := by
  unfold render
  split
  · rename_i he
    have he' := List.append_eq_nil_iff.mp he
    have hk0 : k = 0 := by simpa using he'.1
    have hs : segs = [] := joinSep_eq_nil (fun c hc => (h c hc).1) he'.2
    subst hk0 hs
    refine ⟨by simp [dot], by simp [keep, splitSep, splitAux, skip, dot, sep], by decide⟩
  · rename_i hne
    refine ⟨hne, ?_, ?_⟩
    · rw [keep_replicate_sep, keep_joinSep h]
    · apply initialSlashes_of_lead_eq _ hk
      apply lead_replicate_sep
      exact head_joinSep_ne (fun c hc => ⟨(h c hc).1, (h c hc).2.2⟩)

theorem segments_normpath (p : Str) : segments (normpath p) = normSegs p := by
  by_cases hp : p = []
  · subst hp; decide
  · rw [segments_eq_keep, normpath_eq_render hp]
    exact (render_spec (initialSlashes_le p) (seg_of_normSegs p)).2.1

theorem initialSlashes_normpath (p : Str) : initialSlashes (normpath p) = initialSlashes p := by
  by_cases hp : p = []
  · subst hp; decide
  · rw [normpath_eq_render hp]
    exact (render_spec (initialSlashes_le p) (seg_of_normSegs p)).2.2

theorem normpath_ne_nil (p : Str) : normpath p ≠ [] := by
  by_cases hp : p = []
  · subst hp; decide
  · rw [normpath_eq_render hp]
    exact (render_spec (initialSlashes_le p) (seg_of_normSegs p)).1

theorem foldl_step_dotdots (i j : Nat) :
    (List.replicate j dotdot).foldl (step false) (List.replicate i dotdot) = List.replicate (i + j) dotdot := by
  induction j generalizing i with
  | zero => simp
  | succ j ih =>
    rw [List.replicate_succ, List.foldl_cons]
    have : step false (List.replicate i dotdot) dotdot = List.replicate (i + 1) dotdot := by
      cases i with
      | zero => simp [step, dotdot, dot]
      | succ i => simp [step, dotdot, dot, List.replicate_succ]
    rw [this, ih]
    congr 1; omega

/-- the stack machine maps a normal form to itself -/
theorem normComps_normal {abs : Bool} {k : Nat} {rest : List Str} (hk : abs = true → k = 0)
    (hr : ∀ c ∈ rest, Clean c) :
    normComps abs (List.replicate k dotdot ++ rest) = List.replicate k dotdot ++ rest := by
  unfold normComps
  rw [List.foldl_append]
  have h1 : (List.replicate k dotdot).foldl (step abs) [] = List.replicate k dotdot := by
    cases abs with
    | true => simp [hk rfl]
    | false => simpa using foldl_step_dotdots 0 k
  rw [h1, foldl_step_clean _ _ hr]
  simp

theorem normSegs_normpath (p : Str) : normSegs (normpath p) = normSegs p := by
  have hseg := segments_normpath p
  have hi := initialSlashes_normpath p
  rw [segments_eq_keep] at hseg
  obtain ⟨k, rest, hs, hk, hr⟩ := normSegs_shape p
  have : normSegs (normpath p) = normComps (initialSlashes p != 0) (keep (normpath p)) := by
    rw [normSegs_eq_keep, hi]; rfl
  rw [this, hseg, hs]
  apply normComps_normal _ hr
  intro h; apply hk; simpa using h

theorem normpath_idem (p : Str) : normpath (normpath p) = normpath p := by
  by_cases hp : p = []
  · subst hp; decide
  · rw [normpath_eq_render (normpath_ne_nil p), normSegs_normpath, initialSlashes_normpath,
      ← normpath_eq_render hp]

theorem isabs_iff (p : Str) : isabs p = true ↔ initialSlashes p ≠ 0 := by
  cases p with
  | nil => simp [isabs, initialSlashes, lead]
  | cons c t =>
    by_cases h : c = sep
    · subst h
      simp only [isabs, List.head?_cons, decide_true, initialSlashes, lead, if_true, true_iff]
      split <;> simp_all
    · simp [isabs, initialSlashes, lead, h]

/-! ### secure_filename -/

/-- `[A-Za-z0-9_.-]` by code point -/
def allowedNat (n : Nat) : Bool :=
  (48 ≤ n && n ≤ 57) || (65 ≤ n && n ≤ 90) || (97 ≤ n && n ≤ 122) || n == 95 || n == 46 || n == 45

def allowed (c : Char) : Bool := allowedNat c.toNat

/-- The regenerated `_filename_ascii_strip_re` table keeps exactly `[A-Za-z0-9_.-]` below 0x80 ... -/
theorem strip_table : ∀ n, n < 128 → (!tbl Gen.Paths.stripRe n) = allowedNat n := by decide +kernel

/-- ... and removes every code point above 0x7f. -/
theorem strip_high : Gen.Paths.stripReHigh = true := by decide

theorem allowedNat_lt {n : Nat} (h : allowedNat n = true) : n < 128 := by
  simp [allowedNat] at h; omega

theorem not_stripped_iff (c : Char) : stripped c = false ↔ allowed c = true := by
  unfold stripped allowed
  by_cases h : c.toNat < 128
  · have := strip_table c.toNat h
    rw [if_pos h, ← this]; simp
  · rw [if_neg h, strip_high]
    constructor
    · intro h'; cases h'
    · intro h'; exact absurd (allowedNat_lt h') h

theorem spaces_not_allowed : ∀ n ∈ Gen.Paths.pySpaces, allowedNat n = false := by decide +kernel

theorem seps_not_allowed : ∀ c ∈ Gen.Paths.osSeps, allowed c = false := by decide

theorem allowed_not_space {c : Char} (h : allowed c = true) : isSpace c = false := by
  unfold isSpace
  cases hc : Gen.Paths.pySpaces.contains c.toNat with
  | false => rfl
  | true =>
    have hm : c.toNat ∈ Gen.Paths.pySpaces := by simpa using hc
    have := spaces_not_allowed _ hm
    unfold allowed at h
    rw [h] at this; cases this

theorem allowed_not_sep {c : Char} (h : allowed c = true) : Gen.Paths.osSeps.contains c = false := by
  cases hc : Gen.Paths.osSeps.contains c with
  | false => rfl
  | true =>
    have hm : c ∈ Gen.Paths.osSeps := by simpa using hc
    have := seps_not_allowed _ hm
    rw [h] at this; cases this

theorem mem_stripOf {chars s : Str} {c : Char} (h : c ∈ stripOf chars s) : c ∈ s := by
  unfold stripOf at h
  have h1 := List.mem_reverse.mp h
  have h2 := (List.dropWhile_suffix _).subset h1
  have h3 := List.mem_reverse.mp h2
  exact (List.dropWhile_suffix _).subset h3

theorem head_stripOf {chars s : Str} {c : Char} (h : (stripOf chars s).head? = some c) :
    chars.contains c = false := by
  unfold stripOf at h
  generalize hy : s.dropWhile (chars.contains ·) = y at h
  have hsuf : y.reverse.dropWhile (chars.contains ·) <:+ y.reverse := List.dropWhile_suffix _
  have hpre : (y.reverse.dropWhile (chars.contains ·)).reverse <+: y := by
    rw [← List.reverse_suffix]; simpa using hsuf
  obtain ⟨w, hw⟩ := hpre
  have hh : y.head? = some c := by
    rw [← hw]
    cases hz : (y.reverse.dropWhile (chars.contains ·)).reverse with
    | nil => rw [hz] at h; cases h
    | cons a t => rw [hz] at h; simpa using h
  have := List.head?_dropWhile_not (chars.contains ·) s
  rw [hy, hh] at this
  simpa using this

theorem last_stripOf {chars s : Str} {c : Char} (h : (stripOf chars s).getLast? = some c) :
    chars.contains c = false := by
  unfold stripOf at h
  rw [List.getLast?_reverse] at h
  have := List.head?_dropWhile_not (chars.contains ·) (s.dropWhile (chars.contains ·)).reverse
  rw [h] at this
  simpa using this

theorem dropWhile_id {p : Char → Bool} {s : Str} (h : ∀ c, s.head? = some c → p c = false) :
    s.dropWhile p = s := by
  cases s with
  | nil => rfl
  | cons x t => simp [List.dropWhile, h x (by simp)]

theorem stripOf_id {chars s : Str} (hh : ∀ c, s.head? = some c → chars.contains c = false)
    (hl : ∀ c, s.getLast? = some c → chars.contains c = false) : stripOf chars s = s := by
  unfold stripOf
  rw [dropWhile_id hh, dropWhile_id (s := s.reverse) (by simpa using hl)]
  simp

theorem wordsAux_nospace (r : Str) (h : ∀ c ∈ r, isSpace c = false) (cur : Str) :
    wordsAux r cur = if cur.reverse ++ r = [] then [] else [cur.reverse ++ r] := by
  induction r generalizing cur with
  | nil => simp [wordsAux]
  | cons x t ih =>
    have hx := h x (by simp)
    simp only [wordsAux, hx, Bool.false_eq_true, if_false]
    rw [ih (fun c hc => h c (List.mem_cons_of_mem _ hc))]
    simp

theorem pyWords_nospace (r : Str) (h : ∀ c ∈ r, isSpace c = false) :
    pyWords r = if r = [] then [] else [r] := by
  have := wordsAux_nospace r h []
  simp only [List.reverse_nil, List.nil_append] at this
  exact this

/-- a name that is already clean is a fixed point of the ASCII stage -/
theorem secureAscii_fix {r : Str} (ha : ∀ c ∈ r, allowed c = true)
    (hh : ∀ c, r.head? = some c → Gen.Paths.stripChars.contains c = false)
    (hl : ∀ c, r.getLast? = some c → Gen.Paths.stripChars.contains c = false) : secureAscii r = r := by
  have h1 : replaceSeps r = r := by
    unfold replaceSeps
    conv => rhs; rw [← List.map_id r]
    apply List.map_congr_left
    intro c hc
    simp only [allowed_not_sep (ha c hc), Bool.false_eq_true, if_false, id]
  have h2 : joinWith Gen.Paths.joinChars (pyWords r) = r := by
    rw [pyWords_nospace r (fun c hc => allowed_not_space (ha c hc))]
    by_cases hr : r = []
    · simp [hr, joinWith]
    · simp [hr, joinWith]
  have h3 : r.filter (fun c => !stripped c) = r := by
    apply List.filter_eq_self.mpr
    intro c hc
    simp [(not_stripped_iff c).mpr (ha c hc)]
  unfold secureAscii
  rw [h1, h2, h3, stripOf_id hh hl]

theorem secureAscii_allowed (s : Str) : ∀ c ∈ secureAscii s, allowed c = true := by
  intro c hc
  unfold secureAscii at hc
  have := mem_stripOf hc
  have := (List.mem_filter.mp this).2
  exact (not_stripped_iff c).mp (by simpa using this)

theorem secureAscii_idem (s : Str) : secureAscii (secureAscii s) = secureAscii s :=
  secureAscii_fix (secureAscii_allowed s) (fun _ h => head_stripOf h) (fun _ h => last_stripOf h)

end Wz.Paths
