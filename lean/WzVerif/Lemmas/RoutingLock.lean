/-
Invariant of the `Map.update` / `Map.add` protocol model (`Model/RoutingLock.lean`): for every program
pair satisfying the disciplines `UpdateOK` / `addOK`, any number of threads and every interleaving in
which `add()` threads do not move while the lock is held, a thread leaving `update()` sees both
structures sorted with respect to every rule added before it entered.
-/
import WzVerif.Model.RoutingLock
namespace Wz.RoutingLock

theorem sub_iff {a b : List Nat} : sub a b = true ↔ ∀ x ∈ a, x ∈ b := by
  simp [sub, List.all_eq_true]

theorem sub_refl (a : List Nat) : sub a a = true := sub_iff.2 fun _ h => h

theorem sub_trans {a b c : List Nat} (h1 : sub a b = true) (h2 : sub b c = true) : sub a c = true :=
  sub_iff.2 fun x hx => sub_iff.1 h2 x (sub_iff.1 h1 x hx)

theorem sub_mono {a b c : List Nat} (h1 : sub a b = true) (h2 : ∀ x ∈ b, x ∈ c) : sub a c = true :=
  sub_iff.2 fun x hx => h2 x (sub_iff.1 h1 x hx)

theorem sub_nil (b : List Nat) : sub [] b = true := by simp [sub]

theorem sub_append_left {a b c : List Nat} (h1 : sub a c = true) (h2 : sub b c = true) : sub (a ++ b) c = true := by
  rw [sub_iff] at *
  intro x hx
  rcases List.mem_append.1 hx with h | h
  · exact h1 x h
  · exact h2 x h

/-- `lockedOK` is monotone in what is known -/
theorem lockedOK_mono : ∀ (pc : List Op) (f m e f' m' e' : Bool), lockedOK pc f m e = true →
    (f = true → f' = true) → (m = true → m' = true) → (e = true → e' = true) → lockedOK pc f' m' e' = true := by
  intro pc
  induction pc with
  | nil => intro f m e f' m' e' h; simp [lockedOK] at h
  | cons o rest ih =>
    intro f m e f' m' e' h hf hm he
    cases o with
    | release =>
      cases rest with
      | nil =>
        simp only [lockedOK, Bool.and_eq_true] at h ⊢
        exact ⟨hm h.1, he h.2⟩
      | cons _ _ => simp [lockedOK] at h
    | retIfClean => simp only [lockedOK] at h ⊢; exact ih _ _ _ _ _ _ h (fun _ => rfl) hm he
    | sortMatcher =>
      simp only [lockedOK, Bool.and_eq_true] at h ⊢
      exact ⟨hf h.1, ih _ _ _ _ _ _ h.2 hf (fun _ => rfl) he⟩
    | sortMatcherEnd => simp only [lockedOK] at h ⊢; exact ih _ _ _ _ _ _ h hf (fun _ => rfl) he
    | sortEndpoints =>
      simp only [lockedOK, Bool.and_eq_true] at h ⊢
      exact ⟨hf h.1, ih _ _ _ _ _ _ h.2 hf hm (fun _ => rfl)⟩
    | sortEndpointsEnd => simp only [lockedOK] at h ⊢; exact ih _ _ _ _ _ _ h hf hm (fun _ => rfl)
    | setRemap b =>
      cases b with
      | false =>
        simp only [lockedOK, Bool.and_eq_true] at h ⊢
        exact ⟨⟨hm h.1.1, he h.1.2⟩, ih _ _ _ _ _ _ h.2 (fun x => x) hm he⟩
      | true => simp only [lockedOK] at h ⊢; exact ih _ _ _ _ _ _ h (fun _ => rfl) hm he
    | acquire => simp [lockedOK] at h
    | bindRule => simp [lockedOK] at h
    | matcherAdd _ => simp [lockedOK] at h
    | endpointAdd _ => simp [lockedOK] at h
    | other _ => simp [lockedOK] at h

/-- `addOK` is monotone in the inserted sets -/
theorem addOK_mono : ∀ (pc : List Op) (mi ei mi' ei' rs : List Nat), addOK pc mi ei rs = true →
    (∀ x ∈ mi, x ∈ mi') → (∀ x ∈ ei, x ∈ ei') → addOK pc mi' ei' rs = true := by
  intro pc
  induction pc with
  | nil => intros; simp [addOK]
  | cons o rest ih =>
    intro mi ei mi' ei' rs h hm he
    cases o with
    | bindRule => simp only [addOK] at h ⊢; exact ih _ _ _ _ _ h hm he
    | matcherAdd r =>
      simp only [addOK] at h ⊢
      refine ih _ _ _ _ _ h ?_ he
      intro x hx
      rcases List.mem_cons.1 hx with rfl | hx
      · exact List.mem_cons_self
      · exact List.mem_cons_of_mem _ (hm x hx)
    | endpointAdd r =>
      simp only [addOK] at h ⊢
      refine ih _ _ _ _ _ h hm ?_
      intro x hx
      rcases List.mem_cons.1 hx with rfl | hx
      · exact List.mem_cons_self
      · exact List.mem_cons_of_mem _ (he x hx)
    | setRemap b =>
      cases b with
      | false => simp [addOK] at h
      | true =>
        simp only [addOK, Bool.and_eq_true] at h ⊢
        exact ⟨⟨sub_mono h.1.1 hm, sub_mono h.1.2 he⟩, ih _ _ _ _ _ h.2 hm he⟩
    | retIfClean => simp [addOK] at h
    | acquire => simp [addOK] at h
    | release => simp [addOK] at h
    | sortMatcher => simp [addOK] at h
    | sortEndpoints => simp [addOK] at h
    | sortMatcherEnd => simp [addOK] at h
    | sortEndpointsEnd => simp [addOK] at h
    | other _ => simp [addOK] at h

/-! ### the syntactic form of `Map.add` implies `addOK` for every rule list -/

/-- running the instantiated loop body only inserts: afterwards the remaining program is judged with
larger inserted sets that contain `r` in both structures -/
theorem addOK_body (body : List Op)
    (hall : body.all (fun o => o == .bindRule || o == .matcherAdd 0 || o == .endpointAdd 0) = true)
    (r : Nat) (tail : List Op) (rs : List Nat) :
    ∀ (mi ei : List Nat), ∃ mi' ei', (∀ x ∈ mi, x ∈ mi') ∧ (∀ x ∈ ei, x ∈ ei') ∧
      (body.contains (.matcherAdd 0) = true → r ∈ mi') ∧ (body.contains (.endpointAdd 0) = true → r ∈ ei') ∧
      (∀ x ∈ mi', x ∈ mi ∨ x = r) ∧ (∀ x ∈ ei', x ∈ ei ∨ x = r) ∧
      addOK (body.map (Op.inst r) ++ tail) mi ei rs = addOK tail mi' ei' rs := by
  induction body with
  | nil => intro mi ei; exact ⟨mi, ei, fun _ h => h, fun _ h => h, by simp, by simp, fun _ h => .inl h, fun _ h => .inl h, rfl⟩
  | cons o rest ih =>
    intro mi ei
    simp only [List.all_cons, Bool.and_eq_true, Bool.or_eq_true, beq_iff_eq] at hall
    obtain ⟨ho, hrest⟩ := hall
    rcases ho with (rfl | rfl) | rfl
    · obtain ⟨mi', ei', h1, h2, h3, h4, h5, h6, h7⟩ := ih hrest mi ei
      refine ⟨mi', ei', h1, h2, ?_, ?_, h5, h6, ?_⟩
      · intro h; apply h3; simpa using h
      · intro h; apply h4; simpa using h
      · simpa [Op.inst, addOK] using h7
    · obtain ⟨mi', ei', h1, h2, h3, h4, h5, h6, h7⟩ := ih hrest (r :: mi) ei
      refine ⟨mi', ei', fun x hx => h1 x (List.mem_cons_of_mem _ hx), h2, fun _ => h1 r List.mem_cons_self, ?_, ?_, h6, ?_⟩
      · intro h; apply h4; simpa using h
      · intro x hx
        rcases h5 x hx with h | h
        · rcases List.mem_cons.1 h with rfl | h
          · exact .inr rfl
          · exact .inl h
        · exact .inr h
      · simpa [Op.inst, addOK] using h7
    · obtain ⟨mi', ei', h1, h2, h3, h4, h5, h6, h7⟩ := ih hrest mi (r :: ei)
      refine ⟨mi', ei', h1, fun x hx => h2 x (List.mem_cons_of_mem _ hx), ?_, fun _ => h2 r List.mem_cons_self, h5, ?_, ?_⟩
      · intro h; apply h3; simpa using h
      · intro x hx
        rcases h6 x hx with h | h
        · rcases List.mem_cons.1 h with rfl | h
          · exact .inr rfl
          · exact .inl h
        · exact .inr h
      · simpa [Op.inst, addOK] using h7

theorem addOK_of_AddOK {body after : List Op} (h : AddOK body after = true) (rs : List Nat) (mi ei : List Nat) :
    addOK (addProg body after rs) mi ei rs = true := by
  simp only [AddOK, Bool.and_eq_true, beq_iff_eq] at h
  obtain ⟨⟨⟨hall, hm⟩, he⟩, rfl⟩ := h
  -- generalise: the rules still to be processed are a suffix; those already processed are inserted
  suffices H : ∀ (todo all : List Nat) (mi ei : List Nat), (∀ x ∈ all, x ∈ todo ∨ (x ∈ mi ∧ x ∈ ei)) →
      addOK ((todo.flatMap fun r => body.map (Op.inst r)) ++ [.setRemap true]) mi ei all = true by
    exact H rs rs mi ei (fun x hx => .inl hx)
  intro todo
  induction todo with
  | nil =>
    intro all mi ei hall'
    simp only [List.flatMap_nil, List.nil_append, addOK, Bool.and_eq_true, and_true]
    exact ⟨sub_iff.2 fun x hx => ((hall' x hx).resolve_left (by simp)).1,
           sub_iff.2 fun x hx => ((hall' x hx).resolve_left (by simp)).2⟩
  | cons r todo ih =>
    intro all mi ei hall'
    simp only [List.flatMap_cons, List.append_assoc]
    obtain ⟨mi', ei', h1, h2, h3, h4, _, _, h7⟩ := addOK_body body hall r ((todo.flatMap fun r => body.map (Op.inst r)) ++ [.setRemap true]) all mi ei
    rw [h7]
    apply ih
    intro x hx
    rcases hall' x hx with h | ⟨ha, hb⟩
    · rcases List.mem_cons.1 h with rfl | h
      · exact .inr ⟨h3 hm, h4 he⟩
      · exact .inl h
    · exact .inr ⟨h1 x ha, h2 x hb⟩

/-! ### the invariant -/

def ThreadInv (sh : Shared) (i : Nat) (t : Thread) : Prop :=
  match t.rules with
  | some rs => addOK t.pc sh.mIn sh.eIn rs = true
  | none =>
    t.result ≠ some false ∧ (∀ e, t.entry = some e → sub e sh.done = true) ∧
    (if sh.lock = some i then
        t.result = none ∧ lockedOK t.pc sh.remap (sub sh.done sh.mOk) (sub sh.done sh.eOk) = true
     else (t.result = none → UpdateOK t.pc = true) ∧ (t.result ≠ none → t.pc = []))

structure Inv (s : State) : Prop where
  clean : s.sh.remap = false → sub s.sh.done s.sh.mOk = true ∧ sub s.sh.done s.sh.eOk = true
  doneM : sub s.sh.done s.sh.mIn = true
  doneE : sub s.sh.done s.sh.eIn = true
  owner : ∀ i, s.sh.lock = some i → (s.th i).rules = none
  thr : ∀ i, ThreadInv s.sh i (s.th i)

/-- a thread that does not own the lock (before and after) only sees the inserted / added sets grow -/
theorem threadInv_frame {sh sh' : Shared} {j : Nat} {t : Thread} (h : ThreadInv sh j t)
    (hnl : sh.lock ≠ some j) (hnl' : sh'.lock ≠ some j)
    (hmi : ∀ x ∈ sh.mIn, x ∈ sh'.mIn) (hei : ∀ x ∈ sh.eIn, x ∈ sh'.eIn) (hd : ∀ x ∈ sh.done, x ∈ sh'.done) :
    ThreadInv sh' j t := by
  unfold ThreadInv at h ⊢
  cases hr : t.rules with
  | some rs =>
    simp only [hr] at h ⊢
    exact addOK_mono _ _ _ _ _ _ h hmi hei
  | none =>
    simp only [hr, if_neg hnl, if_neg hnl'] at h ⊢
    exact ⟨h.1, fun e he => sub_mono (h.2.1 e he) hd, h.2.2⟩

theorem inv_set {s : State} (i : Nat) (sh' : Shared) (t' : Thread)
    (hclean : sh'.remap = false → sub sh'.done sh'.mOk = true ∧ sub sh'.done sh'.eOk = true)
    (hdm : sub sh'.done sh'.mIn = true) (hde : sub sh'.done sh'.eIn = true)
    (hown : ∀ j, sh'.lock = some j → (if j = i then t' else s.th j).rules = none)
    (hi : ThreadInv sh' i t')
    (hothers : ∀ j, j ≠ i → ThreadInv sh' j (s.th j)) : Inv (s.set sh' i t') := by
  refine ⟨hclean, hdm, hde, hown, ?_⟩
  intro j
  simp only [State.set]
  by_cases hj : j = i
  · subst hj; simpa using hi
  · simpa [hj] using hothers j hj

/-- when nobody but (possibly) the moving thread owns the lock, before and after -/
theorem others_frame {s : State} (h : Inv s) (i : Nat) (sh' : Shared)
    (hl : s.sh.lock = none ∨ s.sh.lock = some i) (hl' : sh'.lock = none ∨ sh'.lock = some i)
    (hmi : ∀ x ∈ s.sh.mIn, x ∈ sh'.mIn) (hei : ∀ x ∈ s.sh.eIn, x ∈ sh'.eIn) (hd : ∀ x ∈ s.sh.done, x ∈ sh'.done) :
    ∀ j, j ≠ i → ThreadInv sh' j (s.th j) := by
  intro j hj
  apply threadInv_frame (h.thr j) _ _ hmi hei hd
  · rcases hl with hl | hl <;> rw [hl]
    · simp
    · intro hc; injection hc with hc; exact hj hc.symm
  · rcases hl' with hl | hl <;> rw [hl]
    · simp
    · intro hc; injection hc with hc; exact hj hc.symm

/-! ### one step preserves the invariant -/

@[simp] theorem enter_rules (sh : Shared) (t : Thread) : (t.enter sh).rules = t.rules := rfl
@[simp] theorem enter_pc (sh : Shared) (t : Thread) : (t.enter sh).pc = t.pc := rfl
@[simp] theorem enter_result (sh : Shared) (t : Thread) : (t.enter sh).result = t.result := rfl

theorem enter_entry {sh : Shared} {t : Thread} (h : ∀ e, t.entry = some e → sub e sh.done = true) :
    ∀ e, (t.enter sh).entry = some e → sub e sh.done = true := by
  intro e he
  simp only [Thread.enter] at he
  cases ht : t.entry with
  | none => simp [ht] at he; subst he; exact sub_refl _
  | some e0 => simp [ht] at he; subst he; exact h _ ht

theorem goto_add {sh : Shared} {t : Thread} {rs : List Nat} (h : t.rules = some rs) (rest : List Op) :
    t.goto sh rest = { t with pc := rest } := by
  simp [Thread.goto, h]

theorem goto_cons {sh : Shared} {t : Thread} {rest : List Op} (h : rest ≠ []) :
    t.goto sh rest = { t with pc := rest } := by
  cases rest with
  | nil => exact absurd rfl h
  | cons _ _ => simp [Thread.goto]

theorem lockedOK_ne_nil {pc : List Op} {f m e : Bool} (h : lockedOK pc f m e = true) : pc ≠ [] := by
  intro hc; subst hc; simp [lockedOK] at h

theorem UpdateOK_ne_nil {pc : List Op} (h : UpdateOK pc = true) : pc ≠ [] := by
  intro hc; subst hc; simp [UpdateOK] at h

/-- the result recorded by a thread that leaves `update()` while the structures are sorted w.r.t. `done` -/
theorem finish_ok {sh : Shared} {t : Thread} (he : ∀ e, t.entry = some e → sub e sh.done = true)
    (hm : sub sh.done sh.mOk = true) (hee : sub sh.done sh.eOk = true) :
    (t.finish sh).result = some true := by
  simp only [Thread.finish]
  cases ht : t.entry with
  | none => simp [sub_nil]
  | some e => simp [sub_trans (he e ht) hm, sub_trans (he e ht) hee]

theorem threadInv_finished {sh : Shared} {i : Nat} {t : Thread} (hr : t.rules = none) (hl : sh.lock ≠ some i)
    (he : ∀ e, t.entry = some e → sub e sh.done = true)
    (hm : sub sh.done sh.mOk = true) (hee : sub sh.done sh.eOk = true) :
    ThreadInv sh i (t.finish sh) := by
  unfold ThreadInv
  have hres := finish_ok he hm hee
  have : (t.finish sh).rules = none := hr
  simp only [this, if_neg hl, hres]
  refine ⟨by simp, ?_, by simp, fun _ => rfl⟩
  intro e hE
  exact he e hE

/-- an `add()` thread moves (nobody holds the lock) -/
theorem stepOp_inv_add {s : State} (h : Inv s) (i : Nat) {op : Op} {rest : List Op} {rs : List Nat}
    (hpc : (s.th i).pc = op :: rest) (hr : (s.th i).rules = some rs) (hl : s.sh.lock = none) :
    Inv (stepOp s i ((s.th i).enter s.sh) op rest) := by
  have hti := h.thr i
  unfold ThreadInv at hti
  simp only [hr, hpc] at hti
  have hrE : ((s.th i).enter s.sh).rules = some rs := hr
  -- the moving thread afterwards
  have mine : ∀ (sh' : Shared), addOK rest sh'.mIn sh'.eIn rs = true →
      ThreadInv sh' i { (s.th i).enter s.sh with pc := rest } := by
    intro sh' hok
    unfold ThreadInv
    simpa [hr] using hok
  cases op with
  | bindRule =>
    simp only [stepOp, goto_add hrE]
    simp only [addOK] at hti
    exact inv_set i _ _ h.clean h.doneM h.doneE (by intro j hj; rw [hl] at hj; cases hj) (mine _ hti)
      (fun j _ => h.thr j)
  | matcherAdd r =>
    simp only [stepOp, goto_add hrE]
    simp only [addOK] at hti
    refine inv_set i _ _ h.clean (sub_mono h.doneM fun x hx => List.mem_cons_of_mem _ hx) h.doneE
      (by intro j hj; simp only [hl] at hj; cases hj) (mine _ hti) ?_
    exact others_frame h i _ (.inl hl) (.inl hl) (fun x hx => List.mem_cons_of_mem _ hx) (fun _ hx => hx) (fun _ hx => hx)
  | endpointAdd r =>
    simp only [stepOp, goto_add hrE]
    simp only [addOK] at hti
    refine inv_set i _ _ h.clean h.doneM (sub_mono h.doneE fun x hx => List.mem_cons_of_mem _ hx)
      (by intro j hj; simp only [hl] at hj; cases hj) (mine _ hti) ?_
    exact others_frame h i _ (.inl hl) (.inl hl) (fun _ hx => hx) (fun x hx => List.mem_cons_of_mem _ hx) (fun _ hx => hx)
  | setRemap b =>
    cases b with
    | false => simp [addOK] at hti
    | true =>
      simp only [stepOp, goto_add hrE]
      simp only [addOK, Bool.and_eq_true] at hti
      obtain ⟨⟨h1, h2⟩, h3⟩ := hti
      have hd : ((s.th i).enter s.sh).rules.getD [] = rs := by simp [hr]
      simp only [if_true, hd]
      refine inv_set i _ _ (by intro hc; cases hc) (sub_append_left h1 h.doneM) (sub_append_left h2 h.doneE)
        (by intro j hj; simp only [hl] at hj; cases hj) (mine _ h3) ?_
      exact others_frame h i _ (.inl hl) (.inl hl) (fun _ hx => hx) (fun _ hx => hx) (fun x hx => List.mem_append_right _ hx)
  | retIfClean => simp [addOK] at hti
  | acquire => simp [addOK] at hti
  | release => simp [addOK] at hti
  | sortMatcher => simp [addOK] at hti
  | sortEndpoints => simp [addOK] at hti
  | sortMatcherEnd => simp [addOK] at hti
  | sortEndpointsEnd => simp [addOK] at hti
  | other _ => simp [addOK] at hti

/-- the thread that holds the lock moves -/
theorem stepOp_inv_owner {s : State} (h : Inv s) (i : Nat) {op : Op} {rest : List Op}
    (hpc : (s.th i).pc = op :: rest) (hr : (s.th i).rules = none) (hl : s.sh.lock = some i) :
    Inv (stepOp s i ((s.th i).enter s.sh) op rest) := by
  have hti := h.thr i
  unfold ThreadInv at hti
  simp only [hr, hpc, hl, if_true] at hti
  obtain ⟨_, hent, hres, hlk⟩ := hti
  have hrE : ((s.th i).enter s.sh).rules = none := hr
  have hentE := enter_entry hent
  have hown' : ∀ (sh' : Shared) (t' : Thread), t'.rules = none → (sh'.lock = none ∨ sh'.lock = some i) →
      ∀ j, sh'.lock = some j → (if j = i then t' else s.th j).rules = none := by
    intro sh' t' ht' hl' j hj
    rcases hl' with hl' | hl'
    · rw [hl'] at hj; cases hj
    · rw [hl'] at hj; injection hj with hj; subst hj; simpa using ht'
  -- the moving thread afterwards, still inside the block
  have mine : ∀ (sh' : Shared) (pc' : List Op), sh'.lock = some i → (∀ x ∈ s.sh.done, x ∈ sh'.done) →
      lockedOK pc' sh'.remap (sub sh'.done sh'.mOk) (sub sh'.done sh'.eOk) = true →
      ThreadInv sh' i { (s.th i).enter s.sh with pc := pc' } := by
    intro sh' pc' hl' hd hok
    unfold ThreadInv
    simp only [hr, enter_rules, hl', if_true, enter_result, hres]
    exact ⟨by simp, fun e he => sub_mono (hentE e he) hd, trivial, hok⟩
  cases op with
  | release =>
    cases rest with
    | cons _ _ => simp [lockedOK] at hlk
    | nil =>
      simp only [lockedOK, Bool.and_eq_true] at hlk
      simp only [stepOp, hl, if_true, Thread.goto, List.isEmpty_nil, hrE, Option.isNone_none, Bool.and_self]
      refine inv_set i _ _ h.clean h.doneM h.doneE (by intro j hj; cases hj) ?_ ?_
      · exact threadInv_finished hrE (by simp) hentE hlk.1 hlk.2
      · exact others_frame h i _ (.inr hl) (.inl rfl) (fun _ hx => hx) (fun _ hx => hx) (fun _ hx => hx)
  | retIfClean =>
    simp only [lockedOK] at hlk
    simp only [stepOp]
    by_cases hrm : s.sh.remap = true
    · simp only [hrm, if_true, goto_cons (lockedOK_ne_nil hlk)]
      refine inv_set i _ _ h.clean h.doneM h.doneE (hown' _ _ hrE (.inr hl)) (mine _ _ hl (fun _ hx => hx) (by rw [hrm]; exact hlk)) ?_
      exact fun j _ => h.thr j
    · simp only [hrm, hl, if_true]
      have hrm' : s.sh.remap = false := by simpa using hrm
      obtain ⟨hm, he⟩ := h.clean hrm'
      refine inv_set i _ _ h.clean h.doneM h.doneE (hown' _ _ hrE (.inr hl)) ?_ (fun j _ => h.thr j)
      exact mine _ _ hl (fun _ hx => hx) (by simp [lockedOK, hm, he])
  | sortMatcher =>
    simp only [lockedOK, Bool.and_eq_true] at hlk
    simp only [stepOp]
    refine inv_set i _ _ (by intro hc; rw [hlk.1] at hc; cases hc) h.doneM h.doneE (hown' _ _ hrE (.inr hl)) ?_ ?_
    · exact mine _ _ hl (fun _ hx => hx) (by simpa [lockedOK] using hlk.2)
    · exact others_frame h i _ (.inr hl) (.inr hl) (fun _ hx => hx) (fun _ hx => hx) (fun _ hx => hx)
  | sortMatcherEnd =>
    simp only [lockedOK] at hlk
    simp only [stepOp, goto_cons (lockedOK_ne_nil hlk)]
    refine inv_set i _ _ (fun hc => ⟨h.doneM, (h.clean hc).2⟩) h.doneM h.doneE (hown' _ _ hrE (.inr hl)) ?_ ?_
    · exact mine _ _ hl (fun _ hx => hx) (by simpa [h.doneM] using hlk)
    · exact others_frame h i _ (.inr hl) (.inr hl) (fun _ hx => hx) (fun _ hx => hx) (fun _ hx => hx)
  | sortEndpoints =>
    simp only [lockedOK, Bool.and_eq_true] at hlk
    simp only [stepOp]
    refine inv_set i _ _ (by intro hc; rw [hlk.1] at hc; cases hc) h.doneM h.doneE (hown' _ _ hrE (.inr hl)) ?_ ?_
    · exact mine _ _ hl (fun _ hx => hx) (by simpa [lockedOK] using hlk.2)
    · exact others_frame h i _ (.inr hl) (.inr hl) (fun _ hx => hx) (fun _ hx => hx) (fun _ hx => hx)
  | sortEndpointsEnd =>
    simp only [lockedOK] at hlk
    simp only [stepOp, goto_cons (lockedOK_ne_nil hlk)]
    refine inv_set i _ _ (fun hc => ⟨(h.clean hc).1, h.doneE⟩) h.doneM h.doneE (hown' _ _ hrE (.inr hl)) ?_ ?_
    · exact mine _ _ hl (fun _ hx => hx) (by simpa [h.doneE] using hlk)
    · exact others_frame h i _ (.inr hl) (.inr hl) (fun _ hx => hx) (fun _ hx => hx) (fun _ hx => hx)
  | setRemap b =>
    have hd : ((s.th i).enter s.sh).rules.getD [] = [] := by simp [hr]
    cases b with
    | false =>
      simp only [lockedOK, Bool.and_eq_true] at hlk
      simp only [stepOp, goto_cons (lockedOK_ne_nil hlk.2), Bool.false_eq_true, if_false, List.nil_append]
      refine inv_set i _ _ (fun _ => hlk.1) h.doneM h.doneE (hown' _ _ hrE (.inr hl)) ?_ ?_
      · exact mine _ _ hl (fun _ hx => hx) hlk.2
      · exact others_frame h i _ (.inr hl) (.inr hl) (fun _ hx => hx) (fun _ hx => hx) (fun _ hx => hx)
    | true =>
      simp only [lockedOK] at hlk
      simp only [stepOp, goto_cons (lockedOK_ne_nil hlk), if_true, hd, List.nil_append]
      refine inv_set i _ _ (by intro hc; cases hc) h.doneM h.doneE (hown' _ _ hrE (.inr hl)) ?_ ?_
      · exact mine _ _ hl (fun _ hx => hx) hlk
      · exact others_frame h i _ (.inr hl) (.inr hl) (fun _ hx => hx) (fun _ hx => hx) (fun _ hx => hx)
  | acquire => simp [lockedOK] at hlk
  | bindRule => simp [lockedOK] at hlk
  | matcherAdd _ => simp [lockedOK] at hlk
  | endpointAdd _ => simp [lockedOK] at hlk
  | other _ => simp [lockedOK] at hlk

/-- an `update()` thread that does not hold the lock moves -/
theorem stepOp_inv_outside {s : State} (h : Inv s) (i : Nat) {op : Op} {rest : List Op}
    (hpc : (s.th i).pc = op :: rest) (hr : (s.th i).rules = none) (hl : s.sh.lock ≠ some i) :
    Inv (stepOp s i ((s.th i).enter s.sh) op rest) := by
  have hti := h.thr i
  unfold ThreadInv at hti
  simp only [hr, hpc, if_neg hl] at hti
  obtain ⟨_, hent, hup, hfin⟩ := hti
  have hres : (s.th i).result = none := by
    cases hres : (s.th i).result with
    | none => rfl
    | some _ => have := hfin (by simp [hres]); cases this
  have hup := hup hres
  have hrE : ((s.th i).enter s.sh).rules = none := hr
  have hentE := enter_entry hent
  cases op with
  | retIfClean =>
    simp only [UpdateOK] at hup
    simp only [stepOp]
    by_cases hrm : s.sh.remap = true
    · simp only [hrm, if_true, goto_cons (UpdateOK_ne_nil hup)]
      refine inv_set i _ _ h.clean h.doneM h.doneE ?_ ?_ (fun j _ => h.thr j)
      · intro j hj
        by_cases hji : j = i
        · subst hji; exact absurd hj hl
        · simpa [hji] using h.owner j hj
      · unfold ThreadInv
        simp only [enter_rules, hr, if_neg hl, enter_result, hres]
        exact ⟨by simp, hentE, fun _ => hup, fun hc => absurd rfl hc⟩
    · simp only [hrm, if_neg hl, hrE, Option.isNone_none, if_true]
      have hrm' : s.sh.remap = false := by simpa using hrm
      obtain ⟨hm, he⟩ := h.clean hrm'
      refine inv_set i _ _ h.clean h.doneM h.doneE ?_ (threadInv_finished hrE hl hentE hm he) (fun j _ => h.thr j)
      intro j hj
      by_cases hji : j = i
      · subst hji; exact absurd hj hl
      · simpa [hji] using h.owner j hj
  | acquire =>
    simp only [UpdateOK] at hup
    simp only [stepOp]
    by_cases hfree : s.sh.lock = none
    · simp only [hfree, if_true, goto_cons (lockedOK_ne_nil hup)]
      refine inv_set i _ _ h.clean h.doneM h.doneE ?_ ?_ ?_
      · intro j hj
        injection hj with hj
        subst hj
        simpa using hr
      · unfold ThreadInv
        simp only [enter_rules, hr, if_true, enter_result, hres]
        exact ⟨by simp, hentE, trivial, lockedOK_mono _ _ _ _ _ _ _ hup (by simp) (by simp) (by simp)⟩
      · exact others_frame h i _ (.inl hfree) (.inr rfl) (fun _ hx => hx) (fun _ hx => hx) (fun _ hx => hx)
    · simp only [hfree, if_false]; exact h
  | release => simp [UpdateOK] at hup
  | sortMatcher => simp [UpdateOK] at hup
  | sortEndpoints => simp [UpdateOK] at hup
  | sortMatcherEnd => simp [UpdateOK] at hup
  | sortEndpointsEnd => simp [UpdateOK] at hup
  | setRemap _ => simp [UpdateOK] at hup
  | bindRule => simp [UpdateOK] at hup
  | matcherAdd _ => simp [UpdateOK] at hup
  | endpointAdd _ => simp [UpdateOK] at hup
  | other _ => simp [UpdateOK] at hup

/-- **one step preserves the invariant**, provided an `add()` thread moves only while the lock is free -/
theorem step_inv {s : State} (h : Inv s) (i : Nat)
    (hq : (s.th i).rules.isSome = true → s.sh.lock = none) : Inv (step s i) := by
  unfold step
  cases hpc : (s.th i).pc with
  | nil => exact h
  | cons op rest =>
    simp only []
    cases hr : (s.th i).rules with
    | some rs => exact stepOp_inv_add h i hpc hr (hq (by simp [hr]))
    | none =>
      by_cases hl : s.sh.lock = some i
      · exact stepOp_inv_owner h i hpc hr hl
      · exact stepOp_inv_outside h i hpc hr hl

theorem run_inv : ∀ (sched : List Nat) {s : State}, Inv s → addsQuiet s sched → Inv (run s sched)
  | [], _, h, _ => h
  | i :: rest, _, h, hq => run_inv rest (step_inv h i hq.1) hq.2

/-- what the invariant says about a thread that has left `update()` -/
theorem inv_result {s : State} (h : Inv s) (i : Nat) (hr : (s.th i).rules = none) : (s.th i).result ≠ some false := by
  have := h.thr i
  unfold ThreadInv at this
  simp only [hr] at this
  exact this.1

/-! ### initial states -/

/-- a state in which no thread has started yet: the lock is free, the shared structures are in any
condition consistent with the flag (in particular: any state left behind by `Map.__init__` and a
single-threaded sequence of `add()` / `update()` calls), thread `i` is about to call `update()`
(program `p`) or `add()` (programs `body` / `after`) for some rules -/
structure Init (p body after : List Op) (s : State) : Prop where
  lock : s.sh.lock = none
  clean : s.sh.remap = false → sub s.sh.done s.sh.mOk = true ∧ sub s.sh.done s.sh.eOk = true
  doneM : sub s.sh.done s.sh.mIn = true
  doneE : sub s.sh.done s.sh.eIn = true
  thr : ∀ i, s.th i = updateThread p ∨ ∃ rs, s.th i = addThread body after rs

theorem Init.inv {p body after : List Op} {s : State} (hp : UpdateOK p = true) (ha : AddOK body after = true)
    (h : Init p body after s) : Inv s := by
  refine ⟨h.clean, h.doneM, h.doneE, ?_, ?_⟩
  · intro i hi; rw [h.lock] at hi; cases hi
  · intro i
    unfold ThreadInv
    rcases h.thr i with ht | ⟨rs, ht⟩
    · rw [ht]
      simp only [updateThread, h.lock]
      exact ⟨by simp, by simp, by simp [hp]⟩
    · rw [ht]
      simp only [addThread]
      exact addOK_of_AddOK ha rs _ _

/-- state after `Map.__init__` + single-threaded `add()` calls for the rules `rs`: flag set, nothing
sorted, threads as given -/
def afterInit (rs : List Nat) (th : Nat → Thread) : State :=
  { sh := { remap := true, mIn := rs, eIn := rs, done := rs }, th := th }

end Wz.RoutingLock
