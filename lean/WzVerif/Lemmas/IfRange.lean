import WzVerif.Lemmas.DateText
import WzVerif.Model.IfRange
import WzVerif.Lemmas.Http
set_option linter.unusedSimpArgs false
namespace Wz.Http
open Wz Wz.Date

theorem isAlpha_facts {c : Char} (h : c.isAlpha = true) : Py.isSpace c = false ∧ c ≠ '"' ∧ c ≠ '/' := by
  have hn : (65 ≤ c.toNat ∧ c.toNat ≤ 90) ∨ (97 ≤ c.toNat ∧ c.toNat ≤ 122) := by
    simp only [Char.isAlpha, Char.isUpper, Char.isLower, Bool.or_eq_true, Bool.and_eq_true, decide_eq_true_eq] at h
    rcases h with ⟨h1, h2⟩ | ⟨h1, h2⟩
    · left; exact ⟨UInt32.le_iff_toNat_le.mp h1, UInt32.le_iff_toNat_le.mp h2⟩
    · right; exact ⟨UInt32.le_iff_toNat_le.mp h1, UInt32.le_iff_toNat_le.mp h2⟩
  refine ⟨?_, ?_, ?_⟩
  · simp only [Py.isSpace]; simp; omega
  · apply char_ne_of_toNat_ne; simp; omega
  · apply char_ne_of_toNat_ne; simp; omega

theorem looksLikeEtag_alpha (x y : Char) (r : Str) (hx : x.isAlpha = true) (hy : y.isAlpha = true) :
    looksLikeEtag (x :: y :: r) = false := by
  obtain ⟨sx, qx, _⟩ := isAlpha_facts hx
  obtain ⟨_, _, hy2⟩ := isAlpha_facts hy
  unfold looksLikeEtag lstrip
  simp only [List.dropWhile_cons, sx, Bool.false_eq_true, if_false]
  split
  · next heq => simp at heq; exact absurd heq.1 qx
  · next heq => simp at heq; exact absurd heq.2.1 hy2
  · next heq => simp at heq; exact absurd heq.2.1 hy2
  · rfl

/-- the text `http_date` writes starts with a day name, never with a quote or `W/"` -/
theorem looksLikeEtag_httpDate (t : Nat) : looksLikeEtag (httpDate t) = false := by
  obtain ⟨x, y, z, hw, a1, a2, _⟩ := day_shape
    (weekday (ymd2ord (civilOfSeconds t).y (civilOfSeconds t).mo (civilOfSeconds t).d)) (by unfold weekday; omega)
  have hr : httpDate t = x :: y :: (z :: (", ".toList ++ pad2 (civilOfSeconds t).d ++ ' ' ::
      monthNames.getD ((civilOfSeconds t).mo - 1) [] ++ ' ' :: pad4 (civilOfSeconds t).y ++ ' ' ::
      pad2 (civilOfSeconds t).hh ++ ':' :: pad2 (civilOfSeconds t).mi ++ ':' :: pad2 (civilOfSeconds t).ss
      ++ " GMT".toList)) := by
    simp only [httpDate, formatCivil, hw]
    simp
  rw [hr]
  exact looksLikeEtag_alpha x y _ a1 a2

end Wz.Http
