/-
Helper lemmas for C18: proxy sources depend only on what the accessing context observes;
`LocalManager.cleanup` as a fold of releases. Core Lean only.
-/
import WzVerif.Lemmas.LocalLife
import WzVerif.Model.LocalProxy
namespace Wz.Local
open Wz.Gen.LocalOps

theorem resolveSrc_congr (falsy : Nat → Bool) {w w' : World} {c : Nat} (p : Proxy)
    (h : obs w' c p.var = obs w c p.var) : resolveSrc falsy w' c p = resolveSrc falsy w c p := by
  cases p with
  | attr v k => exact resolve_congr (.attr v k) h
  | top v =>
    simp only [resolveSrc]
    rw [resolve_congr (.top v) h]

/-- `_get_current_object()` in context `c` is a function of what `c` observes through the cells and
of the values `c` holds for bare `ContextVar`s -/
theorem resolveP_congr (attrOf : Nat → Option Nat) (falsy : Nat → Bool) {lw lw' : LWorld} {c : Nat}
    (ho : ∀ v, obs lw'.w c v = obs lw.w c v) (hv : ∀ j, lw'.cv c j = lw.cv c j) :
    ∀ p : PSrc, resolveP attrOf falsy lw' c p = resolveP attrOf falsy lw c p
  | .localAttr v name => by
    simp only [resolveP]
    rw [resolveSrc_congr falsy (.attr v name) (ho v)]
  | .stackTop v attr => by
    simp only [resolveP]
    rw [resolveSrc_congr falsy (.top v) (ho v)]
  | .cvar j attr => by simp only [resolveP, hv j]
  | .const x attr => rfl
  | .via inner attr => by
    simp only [resolveP]
    rw [resolveP_congr attrOf falsy ho hv inner]

/-- does the event execute in context `c`? (method calls and `ContextVar.set`) -/
def LEvent.inCtx (e : LEvent) (c : Nat) : Prop :=
  match e with
  | .call c' _ _ _ => c' = c
  | .cvSet c' _ _ => c' = c
  | _ => False

/-- an event of another context (or a creation, disposal, collection, context copy) changes nothing
that context `c` observes -/
theorem lstep_other_ctx {lw : LWorld} (hinv : LInv lw) (e : LEvent) (hc : e.cbw) (ho : e.ownVar)
    (c : Nat) (hcn : c < lw.w.nctx) (hne : ¬ e.inCtx c) :
    (∀ v, obs (lstep lw e).w c v = obs lw.w c v) ∧ (∀ j, (lstep lw e).cv c j = lw.cv c j) := by
  refine ⟨?_, ?_⟩
  · intro v
    apply (lstep_inv hinv e hc ho).2.2.2 c v hcn
    intro ht
    cases e with
    | call c' h p a => exact hne ht.1
    | _ => exact ht
  · intro j
    cases e with
    | create pol addr st =>
      have hp : pol = .ownFresh := ho
      subst hp; rfl
    | createSharing h addr => simp only [lstep]; split <;> rfl
    | drop h => rfl
    | gc => rfl
    | call c' h p a => simp only [lstep]; split <;> rfl
    | copyCtx parent =>
      have : c ≠ lw.w.nctx := by omega
      simp [lstep, this]
    | freshCtx =>
      have : c ≠ lw.w.nctx := by omega
      simp [lstep, this]
    | cvSet c' j' x =>
      have hne' : ¬ c' = c := hne
      simp only [lstep]
      split
      · have : ¬ (c = c' ∧ j = j') := fun h => hne' h.1.symm
        simp [this]
      · rfl

theorem lrun_other_ctx {lw : LWorld} (hinv : LInv lw) :
    ∀ (es : List LEvent), (∀ e ∈ es, e.cbw) → (∀ e ∈ es, e.ownVar) →
    ∀ (c : Nat), c < lw.w.nctx → (∀ e ∈ es, ¬ e.inCtx c) →
    (∀ v, obs (lrun lw es).w c v = obs lw.w c v) ∧ (∀ j, (lrun lw es).cv c j = lw.cv c j) := by
  intro es
  induction es generalizing lw with
  | nil => intro _ _ c _ _; exact ⟨fun _ => rfl, fun _ => rfl⟩
  | cons e t ih =>
    intro hc ho c hcn hne
    obtain ⟨h1, h2, _, _⟩ := lstep_inv hinv e (hc e (by simp)) (ho e (by simp))
    obtain ⟨a1, a2⟩ := lstep_other_ctx hinv e (hc e (by simp)) (ho e (by simp)) c hcn (hne e (by simp))
    obtain ⟨b1, b2⟩ := ih h1 (fun x hx => hc x (List.mem_cons_of_mem _ hx))
      (fun x hx => ho x (List.mem_cons_of_mem _ hx)) c (by omega)
      (fun x hx => hne x (List.mem_cons_of_mem _ hx))
    simp only [lrun, List.foldl_cons] at b1 b2 ⊢
    exact ⟨fun v => by rw [b1 v, a1 v], fun j => by rw [b2 j, a2 j]⟩

/-! ### `LocalManager.cleanup` -/

theorem releaseEvent_cbw (lw : LWorld) (c h : Nat) : (releaseEvent lw c h).cbw := by
  show CopyBeforeWrite _
  cases lw.inst? h with
  | none => decide
  | some i =>
    show CopyBeforeWrite (if i.isStack then stackRelease else localRelease)
    cases i.isStack
    · show CopyBeforeWrite localRelease; decide
    · show CopyBeforeWrite stackRelease; decide

/-- the payload context `c` sees through cell `v` is an empty mapping / stack -/
def Released (w : World) (c v : Nat) : Prop := ∃ st, obs w c v = some (Obj.empty st)

theorem release_step {lw : LWorld} (hinv : LInv lw) (c h : Nat) (hc : c < lw.w.nctx) :
    let lw' := lstep lw (releaseEvent lw c h)
    LInv lw' ∧ lw'.w.nctx = lw.w.nctx ∧ lw'.insts = lw.insts ∧ lw'.dead = lw.dead ∧
    (∀ i, lw.inst? h = some i → Released lw'.w c i.var) ∧
    (∀ c' v', c' < lw.w.nctx → ¬(c' = c ∧ ∃ i, lw.inst? h = some i ∧ i.var = v') →
      obs lw'.w c' v' = obs lw.w c' v') := by
  intro lw'
  obtain ⟨h1, _, _, h4⟩ := lstep_inv hinv (releaseEvent lw c h) (releaseEvent_cbw lw c h) trivial
  refine ⟨h1, ?_, ?_, ?_, ?_, ?_⟩
  · simp only [lw', releaseEvent, lstep]
    cases hi : lw.inst? h with
    | none => rfl
    | some i =>
      simp only [stepEvent, hc, if_true]
      have hcb : CopyBeforeWrite (if i.isStack then stackRelease else localRelease) := by
        cases i.isStack
        · show CopyBeforeWrite localRelease; decide
        · show CopyBeforeWrite stackRelease; decide
      exact (runProg_inv hinv.wf c i.var {} _ hcb).nctxEq
  · simp only [lw', releaseEvent, lstep]; cases lw.inst? h <;> rfl
  · simp only [lw', releaseEvent, lstep]; cases lw.inst? h <;> rfl
  · intro i hi
    refine ⟨i.isStack, ?_⟩
    simp only [lw', releaseEvent, lstep, hi]
    have := (release_local_only' lw.w hinv.wf c i.var hc i.isStack)
    exact this
  · intro c' v' hc' hne
    apply h4 c' v' hc'
    intro ht
    exact hne ⟨ht.1.symm, ht.2⟩
where
  release_local_only' (w : World) (_hw : WF w) (c v : Nat) (hc : c < w.nctx) (stack : Bool) :
      obs (stepEvent w (.call c v (if stack then stackRelease else localRelease) {})) c v
        = some (Obj.empty stack) := by
    cases stack <;>
    simp [stepEvent, hc, obs, localRelease, stackRelease, runProg, runPath, stepOp, alloc, bindVar,
      setReg, Obj.empty]

theorem inst?_congr {lw lw' : LWorld} (hi : lw'.insts = lw.insts) (hd : lw'.dead = lw.dead) (h : Nat) :
    lw'.inst? h = lw.inst? h := by
  simp [LWorld.inst?, hi, hd]

theorem cleanup_inv {lw : LWorld} (hinv : LInv lw) (c : Nat) (hc : c < lw.w.nctx) :
    ∀ (hs : List Nat),
    (∀ h ∈ hs, ∀ i, lw.inst? h = some i → Released (cleanupRun lw c hs).w c i.var) ∧
    (∀ c' v', c' < lw.w.nctx →
      ¬(c' = c ∧ ∃ h ∈ hs, ∃ i, lw.inst? h = some i ∧ i.var = v') →
      obs (cleanupRun lw c hs).w c' v' = obs lw.w c' v') := by
  intro hs
  induction hs generalizing lw with
  | nil => exact ⟨fun h hh => by simp at hh, fun _ _ _ _ => rfl⟩
  | cons h t ih =>
    obtain ⟨g1, g2, g3, g4, g5, g6⟩ := release_step hinv c h hc
    have hcong := inst?_congr g3 g4
    obtain ⟨i1, i2⟩ := ih g1 (by rw [g2]; exact hc)
    refine ⟨?_, ?_⟩
    · intro h' hh' i hi
      simp only [cleanupRun]
      rcases List.mem_cons.mp hh' with rfl | hmem
      · -- released by the first step; the rest either re-releases the same cell or leaves it alone
        by_cases hex : ∃ h'' ∈ t, ∃ i'', lw.inst? h'' = some i'' ∧ i''.var = i.var
        · obtain ⟨h'', hm, i'', hi'', hv⟩ := hex
          have := i1 h'' hm i'' (by rw [hcong]; exact hi'')
          rw [hv] at this; exact this
        · have := i2 c i.var (by rw [g2]; exact hc) (by
            rintro ⟨_, h'', hm, i'', hi'', hv⟩
            exact hex ⟨h'', hm, i'', by rw [← hcong]; exact hi'', hv⟩)
          unfold Released
          rw [this]
          exact g5 i hi
      · exact i1 h' hmem i (by rw [hcong]; exact hi)
    · intro c' v' hc' hne
      simp only [cleanupRun]
      rw [i2 c' v' (by rw [g2]; exact hc') (by
        rintro ⟨hcc, h'', hm, i'', hi'', hv⟩
        exact hne ⟨hcc, h'', List.mem_cons_of_mem _ hm, i'', by rw [← hcong]; exact hi'', hv⟩)]
      apply g6 c' v' hc'
      rintro ⟨hcc, i'', hi'', hv⟩
      exact hne ⟨hcc, h, by simp, i'', hi'', hv⟩

end Wz.Local
