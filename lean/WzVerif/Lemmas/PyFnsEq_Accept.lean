/-
PyFnsEq_Accept — the class-specific parts and the small API of `werkzeug.datastructures.accept`
*as regenerated from the source* by `tools/py2lean.py` (`Gen/PyFns_Accept.lean`, rewritten on every
check run) are equal, for all inputs, to the hand-written model of `Model/Accept.lean` that the C17
theorems are about. (`_best_single_match`, `quality`, `__contains__`, `index`, `find`, `best_match`,
`LanguageAccept.best_match` are in `Props/C17T.lean`.) A change of the Python source changes the
generated definition and breaks these obligations.

Main theorems
* `Accept`: `accept_specificity_eq`, `accept_value_matches_eq` (the fields of `acceptNeg`);
* `MIMEAccept`: `mime_specificity_eq`, `normalize_mime_eq`, `mime_value_matches_eq` (value *and*
  exception behaviour), with the corollaries `mime_value_matches_ok`, `mime_value_matches_error`,
  `mime_value_matches_valid`, `mimeRaises_iff`, `flag_offers_valid`;
* `LanguageAccept` / `CharsetAccept`: `normalize_lang_eq`, `lang_value_matches_eq`,
  `charset_value_matches_eq`;
* API: `values_eq`, `best_eq`, `getitem_str_eq`, `to_header_eq` (`to_header_eq_of_some`,
  `to_header_join`, `toHeader_eq_none_iff`), `accept_xhtml_eq`, `accept_html_eq`, `accept_json_eq`.
Everything else is a helper. Candidates for a shared library: the `sorted(...)` facts
(`strLe_refl/total/antisymm/trans`, `insertSorted_perm`, `insertSorted_sorted`, `sortedStr_sorted`,
`sortedStr_perm`, `sortedStr_eq_iff`, `sortedStr_beq`) and `contains_slash`.
Core Lean only (`List.Perm.eq_of_pairwise`, `List.isPerm_iff`): no Mathlib import needed.
-/
import WzVerif.Gen.PyFns_Accept
import WzVerif.Lemmas.PyFns_Prelude
import WzVerif.Props.C17T
namespace Wz.PyFnsEq.Accept
open Wz Wz.Accept

/-! ## `sorted(...)` of a list of `str` -/

/-- `a <= a` for `str` -/
theorem strLe_refl (a : Pre.Str) : Pre.strLe a a = true := by
  induction a with
  | nil => rfl
  | cons x t ih => simp [Pre.strLe, ih]

/-- `str` comparison is total -/
theorem strLe_total (a b : Pre.Str) : Pre.strLe a b = true ∨ Pre.strLe b a = true := by
  induction a generalizing b with
  | nil => left; rfl
  | cons x t ih =>
    cases b with
    | nil => right; rfl
    | cons y u =>
      simp only [Pre.strLe]
      by_cases h1 : x.toNat < y.toNat
      · left; simp [h1]
      · by_cases h2 : y.toNat < x.toNat
        · right; simp [h2]
        · simp only [h1, h2, if_false]; exact ih u

/-- `a <= b` and `b <= a` only for equal strings (code points are compared, `Char.toNat` is injective) -/
theorem strLe_antisymm (a b : Pre.Str) (h1 : Pre.strLe a b = true) (h2 : Pre.strLe b a = true) :
    a = b := by
  induction a generalizing b with
  | nil =>
    cases b with
    | nil => rfl
    | cons y u => simp [Pre.strLe] at h2
  | cons x t ih =>
    cases b with
    | nil => simp [Pre.strLe] at h1
    | cons y u =>
      simp only [Pre.strLe] at h1 h2
      by_cases hxy : x.toNat < y.toNat
      · have : ¬ y.toNat < x.toNat := by omega
        simp [hxy, this] at h2
      · by_cases hyx : y.toNat < x.toNat
        · simp [hxy, hyx] at h1
        · simp only [hxy, hyx, if_false] at h1 h2
          have e : x = y := Char.toNat_inj.mp (by omega)
          rw [e, ih u h1 h2]

/-- `str` comparison is transitive -/
theorem strLe_trans (a b c : Pre.Str) (h1 : Pre.strLe a b = true) (h2 : Pre.strLe b c = true) :
    Pre.strLe a c = true := by
  induction a generalizing b c with
  | nil => rfl
  | cons x t ih =>
    cases b with
    | nil => simp [Pre.strLe] at h1
    | cons y u =>
      cases c with
      | nil => simp [Pre.strLe] at h2
      | cons z w =>
        simp only [Pre.strLe] at h1 h2 ⊢
        by_cases hxy : x.toNat < y.toNat
        · by_cases hyz : y.toNat < z.toNat
          · have : x.toNat < z.toNat := by omega
            simp [this]
          · by_cases hzy : z.toNat < y.toNat
            · simp [hyz, hzy] at h2
            · have : x.toNat < z.toNat := by omega
              simp [this]
        · by_cases hyx : y.toNat < x.toNat
          · simp [hxy, hyx] at h1
          · simp only [hxy, hyx, if_false] at h1
            by_cases hyz : y.toNat < z.toNat
            · have : x.toNat < z.toNat := by omega
              simp [this]
            · by_cases hzy : z.toNat < y.toNat
              · simp [hyz, hzy] at h2
              · simp only [hyz, hzy, if_false] at h2
                have a1 : ¬ x.toNat < z.toNat := by omega
                have a2 : ¬ z.toNat < x.toNat := by omega
                simp only [a1, a2, if_false]
                exact ih u w h1 h2

/-- inserting into a list only adds the new item -/
theorem insertSorted_perm (x : Pre.Str) (l : List Pre.Str) : (Pre.insertSorted x l).Perm (x :: l) := by
  induction l with
  | nil => exact List.Perm.refl _
  | cons y t ih =>
    unfold Pre.insertSorted
    by_cases h : Pre.strLe y x = true
    · simp only [h, if_true]
      exact ((List.Perm.cons y ih).trans (List.Perm.swap x y t))
    · simp only [h]
      exact List.Perm.refl _

/-- inserting into a sorted list keeps it sorted -/
theorem insertSorted_sorted (x : Pre.Str) (l : List Pre.Str)
    (hl : l.Pairwise (fun a b => Pre.strLe a b = true)) :
    (Pre.insertSorted x l).Pairwise (fun a b => Pre.strLe a b = true) := by
  induction l with
  | nil => simp [Pre.insertSorted]
  | cons y t ih =>
    have hy := (List.pairwise_cons.mp hl).1
    have ht := (List.pairwise_cons.mp hl).2
    unfold Pre.insertSorted
    by_cases h : Pre.strLe y x = true
    · simp only [h, if_true]
      refine List.pairwise_cons.mpr ⟨?_, ih ht⟩
      intro z hz
      rcases List.mem_cons.mp ((insertSorted_perm x t).mem_iff.mp hz) with e | e
      · rw [e]; exact h
      · exact hy z e
    · simp only [h]
      have hxy : Pre.strLe x y = true := by
        rcases strLe_total x y with h' | h'
        · exact h'
        · exact absurd h' h
      refine List.pairwise_cons.mpr ⟨?_, hl⟩
      intro z hz
      rcases List.mem_cons.mp hz with e | e
      · rw [e]; exact hxy
      · exact strLe_trans x y z hxy (hy z e)

/-- the insertion loop of `sortedStr`: sorted, and a permutation of accumulator plus input -/
theorem foldl_insertSorted (xs : List Pre.Str) : ∀ acc : List Pre.Str,
    acc.Pairwise (fun a b => Pre.strLe a b = true) →
    (xs.foldl (fun acc x => Pre.insertSorted x acc) acc).Pairwise (fun a b => Pre.strLe a b = true) ∧
    (xs.foldl (fun acc x => Pre.insertSorted x acc) acc).Perm (acc ++ xs) := by
  induction xs with
  | nil => intro acc h; simpa using h
  | cons x t ih =>
    intro acc h
    obtain ⟨h1, h2⟩ := ih (Pre.insertSorted x acc) (insertSorted_sorted x acc h)
    refine ⟨h1, h2.trans ?_⟩
    have := (insertSorted_perm x acc).append_right t
    refine this.trans ?_
    simp only [List.cons_append]
    exact (List.perm_middle).symm

/-- `sorted(xs)` is sorted -/
theorem sortedStr_sorted (xs : List Pre.Str) :
    (Pre.sortedStr xs).Pairwise (fun a b => Pre.strLe a b = true) :=
  (foldl_insertSorted xs [] List.Pairwise.nil).1

/-- `sorted(xs)` is a permutation of `xs` -/
theorem sortedStr_perm (xs : List Pre.Str) : (Pre.sortedStr xs).Perm xs := by
  have := (foldl_insertSorted xs [] List.Pairwise.nil).2
  simpa [Pre.sortedStr] using this

/-- `sorted(a) == sorted(b)` exactly when `a` is a permutation of `b` -/
theorem sortedStr_eq_iff (a b : List Pre.Str) : Pre.sortedStr a = Pre.sortedStr b ↔ a.Perm b := by
  constructor
  · intro h
    exact (sortedStr_perm a).symm.trans (h ▸ sortedStr_perm b)
  · intro h
    refine List.Perm.eq_of_pairwise (fun x y _ _ h1 h2 => strLe_antisymm x y h1 h2)
      (sortedStr_sorted a) (sortedStr_sorted b) ?_
    exact (sortedStr_perm a).trans (h.trans (sortedStr_perm b).symm)

/-- the code's `sorted(a) == sorted(b)` is the model's `a.isPerm b` -/
theorem sortedStr_beq (a b : List Pre.Str) : (Pre.sortedStr a == Pre.sortedStr b) = a.isPerm b := by
  rw [Bool.eq_iff_iff, beq_iff_eq, List.isPerm_iff]
  exact sortedStr_eq_iff a b


/-! ## `Accept` -/

/-- **`Accept._specificity(value)`**, as translated from the current source (`(value != "*",)`), is the
`spec` field `baseSpec` of the model's `acceptNeg` (also used by `langNeg` and `charsetNeg`), for every string. -/
theorem accept_specificity_eq (v : List Char) :
    Gen.PyFns_Accept.accept_specificity v = baseSpec v := rfl

/-- **`Accept._value_matches(value, item)`**, as translated (`item == "*" or item.lower() ==
value.lower()`), is the `matches` field `baseMatches` of the model's `acceptNeg`, for all strings. -/
theorem accept_value_matches_eq (value item : List Char) :
    Gen.PyFns_Accept.accept_value_matches value item = baseMatches value item := rfl

/-! ## `MIMEAccept` -/

/-- **`_normalize_mime(value)`**, as translated (`_mime_split_re.split(value.lower())`), is the model's
`mimeSplit` of the lowered value: the list `mimeNorm` takes its type, subtype and parameters from. -/
theorem normalize_mime_eq (v : List Char) :
    Gen.PyFns_Accept.normalize_mime v = mimeSplit (lowerA v) := rfl

/-- **`MIMEAccept._specificity(value)`**, as translated (`tuple(x != "*" for x in
_mime_split_re.split(value))`), is the `spec` field `mimeSpec` of the model's `mimeNeg`. -/
theorem mime_specificity_eq (v : List Char) :
    Gen.PyFns_Accept.mime_specificity v = mimeSpec v := rfl

/-- every `/` (and every `;`) starts a new piece: with a `/` there are at least two -/
theorem mimePieces_length (s : List Char) : ∀ cur : List Char, '/' ∈ s → 2 ≤ (mimePieces s cur).length := by
  induction s with
  | nil => intro cur h; simp at h
  | cons c t ih =>
    intro cur h
    have hpos : ∀ (t cur : List Char), 1 ≤ (mimePieces t cur).length := by
      intro t
      induction t with
      | nil => intro cur; simp [mimePieces]
      | cons d u ihu =>
        intro cur
        unfold mimePieces
        split
        · simp
        · split
          · simp
          · exact ihu _
    unfold mimePieces
    by_cases h1 : (c == '/') = true
    · simp only [h1, if_true, List.length_cons]
      have := hpos t []
      omega
    · have hc : c ≠ '/' := by simpa using h1
      have h1' : (c == '/') = false := by simpa using h1
      have ht : '/' ∈ t := by
        rcases List.mem_cons.mp h with e | e
        · exact absurd e.symm hc
        · exact e
      simp only [h1', Bool.false_eq_true, if_false]
      by_cases h2 : (c == ';') = true
      · simp only [h2, if_true, List.length_cons]
        have := ih [] ht
        omega
      · have h2' : (c == ';') = false := by simpa using h2
        simp only [h2', Bool.false_eq_true, if_false]
        exact ih _ ht

/-- trimming the whitespace around `;` keeps the number of pieces -/
theorem mimeTrim_length (l : List (List Char × Bool)) : ∀ b : Bool, (mimeTrim b l).length = l.length := by
  induction l with
  | nil => intro b; rfl
  | cons x t ih => intro b; obtain ⟨p, s⟩ := x; simp [mimeTrim, ih]

/-- a value with a `/` splits into at least two pieces -/
theorem mimeSplit_two (v : List Char) (h : '/' ∈ v) : ∃ a b ps, mimeSplit v = a :: b :: ps := by
  have hl : 2 ≤ (mimeSplit v).length := by
    unfold mimeSplit
    rw [mimeTrim_length]
    exact mimePieces_length v [] h
  match hm : mimeSplit v, hl with
  | a :: b :: ps, _ => exact ⟨a, b, ps, rfl⟩

/-- `"/" in x` implies `"/" in x.lower()` -/
theorem lowerA_slash (v : List Char) (h : hasSlash v = true) : '/' ∈ lowerA v := by
  have h' : '/' ∈ v := by simpa [hasSlash] using h
  unfold lowerA
  exact List.mem_map.mpr ⟨'/', h', by decide⟩

/-- `t, s = normalized[:2]` and `normalized[2:]` for a value with a `/`: never a `ValueError` from the
unpacking; the three parts are the model's `mimeNorm` -/
theorem normalize_unpack (x : List Char) (h : hasSlash x = true) :
    Pre.unpack2 (Pre.slice (Gen.PyFns_Accept.normalize_mime x) none (some 2)) =
        .ok ((mimeNorm x).type, (mimeNorm x).subtype) ∧
      Pre.slice (Gen.PyFns_Accept.normalize_mime x) (some 2) none = (mimeNorm x).params := by
  obtain ⟨a, b, ps, e⟩ := mimeSplit_two (lowerA x) (lowerA_slash x h)
  have e1 : Pre.slice (Gen.PyFns_Accept.normalize_mime x) none (some 2) = _ :=
    Pre.slice_none_nat (Gen.PyFns_Accept.normalize_mime x) 2
  have e2 : Pre.slice (Gen.PyFns_Accept.normalize_mime x) (some 2) none = _ :=
    Pre.slice_nat_none (Gen.PyFns_Accept.normalize_mime x) 2
  rw [e1, e2, normalize_mime_eq]
  unfold mimeNorm
  rw [e]
  exact ⟨rfl, rfl⟩

/-- `"/" in x` of the prelude is the model's `hasSlash` -/
theorem contains_slash (x : List Char) : Pre.contains x ['/'] = hasSlash x :=
  Pre.contains_singleton x '/'

/-- **`MIMEAccept._value_matches(value, item)`**, as translated from the current source, in full
(result *and* exceptions), for all strings: it raises `ValueError` exactly when the client item
contains a `/` and the offer `value` is invalid in the model's sense (`mimeOfferInvalid`: no `/`, or
type `*` with a subtype other than `*`), and otherwise returns the model's `mimeMatches value item`.
In particular no other exception is possible: the two unpackings `a, b = normalized[:2]` cannot
fail, because they are only reached for strings containing `/`, which `_mime_split_re` splits into
at least two pieces (`mimeSplit_two`); and the code's comparison of the `sorted` parameter lists is
the model's permutation test (`sortedStr_beq`). -/
theorem mime_value_matches_eq (value item : List Char) :
    Gen.PyFns_Accept.mime_value_matches value item =
      if hasSlash item && mimeOfferInvalid value then .error "ValueError"
      else .ok (mimeMatches value item) := by
  unfold Gen.PyFns_Accept.mime_value_matches
  rw [contains_slash, contains_slash]
  by_cases hi : hasSlash item = true
  · by_cases hv : hasSlash value = true
    · obtain ⟨v1, v2⟩ := normalize_unpack value hv
      obtain ⟨i1, i2⟩ := normalize_unpack item hi
      simp only [hi, hv, v1, v2, i1, i2, sortedStr_beq, mimeOfferInvalid, mimeMatches,
        Bool.not_true, Bool.false_eq_true, if_false, Bool.true_and, Bool.false_or, bne, star]
      by_cases hvs : ((mimeNorm value).type == ['*'] && !((mimeNorm value).subtype == ['*'])) = true
      · rw [if_pos hvs, if_pos hvs]
      · rw [if_neg hvs, if_neg hvs]
        by_cases his : ((mimeNorm item).type == ['*'] && !((mimeNorm item).subtype == ['*'])) = true
        · simp only [his, if_true]
        · have his' := Bool.eq_false_iff.mpr his
          simp only [his', Bool.false_eq_true, if_false]
    · have hv' : hasSlash value = false := by simpa using hv
      simp [hi, hv', mimeOfferInvalid]
  · have hi' : hasSlash item = false := by simpa using hi
    simp [hi', mimeMatches]


/-- whenever the translated `MIMEAccept._value_matches` returns, it returns the model's `mimeMatches` -/
theorem mime_value_matches_ok (value item : List Char) (b : Bool)
    (h : Gen.PyFns_Accept.mime_value_matches value item = .ok b) : b = mimeMatches value item := by
  rw [mime_value_matches_eq] at h
  split at h
  · cases h
  · exact (Except.ok.inj h).symm

/-- the translated `MIMEAccept._value_matches` raises only `ValueError`, and exactly when the item has
a `/` and the offer is invalid -/
theorem mime_value_matches_error (value item : List Char) (e : String) :
    Gen.PyFns_Accept.mime_value_matches value item = .error e ↔
      (e = "ValueError" ∧ hasSlash item = true ∧ mimeOfferInvalid value = true) := by
  rw [mime_value_matches_eq]
  by_cases h : (hasSlash item && mimeOfferInvalid value) = true
  · rw [if_pos h]
    have h' := h
    simp only [Bool.and_eq_true] at h'
    constructor
    · intro he; exact ⟨(Except.error.inj he).symm, h'⟩
    · intro he; rw [he.1]
  · rw [if_neg h]
    constructor
    · intro he; cases he
    · intro he; exact absurd (by simp [he.2.1, he.2.2]) h

/-- the model's raise predicate `mimeRaises self offer` (used by the C17 statements about
`MIMEAccept` lookups) holds exactly when the translated `_value_matches(offer, item)` raises
`ValueError` for some item of `self` -/
theorem mimeRaises_iff (self : List (List Char × Q)) (offer : List Char) :
    mimeRaises self offer = true ↔
      ∃ it ∈ self, Gen.PyFns_Accept.mime_value_matches offer it.1 = .error "ValueError" := by
  simp only [mimeRaises, Bool.and_eq_true, List.any_eq_true, mime_value_matches_error, true_and]
  constructor
  · rintro ⟨h1, it, h2, h3⟩; exact ⟨it, h2, h3, h1⟩
  · rintro ⟨it, h2, h3, h1⟩; exact ⟨h1, it, h2, h3⟩

/-! ## `LanguageAccept`, `CharsetAccept` -/

/-- **`_normalize_lang(value)`**, as translated (`_locale_delim_re.split(value.lower())`), is the
model's `normLang`. -/
theorem normalize_lang_eq (v : List Char) : Gen.PyFns_Accept.normalize_lang v = normLang v := rfl

/-- **`LanguageAccept._value_matches(value, item)`**, as translated (`item == "*" or
_normalize_lang(value) == _normalize_lang(item)`), is the `matches` field `langMatches` of `langNeg`. -/
theorem lang_value_matches_eq (value item : List Char) :
    Gen.PyFns_Accept.lang_value_matches value item = langMatches value item := rfl

/-- **`CharsetAccept._value_matches(value, item)`**, as translated (the local `_normalize` with its
`try: codecs.lookup(name).name / except LookupError: name.lower()`), is the `matches` field
`charsetMatches aliases` of the model's `charsetNeg aliases`, when the codec registry is the lookup
in the alias table `aliases` (the registry itself is an opaque parameter on both sides). -/
theorem charset_value_matches_eq (aliases : List (List Char × List Char)) (value item : List Char) :
    Gen.PyFns_Accept.charset_value_matches
        (fun n => (aliases.find? (fun p => p.1 == n)).map (·.2)) value item =
      charsetMatches aliases value item := by
  unfold Gen.PyFns_Accept.charset_value_matches Gen.PyFns_Accept.codecLookupName charsetMatches
    charsetNorm
  dsimp only
  cases List.find? (fun p => p.1 == value) aliases <;>
    cases List.find? (fun p => p.1 == item) aliases <;> rfl

/-! ## the rest of the `Accept` API -/

/-- the `for item in self: yield item[0]` loop of `Accept.values` -/
theorem values_loop_eq {κ : Type} (l : List (List Char × κ)) : ∀ acc : List (List Char),
    Gen.PyFns_Accept.values.loop1 l acc = .fall (acc ++ l.map (·.1)) := by
  induction l with
  | nil => intro acc; simp [Gen.PyFns_Accept.values.loop1]
  | cons x t ih => intro acc; simp [Gen.PyFns_Accept.values.loop1, ih]

/-- **`Accept.values()`**, as translated (the generator as the list of its items), yields the model's
`values`: the first components, in order, for every list of pairs. -/
theorem values_eq {κ : Type} (self : List (List Char × κ)) :
    Gen.PyFns_Accept.values self = Accept.values self := by
  unfold Gen.PyFns_Accept.values Accept.values
  simp only [values_loop_eq, List.nil_append]

/-- **`Accept.best`**, as translated (`if self: return self[0][0]`), never raises (the `IndexError` of
`self[0]` is excluded by the guard) and returns the model's `best`: the first item's value, or `None`. -/
theorem best_eq {κ : Type} (self : List (List Char × κ)) :
    Gen.PyFns_Accept.best self = .ok (Accept.best self) := by
  unfold Gen.PyFns_Accept.best Accept.best
  cases self with
  | nil => rfl
  | cons x t => simp [Pre.getItem_zero_cons]

/-- **`Accept.__getitem__(key)`** for a string key, as translated (`self.quality(key)`), is the model's
`getItemStr`: the quality of the first matching item, else `0`, for every class. -/
theorem getitem_str_eq {σ κ : Type} (N : Neg σ κ) (self : List (List Char × κ)) (key : List Char) :
    Gen.PyFns_Accept.getitem_str N self key = getItemStr N self key := by
  unfold Gen.PyFns_Accept.getitem_str getItemStr
  exact Props.C17T.quality_eq N self key

/-! ## `to_header` -/

/-- one element of the list `to_header` joins, with the printing function `qstr` -/
def hdrItem (qstr : Q → List Char) (it : List Char × Q) : List Char :=
  if it.2.isOne then it.1 else it.1 ++ [';', 'q', '='] ++ qstr it.2

/-- the `for value, quality in self` loop of `Accept.to_header` appends one `hdrItem` per item -/
theorem to_header_loop_eq {σ : Type} (N : Neg σ Q) (hN : N.qle = Q.le) (qstr : Q → List Char)
    (l : List (List Char × Q)) : ∀ acc : List (List Char),
    Gen.PyFns_Accept.to_header.loop1 N Q.one qstr l acc = .fall (acc ++ l.map (hdrItem qstr)) := by
  induction l with
  | nil => intro acc; simp [Gen.PyFns_Accept.to_header.loop1]
  | cons x t ih =>
    intro acc
    unfold Gen.PyFns_Accept.to_header.loop1
    have e : (Q.le x.2 Q.one && Q.le Q.one x.2) = x.2.isOne := rfl
    simp only [ih, hN, List.map_cons, hdrItem, e]
    cases x.2.isOne <;> simp

/-- the translated `Accept.to_header()`, for any class whose quality order is the model's `Q.le` and
any printing function `qstr` for `f"{quality}"`: the `,`-join of the items, `;q=` + `qstr quality`
appended to those whose quality is not 1 -/
theorem to_header_join {σ : Type} (N : Neg σ Q) (hN : N.qle = Q.le) (qstr : Q → List Char)
    (self : List (List Char × Q)) :
    Gen.PyFns_Accept.to_header N Q.one qstr self = [','].intercalate (self.map (hdrItem qstr)) := by
  unfold Gen.PyFns_Accept.to_header
  simp only [to_header_loop_eq N hN, List.nil_append, Pre.join_eq_intercalate']

/-- the model's partial `itemHeader` succeeds on every item where `qstr` agrees with `qRepr` -/
theorem mapM_itemHeader (qstr : Q → List Char) (self : List (List Char × Q))
    (h : ∀ it ∈ self, it.2.isOne = true ∨ qRepr it.2 = some (qstr it.2)) :
    self.mapM itemHeader = some (self.map (hdrItem qstr)) := by
  induction self with
  | nil => rfl
  | cons x t ih =>
    have hx : itemHeader x = some (hdrItem qstr x) := by
      unfold itemHeader hdrItem
      by_cases h1 : x.2.isOne = true
      · simp [h1]
      · have h1' : x.2.isOne = false := by simpa using h1
        rcases h x (List.mem_cons_self) with h2 | h2
        · exact absurd h2 h1
        · simp [h1', h2]
    rw [List.mapM_cons, hx, ih (fun it hit => h it (List.mem_cons_of_mem _ hit))]
    rfl

/-- **`Accept.to_header()`** (also `__str__`), as translated from the current source and instantiated
with the model's exact decimal qualities (`quality != 1` decided with `Q.le`, `f"{quality}"` printed
by `qstr`), returns the model's `toHeader self`, for every list in which each quality that is printed
(i.e. is not 1) is printed by `qstr` as the model's `qRepr` says. (`qRepr` is partial: it is `none`
below `1e-4`, where Python's float `repr` switches to exponent notation.) -/
theorem to_header_eq {σ : Type} (N : Neg σ Q) (hN : N.qle = Q.le) (qstr : Q → List Char)
    (self : List (List Char × Q))
    (h : ∀ it ∈ self, it.2.isOne = true ∨ qRepr it.2 = some (qstr it.2)) :
    toHeader self = some (Gen.PyFns_Accept.to_header N Q.one qstr self) := by
  unfold toHeader
  rw [mapM_itemHeader qstr self h, to_header_join N hN]
  rfl

/-- the model refuses an item exactly when its quality is not 1 and has no `qRepr` -/
theorem itemHeader_none_iff (it : List Char × Q) :
    itemHeader it = none ↔ (it.2.isOne = false ∧ qRepr it.2 = none) := by
  unfold itemHeader
  cases h1 : it.2.isOne <;> cases h2 : qRepr it.2 <;> simp

/-- one refused item makes the model's `mapM` fail -/
theorem mapM_itemHeader_none (self : List (List Char × Q)) (it : List Char × Q) (hit : it ∈ self)
    (h : itemHeader it = none) : self.mapM itemHeader = none := by
  induction self with
  | nil => cases hit
  | cons x t ih =>
    rw [List.mapM_cons]
    rcases List.mem_cons.mp hit with e | e
    · rw [← e, h]; rfl
    · rw [ih e]
      cases itemHeader x <;> rfl

/-- the model's `toHeader` is undefined exactly when some quality other than 1 is outside `qRepr`'s
domain (below `1e-4`) -/
theorem toHeader_eq_none_iff (self : List (List Char × Q)) :
    toHeader self = none ↔ ∃ it ∈ self, it.2.isOne = false ∧ qRepr it.2 = none := by
  constructor
  · intro h
    apply Classical.byContradiction
    intro hn
    have hall : ∀ it ∈ self, it.2.isOne = true ∨ qRepr it.2 = some ((fun q => (qRepr q).getD []) it.2) := by
      intro it hit
      cases h1 : it.2.isOne with
      | true => left; rfl
      | false =>
        right
        cases h2 : qRepr it.2 with
        | none => exact absurd ⟨it, hit, h1, h2⟩ hn
        | some r => simp [h2]
    have := to_header_eq acceptNeg rfl (fun q => (qRepr q).getD []) self hall
    rw [h] at this
    cases this
  · rintro ⟨it, hit, h1, h2⟩
    unfold toHeader
    rw [mapM_itemHeader_none self it hit ((itemHeader_none_iff it).mpr ⟨h1, h2⟩)]
    rfl

/-- `to_header_eq` without a side condition on the list: for every *total* printing function `qstr`
that agrees with the model's `qRepr` wherever that is defined, whenever the model's `toHeader` is
defined the translated `Accept.to_header()` returns exactly that text. -/
theorem to_header_eq_of_some {σ : Type} (N : Neg σ Q) (hN : N.qle = Q.le) (qstr : Q → List Char)
    (hq : ∀ q r, qRepr q = some r → qstr q = r)
    (self : List (List Char × Q)) (h : List Char) (hh : toHeader self = some h) :
    Gen.PyFns_Accept.to_header N Q.one qstr self = h := by
  have hall : ∀ it ∈ self, it.2.isOne = true ∨ qRepr it.2 = some (qstr it.2) := by
    intro it hit
    cases h1 : it.2.isOne with
    | true => left; rfl
    | false =>
      right
      cases h2 : qRepr it.2 with
      | none =>
        have := (toHeader_eq_none_iff self).mpr ⟨it, hit, h1, h2⟩
        rw [this] at hh
        cases hh
      | some r => rw [hq _ r h2]
  have := to_header_eq N hN qstr self hall
  rw [hh] at this
  exact (Option.some.inj this).symm

/-! ## `MIMEAccept` flags -/

/-- for a valid offer the translated `MIMEAccept._value_matches` never raises and is the `matches`
field of the model's `mimeNeg` (which is why the generic, exception-free methods can be
instantiated with `mimeNeg`) -/
theorem mime_value_matches_valid (value item : List Char) (h : mimeOfferInvalid value = false) :
    Gen.PyFns_Accept.mime_value_matches value item = .ok (mimeNeg.matches value item) := by
  rw [mime_value_matches_eq, h]
  simp only [Bool.and_false, Bool.false_eq_true, if_false]
  rfl

/-- the four literal offers of `accept_html` / `accept_xhtml` / `accept_json` are valid, so these
properties never raise `ValueError` -/
theorem flag_offers_valid : ∀ o ∈ [mtHtml, mtXhtml, mtXml, mtJson], mimeOfferInvalid o = false := by
  decide

/-- **`MIMEAccept.accept_xhtml`**, as translated (`"application/xhtml+xml" in self or
"application/xml" in self`, with the translated `__contains__`), is the model's `acceptXhtml`. -/
theorem accept_xhtml_eq (self : List (List Char × Q)) :
    Gen.PyFns_Accept.accept_xhtml mimeNeg self = acceptXhtml self := by
  unfold Gen.PyFns_Accept.accept_xhtml acceptXhtml
  simp only [Props.C17T.contains_eq]
  rfl

/-- **`MIMEAccept.accept_html`**, as translated (`"text/html" in self or self.accept_xhtml`), is the
model's `acceptHtml`. -/
theorem accept_html_eq (self : List (List Char × Q)) :
    Gen.PyFns_Accept.accept_html mimeNeg self = acceptHtml self := by
  unfold Gen.PyFns_Accept.accept_html acceptHtml
  simp only [Props.C17T.contains_eq, accept_xhtml_eq]
  rfl

/-- **`MIMEAccept.accept_json`**, as translated (`"application/json" in self`), is the model's
`acceptJson`. -/
theorem accept_json_eq (self : List (List Char × Q)) :
    Gen.PyFns_Accept.accept_json mimeNeg self = acceptJson self := by
  unfold Gen.PyFns_Accept.accept_json acceptJson
  simp only [Props.C17T.contains_eq]
  rfl

end Wz.PyFnsEq.Accept
