/-
PyFnsEq_Middleware — `DispatcherMiddleware.__call__` (`werkzeug/middleware/dispatcher.py`) *as
regenerated from werkzeug's source* by `tools/py2lean.py` (`Gen/PyFns_Url.lean`: `dispatcher_call` with
its `while "/" in script: … else: …` loop) is equal, for all inputs, to `Url.dispatch` of
`Model/Url.lean`, the hand-written model the C15 theorems are about. The generated definition is
rewritten on every check run; a change of the Python source changes it and breaks these obligations.
(The other middleware, `SharedDataMiddleware.__call__`, is in PyFnsEq_SharedData.lean; the shared helper
lemmas in PyFnsEq_MwHelpers.lean.)

Main theorems: `dispatcher_call_eq`, `dispatcher_call_eq_mem`, `dispatcher_call_never_raises`.
-/
import WzVerif.Gen.PyFns_Url
import WzVerif.Model.Url
import WzVerif.Lemmas.PyFns_Prelude
import WzVerif.Lemmas.Url
import WzVerif.Lemmas.PyFnsEq_MwHelpers
namespace Wz.PyFnsEq.Middleware
open Wz Wz.Pre

/-! ## `DispatcherMiddleware.__call__` -/

section dispatcher
open Gen.PyFns_Url
variable {α : Type}

/-- what `__call__` does with the outcome of its `while … else` loop: the `else` clause looks the
rest of the script up with `self.mounts.get(script, self.app)`, both paths then store
`SCRIPT_NAME` / `PATH_INFO` and call the app -/
def finish (sin : Str) (mounts : List (Str × α)) (app : α) :
    LoopB ((Str × Str) × Except String α) (Str × Str) (Str × Str × α) → (Str × Str) × Except String α
  | .ret r => r
  | .fall (script, pi) => ((sin ++ script, pi), .ok (dictGetD mounts script app))
  | .brk (script, pi, a) => ((sin ++ script, pi), .ok a)

theorem dispatcher_call_finish (fuel : Nat) (pin sin : Str) (mounts : List (Str × α)) (app : α)
    (o1 o2 : Str) :
    dispatcher_call fuel pin sin mounts app o1 o2 () ()
      = finish sin mounts app (dispatcher_call.loop1 pin sin mounts o1 o2 fuel pin []) := by
  unfold dispatcher_call
  dsimp only
  cases dispatcher_call.loop1 pin sin mounts o1 o2 fuel pin [] with
  | ret r => rfl
  | fall st => obtain ⟨a, b⟩ := st; rfl
  | brk st => obtain ⟨a, b, c⟩ := st; rfl

/-- the app the model's answer stands for: the one stored under the selected mount key
(`self.mounts.get(key, self.app)`: the first item with that key), the default app for `none` -/
def appOf (mounts : List (Str × α)) (app : α) (d : Url.Dispatch) : α :=
  match d.mount with
  | some k => dictGetD mounts k app
  | none => app

theorem rest_length_lt (r : Str) (h : r ≠ []) :
    ((r.dropWhile (· != '/')).drop 1).length < r.length := by
  have h1 : (r.dropWhile (· != '/')).length ≤ r.length := (List.dropWhile_sublist _).length_le
  have h2 : 0 < r.length := List.length_pos_iff.mpr h
  simp only [List.length_drop]
  omega

/-- The `while "/" in script` loop, as translated from the current source, started with
`script = reversed(r)` and any `path_info`, with more fuel than `script` has characters, followed by
the `else` clause and the two environ stores: never runs out of fuel, never raises, and produces what
the model loop `dispatchLoop` computes from the reversed text (for any amount of model fuel above the
length). Every iteration removes at least the last `/`, which is why `len(script) + 1` units suffice. -/
theorem dispatcher_loop_eq (pin sin : Str) (mounts : List (Str × α)) (app : α) (o1 o2 : Str) :
    ∀ (f1 f2 : Nat) (r pi : Str), r.length < f1 → r.length < f2 →
      finish sin mounts app (dispatcher_call.loop1 pin sin mounts o1 o2 f1 r.reverse pi)
        = (let d := Url.dispatchLoop (mounts.map (·.1)) f2 r pi
           ((sin ++ d.script, d.pathInfo), .ok (appOf mounts app d))) := by
  intro f1
  induction f1 with
  | zero => intro f2 r pi h; omega
  | succ f ih =>
    intro f2 r pi h1 h2
    cases f2 with
    | zero => omega
    | succ g =>
      unfold dispatcher_call.loop1 Url.dispatchLoop
      simp only [contains_singleton, List.contains_reverse, ← dictHas_eq_contains]
      by_cases hc : r.contains '/' = true
      · simp only [hc, if_true]
        by_cases hm : dictHas mounts r.reverse = true
        · simp only [hm, if_true, dictGetItem_of_has mounts r.reverse app hm]
          simp [finish, appOf]
        · have hm' : dictHas mounts r.reverse = false := by simpa using hm
          have hmem : '/' ∈ r.reverse := by simpa using hc
          have hne : r ≠ [] := by intro h; subst h; simp at hc
          have hl := rest_length_lt r hne
          simp only [hm', Bool.false_eq_true, if_false, rsplitOnce_singleton '/' r.reverse hmem,
            List.reverse_reverse]
          have := ih g ((r.dropWhile (· != '/')).drop 1)
            ('/' :: (r.takeWhile (· != '/')).reverse ++ pi) (by omega) (by omega)
          simpa using this
      · have hc' : r.contains '/' = false := by simpa using hc
        simp only [hc', Bool.false_eq_true, if_false]
        by_cases hm : dictHas mounts r.reverse = true
        · simp [finish, appOf, hm]
        · have hm' : dictHas mounts r.reverse = false := by simpa using hm
          simp [finish, appOf, hm', dictGetD_of_not_has mounts r.reverse app hm']

/-- **`DispatcherMiddleware.__call__`**, as translated from the current source of
`werkzeug/middleware/dispatcher.py` (`script = environ.get("PATH_INFO", "")`, the
`while "/" in script` loop with its `if script in self.mounts: app = self.mounts[script]; break`,
the `script.rsplit("/", 1)` step and `path_info = f"/{last_item}{path_info}"`, the loop's `else`
clause `app = self.mounts.get(script, self.app)`, the two environ stores and the call of the app),
for **every** mount table (apps are an abstract type), default app, `SCRIPT_NAME`, `PATH_INFO` and
every amount of fuel `≥ len(PATH_INFO) + 1`: the function terminates normally (the marker error
"py2lean: out of fuel" does not occur), **never raises** - `self.mounts[script]` is guarded by
`script in self.mounts`, the two-way unpacking of `rsplit` by `"/" in script` - stores
`SCRIPT_NAME = original + d.script` and `PATH_INFO = d.pathInfo` and calls the app stored under the
mount key `d.mount` (the default app for `none`), where `d` is what C15's model `Url.dispatch`
computes from the mount keys and `PATH_INFO` alone. All C15 theorems about `Url.dispatch`
(`dispatcher_preserves_concat`, `dispatcher_longest_mount`, `dispatcher_default_unchanged`) therefore
speak about the current source. No hypothesis on the mount table is needed: "the app stored under
`k`" is `self.mounts.get(k, self.app)` (`dictGetD`, the first item with that key; for a real dict -
distinct keys - see `dispatcher_call_eq_mem`). The initial values `o1 o2` of the two recorded environ
stores are irrelevant. No input was found on which code and model differ. -/
theorem dispatcher_call_eq (fuel : Nat) (path_info_in script_name_in : Str) (mounts : List (Str × α))
    (app : α) (o1 o2 : Str) (hf : path_info_in.length + 1 ≤ fuel) :
    dispatcher_call fuel path_info_in script_name_in mounts app o1 o2 () ()
      = (let d := Url.dispatch (mounts.map (·.1)) path_info_in
         ((script_name_in ++ d.script, d.pathInfo),
          .ok (match d.mount with
               | some k => dictGetD mounts k app
               | none => app))) := by
  rw [dispatcher_call_finish]
  have := dispatcher_loop_eq path_info_in script_name_in mounts app o1 o2 fuel
    (path_info_in.length + 1) path_info_in.reverse [] (by simp; omega) (by simp)
  simpa [Url.dispatch, appOf] using this

/-- `dispatcher_call_eq` for a real `dict` (distinct keys), without reference to the lookup
primitive: when the model selects the mount key `k`, the table has an item `(k, a)`, the function
stores `SCRIPT_NAME = original + k`, `PATH_INFO = d.pathInfo` and calls exactly that `a`; when the
model selects no mount, the default app is called. -/
theorem dispatcher_call_eq_mem (fuel : Nat) (path_info_in script_name_in : Str)
    (mounts : List (Str × α)) (app : α) (o1 o2 : Str) (hn : (mounts.map (·.1)).Nodup)
    (hf : path_info_in.length + 1 ≤ fuel) :
    let d := Url.dispatch (mounts.map (·.1)) path_info_in
    (∀ k, d.mount = some k → ∃ a, (k, a) ∈ mounts ∧
      dispatcher_call fuel path_info_in script_name_in mounts app o1 o2 () ()
        = ((script_name_in ++ k, d.pathInfo), .ok a)) ∧
    (d.mount = none →
      dispatcher_call fuel path_info_in script_name_in mounts app o1 o2 () ()
        = ((script_name_in ++ d.script, d.pathInfo), .ok app)) := by
  intro d
  have he := dispatcher_call_eq fuel path_info_in script_name_in mounts app o1 o2 hf
  constructor
  · intro k hk
    obtain ⟨hmem, hscript, _⟩ := (Url.dispatch_spec (mounts.map (·.1)) path_info_in).chosen k hk
    obtain ⟨x, hx, hxk⟩ := List.mem_map.mp hmem
    obtain ⟨k', a⟩ := x
    simp only at hxk
    subst hxk
    refine ⟨a, hx, ?_⟩
    rw [he]
    simp only [d] at hk hscript ⊢
    rw [hk, hscript]
    simp only [dictGetD_of_mem_nodup mounts k' a app hn hx]
  · intro hk
    rw [he]
    simp only [d] at hk ⊢
    rw [hk]

/-- `DispatcherMiddleware.__call__`, as translated, raises nothing itself for any mount table and any
request (whatever it returns or raises is the selected app's doing). -/
theorem dispatcher_call_never_raises (fuel : Nat) (path_info_in script_name_in : Str)
    (mounts : List (Str × α)) (app : α) (o1 o2 : Str) (hf : path_info_in.length + 1 ≤ fuel) :
    ∃ st a, dispatcher_call fuel path_info_in script_name_in mounts app o1 o2 () () = (st, .ok a) :=
  ⟨_, _, dispatcher_call_eq fuel path_info_in script_name_in mounts app o1 o2 hf⟩

/-- the fuel hypothesis is satisfiable -/
example : "/api/v1/users".toList.length + 1 ≤ 14 := by decide

/-- a concrete mount table (apps are numbers): the longest mounted prefix wins, the rest moves to
`PATH_INFO`; an unmounted path goes to the default app with `SCRIPT_NAME` unchanged -/
example :
    let r := dispatcher_call 14 "/api/v1/users".toList "/root".toList
      [("/api".toList, 1), ("/api/v1".toList, 2), ("/static".toList, 3)] (0 : Nat) [] [] () ()
    r.1 = ("/root/api/v1".toList, "/users".toList) ∧ r.2.toOption = some 2 := by decide

example :
    let r := dispatcher_call 14 "/other/x".toList "/root".toList
      [("/api".toList, 1), ("/api/v1".toList, 2), ("/static".toList, 3)] (0 : Nat) [] [] () ()
    r.1 = ("/root".toList, "/other/x".toList) ∧ r.2.toOption = some 0 := by decide

/-- a `PATH_INFO` without leading slash: the part before the first `/` ends up in `SCRIPT_NAME`
(replayed on CPython: `('/rootapi', '/v1')`, default app) -/
example :
    let r := dispatcher_call 7 "api/v1".toList "/root".toList
      [("/api".toList, 1), ("/api/v1".toList, 2), ("/static".toList, 3)] (0 : Nat) [] [] () ()
    r.1 = ("/rootapi".toList, "/v1".toList) ∧ r.2.toOption = some 0 := by decide

end dispatcher

end Wz.PyFnsEq.Middleware
