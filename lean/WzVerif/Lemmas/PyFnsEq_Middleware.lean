/-
PyFnsEq_Middleware — the two WSGI middlewares *as regenerated from werkzeug's source* by
`tools/py2lean.py` are equal, for all inputs, to the hand-written models the C15 / C14 theorems are
about:

* `DispatcherMiddleware.__call__` (`werkzeug/middleware/dispatcher.py`, `Gen/PyFns_Url.lean`:
  `dispatcher_call` with its `while "/" in script: … else: …` loop) against `Url.dispatch` of
  `Model/Url.lean`;
* `SharedDataMiddleware.__call__` up to the decision which file is served
  (`werkzeug/middleware/shared_data.py`, `Gen/PyFns_Paths.lean`: `shared_data_select` with its
  `for search_path, loader in self.exports` loop) against `Paths.findExport` / `Paths.sharedData` of
  `Model/StaticFiles.lean`.

The generated definitions are rewritten on every check run; a change of the Python source changes
them and breaks these obligations.

Main theorems: `dispatcher_call_eq`, `dispatcher_call_eq_mem`, `dispatcher_call_never_raises`
(dispatcher); `shared_data_select_general`, `shared_data_select_not_unbound`, `shared_data_select_eq`,
`shared_data_select_served` (shared data). Everything else is a helper; candidates for a shared
library: `rfindIdx?_singleton_not_mem`, `rfindIdx?_singleton_append`, `rsplitOnce_singleton`,
`endswith_singleton`, `dictHas_eq_contains`, `dictGetItem_of_has`, `dictGetD_of_not_has`,
`dictGetD_of_mem_nodup`.
-/
import WzVerif.Gen.PyFns_Url
import WzVerif.Gen.PyFns_Paths
import WzVerif.Model.StaticFiles
import WzVerif.Model.Url
import WzVerif.Lemmas.PyFns_Prelude
import WzVerif.Lemmas.Url
namespace Wz.PyFnsEq.Middleware
open Wz Wz.Pre

/-! ## `rfind` / `rsplit(sep, 1)` for a one-character separator -/

section rsplit
variable {α : Type} [BEq α] [LawfulBEq α]

/-- `s.rfind(c)` for a one-character `c` that does not occur -/
theorem rfindIdx?_singleton_not_mem (c : α) (s : List α) (h : c ∉ s) : rfindIdx? [c] s = none := by
  induction s with
  | nil => simp [rfindIdx?]
  | cons x t ih =>
    have hx : (c == x) = false := by
      simp only [List.mem_cons, not_or] at h
      simpa using h.1
    have ht : c ∉ t := fun hm => h (List.mem_cons_of_mem _ hm)
    simp [rfindIdx?, ih ht, isPrefixOf_singleton, hx]

/-- `s.rfind(c)` is the position of the `c` after which no `c` occurs -/
theorem rfindIdx?_singleton_append (c : α) (pre post : List α) (h : c ∉ post) :
    rfindIdx? [c] (pre ++ c :: post) = some pre.length := by
  induction pre with
  | nil => simp [rfindIdx?, rfindIdx?_singleton_not_mem c post h]
  | cons x t ih => simp [rfindIdx?, ih]

/-- `s.rsplit(c, 1)` for a one-character `c` that occurs in `s`, in terms of the reversed text: the
last item is what precedes the first `c` of `reversed(s)`, the head is what follows it. In
particular the two-way unpacking `a, b = s.rsplit(c, 1)` cannot fail under `c in s`. -/
theorem rsplitOnce_singleton (c : α) (s : List α) (h : c ∈ s) :
    rsplitOnce s [c] = .ok (((s.reverse.dropWhile (· != c)).drop 1).reverse,
      (s.reverse.takeWhile (· != c)).reverse) := by
  rcases split_at_first c s.reverse with ⟨h1, _, _⟩ | ⟨pre, post, h1, h2, h3, h4⟩
  · exact absurd (by simpa using h) h1
  · have hs : s = post.reverse ++ c :: pre.reverse := by
      have := congrArg List.reverse h1
      simpa using this
    rw [h3, h4]
    unfold rsplitOnce
    have hp : c ∉ pre.reverse := by simpa using h2
    rw [hs, rfindIdx?_singleton_append c _ _ hp]
    have e1 : post.reverse ++ c :: pre.reverse = (post.reverse ++ [c]) ++ pre.reverse := by simp
    have e2 : post.reverse.length + [c].length = (post.reverse ++ [c]).length := by simp
    simp only [List.take_left', e2]
    rw [e1, List.drop_left' rfl]
    simp

end rsplit

/-! ## dict primitives -/

section dict
variable {κ ν : Type} [BEq κ] [LawfulBEq κ]

/-- `k in d` is membership in the list of keys -/
theorem dictHas_eq_contains (d : List (κ × ν)) (k : κ) :
    dictHas d k = (d.map (·.1)).contains k := by
  induction d with
  | nil => rfl
  | cons x t ih =>
    simp only [dictHas, List.any_cons, List.map_cons, List.contains_cons] at ih ⊢
    rw [ih]
    rw [BEq.comm]

omit [LawfulBEq κ] in
/-- `d[k]` under `k in d` does not raise and is `d.get(k, default)` for every default -/
theorem dictGetItem_of_has (d : List (κ × ν)) (k : κ) (dflt : ν) (h : dictHas d k = true) :
    dictGetItem d k = .ok (dictGetD d k dflt) := by
  unfold dictGetItem dictGetD dictGet?
  unfold dictHas at h
  obtain ⟨x, hx, hk⟩ := List.any_eq_true.mp h
  cases hf : d.find? (·.1 == k) with
  | none =>
    have := List.find?_eq_none.mp hf x hx
    exact absurd hk this
  | some y => simp

/-- `d.get(k, default)` is the default when `k not in d` -/
theorem dictGetD_of_not_has (d : List (κ × ν)) (k : κ) (dflt : ν) (h : dictHas d k = false) :
    dictGetD d k dflt = dflt := by
  unfold dictGetD dictGet?
  unfold dictHas at h
  have : d.find? (·.1 == k) = none := by
    rw [List.find?_eq_none]
    intro x hx
    have := List.any_eq_false.mp h x hx
    simpa using this
  simp [this]

/-- for a dict (distinct keys): `d.get(k, default)` is the value stored under `k` -/
theorem dictGetD_of_mem_nodup (d : List (κ × ν)) (k : κ) (v dflt : ν)
    (hn : (d.map (·.1)).Nodup) (hm : (k, v) ∈ d) : dictGetD d k dflt = v := by
  induction d with
  | nil => simp at hm
  | cons x t ih =>
    simp only [List.map_cons, List.nodup_cons] at hn
    unfold dictGetD dictGet?
    rcases List.mem_cons.mp hm with hx | ht
    · subst hx; simp
    · have hne : x.1 ≠ k := by
        intro he
        apply hn.1
        rw [he]
        exact List.mem_map.mpr ⟨(k, v), ht, rfl⟩
      have : (x.1 == k) = false := by simpa using hne
      simp only [List.find?_cons, this]
      exact ih hn.2 ht

end dict

/-! ## `DispatcherMiddleware.__call__` -/

section dispatcher
open Gen.PyFns_Url
variable {α : Type}

/-- what `__call__` does with the outcome of its `while … else` loop: the `else` clause looks the
rest of the script up with `self.mounts.get(script, self.app)`, both paths then store
`SCRIPT_NAME` / `PATH_INFO` and call the app -/
def finish (sin : Str) (mounts : List (Str × α)) (app : α) :
    LoopB ((Str × Str) × Except String α) (Str × Str) (Str × Str × α) → (Str × Str) × Except String α
  | .ret r => r
  | .fall (script, pi) => ((sin ++ script, pi), .ok (dictGetD mounts script app))
  | .brk (script, pi, a) => ((sin ++ script, pi), .ok a)

theorem dispatcher_call_finish (fuel : Nat) (pin sin : Str) (mounts : List (Str × α)) (app : α)
    (o1 o2 : Str) :
    dispatcher_call fuel pin sin mounts app o1 o2 () ()
      = finish sin mounts app (dispatcher_call.loop1 pin sin mounts o1 o2 fuel pin []) := by
  unfold dispatcher_call
  dsimp only
  cases dispatcher_call.loop1 pin sin mounts o1 o2 fuel pin [] with
  | ret r => rfl
  | fall st => obtain ⟨a, b⟩ := st; rfl
  | brk st => obtain ⟨a, b, c⟩ := st; rfl

/-- the app the model's answer stands for: the one stored under the selected mount key
(`self.mounts.get(key, self.app)`: the first item with that key), the default app for `none` -/
def appOf (mounts : List (Str × α)) (app : α) (d : Url.Dispatch) : α :=
  match d.mount with
  | some k => dictGetD mounts k app
  | none => app

theorem rest_length_lt (r : Str) (h : r ≠ []) :
    ((r.dropWhile (· != '/')).drop 1).length < r.length := by
  have h1 : (r.dropWhile (· != '/')).length ≤ r.length := (List.dropWhile_sublist _).length_le
  have h2 : 0 < r.length := List.length_pos_iff.mpr h
  simp only [List.length_drop]
  omega

/-- The `while "/" in script` loop, as translated from the current source, started with
`script = reversed(r)` and any `path_info`, with more fuel than `script` has characters, followed by
the `else` clause and the two environ stores: never runs out of fuel, never raises, and produces what
the model loop `dispatchLoop` computes from the reversed text (for any amount of model fuel above the
length). Every iteration removes at least the last `/`, which is why `len(script) + 1` units suffice. -/
theorem dispatcher_loop_eq (pin sin : Str) (mounts : List (Str × α)) (app : α) (o1 o2 : Str) :
    ∀ (f1 f2 : Nat) (r pi : Str), r.length < f1 → r.length < f2 →
      finish sin mounts app (dispatcher_call.loop1 pin sin mounts o1 o2 f1 r.reverse pi)
        = (let d := Url.dispatchLoop (mounts.map (·.1)) f2 r pi
           ((sin ++ d.script, d.pathInfo), .ok (appOf mounts app d))) := by
  intro f1
  induction f1 with
  | zero => intro f2 r pi h; omega
  | succ f ih =>
    intro f2 r pi h1 h2
    cases f2 with
    | zero => omega
    | succ g =>
      unfold dispatcher_call.loop1 Url.dispatchLoop
      simp only [contains_singleton, List.contains_reverse, ← dictHas_eq_contains]
      by_cases hc : r.contains '/' = true
      · simp only [hc, if_true]
        by_cases hm : dictHas mounts r.reverse = true
        · simp only [hm, if_true, dictGetItem_of_has mounts r.reverse app hm]
          simp [finish, appOf]
        · have hm' : dictHas mounts r.reverse = false := by simpa using hm
          have hmem : '/' ∈ r.reverse := by simpa using hc
          have hne : r ≠ [] := by intro h; subst h; simp at hc
          have hl := rest_length_lt r hne
          simp only [hm', Bool.false_eq_true, if_false, rsplitOnce_singleton '/' r.reverse hmem,
            List.reverse_reverse]
          have := ih g ((r.dropWhile (· != '/')).drop 1)
            ('/' :: (r.takeWhile (· != '/')).reverse ++ pi) (by omega) (by omega)
          simpa using this
      · have hc' : r.contains '/' = false := by simpa using hc
        simp only [hc', Bool.false_eq_true, if_false]
        by_cases hm : dictHas mounts r.reverse = true
        · simp [finish, appOf, hm]
        · have hm' : dictHas mounts r.reverse = false := by simpa using hm
          simp [finish, appOf, hm', dictGetD_of_not_has mounts r.reverse app hm']

/-- **`DispatcherMiddleware.__call__`**, as translated from the current source of
`werkzeug/middleware/dispatcher.py` (`script = environ.get("PATH_INFO", "")`, the
`while "/" in script` loop with its `if script in self.mounts: app = self.mounts[script]; break`,
the `script.rsplit("/", 1)` step and `path_info = f"/{last_item}{path_info}"`, the loop's `else`
clause `app = self.mounts.get(script, self.app)`, the two environ stores and the call of the app),
for **every** mount table (apps are an abstract type), default app, `SCRIPT_NAME`, `PATH_INFO` and
every amount of fuel `≥ len(PATH_INFO) + 1`: the function terminates normally (the marker error
"py2lean: out of fuel" does not occur), **never raises** - `self.mounts[script]` is guarded by
`script in self.mounts`, the two-way unpacking of `rsplit` by `"/" in script` - stores
`SCRIPT_NAME = original + d.script` and `PATH_INFO = d.pathInfo` and calls the app stored under the
mount key `d.mount` (the default app for `none`), where `d` is what C15's model `Url.dispatch`
computes from the mount keys and `PATH_INFO` alone. All C15 theorems about `Url.dispatch`
(`dispatcher_preserves_concat`, `dispatcher_longest_mount`, `dispatcher_default_unchanged`) therefore
speak about the current source. No hypothesis on the mount table is needed: "the app stored under
`k`" is `self.mounts.get(k, self.app)` (`dictGetD`, the first item with that key; for a real dict -
distinct keys - see `dispatcher_call_eq_mem`). The initial values `o1 o2` of the two recorded environ
stores are irrelevant. No input was found on which code and model differ. -/
theorem dispatcher_call_eq (fuel : Nat) (path_info_in script_name_in : Str) (mounts : List (Str × α))
    (app : α) (o1 o2 : Str) (hf : path_info_in.length + 1 ≤ fuel) :
    dispatcher_call fuel path_info_in script_name_in mounts app o1 o2 () ()
      = (let d := Url.dispatch (mounts.map (·.1)) path_info_in
         ((script_name_in ++ d.script, d.pathInfo),
          .ok (match d.mount with
               | some k => dictGetD mounts k app
               | none => app))) := by
  rw [dispatcher_call_finish]
  have := dispatcher_loop_eq path_info_in script_name_in mounts app o1 o2 fuel
    (path_info_in.length + 1) path_info_in.reverse [] (by simp; omega) (by simp)
  simpa [Url.dispatch, appOf] using this

/-- `dispatcher_call_eq` for a real `dict` (distinct keys), without reference to the lookup
primitive: when the model selects the mount key `k`, the table has an item `(k, a)`, the function
stores `SCRIPT_NAME = original + k`, `PATH_INFO = d.pathInfo` and calls exactly that `a`; when the
model selects no mount, the default app is called. -/
theorem dispatcher_call_eq_mem (fuel : Nat) (path_info_in script_name_in : Str)
    (mounts : List (Str × α)) (app : α) (o1 o2 : Str) (hn : (mounts.map (·.1)).Nodup)
    (hf : path_info_in.length + 1 ≤ fuel) :
    let d := Url.dispatch (mounts.map (·.1)) path_info_in
    (∀ k, d.mount = some k → ∃ a, (k, a) ∈ mounts ∧
      dispatcher_call fuel path_info_in script_name_in mounts app o1 o2 () ()
        = ((script_name_in ++ k, d.pathInfo), .ok a)) ∧
    (d.mount = none →
      dispatcher_call fuel path_info_in script_name_in mounts app o1 o2 () ()
        = ((script_name_in ++ d.script, d.pathInfo), .ok app)) := by
  intro d
  have he := dispatcher_call_eq fuel path_info_in script_name_in mounts app o1 o2 hf
  constructor
  · intro k hk
    obtain ⟨hmem, hscript, _⟩ := (Url.dispatch_spec (mounts.map (·.1)) path_info_in).chosen k hk
    obtain ⟨x, hx, hxk⟩ := List.mem_map.mp hmem
    obtain ⟨k', a⟩ := x
    simp only at hxk
    subst hxk
    refine ⟨a, hx, ?_⟩
    rw [he]
    simp only [d] at hk hscript ⊢
    rw [hk, hscript]
    simp only [dictGetD_of_mem_nodup mounts k' a app hn hx]
  · intro hk
    rw [he]
    simp only [d] at hk ⊢
    rw [hk]

/-- `DispatcherMiddleware.__call__`, as translated, raises nothing itself for any mount table and any
request (whatever it returns or raises is the selected app's doing). -/
theorem dispatcher_call_never_raises (fuel : Nat) (path_info_in script_name_in : Str)
    (mounts : List (Str × α)) (app : α) (o1 o2 : Str) (hf : path_info_in.length + 1 ≤ fuel) :
    ∃ st a, dispatcher_call fuel path_info_in script_name_in mounts app o1 o2 () () = (st, .ok a) :=
  ⟨_, _, dispatcher_call_eq fuel path_info_in script_name_in mounts app o1 o2 hf⟩

/-- the fuel hypothesis is satisfiable -/
example : "/api/v1/users".toList.length + 1 ≤ 14 := by decide

/-- a concrete mount table (apps are numbers): the longest mounted prefix wins, the rest moves to
`PATH_INFO`; an unmounted path goes to the default app with `SCRIPT_NAME` unchanged -/
example :
    let r := dispatcher_call 14 "/api/v1/users".toList "/root".toList
      [("/api".toList, 1), ("/api/v1".toList, 2), ("/static".toList, 3)] (0 : Nat) [] [] () ()
    r.1 = ("/root/api/v1".toList, "/users".toList) ∧ r.2.toOption = some 2 := by decide

example :
    let r := dispatcher_call 14 "/other/x".toList "/root".toList
      [("/api".toList, 1), ("/api/v1".toList, 2), ("/static".toList, 3)] (0 : Nat) [] [] () ()
    r.1 = ("/root".toList, "/other/x".toList) ∧ r.2.toOption = some 0 := by decide

/-- a `PATH_INFO` without leading slash: the part before the first `/` ends up in `SCRIPT_NAME`
(replayed on CPython: `('/rootapi', '/v1')`, default app) -/
example :
    let r := dispatcher_call 7 "api/v1".toList "/root".toList
      [("/api".toList, 1), ("/api/v1".toList, 2), ("/static".toList, 3)] (0 : Nat) [] [] () ()
    r.1 = ("/rootapi".toList, "/v1".toList) ∧ r.2.toOption = some 0 := by decide

end dispatcher

/-! ## `SharedDataMiddleware.__call__` -/

/-- `s.endswith(c)` for a one-character `c`: the last character is `c` -/
theorem endswith_singleton {α : Type} [BEq α] [LawfulBEq α] (s : List α) (c : α) :
    endswith s [c] = (s.getLast? == some c) := by
  unfold endswith List.isSuffixOf
  rw [← List.head?_reverse]
  cases s.reverse with
  | nil => simp
  | cons x t => simp [isPrefixOf_singleton, BEq.comm]

/-- `if not search_path.endswith("/"): search_path += "/"` -/
theorem withSlash_eq (s : Str) :
    (if !(endswith s ['/']) then s ++ ['/'] else s) = Paths.withSlash s := by
  unfold Paths.withSlash
  rw [endswith_singleton]
  by_cases h : s.getLast? = some '/' <;> simp [h]

section shared
open Gen.PyFns_Paths
variable {Ldr Fld : Type}

/-- the answer `(real_filename, file_loader)` of a loader call, read as the loop reads it:
`some` = `file_loader is not None` (the loop `break`s), `none` = go on -/
def hit (r : Option Str × Option Fld) : Option (Option Str × Fld) :=
  match r.2 with
  | some fl => some (r.1, fl)
  | none => none

/-- one iteration of the export loop for an arbitrary loader: the exact-match call `loader(None)`
when `search_path == path`, else / after it the prefix call `loader(path[len(search_path'):])` with
`search_path' = search_path` + `/` if missing, when `path` starts with `search_path'` -/
def tryLoader (call : Ldr → Option Str → Option Str × Option Fld) (path search : Str) (ldr : Ldr) :
    Option (Option Str × Fld) :=
  match (if search = path then hit (call ldr none) else none) with
  | some r => some r
  | none =>
    if Paths.startsWith path (Paths.withSlash search) then
      hit (call ldr (some (path.drop (Paths.withSlash search).length)))
    else none

/-- the first export, in order, one of whose (at most two) loader calls answers a file loader -/
def firstLoader (call : Ldr → Option Str → Option Str × Option Fld) (path : Str) :
    List (Str × Ldr) → Option (Option Str × Fld)
  | [] => none
  | (search, ldr) :: rest =>
    match tryLoader call path search ldr with
    | some r => some r
    | none => firstLoader call path rest

/-- **The `for search_path, loader in self.exports` loop** of `SharedDataMiddleware.__call__`, as
translated from the current source, for **arbitrary** loaders (`call` is `loader(path)`), entered
with `file_loader = None` and `real_filename` in any state (unbound or bound): it is left by `break`
exactly when some export's loader answers a non-`None` file loader - for the first such export in
the order of `self.exports`, with the `(real_filename, file_loader)` of that call (`firstLoader`) -
and otherwise runs to its end with `file_loader` still `None`. It never returns from inside. -/
theorem shared_data_loop_eq (pinfo : Str) (call : Ldr → Option Str → Option Str × Option Fld)
    (allowed : Str → Bool) (path : Str) : ∀ (exports : List (Str × Ldr)) (rf : Option (Option Str)),
    (∀ r, firstLoader call path exports = some r →
      shared_data_select.loop1 pinfo call allowed path exports rf none = .brk (some r.1, some r.2)) ∧
    (firstLoader call path exports = none →
      ∃ rf', shared_data_select.loop1 pinfo call allowed path exports rf none = .fall (rf', none)) := by
  intro exports
  induction exports with
  | nil => intro rf; exact ⟨fun r h => by simp [firstLoader] at h, fun _ => ⟨rf, rfl⟩⟩
  | cons x rest ih =>
    intro rf
    obtain ⟨search, ldr⟩ := x
    unfold shared_data_select.loop1 firstLoader tryLoader
    simp only [withSlash_eq, Int.ofNat_eq_natCast, slice_nat_none, startswith, Paths.startsWith,
      beq_iff_eq]
    by_cases hs : search = path
    · simp only [hs, if_true]
      cases h1 : call ldr none with
      | mk a b =>
        cases b with
        | some fl => simp [hit]
        | none =>
          by_cases hp : (Paths.withSlash path).isPrefixOf path = true
          · simp only [hp, if_true, hit]
            cases h2 : call ldr (some (path.drop (Paths.withSlash path).length)) with
            | mk a2 b2 =>
              cases b2 with
              | some fl => simp
              | none => simpa using ih (some a2)
          · simp only [hp, Bool.false_eq_true, if_false, hit]
            simpa using ih (some a)
    · simp only [hs, if_false]
      by_cases hp : (Paths.withSlash search).isPrefixOf path = true
      · simp only [hp, if_true, hit]
        cases h2 : call ldr (some (path.drop (Paths.withSlash search).length)) with
        | mk a2 b2 =>
          cases b2 with
          | some fl => simp
          | none => simpa using ih (some a2)
      · simp only [hp, Bool.false_eq_true, if_false]
        simpa using ih rf

/-- what `__call__` does with the loop's answer: `file_loader is None or not
self.is_allowed(real_filename)` sends the request to the wrapped application (`none`) -/
def selected (allowed : Str → Bool) : Option (Option Str × Fld) → Except String (Option (Str × Fld))
  | none => .ok none
  | some (none, _) => .error "TypeError"
  | some (some name, fl) => if allowed name then .ok (some (name, fl)) else .ok none

/-- **`SharedDataMiddleware.__call__` up to the decision which file is served**, as translated from
the current source (the export loop, then `if file_loader is None or not
self.is_allowed(real_filename): return self.app(…)`), for **arbitrary** loaders, every `is_allowed`
predicate, every export list and every request path: the request goes to the wrapped application
(`none`) when no export's loader answers a file loader, or when `is_allowed` rejects the
`real_filename` of the first one that does; otherwise that `(real_filename, file_loader)` is served.
The only error arm that can be reached is `is_allowed(None)` ("TypeError": a loader answered
`(None, file_loader)` with a file loader - none of werkzeug's three loaders does, see
`shared_data_select_eq`). -/
theorem shared_data_select_general (path : Str) (call : Ldr → Option Str → Option Str × Option Fld)
    (allowed : Str → Bool) (exports : List (Str × Ldr)) :
    shared_data_select path call allowed exports () ()
      = selected allowed (firstLoader call path exports) := by
  unfold shared_data_select
  dsimp only
  obtain ⟨hb, hf⟩ := shared_data_loop_eq path call allowed path exports none
  cases h : firstLoader call path exports with
  | none =>
    obtain ⟨rf', hl⟩ := hf h
    rw [hl]; rfl
  | some r =>
    obtain ⟨n, fl⟩ := r
    rw [hb _ h]
    cases n with
    | none => rfl
    | some name => cases ha : allowed name <;> simp [selected, ha]

/-- `real_filename` is declared by its first assignment inside the loop, and read after the loop;
the translation therefore has an "UnboundLocalError" arm. It is **unreachable for every loader**:
`real_filename` is only read when `file_loader is not None`, and both are assigned together. -/
theorem shared_data_select_not_unbound (path : Str)
    (call : Ldr → Option Str → Option Str × Option Fld) (allowed : Str → Bool)
    (exports : List (Str × Ldr)) :
    shared_data_select path call allowed exports () () ≠ .error "UnboundLocalError" := by
  rw [shared_data_select_general]
  cases firstLoader call path exports with
  | none => simp [selected]
  | some r =>
    obtain ⟨n, fl⟩ := r
    cases n with
    | none => simp [selected]
    | some name => cases ha : allowed name <;> simp [selected, ha]

/-! ### werkzeug's own loaders -/

/-- `loader(path)` for the loader `__init__` chose for an export (`Paths.loaderOf`: directory, single
file or package loader); the file-loader object is represented by the path it opens -/
def callOf (isfile : Str → Bool) : Paths.Export → Option Str → Option Str × Option Str :=
  fun ex p =>
    match Paths.loaderOf isfile ex p with
    | some (name, f) => (some name, some f)
    | none => (none, none)

/-- a model answer as the generic loop sees it: the `real_filename` is never `None` -/
def lift : Str × Str → Option Str × Str := fun r => (some r.1, r.2)

theorem hit_callOf (isfile : Str → Bool) (ex : Paths.Export) (p : Option Str) :
    hit (callOf isfile ex p) = (Paths.loaderOf isfile ex p).map lift := by
  unfold callOf hit
  cases Paths.loaderOf isfile ex p with
  | none => rfl
  | some r => obtain ⟨a, b⟩ := r; rfl

theorem tryLoader_callOf (isfile : Str → Bool) (path search : Str) (ex : Paths.Export) :
    tryLoader (callOf isfile) path search ex = (Paths.tryExport isfile search ex path).map lift := by
  unfold tryLoader Paths.tryExport
  simp only [hit_callOf]
  by_cases hs : search = path
  · simp only [hs, if_true]
    cases Paths.loaderOf isfile ex none with
    | some r => rfl
    | none =>
      simp only [Option.map_none]
      split <;> rfl
  · simp only [hs, if_false]
    split <;> rfl

theorem firstLoader_callOf (isfile : Str → Bool) (path : Str) (exports : List (Str × Paths.Export)) :
    firstLoader (callOf isfile) path exports = (Paths.findExport isfile exports path).map lift := by
  induction exports with
  | nil => rfl
  | cons x rest ih =>
    obtain ⟨search, ex⟩ := x
    unfold firstLoader Paths.findExport
    rw [tryLoader_callOf, ih]
    cases Paths.tryExport isfile search ex path <;> rfl

/-- **`SharedDataMiddleware.__call__` with werkzeug's own loaders**, as translated from the current
source, for every file system (`isfile`), every `is_allowed` predicate, every export list as
`__init__` builds it (directory / single-file / package exports, in the order of `self.exports`) and
every request path: the function **never raises** - no `UnboundLocalError` and no `TypeError` arm is
reachable, because these loaders answer `(None, None)` or `(basename, opener)` - and it decides
exactly as C14's model: the first export whose loader finds a file (`Paths.findExport`), served iff
`is_allowed(real_filename)`. The answer is `(real_filename, path that is opened)`, `none` = the
wrapped application is called. No input was found on which code and model differ. -/
theorem shared_data_select_eq (isfile allowed : Str → Bool) (exports : List (Str × Paths.Export))
    (path : Str) :
    shared_data_select path
        (fun ex p => match Paths.loaderOf isfile ex p with
          | some (name, f) => (some name, some f)
          | none => (none, none))
        allowed exports () ()
      = .ok ((Paths.findExport isfile exports path).bind fun (name, f) =>
          if allowed name then some (name, f) else none) := by
  have h := shared_data_select_general path (callOf isfile) allowed exports
  rw [firstLoader_callOf] at h
  refine Eq.trans h ?_
  cases Paths.findExport isfile exports path with
  | none => rfl
  | some r =>
    obtain ⟨name, f⟩ := r
    cases ha : allowed name <;> simp [selected, lift, ha]

/-- **The file that is served**: the path opened by the file loader the translated `__call__`
selects is exactly C14's `Paths.sharedData` (the function the C14 containment theorems are about),
for every file system, `is_allowed`, export list and request path. -/
theorem shared_data_select_served (isfile allowed : Str → Bool) (exports : List (Str × Paths.Export))
    (path : Str) :
    (shared_data_select path
        (fun ex p => match Paths.loaderOf isfile ex p with
          | some (name, f) => (some name, some f)
          | none => (none, none))
        allowed exports () ()).map (Option.map (·.2))
      = .ok (Paths.sharedData isfile allowed exports path) := by
  rw [shared_data_select_eq]
  unfold Paths.sharedData
  cases Paths.findExport isfile exports path with
  | none => rfl
  | some r =>
    obtain ⟨name, f⟩ := r
    cases ha : allowed name <;> simp [Except.map, ha]

/-- a directory export and a single-file export on a file system with the two files
`/srv/static/a.txt` and `/srv/one.txt`: the directory loader joins safely, the file loader ignores
what follows its key (replayed on CPython: `/one.txt/zzz` serves `one.txt`), `..` falls through -/
example :
    let isfile : Str → Bool := fun p => p == "/srv/static/a.txt".toList || p == "/srv/one.txt".toList
    let exports := [("/static".toList, Paths.Export.dir "/srv/static".toList),
      ("/one.txt".toList, Paths.Export.file "/srv/one.txt".toList)]
    let run := fun (p : String) => (shared_data_select p.toList (callOf isfile) (fun _ => true) exports () ()).toOption
    run "/static/a.txt" = some (some ("a.txt".toList, "/srv/static/a.txt".toList))
    ∧ run "/one.txt/zzz" = some (some ("one.txt".toList, "/srv/one.txt".toList))
    ∧ run "/static/../one.txt" = some none
    ∧ run "/static" = some none := by decide

end shared

end Wz.PyFnsEq.Middleware
