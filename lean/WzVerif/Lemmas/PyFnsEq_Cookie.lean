import WzVerif.Gen.PyFns_Cookie
import WzVerif.Model.Cookie
import WzVerif.Lemmas.PyFns_Prelude
import WzVerif.Lemmas.PyFns_HttpList
import WzVerif.Lemmas.PyFnsEq_HttpDict
import WzVerif.Lemmas.PyFnsEq_Conv
namespace Wz.PyFnsEq.Cookie
open Wz Wz.Pre Wz.PyFnsHttp
open Gen.PyFns_Cookie

/-! ## parsing -/

/-- the idiom `if len(v) >= 2 and v[0] == v[-1] == '"': …` with *different* continuations for the
two outcomes (`g` receives `v[1:-1]`, `f` receives `v`) -/
theorem dq_step2 {β : Type} (item : Str) (g f : Str → β) (e : String → β) :
    (if decide (Int.ofNat item.length ≥ 2) then
      match Pre.getItemStr item 0 with
      | .error x => e x
      | .ok a =>
        match Pre.getItemStr item (-1) with
        | .error x => e x
        | .ok b => if (a == b) && (b == ['"']) then g (Pre.slice item (some 1) (some (-1))) else f item
    else f item) = match Http.stripDq? item with
      | some inner => g inner
      | none => f item := by
  match item with
  | [] => simp [stripDq?_nil]
  | [x] => simp [stripDq?_single]
  | x :: y :: t =>
    have hlen : decide (Int.ofNat (x :: y :: t).length ≥ 2) = true := by simp; omega
    rw [stripDq?_cons2]
    simp only [hlen, if_true, getItemStr_zero_cons, getItemStr_neg_one_cons, dq_cmp]
    have hl : (x :: y :: t).getLast (by simp) = (y :: t).getLast (by simp) := by simp
    rw [hl]
    by_cases h : x = '"' ∧ (y :: t).getLast (by simp) = '"' <;> simp [h]

/-- the model's `unquoteValue` through `stripDq?` -/
theorem unquoteValue_eq (cv : Str) : Cookie.unquoteValue cv =
    match Http.stripDq? cv with
    | some inner => Py.decodeReplace (Cookie.unslash (utf8Enc inner))
    | none => cv := by
  by_cases hq : ∃ rest, cv = '"' :: rest
  · obtain ⟨rest, rfl⟩ := hq
    unfold Cookie.unquoteValue Http.stripDq?
    cases h : rest.reverse with
    | nil =>
      have : rest = [] := by simpa using h
      subst this; simp
    | cons y m =>
      have : rest = m.reverse ++ [y] := by
        have := congrArg List.reverse h; simpa using this
      subst this
      by_cases hy : y = '"'
      · subst hy; simp
      · simp [hy]
  · have h1 : Http.stripDq? cv = none := by
      unfold Http.stripDq?
      split
      · exact absurd ⟨_, rfl⟩ hq
      · rfl
    rw [h1]
    unfold Cookie.unquoteValue
    split
    · exact absurd ⟨_, rfl⟩ hq
    · rfl

end Wz.PyFnsEq.Cookie
