/-
PyFnsEq_Cookie — `dump_cookie` and `parse_cookie` of `werkzeug.http` and `parse_cookie` of
`werkzeug.sansio.http` *as regenerated from the source* by `tools/py2lean.py`
(`Gen/PyFns_Cookie.lean`, rewritten on every check run) are equal, for all inputs, to the
hand-written model functions of `Model/Cookie.lean` (`dumpCookie`, `parseCookie`,
`parseCookieEnviron`) that the C13 theorems are about. A change of the Python source changes the
generated definition and breaks these obligations.

Main theorems: `dump_cookie_eq` (with `dump_cookie_core`, `tailSpec_eq`; corollaries
`dump_cookie_idna_raises`, `dump_cookie_idna_ok`, `dump_cookie_no_domain`, `dump_cookie_empty_domain`,
`dump_cookie_max_size`), `sansio_parse_cookie_loop_eq`, `sansio_parse_cookie_eq`,
`sansio_parse_cookie_none`, `http_parse_cookie_eq`, `http_parse_cookie_none`.
Nothing is weakened: the equalities are exact (values and errors, including which error comes first).

Note on `domain=""`: `if domain:` is false for the empty text, so the variable keeps `""`, which is
neither `None` nor `False` in the attribute loop: the header contains `Domain=` (checked against
CPython: `dump_cookie('k', 'v', domain='')` is `'k=v; Domain=; Path=/'`). `domainStep` therefore maps
`some []` to `some []`, not to `none`; translation, model (`kvPart "Domain" (some [])`) and the real
function agree.

Helper lemmas that do not mention generated definitions (`dq_step2`, `unquoteValue_eq`, `title_eq`,
`domainText_eq`) are candidates for the shared libraries (Lemmas/PyFns_HttpList.lean,
Lemmas/PyFns_Prelude.lean).
-/
import WzVerif.Gen.PyFns_Cookie
import WzVerif.Model.Cookie
import WzVerif.Lemmas.PyFns_Prelude
import WzVerif.Lemmas.PyFns_HttpList
import WzVerif.Lemmas.PyFnsEq_HttpDict
namespace Wz.PyFnsEq.Cookie
open Wz Wz.Pre Wz.PyFnsHttp
open Gen.PyFns_Cookie Wz.PyFnsEq.HttpDict

/-! ## parsing -/

/-- the idiom `if len(v) >= 2 and v[0] == v[-1] == '"': …` with *different* continuations for the
two outcomes (`g` receives `v[1:-1]`, `f` receives `v`) -/
theorem dq_step2 {β : Type} (item : Str) (g f : Str → β) (e : String → β) :
    (if decide (Int.ofNat item.length ≥ 2) then
      match Pre.getItemStr item 0 with
      | .error x => e x
      | .ok a =>
        match Pre.getItemStr item (-1) with
        | .error x => e x
        | .ok b => if (a == b) && (b == ['"']) then g (Pre.slice item (some 1) (some (-1))) else f item
    else f item) = match Http.stripDq? item with
      | some inner => g inner
      | none => f item := by
  match item with
  | [] => simp [stripDq?_nil]
  | [x] => simp [stripDq?_single]
  | x :: y :: t =>
    have hlen : decide (Int.ofNat (x :: y :: t).length ≥ 2) = true := by simp; omega
    rw [stripDq?_cons2]
    simp only [hlen, if_true, getItemStr_zero_cons, getItemStr_neg_one_cons, dq_cmp]
    have hl : (x :: y :: t).getLast (by simp) = (y :: t).getLast (by simp) := by simp
    rw [hl]
    by_cases h : x = '"' ∧ (y :: t).getLast (by simp) = '"' <;> simp [h]

/-- the model's `unquoteValue` through `stripDq?` -/
theorem unquoteValue_eq (cv : Str) : Cookie.unquoteValue cv =
    match Http.stripDq? cv with
    | some inner => Py.decodeReplace (Cookie.unslash (utf8Enc inner))
    | none => cv := by
  by_cases hq : ∃ rest, cv = '"' :: rest
  · obtain ⟨rest, rfl⟩ := hq
    unfold Cookie.unquoteValue Http.stripDq?
    cases h : rest.reverse with
    | nil =>
      have : rest = [] := by simpa using h
      subst this; simp
    | cons y m =>
      have : rest = m.reverse ++ [y] := by
        have := congrArg List.reverse h; simpa using this
      subst this
      by_cases hy : y = '"'
      · subst hy; simp
      · simp [hy]
  · have h1 : Http.stripDq? cv = none := by
      unfold Http.stripDq?
      split
      · exact absurd ⟨_, rfl⟩ hq
      · rfl
    rw [h1]
    unfold Cookie.unquoteValue
    split
    · exact absurd ⟨_, rfl⟩ hq
    · rfl

/-- what one `(ck, cv)` pair of `_cookie_re.findall` contributes -/
def pairOf (p : Str × Str) : Option (Str × Str) :=
  if (Py.strip p.1).isEmpty then none else some (Py.strip p.1, Cookie.unquoteValue (Py.strip p.2))

/-- the model's `postProcess`, one pair at a time -/
theorem postProcess_cons (p : Str × Str) (ps : List (Str × Str)) :
    Cookie.postProcess (p :: ps) = (pairOf p).toList ++ Cookie.postProcess ps := by
  unfold Cookie.postProcess pairOf
  rw [List.filterMap_cons]
  split <;> simp_all

/-- The `for ck, cv in _cookie_re.findall(cookie)` loop of `sansio.http.parse_cookie`, as translated
from the current source (`ck.strip()`, `cv.strip()`, the `continue` for an empty name, the test
`len(cv) >= 2 and cv[0] == cv[-1] == '"'`, the `_cookie_unslash_re.sub` on `cv[1:-1]`, the append):
it never leaves the function - `cv[0]` / `cv[-1]` are only reached for a value of at least two
characters, so no `IndexError` - and appends exactly the model's `postProcess` of the pairs, for
every list of regex matches and every accumulator. -/
theorem sansio_parse_cookie_loop_eq (ps : List (Str × Str)) : ∀ out : List (Str × Str),
    sansio_parse_cookie.loop1 ps out = .fall (out ++ Cookie.postProcess ps) := by
  induction ps with
  | nil => intro out; simp [sansio_parse_cookie.loop1, Cookie.postProcess]
  | cons p t ih =>
    intro out
    rw [sansio_parse_cookie.loop1, postProcess_cons]
    simp only [Pre.strip, pairOf]
    by_cases hk : (Py.strip p.1).isEmpty = true
    · simp only [hk, if_true, ih, Option.toList_none, List.nil_append]
    · simp only [hk, Bool.false_eq_true, if_false, cookieUnslashValue]
      have := dq_step2 (Py.strip p.2)
        (fun inner => sansio_parse_cookie.loop1 t (out ++ [(Py.strip p.1, Py.decodeReplace (Cookie.unslash (utf8Enc inner)))]))
        (fun cv => sansio_parse_cookie.loop1 t (out ++ [(Py.strip p.1, cv)]))
        (fun x => .ret (.error x))
      refine this.trans ?_
      rw [unquoteValue_eq]
      cases Http.stripDq? (Py.strip p.2) <;> simp [ih]

/-- `werkzeug.sansio.http.parse_cookie(cookie)` for a `str`, as translated from the current source
(the empty-text shortcut, the appended `;`, `_cookie_re.findall`, the loop above, `cls(out)`; the
translation returns the pair list handed to the `MultiDict` constructor, in order, duplicates
included), never raises and returns exactly the model's `parseCookie` - the function C13's
parse / round-trip theorems are about -, for every text. -/
theorem sansio_parse_cookie_eq (c : List Char) :
    sansio_parse_cookie (some c) () = .ok (Cookie.parseCookie c) := by
  unfold sansio_parse_cookie Cookie.parseCookie
  by_cases h : c.isEmpty = true
  · simp [h]
  · simp [h, sansio_parse_cookie_loop_eq, cookieReFindall]

/-- `werkzeug.sansio.http.parse_cookie(None)` is the empty dict. -/
theorem sansio_parse_cookie_none : sansio_parse_cookie none () = .ok [] := rfl

/-- `werkzeug.http.parse_cookie(header)` for a `str` header, as translated from the current source
(for a non-empty text the WSGI dance `cookie.encode("latin1").decode(errors="replace")`, then the
sansio function - itself translated, `sansio_parse_cookie_eq`), equals the model's
`parseCookieEnviron`, for every text: the same pairs, and `UnicodeEncodeError` exactly when the
model answers `none` (a character above U+00FF, which cannot come from a WSGI environ). -/
theorem http_parse_cookie_eq (c : List Char) :
    http_parse_cookie (some c) () =
      match Cookie.parseCookieEnviron c with
      | some r => .ok r
      | none => .error "UnicodeEncodeError" := by
  unfold http_parse_cookie Cookie.parseCookieEnviron
  by_cases h : c.isEmpty = true
  · have : c = [] := by simpa using h
    subst this
    simp [sansio_parse_cookie_eq, Cookie.parseCookie]
  · simp only [h, Bool.false_eq_true, if_false, Bool.not_false, if_true, Pre.encodeLatin1,
      Pre.decodeUtf8Replace, sansio_parse_cookie_eq]
    cases Py.latin1Enc c <;> rfl

/-- `werkzeug.http.parse_cookie(None)` is the empty dict. -/
theorem http_parse_cookie_none : http_parse_cookie none () = .ok [] := rfl

/-! ## `dump_cookie` -/

/-- the prelude's `str.title()` scanner is the model's -/
theorem titleAux_eq (s : Str) : ∀ prev, Pre.titleAux prev s = Cookie.titleAscii.go s prev := by
  induction s with
  | nil => intro prev; rfl
  | cons c t ih =>
    intro prev
    simp only [Pre.titleAux, Cookie.titleAscii.go, ih]
    by_cases h : c.isAlpha = true <;> simp [h]

/-- the prelude's ASCII `str.title()` is the model's `titleAscii` -/
theorem title_eq (s : Str) : Pre.title s = Cookie.titleAscii s := titleAux_eq s false

/-- the text handed to the IDNA codec: `domain.partition(":")[0].lstrip(".")` -/
def domainText (d : Str) : Str := Pre.lstripChars (Pre.partition d [':']).1 ['.']

/-- … spelled with list primitives: everything before the first `:`, without leading dots -/
theorem domainText_eq (d : Str) : domainText d = (d.takeWhile (· != ':')).dropWhile (· == '.') := by
  unfold domainText Pre.lstripChars
  rw [partition_singleton]
  congr 1
  funext c
  by_cases h : c = '.' <;> simp [h]

/-- The `if domain:` step of `dump_cookie`: what the variable `domain` holds afterwards, or the error
the IDNA codec (`idna`, opaque) raised. `None` stays `None`; the empty text is falsy and stays `""`
(and is printed as `Domain=`); anything else is replaced by the IDNA text of
`domain.partition(":")[0].lstrip(".")`. -/
def domainStep (idna : Str → Except String Str) : Option Str → Except String (Option Str)
  | none => .ok none
  | some d => if d.isEmpty then .ok (some d) else (idna (domainText d)).map some

/-- The `expires` step of `dump_cookie` for `expires : str | None`: a given text is kept; otherwise
`http_date(now + max_age)` (`expires_in max_age`, opaque) when `max_age` is given and `sync_expires`
is set; otherwise nothing. -/
def expiresStep (expires_in : Int → Str) (max_age : Option Int) (expires : Option Str) (sync_expires : Bool) :
    Option Str :=
  match expires with
  | some e => some e
  | none =>
    match max_age with
    | some m => if sync_expires then some (expires_in m) else none
    | none => none

/-- the `"; "` of `"; ".join(buf)` -/
def sep : Str := [';', ' ']

/-! the tails of the attribute list: what the unrolled attribute loop still appends from its
`i`-th item on -/

def parts8 (partitioned : Bool) : List Str := Cookie.flagPart "Partitioned" partitioned
def parts7 (ss : Option Str) (partitioned : Bool) : List Str := Cookie.kvPart "SameSite" ss ++ parts8 partitioned
def parts6 (path ss : Option Str) (partitioned : Bool) : List Str := Cookie.kvPart "Path" path ++ parts7 ss partitioned
def parts5 (httponly : Bool) (path ss : Option Str) (partitioned : Bool) : List Str :=
  Cookie.flagPart "HttpOnly" httponly ++ parts6 path ss partitioned
def parts4 (secure httponly : Bool) (path ss : Option Str) (partitioned : Bool) : List Str :=
  Cookie.flagPart "Secure" secure ++ parts5 httponly path ss partitioned
def parts3 (maxAge : Option Int) (secure httponly : Bool) (path ss : Option Str) (partitioned : Bool) : List Str :=
  Cookie.kvPart "Max-Age" (maxAge.map Cookie.intText) ++ parts4 secure httponly path ss partitioned
def parts2 (expires : Option Str) (maxAge : Option Int) (secure httponly : Bool) (path ss : Option Str)
    (partitioned : Bool) : List Str :=
  Cookie.kvPart "Expires" expires ++ parts3 maxAge secure httponly path ss partitioned
/-- the attribute parts of the header, from the values `dump_cookie`'s local variables hold when the
attribute loop starts -/
def parts (domain expires : Option Str) (maxAge : Option Int) (secure httponly : Bool)
    (path ss : Option Str) (partitioned : Bool) : List Str :=
  Cookie.kvPart "Domain" domain ++ parts2 expires maxAge secure httponly path ss partitioned

/-- `dump_cookie` from the value-quoting step on (`ps` = the attribute parts) -/
def valueSpec (key value : Str) (ps : List Str) : Except String Str :=
  match Cookie.dumpValue value with
  | .error e => .error e
  | .ok hv => .ok (Pre.join sep ((Pre.utf8ThenLatin1 key ++ ['='] ++ hv) :: ps))

/-- `dump_cookie` from the SameSite step on, with the values the local variables hold at that point -/
def tailSpec (key value : Str) (maxAge : Option Int) (expires path domain : Option Str)
    (secure httponly : Bool) (samesite : Option Str) (partitioned : Bool) : Except String Str :=
  match Cookie.canonSameSite samesite with
  | .error e => .error e
  | .ok ss => valueSpec key value (parts domain expires maxAge (partitioned || secure) httponly path ss partitioned)

/-- the attribute names of the source's tuple literal, as the model spells them -/
theorem kv_lits : "Domain".toList = ['D', 'o', 'm', 'a', 'i', 'n'] ∧ "Expires".toList = ['E', 'x', 'p', 'i', 'r', 'e', 's']
    ∧ "Max-Age".toList = ['M', 'a', 'x', '-', 'A', 'g', 'e'] ∧ "Secure".toList = ['S', 'e', 'c', 'u', 'r', 'e']
    ∧ "HttpOnly".toList = ['H', 't', 't', 'p', 'O', 'n', 'l', 'y'] ∧ "Path".toList = ['P', 'a', 't', 'h']
    ∧ "SameSite".toList = ['S', 'a', 'm', 'e', 'S', 'i', 't', 'e']
    ∧ "Partitioned".toList = ['P', 'a', 'r', 't', 'i', 't', 'i', 'o', 'n', 'e', 'd'] := by decide

/-- the `{"Strict", "Lax", "None"}` literal -/
theorem ss_lits : "Strict".toList = ['S', 't', 'r', 'i', 'c', 't'] ∧ "Lax".toList = ['L', 'a', 'x']
    ∧ "None".toList = ['N', 'o', 'n', 'e'] := by decide

/-- `dump_cookie`, as translated from the current source, in terms of the steps of this file
(`domainStep`, `expiresStep`, `tailSpec`). The proof follows the translation's continuation structure
(`k1_` … `k25_`: one local function per `if` of the source and per item of the unrolled attribute
loop) from the outside in, proving for each continuation a closed form of everything that follows.
The size warning (`max_size`) has no influence on the result. -/
theorem dump_cookie_core (idna : Str → Except String Str) (expires_in : Int → Str) (key value : Str)
    (max_age : Option Int) (expires path domain : Option Str) (secure httponly sync_expires : Bool)
    (max_size : Int) (samesite : Option Str) (partitioned : Bool) :
    dump_cookie idna expires_in key value max_age expires path domain secure httponly sync_expires
        max_size samesite partitioned =
      (domainStep idna domain).bind fun d =>
        tailSpec key value max_age (expiresStep expires_in max_age expires sync_expires)
          (path.map (Url.quote ['%', '!', '$', '&', '\'', '(', ')', '*', '+', ',', '/', ':', '=', '@']))
          d secure httponly samesite partitioned := by
  unfold dump_cookie
  extract_lets -underBinder +onlyGivenNames k1
  have h1 : ∀ p, k1 p = (domainStep idna domain).bind fun d =>
      tailSpec key value max_age (expiresStep expires_in max_age expires sync_expires) p d secure
        httponly samesite partitioned := by
    intro p; unfold k1; extract_lets -underBinder +onlyGivenNames k2
    have h2 : ∀ d, k2 d = tailSpec key value max_age (expiresStep expires_in max_age expires sync_expires)
        p d secure httponly samesite partitioned := by
      intro d; unfold k2; extract_lets -underBinder +onlyGivenNames k3
      have h3 : ∀ m, k3 m = tailSpec key value m (expiresStep expires_in m expires sync_expires)
          p d secure httponly samesite partitioned := by
        intro m; unfold k3; extract_lets -underBinder +onlyGivenNames k4
        have h4 : ∀ e, k4 e = tailSpec key value m e p d secure httponly samesite partitioned := by
          intro e; unfold k4; extract_lets -underBinder +onlyGivenNames k7
          have h7 : ∀ ss, k7 ss = valueSpec key value
              (parts d e m (partitioned || secure) httponly p ss partitioned) := by
            intro ss; unfold k7; extract_lets -underBinder +onlyGivenNames k9 sec'
            have h9 : ∀ sec, k9 sec = valueSpec key value (parts d e m sec httponly p ss partitioned) := by
              intro sec; unfold k9; extract_lets -underBinder +onlyGivenNames k10
              have h10 : ∀ v, k10 v = .ok (Pre.join sep ((Pre.utf8ThenLatin1 key ++ ['='] ++ v) ::
                  parts d e m sec httponly p ss partitioned)) := by
                intro v; unfold k10; extract_lets -underBinder +onlyGivenNames buf0 kD vD k11
                have h11 : ∀ buf, k11 buf = .ok (Pre.join sep (buf ++ parts2 e m sec httponly p ss partitioned)) := by
                  intro buf; unfold k11; extract_lets -underBinder +onlyGivenNames kE vE k13
                  have h13 : ∀ buf, k13 buf = .ok (Pre.join sep (buf ++ parts3 m sec httponly p ss partitioned)) := by
                    intro buf; unfold k13; extract_lets -underBinder +onlyGivenNames kM vM k15
                    have h15 : ∀ buf, k15 buf = .ok (Pre.join sep (buf ++ parts4 sec httponly p ss partitioned)) := by
                      intro buf; unfold k15; extract_lets -underBinder +onlyGivenNames kS vS k17
                      have h17 : ∀ buf, k17 buf = .ok (Pre.join sep (buf ++ parts5 httponly p ss partitioned)) := by
                        intro buf; unfold k17; extract_lets -underBinder +onlyGivenNames kH vH k19
                        have h19 : ∀ buf, k19 buf = .ok (Pre.join sep (buf ++ parts6 p ss partitioned)) := by
                          intro buf; unfold k19; extract_lets -underBinder +onlyGivenNames kP vP k21
                          have h21 : ∀ buf, k21 buf = .ok (Pre.join sep (buf ++ parts7 ss partitioned)) := by
                            intro buf; unfold k21; extract_lets -underBinder +onlyGivenNames kSS vSS k23
                            have h23 : ∀ buf, k23 buf = .ok (Pre.join sep (buf ++ parts8 partitioned)) := by
                              intro buf; unfold k23; extract_lets -underBinder +onlyGivenNames kPa vPa k25
                              have h25 : ∀ buf, k25 buf = .ok (Pre.join sep buf) := by
                                intro buf; unfold k25
                                simp only [sep]
                                split <;> rfl
                              cases partitioned <;> simp [vPa, kPa, h25, parts8, Cookie.flagPart, kv_lits]
                            cases ss <;> simp [vSS, kSS, h23, parts7, Cookie.kvPart, kv_lits]
                          cases p <;> simp [vP, kP, h21, parts6, Cookie.kvPart, kv_lits]
                        cases httponly <;> simp [vH, kH, h19, parts5, Cookie.flagPart, kv_lits]
                      cases sec <;> simp [vS, kS, h17, parts4, Cookie.flagPart, kv_lits]
                    cases m <;> simp [vM, kM, h15, parts3, Cookie.kvPart, kv_lits, Cookie.intText, Pre.strOfInt]
                  cases e <;> simp [vE, kE, h13, parts2, Cookie.kvPart, kv_lits]
                cases d <;> simp [vD, kD, buf0, h11, Cookie.kvPart, kv_lits, parts]
              simp only [h10, valueSpec, Cookie.dumpValue, cookieNoQuoteFullmatch, cookieEscapeValue]
              by_cases hq : value.all Cookie.noQuoteChar = true
              · simp [hq]
              · simp only [hq]
                cases Cookie.escapeBytes (utf8Enc value) with
                | none => simp
                | some b => cases h : Cookie.asciiDec b <;> simp [h]
            rw [h9]
            cases partitioned <;> simp [sec']
          cases samesite with
          | none => simp [h7, tailSpec, Cookie.canonSameSite]
          | some s =>
            simp only [h7, tailSpec, Cookie.canonSameSite, title_eq, ss_lits]
            generalize Cookie.titleAscii s = t
            by_cases hc : (t == ['S', 't', 'r', 'i', 'c', 't'] || t == ['L', 'a', 'x'] || t == ['N', 'o', 'n', 'e']) = true
            · simp only [hc, Bool.not_true, Bool.false_eq_true, if_false, if_true]
            · simp only [hc, Bool.not_false, Bool.false_eq_true, if_false, if_true]
        cases expires <;> cases m <;> cases sync_expires <;> simp [h4, expiresStep]
      exact h3 max_age
    cases domain with
    | none => simp [h2, domainStep, Except.bind]
    | some dom =>
      by_cases he : dom.isEmpty = true
      · simp [h2, domainStep, Except.bind, he]
      · simp only [h2, domainStep, he, domainText]
        cases idna (Pre.lstripChars (Pre.partition dom [':']).1 ['.']) <;> simp [Except.bind, Except.map]
  cases path <;> simp [h1]

/-- from the SameSite step on, the translation is the model's `dumpCookie` on the attribute record
(`"; ".join` = `List.intercalate`, `key.encode().decode("latin1")`, `Partitioned` forces `Secure`) -/
theorem tailSpec_eq (key value : Str) (m : Option Int) (e p d : Option Str) (secure httponly : Bool)
    (samesite : Option Str) (partitioned : Bool) :
    tailSpec key value m e p d secure httponly samesite partitioned =
      Cookie.dumpCookie key value {
        domain := d, expires := e, maxAge := m, secure := secure,
        httponly := httponly, path := p, samesite := samesite, partitioned := partitioned } := by
  have hs : "; ".toList = [';', ' '] := by decide
  unfold tailSpec Cookie.dumpCookie valueSpec
  cases Cookie.canonSameSite samesite with
  | error x => rfl
  | ok ss =>
    simp only []
    cases Cookie.dumpValue value with
    | error x => rfl
    | ok hv =>
      simp [Pre.join_eq_intercalate', sep, hs, parts, parts2, parts3, parts4, parts5, parts6, parts7, parts8,
        Cookie.attrParts, Pre.utf8ThenLatin1, Bool.or_comm]

/-- the `safe="%!$&'()*+,/:=@"` literal of the `quote(path, …)` call -/
theorem safe_lit : "%!$&'()*+,/:=@".toList = ['%', '!', '$', '&', '\'', '(', ')', '*', '+', ',', '/', ':', '=', '@'] := by
  decide

/-- `dump_cookie(key, value, max_age, expires, path, domain, secure, httponly, sync_expires=…,
max_size=…, samesite, partitioned)`, as translated from the current source (parameters of the
translation: the IDNA codec `idna` and `expires_in max_age` = `http_date(now + max_age)`, both
opaque; `max_age : int | None`, `expires : str | None`), equals - for all arguments - the model's
`Cookie.dumpCookie key value attrs` (the function C13's `Set-Cookie` theorems are about) on the
attribute record the source computes before it assembles the header:

* `path` is `quote(path, safe="%!$&'()*+,/:=@")` (the `safe=` literal is pinned here: changing it in
  the source breaks this theorem), `None` stays `None`;
* `domain` is `domainStep`: `None` for `None`, `""` for `""` (printed as `Domain=`), otherwise the
  IDNA text of `domain.partition(":")[0].lstrip(".")`;
* `expires` is `expiresStep`: the given text, else `http_date(now + max_age)` when `max_age` is given
  and `sync_expires`, else nothing;
* `max_age`, `secure`, `httponly`, `samesite`, `partitioned` as given (`samesite.title()` with the
  `ValueError`, `Partitioned` ⇒ `Secure`, the value quoting with its `KeyError` /
  `UnicodeDecodeError` are inside `dumpCookie`, in the source's order).

Order of effects: a raising IDNA codec makes the function raise that error *before* the SameSite
check and the value escaping are reached (`Except.bind`); then `ValueError` for a bad SameSite; then
the escaping errors - exactly the order of the source. `max_size` does not occur on the right-hand
side: the size warning does not change the result. -/
theorem dump_cookie_eq (idna : Str → Except String Str) (expires_in : Int → Str) (key value : Str)
    (max_age : Option Int) (expires path domain : Option Str) (secure httponly sync_expires : Bool)
    (max_size : Int) (samesite : Option Str) (partitioned : Bool) :
    dump_cookie idna expires_in key value max_age expires path domain secure httponly sync_expires
        max_size samesite partitioned =
      (domainStep idna domain).bind fun d =>
        Cookie.dumpCookie key value {
          domain := d
          expires := expiresStep expires_in max_age expires sync_expires
          maxAge := max_age
          secure := secure
          httponly := httponly
          path := path.map (Url.quote "%!$&'()*+,/:=@".toList)
          samesite := samesite
          partitioned := partitioned } := by
  rw [dump_cookie_core, safe_lit]
  simp only [tailSpec_eq]

/-- A raising IDNA codec (`domain` non-empty) makes `dump_cookie` raise that very error, whatever
the other arguments are - in particular before a bad `samesite` (`ValueError`) or an unescapable
value is looked at. -/
theorem dump_cookie_idna_raises (idna : Str → Except String Str) (expires_in : Int → Str) (key value : Str)
    (max_age : Option Int) (expires path : Option Str) (dom : Str) (secure httponly sync_expires : Bool)
    (max_size : Int) (samesite : Option Str) (partitioned : Bool) (x : String)
    (hne : dom ≠ []) (hx : idna (domainText dom) = .error x) :
    dump_cookie idna expires_in key value max_age expires path (some dom) secure httponly sync_expires
        max_size samesite partitioned = .error x := by
  have he : dom.isEmpty = false := by cases dom <;> simp_all
  rw [dump_cookie_eq]
  simp [domainStep, he, hx, Except.map, Except.bind]

/-- With an IDNA codec that answers `t` for the (non-empty) domain, `dump_cookie` is the model's
`dumpCookie` with `Domain=t`. -/
theorem dump_cookie_idna_ok (idna : Str → Except String Str) (expires_in : Int → Str) (key value : Str)
    (max_age : Option Int) (expires path : Option Str) (dom t : Str) (secure httponly sync_expires : Bool)
    (max_size : Int) (samesite : Option Str) (partitioned : Bool)
    (hne : dom ≠ []) (ht : idna (domainText dom) = .ok t) :
    dump_cookie idna expires_in key value max_age expires path (some dom) secure httponly sync_expires
        max_size samesite partitioned =
      Cookie.dumpCookie key value {
        domain := some t
        expires := expiresStep expires_in max_age expires sync_expires
        maxAge := max_age
        secure := secure
        httponly := httponly
        path := path.map (Url.quote "%!$&'()*+,/:=@".toList)
        samesite := samesite
        partitioned := partitioned } := by
  have he : dom.isEmpty = false := by cases dom <;> simp_all
  rw [dump_cookie_eq]
  simp [domainStep, he, ht, Except.map, Except.bind]

/-- Without a domain the IDNA codec is never consulted: `dump_cookie` is the model's `dumpCookie`
without a `Domain` attribute. -/
theorem dump_cookie_no_domain (idna : Str → Except String Str) (expires_in : Int → Str) (key value : Str)
    (max_age : Option Int) (expires path : Option Str) (secure httponly sync_expires : Bool)
    (max_size : Int) (samesite : Option Str) (partitioned : Bool) :
    dump_cookie idna expires_in key value max_age expires path none secure httponly sync_expires
        max_size samesite partitioned =
      Cookie.dumpCookie key value {
        domain := none
        expires := expiresStep expires_in max_age expires sync_expires
        maxAge := max_age
        secure := secure
        httponly := httponly
        path := path.map (Url.quote "%!$&'()*+,/:=@".toList)
        samesite := samesite
        partitioned := partitioned } := by
  rw [dump_cookie_eq]; rfl

/-- `domain=""`: the IDNA codec is not consulted either, and the header carries an empty `Domain=`
attribute (as the real function does). -/
theorem dump_cookie_empty_domain (idna : Str → Except String Str) (expires_in : Int → Str) (key value : Str)
    (max_age : Option Int) (expires path : Option Str) (secure httponly sync_expires : Bool)
    (max_size : Int) (samesite : Option Str) (partitioned : Bool) :
    dump_cookie idna expires_in key value max_age expires path (some []) secure httponly sync_expires
        max_size samesite partitioned =
      Cookie.dumpCookie key value {
        domain := some []
        expires := expiresStep expires_in max_age expires sync_expires
        maxAge := max_age
        secure := secure
        httponly := httponly
        path := path.map (Url.quote "%!$&'()*+,/:=@".toList)
        samesite := samesite
        partitioned := partitioned } := by
  rw [dump_cookie_eq]; rfl

/-- `max_size` only drives a warning: the returned header (or error) does not depend on it. -/
theorem dump_cookie_max_size (idna : Str → Except String Str) (expires_in : Int → Str) (key value : Str)
    (max_age : Option Int) (expires path domain : Option Str) (secure httponly sync_expires : Bool)
    (max_size max_size' : Int) (samesite : Option Str) (partitioned : Bool) :
    dump_cookie idna expires_in key value max_age expires path domain secure httponly sync_expires
        max_size samesite partitioned =
    dump_cookie idna expires_in key value max_age expires path domain secure httponly sync_expires
        max_size' samesite partitioned := by
  rw [dump_cookie_eq, dump_cookie_eq]

end Wz.PyFnsEq.Cookie
