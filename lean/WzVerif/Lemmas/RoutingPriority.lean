/-
Routing lemmas, part 9: priority — the rule `_match` returns is minimal in the specificity order
among the rules that admit the input directly for the request.
-/
import WzVerif.Lemmas.RoutingOrder
import WzVerif.Lemmas.RoutingTop
namespace Wz.Routing
open State

/-- every rule is stored at one place only -/
def UniqPath (st : State) : Prop := ∀ ps1 ps2 r, InTrie st ps1 r → InTrie st ps2 r → ps1 = ps2

theorem UniqPath.static {rs ss ds k s} (h : UniqPath (.node rs ss ds)) (hm : (k, s) ∈ ss) : UniqPath s := by
  intro a b r ha hb
  have := h _ _ r (.viaStatic hm ha) (.viaStatic hm hb)
  injection this

theorem UniqPath.dyn {rs ss ds p s} (h : UniqPath (.node rs ss ds)) (hm : (p, s) ∈ ds) (hd : p.isDyn = true) : UniqPath s := by
  intro a b r ha hb
  have := h _ _ r (.viaDyn hm hd ha) (.viaDyn hm hd hb)
  injection this

theorem UniqPath.buildRoot (rules : List Rule) : UniqPath (buildRoot rules) := by
  intro a b r ha hb
  rw [inTrie_buildRoot] at ha hb
  rw [ha.2.2, hb.2.2]

/-- the loop over the dynamic transitions returns the result of the FIRST transition whose
sub-search is not `None` -/
theorem dfsDyn_first {q : Req} {ds : List (Part × State)} {x : Str} {xs vals : List Str} {R : Res}
    (h : (dfsDyn q ds x xs vals).res = R) (hne : R ≠ .none) :
    ∃ l1 p s l2 a rem, ds = l1 ++ (p, s) :: l2 ∧ p.isDyn = true ∧ step p (x :: xs) = some (a, rem) ∧
      (dfs q s rem (vals ++ a)).res = R ∧
      ∀ p0 s0, (p0, s0) ∈ l1 → p0.isDyn = true → ∀ a0 rem0, step p0 (x :: xs) = some (a0, rem0) →
        (dfs q s0 rem0 (vals ++ a0)).res = .none := by
  induction ds with
  | nil => simp [dfsDyn] at h; exact absurd h.symm hne
  | cons e t ih =>
    obtain ⟨p, s⟩ := e
    cases p with
    | static c =>
      simp only [dfsDyn] at h
      obtain ⟨l1, p', s', l2, a, rem, hds, h1, h2, h3, h4⟩ := ih h
      refine ⟨(.static c, s) :: l1, p', s', l2, a, rem, by simp [hds], h1, h2, h3, ?_⟩
      intro p0 s0 hm hd a0 rem0 hs0
      rcases List.mem_cons.1 hm with heq | hm
      · cases heq; cases hd
      · exact h4 p0 s0 hm hd a0 rem0 hs0
    | dyn pre kind post final suffixed w =>
      rw [dfsDyn.eq_3] at h
      cases hs : step (Part.dyn pre kind post final suffixed w) (x :: xs) with
      | none =>
        simp only [hs] at h
        obtain ⟨l1, p', s', l2, a, rem, hds, h1, h2, h3, h4⟩ := ih h
        refine ⟨(Part.dyn pre kind post final suffixed w, s) :: l1, p', s', l2, a, rem, by simp [hds], h1, h2, h3, ?_⟩
        intro p0 s0 hm hd a0 rem0 hs0
        rcases List.mem_cons.1 hm with heq | hm
        · cases heq; rw [hs] at hs0; cases hs0
        · exact h4 p0 s0 hm hd a0 rem0 hs0
      | some ar =>
        obtain ⟨a, rem⟩ := ar
        simp only [hs] at h
        cases ho : (dfs q s rem (vals ++ a)).res with
        | none =>
          simp only [ho] at h
          obtain ⟨l1, p', s', l2, a', rem', hds, h1, h2, h3, h4⟩ := ih h
          refine ⟨(Part.dyn pre kind post final suffixed w, s) :: l1, p', s', l2, a', rem', by simp [hds], h1, h2, h3, ?_⟩
          intro p0 s0 hm hd a0 rem0 hs0
          rcases List.mem_cons.1 hm with heq | hm
          · cases heq; rw [hs] at hs0; cases hs0; exact ho
          · exact h4 p0 s0 hm hd a0 rem0 hs0
        | found r vs =>
          simp only [ho] at h
          exact ⟨[], _, s, t, a, rem, rfl, rfl, hs, by rw [ho, ← h], by intro _ _ hm; cases hm⟩
        | slash =>
          simp only [ho] at h
          exact ⟨[], _, s, t, a, rem, rfl, rfl, hs, by rw [ho, ← h], by intro _ _ hm; cases hm⟩

theorem WF.static_child {rs ss ds k s} (h : WF (.node rs ss ds)) (hm : (k, s) ∈ ss) : WF s := by
  cases h with | node _ _ _ h4 _ => exact h4 k s hm

theorem WF.dyn_child {rs ss ds p s} (h : WF (.node rs ss ds)) (hm : (p, s) ∈ ds) : WF s := by
  cases h with | node _ _ _ _ h5 => exact h5 p s hm

theorem assoc_unique {κ} [DecidableEq κ] {l : List (κ × State)} (hnd : (l.map (·.1)).Nodup) {k s1 s2}
    (h1 : (k, s1) ∈ l) (h2 : (k, s2) ∈ l) : s1 = s2 := by
  have a := lookupA_of_mem hnd h1
  have b := lookupA_of_mem hnd h2
  rw [a] at b
  injection b

theorem specLt_cons (a b : Part) (as bs : List Part) :
    specLt (a :: as) (b :: bs) = if a = b then specLt as bs else partLt a b := rfl

/-- a `found` result tells where the rule is stored (by `dfs_sound`) -/
theorem found_inTrie {q : Req} {st : State} {input vals r vs} (h : (dfs q st input vals).res = .found r vs) :
    ∃ ps, InTrie st ps r := by
  have := dfs_sound q st input vals
  rw [h] at this
  obtain ⟨_, ps, _, _, hi, _⟩ := this
  exact ⟨ps, hi⟩

theorem dfs_priority (q : Req) (st : State) : WF st → Sorted st → UniqPath st →
    ∀ input vals r vs, (dfs q st input vals).res = .found r vs →
    ∀ ps ps' r' w, InTrie st ps r → InTrie st ps' r' → ruleOK q r' = true →
      walkVia .direct ps' input = some w → specLt ps' ps = false := by
  induction st using State.induct with
  | h rs ss ds ihs ihd =>
    intro hwf hsorted huniq input vals r vs hres ps ps' r' w hi hi' hok' hw'
    cases ps' with
    | nil => cases ps <;> rfl
    | cons p' t' =>
    cases ps with
    | nil => rfl
    | cons p t =>
    rw [specLt_cons]
    -- the first step of r' on the input
    rcases walkVia_cons_inv hw' with ⟨hv, _⟩ | ⟨a', rem', w', hs', hwt', _⟩
    · cases hv
    cases input with
    | nil => rw [step_nil] at hs'; cases hs'
    | cons x xs =>
    have hwfn := hwf
    cases hwf with
    | node hnd1 hnd2 hdyn hwfs hwfd =>
    cases hsorted with
    | node hsl hsorts hsortd =>
    rw [dfs_cons_res] at hres
    cases h1 : (dfsStatic q ss x xs vals).res with
    | found r1 vs1 =>
      -- the result came from the static child for `x`
      simp only [h1] at hres
      cases hres
      rw [dfsStatic_eq] at h1
      cases hl : lookupStatic x ss with
      | none => simp [hl] at h1
      | some s1 =>
        simp only [hl] at h1
        have hm1 := mem_of_lookupStatic hl
        obtain ⟨ps0, hi0⟩ := found_inTrie h1
        have hpt := huniq _ _ r hi (.viaStatic hm1 hi0)
        injection hpt with hp ht
        subst hp ht
        split
        · rename_i hpp
          subst hpp
          -- r' lives in the same child
          cases hi' with
          | viaStatic hm' hi'' =>
            have := assoc_unique hnd1 hm' hm1
            subst this
            simp only [step_static, beq_self_eq_true, if_true, Option.some.injEq, Prod.mk.injEq] at hs'
            obtain ⟨rfl, rfl⟩ := hs'
            exact ihs x _ hm1 (hwfs x _ hm1) (hsorts x _ hm1) (huniq.static hm1) xs vals r vs h1 t t' r' w' hi0 hi'' hok' hwt'
          | viaDyn _ hd _ => cases hd
        · cases p' <;> rfl
    | slash => simp [h1] at hres
    | none =>
      simp only [h1] at hres
      -- r' cannot go through a static transition: its sub-search would not be `None`
      cases hi' with
      | @viaStatic _ _ _ k0 s0 _ _ hm' hi'' =>
        exfalso
        simp only [step_static] at hs'
        split at hs'
        · rename_i hk
          have hk : k0 = x := by simpa using hk
          subst hk
          cases hs'
          have hl := lookupStatic_of_mem hnd1 hm'
          rw [dfsStatic_eq, hl] at h1
          have := dfs_complete q _ (hwfs _ _ hm') _ _ h1 t' r' .direct hi'' hok' (by intro h; cases h)
          rw [hwt'] at this; cases this
        · cases hs'
      | @viaDyn _ _ _ _ s' _ _ hm' hd' hi'' =>
        -- the sub-search below p' is not None
        have hsub : (dfs q s' rem' (vals ++ a')).res ≠ .none := by
          intro hn
          have := dfs_complete q s' (hwfd _ _ hm') rem' (vals ++ a') hn t' r' .direct hi'' hok' (by intro h; cases h)
          rw [hwt'] at this; cases this
        cases h2 : (dfsDyn q ds x xs vals).res with
        | none =>
          exfalso
          exact hsub (dfsDyn_none h2 p' s' hm' hd' a' rem' hs').1
        | slash => simp [h2] at hres
        | found r2 vs2 =>
          simp only [h2] at hres
          cases hres
          obtain ⟨l1, p1, s1, l2, a1, rem1, hds, hd1, hs1, hr1, hl1⟩ := dfsDyn_first h2 (by simp)
          have hm1 : (p1, s1) ∈ ds := by rw [hds]; simp
          obtain ⟨ps0, hi0⟩ := found_inTrie hr1
          have hpt := huniq _ _ r hi (.viaDyn hm1 hd1 hi0)
          injection hpt with hp ht
          subst hp ht
          split
          · rename_i hpp
            subst hpp
            have := assoc_unique hnd2 hm' hm1
            subst this
            rw [hs1] at hs'
            cases hs'
            exact ihd p' s' hm1 (hwfd _ _ hm1) (hsortd _ _ hm1) (huniq.dyn hm1 hd1) rem' (vals ++ a') r vs hr1 t t' r' w' hi0 hi'' hok' hwt'
          · rename_i hpp
            -- p' comes after p in the sorted list
            have hin : (p', s') ∈ l2 := by
              rw [hds] at hm'
              rcases List.mem_append.1 hm' with hm' | hm'
              · exact absurd (hl1 p' s' hm' hd' a' rem' hs') hsub
              · rcases List.mem_cons.1 hm' with heq | hm'
                · cases heq; exact absurd rfl hpp
                · exact hm'
            have hpw : DynSortedList (l1 ++ (p, s1) :: l2) := by rw [← hds]; exact hsl
            have := (List.pairwise_append.1 hpw).2.1
            have := (List.pairwise_cons.1 this).1 (p', s') hin
            cases p' with
            | static c => cases hd'
            | dyn pre' k' post' f' sf' w1 =>
              cases p with
              | static c => cases hd1
              | dyn pre k post f sf w0 => exact this


/-! ### statements and helper lemmas of the C03 theorems -/

/-- what `match_notfound_only_if_partial` concludes for one rule -/
def NotAdmitted (r : Rule) (q : Req) (dom path : Str) : Prop :=
  admitsPath r dom path = false ∧ admits r q dom path = none ∧ (ruleOK q r = true → wantsSlash r dom path = false)

theorem notAdmitted_of_none {m : RMap} {cfg} (hb : Built cfg m) {q : Req} {dom path : Str}
    (hmeth : ∀ r ∈ m.rules, r.methodsOK = true)
    (hres : (dfs q m.root (segments dom path) []).res = .none)
    (hms : (dfs q m.root (segments dom path) []).ms = [])
    (hwsm : (dfs q m.root (segments dom path) []).wsm = false) :
    ∀ r ∈ m.rules, r.spec.buildOnly = false → NotAdmitted r q dom path := by
  intro r hr hbo
  have hwf : WF m.root := by rw [hb.root_eq]; exact WF.buildRoot _
  have hi : InTrie m.root r.parts r := by rw [hb.root_eq, inTrie_buildRoot]; exact ⟨hr, hbo, rfl⟩
  have hcomp := dfs_complete q m.root hwf _ _ hres r.parts r
  have hacc := dfs_acc_complete q m.root hwf _ _ hres r.parts r
  -- a counted admission is impossible
  have hcnt : ∀ via, Counted r via → walkVia via r.parts (segments dom path) = none := by
    intro via hc
    cases hw : walkVia via r.parts (segments dom path) with
    | none => rfl
    | some vs =>
      exfalso
      have hsome : (walkVia via r.parts (segments dom path)).isSome = true := by rw [hw]; rfl
      obtain ⟨h1, h2⟩ := hacc via hi hc hsome
      by_cases hmo : methodOK q r = true
      · by_cases hws : r.websocket = q.websocket
        · have hok : ruleOK q r = true := by simp [ruleOK, hmo, hws]
          have := hcomp via hi hok (by rintro rfl; rcases hc with h | ⟨_, h⟩; cases h; exact h)
          rw [hw] at this; cases this
        · have := h2 hmo hws
          rw [hwsm] at this; cases this
      · have hmo : methodOK q r = false := by simpa using hmo
        have hmr := hmeth r hr
        simp only [methodOK] at hmo
        simp only [Rule.methodsOK] at hmr
        cases hmm : r.methods with
        | none => simp [hmm] at hmo
        | some ms =>
          simp only [hmm] at hmr
          cases ms with
          | nil => simp at hmr
          | cons x t =>
            have := h1 (by simp [methodOK, hmm] at hmo ⊢; exact hmo) x (by simp [hmm])
            rw [hms] at this; cases this
  have hdirect := hcnt .direct (.inl rfl)
  have htrail : r.strict = false → walkVia .trailing r.parts (segments dom path) = none :=
    fun hs => hcnt .trailing (.inr ⟨rfl, hs⟩)
  have hns : ruleOK q r = true → walkVia .noslash r.parts (segments dom path) = none :=
    fun hok => hcomp .noslash hi hok (by intro h; cases h)
  refine ⟨?_, ?_, ?_⟩
  · simp only [admitsPath, hdirect, Option.isSome_none, Bool.false_or, Bool.and_eq_false_imp, Bool.not_eq_true']
    intro hs; rw [htrail hs]; rfl
  · simp only [admits]
    split
    · rename_i hok
      simp only [admitsGroups, hdirect]
      cases hs : r.strict with
      | true => simp
      | false => simp [htrail hs, hns hok]
    · rfl
  · intro hok
    simp [wantsSlash, hns hok]

/-- the first search of a `NoMatch` outcome returned `None`, given that conversions cannot fail -/
theorem first_search_none {m : RMap} {cfg} (hb : Built cfg m) (hconv : ConvOK m.rules) {q : Req} {dom path : Str}
    {ms wsm} (h : matchSM m.root m.cfg.mergeSlashes m.cfg.redirectDefaults q dom path = .noMatch ms wsm) :
    (dfs q m.root (segments dom path) []).res = .none ∧
    ((m.cfg.mergeSlashes = false ∧ ms = (dfs q m.root (segments dom path) []).ms ∧ wsm = (dfs q m.root (segments dom path) []).wsm) ∨
     (m.cfg.mergeSlashes = true ∧
        ms = (dfs q m.root (segments dom path) []).ms ++ (dfs q m.root (segments dom (mergeSlashes path)) []).ms ∧
        wsm = ((dfs q m.root (segments dom path) []).wsm || (dfs q m.root (segments dom (mergeSlashes path)) []).wsm))) := by
  rcases matchSM_noMatch_inv h with ⟨r, vs, hf, hc⟩ | ⟨hn, hrest⟩
  · exfalso
    have hs := dfs_sound q m.root (segments dom path) []
    rw [hf] at hs
    obtain ⟨_, ps, vs', via, hi, hv, hw, _⟩ := hs
    rw [hb.root_eq, inTrie_buildRoot] at hi
    obtain ⟨hmem, _, rfl⟩ := hi
    simp only [List.nil_append] at hv
    subst hv
    have hacc := walkVia_accepts hw
    rw [hb.kinds r hmem] at hacc
    have := convertValues_isSome hacc (hconv r hmem)
    rw [hc] at this; cases this
  · refine ⟨hn, ?_⟩
    rcases hrest with ⟨h1, h2, h3⟩ | ⟨h1, h2, h3, _⟩
    · exact .inl ⟨h1, h2, h3⟩
    · exact .inr ⟨h1, h2, h3⟩

/-- the path has no doubled slash the matcher's second pass would merge, or merging is off -/
def NoMerge (m : RMap) (path : Str) : Prop := m.cfg.mergeSlashes = false ∨ mergeSlashes path = path

/-- rule `r` admits the path for another method: directly or through an extra final slash, and the
request method is not in its method set (what `have_match_for` collects) -/
def AdmitsOtherMethod (r : Rule) (q : Req) (dom path : Str) : Prop :=
  admitsPath r dom path = true ∧ methodOK q r = false

theorem admitsPath_iff {r : Rule} {dom path : Str} :
    admitsPath r dom path = true ↔ ∃ via, Counted r via ∧ (walkVia via r.parts (segments dom path)).isSome = true := by
  simp only [admitsPath, Bool.or_eq_true, Bool.and_eq_true, Bool.not_eq_true']
  constructor
  · rintro (h | ⟨hs, h⟩)
    · exact ⟨.direct, .inl rfl, h⟩
    · exact ⟨.trailing, .inr ⟨rfl, hs⟩, h⟩
  · rintro ⟨via, (rfl | ⟨rfl, hs⟩), h⟩
    · exact .inl h
    · exact .inr ⟨hs, h⟩

theorem matchSM_of_first_none {m : RMap} {q : Req} {dom path : Str} (hnm : NoMerge m path)
    (hres : (dfs q m.root (segments dom path) []).res = .none) :
    ∃ ms wsm, matchSM m.root m.cfg.mergeSlashes m.cfg.redirectDefaults q dom path = .noMatch ms wsm ∧
      ∀ x, x ∈ ms ↔ x ∈ (dfs q m.root (segments dom path) []).ms := by
  simp only [segments] at hres
  cases hmg : m.cfg.mergeSlashes with
  | false =>
    refine ⟨_, _, by simp only [matchSM, hres]; rfl, fun x => Iff.rfl⟩
  | true =>
    rcases hnm with h | h
    · rw [hmg] at h; cases h
    · refine ⟨_, _, by simp only [matchSM, hres, h, if_true]; rfl, ?_⟩
      intro x
      simp [segments]

theorem listLt_irrefl {α} {lt : α → α → Bool} (h : SWO lt) (l : List α) : listLt lt l l = false := by
  cases hl : listLt lt l l with
  | false => rfl
  | true => have := (swo_listLt h).asymm l l hl; rw [hl] at this; cases this

/-- two variable parts with the same literal decoration are ordered by the converter weight -/
theorem weighting_lt_same_statics (n : Int) (st : List (Int × Int)) (w1 w2 : Int) :
    Weighting.lt ⟨n, st, -1, [w1]⟩ ⟨n, st, -1, [w2]⟩ = decide (w1 < w2) := by
  simp [Weighting.lt, listLt_irrefl swo_pairLt, listLt, intLt]

end Wz.Routing
