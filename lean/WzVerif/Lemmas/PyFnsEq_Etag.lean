/-
PyFnsEq_Etag — the entity-tag functions *as regenerated from werkzeug's source* by `tools/py2lean.py`
(`Gen/PyFns_Etag.lean`, rewritten on every check run: the `ETags` class of
`werkzeug/datastructures/etag.py`, `werkzeug.http.parse_etags`, `werkzeug.sansio.http.is_resource_modified`)
are equal, for all inputs, to the hand-written model functions the C06 / C11 theorems are about
(`Model/Http.lean`: `parseEtags`, `etagsToHeader`; `Model/Conditional.lean`: `ETags`, `parseEtags`,
`isResourceModified`). A change of the Python source changes the generated definition and breaks these
obligations.

Main theorems: `etags_is_weak_eq` … `etags_bool_eq`, `etags_init_eq`, `etags_init_methods`,
`etags_to_header_eq` (the class); `parse_etags_eq`, `parse_etags_none`, `parse_etags_lf_spins`
(the parser, against C06's model), `cond_parseEtags_eq`, `parse_etags_agree` (against C11's model);
`is_resource_modified_eq`, `is_resource_modified_model_parsers`, `is_resource_modified_translated`.
Everything else is a helper (candidates for a shared library: the `frozenset` facts, the `*_suffix`
lemmas about C06's regex model, the C11-vs-C06 regex model lemmas, `strip_sublist`,
`unquoteEtag_sublist`).
-/
import WzVerif.Gen.PyFns_Etag
import WzVerif.Model.Conditional
import WzVerif.Model.Http
import WzVerif.Lemmas.PyFns_Http
import WzVerif.Lemmas.PyFns_Range
import WzVerif.Lemmas.HttpTermEtag
import WzVerif.Props.C11T
namespace Wz.PyFnsEq.Etag
open Wz Wz.Pre

abbrev Elems := List (Option Pre.Str)
/-- an `ETags` object as the translation represents it: `(_strong, _weak, star_tag)` -/
abbrev Obj := Elems × Elems × Bool

/-! ## `frozenset`: membership and emptiness are those of the list -/

theorem setAdd_contains [BEq α] [LawfulBEq α] (s : List α) (y x : α) :
    (Pre.setAdd s y).contains x = (s.contains x || x == y) := by
  unfold Pre.setAdd
  by_cases h : y ∈ s
  · by_cases hx : x = y
    · subst hx; simp [h]
    · simp [h, hx]
  · by_cases hx : x = y
    · subst hx; simp [h]
    · by_cases hs : x ∈ s <;> simp [h, hx, hs]

theorem foldl_setAdd_contains [BEq α] [LawfulBEq α] (l : List α) : ∀ (acc : List α) (x : α),
    (l.foldl Pre.setAdd acc).contains x = (acc.contains x || l.contains x) := by
  induction l with
  | nil => intro acc x; simp
  | cons y t ih =>
    intro acc x
    rw [List.foldl_cons, ih, setAdd_contains, List.contains_cons, Bool.or_assoc]

/-- `x in frozenset(l)` iff `x in l` -/
theorem frozenset_contains [BEq α] [LawfulBEq α] (l : List α) (x : α) :
    (Pre.frozenset l).contains x = l.contains x := by
  unfold Pre.frozenset
  rw [foldl_setAdd_contains]; simp

theorem frozenset_mem [BEq α] [LawfulBEq α] (l : List α) (x : α) : x ∈ Pre.frozenset l ↔ x ∈ l := by
  have := frozenset_contains l x
  simpa using this

theorem foldl_setAdd_isEmpty [BEq α] (l : List α) : ∀ (acc : List α),
    (l.foldl Pre.setAdd acc).isEmpty = (acc.isEmpty && l.isEmpty) := by
  induction l with
  | nil => intro acc; simp
  | cons y t ih =>
    intro acc
    rw [List.foldl_cons, ih]
    unfold Pre.setAdd
    by_cases h : acc.contains y = true
    · have : acc.isEmpty = false := by cases acc <;> simp_all
      simp [h, this]
    · simp [h]

/-- `bool(frozenset(l))` is `bool(l)` -/
theorem frozenset_isEmpty [BEq α] (l : List α) : (Pre.frozenset l).isEmpty = l.isEmpty := by
  unfold Pre.frozenset
  rw [foldl_setAdd_isEmpty]; simp

theorem frozenset_nil [BEq α] : Pre.frozenset ([] : List α) = [] := rfl

/-! ## the `ETags` class -/

open Gen.PyFns_Etag

/-- the object the translation builds for a model value -/
def objOf (e : Cond.ETags) : Obj := (e.strong, e.weak, e.star)

/-- `ETags.is_weak(etag)`, as translated from the current source (`etag in self._weak`), is the
membership test the model's `containsWeak` uses, for every weak set and every tag. -/
theorem etags_is_weak_eq (e : Cond.ETags) (t : Str) :
    etags_is_weak e.weak t = e.weak.contains (some t) := rfl

/-- `ETags.is_strong(etag)`, as translated from the current source (`etag in self._strong`), is the
membership test the model's `contains` uses, for every strong set and every tag. -/
theorem etags_is_strong_eq (e : Cond.ETags) (t : Str) :
    etags_is_strong e.strong t = e.strong.contains (some t) := rfl

/-- `ETags.contains(etag)` (also `etag in etags`), as translated from the current source (`True` for
the wildcard object, else `is_strong`), is the model's strong comparison `ETags.contains`, for every
object and every tag. -/
theorem etags_contains_eq (e : Cond.ETags) (t : Str) :
    etags_contains e.strong e.star t = e.contains t := by
  unfold etags_contains etags_is_strong Cond.ETags.contains
  cases e.star <;> simp

/-- `ETags.contains_weak(etag)`, as translated from the current source (`is_weak(etag) or
contains(etag)`), is the model's weak comparison `ETags.containsWeak`, for every object and every tag. -/
theorem etags_contains_weak_eq (e : Cond.ETags) (t : Str) :
    etags_contains_weak e.strong e.weak e.star t = e.containsWeak t := by
  unfold etags_contains_weak Cond.ETags.containsWeak
  rw [etags_contains_eq]; rfl

/-- `bool(etags)` (`ETags.__bool__`), as translated from the current source (`star_tag or _strong or
_weak`), is the model's `ETags.truthy`, for every object. -/
theorem etags_bool_eq (e : Cond.ETags) :
    etags_bool e.strong e.weak e.star = e.truthy := rfl

/-- `ETags(strong_etags, weak_etags, star_tag)` (`ETags.__init__`), as translated from the current
source, for every argument combination (`None` or a list for the two iterables): `_strong` is the
frozenset of `strong_etags` unless `star_tag` is set (then it is empty, whatever was passed), `_weak`
is the frozenset of `weak_etags` (**also for the wildcard object**), `star_tag` is stored as given.
`None` and the empty list give the empty frozenset. -/
theorem etags_init_eq (s w : Option Elems) (star : Bool) :
    etags_init s w star
      = (if star then [] else Pre.frozenset (s.getD []), Pre.frozenset (w.getD []), star) := by
  unfold etags_init
  cases s with
  | none => cases w with
    | none => cases star <;> rfl
    | some w => cases w <;> cases star <;> rfl
  | some s =>
    cases w with
    | none => cases star <;> cases s <;> rfl
    | some w => cases star <;> cases s <;> cases w <;> rfl

/-- the three constructor calls `parse_etags` makes -/
theorem etags_init_lists (s w : Elems) :
    etags_init (some s) (some w) false = (Pre.frozenset s, Pre.frozenset w, false) := by
  rw [etags_init_eq]; rfl

theorem etags_init_star : etags_init none none true = ([], [], true) := rfl

theorem etags_init_empty : etags_init none none false = ([], [], false) := rfl

/-- the model value (lists instead of frozensets) of `ETags(s, w, star)` -/
def initModel (s w : Option Elems) (star : Bool) : Cond.ETags :=
  ⟨if star then [] else s.getD [], w.getD [], star⟩

/-- The methods of the object that the translated constructor builds agree with the model's
list-based `Cond.ETags` for the same arguments: the frozensets of the real object and the lists of
the model answer every membership question and the truth test alike, so C11's theorems about
`contains` / `containsWeak` / `truthy` speak about what `ETags(s, w, star)` does. -/
theorem etags_init_methods (s w : Option Elems) (star : Bool) (t : Str) :
    let o := etags_init s w star
    etags_is_strong o.1 t = (initModel s w star).strong.contains (some t)
    ∧ etags_is_weak o.2.1 t = (initModel s w star).weak.contains (some t)
    ∧ etags_contains o.1 o.2.2 t = (initModel s w star).contains t
    ∧ etags_contains_weak o.1 o.2.1 o.2.2 t = (initModel s w star).containsWeak t
    ∧ etags_bool o.1 o.2.1 o.2.2 = (initModel s w star).truthy := by
  simp only [etags_init_eq, initModel, etags_is_strong, etags_is_weak, etags_contains,
    etags_contains_weak, etags_bool, Cond.ETags.contains, Cond.ETags.containsWeak, Cond.ETags.truthy]
  cases star <;> simp [frozenset_mem, frozenset_isEmpty]

/-- the instance `parse_etags` uses: `o := ETags(s, w)` against the model value `⟨s, w, false⟩` -/
theorem etags_init_lists_methods (s w : Elems) (t : Str) :
    let o := etags_init (some s) (some w) false
    etags_contains o.1 o.2.2 t = (⟨s, w, false⟩ : Cond.ETags).contains t
    ∧ etags_contains_weak o.1 o.2.1 o.2.2 t = (⟨s, w, false⟩ : Cond.ETags).containsWeak t
    ∧ etags_bool o.1 o.2.1 o.2.2 = (⟨s, w, false⟩ : Cond.ETags).truthy := by
  have := etags_init_methods (some s) (some w) false t
  exact ⟨this.2.2.1, this.2.2.2.1, this.2.2.2.2⟩

/-- `ETags.to_header()`, as translated from the current source (`"*"` for the wildcard object, else
every strong tag as `"tag"`, then every weak tag as `W/"tag"`, joined with `", "`), prints exactly
what C06's model `etagsToHeader` prints for the same elements in the same iteration order, for every
pair of `str` sets. (The model's elements are `Option`al - `None` printed as the text `None`, what an
f-string does; the translated method is typed for `str` elements, which is all `parse_etags`
stores.) -/
theorem etags_to_header_eq (s w : List Str) (star : Bool) :
    etags_to_header s w star = Http.etagsToHeader ⟨s.map some, w.map some, star⟩ := by
  unfold etags_to_header Http.etagsToHeader
  have e : ([',', ' '] : Str) = ", ".toList := by decide
  cases star with
  | true => rfl
  | false =>
    simp only [Bool.false_eq_true, if_false, e, PyFnsHttp.join_intercalate, List.map_map]
    rfl

example : etags_to_header ["a".toList] ["b".toList, "c".toList] false = "\"a\", W/\"b\", W/\"c\"".toList := by
  decide

/-! ## `parse_etags`

The `while pos < end` loop is translated with explicit fuel (one unit per iteration). The loop state
`pos` is related to the text still to be read: `pos = len(value) - len(s)` for a suffix `s` of `value`
(what `_etag_re.match(value, pos)` looks at). First: the text after a match of C06's regex model is a
suffix of the text matched (`Lemmas/HttpTermEtag.lean` has the companion fact that it is strictly
shorter on LF-free text, `etagMatch_shrinks`). -/

theorem etagTerm_suffix (r r' : Str) (h : Http.etagTerm? r = some r') : r' <:+ r := by
  unfold Http.etagTerm? at h
  split at h
  · next r2 heq =>
    simp only [Option.some.injEq] at h
    subst h
    have h1 : (',' :: r2) <:+ r := heq ▸ List.dropWhile_suffix _
    exact ((List.dropWhile_suffix _).trans (List.suffix_cons _ _)).trans h1
  · split at h
    · simp only [Option.some.injEq] at h; subst h; exact List.nil_suffix
    · split at h
      · simp only [Option.some.injEq] at h; subst h; exact List.suffix_refl _
      · simp at h

theorem etagAlt1_suffix (body acc b rest : Str) (h : Http.etagAlt1 body acc = some (b, rest)) :
    rest <:+ body := by
  induction body generalizing acc with
  | nil => simp [Http.etagAlt1] at h
  | cons c t ih =>
    rw [Http.etagAlt1] at h
    split at h
    · split at h
      · next rest0 ht =>
        simp only [Option.some.injEq, Prod.mk.injEq] at h
        rw [← h.2]
        exact (etagTerm_suffix t rest0 ht).trans (List.suffix_cons _ _)
      · exact (ih _ h).trans (List.suffix_cons _ _)
    · split at h
      · exact (ih _ h).trans (List.suffix_cons _ _)
      · simp at h

theorem etagAlt2_suffix (q acc b rest : Str) (h : Http.etagAlt2 q acc = some (b, rest)) :
    rest <:+ q := by
  induction q generalizing acc with
  | nil =>
    unfold Http.etagAlt2 at h
    simp only [Option.some.injEq, Prod.mk.injEq] at h
    rw [← h.2]; exact List.suffix_refl _
  | cons c t ih =>
    unfold Http.etagAlt2 at h
    split at h
    · next rest0 ht =>
      simp only [Option.some.injEq, Prod.mk.injEq] at h
      rw [← h.2]
      exact etagTerm_suffix _ rest0 ht
    · split at h
      · exact (ih _ h).trans (List.suffix_cons _ _)
      · simp at h

theorem etagBody_suffix (q rest : Str) (a b : Option Str) (h : Http.etagBody q = some (a, b, rest)) :
    rest <:+ q := by
  unfold Http.etagBody at h
  simp only at h
  split at h
  · next x hx =>
    split at hx
    · next body =>
      simp only [Option.some.injEq] at h
      cases ha : Http.etagAlt1 body [] with
      | none => rw [ha] at hx; simp at hx
      | some br =>
        obtain ⟨b0, r0⟩ := br
        rw [ha] at hx
        simp only [Option.map_some, Option.some.injEq] at hx
        have hr : rest = r0 := by rw [← hx] at h; simp at h; exact h.2.2.symm
        rw [hr]
        exact (etagAlt1_suffix body [] b0 r0 ha).trans (List.suffix_cons _ _)
    · simp at hx
  · cases ha : Http.etagAlt2 q [] with
    | none => rw [ha] at h; simp at h
    | some br =>
      obtain ⟨b0, r0⟩ := br
      rw [ha] at h
      simp only [Option.map_some, Option.some.injEq, Prod.mk.injEq] at h
      rw [← h.2.2]
      exact etagAlt2_suffix q [] b0 r0 ha

/-- the text after a match of `_etag_re` is a suffix of the text it was matched against -/
theorem etagMatch_suffix (s rest : Str) (w : Bool) (a b : Option Str)
    (h : Http.etagMatch s = some (w, a, b, rest)) : rest <:+ s := by
  have hmap : ∀ {x : Option (Option Str × Option Str × Str)},
      (x.map fun (a, b, r) => (false, a, b, r)) = some (w, a, b, rest) → x = some (a, b, rest) := by
    intro x hx
    cases x with
    | none => simp at hx
    | some y => obtain ⟨a', b', r'⟩ := y; simp at hx; simp [hx]
  unfold Http.etagMatch at h
  simp only at h
  split at h
  · next w0 q =>
    split at h
    · split at h
      · next a' b' r' hq =>
        simp only [Option.some.injEq, Prod.mk.injEq] at h
        rw [← h.2.2.2]
        exact ((etagBody_suffix q r' a' b' hq).trans (List.suffix_cons _ _)).trans (List.suffix_cons _ _)
      · exact etagBody_suffix _ _ a b (hmap h)
    · exact etagBody_suffix _ _ a b (hmap h)
  · exact etagBody_suffix _ _ a b (hmap h)


/-- what `parse_etags` does with the outcome of its loop -/
def loopOut : Pre.Loop (Except String Obj) (Elems × Elems × Int) → Except String Obj
  | .ret r => r
  | .fall (strong, weak, _) => .ok (etags_init (some strong) (some weak) false)

/-- the `ETags` object for the model's list-based value: `ETags(strong, weak, star_tag=star)` -/
def objOfHttp (e : Http.ETags) : Obj := etags_init (some e.strong) (some e.weak) e.star

/-- `value[len(value) - len(s):]` is `s` for a suffix `s` of `value` -/
theorem drop_of_suffix (value s : Str) (h : s <:+ value) :
    value.drop (((value.length : Int) - (s.length : Int)).toNat) = s := by
  have hl := h.length_le
  have : ((value.length : Int) - (s.length : Int)).toNat = value.length - s.length := by omega
  rw [this]
  exact (List.suffix_iff_eq_drop.mp h).symm

/-- the primitive `_etag_re.match(value, pos)` of the generated file at the position of the suffix `s` -/
theorem etagReMatch_eq (value s : Str) (h : s <:+ value) :
    etagReMatch value ((value.length : Int) - (s.length : Int)) =
      (Http.etagMatch s).map fun m =>
        ((if m.1 then some (s.take 2) else none, m.2.1, m.2.2.1), (value.length : Int) - (m.2.2.2.length : Int)) := by
  unfold etagReMatch
  simp only [drop_of_suffix value s h]

/-- The `while pos < end` loop of `parse_etags`, as translated from the current source (the match at
`pos`, `break` on no match, the three groups, the wildcard test `raw == "*"` with its early
`return ds.ETags(star_tag=True)`, `elif quoted is not None: raw = quoted`, the `is_weak` branch with
its two `append`s, `pos = match.end()`), started at the position of any suffix `s` of `value` that
contains no LF, with accumulators `strong` / `weak` and more fuel than `s` has characters, followed
by the function's closing `return ds.ETags(strong, weak)`: never runs out of fuel and produces the
`ETags` object of what C06's model loop `parseEtagsGo` computes from the same state (the model conses
onto reversed accumulators). Every iteration consumes at least one character, which is why
`len(s) + 1` units of fuel suffice. -/
theorem parse_etags_loop_eq (value : Str) : ∀ (fuel : Nat) (s : Str) (st wk : Elems),
    s <:+ value → '\n' ∉ s → s.length < fuel →
    loopOut (parse_etags.loop1 value (value.length : Int) fuel st.reverse wk.reverse
        ((value.length : Int) - (s.length : Int)))
      = .ok (objOfHttp (Http.parseEtagsGo fuel s st wk)) := by
  intro fuel
  induction fuel with
  | zero => intro s st wk _ _ h; omega
  | succ f ih =>
    intro s st wk hsuf hlf hfuel
    unfold parse_etags.loop1 Http.parseEtagsGo
    by_cases hs : s = []
    · subst hs
      simp [loopOut, objOfHttp]
    · have hpos : ((value.length : Int) - (s.length : Int)) < (value.length : Int) := by
        have := List.length_pos_iff.mpr hs
        omega
      have hse : s.isEmpty = false := by simpa using hs
      simp only [hpos, decide_true, if_true, hse, Bool.false_eq_true, if_false, etagReMatch_eq value s hsuf]
      cases hm : Http.etagMatch s with
      | none => simp [loopOut, objOfHttp]
      | some m =>
        obtain ⟨w, q, r, rest⟩ := m
        have hsuf' : rest <:+ value := (etagMatch_suffix s rest w q r hm).trans hsuf
        obtain ⟨hsub, hlen⟩ := Http.etagMatch_shrinks s rest w q r hs hlf hm
        have hlf' : '\n' ∉ rest := fun hc => hlf (hsub _ hc)
        have hf' : rest.length < f := by omega
        have ht : (s.take 2).isEmpty = false := by
          cases s with
          | nil => exact absurd rfl hs
          | cons a t => cases t <;> rfl
        simp only [Option.map_some]
        by_cases hstar : r = some ['*']
        · subst hstar
          simp [loopOut, objOfHttp]
          rfl
        · have hstar' : (r == some ['*']) = false := by simpa using hstar
          simp only [hstar', Bool.false_eq_true, if_false]
          have ihS := fun x => ih rest (x :: st) wk hsuf' hlf' hf'
          have ihW := fun x => ih rest st (x :: wk) hsuf' hlf' hf'
          simp only [List.reverse_cons] at ihS ihW
          cases q <;> cases w <;> simp [ht, ihS, ihW]

/-- `objOfHttp` spelled out: the frozensets of the model's lists (no strong set for the wildcard) -/
theorem objOfHttp_eq (e : Http.ETags) :
    objOfHttp e = (if e.star then [] else Pre.frozenset e.strong, Pre.frozenset e.weak, e.star) := by
  unfold objOfHttp; rw [etags_init_eq]; rfl

/-- `parse_etags(None)`, as translated from the current source, is the empty `ETags()` (no fuel is
used); so is `parse_etags("")`, see `parse_etags_eq`. -/
theorem parse_etags_none (fuel : Nat) : parse_etags fuel none = .ok ([], [], false) := rfl

/-- **`parse_etags(value)`**, as translated from the current source of `werkzeug/http.py`, for every
header text `value` **without a line feed** and every amount of fuel `≥ len(value) + 1`: the function
terminates normally (it never raises and the marker error "py2lean: out of fuel" does not occur) and
returns exactly `ETags(strong, weak, star_tag)` for the lists and the flag that C06's model
`Http.parseEtags` computes - element for element and in the same order, with the constructor's
`frozenset` applied (`objOfHttp_eq`: duplicates removed, first occurrence kept). All C06 theorems
about `Http.parseEtags` (`etags_roundtrip`, C07's termination) therefore speak about the current
source. The LF hypothesis is the one C07's `parseEtags_terminates` has; it cannot be dropped, see
`parse_etags_lf_spins`. -/
theorem parse_etags_eq (fuel : Nat) (v : Str) (hlf : '\n' ∉ v) (hf : v.length + 1 ≤ fuel) :
    parse_etags fuel (some v) = .ok (objOfHttp (Http.parseEtags v)) := by
  unfold parse_etags Http.parseEtags
  by_cases he : v = []
  · subst he; rfl
  · have he' : v.isEmpty = false := by simpa using he
    have h := parse_etags_loop_eq v fuel v [] [] (List.suffix_refl v) hlf (by omega)
    rw [Http.parseEtagsGo_fuel_irrelevant fuel (v.length + 1) v [] [] hlf (by omega) (by omega)] at h
    simp only [Int.sub_self, List.reverse_nil] at h
    simp only [he', Bool.false_eq_true, if_false, Int.ofNat_eq_natCast]
    rw [← h]
    cases parse_etags.loop1 v (v.length : Int) fuel [] [] 0 with
    | ret r => rfl
    | fall st => obtain ⟨a, b, c⟩ := st; rfl

/-- the hypotheses are satisfiable -/
example : '\n' ∉ "W/\"a\", \"b\" ,,*".toList ∧ ("W/\"a\", \"b\" ,,*".toList).length + 1 ≤ 20 := by decide

example : parse_etags 20 (some "W/\"a\", \"b\", \"b\", c".toList)
    = .ok ([some "b".toList, some "c".toList], [some "a".toList], false) := by decide

/-- from position 1 of `"a\n"` the translated loop makes no progress: `_etag_re` matches the empty raw
tag before the final line feed (`$`) and `match.end()` is the position it started from -/
theorem lf_loop : ∀ (fuel : Nat) (weak strong : Elems),
    parse_etags.loop1 ['a', '\n'] 2 fuel weak strong 1 = .ret (.error "py2lean: out of fuel") := by
  intro fuel
  induction fuel with
  | zero => intro _ _; rfl
  | succ f ih =>
    intro weak strong
    unfold parse_etags.loop1
    have : etagReMatch ['a', '\n'] 1 = some ((none, none, some []), 1) := by decide
    simp [this, ih]

/-- Why `parse_etags_eq` excludes line feeds: on `"a\n"` the translated loop exhausts **every** amount
of fuel. This is the behaviour of the real function, not an artefact of the translation:
`werkzeug.http.parse_etags("a\n")` does not return (`_etag_re.match("a\n", 1)` has groups
`(None, None, "")` and `end() == 1`, so `pos` never advances while `strong` grows by one `""` per
iteration - replayed on CPython: no result within 5 s). A header value that reaches
the function through WSGI cannot contain a bare LF, a direct caller can pass one. -/
theorem parse_etags_lf_spins (fuel : Nat) :
    parse_etags fuel (some ['a', '\n']) = .error "py2lean: out of fuel" := by
  unfold parse_etags
  cases fuel with
  | zero => rfl
  | succ f =>
    have : etagReMatch ['a', '\n'] 0 = some ((none, none, some ['a']), 1) := by decide
    unfold parse_etags.loop1
    simp [this, lf_loop]

/-! ## C11's own regex model against C06's (header text without LF)

`Model/Conditional.lean` inlines its own small model of `_etag_re` (`etagDelim`, `quotedTag`, `rawTag`,
`weakPrefix`); on text without LF it is the same function as C06's (`etagTerm?`, `etagAlt1`, `etagAlt2`,
`etagMatch`), so what is proved above about the translated `parse_etags` transfers to C11's
`Cond.parseEtags`. (With an LF the two differ: C06's `$` also matches before a final LF, C11's does
not; and after a `W/` prefix whose body does not match C06 retries without the prefix.) -/

theorem etagDelim_eq (r : Str) (hlf : '\n' ∉ r) : Cond.etagDelim r = Http.etagTerm? r := by
  unfold Cond.etagDelim Http.etagTerm?
  cases r with
  | nil => simp
  | cons c t =>
    have h1 : (c :: t) ≠ ['\n'] := by
      intro h; rw [h] at hlf; simp at hlf
    simp only [List.isEmpty_cons, Bool.false_eq_true, if_false]
    split <;> simp_all

theorem quotedTag_eq (t : Str) : ∀ acc : Str, '\n' ∉ t → Cond.quotedTag t acc = Http.etagAlt1 t acc := by
  induction t with
  | nil => intro acc _; rfl
  | cons c t ih =>
    intro acc hlf
    have hlft : '\n' ∉ t := fun hm => hlf (by simp [hm])
    have hc : c ≠ '\n' := fun h => hlf (by simp [h])
    unfold Cond.quotedTag Http.etagAlt1
    simp only [etagDelim_eq t hlft, ih _ hlft, Http.dotCh]
    have : (c == '\n') = false := by simpa using hc
    simp only [this, bne, Bool.not_false, Bool.false_eq_true, if_true, if_false]
    cases Http.etagTerm? t <;> rfl

theorem rawTag_eq (t : Str) : ∀ acc : Str, '\n' ∉ t → Cond.rawTag t acc = Http.etagAlt2 t acc := by
  induction t with
  | nil => intro acc _; rfl
  | cons c t ih =>
    intro acc hlf
    have hlft : '\n' ∉ t := fun hm => hlf (by simp [hm])
    have hc : c ≠ '\n' := fun h => hlf (by simp [h])
    unfold Cond.rawTag Http.etagAlt2
    simp only [etagDelim_eq (c :: t) hlf, ih _ hlft, Http.dotCh]
    have : (c == '\n') = false := by simpa using hc
    simp only [this, bne, Bool.not_false, Bool.false_eq_true, if_true, if_false]
    cases Http.etagTerm? (c :: t) <;> rfl

theorem etagAlt2_some (t : Str) : ∀ acc : Str, '\n' ∉ t → ∃ x, Http.etagAlt2 t acc = some x := by
  induction t with
  | nil => intro acc _; exact ⟨_, rfl⟩
  | cons c t ih =>
    intro acc hlf
    have hlft : '\n' ∉ t := fun hm => hlf (by simp [hm])
    have hc : c ≠ '\n' := fun h => hlf (by simp [h])
    unfold Http.etagAlt2
    split
    · exact ⟨_, rfl⟩
    · simp only [Http.dotCh, bne_iff_ne, ne_eq, hc, not_false_eq_true, if_true]
      exact ih _ hlft

/-- the branch on the groups, as C11's model takes it, read off C06's `etagBody` -/
def condOfBody (x : Option Str × Option Str × Str) : Option Str × Bool × Str :=
  ((match x.1 with | some t => some t | none => x.2.1), x.2.1 == some ['*'], x.2.2)

theorem etagMatch_body (q : Str) (hlf : '\n' ∉ q) :
    Cond.etagMatch q = (Http.etagBody q).map condOfBody := by
  unfold Cond.etagMatch Http.etagBody Cond.quotedAt
  rw [rawTag_eq q [] hlf]
  obtain ⟨x, hx⟩ := etagAlt2_some q [] hlf
  obtain ⟨b, r⟩ := x
  cases q with
  | nil => simp [hx, condOfBody]
  | cons c t =>
    have hlft : '\n' ∉ t := fun hm => hlf (by simp [hm])
    by_cases hc : c = '"'
    · subst hc
      simp only [quotedTag_eq t [] hlft]
      cases h1 : Http.etagAlt1 t [] with
      | none => simp [hx, condOfBody]
      | some y => obtain ⟨b1, r1⟩ := y; simp [condOfBody]
    · simp [hc, hx, condOfBody]

theorem etagBody_some (q : Str) (hlf : '\n' ∉ q) : ∃ x, Http.etagBody q = some x := by
  unfold Http.etagBody
  obtain ⟨x, hx⟩ := etagAlt2_some q [] hlf
  simp only [hx, Option.map_some]
  split
  · exact ⟨_, rfl⟩
  · exact ⟨_, rfl⟩

theorem http_etagMatch_eq (s : Str) (hlf : '\n' ∉ s) :
    Http.etagMatch s = (Http.etagBody (Cond.weakPrefix s).2).map
      fun x => ((Cond.weakPrefix s).1, x.1, x.2.1, x.2.2) := by
  unfold Http.etagMatch
  match s, hlf with
  | [], _ => simp [Cond.weakPrefix]
  | [a], _ => simp [Cond.weakPrefix]
  | a :: b :: q, hlf =>
    have hlfq : '\n' ∉ q := fun hm => hlf (by simp [hm])
    obtain ⟨x, hx⟩ := etagBody_some q hlfq
    obtain ⟨x1, x2, x3⟩ := x
    by_cases hb : b = '/'
    · subst hb
      by_cases h1 : a = 'W'
      · subst h1; simp [Cond.weakPrefix, hx]
      · by_cases h2 : a = 'w'
        · subst h2; simp [Cond.weakPrefix, hx]
        · have : Cond.weakPrefix (a :: '/' :: q) = (false, a :: '/' :: q) := by
            unfold Cond.weakPrefix
            split
            · rename_i heq; simp only [List.cons.injEq] at heq; exact absurd heq.1 h1
            · rename_i heq; simp only [List.cons.injEq] at heq; exact absurd heq.1 h2
            · rfl
          simp [this, h1, h2]
    · have : Cond.weakPrefix (a :: b :: q) = (false, a :: b :: q) := by
        unfold Cond.weakPrefix
        split
        · rename_i heq; simp only [List.cons.injEq] at heq; exact absurd heq.2.1 hb
        · rename_i heq; simp only [List.cons.injEq] at heq; exact absurd heq.2.1 hb
        · rfl
      rw [this]
      split
      · rename_i heq; simp only [List.cons.injEq] at heq; exact absurd heq.2.1 hb
      · rfl

theorem weakPrefix_suffix (s : Str) : (Cond.weakPrefix s).2 <:+ s := by
  unfold Cond.weakPrefix
  split
  · exact (List.suffix_cons _ _).trans (List.suffix_cons _ _)
  · exact (List.suffix_cons _ _).trans (List.suffix_cons _ _)
  · exact List.suffix_refl _

/-- a C06 `ETags` value read as C11's (same fields) -/
def toCond (e : Http.ETags) : Cond.ETags := ⟨e.strong, e.weak, e.star⟩

/-- the two model loops compute the same value from the same state -/
theorem parseEtagsLoop_eq : ∀ (fuel : Nat) (s : Str) (st wk : Elems), '\n' ∉ s →
    Cond.parseEtagsLoop fuel s st wk = toCond (Http.parseEtagsGo fuel s st wk) := by
  intro fuel
  induction fuel with
  | zero => intro s st wk _; rfl
  | succ f ih =>
    intro s st wk hlf
    unfold Cond.parseEtagsLoop Http.parseEtagsGo
    by_cases hs : s.isEmpty = true
    · simp [hs, toCond]
    · have hlfq : '\n' ∉ (Cond.weakPrefix s).2 := fun hm => hlf ((weakPrefix_suffix s).subset hm)
      simp only [hs, Bool.false_eq_true, if_false, http_etagMatch_eq s hlf, etagMatch_body _ hlfq]
      cases hb : Http.etagBody (Cond.weakPrefix s).2 with
      | none => simp [toCond]
      | some x =>
        obtain ⟨q, r, rest⟩ := x
        have hlf' : '\n' ∉ rest := fun hm => hlfq ((etagBody_suffix _ _ _ _ hb).subset hm)
        simp only [Option.map_some, condOfBody]
        by_cases hstar : (r == some ['*']) = true
        · simp [hstar, toCond]
        · simp only [hstar, Bool.false_eq_true, if_false]
          cases (Cond.weakPrefix s).1 <;> cases q <;> simp [ih _ _ _ hlf']

/-- C11's `Cond.parseEtags` (own inlined regex model) and C06's `Http.parseEtags` return the same
lists and the same wildcard flag for every header text without LF. -/
theorem cond_parseEtags_eq (v : Str) (hlf : '\n' ∉ v) :
    Cond.parseEtags (some v) = toCond (Http.parseEtags v) := by
  unfold Cond.parseEtags Http.parseEtags
  by_cases he : v = []
  · subst he; rfl
  · have : v.isEmpty = false := by simpa using he
    simp only [this, Bool.false_eq_true, if_false]
    exact parseEtagsLoop_eq _ v [] [] hlf

/-- C06's loop either returns the wildcard value or a value without the wildcard flag -/
theorem parseEtagsGo_star : ∀ (fuel : Nat) (s : Str) (st wk : Elems),
    Http.parseEtagsGo fuel s st wk = ⟨[], [], true⟩ ∨ (Http.parseEtagsGo fuel s st wk).star = false := by
  intro fuel
  induction fuel with
  | zero => intro s st wk; right; rfl
  | succ f ih =>
    intro s st wk
    unfold Http.parseEtagsGo
    split
    · right; rfl
    · split
      · right; rfl
      · split
        · left; rfl
        · simp only []
          split
          · exact ih _ _ _
          · exact ih _ _ _

theorem initModel_parse (e : Http.ETags) (h : e = ⟨[], [], true⟩ ∨ e.star = false) :
    initModel (some e.strong) (some e.weak) e.star = toCond e := by
  rcases h with h | h
  · subst h; rfl
  · obtain ⟨a, b, c⟩ := e
    simp only at h; subst h; rfl

/-! ## `is_resource_modified`

The generated definition is polymorphic in the type `τ` of instants and takes `parse_date`,
`parse_if_range_header` and `parse_etags` as parameters. It is instantiated the way C11's model reads
dates: an instant is `(epoch seconds, microseconds)`, ordered lexicographically; `replace(microsecond=0)`
zeroes the second component; every date a *header* carries has whole seconds (`atSec`). The `data`
argument is fixed to `None` by the translation (the `generate_etag(data)` path is not modelled). -/

/-- an instant: (epoch seconds, microseconds) -/
abbrev Inst := Int × Nat
/-- `a <= b` on instants -/
def dle (a b : Inst) : Bool := decide (a.1 < b.1 ∨ (a.1 = b.1 ∧ a.2 ≤ b.2))
/-- `_dt_as_utc(d.replace(microsecond=0))` -/
def dropMicro (p : Inst) : Inst := (p.1, 0)
/-- the instant of a parsed header date (whole seconds) -/
def atSec (d : Int) : Inst := (d, 0)
/-- the `IfRange` object `(etag, date)` of C11's model value -/
def ifRangeObj : Cond.IfRange → Option Str × Option Inst
  | .none => (none, none)
  | .date d => (none, some (atSec d))
  | .etag e => (some e, none)

/-- An `ETags` object (as the translation represents it) answers the three questions
`is_resource_modified` asks - `bool(o)`, `o.contains(t)`, `o.contains_weak(t)`, through the translated
methods - like the model value `e`. -/
structure EtagsAgree (o : Obj) (e : Cond.ETags) : Prop where
  bool : etags_bool o.1 o.2.1 o.2.2 = e.truthy
  contains : ∀ t, etags_contains o.1 o.2.2 t = e.contains t
  containsWeak : ∀ t, etags_contains_weak o.1 o.2.1 o.2.2 t = e.containsWeak t

/-- the object with the model's lists as its sets agrees with the model value -/
theorem agree_objOf (e : Cond.ETags) : EtagsAgree (objOf e) e where
  bool := etags_bool_eq e
  contains := etags_contains_eq e
  containsWeak := etags_contains_weak_eq e

/-- the object the translated constructor builds agrees with the list model of its arguments -/
theorem agree_of_init (s w : Option Elems) (star : Bool) :
    EtagsAgree (etags_init s w star) (initModel s w star) where
  bool := (etags_init_methods s w star []).2.2.2.2
  contains := fun t => (etags_init_methods s w star t).2.2.1
  containsWeak := fun t => (etags_init_methods s w star t).2.2.2.1

/-- **`parse_etags` against C11's model**: for every header text without LF and enough fuel, the
translated `parse_etags` returns an object, and that object answers `bool` / `contains` /
`contains_weak` exactly like C11's `Cond.parseEtags` of the same text (whose lists are not
de-duplicated: only membership is ever asked). -/
theorem parse_etags_agree (fuel : Nat) (v : Str) (hlf : '\n' ∉ v) (hf : v.length + 1 ≤ fuel) :
    ∃ o, parse_etags fuel (some v) = .ok o ∧ EtagsAgree o (Cond.parseEtags (some v)) := by
  refine ⟨_, parse_etags_eq fuel v hlf hf, ?_⟩
  have hs : Http.parseEtags v = ⟨[], [], true⟩ ∨ (Http.parseEtags v).star = false :=
    parseEtagsGo_star (v.length + 1) v [] []
  rw [cond_parseEtags_eq v hlf, ← initModel_parse _ hs]
  exact agree_of_init _ _ _

/-- `last_modified <= modified_since` after the microseconds were dropped, against a header date:
the comparison of the whole seconds -/
theorem dle_sec (l : Inst) (d : Int) : dle (dropMicro l) (atSec d) = decide (l.1 ≤ d) := by
  simp only [dle, dropMicro, atSec, Nat.le_refl, and_true]
  by_cases h : l.1 ≤ d
  · have : l.1 < d ∨ l.1 = d := by omega
    simp [h, this]
  · have : ¬ (l.1 < d ∨ l.1 = d) := by omega
    simp [h, this]

/-- `unquote_etag(etag)` of a non-empty text returns a tag (never `(None, None)`): this is what makes
the `TypeError` arms of the translation (`.contains(None)`) unreachable -/
theorem unquote_some (et : Str) (he : et.isEmpty = false) :
    ∃ e w, Cond.unquoteEtag et = some (e, w) ∧ Gen.PyFns_Range.unquote_etag (some et) = (some e, some w) := by
  have hu := Props.C11T.unquote_etag_eq (some et)
  simp only at hu
  cases hq : Cond.unquoteEtag et with
  | none => simp [Cond.unquoteEtag, he] at hq
  | some p =>
    obtain ⟨e, w⟩ := p
    rw [hq] at hu
    exact ⟨e, w, rfl, hu⟩

/-- the case `etag is None` -/
theorem irm_none {pdF : Option Str → Option Inst} {pifF : Option Str → Option Str × Option Inst}
    (pe : Option Str → Obj) (r : Cond.CondReq) (ims : Option Str)
    (hpd : pdF ims = r.ims.map atSec)
    (hpif : pifF r.ifRange = ifRangeObj (Cond.parseIfRangeHeader r.ifRange r.ifRangeDate))
    (lm : Option Inst) (ign : Bool) :
    is_resource_modified dle dropMicro pdF pifF pe r.range r.ifRange ims r.inm r.im none () lm ign
      = .ok (Cond.isResourceModified r none lm ign) := by
  unfold is_resource_modified Cond.isResourceModified
  simp only [hpd, hpif]
  generalize Cond.parseIfRangeHeader r.ifRange r.ifRangeDate = ir
  generalize r.ims = m
  cases lm <;> cases r.range <;> cases ign <;> cases m <;> cases ir <;>
    simp [Cond.dateUnmodified, dle_sec, ifRangeObj] <;> (try split) <;> simp_all

/-- the case of an `etag` text -/
theorem irm_some {pdF : Option Str → Option Inst} {pifF : Option Str → Option Str × Option Inst}
    (pe : Option Str → Obj) (r : Cond.CondReq) (ims : Option Str)
    (hpd : pdF ims = r.ims.map atSec)
    (hpif : pifF r.ifRange = ifRangeObj (Cond.parseIfRangeHeader r.ifRange r.ifRangeDate))
    (hinm : EtagsAgree (pe r.inm) (Cond.parseEtags r.inm))
    (him : EtagsAgree (pe r.im) (Cond.parseEtags r.im))
    (hifr : ∀ ie, Cond.parseIfRangeHeader r.ifRange r.ifRangeDate = .etag ie →
      EtagsAgree (pe (some ie)) (Cond.parseEtags (some ie)))
    (et : Str) (lm : Option Inst) (ign : Bool) :
    is_resource_modified dle dropMicro pdF pifF pe r.range r.ifRange ims r.inm r.im (some et) () lm ign
      = .ok (Cond.isResourceModified r (some et) lm ign) := by
  have hb1 := hinm.bool
  have hw1 := hinm.containsWeak
  have hb2 := him.bool
  have hc2 := him.contains
  unfold is_resource_modified Cond.isResourceModified
  simp only [hpd, hpif, hb1, hw1, hb2, hc2]
  generalize Cond.parseIfRangeHeader r.ifRange r.ifRangeDate = ir at hifr
  generalize r.ims = m
  by_cases he : et.isEmpty = true
  · have hq : Cond.unquoteEtag et = none := by simp [Cond.unquoteEtag, he]
    cases lm <;> cases r.range <;> cases ign <;> cases m <;> cases ir <;>
      simp [Cond.dateUnmodified, dle_sec, ifRangeObj, he, hq] <;> (try split) <;> simp_all
  · have he' : et.isEmpty = false := by simpa using he
    obtain ⟨e, w, hq, hu⟩ := unquote_some et he'
    generalize (Cond.parseEtags r.inm).truthy = ti
    generalize (Cond.parseEtags r.im).truthy = tm
    cases ir with
    | none =>
      cases lm <;> cases r.range <;> cases ign <;> cases m <;> cases ti <;> cases tm <;>
        simp [Cond.dateUnmodified, dle_sec, ifRangeObj, he', hq, hu] <;> (try split) <;> simp_all
    | date d =>
      cases lm <;> cases r.range <;> cases ign <;> cases m <;> cases ti <;> cases tm <;>
        simp [Cond.dateUnmodified, dle_sec, ifRangeObj, he', hq, hu] <;> (try split) <;> simp_all
    | etag ie =>
      have hc3 := (hifr ie rfl).contains
      cases lm <;> cases r.range <;> cases ign <;> cases m <;> cases ti <;> cases tm <;>
        simp [Cond.dateUnmodified, dle_sec, ifRangeObj, he', hq, hu, hc3] <;> (try split) <;> simp_all

/-- **`is_resource_modified`**, as translated from the current source of `werkzeug/sansio/http.py`
(the `last_modified` normalisation, the `If-Range` branch guarded by `ignore_if_range` and the presence
of `Range`, the choice of `modified_since`, the date comparison, `unquote_etag`, the `If-Range` tag
through `parse_etags(...).contains`, `If-None-Match` through `contains_weak`, `If-Match` through
`contains`; the `ETags` methods are the translated ones), **never raises and returns exactly C11's
`Cond.isResourceModified`** for every request `r`, every response `etag` (or `None`), every
`last_modified` instant with microseconds (or `None`) and both values of `ignore_if_range`.

The Python function receives header *texts* and calls three parsers; C11's model takes a record with
the two date headers pre-parsed (`r.ifRangeDate`, `r.ims`). The theorem therefore holds for
**arbitrary** parser functions `pdF`, `pifF`, `pe` that do, on the headers of this request, what the
record says: `parse_date(If-Modified-Since text)` is the instant `r.ims` (`hpd`),
`parse_if_range_header(If-Range)` is the object of the model's `parseIfRangeHeader` (`hpif`), and the
objects `parse_etags` returns for `If-None-Match`, `If-Match` and the `If-Range` tag answer like the
model's `parseEtags` (`hinm`, `him`, `hifr`). `is_resource_modified_model_parsers` and
`is_resource_modified_translated` below discharge these hypotheses.

"Never raises": the translation has `TypeError` arms where `unquote_etag(etag)[0]` would be `None`;
they are unreachable because the call sits under `if etag:` and `unquote_etag` of a non-empty text
returns a tag (`unquote_some`, from C11T's `unquote_etag_eq`). No input was found on which code and
model differ. -/
theorem is_resource_modified_eq {pdF : Option Str → Option Inst}
    {pifF : Option Str → Option Str × Option Inst} (pe : Option Str → Obj) (r : Cond.CondReq)
    (ims : Option Str)
    (hpd : pdF ims = r.ims.map atSec)
    (hpif : pifF r.ifRange = ifRangeObj (Cond.parseIfRangeHeader r.ifRange r.ifRangeDate))
    (hinm : EtagsAgree (pe r.inm) (Cond.parseEtags r.inm))
    (him : EtagsAgree (pe r.im) (Cond.parseEtags r.im))
    (hifr : ∀ ie, Cond.parseIfRangeHeader r.ifRange r.ifRangeDate = .etag ie →
      EtagsAgree (pe (some ie)) (Cond.parseEtags (some ie)))
    (etag : Option Str) (lm : Option Inst) (ign : Bool) :
    is_resource_modified dle dropMicro pdF pifF pe r.range r.ifRange ims r.inm r.im etag () lm ign
      = .ok (Cond.isResourceModified r etag lm ign) := by
  cases etag with
  | none => exact irm_none pe r ims hpd hpif lm ign
  | some et => exact irm_some pe r ims hpd hpif hinm him hifr et lm ign

/-! ### the parsers instantiated -/

/-- `parse_date` on header text, from an opaque parser `pd` of non-`None` text to epoch seconds
(`parse_date(None)` is `None`) -/
def parseDateOf (pd : Str → Option Int) (v : Option Str) : Option Inst := (v.bind pd).map atSec

/-- `parse_if_range_header`: the object of C11's model function, `parse_date` being `pd` -/
def parseIfRangeOf (pd : Str → Option Int) (v : Option Str) : Option Str × Option Inst :=
  ifRangeObj (Cond.parseIfRangeHeader v (v.bind pd))

/-- `parse_if_range_header` as translated from the source (`Gen/PyFns_Range.lean`), its date lifted to
an instant -/
def parseIfRangeT (pd : Str → Option Int) (v : Option Str) : Option Str × Option Inst :=
  let p := Gen.PyFns_Range.parse_if_range_header pd v
  (p.1, p.2.map atSec)

/-- `parse_etags` as translated from the source, run with `len(value) + 1` units of fuel; the marker
error (which `parse_etags_eq` excludes for LF-free text) is mapped to the empty object -/
def parseEtagsT (v : Option Str) : Obj :=
  match parse_etags ((v.getD []).length + 1) v with
  | .ok o => o
  | .error _ => ([], [], false)

/-- the header is absent or contains no line feed -/
def NoLF (v : Option Str) : Prop := ∀ s, v = some s → '\n' ∉ s

/-- the model's request record for five header texts and a date parser -/
def reqOf (pd : Str → Option Int) (range ifRange ims inm im : Option Str) : Cond.CondReq :=
  { range := range, ifRange := ifRange, ifRangeDate := ifRange.bind pd, ims := ims.bind pd, inm := inm, im := im }

theorem parseEtagsT_agree (v : Option Str) (h : NoLF v) : EtagsAgree (parseEtagsT v) (Cond.parseEtags v) := by
  cases v with
  | none => exact agree_objOf Cond.ETags.empty
  | some s =>
    obtain ⟨o, ho, ha⟩ := parse_etags_agree (s.length + 1) s (h s rfl) (Nat.le_refl _)
    unfold parseEtagsT
    simp only [Option.getD_some, ho]
    exact ha

theorem strip_sublist (s : Str) : (Py.strip s).Sublist s := by
  unfold Py.strip Py.rstripBy
  have h1 : (s.dropWhile Py.isSpace).Sublist s := List.dropWhile_sublist _
  refine List.Sublist.trans ?_ h1
  generalize s.dropWhile Py.isSpace = t
  have := (List.dropWhile_sublist Py.isSpace (l := t.reverse)).reverse
  simpa using this

/-- `unquote_etag` only removes characters -/
theorem unquoteEtag_sublist (s e : Str) (w : Bool) (h : Cond.unquoteEtag s = some (e, w)) : e.Sublist s := by
  rw [PyFnsRange.unquoteEtag_spec] at h
  split at h
  · simp at h
  · simp only [Option.some.injEq, Prod.mk.injEq] at h
    rw [← h.1]
    have h1 : (if (startswith (Py.strip s) ['W', '/'] || startswith (Py.strip s) ['w', '/']) = true
        then (Py.strip s).drop 2 else Py.strip s).Sublist s := by
      split
      · exact (List.drop_sublist _ _).trans (strip_sublist s)
      · exact strip_sublist s
    generalize (if (startswith (Py.strip s) ['W', '/'] || startswith (Py.strip s) ['w', '/']) = true
        then (Py.strip s).drop 2 else Py.strip s) = g at h1 ⊢
    split
    · exact ((List.dropLast_sublist _).trans (List.drop_sublist _ _)).trans h1
    · exact h1

/-- the entity tag of an `If-Range` header without LF contains no LF -/
theorem ifRange_etag_noLF (v : Option Str) (d : Option Int) (ie : Str) (h : NoLF v)
    (hp : Cond.parseIfRangeHeader v d = .etag ie) : '\n' ∉ ie := by
  unfold Cond.parseIfRangeHeader Cond.parseIfRange at hp
  cases v with
  | none => simp at hp
  | some s =>
    simp only at hp
    split at hp
    · simp at hp
    · split at hp
      · simp at hp
      · split at hp
        · next e w hq =>
          simp only [Cond.IfRange.etag.injEq] at hp
          subst hp
          exact fun hm => h s rfl ((unquoteEtag_sublist s e w hq).subset hm)
        · simp at hp

theorem parseIfRangeT_eq (pd : Str → Option Int) (v : Option Str) :
    parseIfRangeT pd v = parseIfRangeOf pd v := by
  unfold parseIfRangeT parseIfRangeOf
  rw [Props.C11T.parse_if_range_header_eq_model]
  cases Cond.parseIfRangeHeader v (v.bind pd) <;> rfl

/-- `is_resource_modified` with the model's own parsers plugged in (the instantiation under which the
translated function *is* the model function of the five header texts): for every opaque date parser
`pd`, all header texts (each possibly `None`, no restriction on their characters), every `etag`,
`last_modified` and `ignore_if_range`, the translated function returns `.ok` of the model's answer
for the request record built from the texts (`reqOf`: `If-Range` and `If-Modified-Since` parsed with
`pd`). -/
theorem is_resource_modified_model_parsers (pd : Str → Option Int)
    (range ifRange ims inm im etag : Option Str) (lm : Option Inst) (ign : Bool) :
    is_resource_modified dle dropMicro (parseDateOf pd) (parseIfRangeOf pd)
        (fun v => objOf (Cond.parseEtags v)) range ifRange ims inm im etag () lm ign
      = .ok (Cond.isResourceModified (reqOf pd range ifRange ims inm im) etag lm ign) :=
  is_resource_modified_eq (pdF := parseDateOf pd) (pifF := parseIfRangeOf pd) _
    (reqOf pd range ifRange ims inm im) ims rfl rfl (agree_objOf _) (agree_objOf _)
    (fun _ _ => agree_objOf _) etag lm ign

/-- **The whole call tree as translated from the source**: `is_resource_modified` calling the
translated `parse_if_range_header` (with its `IfRange.__init__` and `unquote_etag`), the translated
`parse_etags` (with its loop, `ETags.__init__` and the frozensets) and the translated `ETags` methods -
only `parse_date` (`pd`) and the regex primitive stay opaque / hand-modelled - returns `.ok` of C11's
`Cond.isResourceModified`, for every date parser, all header texts **without line feeds** (`If-Range`,
`If-None-Match`, `If-Match`; see `parse_etags_lf_spins` for why), every `etag`, `last_modified` and
`ignore_if_range`. So C11's theorems about `isResourceModified` hold for the current source of
`sansio/http.py`, `http.py` and `datastructures/etag.py` together. -/
theorem is_resource_modified_translated (pd : Str → Option Int)
    (range ifRange ims inm im etag : Option Str) (lm : Option Inst) (ign : Bool)
    (h1 : NoLF ifRange) (h2 : NoLF inm) (h3 : NoLF im) :
    is_resource_modified dle dropMicro (parseDateOf pd) (parseIfRangeT pd) parseEtagsT
        range ifRange ims inm im etag () lm ign
      = .ok (Cond.isResourceModified (reqOf pd range ifRange ims inm im) etag lm ign) :=
  is_resource_modified_eq (pdF := parseDateOf pd) (pifF := parseIfRangeT pd) _
    (reqOf pd range ifRange ims inm im) ims rfl (parseIfRangeT_eq pd ifRange)
    (parseEtagsT_agree _ h2) (parseEtagsT_agree _ h3)
    (fun ie hie => parseEtagsT_agree _ (fun s hs => by
      have : ie = s := Option.some.inj hs
      subst this; exact ifRange_etag_noLF ifRange (ifRange.bind pd) ie h1 hie)) etag lm ign

/-- the hypotheses are satisfiable, and the translated call tree computes: a weak `If-None-Match`
match makes the resource "not modified" -/
example : NoLF (some "W/\"abc\", \"x\"".toList) ∧ NoLF none := by
  constructor
  · intro s hs; cases hs; decide
  · intro s hs; cases hs

example : is_resource_modified dle dropMicro (parseDateOf fun _ => none) (parseIfRangeT fun _ => none) parseEtagsT
    none none none (some "W/\"abc\", \"x\"".toList) none (some "\"abc\"".toList) () (some (5, 7)) true
    = .ok false := by decide

end Wz.PyFnsEq.Etag
