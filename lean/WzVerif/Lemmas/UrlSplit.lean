/-
Lemmas about the urlsplit / urlunsplit model (C15): re-splitting an assembled URL of the
property's grammar gives the components back. Core Lean only.
-/
import WzVerif.Model.UrlSplit
import WzVerif.Lemmas.UrlStable
namespace Wz.Url
open Wz

/-! ### partition -/

theorem partitionChar_append {d : Char} : ∀ (a b : Str), d ∉ a →
    partitionChar d (a ++ d :: b) = (a, some b)
  | [], b, _ => by simp [partitionChar]
  | c :: a, b, h => by
    have hc : c ≠ d := fun e => h (by simp [e])
    have ih := partitionChar_append a b (fun m => h (List.mem_cons_of_mem _ m))
    simp [partitionChar, hc, ih]

theorem partitionChar_none {d : Char} : ∀ (a : Str), d ∉ a → partitionChar d a = (a, none)
  | [], _ => rfl
  | c :: a, h => by
    have hc : c ≠ d := fun e => h (by simp [e])
    have ih := partitionChar_none a (fun m => h (List.mem_cons_of_mem _ m))
    simp [partitionChar, hc, ih]

theorem partitionChar_spec {d : Char} : ∀ (s : Str),
    (∃ a b, partitionChar d s = (a, some b) ∧ s = a ++ d :: b ∧ d ∉ a) ∨
    (partitionChar d s = (s, none) ∧ d ∉ s)
  | [] => Or.inr ⟨rfl, by simp⟩
  | c :: t => by
    by_cases hc : c = d
    · left; exact ⟨[], t, by simp [partitionChar, hc], by simp [hc], by simp⟩
    · rcases partitionChar_spec (d := d) t with ⟨a, b, h1, h2, h3⟩ | ⟨h1, h2⟩
      · left
        refine ⟨c :: a, b, by simp [partitionChar, hc, h1], by simp [h2], ?_⟩
        intro hm
        rcases List.mem_cons.mp hm with e | e
        · exact hc e.symm
        · exact h3 e
      · right
        refine ⟨by simp [partitionChar, hc, h1], ?_⟩
        intro hm
        rcases List.mem_cons.mp hm with e | e
        · exact hc e.symm
        · exact h2 e

theorem rpartitionChar_append {d : Char} (a b : Str) (h : d ∉ b) :
    rpartitionChar d (a ++ d :: b) = (some a, b) := by
  unfold rpartitionChar
  have : (a ++ d :: b).reverse = b.reverse ++ d :: a.reverse := by simp
  rw [this, partitionChar_append _ _ (by simpa using h)]
  simp

theorem rpartitionChar_none {d : Char} (s : Str) (h : d ∉ s) : rpartitionChar d s = (none, s) := by
  unfold rpartitionChar
  rw [partitionChar_none _ (by simpa using h)]

theorem splitFirst_append {d : Char} (a b : Str) (h : d ∉ a) : splitFirst d (a ++ d :: b) = (a, b) := by
  simp [splitFirst, partitionChar_append a b h]

theorem splitFirst_none {d : Char} (a : Str) (h : d ∉ a) : splitFirst d a = (a, []) := by
  simp [splitFirst, partitionChar_none a h]

/-! ### re-splitting an assembled URL -/

def noTab (s : Str) : Prop := ∀ c ∈ s, isTabCrLf c = false

/-- a 5-tuple of the property's URL grammar: scheme and authority present, components free of the
delimiters that end them -/
structure GoodSplit (o : UrlOpaque) (t : Split) : Prop where
  scheme_valid : validScheme t.scheme = true
  scheme_lower : t.scheme.map asciiLower = t.scheme
  netloc_ne : t.netloc ≠ []
  netloc_nodelim : ∀ c ∈ t.netloc, isNetlocDelim c = false
  brackets : bracketsOk o t.netloc = true
  nfkc : netlocOk o t.netloc = true
  path_form : t.path = [] ∨ t.path.head? = some '/'
  path_chars : '?' ∉ t.path ∧ '#' ∉ t.path
  query_chars : '#' ∉ t.query
  tabs : noTab t.scheme ∧ noTab t.netloc ∧ noTab t.path ∧ noTab t.query ∧ noTab t.fragment

theorem filter_noTab {s : Str} (h : noTab s) : s.filter (fun c => !isTabCrLf c) = s := by
  apply List.filter_eq_self.mpr
  intro c hc
  simp [h c hc]

theorem noTab_append {a b : Str} (ha : noTab a) (hb : noTab b) : noTab (a ++ b) := by
  intro c hc
  rcases List.mem_append.mp hc with h | h
  · exact ha c h
  · exact hb c h

theorem noTab_cons {c : Char} {a : Str} (hc : isTabCrLf c = false) (ha : noTab a) : noTab (c :: a) := by
  intro x hx
  rcases List.mem_cons.mp hx with rfl | h
  · exact hc
  · exact ha x h

theorem schemeChar_ne_colon {c : Char} (h : isSchemeChar c = true) : c ≠ ':' := by
  intro e; subst e; revert h; decide

theorem alpha_not_c0 {c : Char} (h : isAsciiAlpha c = true) : isC0OrSpace c = false := by
  simp only [isAsciiAlpha, Bool.or_eq_true, Bool.and_eq_true, decide_eq_true_eq] at h
  simp only [isC0OrSpace, decide_eq_false_iff_not, Nat.not_le]
  have ha : 'a'.toNat = 97 := by decide
  have hA : 'A'.toNat = 65 := by decide
  rcases h with h | h
  · have : 'a'.toNat ≤ c.toNat := h.1
    omega
  · have : 'A'.toNat ≤ c.toNat := h.1
    omega

/-- the tail `path ?query #fragment` of an assembled URL -/
def tailOf (t : Split) : Str :=
  t.path ++ (if t.query.isEmpty then [] else '?' :: t.query) ++
    (if t.fragment.isEmpty then [] else '#' :: t.fragment)

theorem urlunsplit_good {o : UrlOpaque} {t : Split} (g : GoodSplit o t) :
    urlunsplit t = t.scheme ++ ':' :: '/' :: '/' :: t.netloc ++ tailOf t := by
  have hne : t.netloc.isEmpty = false := by
    cases h : t.netloc with
    | nil => exact absurd h g.netloc_ne
    | cons _ _ => rfl
  have hs : t.scheme.isEmpty = false := by
    have := g.scheme_valid
    cases h : t.scheme with
    | nil => simp [validScheme, h] at this
    | cons _ _ => rfl
  have hp : (if (!t.path.isEmpty && t.path.head? != some '/') = true then '/' :: t.path else t.path) = t.path := by
    rcases g.path_form with h | h
    · simp [h]
    · simp [h]
  unfold urlunsplit tailOf
  simp only [hne, hs, Bool.not_false, Bool.true_or, if_true, hp]
  by_cases hq : t.query.isEmpty = true <;> by_cases hf : t.fragment.isEmpty = true <;>
    simp [hq, hf, List.append_assoc]

theorem splitTail {t : Split} (hp : '?' ∉ t.path ∧ '#' ∉ t.path) (hq : '#' ∉ t.query) :
    (splitFirst '?' (splitFirst '#' (tailOf t)).1 = (t.path, t.query)) ∧
    (splitFirst '#' (tailOf t)).2 = t.fragment := by
  unfold tailOf
  by_cases hqe : t.query.isEmpty = true <;> by_cases hfe : t.fragment.isEmpty = true
  · have e1 : t.query = [] := List.isEmpty_iff.mp hqe
    have e2 : t.fragment = [] := List.isEmpty_iff.mp hfe
    simp only [hqe, hfe, if_true, List.append_nil]
    rw [splitFirst_none _ hp.2, splitFirst_none _ hp.1, e1, e2]
    exact ⟨rfl, rfl⟩
  · have e1 : t.query = [] := List.isEmpty_iff.mp hqe
    simp only [hqe, hfe, if_true, List.append_nil, Bool.false_eq_true, if_false]
    rw [splitFirst_append _ _ hp.2, splitFirst_none _ hp.1, e1]
    exact ⟨rfl, rfl⟩
  · have e2 : t.fragment = [] := List.isEmpty_iff.mp hfe
    simp only [hqe, hfe, if_true, List.append_nil, Bool.false_eq_true, if_false]
    have hno : '#' ∉ t.path ++ '?' :: t.query := by
      intro hm
      rcases List.mem_append.mp hm with h | h
      · exact hp.2 h
      · rcases List.mem_cons.mp h with e | e
        · exact absurd e (by decide)
        · exact hq e
    rw [splitFirst_none _ hno, splitFirst_append _ _ hp.1, e2]
    exact ⟨rfl, rfl⟩
  · simp only [hqe, hfe, Bool.false_eq_true, if_false]
    have hno : '#' ∉ t.path ++ '?' :: t.query := by
      intro hm
      rcases List.mem_append.mp hm with h | h
      · exact hp.2 h
      · rcases List.mem_cons.mp h with e | e
        · exact absurd e (by decide)
        · exact hq e
    rw [splitFirst_append _ _ hno, splitFirst_append _ _ hp.1]
    exact ⟨rfl, rfl⟩

theorem tailOf_head (t : Split) (hp : t.path = [] ∨ t.path.head? = some '/') :
    ∀ c, (tailOf t).head? = some c → isNetlocDelim c = true := by
  intro c hc
  unfold tailOf at hc
  rcases hp with h | h
  · rw [h] at hc
    by_cases hq : t.query.isEmpty = true
    · by_cases hf : t.fragment.isEmpty = true
      · simp [hq, hf] at hc
      · simp [hq, hf] at hc; subst hc; decide
    · simp [hq] at hc; subst hc; decide
  · cases hpath : t.path with
    | nil => rw [hpath] at h; cases h
    | cons x xs =>
      rw [hpath] at h hc
      simp at h hc
      subst hc; subst h; decide

theorem takeWhile_append_stop {p : Char → Bool} : ∀ (a rest : Str), (∀ c ∈ a, p c = true) →
    (∀ c, rest.head? = some c → p c = false) →
    (a ++ rest).takeWhile p = a ∧ (a ++ rest).dropWhile p = rest
  | [], rest, _, hr => by
    cases rest with
    | nil => simp
    | cons c r => simp [hr c rfl]
  | x :: a, rest, ha, hr => by
    have hx := ha x (by simp)
    have ih := takeWhile_append_stop a rest (fun c hc => ha c (List.mem_cons_of_mem _ hc)) hr
    simp [hx, ih.1, ih.2]

/-- **Re-splitting.** `urlsplit(urlunsplit(t)) == t` for 5-tuples of the grammar. -/
theorem urlsplit_urlunsplit {o : UrlOpaque} {t : Split} (g : GoodSplit o t) :
    urlsplit o (urlunsplit t) = .ok t := by
  rw [urlunsplit_good g]
  obtain ⟨ts, tn, tp, tq, tf⟩ := g.tabs
  have hv := g.scheme_valid
  -- the scheme starts with a letter: nothing is stripped
  obtain ⟨s0, st, hsch⟩ : ∃ s0 st, t.scheme = s0 :: st := by
    cases h : t.scheme with
    | nil => simp [validScheme, h] at hv
    | cons a b => exact ⟨a, b, rfl⟩
  have halpha : isAsciiAlpha s0 = true := by
    simp [validScheme, hsch] at hv; exact hv.1
  have hall : ∀ c ∈ t.scheme, isSchemeChar c = true := by
    simp only [validScheme, Bool.and_eq_true, List.all_eq_true] at hv; exact hv.2
  have htail_tab : noTab (tailOf t) := by
    unfold tailOf
    refine noTab_append (noTab_append tp ?_) ?_
    · split
      · intro c hc; cases hc
      · exact noTab_cons (by decide) tq
    · split
      · intro c hc; cases hc
      · exact noTab_cons (by decide) tf
  have hclean : cleanUrl (t.scheme ++ ':' :: '/' :: '/' :: t.netloc ++ tailOf t)
      = t.scheme ++ ':' :: '/' :: '/' :: t.netloc ++ tailOf t := by
    unfold cleanUrl
    have h1 : (t.scheme ++ ':' :: '/' :: '/' :: t.netloc ++ tailOf t).dropWhile isC0OrSpace
        = t.scheme ++ ':' :: '/' :: '/' :: t.netloc ++ tailOf t := by
      rw [hsch]
      simp [alpha_not_c0 halpha]
    rw [h1]
    apply filter_noTab
    have : t.scheme ++ ':' :: '/' :: '/' :: t.netloc ++ tailOf t
        = t.scheme ++ (':' :: '/' :: '/' :: (t.netloc ++ tailOf t)) := by simp
    rw [this]
    exact noTab_append ts (noTab_cons (by decide) (noTab_cons (by decide) (noTab_cons (by decide)
      (noTab_append tn htail_tab))))
  have hscheme : splitScheme (t.scheme ++ ':' :: '/' :: '/' :: t.netloc ++ tailOf t)
      = (t.scheme, '/' :: '/' :: t.netloc ++ tailOf t) := by
    unfold splitScheme
    have : t.scheme ++ ':' :: '/' :: '/' :: t.netloc ++ tailOf t
        = t.scheme ++ ':' :: ('/' :: '/' :: t.netloc ++ tailOf t) := by simp
    rw [this, partitionChar_append _ _ (fun hm => schemeChar_ne_colon (hall _ hm) rfl)]
    simp [g.scheme_valid, g.scheme_lower]
  have hnet : splitNetloc ('/' :: '/' :: t.netloc ++ tailOf t) = (t.netloc, tailOf t) := by
    unfold splitNetloc
    have hpre : (['/', '/'] : Str).isPrefixOf ('/' :: '/' :: t.netloc ++ tailOf t) = true := by
      simp [List.isPrefixOf]
    rw [if_pos hpre]
    have hd : ('/' :: '/' :: t.netloc ++ tailOf t).drop 2 = t.netloc ++ tailOf t := by simp
    rw [hd]
    obtain ⟨h1, h2⟩ := takeWhile_append_stop (p := fun c => !isNetlocDelim c) t.netloc (tailOf t)
      (fun c hc => by simp [g.netloc_nodelim c hc])
      (fun c hc => by simp [tailOf_head t g.path_form c hc])
    rw [h1, h2]
  obtain ⟨hpq, hfr⟩ := splitTail g.path_chars g.query_chars
  unfold urlsplit
  simp only [hclean, hscheme, hnet, g.brackets, g.nfkc, Bool.not_true, Bool.false_eq_true, if_false,
    hpq, hfr]

/-! ### what urlsplit guarantees about its result -/

theorem cleanUrl_noTab (url : Str) : noTab (cleanUrl url) := by
  intro c hc
  have := (List.mem_filter.mp hc).2
  simpa using this

theorem noTab_of_subset {a b : Str} (h : ∀ c ∈ a, c ∈ b) (hb : noTab b) : noTab a :=
  fun c hc => hb c (h c hc)

theorem asciiLower_idem (c : Char) : asciiLower (asciiLower c) = asciiLower c := by
  unfold asciiLower
  by_cases h : ('A' ≤ c && c ≤ 'Z') = true
  · have h1 : 'A'.toNat ≤ c.toNat ∧ c.toNat ≤ 'Z'.toNat := by
      simp only [Bool.and_eq_true, decide_eq_true_eq] at h; exact h
    have hA : 'A'.toNat = 65 := by decide
    have hZ : 'Z'.toNat = 90 := by decide
    have hv : (Char.ofNat (c.toNat + 32)).toNat = c.toNat + 32 := char_toNat_ofNat_lt (by omega)
    have h2 : ¬ (('A' ≤ Char.ofNat (c.toNat + 32) && Char.ofNat (c.toNat + 32) ≤ 'Z') = true) := by
      simp only [Bool.and_eq_true, decide_eq_true_eq, not_and]
      intro _ hle
      have : (Char.ofNat (c.toNat + 32)).toNat ≤ 'Z'.toNat := hle
      omega
    simp [h, h2]
  · simp [h]

theorem schemeChar_lower {c : Char} (h : isSchemeChar c = true) :
    isSchemeChar (asciiLower c) = true ∧ (isAsciiAlpha c = true → isAsciiAlpha (asciiLower c) = true) ∧
    isTabCrLf (asciiLower c) = false := by
  have hlt : c.toNat < 128 := by
    simp only [isSchemeChar, isAsciiAlpha, isAsciiDigit, Bool.or_eq_true, Bool.and_eq_true,
      decide_eq_true_eq, beq_iff_eq] at h
    have hz : 'z'.toNat = 122 := by decide
    have hZ : 'Z'.toNat = 90 := by decide
    have h9 : '9'.toNat = 57 := by decide
    rcases h with ((((h | h) | h) | h) | h) | h
    · have : c.toNat ≤ 'z'.toNat := h.2; omega
    · have : c.toNat ≤ 'Z'.toNat := h.2; omega
    · have : c.toNat ≤ '9'.toNat := h.2; omega
    · subst h; decide
    · subst h; decide
    · subst h; decide
  have key : ∀ n, n < 128 → isSchemeChar (Char.ofNat n) = true →
      isSchemeChar (asciiLower (Char.ofNat n)) = true ∧
      (isAsciiAlpha (Char.ofNat n) = true → isAsciiAlpha (asciiLower (Char.ofNat n)) = true) ∧
      isTabCrLf (asciiLower (Char.ofNat n)) = false := by decide +kernel
  have := key c.toNat hlt (by rw [Char.ofNat_toNat]; exact h)
  rwa [Char.ofNat_toNat] at this

structure SplitShape (o : UrlOpaque) (sp : Split) : Prop where
  scheme : sp.scheme = [] ∨ (validScheme sp.scheme = true ∧ sp.scheme.map asciiLower = sp.scheme)
  netloc_nodelim : ∀ c ∈ sp.netloc, isNetlocDelim c = false
  brackets : bracketsOk o sp.netloc = true
  nfkc : netlocOk o sp.netloc = true
  path_form : sp.netloc ≠ [] → sp.path = [] ∨ sp.path.head? = some '/'
  path_chars : '?' ∉ sp.path ∧ '#' ∉ sp.path
  query_chars : '#' ∉ sp.query
  tabs : noTab sp.scheme ∧ noTab sp.netloc ∧ noTab sp.path ∧ noTab sp.query ∧ noTab sp.fragment

theorem splitFirst_spec (d : Char) (s : Str) :
    d ∉ (splitFirst d s).1 ∧ (∀ c ∈ (splitFirst d s).1, c ∈ s) ∧ (∀ c ∈ (splitFirst d s).2, c ∈ s) ∧
    (splitFirst d s).1 <+: s := by
  unfold splitFirst
  rcases partitionChar_spec (d := d) s with ⟨a, b, h1, h2, h3⟩ | ⟨h1, h2⟩
  · rw [h1]
    simp only
    refine ⟨h3, ?_, ?_, ⟨d :: b, h2.symm⟩⟩
    · intro c hc; rw [h2]; simp [hc]
    · intro c hc; rw [h2]; simp [hc]
  · rw [h1]
    exact ⟨h2, fun c hc => hc, by simp, List.prefix_refl _⟩

theorem mem_takeWhile_pred {p : Char → Bool} : ∀ {l : Str} {c : Char}, c ∈ l.takeWhile p → p c = true
  | [], _, h => by simp at h
  | x :: l, c, h => by
    by_cases hx : p x = true
    · simp only [List.takeWhile, hx] at h
      rcases List.mem_cons.mp h with rfl | h
      · exact hx
      · exact mem_takeWhile_pred h
    · simp [List.takeWhile, hx] at h

theorem urlsplit_shape {o : UrlOpaque} {url : Str} {sp : Split} (h : urlsplit o url = .ok sp) :
    SplitShape o sp := by
  unfold urlsplit at h
  simp only at h
  split at h
  · cases h
  rename_i hbr
  split at h
  · cases h
  rename_i hnf
  simp only [Except.ok.injEq] at h
  have hclean := cleanUrl_noTab url
  generalize cleanUrl url = u at h hbr hnf hclean
  -- scheme
  have hsch : (splitScheme u).1 = [] ∨ (validScheme (splitScheme u).1 = true ∧
      (splitScheme u).1.map asciiLower = (splitScheme u).1) ∧ True := by
    unfold splitScheme
    rcases partitionChar_spec (d := ':') u with ⟨a, b, h1, _, _⟩ | ⟨h1, _⟩
    · rw [h1]
      simp only
      by_cases hv : validScheme a = true
      · rw [if_pos hv]
        right
        refine ⟨⟨?_, ?_⟩, trivial⟩
        · simp only [validScheme, Bool.and_eq_true, List.all_eq_true] at hv ⊢
          obtain ⟨⟨h1, h2⟩, h3⟩ := hv
          refine ⟨⟨by simpa using h1, ?_⟩, ?_⟩
          · cases a with
            | nil => simp at h1
            | cons x xs =>
              simp only [List.map_cons, List.head?_cons, Option.map_some, Option.getD_some] at h2 ⊢
              exact (schemeChar_lower (h3 x (by simp))).2.1 h2
          · intro c hc
            obtain ⟨x, hx, rfl⟩ := List.mem_map.mp hc
            exact (schemeChar_lower (h3 x hx)).1
        · simp [asciiLower_idem]
      · rw [if_neg hv]; left; rfl
    · rw [h1]; left; rfl
  have hsch_tab : noTab (splitScheme u).1 ∧ (∀ c ∈ (splitScheme u).2, c ∈ u) := by
    unfold splitScheme
    rcases partitionChar_spec (d := ':') u with ⟨a, b, h1, h2, _⟩ | ⟨h1, _⟩
    · rw [h1]
      simp only
      by_cases hv : validScheme a = true
      · rw [if_pos hv]
        refine ⟨?_, fun c hc => by rw [h2]; simp [hc]⟩
        intro c hc
        obtain ⟨x, hx, rfl⟩ := List.mem_map.mp hc
        simp only [validScheme, Bool.and_eq_true, List.all_eq_true] at hv
        exact (schemeChar_lower (hv.2 x hx)).2.2
      · rw [if_neg hv]; exact ⟨(fun c hc => by cases hc), fun c hc => hc⟩
    · rw [h1]; exact ⟨(fun c hc => by cases hc), fun c hc => hc⟩
  generalize hs : splitScheme u = s at h hbr hnf hsch hsch_tab
  have hrest_tab : noTab s.2 := noTab_of_subset hsch_tab.2 hclean
  -- netloc
  have hnet : (∀ c ∈ (splitNetloc s.2).1, isNetlocDelim c = false) ∧
      (∀ c ∈ (splitNetloc s.2).1, c ∈ s.2) ∧ (∀ c ∈ (splitNetloc s.2).2, c ∈ s.2) ∧
      ((splitNetloc s.2).1 ≠ [] → ∀ c, (splitNetloc s.2).2.head? = some c → isNetlocDelim c = true) := by
    unfold splitNetloc
    split
    · refine ⟨?_, ?_, ?_, ?_⟩
      · intro c hc
        have := mem_takeWhile_pred hc
        simpa using this
      · intro c hc
        exact List.mem_of_mem_drop ((List.takeWhile_subset _) hc)
      · intro c hc
        exact List.mem_of_mem_drop ((List.dropWhile_suffix _).subset hc)
      · intro _ c hc
        have := List.head?_dropWhile_not (fun c => !isNetlocDelim c) (List.drop 2 s.2)
        rw [hc] at this
        simpa using this
    · exact ⟨by simp, by simp, fun c hc => hc, fun h => absurd rfl h⟩
  generalize hn : splitNetloc s.2 = n at h hbr hnf hnet
  have hn2_tab : noTab n.2 := noTab_of_subset hnet.2.2.1 hrest_tab
  obtain ⟨f1, f2, f3, f4⟩ := splitFirst_spec '#' n.2
  obtain ⟨q1, q2, q3, q4⟩ := splitFirst_spec '?' (splitFirst '#' n.2).1
  rw [← h]
  refine ⟨?_, hnet.1, by simpa using hbr, by simpa using hnf, ?_, ⟨q1, ?_⟩, ?_, ?_⟩
  · rcases hsch with h | h
    · exact Or.inl h
    · exact Or.inr h.1
  · -- path form
    intro hne
    simp only
    have hhead := hnet.2.2.2 hne
    -- the path is a prefix of the text after the netloc
    obtain ⟨w1, hw1⟩ := q4
    obtain ⟨w2, hw2⟩ := f4
    cases hq : (splitFirst '?' (splitFirst '#' n.2).1).1 with
    | nil => left; rfl
    | cons x xs =>
      right
      rw [hq] at hw1
      have : n.2.head? = some x := by rw [← hw2, ← hw1]; rfl
      have hd := hhead x this
      -- a delimiter that is neither '?' nor '#'
      have hx1 : x ≠ '?' := by intro e; apply q1; rw [hq, e]; simp
      have hx2 : x ≠ '#' := by
        intro e; apply f1
        rw [← hw1, e]; simp
      simp only [isNetlocDelim, Bool.or_eq_true, beq_iff_eq] at hd
      rcases hd with (hd | hd) | hd
      · simp [hd]
      · exact absurd hd hx1
      · exact absurd hd hx2
  · intro hm; exact f1 (q2 _ hm)
  · -- '#' not in the query
    intro hm; exact f1 (q3 _ hm)
  · exact ⟨hsch_tab.1, noTab_of_subset hnet.2.1 hrest_tab,
      noTab_of_subset (fun c hc => f2 c (q2 c hc)) hn2_tab,
      noTab_of_subset (fun c hc => f2 c (q3 c hc)) hn2_tab,
      noTab_of_subset f3 hn2_tab⟩

end Wz.Url
