/-
Helper lemmas for C17: header elements whose parameters are preceded by optional white space
(`value; key=token;q=0.5` — what `Accept.to_header()` writes for items that carry parameters), and
the header-level lexing lemmas for any element text with the right properties.
-/
import WzVerif.Lemmas.AcceptHeader
namespace Wz.Accept
open Wz

def AllSpace (ws : Str) : Prop := ∀ c ∈ ws, Py.isSpace c = true

/-- `;<ws>key=value` for every parameter -/
def wsParams (l : List (Str × Param)) : Str :=
  l.flatMap fun x => ';' :: (x.1 ++ (x.2.1 ++ '=' :: x.2.2))

def WsOk (l : List (Str × Param)) : Prop := ∀ x ∈ l, AllSpace x.1 ∧ IsToken x.2.1 ∧ IsToken x.2.2

theorem wsParams_cons (x : Str × Param) (rest : List (Str × Param)) :
    wsParams (x :: rest) = ';' :: (x.1 ++ (x.2.1 ++ '=' :: (x.2.2 ++ wsParams rest))) := by
  simp [wsParams]

theorem dropWhile_allSpace' (a rest : Str) (h : AllSpace a) :
    (a ++ rest).dropWhile Py.isSpace = rest.dropWhile Py.isSpace := by
  induction a with
  | nil => rfl
  | cons c t ih =>
    simp only [List.cons_append, List.dropWhile_cons, h c (by simp), ↓reduceIte]
    exact ih (fun x hx => h x (by simp [hx]))

theorem token_head_nonspace {k : Str} (hk : IsToken k) (rest : Str) :
    ∀ c, (k ++ rest).head? = some c → Py.isSpace c = false := by
  intro c hc
  cases hk1 : k with
  | nil => exact absurd hk1 hk.1
  | cons a t =>
    rw [hk1] at hc
    simp only [List.cons_append, List.head?_cons, Option.some.injEq] at hc
    subst hc
    exact (isTokChar_props a (hk.2 a (by rw [hk1]; simp))).1

theorem paramParts_listW (l : List (Str × Param)) (k val : Str) (hk : IsToken k) (hv : IsToken val)
    (hl : WsOk l) (fuel : Nat) (hf : l.length ≤ fuel) :
    paramParts (fuel + 1) (k ++ '=' :: (val ++ wsParams l)) =
      (lowerA k, val) :: l.map fun x => (lowerA x.2.1, x.2.2) := by
  induction l generalizing k val fuel with
  | nil =>
    have he : isTokChar '=' = false := by decide
    have e0 : wsParams ([] : List (Str × Param)) = [] := rfl
    rw [e0, List.append_nil]
    have tk := takeWhile_all_then (p := isTokChar) k '=' val hk.2 he
    have tv := takeWhile_all (p := isTokChar) val hv.2
    have hke : k.isEmpty = false := by
      cases k with
      | nil => exact absurd rfl hk.1
      | cons _ _ => rfl
    have hve : val.isEmpty = false := by
      cases val with
      | nil => exact absurd rfl hv.1
      | cons _ _ => rfl
    have hns : val.contains ';' = false := by
      simp only [List.contains_eq_mem, decide_eq_false_iff_not]
      intro hm
      have := hv.2 ';' hm
      revert this; decide
    rw [paramParts]
    simp only [tk.1, tk.2, hke, Bool.not_false, List.head?_cons, BEq.rfl, Bool.and_self, ↓reduceIte,
      List.drop_succ_cons, List.drop_zero, tv.1, hve, hns, Bool.false_eq_true, List.map_nil]
  | cons x rest ih =>
    have he : isTokChar '=' = false := by decide
    have hs : isTokChar ';' = false := by decide
    have e := wsParams_cons x rest
    have hx := hl x (by simp)
    have tk := takeWhile_all_then (p := isTokChar) k '=' (val ++ wsParams (x :: rest)) hk.2 he
    rw [e] at tk
    have tv := takeWhile_all_then (p := isTokChar) val ';' (x.1 ++ (x.2.1 ++ '=' :: (x.2.2 ++ wsParams rest))) hv.2 hs
    have hvs : ∀ y ∈ val, (y != ';') = true := by
      intro y hy
      have := (isTokChar_props y (hv.2 y hy)).2.2.2.1
      simpa using this
    have hsemi : ((';' : Char) != ';') = false := by decide
    have dv := takeWhile_all_then (p := fun c => c != ';') val ';' (x.1 ++ (x.2.1 ++ '=' :: (x.2.2 ++ wsParams rest))) hvs hsemi
    have hke : k.isEmpty = false := by
      cases k with
      | nil => exact absurd rfl hk.1
      | cons _ _ => rfl
    have hve : val.isEmpty = false := by
      cases val with
      | nil => exact absurd rfl hv.1
      | cons _ _ => rfl
    have hnsp : (x.1 ++ (x.2.1 ++ '=' :: (x.2.2 ++ wsParams rest))).dropWhile Py.isSpace
        = x.2.1 ++ '=' :: (x.2.2 ++ wsParams rest) := by
      rw [dropWhile_allSpace' _ _ hx.1]
      exact dropWhile_head_false'' (token_head_nonspace hx.2.1 _)
    cases fuel with
    | zero => simp at hf
    | succ f =>
      have ih' := ih x.2.1 x.2.2 hx.2.1 hx.2.2 (fun q hq => hl q (by simp [hq])) f (by simpa using hf)
      rw [paramParts]
      simp only [e, tk.1, tk.2, hke, Bool.not_false, List.head?_cons, BEq.rfl, Bool.and_self, ↓reduceIte,
        List.drop_succ_cons, List.drop_zero, tv.1, hve]
      have hc : (val ++ ';' :: (x.1 ++ (x.2.1 ++ '=' :: (x.2.2 ++ wsParams rest)))).contains ';' = true := by simp
      simp only [hc, ↓reduceIte, dv.2, List.drop_succ_cons, List.drop_zero, hnsp, ih', List.map_cons,
        List.singleton_append]

/-! ### the last character -/

def LastNonSpace (s : Str) : Prop := ∀ c, s.getLast? = some c → Py.isSpace c = false

theorem lastNonSpace_of_all {s : Str} (h : ∀ c ∈ s, Py.isSpace c = false) : LastNonSpace s := by
  intro c hc
  exact h c (List.mem_of_getLast? hc)

theorem lastNonSpace_append {a b : Str} (hb : b ≠ []) (h : LastNonSpace b) : LastNonSpace (a ++ b) := by
  intro c hc
  rw [List.getLast?_append] at hc
  cases hbl : b.getLast? with
  | none => exact absurd (List.getLast?_eq_none_iff.mp hbl) hb
  | some d =>
    rw [hbl] at hc
    simp only [Option.some_or, Option.some.injEq] at hc
    subst hc
    exact h d hbl

theorem lastNonSpace_params (l : List (Str × Param)) (val : Str)
    (hv : val ≠ [] ∧ ∀ c ∈ val, Py.isSpace c = false) (hl : WsOk l) :
    LastNonSpace (val ++ wsParams l) := by
  induction l generalizing val with
  | nil => simpa [wsParams] using lastNonSpace_of_all hv.2
  | cons x rest ih =>
    have hx := hl x (by simp)
    rw [wsParams_cons]
    have htok : x.2.2 ≠ [] ∧ ∀ c ∈ x.2.2, Py.isSpace c = false :=
      ⟨hx.2.2.1, fun c hc => (isTokChar_props c (hx.2.2.2 c hc)).1⟩
    have h1 := ih x.2.2 htok (fun q hq => hl q (by simp [hq]))
    have hne : x.2.2 ++ wsParams rest ≠ [] := by
      cases h : x.2.2 with
      | nil => exact absurd h hx.2.2.1
      | cons _ _ => simp
    have e : val ++ ';' :: (x.1 ++ (x.2.1 ++ '=' :: (x.2.2 ++ wsParams rest)))
        = (val ++ ';' :: (x.1 ++ (x.2.1 ++ ['=']))) ++ (x.2.2 ++ wsParams rest) := by simp
    rw [e]
    exact lastNonSpace_append hne h1

theorem strip_ws_body (ws body : Str) (hws : AllSpace ws)
    (hh : ∀ c, body.head? = some c → Py.isSpace c = false) (hl : LastNonSpace body) :
    Py.strip (ws ++ body) = body := by
  unfold Py.strip Py.rstripBy
  rw [dropWhile_allSpace' _ _ hws, dropWhile_head_false'' hh]
  rw [dropWhile_head_false'' (s := body.reverse)]
  · simp
  · intro c hc
    apply hl c
    rw [List.getLast?_eq_head?_reverse]
    exact hc

/-! ### an element with spaced parameters -/

/-- element text with per-parameter white space after the `;` -/
structure SpElem where
  e : Elem
  /-- white space written after the `;` of each entry of `e.opts` -/
  ws : List Str

def SpElem.wsOpts (s : SpElem) : List (Str × Param) := s.ws.zip s.e.opts

def SpElem.text (s : SpElem) : Str := s.e.v ++ wsParams s.wsOpts

structure SpElem.WF (s : SpElem) : Prop where
  elem : s.e.WF
  len : s.ws.length = s.e.opts.length
  spaces : ∀ w ∈ s.ws, AllSpace w

theorem SpElem.WF.wsOk {s : SpElem} (h : s.WF) : WsOk s.wsOpts := by
  intro x hx
  have h1 : x.1 ∈ s.ws := (List.of_mem_zip hx).1
  have h2 : x.2 ∈ s.e.opts := (List.of_mem_zip hx).2
  have := h.elem.opts_ok x.2 h2
  exact ⟨h.spaces x.1 h1, this.1.token, this.2⟩

theorem SpElem.WF.map_snd {s : SpElem} (h : s.WF) : s.wsOpts.map (·.2) = s.e.opts := by
  unfold SpElem.wsOpts
  rw [List.map_snd_zip]
  rw [h.len]; exact Nat.le_refl _

theorem wsParams_chars (l : List (Str × Param)) (hl : WsOk l) :
    ∀ c ∈ wsParams l, c ≠ ',' ∧ c ≠ '"' := by
  intro c hc
  simp only [wsParams, List.mem_flatMap] at hc
  obtain ⟨x, hx, hc⟩ := hc
  have hxo := hl x hx
  simp only [List.mem_cons, List.mem_append] at hc
  rcases hc with rfl | hc | hc | rfl | hc
  · decide
  · have := hxo.1 c hc
    constructor <;> (intro e; subst e; revert this; decide)
  · have := isTokChar_props c (hxo.2.1.2 c hc); exact ⟨this.2.1, this.2.2.1⟩
  · decide
  · have := isTokChar_props c (hxo.2.2.2 c hc); exact ⟨this.2.1, this.2.2.1⟩

theorem SpElem.WF.text_chars {s : SpElem} (h : s.WF) : ∀ c ∈ s.text, c ≠ ',' ∧ c ≠ '"' := by
  intro c hc
  unfold SpElem.text at hc
  rcases List.mem_append.mp hc with hc | hc
  · have := valueChar_props c (h.elem.value.2 c hc); exact ⟨this.2.1, this.2.2.1⟩
  · exact wsParams_chars _ h.wsOk c hc

theorem SpElem.WF.text_ne {s : SpElem} (h : s.WF) : s.text ≠ [] := by
  unfold SpElem.text
  cases hv : s.e.v with
  | nil => exact absurd hv h.elem.value.1
  | cons _ _ => simp

theorem SpElem.WF.text_head {s : SpElem} (h : s.WF) :
    ∀ c, s.text.head? = some c → Py.isSpace c = false ∧ c ≠ '"' := by
  intro c hc
  unfold SpElem.text at hc
  cases hv : s.e.v with
  | nil => exact absurd hv h.elem.value.1
  | cons a t =>
    rw [hv] at hc
    simp only [List.cons_append, List.head?_cons, Option.some.injEq] at hc
    subst hc
    have := valueChar_props a (h.elem.value.2 a (by rw [hv]; simp))
    exact ⟨this.1, this.2.2.1⟩

theorem SpElem.WF.text_strip {s : SpElem} (h : s.WF) : Py.strip s.text = s.text := by
  have hv : s.e.v ≠ [] ∧ ∀ c ∈ s.e.v, Py.isSpace c = false :=
    ⟨h.elem.value.1, fun c hc => (valueChar_props c (h.elem.value.2 c hc)).1⟩
  have := strip_ws_body [] s.text (by intro c hc; simp at hc)
    (fun c hc => (h.text_head c hc).1) (lastNonSpace_params _ _ hv h.wsOk)
  simpa using this

theorem wsParams_length (l : List (Str × Param)) : l.length ≤ (wsParams l).length := by
  induction l with
  | nil => simp [wsParams]
  | cons x t ih =>
    rw [wsParams_cons]
    simp only [List.length_cons, List.length_append]
    omega

theorem parseOptionsHeader_spElem (s : SpElem) (h : s.WF) :
    parseOptionsHeader s.text = .ok (s.e.v, s.e.opts) := by
  have hvs : ∀ c ∈ s.e.v, (c != ';') = true := by
    intro c hc
    have := (valueChar_props c (h.elem.value.2 c hc)).2.2.2
    simpa using this
  have hsv := strip_noSpace' s.e.v (fun c hc => (valueChar_props c (h.elem.value.2 c hc)).1)
  have hve : s.e.v.isEmpty = false := by
    cases hv : s.e.v with
    | nil => exact absurd hv h.elem.value.1
    | cons _ _ => rfl
  have hms := h.map_snd
  have hwo := h.wsOk
  unfold parseOptionsHeader SpElem.text
  cases ho : s.wsOpts with
  | nil =>
    have hopts : s.e.opts = [] := by rw [← hms, ho]; rfl
    have tw := takeWhile_all (p := fun c => c != ';') s.e.v hvs
    have hs0 : Py.strip [] = [] := by decide
    simp [wsParams, tw.1, tw.2, hsv, hs0, hopts]
  | cons x rest =>
    rw [ho] at hwo hms
    have hx := hwo x (by simp)
    have hok : ∀ p ∈ s.e.opts, IsKey p.1 ∧ IsToken p.2 := h.elem.opts_ok
    have hnd : (s.e.opts.map (·.1)).Nodup := h.elem.opts_nodup
    have e1 := wsParams_cons x rest
    have hsemi : ((';' : Char) != ';') = false := by decide
    have tw := takeWhile_all_then (p := fun c => c != ';') s.e.v ';'
      (x.1 ++ (x.2.1 ++ '=' :: (x.2.2 ++ wsParams rest))) hvs hsemi
    have hbody_last : LastNonSpace (x.2.1 ++ '=' :: (x.2.2 ++ wsParams rest)) := by
      have htok : x.2.2 ≠ [] ∧ ∀ c ∈ x.2.2, Py.isSpace c = false :=
        ⟨hx.2.2.1, fun c hc => (isTokChar_props c (hx.2.2.2 c hc)).1⟩
      have h1 := lastNonSpace_params rest x.2.2 htok (fun q hq => hwo q (by simp [hq]))
      have hne : x.2.2 ++ wsParams rest ≠ [] := by
        cases hh : x.2.2 with
        | nil => exact absurd hh hx.2.2.1
        | cons _ _ => simp
      have e : x.2.1 ++ '=' :: (x.2.2 ++ wsParams rest) = (x.2.1 ++ ['=']) ++ (x.2.2 ++ wsParams rest) := by simp
      rw [e]; exact lastNonSpace_append hne h1
    have hsr := strip_ws_body x.1 (x.2.1 ++ '=' :: (x.2.2 ++ wsParams rest)) hx.1
      (token_head_nonspace hx.2.1 _) hbody_last
    have hne : (x.2.1 ++ '=' :: (x.2.2 ++ wsParams rest)).isEmpty = false := by
      cases hp1 : x.2.1 <;> simp
    have hfuel : rest.length ≤ (x.2.1 ++ '=' :: (x.2.2 ++ wsParams rest)).length := by
      have := wsParams_length rest
      simp only [List.length_append, List.length_cons]
      omega
    have hpp := paramParts_listW rest x.2.1 x.2.2 hx.2.1 hx.2.2
      (fun q hq => hwo q (by simp [hq])) _ hfuel
    have hlow : (lowerA x.2.1, x.2.2) :: rest.map (fun q => (lowerA q.2.1, q.2.2)) = s.e.opts := by
      rw [← hms]
      simp only [List.map_cons]
      have hk : ∀ q ∈ x :: rest, IsKey q.2.1 := by
        intro q hq
        have : q.2 ∈ s.e.opts := by rw [← hms]; exact List.mem_map_of_mem (f := (·.2)) hq
        exact (hok q.2 this).1
      rw [(hk x (by simp)).lower]
      congr 1
      have : ∀ (l : List (Str × Param)), (∀ q ∈ l, IsKey q.2.1) →
          l.map (fun q => (lowerA q.2.1, q.2.2)) = l.map (·.2) := by
        intro l
        induction l with
        | nil => intro _; rfl
        | cons a t ih =>
          intro hl
          simp only [List.map_cons]
          rw [(hl a (by simp)).lower, ih (fun q hq => hl q (by simp [hq]))]
      exact this rest (fun q hq => hk q (by simp [hq]))
    rw [e1]
    simp only [tw.1, tw.2, List.drop_succ_cons, List.drop_zero, hsv, hsr, hve, hne, Bool.or_self,
      Bool.false_eq_true, ↓reduceIte, hpp, hlow]
    rw [processParts_simple s.e.opts [] (fun q hq => key_token_simple (hok q hq).1 (hok q hq).2) hnd
      (by intro _ _ a ha; simp at ha)]
    simp

/-! ### the whole header, for spaced elements -/

def spHeaderText : List SpElem → Str
  | [] => []
  | [s] => s.text
  | s :: rest => s.text ++ ',' :: spHeaderText rest

theorem httpList_spHeader (es : List SpElem) (hne : es ≠ []) (h : ∀ s ∈ es, s.WF) :
    httpList (spHeaderText es) [] false false = es.map SpElem.text := by
  induction es with
  | nil => exact absurd rfl hne
  | cons s rest ih =>
    have hs := h s (by simp)
    cases rest with
    | nil =>
      simp only [spHeaderText, List.map_cons, List.map_nil]
      rw [httpList_plain _ [] hs.text_chars (by simpa using hs.text_ne)]
      simp
    | cons s2 rest2 =>
      have : spHeaderText (s :: s2 :: rest2) = s.text ++ ',' :: spHeaderText (s2 :: rest2) := rfl
      rw [this, httpList_comma _ _ [] hs.text_chars, ih (by simp) (fun x hx => h x (by simp [hx]))]
      simp

theorem parseListHeader_spHeader (es : List SpElem) (hne : es ≠ []) (h : ∀ s ∈ es, s.WF) :
    parseListHeader (spHeaderText es) = es.map SpElem.text := by
  unfold parseListHeader
  rw [httpList_spHeader es hne h, List.map_map]
  apply List.map_congr_left
  intro s hs
  have hw := h s hs
  simp only [Function.comp]
  rw [hw.text_strip]
  have hh : s.text.head? ≠ some '"' := by
    intro e'
    exact (hw.text_head '"' e').2 rfl
  have : (s.text.head? == some '"') = false := by simpa using hh
  simp [this]

theorem lexHeader_spHeader (es : List SpElem) (hne : es ≠ []) (h : ∀ s ∈ es, s.WF) :
    lexHeader (spHeaderText es) = .ok (es.map fun s => (s.e.v, s.e.opts)) := by
  unfold lexHeader
  rw [parseListHeader_spHeader es hne h]
  clear hne
  induction es with
  | nil => rfl
  | cons s rest ih =>
    simp only [List.map_cons, List.mapM_cons]
    rw [parseOptionsHeader_spElem s (h s (by simp)), ih (fun x hx => h x (by simp [hx]))]
    rfl

/-- `parse_accept_header` on a header of elements with spaced parameters: as for the unspaced
grammar, the items of the elements in header order -/
theorem parseAcceptRaw_spHeader (es : List SpElem) (hne : es ≠ []) (h : ∀ s ∈ es, s.WF) :
    parseAcceptRaw (spHeaderText es) = .ok (es.filterMap fun s => s.e.item) := by
  have hte : (spHeaderText es).isEmpty = false := by
    cases es with
    | nil => exact absurd rfl hne
    | cons s rest =>
      have := (h s (by simp)).text_ne
      cases rest with
      | nil => simpa [spHeaderText] using this
      | cons s2 r2 =>
        have e' : spHeaderText (s :: s2 :: r2) = s.text ++ ',' :: spHeaderText (s2 :: r2) := rfl
        rw [e']
        cases ht : s.text <;> simp
  unfold parseAcceptRaw
  simp only [hte, Bool.false_eq_true, ↓reduceIte, lexHeader_spHeader es hne h]
  show Except.ok (acceptItems (es.map fun s => (s.e.v, s.e.opts))) = _
  congr 1
  unfold acceptItems
  rw [List.filterMap_map]
  clear hne hte
  induction es with
  | nil => rfl
  | cons s rest ih =>
    simp only [List.filterMap_cons, Function.comp]
    rw [acceptItem_elem s.e (h s (by simp)).elem, ih (fun x hx => h x (by simp [hx]))]

/-! ### `to_header()` of items that carry parameters -/

/-- an item as `parse_accept_header` rebuilds it: value, parameters (as an `Elem` without q) and
its quality -/
abbrev PItem := Elem × Q

def PItem.toItem (x : PItem) : Str × Q := (x.1.itemText, x.2)

/-- the q text `to_header` writes for the quality: none for 1 -/
def qTextOf (q : Q) : Option Str := if q.isOne then none else qRepr q

/-- the element `to_header` writes: `value; k=v; …` followed by `;q=<repr>` -/
def spOf (x : PItem) : SpElem :=
  ⟨⟨x.1.v, x.1.ps, qTextOf x.2⟩,
   List.replicate x.1.ps.length [' '] ++ (match qTextOf x.2 with | none => [] | some _ => [[]])⟩

theorem wsParams_append (a b : List (Str × Param)) : wsParams (a ++ b) = wsParams a ++ wsParams b := by
  simp [wsParams]

theorem wsParams_spaced (ps : List Param) :
    wsParams ((List.replicate ps.length [' ']).zip ps) = ps.flatMap fun p => ';' :: ' ' :: (p.1 ++ '=' :: p.2) := by
  induction ps with
  | nil => rfl
  | cons p t ih =>
    simp only [List.length_cons, List.replicate_succ, List.zip_cons_cons, List.flatMap_cons]
    rw [wsParams_cons, ih]
    simp

theorem spOf_text (x : PItem) :
    (spOf x).text = x.1.itemText ++ (match qTextOf x.2 with
      | none => []
      | some r => ';' :: 'q' :: '=' :: r) := by
  unfold SpElem.text SpElem.wsOpts spOf Elem.opts Elem.itemText
  simp only
  rw [List.zip_append (by simp), wsParams_append, wsParams_spaced, List.append_assoc]
  cases qTextOf x.2 with
  | none => simp [wsParams]
  | some r => simp [wsParams, qKey]

theorem itemHeader_spOf (x : PItem) (h : ReprOk x.2 = true) :
    itemHeader x.toItem = some (spOf x).text := by
  rw [spOf_text]
  rcases reprOk_cases h with h1 | ⟨h1, r, q', hr, _, _, _⟩
  · simp [itemHeader, PItem.toItem, qTextOf, h1]
  · simp [itemHeader, PItem.toItem, qTextOf, h1, hr]

theorem spOf_wf (x : PItem) (hwf : x.1.WF) (h : ReprOk x.2 = true) : (spOf x).WF := by
  have helem : (spOf x).e.WF := by
    refine ⟨hwf.value, hwf.params, hwf.nodup, ?_⟩
    intro qs hqs
    rcases reprOk_cases h with h1 | ⟨h1, r, q', hr, htok, _, _⟩
    · simp [spOf, qTextOf, h1] at hqs
    · simp only [spOf, qTextOf, h1, Bool.false_eq_true, ↓reduceIte, hr, Option.some.injEq] at hqs
      subst hqs; exact htok
  refine ⟨helem, ?_, ?_⟩
  · unfold spOf Elem.opts
    simp only
    cases qTextOf x.2 <;> simp
  · intro w hw
    unfold spOf at hw
    simp only at hw
    rcases List.mem_append.mp hw with hw | hw
    · have := List.eq_of_mem_replicate hw
      subst this
      intro c hc
      simp only [List.mem_singleton] at hc
      subst hc; decide
    · cases hq : qTextOf x.2 with
      | none => rw [hq] at hw; simp at hw
      | some r =>
        rw [hq] at hw
        simp only [List.mem_singleton] at hw
        subst hw
        intro c hc; simp at hc

theorem spOf_item (x : PItem) (h : ReprOk x.2 = true) :
    (spOf x).e.item = some (reparsed x.toItem) := by
  rcases reprOk_cases h with h1 | ⟨h1, r, q', hr, _, hp, _⟩
  · simp [spOf, qTextOf, h1, Elem.item, Elem.itemText, reparsed, PItem.toItem]
  · simp [spOf, qTextOf, h1, hr, Elem.item, Elem.itemText, reparsed, PItem.toItem, hp]

theorem intercalate_spHeaderText (es : List SpElem) :
    [','].intercalate (es.map SpElem.text) = spHeaderText es := by
  induction es with
  | nil => rfl
  | cons e rest ih =>
    cases rest with
    | nil => simp [spHeaderText, List.intercalate]
    | cons e' rest' =>
      have : [','].intercalate ((e :: e' :: rest').map SpElem.text) =
          e.text ++ ',' :: [','].intercalate ((e' :: rest').map SpElem.text) := by
        simp [List.intercalate]
      rw [this, ih]
      rfl

theorem toHeader_spHeaderText (its : List PItem) (h : ∀ x ∈ its, ReprOk x.2 = true) :
    toHeader (its.map PItem.toItem) = some (spHeaderText (its.map spOf)) := by
  have hm : (its.map PItem.toItem).mapM itemHeader = some (its.map fun x => (spOf x).text) := by
    induction its with
    | nil => rfl
    | cons x rest ih =>
      rw [List.map_cons, List.mapM_cons, itemHeader_spOf x (h x (by simp)),
        ih (fun y hy => h y (by simp [hy]))]
      rfl
  unfold toHeader
  rw [hm]
  simp only [Option.map_some, Option.some.injEq]
  rw [← intercalate_spHeaderText, List.map_map]
  rfl

theorem filterMap_spOf (its : List PItem) (h : ∀ x ∈ its, ReprOk x.2 = true) :
    (its.map spOf).filterMap (fun s => s.e.item) = (its.map PItem.toItem).map reparsed := by
  induction its with
  | nil => rfl
  | cons x rest ih =>
    simp only [List.map_cons, List.filterMap_cons, spOf_item x (h x (by simp))]
    rw [ih (fun y hy => h y (by simp [hy]))]

end Wz.Accept
