/-
Normal form on header text for Authorization / WWW-Authenticate (C06): the shapes `from_header`
returns, and `from_header(to_header(from_header(h))) == from_header(h)` whenever the returned scheme
survives `title()`/`lower()` and the returned parameter names are tokens without `*`.
-/
import WzVerif.Lemmas.HttpAuth
import WzVerif.Lemmas.HttpNF
set_option linter.unusedSimpArgs false
set_option linter.unusedVariables false
namespace Wz.Http
open Wz

/-- what the scheme-independent tail returns: a stripped token with `=` only as trailing padding, or a
parsed parameter dict (distinct keys) -/
theorem authRest_image (scheme r : Str) (a : Auth) (h : authRest scheme (strip r) = .ok a) :
    (a = ⟨scheme, [], some (strip r)⟩ ∧ AuthTokenOk (strip r) = true) ∨
    (∃ d, a = ⟨scheme, d, none⟩ ∧ (d.map (·.1)).Nodup) := by
  unfold authRest at h
  simp only [bind, Except.bind, pure, Except.pure] at h
  split at h
  · right
    cases hd : parseDictHeader (strip r) with
    | error e => rw [hd] at h; cases h
    | ok d =>
      rw [hd] at h
      simp only [Except.ok.injEq] at h
      exact ⟨d, h.symm, parseDict_keys_nodup _ d hd⟩
  · next hne =>
    left
    simp only [Except.ok.injEq] at h
    refine ⟨h.symm, ?_⟩
    simp only [AuthTokenOk, Bool.and_eq_true, beq_iff_eq, Bool.not_eq_true']
    refine ⟨strip_strip r, ?_⟩
    simpa using hne

theorem authRest_type (scheme r : Str) (a : Auth) (h : authRest scheme (strip r) = .ok a) : a.type = scheme := by
  rcases authRest_image _ _ _ h with ⟨e, _⟩ | ⟨d, e, _⟩ <;> rw [e]

/-- the three shapes of `Authorization.from_header(h)` -/
theorem authorization_image (h : Str) (a : Auth) (hp : authorizationFromHeader h = .ok (some a)) :
    (∃ u p, ':' ∉ u ∧ a = ⟨"basic".toList, basicParams u p, none⟩) ∨
    (a.type ≠ "basic".toList ∧ ∃ tok, a = ⟨a.type, [], some tok⟩ ∧ AuthTokenOk tok = true) ∨
    (a.type ≠ "basic".toList ∧ a = ⟨a.type, a.params, none⟩ ∧ (a.params.map (·.1)).Nodup) := by
  unfold authorizationFromHeader at hp
  simp only [bind, Except.bind, pure, Except.pure] at hp
  split at hp
  · cases hp
  · generalize hpart : partition ' ' h = pr at hp
    obtain ⟨s, f, r⟩ := pr
    simp only at hp
    split at hp
    · next hb =>
      -- basic
      left
      split at hp
      · cases hp
      · next dec hdec =>
        cases dec with
        | none => simp at hp
        | some txt =>
          simp only [Except.ok.injEq, Option.some.injEq] at hp
          refine ⟨(partition ':' txt).1, (partition ':' txt).2.2, partition_fst_noSep ':' txt, ?_⟩
          rw [← hp]
          have : pyLower s = "basic".toList := by simpa using hb
          simp [basicParams, this]
    · next hnb =>
      right
      cases hr : authRest (pyLower s) (strip r) with
      | error e => rw [hr] at hp; cases hp
      | ok a' =>
        rw [hr] at hp
        simp only [Except.ok.injEq, Option.some.injEq] at hp
        subst hp
        have hty := authRest_type _ _ _ hr
        have hne : a'.type ≠ "basic".toList := by
          rw [hty]; intro e; exact hnb (by simp [e])
        rcases authRest_image _ _ _ hr with ⟨ha, htok⟩ | ⟨d, ha, hnd⟩
        · left; exact ⟨hne, strip r, by rw [ha], htok⟩
        · right; refine ⟨hne, ?_, ?_⟩ <;> rw [ha] <;> first | rfl | exact hnd

/-- **normal form on header text** for `Authorization`: whatever `from_header` returned is returned
again after `to_header`, provided a non-Basic scheme survives `title()` / `lower()` and the parameter
names are tokens without `*` with a first value present (Basic credentials need nothing) -/
theorem authorization_normal_form_any (h : Str) (a : Auth) (hp : authorizationFromHeader h = .ok (some a))
    (hs : a.type = "basic".toList ∨ SchemeOk a.type = true)
    (hps : a.token = none → a.type ≠ "basic".toList →
      ∃ x d, a.params = x :: d ∧ (∀ y ∈ x :: d, KeyOk y.1 = true) ∧ x.2.isSome = true) :
    (authorizationToHeader a >>= authorizationFromHeader) = .ok (some a) := by
  rcases authorization_image h a hp with ⟨u, p, hu, ha⟩ | ⟨hnb, tok, ha, htok⟩ | ⟨hnb, ha, hnd⟩
  · rw [ha]; exact basic_roundtrip_any u p hu
  · have hso : SchemeOk a.type = true := hs.resolve_left hnb
    rw [ha]; exact token_auth_roundtrip_any a.type tok hso htok
  · have hso : SchemeOk a.type = true := hs.resolve_left hnb
    have htn : a.token = none := by rw [ha]
    obtain ⟨x, d, hxd, hk, hv⟩ := hps htn hnb
    rw [ha, hxd]
    rw [hxd] at hnd
    exact param_auth_roundtrip_any a.type x d hso hk hnd hv

/-! ### WWW-Authenticate (no Basic special case: `Basic realm="x"` is a parameter scheme here) -/

/-- the scheme survives `title()` / `lower()` and its title has no space -/
def SchemeOkW (t : Str) : Bool := !(pyTitle t).contains ' ' && (pyLower (pyTitle t) == t)

theorem schemeOkW_of_schemeOk {t : Str} (h : SchemeOk t = true) : SchemeOkW t = true := by
  simp only [SchemeOk, Bool.and_eq_true] at h
  simp only [SchemeOkW, Bool.and_eq_true]
  exact h.1

theorem www_token_roundtrip_w (t tok : Str) (ht : SchemeOkW t = true) (htok : AuthTokenOk tok = true) :
    (wwwToHeader ⟨t, [], some tok⟩ >>= wwwFromHeader) = .ok (some ⟨t, [], some tok⟩) := by
  simp only [SchemeOkW, Bool.and_eq_true, Bool.not_eq_true', beq_iff_eq] at ht
  obtain ⟨hsp, hlow⟩ := ht
  have hsp' : ' ' ∉ pyTitle t := by simpa using hsp
  have hdump : wwwToHeader ⟨t, [], some tok⟩ = .ok (pyTitle t ++ ' ' :: tok) := by
    simp [wwwToHeader]
  rw [hdump]
  simp only [ok_bind]
  unfold wwwFromHeader
  have hne : (pyTitle t ++ ' ' :: tok).isEmpty = false := by cases pyTitle t <;> rfl
  have hstrip : strip tok = tok := by
    simp only [AuthTokenOk, Bool.and_eq_true, beq_iff_eq] at htok; exact htok.1
  simp only [hne, Bool.false_eq_true, if_false, partition_found hsp', hlow, hstrip,
    authRest_token t tok htok, ok_bind, pure_eq_ok]

theorem www_param_roundtrip_w (t : Str) (x : Str × Option Str) (d : Dict (Option Str))
    (ht : SchemeOkW t = true) (hnd' : (t == "digest".toList) = false)
    (hk : ∀ y ∈ x :: d, KeyOk y.1 = true)
    (hnd : ((x :: d).map (·.1)).Nodup) (hv : x.2.isSome = true) :
    (wwwToHeader ⟨t, x :: d, none⟩ >>= wwwFromHeader) = .ok (some ⟨t, x :: d, none⟩) := by
  simp only [SchemeOkW, Bool.and_eq_true, Bool.not_eq_true', beq_iff_eq] at ht
  obtain ⟨hsp, hlow⟩ := ht
  have hsp' : ' ' ∉ pyTitle t := by simpa using hsp
  have hdump : wwwToHeader ⟨t, x :: d, none⟩
      = .ok (pyTitle t ++ ' ' :: join ", " ((x :: d).map dictItemText)) := by
    unfold wwwToHeader
    simp only [hnd', Bool.false_eq_true, if_false, dumpHeaderDict_ok _ hk]
    rfl
  rw [hdump]
  simp only [ok_bind]
  unfold wwwFromHeader
  have hne : (pyTitle t ++ ' ' :: join ", " ((x :: d).map dictItemText)).isEmpty = false := by
    cases pyTitle t <;> rfl
  simp only [hne, Bool.false_eq_true, if_false, partition_found hsp', hlow,
    authRest_params t x d hk hnd hv, ok_bind, pure_eq_ok]

/-- the two shapes of `WWWAuthenticate.from_header(h)` -/
theorem www_image (h : Str) (a : Auth) (hp : wwwFromHeader h = .ok (some a)) :
    (∃ tok, a = ⟨a.type, [], some tok⟩ ∧ AuthTokenOk tok = true) ∨
    (a = ⟨a.type, a.params, none⟩ ∧ (a.params.map (·.1)).Nodup) := by
  unfold wwwFromHeader at hp
  simp only [bind, Except.bind, pure, Except.pure] at hp
  split at hp
  · cases hp
  · generalize hpart : partition ' ' h = pr at hp
    obtain ⟨s, f, r⟩ := pr
    simp only at hp
    cases hr : authRest (pyLower s) (strip r) with
    | error e => rw [hr] at hp; cases hp
    | ok a' =>
      rw [hr] at hp
      simp only [Except.ok.injEq, Option.some.injEq] at hp
      subst hp
      rcases authRest_image _ _ _ hr with ⟨ha, htok⟩ | ⟨d, ha, hnd⟩
      · left; exact ⟨strip r, by rw [ha], htok⟩
      · right; constructor <;> rw [ha] <;> first | rfl | exact hnd

/-- **normal form on header text** for `WWW-Authenticate` with a scheme other than `digest` (whose
dumper quotes differently; see `www_digest_roundtrip`) -/
theorem www_normal_form_any (h : Str) (a : Auth) (hp : wwwFromHeader h = .ok (some a))
    (hs : SchemeOkW a.type = true) (hnd' : (a.type == "digest".toList) = false)
    (hps : a.token = none → ∃ x d, a.params = x :: d ∧ (∀ y ∈ x :: d, KeyOk y.1 = true) ∧ x.2.isSome = true) :
    (wwwToHeader a >>= wwwFromHeader) = .ok (some a) := by
  rcases www_image h a hp with ⟨tok, ha, htok⟩ | ⟨ha, hnd⟩
  · rw [ha]; exact www_token_roundtrip_w a.type tok hs htok
  · have htn : a.token = none := by rw [ha]
    obtain ⟨x, d, hxd, hk, hv⟩ := hps htn
    rw [ha, hxd]
    rw [hxd] at hnd
    exact www_param_roundtrip_w a.type x d hs hnd' hk hnd hv

end Wz.Http
