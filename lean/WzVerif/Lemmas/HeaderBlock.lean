/-
The header block written by `MultipartEncoder` and `_parse_headers` / `BLANK_LINE_RE` (C02). Core only.
-/
import WzVerif.Lemmas.Multipart
namespace Wz.Multipart
open Wz

/-- lines joined by the line break (no trailing line break) -/
def joinNl (nl : Nl) : List Bytes → Bytes
  | [] => []
  | [l] => l
  | l :: l2 :: t => l ++ (nl.bytes ++ joinNl nl (l2 :: t))

/-- a header line as the encoder writes it: not empty, no CR / LF, no bytes-whitespace at either end -/
def LineOk (l : Bytes) : Prop :=
  l ≠ [] ∧ hasNl l = false ∧ isBytesSpace (l.headD 0) = false ∧ isBytesSpace (l.getLastD 0) = false

theorem joinNl_cons_cons (nl : Nl) (l l2 : Bytes) (t : List Bytes) :
    joinNl nl (l :: l2 :: t) = l ++ (nl.bytes ++ joinNl nl (l2 :: t)) := rfl

theorem joinNl_head (nl : Nl) {l : Bytes} (t : List Bytes) (h : l ≠ []) :
    ∃ x r, joinNl nl (l :: t) = x :: r ∧ x = l.headD 0 := by
  cases l with
  | nil => exact absurd rfl h
  | cons x l' =>
    cases t with
    | nil => exact ⟨x, l', rfl, rfl⟩
    | cons l2 t => exact ⟨x, l' ++ (nl.bytes ++ joinNl nl (l2 :: t)), rfl, rfl⟩

theorem not_nl_of_not_space {x : UInt8} (h : isBytesSpace x = false) : isNl x = false := by
  cases hn : isNl x with
  | false => rfl
  | true =>
    rcases isNl_iff.1 hn with h1 | h1 <;> subst h1 <;> simp [isBytesSpace] at h

/-! ### BLANK_LINE_RE finds the end of the block -/

theorem blankLen_not_nl {a : UInt8} (t : Bytes) (h : isNl a = false) : blankLen (a :: t) = 0 := by
  simp [isNl] at h
  have h1 : ((13 : UInt8) == a) = false := by simp; exact fun e => h.2 e.symm
  have h2 : ((10 : UInt8) == a) = false := by simp; exact fun e => h.1 e.symm
  simp [blankLen, List.isPrefixOf, h1, h2]

theorem searchBlank_append_no_nl (l rest : Bytes) (h : hasNl l = false) :
    searchBlank (l ++ rest) = shift2 l.length (searchBlank rest) := by
  induction l with
  | nil => simp
  | cons a t ih =>
    rw [hasNl_cons] at h; simp at h
    rw [List.cons_append, searchBlank_cons_zero (blankLen_not_nl _ h.1), ih h.2, shift2_shift2]
    simp

theorem searchBlank_sep (nl : Nl) {x : UInt8} (r : Bytes) (h : isNl x = false) :
    searchBlank (nl.bytes ++ x :: r) = shift2 nl.len (searchBlank (x :: r)) := by
  simp [isNl] at h
  have h1 : ((13 : UInt8) == x) = false := by simp; exact fun e => h.2 e.symm
  have h2 : ((10 : UInt8) == x) = false := by simp; exact fun e => h.1 e.symm
  cases nl with
  | crlf =>
    have b1 : blankLen (13 :: 10 :: x :: r) = 0 := by simp [blankLen, List.isPrefixOf, h1]
    have b2 : blankLen (10 :: x :: r) = 0 := by simp [blankLen, List.isPrefixOf, h2]
    show searchBlank (13 :: 10 :: x :: r) = _
    rw [searchBlank_cons_zero b1, searchBlank_cons_zero b2, shift2_shift2]; rfl
  | lf =>
    have b2 : blankLen (10 :: x :: r) = 0 := by simp [blankLen, List.isPrefixOf, h2]
    show searchBlank (10 :: x :: r) = _
    rw [searchBlank_cons_zero b2]; rfl
  | cr =>
    have b1 : blankLen (13 :: x :: r) = 0 := by simp [blankLen, List.isPrefixOf, h1, h2]
    show searchBlank (13 :: x :: r) = _
    rw [searchBlank_cons_zero b1]; rfl

theorem searchBlank_end (nl : Nl) (Z : Bytes) :
    searchBlank (nl.bytes ++ (nl.bytes ++ Z)) = some (0, 2 * nl.len) := by
  cases nl <;> simp [searchBlank, blankLen, List.isPrefixOf, Nl.bytes, Nl.len]

/-- the first blank line of `header lines NL NL …` is the one that ends the block -/
theorem searchBlank_block (nl : Nl) (lines : List Bytes) (Z : Bytes) (hne : lines ≠ [])
    (hok : ∀ l ∈ lines, LineOk l) :
    searchBlank (joinNl nl lines ++ (nl.bytes ++ (nl.bytes ++ Z))) =
      some ((joinNl nl lines).length, (joinNl nl lines).length + 2 * nl.len) := by
  induction lines with
  | nil => exact absurd rfl hne
  | cons l t ih =>
    have hl := hok l (by simp)
    cases t with
    | nil =>
      simp only [joinNl]
      rw [searchBlank_append_no_nl _ _ hl.2.1, searchBlank_end]; simp [shift2]; omega
    | cons l2 t =>
      have hl2 := hok l2 (by simp)
      rcases joinNl_head nl t hl2.1 with ⟨x, r, hx, hxe⟩
      have hxn : isNl x = false := by rw [hxe]; exact not_nl_of_not_space hl2.2.2.1
      rw [joinNl_cons_cons, List.append_assoc, searchBlank_append_no_nl _ _ hl.2.1, List.append_assoc]
      have ih' := ih (by simp) (fun y hy => hok y (by simp [hy]))
      rw [hx] at ih' ⊢
      rw [show (x :: r ++ (nl.bytes ++ (nl.bytes ++ Z)) : Bytes) = x :: (r ++ (nl.bytes ++ (nl.bytes ++ Z))) from rfl] at ih' ⊢
      rw [searchBlank_sep nl _ hxn, ih', shift2_shift2]
      simp [shift2, Nl.len]; omega

/-! ### HEADER_CONTINUATION_RE.sub leaves the block alone -/

theorem foldGo_no_nl (l rest : Bytes) (h : hasNl l = false) :
    foldContinuations.go 0 (l ++ rest) = l ++ foldContinuations.go 0 rest := by
  induction l with
  | nil => rfl
  | cons a t ih =>
    rw [hasNl_cons] at h; simp at h
    simp only [List.cons_append, foldContinuations.go, lbLen_cons_not_nl h.1]
    simp [ih h.2]

theorem foldGo_sep (nl : Nl) {x : UInt8} (r : Bytes) (h : isBytesSpace x = false) :
    foldContinuations.go 0 (nl.bytes ++ x :: r) = nl.bytes ++ foldContinuations.go 0 (x :: r) := by
  have h32 : x ≠ 32 := by intro e; subst e; simp [isBytesSpace] at h
  have h9 : x ≠ 9 := by intro e; subst e; simp [isBytesSpace] at h
  have h10 : x ≠ 10 := by intro e; subst e; simp [isBytesSpace] at h
  cases nl with
  | crlf => simp [Nl.bytes, foldContinuations.go, lbLen_crlf, lbLen_lf, h32, h9]
  | lf => simp [Nl.bytes, foldContinuations.go, lbLen_lf, h32, h9]
  | cr => simp [Nl.bytes, foldContinuations.go, lbLen_cr_not_lf r h10, h32, h9]

theorem fold_block (nl : Nl) (lines : List Bytes) (hok : ∀ l ∈ lines, LineOk l) :
    foldContinuations (joinNl nl lines) = joinNl nl lines := by
  unfold foldContinuations
  induction lines with
  | nil => rfl
  | cons l t ih =>
    have hl := hok l (by simp)
    cases t with
    | nil =>
      have := foldGo_no_nl l [] hl.2.1
      simpa [joinNl, foldContinuations.go] using this
    | cons l2 t =>
      have hl2 := hok l2 (by simp)
      rcases joinNl_head nl t hl2.1 with ⟨x, r, hx, hxe⟩
      have ih' := ih (fun y hy => hok y (by simp [hy]))
      rw [joinNl_cons_cons, foldGo_no_nl _ _ hl.2.1]
      rw [hx] at ih' ⊢
      rw [foldGo_sep nl r (by rw [hxe]; exact hl2.2.2.1), ih']

/-! ### bytes.splitlines gives the lines back -/

theorem splitGo_no_nl (l : Bytes) : ∀ (rest cur : Bytes) (b : Bool), hasNl l = false → l ≠ [] →
    splitLines.go (l ++ rest) cur b = splitLines.go rest (l.reverse ++ cur) false := by
  induction l with
  | nil => intro rest cur b _ h; exact absurd rfl h
  | cons a t ih =>
    intro rest cur b h _
    rw [hasNl_cons] at h; simp [isNl] at h
    have h10 : (a == 10) = false := by simp [h.1.1]
    have h13 : (a == 13) = false := by simp [h.1.2]
    simp only [List.cons_append, splitLines.go, h10, h13, Bool.false_eq_true, if_false]
    cases t with
    | nil => simp
    | cons a2 t2 =>
      rw [ih rest (a :: cur) false h.2 (by simp)]
      simp

theorem splitGo_sep (nl : Nl) (rest cur : Bytes) :
    ∃ b, splitLines.go (nl.bytes ++ rest) cur false = cur.reverse :: splitLines.go rest [] b := by
  cases nl with
  | crlf => exact ⟨false, by simp [Nl.bytes, splitLines.go]⟩
  | lf => exact ⟨false, by simp [Nl.bytes, splitLines.go]⟩
  | cr => exact ⟨true, by simp [Nl.bytes, splitLines.go]⟩

theorem split_block (nl : Nl) (lines : List Bytes) (hok : ∀ l ∈ lines, LineOk l) :
    splitLines (joinNl nl lines) = lines := by
  unfold splitLines
  suffices h : ∀ b, splitLines.go (joinNl nl lines) [] b = lines from h false
  induction lines with
  | nil => intro b; simp [joinNl, splitLines.go]
  | cons l t ih =>
    intro b
    have hl := hok l (by simp)
    cases t with
    | nil =>
      have := splitGo_no_nl l [] [] b hl.2.1 hl.1
      simp only [joinNl]
      rw [← List.append_nil l, this]
      simp [splitLines.go, hl.1]
    | cons l2 t =>
      have ih' := ih (fun y hy => hok y (by simp [hy]))
      rw [joinNl_cons_cons, splitGo_no_nl l _ [] b hl.2.1 hl.1]
      rcases splitGo_sep nl (joinNl nl (l2 :: t)) (l.reverse ++ []) with ⟨b', hb'⟩
      rw [hb', ih' b']
      simp

/-! ### strip leaves the lines alone -/

theorem dropWhile_head_false {p : UInt8 → Bool} {l : Bytes} (hne : l ≠ []) (h : p (l.headD 0) = false) :
    l.dropWhile p = l := by
  cases l with
  | nil => exact absurd rfl hne
  | cons a t => simp at h; simp [List.dropWhile, h]

theorem stripBytes_lineOk {l : Bytes} (h : LineOk l) : stripBytes l = l := by
  rcases h with ⟨hne, _, hh, hl⟩
  unfold stripBytes
  rw [dropWhile_head_false hne hh]
  have hr : l.reverse ≠ [] := by simpa using hne
  have hrh : isBytesSpace (l.reverse.headD 0) = false := by
    have : l.reverse.headD 0 = l.getLastD 0 := by
      rw [List.headD_eq_head?_getD, List.head?_reverse, List.getLastD_eq_getLast?]
    rw [this]; exact hl
  rw [dropWhile_head_false hr hrh]; simp

theorem strip_filter_block (lines : List Bytes) (hok : ∀ l ∈ lines, LineOk l) :
    (lines.map stripBytes).filter (fun l => !l.isEmpty) = lines := by
  induction lines with
  | nil => rfl
  | cons l t ih =>
    have hl := hok l (by simp)
    have hne : l.isEmpty = false := by
      cases l with
      | nil => exact absurd rfl hl.1
      | cons a t => rfl
    simp only [List.map_cons, stripBytes_lineOk hl, List.filter_cons, hne, Bool.not_false, if_true]
    rw [ih (fun y hy => hok y (by simp [hy]))]

end Wz.Multipart
