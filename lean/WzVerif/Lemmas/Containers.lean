/-
Helper lemmas for C08 (PyDict primitives, MultiDict vs the multimap model, HeaderSet invariant).
-/
import WzVerif.Model.Containers
namespace Wz

namespace PyDict
variable {κ α : Type} [DecidableEq κ]

def NodupKeys (d : Dict κ α) : Prop := (d.map (·.1)).Nodup

theorem lookup_set_self (d : Dict κ α) (k : κ) (x : α) : (set d k x).lookup k = some x := by
  induction d with
  | nil => simp [set, List.lookup]
  | cons e t ih =>
    obtain ⟨k', y⟩ := e
    by_cases h : k' = k
    · subst h; simp [set, List.lookup]
    · have h' : (k == k') = false := by simp [Ne.symm h]
      simp [set, h, List.lookup, h', ih]

theorem lookup_set_ne (d : Dict κ α) (k k' : κ) (x : α) (hne : k' ≠ k) :
    (set d k x).lookup k' = d.lookup k' := by
  induction d with
  | nil =>
    have : (k' == k) = false := by simp [hne]
    simp [set, List.lookup, this]
  | cons e t ih =>
    obtain ⟨k'', y⟩ := e
    by_cases h : k'' = k
    · subst h
      have : (k' == k'') = false := by simp [hne]
      simp [set, List.lookup, this]
    · simp only [set, h, if_false, List.lookup]
      split <;> simp_all

theorem keys_set (d : Dict κ α) (k : κ) (x : α) :
    keys (set d k x) = if k ∈ keys d then keys d else keys d ++ [k] := by
  induction d with
  | nil => simp [set, keys]
  | cons e t ih =>
    obtain ⟨k', y⟩ := e
    by_cases h : k' = k
    · subst h; simp [set, keys]
    · simp only [keys] at ih
      simp only [set, h, if_false, keys, List.map_cons, ih, List.mem_cons]
      have : ¬ k = k' := fun e => h e.symm
      by_cases hm : k ∈ List.map (fun x => x.1) t <;> simp [hm, this]

theorem mem_keys_iff_lookup (d : Dict κ α) (k : κ) : k ∈ keys d ↔ (d.lookup k).isSome := by
  induction d with
  | nil => simp [keys]
  | cons e t ih =>
    obtain ⟨k', y⟩ := e
    by_cases h : k = k'
    · subst h; simp [keys, List.lookup]
    · have : (k == k') = false := by simp [h]
      simp only [keys] at ih
      simp [keys, List.lookup, this, h, ih]

theorem has_iff (d : Dict κ α) (k : κ) : has d k = true ↔ k ∈ keys d := by
  simp [has, mem_keys_iff_lookup]

theorem set_of_not_mem (d : Dict κ α) (k : κ) (x : α) (h : k ∉ keys d) : set d k x = d ++ [(k, x)] := by
  induction d with
  | nil => simp [set]
  | cons e t ih =>
    obtain ⟨k', y⟩ := e
    simp only [keys, List.map_cons, List.mem_cons, not_or] at h
    have h1 : ¬ k' = k := fun e => h.1 e.symm
    simp only [set, h1, if_false, List.cons_append]
    rw [ih]; simpa [keys] using h.2

theorem set_of_mem (d : Dict κ α) (k : κ) (x : α) (hn : NodupKeys d) (h : k ∈ keys d) :
    set d k x = d.map (fun e => if e.1 = k then (e.1, x) else e) := by
  induction d with
  | nil => simp [keys] at h
  | cons e t ih =>
    obtain ⟨k', y⟩ := e
    simp only [NodupKeys, List.map_cons, List.nodup_cons] at hn
    by_cases h1 : k' = k
    · subst h1
      simp only [set, if_true, List.map_cons]
      congr 1
      have : t.map (fun e => if e.1 = k' then (e.1, x) else e) = t.map id := by
        apply List.map_congr_left
        intro e he
        have : e.1 ≠ k' := by
          intro heq; apply hn.1; rw [← heq]; exact List.mem_map_of_mem he
        simp [this]
      rw [this, List.map_id]
    · simp only [set, h1, if_false, List.map_cons]
      congr 1
      apply ih hn.2
      simp only [keys, List.map_cons, List.mem_cons] at h
      rcases h with h | h
      · exact absurd h.symm h1
      · exact h

theorem erase_eq_filter (d : Dict κ α) (k : κ) (hn : NodupKeys d) :
    erase d k = d.filter (fun e => !(e.1 == k)) := by
  induction d with
  | nil => simp [erase]
  | cons e t ih =>
    obtain ⟨k', y⟩ := e
    simp only [NodupKeys, List.map_cons, List.nodup_cons] at hn
    by_cases h1 : k' = k
    · subst h1
      simp only [erase, if_true]
      rw [List.filter_cons]
      simp only [beq_self_eq_true, Bool.not_true, Bool.false_eq_true, if_false]
      symm
      rw [List.filter_eq_self]
      intro e he
      have : e.1 ≠ k' := by
        intro heq; apply hn.1; rw [← heq]; exact List.mem_map_of_mem he
      simp [this]
    · simp only [erase, h1, if_false]
      rw [List.filter_cons]
      simp [h1, ih hn.2]

theorem nodupKeys_set (d : Dict κ α) (k : κ) (x : α) (hn : NodupKeys d) : NodupKeys (set d k x) := by
  have := keys_set d k x
  simp only [keys] at this
  unfold NodupKeys
  rw [this]
  by_cases h : k ∈ List.map (fun x => x.1) d
  · simp only [h, ↓reduceIte]; exact hn
  · simp only [h, ↓reduceIte]
    rw [List.nodup_append]
    refine ⟨hn, by simp, ?_⟩
    intro a ha b hb
    simp at hb; subst hb
    intro e; subst e; exact h ha

omit [DecidableEq κ] in
theorem nodupKeys_filter (d : Dict κ α) (p : κ × α → Bool) (hn : NodupKeys d) : NodupKeys (d.filter p) := by
  unfold NodupKeys at *
  exact List.Nodup.sublist (List.Sublist.map _ List.filter_sublist) hn

end PyDict
end Wz

namespace Wz
namespace MDLemmas
open PyDict MD MDSpec
variable {κ ν : Type} [DecidableEq κ]

theorem wf_nodup {m : MultiMap κ ν} (h : WF m) : NodupKeys m := h.1

theorem hasKey_eq (m : MultiMap κ ν) (k : κ) : hasKey m k = has m k := by
  have h1 := has_iff m k
  unfold hasKey
  by_cases h : k ∈ keys m
  · have : has m k = true := h1.2 h
    simp only [keys] at h
    simp [this, h]
  · have : has m k = false := by
      cases hh : has m k with
      | false => rfl
      | true => exact absurd (h1.1 hh) h
    simp only [keys] at h
    simp [this, h]

theorem filter_key_of_not_mem (m : MultiMap κ ν) (k : κ) (h : k ∉ keys m) :
    m.filter (fun e => e.1 == k) = [] := by
  rw [List.filter_eq_nil_iff]
  intro e he
  simp only [beq_iff_eq]
  intro heq
  apply h
  rw [← heq]
  exact List.mem_map_of_mem (f := fun x => x.1) he

theorem valuesOf_eq (m : MultiMap κ ν) (hn : NodupKeys m) (k : κ) :
    valuesOf m k = (m.lookup k).getD [] := by
  induction m with
  | nil => simp [valuesOf]
  | cons e t ih =>
    obtain ⟨k', vs⟩ := e
    simp only [NodupKeys, List.map_cons, List.nodup_cons] at hn
    by_cases h : k' = k
    · subst h
      have hf := filter_key_of_not_mem t k' (by simpa [keys] using hn.1)
      simp [valuesOf, List.filter_cons, hf, List.lookup]
    · have hb : (k == k') = false := by simp [Ne.symm h]
      have ih' := ih hn.2
      simp only [valuesOf] at ih'
      simp [valuesOf, List.filter_cons, h, List.lookup, hb, ih']

theorem remove_eq_erase (m : MultiMap κ ν) (hn : NodupKeys m) (k : κ) : remove m k = erase m k :=
  (erase_eq_filter m k hn).symm

theorem put_eq_set (m : MultiMap κ ν) (hn : NodupKeys m) (k : κ) (vs : List ν) : put m k vs = PyDict.set m k vs := by
  unfold put
  rw [hasKey_eq]
  by_cases h : has m k = true
  · simp only [h, if_true]
    exact (set_of_mem m k vs hn ((has_iff m k).1 h)).symm
  · simp only [h]
    have : k ∉ keys m := fun hm => h ((has_iff m k).2 hm)
    exact (set_of_not_mem m k vs this).symm

theorem add_eq (m : MultiMap κ ν) (hn : NodupKeys m) (k : κ) (v : ν) : MDSpec.add m k v = MD.add m k v := by
  unfold MDSpec.add MD.add get?
  rw [put_eq_set m hn, valuesOf_eq m hn]
  cases m.lookup k <;> simp

theorem nodup_add (m : MultiMap κ ν) (hn : NodupKeys m) (k : κ) (v : ν) : NodupKeys (MD.add m k v) := by
  unfold MD.add
  split <;> exact nodupKeys_set _ _ _ hn

theorem addAll_eq (m : MultiMap κ ν) (hn : NodupKeys m) (l : List (κ × ν)) :
    MDSpec.addAll m l = MD.addAll m l := by
  induction l generalizing m with
  | nil => rfl
  | cons p t ih =>
    obtain ⟨k, v⟩ := p
    simp only [MDSpec.addAll, MD.addAll]
    rw [add_eq m hn]
    exact ih _ (nodup_add m hn k v)

/-! well-formedness is preserved by the primitives -/

theorem mem_set {m : MultiMap κ ν} {k : κ} {vs : List ν} {e : κ × List ν} (h : e ∈ PyDict.set m k vs) :
    e ∈ m ∨ e.2 = vs := by
  induction m with
  | nil => simp [PyDict.set] at h; right; rw [h]
  | cons e' t ih =>
    obtain ⟨k', y⟩ := e'
    by_cases h1 : k' = k
    · simp only [PyDict.set, h1, if_true, List.mem_cons] at h
      rcases h with h | h
      · right; rw [h]
      · left; exact List.mem_cons_of_mem _ h
    · simp only [PyDict.set, h1, if_false, List.mem_cons] at h
      rcases h with h | h
      · left; rw [h]; exact List.mem_cons_self
      · rcases ih h with h | h
        · left; exact List.mem_cons_of_mem _ h
        · right; exact h

theorem wf_set {m : MultiMap κ ν} (h : WF m) (k : κ) {vs : List ν} (hv : vs ≠ []) : WF (PyDict.set m k vs) := by
  refine ⟨nodupKeys_set m k vs h.1, ?_⟩
  intro e he
  rcases mem_set he with h1 | h1
  · exact h.2 e h1
  · rw [h1]; exact hv

theorem wf_filter {m : MultiMap κ ν} (h : WF m) (p : κ × List ν → Bool) : WF (m.filter p) :=
  ⟨nodupKeys_filter m p h.1, fun e he => h.2 e (List.mem_filter.1 he).1⟩

theorem wf_erase {m : MultiMap κ ν} (h : WF m) (k : κ) : WF (erase m k) := by
  rw [erase_eq_filter m k h.1]; exact wf_filter h _

theorem wf_dropLast {m : MultiMap κ ν} (h : WF m) : WF m.dropLast := by
  refine ⟨?_, fun e he => h.2 e (List.dropLast_subset m he)⟩
  have : (m.dropLast).map (·.1) = (m.map (·.1)).dropLast := by simp [List.map_dropLast]
  rw [this]
  exact List.Nodup.sublist (List.dropLast_sublist _) h.1

theorem wf_add {m : MultiMap κ ν} (h : WF m) (k : κ) (v : ν) : WF (MD.add m k v) := by
  unfold MD.add
  split <;> exact wf_set h k (by simp)

theorem wf_addAll {m : MultiMap κ ν} (h : WF m) (l : List (κ × ν)) : WF (MD.addAll m l) := by
  induction l generalizing m with
  | nil => exact h
  | cons p t ih => obtain ⟨k, v⟩ := p; exact ih (wf_add h k v)

theorem lookup_ne_nil {m : MultiMap κ ν} (h : WF m) {k : κ} {vs : List ν} (hl : m.lookup k = some vs) : vs ≠ [] := by
  have : (k, vs) ∈ m := by
    induction m with
    | nil => simp [List.lookup] at hl
    | cons e t ih =>
      obtain ⟨k', y⟩ := e
      by_cases hk : k = k'
      · subst hk; simp [List.lookup] at hl; subst hl; exact List.mem_cons_self
      · have hb : (k == k') = false := by simp [hk]
        simp only [List.lookup, hb] at hl
        have hwf : WF t := ⟨(List.nodup_cons.1 h.1).2, fun e he => h.2 e (List.mem_cons_of_mem _ he)⟩
        exact List.mem_cons_of_mem _ (ih hwf hl)
  exact h.2 _ this

end MDLemmas
end Wz
