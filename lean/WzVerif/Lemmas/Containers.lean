/-
Helper lemmas for C08 (PyDict primitives, MultiDict vs the multimap model, HeaderSet invariant).
-/
import WzVerif.Model.Containers
namespace Wz

namespace PyDict
variable {κ α : Type} [DecidableEq κ]

def NodupKeys (d : Dict κ α) : Prop := (d.map (·.1)).Nodup

theorem lookup_set_self (d : Dict κ α) (k : κ) (x : α) : (set d k x).lookup k = some x := by
  induction d with
  | nil => simp [set, List.lookup]
  | cons e t ih =>
    obtain ⟨k', y⟩ := e
    by_cases h : k' = k
    · subst h; simp [set, List.lookup]
    · have h' : (k == k') = false := by simp [Ne.symm h]
      simp [set, h, List.lookup, h', ih]

theorem lookup_set_ne (d : Dict κ α) (k k' : κ) (x : α) (hne : k' ≠ k) :
    (set d k x).lookup k' = d.lookup k' := by
  induction d with
  | nil =>
    have : (k' == k) = false := by simp [hne]
    simp [set, List.lookup, this]
  | cons e t ih =>
    obtain ⟨k'', y⟩ := e
    by_cases h : k'' = k
    · subst h
      have : (k' == k'') = false := by simp [hne]
      simp [set, List.lookup, this]
    · simp only [set, h, if_false, List.lookup]
      split <;> simp_all

theorem keys_set (d : Dict κ α) (k : κ) (x : α) :
    keys (set d k x) = if k ∈ keys d then keys d else keys d ++ [k] := by
  induction d with
  | nil => simp [set, keys]
  | cons e t ih =>
    obtain ⟨k', y⟩ := e
    by_cases h : k' = k
    · subst h; simp [set, keys]
    · simp only [keys] at ih
      simp only [set, h, if_false, keys, List.map_cons, ih, List.mem_cons]
      have : ¬ k = k' := fun e => h e.symm
      by_cases hm : k ∈ List.map (fun x => x.1) t <;> simp [hm, this]

theorem mem_keys_iff_lookup (d : Dict κ α) (k : κ) : k ∈ keys d ↔ (d.lookup k).isSome := by
  induction d with
  | nil => simp [keys]
  | cons e t ih =>
    obtain ⟨k', y⟩ := e
    by_cases h : k = k'
    · subst h; simp [keys, List.lookup]
    · have : (k == k') = false := by simp [h]
      simp only [keys] at ih
      simp [keys, List.lookup, this, h, ih]

theorem has_iff (d : Dict κ α) (k : κ) : has d k = true ↔ k ∈ keys d := by
  simp [has, mem_keys_iff_lookup]

theorem set_of_not_mem (d : Dict κ α) (k : κ) (x : α) (h : k ∉ keys d) : set d k x = d ++ [(k, x)] := by
  induction d with
  | nil => simp [set]
  | cons e t ih =>
    obtain ⟨k', y⟩ := e
    simp only [keys, List.map_cons, List.mem_cons, not_or] at h
    have h1 : ¬ k' = k := fun e => h.1 e.symm
    simp only [set, h1, if_false, List.cons_append]
    rw [ih]; simpa [keys] using h.2

theorem set_of_mem (d : Dict κ α) (k : κ) (x : α) (hn : NodupKeys d) (h : k ∈ keys d) :
    set d k x = d.map (fun e => if e.1 = k then (e.1, x) else e) := by
  induction d with
  | nil => simp [keys] at h
  | cons e t ih =>
    obtain ⟨k', y⟩ := e
    simp only [NodupKeys, List.map_cons, List.nodup_cons] at hn
    by_cases h1 : k' = k
    · subst h1
      simp only [set, if_true, List.map_cons]
      congr 1
      have : t.map (fun e => if e.1 = k' then (e.1, x) else e) = t.map id := by
        apply List.map_congr_left
        intro e he
        have : e.1 ≠ k' := by
          intro heq; apply hn.1; rw [← heq]; exact List.mem_map_of_mem he
        simp [this]
      rw [this, List.map_id]
    · simp only [set, h1, if_false, List.map_cons]
      congr 1
      apply ih hn.2
      simp only [keys, List.map_cons, List.mem_cons] at h
      rcases h with h | h
      · exact absurd h.symm h1
      · exact h

theorem erase_eq_filter (d : Dict κ α) (k : κ) (hn : NodupKeys d) :
    erase d k = d.filter (fun e => !(e.1 == k)) := by
  induction d with
  | nil => simp [erase]
  | cons e t ih =>
    obtain ⟨k', y⟩ := e
    simp only [NodupKeys, List.map_cons, List.nodup_cons] at hn
    by_cases h1 : k' = k
    · subst h1
      simp only [erase, if_true]
      rw [List.filter_cons]
      simp only [beq_self_eq_true, Bool.not_true, Bool.false_eq_true, if_false]
      symm
      rw [List.filter_eq_self]
      intro e he
      have : e.1 ≠ k' := by
        intro heq; apply hn.1; rw [← heq]; exact List.mem_map_of_mem he
      simp [this]
    · simp only [erase, h1, if_false]
      rw [List.filter_cons]
      simp [h1, ih hn.2]

theorem nodupKeys_set (d : Dict κ α) (k : κ) (x : α) (hn : NodupKeys d) : NodupKeys (set d k x) := by
  have := keys_set d k x
  simp only [keys] at this
  unfold NodupKeys
  rw [this]
  by_cases h : k ∈ List.map (fun x => x.1) d
  · simp only [h, ↓reduceIte]; exact hn
  · simp only [h, ↓reduceIte]
    rw [List.nodup_append]
    refine ⟨hn, by simp, ?_⟩
    intro a ha b hb
    simp at hb; subst hb
    intro e; subst e; exact h ha

omit [DecidableEq κ] in
theorem nodupKeys_filter (d : Dict κ α) (p : κ × α → Bool) (hn : NodupKeys d) : NodupKeys (d.filter p) := by
  unfold NodupKeys at *
  exact List.Nodup.sublist (List.Sublist.map _ List.filter_sublist) hn

end PyDict
end Wz
