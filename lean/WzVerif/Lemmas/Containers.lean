/-
Helper lemmas for C08 (PyDict primitives, MultiDict vs the multimap model, HeaderSet invariant).
-/
import WzVerif.Model.Containers
namespace Wz

namespace PyDict
variable {κ α : Type} [DecidableEq κ]

def NodupKeys (d : Dict κ α) : Prop := (d.map (·.1)).Nodup

theorem lookup_set_self (d : Dict κ α) (k : κ) (x : α) : (set d k x).lookup k = some x := by
  induction d with
  | nil => simp [set, List.lookup]
  | cons e t ih =>
    obtain ⟨k', y⟩ := e
    by_cases h : k' = k
    · subst h; simp [set, List.lookup]
    · have h' : (k == k') = false := by simp [Ne.symm h]
      simp [set, h, List.lookup, h', ih]

theorem lookup_set_ne (d : Dict κ α) (k k' : κ) (x : α) (hne : k' ≠ k) :
    (set d k x).lookup k' = d.lookup k' := by
  induction d with
  | nil =>
    have : (k' == k) = false := by simp [hne]
    simp [set, List.lookup, this]
  | cons e t ih =>
    obtain ⟨k'', y⟩ := e
    by_cases h : k'' = k
    · subst h
      have : (k' == k'') = false := by simp [hne]
      simp [set, List.lookup, this]
    · simp only [set, h, if_false, List.lookup]
      split <;> simp_all

theorem keys_set (d : Dict κ α) (k : κ) (x : α) :
    keys (set d k x) = if k ∈ keys d then keys d else keys d ++ [k] := by
  induction d with
  | nil => simp [set, keys]
  | cons e t ih =>
    obtain ⟨k', y⟩ := e
    by_cases h : k' = k
    · subst h; simp [set, keys]
    · simp only [keys] at ih
      simp only [set, h, if_false, keys, List.map_cons, ih, List.mem_cons]
      have : ¬ k = k' := fun e => h e.symm
      by_cases hm : k ∈ List.map (fun x => x.1) t <;> simp [hm, this]

theorem mem_keys_iff_lookup (d : Dict κ α) (k : κ) : k ∈ keys d ↔ (d.lookup k).isSome := by
  induction d with
  | nil => simp [keys]
  | cons e t ih =>
    obtain ⟨k', y⟩ := e
    by_cases h : k = k'
    · subst h; simp [keys, List.lookup]
    · have : (k == k') = false := by simp [h]
      simp only [keys] at ih
      simp [keys, List.lookup, this, h, ih]

theorem has_iff (d : Dict κ α) (k : κ) : has d k = true ↔ k ∈ keys d := by
  simp [has, mem_keys_iff_lookup]

theorem set_of_not_mem (d : Dict κ α) (k : κ) (x : α) (h : k ∉ keys d) : set d k x = d ++ [(k, x)] := by
  induction d with
  | nil => simp [set]
  | cons e t ih =>
    obtain ⟨k', y⟩ := e
    simp only [keys, List.map_cons, List.mem_cons, not_or] at h
    have h1 : ¬ k' = k := fun e => h.1 e.symm
    simp only [set, h1, if_false, List.cons_append]
    rw [ih]; simpa [keys] using h.2

theorem set_of_mem (d : Dict κ α) (k : κ) (x : α) (hn : NodupKeys d) (h : k ∈ keys d) :
    set d k x = d.map (fun e => if e.1 = k then (e.1, x) else e) := by
  induction d with
  | nil => simp [keys] at h
  | cons e t ih =>
    obtain ⟨k', y⟩ := e
    simp only [NodupKeys, List.map_cons, List.nodup_cons] at hn
    by_cases h1 : k' = k
    · subst h1
      simp only [set, if_true, List.map_cons]
      congr 1
      have : t.map (fun e => if e.1 = k' then (e.1, x) else e) = t.map id := by
        apply List.map_congr_left
        intro e he
        have : e.1 ≠ k' := by
          intro heq; apply hn.1; rw [← heq]; exact List.mem_map_of_mem he
        simp [this]
      rw [this, List.map_id]
    · simp only [set, h1, if_false, List.map_cons]
      congr 1
      apply ih hn.2
      simp only [keys, List.map_cons, List.mem_cons] at h
      rcases h with h | h
      · exact absurd h.symm h1
      · exact h

theorem erase_eq_filter (d : Dict κ α) (k : κ) (hn : NodupKeys d) :
    erase d k = d.filter (fun e => !(e.1 == k)) := by
  induction d with
  | nil => simp [erase]
  | cons e t ih =>
    obtain ⟨k', y⟩ := e
    simp only [NodupKeys, List.map_cons, List.nodup_cons] at hn
    by_cases h1 : k' = k
    · subst h1
      simp only [erase, if_true]
      rw [List.filter_cons]
      simp only [beq_self_eq_true, Bool.not_true, Bool.false_eq_true, if_false]
      symm
      rw [List.filter_eq_self]
      intro e he
      have : e.1 ≠ k' := by
        intro heq; apply hn.1; rw [← heq]; exact List.mem_map_of_mem he
      simp [this]
    · simp only [erase, h1, if_false]
      rw [List.filter_cons]
      simp [h1, ih hn.2]

theorem nodupKeys_set (d : Dict κ α) (k : κ) (x : α) (hn : NodupKeys d) : NodupKeys (set d k x) := by
  have := keys_set d k x
  simp only [keys] at this
  unfold NodupKeys
  rw [this]
  by_cases h : k ∈ List.map (fun x => x.1) d
  · simp only [h, ↓reduceIte]; exact hn
  · simp only [h, ↓reduceIte]
    rw [List.nodup_append]
    refine ⟨hn, by simp, ?_⟩
    intro a ha b hb
    simp at hb; subst hb
    intro e; subst e; exact h ha

omit [DecidableEq κ] in
theorem nodupKeys_filter (d : Dict κ α) (p : κ × α → Bool) (hn : NodupKeys d) : NodupKeys (d.filter p) := by
  unfold NodupKeys at *
  exact List.Nodup.sublist (List.Sublist.map _ List.filter_sublist) hn

end PyDict
end Wz

namespace Wz
namespace MDLemmas
open PyDict MD MDSpec
variable {κ ν : Type} [DecidableEq κ]

theorem wf_nodup {m : MultiMap κ ν} (h : WF m) : NodupKeys m := h.1

theorem hasKey_eq (m : MultiMap κ ν) (k : κ) : hasKey m k = has m k := by
  have h1 := has_iff m k
  unfold hasKey
  by_cases h : k ∈ keys m
  · have : has m k = true := h1.2 h
    simp only [keys] at h
    simp [this, h]
  · have : has m k = false := by
      cases hh : has m k with
      | false => rfl
      | true => exact absurd (h1.1 hh) h
    simp only [keys] at h
    simp [this, h]

theorem filter_key_of_not_mem (m : MultiMap κ ν) (k : κ) (h : k ∉ keys m) :
    m.filter (fun e => e.1 == k) = [] := by
  rw [List.filter_eq_nil_iff]
  intro e he
  simp only [beq_iff_eq]
  intro heq
  apply h
  rw [← heq]
  exact List.mem_map_of_mem (f := fun x => x.1) he

theorem valuesOf_eq (m : MultiMap κ ν) (hn : NodupKeys m) (k : κ) :
    valuesOf m k = (m.lookup k).getD [] := by
  induction m with
  | nil => simp [valuesOf]
  | cons e t ih =>
    obtain ⟨k', vs⟩ := e
    simp only [NodupKeys, List.map_cons, List.nodup_cons] at hn
    by_cases h : k' = k
    · subst h
      have hf := filter_key_of_not_mem t k' (by simpa [keys] using hn.1)
      simp [valuesOf, List.filter_cons, hf, List.lookup]
    · have hb : (k == k') = false := by simp [Ne.symm h]
      have ih' := ih hn.2
      simp only [valuesOf] at ih'
      simp [valuesOf, List.filter_cons, h, List.lookup, hb, ih']

theorem remove_eq_erase (m : MultiMap κ ν) (hn : NodupKeys m) (k : κ) : remove m k = erase m k :=
  (erase_eq_filter m k hn).symm

theorem put_eq_set (m : MultiMap κ ν) (hn : NodupKeys m) (k : κ) (vs : List ν) : put m k vs = PyDict.set m k vs := by
  unfold put
  rw [hasKey_eq]
  by_cases h : has m k = true
  · simp only [h, if_true]
    exact (set_of_mem m k vs hn ((has_iff m k).1 h)).symm
  · simp only [h]
    have : k ∉ keys m := fun hm => h ((has_iff m k).2 hm)
    exact (set_of_not_mem m k vs this).symm

theorem add_eq (m : MultiMap κ ν) (hn : NodupKeys m) (k : κ) (v : ν) : MDSpec.add m k v = MD.add m k v := by
  unfold MDSpec.add MD.add get?
  rw [put_eq_set m hn, valuesOf_eq m hn]
  cases m.lookup k <;> simp

theorem nodup_add (m : MultiMap κ ν) (hn : NodupKeys m) (k : κ) (v : ν) : NodupKeys (MD.add m k v) := by
  unfold MD.add
  split <;> exact nodupKeys_set _ _ _ hn

theorem addAll_eq (m : MultiMap κ ν) (hn : NodupKeys m) (l : List (κ × ν)) :
    MDSpec.addAll m l = MD.addAll m l := by
  induction l generalizing m with
  | nil => rfl
  | cons p t ih =>
    obtain ⟨k, v⟩ := p
    simp only [MDSpec.addAll, MD.addAll]
    rw [add_eq m hn]
    exact ih _ (nodup_add m hn k v)

/-! well-formedness is preserved by the primitives -/

theorem mem_set {m : MultiMap κ ν} {k : κ} {vs : List ν} {e : κ × List ν} (h : e ∈ PyDict.set m k vs) :
    e ∈ m ∨ e.2 = vs := by
  induction m with
  | nil => simp [PyDict.set] at h; right; rw [h]
  | cons e' t ih =>
    obtain ⟨k', y⟩ := e'
    by_cases h1 : k' = k
    · simp only [PyDict.set, h1, if_true, List.mem_cons] at h
      rcases h with h | h
      · right; rw [h]
      · left; exact List.mem_cons_of_mem _ h
    · simp only [PyDict.set, h1, if_false, List.mem_cons] at h
      rcases h with h | h
      · left; rw [h]; exact List.mem_cons_self
      · rcases ih h with h | h
        · left; exact List.mem_cons_of_mem _ h
        · right; exact h

theorem wf_set {m : MultiMap κ ν} (h : WF m) (k : κ) {vs : List ν} (hv : vs ≠ []) : WF (PyDict.set m k vs) := by
  refine ⟨nodupKeys_set m k vs h.1, ?_⟩
  intro e he
  rcases mem_set he with h1 | h1
  · exact h.2 e h1
  · rw [h1]; exact hv

theorem wf_filter {m : MultiMap κ ν} (h : WF m) (p : κ × List ν → Bool) : WF (m.filter p) :=
  ⟨nodupKeys_filter m p h.1, fun e he => h.2 e (List.mem_filter.1 he).1⟩

theorem wf_erase {m : MultiMap κ ν} (h : WF m) (k : κ) : WF (erase m k) := by
  rw [erase_eq_filter m k h.1]; exact wf_filter h _

theorem wf_dropLast {m : MultiMap κ ν} (h : WF m) : WF m.dropLast := by
  refine ⟨?_, fun e he => h.2 e (List.dropLast_subset m he)⟩
  have : (m.dropLast).map (·.1) = (m.map (·.1)).dropLast := by simp [List.map_dropLast]
  rw [this]
  exact List.Nodup.sublist (List.dropLast_sublist _) h.1

theorem wf_add {m : MultiMap κ ν} (h : WF m) (k : κ) (v : ν) : WF (MD.add m k v) := by
  unfold MD.add
  split <;> exact wf_set h k (by simp)

theorem wf_addAll {m : MultiMap κ ν} (h : WF m) (l : List (κ × ν)) : WF (MD.addAll m l) := by
  induction l generalizing m with
  | nil => exact h
  | cons p t ih => obtain ⟨k, v⟩ := p; exact ih (wf_add h k v)

theorem lookup_ne_nil {m : MultiMap κ ν} (h : WF m) {k : κ} {vs : List ν} (hl : m.lookup k = some vs) : vs ≠ [] := by
  have : (k, vs) ∈ m := by
    induction m with
    | nil => simp [List.lookup] at hl
    | cons e t ih =>
      obtain ⟨k', y⟩ := e
      by_cases hk : k = k'
      · subst hk; simp [List.lookup] at hl; subst hl; exact List.mem_cons_self
      · have hb : (k == k') = false := by simp [hk]
        simp only [List.lookup, hb] at hl
        have hwf : WF t := ⟨(List.nodup_cons.1 h.1).2, fun e he => h.2 e (List.mem_cons_of_mem _ he)⟩
        exact List.mem_cons_of_mem _ (ih hwf hl)
  exact h.2 _ this

end MDLemmas
end Wz

namespace Wz
namespace HSLemmas
open Hdr HS

theorem length_eq_of_nodup_mem_iff {α : Type} [DecidableEq α] :
    ∀ (a b : List α), a.Nodup → b.Nodup → (∀ x, x ∈ a ↔ x ∈ b) → a.length = b.length
  | [], b, _, _, h => by
    cases b with
    | nil => rfl
    | cons y t => exact absurd ((h y).2 List.mem_cons_self) (by simp)
  | x :: a, b, ha, hb, h => by
    have hx : x ∈ b := (h x).1 List.mem_cons_self
    have hxa : x ∉ a := (List.nodup_cons.1 ha).1
    have ih := length_eq_of_nodup_mem_iff a (b.erase x) (List.nodup_cons.1 ha).2 (hb.erase x) (by
      intro y
      rw [hb.mem_erase_iff]
      constructor
      · intro hy
        exact ⟨fun e => hxa (e ▸ hy), (h y).1 (List.mem_cons_of_mem _ hy)⟩
      · intro ⟨hne, hy⟩
        rcases List.mem_cons.1 ((h y).2 hy) with e | e
        · exact absurd e hne
        · exact e)
    rw [List.length_erase_of_mem hx] at ih
    have : 0 < b.length := List.length_pos_of_mem hx
    simp only [List.length_cons]; omega

theorem map_lower_dropFirst (key : Str) (hs : List Str) :
    (dropFirst key hs).map lower = (hs.map lower).erase key := by
  induction hs with
  | nil => rfl
  | cons h t ih =>
    simp only [dropFirst, List.map_cons, List.erase_cons]
    by_cases hk : (lower h == key) = true
    · simp [hk]
    · simp [hk, ih]

theorem dropFirst_eq_filter (key : Str) (hs : List Str) (hn : (hs.map lower).Nodup) :
    dropFirst key hs = hs.filter (fun x => !(lower x == key)) := by
  induction hs with
  | nil => rfl
  | cons h t ih =>
    simp only [List.map_cons, List.nodup_cons] at hn
    simp only [dropFirst, List.filter_cons]
    by_cases hk : (lower h == key) = true
    · simp only [hk, if_true, Bool.not_true, Bool.false_eq_true, if_false]
      symm
      rw [List.filter_eq_self]
      intro x hx
      have : lower x ≠ key := by
        intro e
        apply hn.1
        rw [beq_iff_eq] at hk
        rw [hk, ← e]
        exact List.mem_map_of_mem hx
      simp [this]
    · simp [hk, ih hn.2]

theorem split_at {α : Type} (l : List α) (n : Nat) (h : n < l.length) :
    l = l.take n ++ l[n] :: l.drop (n + 1) := by
  rw [← List.drop_eq_getElem_cons h, List.take_append_drop]

theorem mem_setAdd (s : List Str) (x y : Str) : y ∈ setAdd s x ↔ y ∈ s ∨ y = x := by
  unfold setAdd
  by_cases h : x ∈ s
  · have hc : s.contains x = true := by simpa using h
    simp only [hc, if_true]
    constructor
    · exact Or.inl
    · rintro (h1 | h1)
      · exact h1
      · subst h1; exact h
  · have hc : s.contains x = false := by simpa using h
    simp only [hc, Bool.false_eq_true, if_false, List.mem_append, List.mem_singleton]

theorem nodup_setAdd (s : List Str) (x : Str) (h : s.Nodup) : (setAdd s x).Nodup := by
  unfold setAdd
  by_cases hm : x ∈ s
  · have hc : s.contains x = true := by simpa using hm
    simp only [hc, if_true]; exact h
  · have hc : s.contains x = false := by simpa using hm
    simp only [hc, Bool.false_eq_true, if_false]
    rw [List.nodup_append]
    refine ⟨h, by simp, ?_⟩
    intro a ha b hb
    simp at hb; subst hb
    intro e; subst e
    exact hm ha

end HSLemmas
end Wz

/-! ### MultiDict refines the multimap model -/
namespace Wz.C08L
open Wz PyDict MD MDSpec MDLemmas
variable {κ ν : Type} [DecidableEq κ]


/-- the operations of a history that stay inside the multimap model: everything except giving a
key an empty value list (`setlist(k, [])`, `setlistdefault(k)` on a missing key) - F08d -/
def okOp (c : MD.St κ ν) : MD.Op κ ν → Bool
  | .setlist _ vs => !vs.isEmpty
  | .setlistdefault k vs => has c k || !vs.isEmpty
  | _ => true

theorem first?_eq (m : MultiMap κ ν) (h : WF m) (k : κ) :
    first? m k = match m.lookup k with | some (v :: _) => some v | _ => none := by
  unfold first?
  rw [valuesOf_eq m h.1]
  cases hl : m.lookup k with
  | none => simp
  | some vs =>
    cases vs with
    | nil => exact absurd rfl (lookup_ne_nil h hl)
    | cons v t => simp

theorem md_step_refines (c : MD.St κ ν) (h : WF c) (op : MD.Op κ ν) (hop : okOp c op = true) :
    MD.step c op = MDSpec.step c op := by
  have hn := h.1
  cases op with
  | setitem k v => simp [MD.step, MDSpec.step, put_eq_set c hn]
  | delitem k => simp [MD.step, MDSpec.step, hasKey_eq, remove_eq_erase c hn]
  | add k v => simp [MD.step, MDSpec.step, add_eq c hn]
  | setlist k vs =>
    simp only [okOp, Bool.not_eq_true'] at hop
    simp [MD.step, MDSpec.step, hop, put_eq_set c hn]
  | setdefault k v =>
    simp only [MD.step, MDSpec.step]
    rw [first?_eq c h]
    cases hl : c.lookup k with
    | none =>
      have : has c k = false := by simp [has, hl]
      simp [this, put_eq_set c hn, getitem, get?, lookup_set_self, Except.map]
    | some vs =>
      have hne := lookup_ne_nil h hl
      cases vs with
      | nil => exact absurd rfl hne
      | cons x t =>
        have : has c k = true := by simp [has, hl]
        simp [this, getitem, get?, hl, Except.map]
  | setlistdefault k vs =>
    simp only [MD.step, MDSpec.step, hasKey_eq]
    by_cases hh : has c k = true
    · simp [hh, MD.getlist, get?, valuesOf_eq c hn]
    · have hh' : has c k = false := by simpa using hh
      simp only [okOp, hh', Bool.false_or, Bool.not_eq_true'] at hop
      simp [hh', hop, put_eq_set c hn, MD.getlist, get?, lookup_set_self]
  | update a => simp [MD.step, MDSpec.step, addAll_eq c hn]
  | ior a => simp [MD.step, MDSpec.step, addAll_eq c hn]
  | pop k d =>
    simp only [MD.step, MDSpec.step]
    rw [first?_eq c h]
    unfold get?
    cases hl : c.lookup k with
    | none => simp
    | some vs =>
      have hne := lookup_ne_nil h hl
      cases vs with
      | nil => exact absurd rfl hne
      | cons x t => simp [remove_eq_erase c hn]
  | popitem =>
    simp only [MD.step, MDSpec.step, PyDict.popitem]
    cases hl : c.getLast? with
    | none => simp
    | some e =>
      obtain ⟨k, vs⟩ := e
      have hne := h.2 _ (List.mem_of_getLast? hl)
      cases vs with
      | nil => exact absurd rfl hne
      | cons x t => simp
  | poplist k =>
    simp only [MD.step, MDSpec.step]
    rw [valuesOf_eq c hn, remove_eq_erase c hn]
    unfold get?
    cases hl : c.lookup k with
    | none =>
      have : k ∉ keys c := by
        intro hm; have := (mem_keys_iff_lookup c k).1 hm; simp [hl] at this
      have : erase c k = c := by
        rw [erase_eq_filter c k hn, List.filter_eq_self]
        intro e he
        have : e.1 ≠ k := by
          intro heq; apply this; rw [← heq]; exact List.mem_map_of_mem (f := fun x => x.1) he
        simp [this]
      simp [this]
    | some vs => simp
  | popitemlist =>
    simp only [MD.step, MDSpec.step, PyDict.popitem]
    cases hl : c.getLast? with
    | none => simp
    | some e => obtain ⟨k, vs⟩ := e; simp
  | clear => simp [MD.step, MDSpec.step]


theorem md_step_wf (c : MD.St κ ν) (h : WF c) (op : MD.Op κ ν) (hop : okOp c op = true) :
    WF (MD.step c op).1 := by
  cases op with
  | setitem k v => exact wf_set h k (by simp)
  | delitem k =>
    simp only [MD.step]
    split
    · exact wf_erase h k
    · exact h
  | add k v => exact wf_add h k v
  | setlist k vs =>
    simp only [okOp, Bool.not_eq_true'] at hop
    exact wf_set h k (by intro e; simp [e] at hop)
  | setdefault k v =>
    simp only [MD.step]
    split
    · exact h
    · exact wf_set h k (by simp)
  | setlistdefault k vs =>
    simp only [MD.step]
    by_cases hh : has c k = true
    · simp only [hh, if_true]; exact h
    · have hh' : has c k = false := by simpa using hh
      simp only [okOp, hh', Bool.false_or, Bool.not_eq_true'] at hop
      simp only [hh']
      exact wf_set h k (by intro e; simp [e] at hop)
  | update a => exact wf_addAll h _
  | ior a => exact wf_addAll h _
  | pop k d =>
    simp only [MD.step]
    split
    · exact wf_erase h k
    · exact wf_erase h k
    · exact h
  | popitem =>
    simp only [MD.step, PyDict.popitem]
    cases hl : c.getLast? with
    | none => exact h
    | some e =>
      obtain ⟨k, vs⟩ := e
      cases vs <;> exact wf_dropLast h
  | poplist k =>
    simp only [MD.step]
    split
    · exact wf_erase h k
    · exact h
  | popitemlist =>
    simp only [MD.step, PyDict.popitem]
    cases hl : c.getLast? with
    | none => exact h
    | some e => exact wf_dropLast h
  | clear => exact ⟨by simp [MD.step], by simp [MD.step]⟩

omit [DecidableEq κ] in
theorem itemsFirst_wf (c : MD.St κ ν) (h : ∀ e ∈ c, e.2 ≠ []) :
    itemsFirst c = .ok (c.filterMap (fun e => e.2.head?.map (fun v => (e.1, v)))) := by
  induction c with
  | nil => rfl
  | cons e t ih =>
    obtain ⟨k, vs⟩ := e
    have hne := h (k, vs) List.mem_cons_self
    cases vs with
    | nil => exact absurd rfl hne
    | cons v r =>
      have := ih (fun e he => h e (List.mem_cons_of_mem _ he))
      simp [itemsFirst, this]

theorem md_read_refines (c : MD.St κ ν) (h : WF c) (q : Query κ) : MD.read c q = MDSpec.read c q := by
  cases q with
  | getitem k =>
    simp only [MD.read, MDSpec.read, first?_eq c h, getitem, get?]
    cases hl : c.lookup k with
    | none => rfl
    | some vs => cases vs <;> rfl
  | getlist k => simp [MD.read, MDSpec.read, MD.getlist, get?, valuesOf_eq c h.1]
  | contains k => simp [MD.read, MDSpec.read, hasKey_eq]
  | len => rfl
  | keys => rfl
  | values =>
    simp only [MD.read, MDSpec.read, MD.values, itemsFirst_wf c h.2, Except.map]
    simp [List.map_filterMap, Option.map_map, Function.comp_def]
  | items multi =>
    cases multi with
    | false => simp [MD.read, MDSpec.read, itemsFirst_wf c h.2, Except.map]
    | true => rfl
  | lists => rfl
  | listvalues => rfl
  | toDict flat =>
    cases flat with
    | true => simp [MD.read, MDSpec.read, toDictFlat, itemsFirst_wf c h.2, Except.map]
    | false => rfl

/-- a history all of whose steps stay inside the multimap model -/
def okHist (c : MD.St κ ν) : List (MD.Op κ ν) → Bool
  | [] => true
  | op :: t => okOp c op && okHist (MD.step c op).1 t

theorem md_run_refines (c : MD.St κ ν) (h : WF c) (ops : List (MD.Op κ ν)) (hok : okHist c ops = true) :
    MD.run c ops = MDSpec.run c ops ∧ WF (MD.run c ops) := by
  induction ops generalizing c with
  | nil => exact ⟨rfl, h⟩
  | cons op t ih =>
    simp only [okHist, Bool.and_eq_true] at hok
    simp only [MD.run, MDSpec.run]
    rw [← md_step_refines c h op hok.1]
    exact ih _ (md_step_wf c h op hok.1) hok.2


end Wz.C08L

/-! ### HeaderSet -/
namespace Wz.C08L
open Wz Hdr HS HSLemmas

theorem pyIdx_lt {n : Nat} {i : Int} {k : Nat} (h : pyIdx n i = some k) : k < n := by
  unfold pyIdx at h
  split at h
  · split at h
    · simp at h; omega
    · simp at h
  · split at h
    · simp at h; omega
    · simp at h

theorem inv_append (c : St) (h : Inv c) (x : Str) (hx : c.set.contains (lower x) = false) :
    Inv ⟨c.headers ++ [x], c.set ++ [lower x]⟩ := by
  obtain ⟨h1, h2, h3⟩ := h
  have hx' : lower x ∉ c.set := by simpa using hx
  have hx'' : lower x ∉ c.headers.map lower := fun hm => hx' ((h3 _).2 hm)
  refine ⟨?_, ?_, ?_⟩
  · simp only [List.map_append, List.map_cons, List.map_nil]
    rw [List.nodup_append]
    refine ⟨h1, by simp, ?_⟩
    intro a ha b hb
    simp at hb; subst hb
    intro e; subst e; exact hx'' ha
  · rw [List.nodup_append]
    refine ⟨h2, by simp, ?_⟩
    intro a ha b hb
    simp at hb; subst hb
    intro e; subst e; exact hx' ha
  · intro y
    simp only [List.mem_append, List.mem_singleton, List.map_append, List.map_cons, List.map_nil]
    rw [h3 y]

theorem inv_updateLoop (c : St) (h : Inv c) (hs : List Str) : Inv (updateLoop c hs).1 := by
  induction hs generalizing c with
  | nil => exact h
  | cons x t ih =>
    simp only [updateLoop]
    cases hc : c.set.contains (lower x) with
    | true => simp only [if_true]; exact ih c h
    | false => simp only [Bool.false_eq_true, if_false]; exact ih _ (inv_append c h x hc)

theorem mem_iff_contains (c : St) (h : Inv c) (x : Str) : HSSpec.mem c.headers x = c.set.contains (lower x) := by
  unfold HSSpec.mem
  have := h.2.2 (lower x)
  by_cases hm : lower x ∈ c.set
  · have h1 : c.set.contains (lower x) = true := by simpa using hm
    have h2 : (c.headers.map lower).contains (lower x) = true := by
      rw [List.contains_iff_mem]; exact this.1 hm
    rw [h1, h2]
  · have h1 : c.set.contains (lower x) = false := by simpa using hm
    have h2 : (c.headers.map lower).contains (lower x) = false := by
      cases hh : (c.headers.map lower).contains (lower x) with
      | false => rfl
      | true => rw [List.contains_iff_mem] at hh; exact absurd (this.2 hh) hm
    rw [h1, h2]

theorem updateLoop_spec (c : St) (h : Inv c) (hs : List Str) :
    (updateLoop c hs).1.headers = HSSpec.insertAll c.headers hs := by
  induction hs generalizing c with
  | nil => rfl
  | cons x t ih =>
    simp only [updateLoop, HSSpec.insertAll, HSSpec.insert, mem_iff_contains c h]
    cases hc : c.set.contains (lower x) with
    | true => simp only [if_true]; exact ih c h
    | false =>
      simp only [Bool.false_eq_true, if_false]
      exact ih _ (inv_append c h x hc)

theorem inv_remove_key (c : St) (h : Inv c) (key : Str) :
    Inv ⟨dropFirst key c.headers, c.set.erase key⟩ := by
  obtain ⟨h1, h2, h3⟩ := h
  refine ⟨?_, h2.erase key, ?_⟩
  · rw [map_lower_dropFirst]; exact h1.erase key
  · intro y
    simp only []
    rw [map_lower_dropFirst, h2.mem_erase_iff, h1.mem_erase_iff, h3 y]


theorem eraseIdx_eq_dropFirst (hs : List Str) (hn : (hs.map lower).Nodup) (n : Nat) (rv : Str)
    (hg : hs[n]? = some rv) : hs.eraseIdx n = dropFirst (lower rv) hs := by
  induction hs generalizing n with
  | nil => simp at hg
  | cons h t ih =>
    simp only [List.map_cons, List.nodup_cons] at hn
    cases n with
    | zero =>
      simp at hg; subst hg
      simp [dropFirst]
    | succ m =>
      simp only [List.getElem?_cons_succ] at hg
      have hmem : rv ∈ t := List.mem_of_getElem? hg
      have hne : ¬ (lower h == lower rv) = true := by
        rw [beq_iff_eq]
        intro e; apply hn.1; rw [e]; exact List.mem_map_of_mem hmem
      simp only [List.eraseIdx_cons_succ, dropFirst, hne]
      simp [ih hn.2 m hg]

/-- `del hs[i]` keeps the invariant -/
theorem inv_delitem (c : St) (h : Inv c) (i : Int) : Inv (delitem c i).st := by
  unfold delitem
  cases hp : pyIdx c.headers.length i with
  | none => exact h
  | some n =>
    simp only
    cases hg : c.headers[n]? with
    | none => exact h
    | some rv =>
      simp only
      have hc : c.set.contains (lower rv) = true := by
        rw [List.contains_iff_mem, h.2.2]
        exact List.mem_map_of_mem (List.mem_of_getElem? hg)
      simp only [hc, if_true]
      rw [eraseIdx_eq_dropFirst c.headers h.1 n rv hg]
      exact inv_remove_key c h (lower rv)

/-- the value assigned by `hs[i] = v` is not already a member at another position -/
def setitemOk (c : St) (i : Int) (v : Str) : Bool :=
  match pyIdx c.headers.length i with
  | none => true
  | some n => !((c.headers.eraseIdx n).map lower).contains (lower v)

theorem inv_setitem (c : St) (h : Inv c) (i : Int) (v : Str) (hok : setitemOk c i v = true) :
    Inv (setitem c i v).st := by
  unfold setitem
  unfold setitemOk at hok
  cases hp : pyIdx c.headers.length i with
  | none => exact h
  | some n =>
    rw [hp] at hok
    simp only at hok ⊢
    have hlt := pyIdx_lt hp
    cases hg : c.headers[n]? with
    | none => exact h
    | some old =>
      simp only
      have hc : c.set.contains (lower old) = true := by
        rw [List.contains_iff_mem, h.2.2]
        exact List.mem_map_of_mem (List.mem_of_getElem? hg)
      simp only [hc, if_true]
      have hrem := inv_remove_key c h (lower old)
      rw [← eraseIdx_eq_dropFirst c.headers h.1 n old hg] at hrem
      obtain ⟨r1, r2, r3⟩ := hrem
      have hv : lower v ∉ (c.headers.eraseIdx n).map lower := by
        simpa using hok
      simp only [List.eraseIdx_eq_take_drop_succ] at r1 r3 hv
      have hset : c.headers.set n v = c.headers.take n ++ v :: c.headers.drop (n + 1) := by
        rw [List.set_eq_take_append_cons_drop]; simp [hlt]
      refine ⟨?_, nodup_setAdd _ _ r2, ?_⟩
      · simp only [hset, List.map_append, List.map_cons]
        rw [List.perm_middle.nodup_iff, List.nodup_cons]
        simp only [List.map_append] at r1 hv
        exact ⟨hv, r1⟩
      · intro y
        simp only [hset]
        rw [mem_setAdd, r3 y]
        simp only [List.map_append, List.map_cons, List.mem_append, List.mem_cons]
        constructor
        · rintro ((h1 | h1) | h1)
          · exact Or.inl h1
          · exact Or.inr (Or.inr h1)
          · exact Or.inr (Or.inl h1)
        · rintro (h1 | h1 | h1)
          · exact Or.inl (Or.inl h1)
          · exact Or.inr h1
          · exact Or.inl (Or.inr h1)

/-- every operation other than item assignment keeps the invariant; item assignment keeps it when
the assigned value is not a member elsewhere -/
def hsOk (c : St) : HS.Op → Bool
  | .setitem i v => setitemOk c i v
  | _ => true

theorem hs_inv_preserved (c : St) (h : Inv c) (op : HS.Op) (hok : hsOk c op = true) :
    Inv (HS.step c op).st := by
  cases op with
  | add x => exact inv_updateLoop c h [x]
  | remove x =>
    simp only [HS.step, HS.remove]
    split
    · exact inv_remove_key c h (lower x)
    · exact h
  | discard x =>
    simp only [HS.step, HS.discard, HS.remove]
    split
    · exact inv_remove_key c h (lower x)
    · exact h
  | update hs => exact inv_updateLoop c h hs
  | clear => exact ⟨by simp [HS.step], by simp [HS.step], by simp [HS.step]⟩
  | delitem i => exact inv_delitem c h i
  | setitem i v => exact inv_setitem c h i v hok


theorem filter_self_of_not_mem (s : List Str) (x : Str) (h : HSSpec.mem s x = false) :
    HSSpec.delete s x = s := by
  unfold HSSpec.delete
  rw [List.filter_eq_self]
  intro y hy
  have : lower y ≠ lower x := by
    intro e
    have : HSSpec.mem s x = true := by
      unfold HSSpec.mem
      rw [List.contains_iff_mem, ← e]
      exact List.mem_map_of_mem hy
    rw [h] at this; exact Bool.noConfusion this
  simp [this]

theorem hs_step_refines (c : St) (h : Inv c) (op : HS.Op) :
    (HS.step c op).st.headers = (HSSpec.step c.headers op).1 ∧
    (HS.step c op).res = (HSSpec.step c.headers op).2 := by
  cases op with
  | add x =>
    have := updateLoop_spec c h [x]
    simp only [HSSpec.insertAll] at this
    exact ⟨this, rfl⟩
  | update hs => exact ⟨updateLoop_spec c h hs, rfl⟩
  | clear => exact ⟨rfl, rfl⟩
  | remove x =>
    simp only [HS.step, HS.remove, HSSpec.step, mem_iff_contains c h]
    cases hc : c.set.contains (lower x) with
    | true => simp only [if_true]; exact ⟨dropFirst_eq_filter _ _ h.1, trivial⟩
    | false => exact ⟨rfl, rfl⟩
  | discard x =>
    simp only [HS.step, HS.discard, HS.remove, HSSpec.step]
    cases hc : c.set.contains (lower x) with
    | true => simp only [if_true]; exact ⟨dropFirst_eq_filter _ _ h.1, trivial⟩
    | false =>
      simp only [Bool.false_eq_true, if_false]
      have : HSSpec.mem c.headers x = false := by rw [mem_iff_contains c h, hc]
      exact ⟨(filter_self_of_not_mem _ _ this).symm, trivial⟩
  | delitem i =>
    simp only [HS.step, HS.delitem, HSSpec.step]
    cases hp : pyIdx c.headers.length i with
    | none => exact ⟨rfl, rfl⟩
    | some n =>
      have hlt := pyIdx_lt hp
      have hg : c.headers[n]? = some c.headers[n] := List.getElem?_eq_getElem hlt
      simp only [hg]
      have hc : c.set.contains (lower c.headers[n]) = true := by
        rw [List.contains_iff_mem, h.2.2]
        exact List.mem_map_of_mem (List.getElem_mem hlt)
      simp only [hc, if_true]
      refine ⟨?_, ?_⟩ <;> first | rfl | trivial
  | setitem i v =>
    simp only [HS.step, HS.setitem, HSSpec.step]
    cases hp : pyIdx c.headers.length i with
    | none => exact ⟨rfl, rfl⟩
    | some n =>
      have hlt := pyIdx_lt hp
      have hg : c.headers[n]? = some c.headers[n] := List.getElem?_eq_getElem hlt
      simp only [hg]
      have hc : c.set.contains (lower c.headers[n]) = true := by
        rw [List.contains_iff_mem, h.2.2]
        exact List.mem_map_of_mem (List.getElem_mem hlt)
      simp only [hc, if_true]
      refine ⟨?_, ?_⟩ <;> first | rfl | trivial

theorem hs_len_eq (c : St) (h : Inv c) : HS.len c = c.headers.length := by
  unfold HS.len
  rw [length_eq_of_nodup_mem_iff c.set (c.headers.map lower) h.2.1 h.1 h.2.2, List.length_map]

def hsSpecRun (s : HSSpec.CISet) : List HS.Op → HSSpec.CISet
  | [] => s
  | op :: t => hsSpecRun (HSSpec.step s op).1 t

def hsOkHist (c : St) : List HS.Op → Bool
  | [] => true
  | op :: t => hsOk c op && hsOkHist (HS.step c op).st t

theorem hs_run_refines (c : St) (h : Inv c) (ops : List HS.Op) (hok : hsOkHist c ops = true) :
    Inv (HS.run c ops) ∧ (HS.run c ops).headers = hsSpecRun c.headers ops := by
  induction ops generalizing c with
  | nil => exact ⟨h, rfl⟩
  | cons op t ih =>
    simp only [hsOkHist, Bool.and_eq_true] at hok
    simp only [HS.run, hsSpecRun]
    have := ih _ (hs_inv_preserved c h op hok.1) hok.2
    rw [(hs_step_refines c h op).1] at this
    exact this

theorem foldl_setAdd (l : List Str) (s : List Str) (hs : s.Nodup) :
    (l.foldl (fun s h => setAdd s (lower h)) s).Nodup ∧
    ∀ x, x ∈ l.foldl (fun s h => setAdd s (lower h)) s ↔ x ∈ s ∨ x ∈ l.map lower := by
  induction l generalizing s with
  | nil => simp [hs]
  | cons a t ih =>
    simp only [List.foldl_cons]
    have := ih (setAdd s (lower a)) (nodup_setAdd _ _ hs)
    refine ⟨this.1, ?_⟩
    intro x
    rw [this.2 x, mem_setAdd]
    simp only [List.map_cons, List.mem_cons]
    constructor
    · rintro ((h1 | h1) | h1)
      · exact Or.inl h1
      · exact Or.inr (Or.inl h1)
      · exact Or.inr (Or.inr h1)
    · rintro (h1 | h1 | h1)
      · exact Or.inl (Or.inl h1)
      · exact Or.inl (Or.inr h1)
      · exact Or.inr h1

/-- the constructor (as repaired) establishes the invariant for EVERY input -/
theorem hs_construct_inv_any (l : List Str) : Inv (HS.construct l) :=
  inv_updateLoop ⟨[], []⟩ ⟨by simp, by simp, by simp⟩ l

theorem hs_construct_inv (l : List Str) (_h : (l.map lower).Nodup) : Inv (HS.construct l) :=
  hs_construct_inv_any l

theorem updateLoop_of_nodup (c : St) (l : List Str) (hn : (l.map lower).Nodup)
    (hd : ∀ x ∈ l, lower x ∉ c.set) :
    (updateLoop c l).1 = ⟨c.headers ++ l, c.set ++ l.map lower⟩ := by
  induction l generalizing c with
  | nil => simp [updateLoop]
  | cons x t ih =>
    simp only [List.map_cons, List.nodup_cons] at hn
    have hx : c.set.contains (lower x) = false := by simpa using hd x List.mem_cons_self
    simp only [updateLoop, hx, Bool.false_eq_true, if_false]
    rw [ih ⟨c.headers ++ [x], c.set ++ [lower x]⟩ hn.2 (fun y hy => by
      simp only [List.mem_append, List.mem_singleton, not_or]
      exact ⟨hd y (List.mem_cons_of_mem _ hy), fun e => hn.1 (e ▸ List.mem_map_of_mem hy)⟩)]
    simp

/-- without case-duplicates in the input nothing is dropped -/
theorem construct_of_nodup (l : List Str) (hn : (l.map lower).Nodup) : HS.construct l = ⟨l, l.map lower⟩ := by
  have := updateLoop_of_nodup ⟨[], []⟩ l hn (by simp)
  simpa [HS.construct] using this

/-- the constructor keeps the first spelling of every member: the case-insensitive ordered set
built by inserting the items one by one -/
theorem construct_headers (l : List Str) : (HS.construct l).headers = HSSpec.insertAll [] l :=
  updateLoop_spec ⟨[], []⟩ ⟨by simp, by simp, by simp⟩ l

end Wz.C08L

/-! ### Headers.set -/
namespace Wz.C08L
open Wz Hdr

theorem keyEq_self (k v : Str) : keyEq k (k, v) = true := by simp [keyEq]

theorem strHeaderValue_ok {v : Str} (h : hasNL v = false) : strHeaderValue v = .ok v := by
  simp [strHeaderValue, h]

theorem setLoop_filter_self (k v : Str) (l r : HList) (h : setLoop k v l = some r) :
    r.filter (keyEq k) = [(k, v)] := by
  induction l generalizing r with
  | nil => simp [setLoop] at h
  | cons p t ih =>
    simp only [setLoop] at h
    by_cases hp : keyEq k p = true
    · simp only [hp, if_true, Option.some.injEq] at h
      subst h
      rw [List.filter_cons, keyEq_self]
      simp only [if_true, List.filter_filter]
      congr 1
      rw [List.filter_eq_nil_iff]
      intro a _
      cases keyEq k a <;> simp
    · have hp' : keyEq k p = false := by simpa using hp
      simp only [hp', Bool.false_eq_true, if_false] at h
      cases hs : setLoop k v t with
      | none => simp [hs] at h
      | some r' =>
        simp only [hs, Option.map_some, Option.some.injEq] at h
        subst h
        rw [List.filter_cons]
        simp only [hp', Bool.false_eq_true, if_false]
        exact ih r' hs

theorem setLoop_filter_other (k v : Str) (l r : HList) (h : setLoop k v l = some r) :
    r.filter (fun p => !keyEq k p) = l.filter (fun p => !keyEq k p) := by
  induction l generalizing r with
  | nil => simp [setLoop] at h
  | cons p t ih =>
    simp only [setLoop] at h
    by_cases hp : keyEq k p = true
    · simp only [hp, if_true, Option.some.injEq] at h
      subst h
      simp [List.filter_cons, keyEq_self, hp, List.filter_filter]
    · have hp' : keyEq k p = false := by simpa using hp
      simp only [hp', Bool.false_eq_true, if_false] at h
      cases hs : setLoop k v t with
      | none => simp [hs] at h
      | some r' =>
        simp only [hs, Option.map_some, Option.some.injEq] at h
        subst h
        simp [List.filter_cons, hp', ih r' hs]

theorem setLoop_none (k v : Str) (l : HList) (h : setLoop k v l = none) : ∀ p ∈ l, keyEq k p = false := by
  induction l with
  | nil => simp
  | cons p t ih =>
    simp only [setLoop] at h
    by_cases hp : keyEq k p = true
    · simp [hp] at h
    · simp only [hp] at h
      have : setLoop k v t = none := by
        cases hs : setLoop k v t with
        | none => rfl
        | some r => simp [hs] at h
      intro q hq
      rcases List.mem_cons.1 hq with e | e
      · subst e; simpa using hp
      · exact ih this q e

theorem setLoop_none_of (k v : Str) (l : HList) (h : ∀ p ∈ l, keyEq k p = false) : setLoop k v l = none := by
  induction l with
  | nil => rfl
  | cons p t ih =>
    simp only [setLoop, h p List.mem_cons_self, Bool.false_eq_true, if_false]
    rw [ih (fun q hq => h q (List.mem_cons_of_mem _ hq))]; rfl

theorem setLoop_findIdx (k v : Str) (l r : HList) (h : setLoop k v l = some r) :
    r.findIdx (keyEq k) = l.findIdx (keyEq k) ∧ r[l.findIdx (keyEq k)]? = some (k, v) := by
  induction l generalizing r with
  | nil => simp [setLoop] at h
  | cons p t ih =>
    simp only [setLoop] at h
    by_cases hp : keyEq k p = true
    · simp only [hp, if_true, Option.some.injEq] at h
      subst h
      simp [List.findIdx_cons, keyEq_self, hp]
    · have hp' : keyEq k p = false := by simpa using hp
      simp only [hp', Bool.false_eq_true, if_false] at h
      cases hs : setLoop k v t with
      | none => simp [hs] at h
      | some r' =>
        simp only [hs, Option.map_some, Option.some.injEq] at h
        subst h
        have := ih r' hs
        simp [List.findIdx_cons, hp', this.1, this.2]

/-- the state after `headers.set(k, v)` for a newline-free value -/
theorem set_cases (l : HList) (k v : Str) (hv : hasNL v = false) :
    (∃ r, setLoop k v l = some r ∧ Hdr.set l k v = (r, .ok ())) ∨
    ((∀ p ∈ l, keyEq k p = false) ∧ Hdr.set l k v = (l ++ [(k, v)], .ok ())) := by
  unfold Hdr.set
  rw [strHeaderValue_ok hv]
  cases l with
  | nil => right; simp
  | cons p t =>
    simp only [List.isEmpty_cons, Bool.false_eq_true, if_false]
    cases hs : setLoop k v (p :: t) with
    | some r => left; exact ⟨r, rfl, rfl⟩
    | none => right; exact ⟨setLoop_none k v _ hs, rfl⟩


theorem filter_keyEq_none (k : Str) (l : HList) (h : ∀ p ∈ l, keyEq k p = false) : l.filter (keyEq k) = [] := by
  rw [List.filter_eq_nil_iff]; intro p hp; simp [h p hp]

theorem filter_notKey_all (k : Str) (l : HList) (h : ∀ p ∈ l, keyEq k p = false) :
    l.filter (fun p => !keyEq k p) = l := by
  rw [List.filter_eq_self]; intro p hp; simp [h p hp]

theorem filter_other_key (k k' : Str) (hne : lower k' ≠ lower k) (x : HList) :
    x.filter (keyEq k') = (x.filter (fun p => !keyEq k p)).filter (keyEq k') := by
  rw [List.filter_filter]
  apply List.filter_congr
  intro a _
  cases h1 : keyEq k' a with
  | false => simp
  | true =>
    have : keyEq k a = false := by
      simp only [keyEq, beq_iff_eq] at h1
      simp only [keyEq, beq_eq_false_iff_ne]
      intro e; exact hne (h1.symm.trans e)
    simp [this]


end Wz.C08L

/-! ### Headers.set against its documented meaning -/
namespace Wz.C08L
open Wz Hdr

/-- the documented meaning of `Headers.set`: "Remove all header tuples for `key` and add a new one.
The newly added key either appears at the end of the list if there was no entry or replaces the
first one." -/
def specSet (l : HList) (k v : Str) : HList :=
  if l.any (keyEq k) then
    l.takeWhile (fun p => !keyEq k p) ++ (k, v) ::
      ((l.dropWhile (fun p => !keyEq k p)).drop 1).filter (fun p => !keyEq k p)
  else l ++ [(k, v)]

theorem setLoop_eq (k v : Str) (l : HList) :
    setLoop k v l = if l.any (keyEq k) then some (specSet l k v) else none := by
  induction l with
  | nil => simp [setLoop]
  | cons p t ih =>
    simp only [setLoop]
    cases hp : keyEq k p with
    | true => simp [specSet, hp, List.takeWhile_cons, List.dropWhile_cons]
    | false =>
      simp only [Bool.false_eq_true, if_false, ih, List.any_cons, hp, Bool.false_or]
      cases ha : t.any (keyEq k) with
      | false => simp
      | true =>
        simp [specSet, ha, hp, List.takeWhile_cons, List.dropWhile_cons]

theorem set_eq_spec (l : HList) (k v : Str) (hv : hasNL v = false) :
    Hdr.set l k v = (specSet l k v, .ok ()) := by
  unfold Hdr.set
  rw [strHeaderValue_ok hv]
  cases l with
  | nil => simp [specSet]
  | cons p t =>
    simp only [List.isEmpty_cons, Bool.false_eq_true, if_false, setLoop_eq]
    cases ha : (p :: t).any (keyEq k) with
    | true => simp
    | false => simp [specSet, ha]

end Wz.C08L

/-! ### Headers: the abstract spec (ordered (key, value) list with case-insensitive keys) -/
namespace Wz.HdrSpec
open Wz Hdr Wz.C08L

/-- the abstract state: the ordered list of `(key, value)` pairs; keys compare ignoring case -/
abbrev Spec := List (Str × Str)

/-- the three documented atomic actions on the pair list -/
inductive Act where
  /-- append a pair -/
  | add (k v : Str)
  /-- replace the first pair of the key in place, drop its other pairs; append when absent -/
  | set (k v : Str)
  /-- drop every pair of the key -/
  | remove (k : Str)
deriving Repr, DecidableEq

/-- an atomic action; a value containing CR or LF is refused and nothing changes -/
def Act.apply (l : Spec) : Act → Spec × Except String Unit
  | .add k v => if hasNL v then (l, .error "ValueError") else (l ++ [(k, v)], .ok ())
  | .set k v => if hasNL v then (l, .error "ValueError") else (specSet l k v, .ok ())
  | .remove k => (l.filter (fun p => !keyEq k p), .ok ())

/-- perform the actions in order, stopping at the first refusal (what was done stays) -/
def seqUntil (l : Spec) : List Act → Spec × Except String Unit
  | [] => (l, .ok ())
  | a :: t =>
    match a.apply l with
    | (l', .ok _) => seqUntil l' t
    | (l', .error e) => (l', .error e)

/-- `setlist(k, vs)`: the key ends up with exactly the values `vs` -/
def setlistActs (k : Str) : List Str → List Act
  | [] => [.remove k]
  | v :: t => .set k v :: t.map (.add k)

/-- a mapping argument: scalars are `set`, lists are `setlist` -/
def mapActs : MapArg → List Act
  | [] => []
  | (k, .one v) :: t => .set k v :: mapActs t
  | (k, .many vs) :: t => setlistActs k vs ++ mapActs t

/-- `update(arg)`: every key of the argument is *replaced* -/
def updateActs : Option Arg → List Act
  | none => []
  | some (.headers h) => (Hdr.keys h false).flatMap (fun k => setlistActs k (getlist h k))
  | some (.multi m) => (m.map (·.1)).flatMap (fun k => setlistActs k (multiGetlist m k))
  | some (.mapping m) => mapActs m
  | some (.pairs ps) => ps.map (fun p => .set p.1 p.2)

/-- `extend(arg)`: every pair of the argument is *appended* -/
def extendActs (a : Option Arg) : List Act :=
  match a with
  | none => []
  | some a => (iterMultiItems a).map (fun p => .add p.1 p.2)

def unit (r : Spec × Except String Unit) : Spec × Except String Ret := (r.1, r.2.map (fun _ => Ret.none))

/-- the abstract step of every public mutator: keyed mutators are sequences of atomic actions;
index / slice mutators are the list operations themselves -/
def step (l : Spec) : Op → Spec × Except String Ret
  | .add k v => unit (seqUntil l [.add k v])
  | .set k v => unit (seqUntil l [.set k v])
  | .setitemKey k v => unit (seqUntil l [.set k v])
  | .setlist k vs => unit (seqUntil l (setlistActs k vs))
  | .setdefault k v =>
    match getKey l k with
    | .ok x => (l, .ok (.str x))
    | .error _ =>
      let r := seqUntil l [.set k v]
      (r.1, match r.2 with | .ok _ => (getKey r.1 k).map Ret.str | .error e => .error e)
  | .setlistdefault k vs =>
    if contains l k then (l, .ok (.strs (getlist l k)))
    else
      let r := seqUntil l (setlistActs k vs)
      (r.1, match r.2 with | .ok _ => .ok (.strs (getlist r.1 k)) | .error e => .error e)
  | .extend a kw => unit (seqUntil l (extendActs a ++ (mapItems kw).map (fun p => .add p.1 p.2)))
  | .update a kw => unit (seqUntil l (updateActs a ++ mapActs kw))
  | .ior a => unit (seqUntil l (updateActs (some a)))
  | .delitemKey k => unit (seqUntil l [.remove k])
  | .remove k => unit (seqUntil l [.remove k])
  | .popKey k d =>
    match getKey l k with
    | .ok v => ((seqUntil l [.remove k]).1, .ok (.str v))
    | .error e => (l, match d with | some x => .ok (.str x) | none => .error e)
  | .clear => ([], .ok .none)
  -- positional access: Python list semantics on the pair list
  | .setitemIdx i p => retUnit (setIdx l i p)
  | .setitemSlice s ps => retUnit (setSliceOp l s ps)
  | .delitemIdx i => retUnit (delIdx l i)
  | .delitemSlice s => (delSlice l s, .ok .none)
  | .popLast => let r := popIdx l (-1); (r.1, r.2.map Ret.pair)
  | .popIdx i => let r := popIdx l i; (r.1, r.2.map Ret.pair)
  | .popitem => let r := popIdx l (-1); (r.1, r.2.map Ret.pair)

def run (l : Spec) : List Op → Spec
  | [] => l
  | op :: t => run (step l op).1 t

/-! refinement lemmas -/

theorem add_eq (l : HList) (k v : Str) : Hdr.add l k v = (Act.add k v).apply l := by
  cases h : hasNL v <;> simp [Hdr.add, Act.apply, strHeaderValue, h]

theorem set_eq (l : HList) (k v : Str) : Hdr.set l k v = (Act.set k v).apply l := by
  cases hv : hasNL v with
  | true => simp [Hdr.set, Act.apply, strHeaderValue, hv]
  | false => rw [set_eq_spec l k v hv]; simp [Act.apply, hv]

theorem seqUntil_single (l : Spec) (a : Act) : seqUntil l [a] = a.apply l := by
  simp only [seqUntil]
  cases a.apply l with
  | mk l' r => cases r <;> rfl

theorem seqUntil_append (l : Spec) (a b : List Act) :
    seqUntil l (a ++ b) = Hdr.andThen (seqUntil l a) (fun l' => seqUntil l' b) := by
  induction a generalizing l with
  | nil => rfl
  | cons x t ih =>
    simp only [List.cons_append, seqUntil]
    cases hx : x.apply l with
    | mk l' res =>
      cases res with
      | ok _ => exact ih l'
      | error e => rfl

theorem addAll_eq (l : HList) (k : Str) (vs : List Str) :
    Hdr.addAll l k vs = seqUntil l (vs.map (.add k)) := by
  induction vs generalizing l with
  | nil => rfl
  | cons v t ih =>
    simp only [Hdr.addAll, List.map_cons, seqUntil, add_eq]
    cases hx : (Act.add k v).apply l with
    | mk l' res =>
      cases res with
      | ok _ => exact ih l'
      | error e => rfl

theorem addPairs_eq (l : HList) (ps : List Pair) :
    Hdr.addPairs l ps = seqUntil l (ps.map (fun p => .add p.1 p.2)) := by
  induction ps generalizing l with
  | nil => rfl
  | cons p t ih =>
    obtain ⟨k, v⟩ := p
    simp only [Hdr.addPairs, List.map_cons, seqUntil, add_eq]
    cases hx : (Act.add k v).apply l with
    | mk l' res =>
      cases res with
      | ok _ => exact ih l'
      | error e => rfl

theorem setPairs_eq (l : HList) (ps : List Pair) :
    Hdr.setPairs l ps = seqUntil l (ps.map (fun p => .set p.1 p.2)) := by
  induction ps generalizing l with
  | nil => rfl
  | cons p t ih =>
    obtain ⟨k, v⟩ := p
    simp only [Hdr.setPairs, List.map_cons, seqUntil, set_eq]
    cases hx : (Act.set k v).apply l with
    | mk l' res =>
      cases res with
      | ok _ => exact ih l'
      | error e => rfl

theorem setlist_eq (l : HList) (k : Str) (vs : List Str) :
    Hdr.setlist l k vs = seqUntil l (setlistActs k vs) := by
  cases vs with
  | nil => simp [Hdr.setlist, setlistActs, seqUntil, Act.apply, delKey]
  | cons v t =>
    simp only [Hdr.setlist, setlistActs, seqUntil, set_eq]
    cases hx : (Act.set k v).apply l with
    | mk l' res =>
      cases res with
      | ok _ => exact addAll_eq l' k t
      | error e => rfl

theorem updateMap_eq (l : HList) (m : MapArg) : Hdr.updateMap l m = seqUntil l (mapActs m) := by
  induction m generalizing l with
  | nil => rfl
  | cons e t ih =>
    obtain ⟨k, mv⟩ := e
    cases mv with
    | one v =>
      simp only [Hdr.updateMap, mapActs, seqUntil, set_eq]
      cases hx : (Act.set k v).apply l with
      | mk l' res =>
        cases res with
        | ok _ => exact ih l'
        | error e => rfl
    | many vs =>
      simp only [Hdr.updateMap, mapActs, seqUntil_append, setlist_eq]
      cases hx : seqUntil l (setlistActs k vs) with
      | mk l' res =>
        cases res with
        | ok _ => exact ih l'
        | error e => rfl

theorem updateKeys_eq (look : Str → List Str) (l : HList) (ks : List Str) :
    Hdr.updateKeys look l ks = seqUntil l (ks.flatMap (fun k => setlistActs k (look k))) := by
  induction ks generalizing l with
  | nil => rfl
  | cons k t ih =>
    simp only [Hdr.updateKeys, List.flatMap_cons, seqUntil_append, setlist_eq]
    cases hx : seqUntil l (setlistActs k (look k)) with
    | mk l' res =>
      cases res with
      | ok _ => exact ih l'
      | error e => rfl

theorem updateHead_eq (l : HList) (a : Option Arg) : Hdr.updateHead l a = seqUntil l (updateActs a) := by
  cases a with
  | none => rfl
  | some a =>
    cases a with
    | headers h => exact updateKeys_eq _ l _
    | multi m => exact updateKeys_eq _ l _
    | mapping m => exact updateMap_eq l m
    | pairs ps => exact setPairs_eq l ps

theorem extendHead_eq (l : HList) (a : Option Arg) : Hdr.extendHead l a = seqUntil l (extendActs a) := by
  cases a with
  | none => rfl
  | some a => exact addPairs_eq l _

/-- every public mutator of the concrete `Headers` model (loops, slice assignments, partial
failure) is the abstract step -/
theorem step_refines (l : HList) (op : Op) : Hdr.step l op = step l op := by
  cases op with
  | add k v => simp only [Hdr.step, step, seqUntil_single, add_eq, retUnit, unit]
  | set k v => simp only [Hdr.step, step, seqUntil_single, set_eq, retUnit, unit]
  | setitemKey k v => simp only [Hdr.step, step, seqUntil_single, set_eq, retUnit, unit]
  | setlist k vs => simp [Hdr.step, step, setlist_eq, retUnit, unit]
  | setdefault k v =>
    simp only [Hdr.step, step, Hdr.setdefault]
    cases getKey l k with
    | ok x => rfl
    | error e =>
      simp only [seqUntil_single, set_eq]
      cases (Act.set k v).apply l with
      | mk l' r => cases r <;> rfl
  | setlistdefault k vs =>
    simp only [Hdr.step, step, Hdr.setlistdefault]
    cases contains l k with
    | true => rfl
    | false =>
      simp only [Bool.false_eq_true, if_false, setlist_eq]
      cases seqUntil l (setlistActs k vs) with
      | mk l' r => cases r <;> rfl
  | extend a kw =>
    simp only [Hdr.step, step, Hdr.extend, seqUntil_append, extendHead_eq, addPairs_eq, retUnit, unit]
  | update a kw =>
    simp only [Hdr.step, step, Hdr.update, seqUntil_append, updateHead_eq, updateMap_eq, retUnit, unit]
  | ior a =>
    simp only [Hdr.step, step, Hdr.update, updateHead_eq, updateMap_eq, retUnit, unit, mapActs]
    cases seqUntil l (updateActs (some a)) with
    | mk l' r => cases r <;> rfl
  | delitemKey k => simp [Hdr.step, step, seqUntil_single, Act.apply, delKey, unit, Except.map]
  | remove k => simp [Hdr.step, step, seqUntil_single, Act.apply, delKey, unit, Except.map]
  | popKey k d =>
    simp only [Hdr.step, step, Hdr.popKey]
    cases getKey l k with
    | ok v => simp [seqUntil_single, Act.apply, delKey, Except.map]
    | error e => cases d <;> rfl
  | clear => rfl
  | setitemIdx i p => rfl
  | setitemSlice s ps => rfl
  | delitemIdx i => rfl
  | delitemSlice s => rfl
  | popLast => rfl
  | popIdx i => rfl
  | popitem => rfl

theorem run_refines (l : HList) (ops : List Op) : Hdr.run l ops = run l ops := by
  induction ops generalizing l with
  | nil => rfl
  | cons op t ih => simp only [Hdr.run, run, step_refines]; exact ih _

end Wz.HdrSpec
