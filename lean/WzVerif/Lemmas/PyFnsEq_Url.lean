/-
PyFnsEq_Url — the URL functions *as regenerated from werkzeug's source* by `tools/py2lean.py`
(`Gen/PyFns_Url.lean`, rewritten on every check run: `sansio.utils.get_current_url`,
`_internal._wsgi_decoding_dance` / `_wsgi_encoding_dance`, `urls.iri_to_uri` / `urls.uri_to_iri`) are
equal, for all inputs, to the hand-written model functions the C15 theorems are about
(`Model/Url.lean`: `decodingDance`, `encodingDance`, `iriToUri`, `uriToIri`; `Model/UrlEnviron.lean`:
`getCurrentUrlOpt`). A change of the Python source changes the generated definition and breaks these
obligations. The `safe=` literals of the source appear in the generated code as explicit character
lists; the theorems pin them against the tables `Gen.UrlTables.*` that `tools/extract.py` collects
from the AST, which are what the model reads.
-/
import WzVerif.Gen.PyFns_Url
import WzVerif.Model.UrlEnviron
import WzVerif.Lemmas.PyFns_Prelude
import WzVerif.Lemmas.Url
namespace Wz.PyFnsEq.Url
open Wz Wz.Pre

/-! ## prelude facts used below -/

/-- `"".join(xs)` is the concatenation of the pieces -/
theorem join_nil_eq_flatten (xs : List (List α)) : Pre.join [] xs = xs.flatten := by
  induction xs with
  | nil => rfl
  | cons w t ih =>
    cases t with
    | nil => simp [Pre.join]
    | cons w' t' =>
      have : Pre.join [] (w :: w' :: t') = w ++ [] ++ Pre.join [] (w' :: t') := rfl
      rw [this, ih]; simp

theorem contains_slash (c : Char) : (['/'] : List Char).contains c = (c == '/') := by
  by_cases h : c = '/' <;> simp [h]

theorem sep_lit : "://".toList = [':', '/', '/'] := by decide

/-- `s.rstrip("/")` -/
theorem rstripChars_slash (s : Pre.Str) : Pre.rstripChars s ['/'] = Url.rstripSlash s := by
  simp only [Pre.rstripChars, Url.rstripSlash, contains_slash]

/-- `s.lstrip("/")` -/
theorem lstripChars_slash (s : Pre.Str) : Pre.lstripChars s ['/'] = Url.lstripSlash s := by
  simp only [Pre.lstripChars, Url.lstripSlash, contains_slash]

/-! ## the `safe=` literals of the source against the AST-collected tables -/

theorem curRootSafe_lit :
    Gen.UrlTables.curRootSafe
      = ['!', '$', '&', '\'', '(', ')', '*', '+', ',', '/', ':', ';', '=', '@'] := by
  decide

theorem curPathSafe_lit :
    Gen.UrlTables.curPathSafe
      = ['!', '$', '&', '\'', '(', ')', '*', '+', ',', '/', ':', ';', '=', '@'] := by
  decide

theorem curQuerySafe_lit :
    Gen.UrlTables.curQuerySafe
      = ['!', '$', '&', '\'', '(', ')', '*', '+', ',', '/', ':', ';', '=', '?', '@', '%'] := by
  decide

theorem iriPathSafe_lit :
    Gen.UrlTables.iriPathSafe
      = ['%', '!', '$', '&', '\'', '(', ')', '*', '+', ',', '/', ':', ';', '=', '@'] := by
  decide

theorem iriQuerySafe_lit :
    Gen.UrlTables.iriQuerySafe
      = ['%', '!', '$', '&', '\'', '(', ')', '*', '+', ',', '/', ':', ';', '=', '?', '@'] := by
  decide

theorem iriFragmentSafe_lit :
    Gen.UrlTables.iriFragmentSafe
      = ['%', '!', '#', '$', '&', '\'', '(', ')', '*', '+', ',', '/', ':', ';', '=', '?', '@'] := by
  decide

theorem iriUserSafe_lit :
    Gen.UrlTables.iriUserSafe
      = ['%', '!', '$', '&', '\'', '(', ')', '*', '+', ',', ';', '='] := by
  decide

theorem iriPasswordSafe_lit :
    Gen.UrlTables.iriPasswordSafe
      = ['%', '!', '$', '&', '\'', '(', ')', '*', '+', ',', ';', '='] := by
  decide

/-! ## the latin-1 dances -/

/-- `_wsgi_decoding_dance`, as translated from the current source
(`s.encode("latin1").decode(errors="replace")`), is the model's `decodingDance`: it raises
`UnicodeEncodeError` exactly when the model answers `none` (a character above U+00FF) and otherwise
returns the model's text. -/
theorem wsgi_decoding_dance_eq (s : Pre.Str) :
    Gen.PyFns_Url.wsgi_decoding_dance s =
      match Url.decodingDance s with
      | some r => .ok r
      | none => .error "UnicodeEncodeError" := by
  unfold Gen.PyFns_Url.wsgi_decoding_dance Pre.encodeLatin1 Url.decodingDance Pre.decodeUtf8Replace
  cases Py.latin1Enc s <;> rfl

/-- `_wsgi_encoding_dance`, as translated from the current source (`s.encode().decode("latin1")`),
is the model's `encodingDance`, for every text. -/
theorem wsgi_encoding_dance_eq (s : Pre.Str) :
    Gen.PyFns_Url.wsgi_encoding_dance s = Url.encodingDance s := rfl

/-- C15 `dance_roundtrip` restated on the translated pair: what the regenerated
`_wsgi_encoding_dance` puts into the environ, the regenerated `_wsgi_decoding_dance` reads back
unchanged and without raising, for every text. -/
theorem dance_roundtrip_translated (s : Pre.Str) :
    Gen.PyFns_Url.wsgi_decoding_dance (Gen.PyFns_Url.wsgi_encoding_dance s) = .ok s := by
  rw [wsgi_encoding_dance_eq, wsgi_decoding_dance_eq, Url.dance_roundtrip']

/-! ## `get_current_url` -/

/-- `sansio.utils.get_current_url`, as translated from the current source (the `url` list with its
`append`s, the early returns for a missing `root_path` / `path`, the truthiness test of
`query_string`, the three `safe=` literals, `rstrip("/")` / `lstrip("/")`, `"".join`), returns exactly
what the model's `getCurrentUrlOpt` returns when both use the same `uri_to_iri` - for every scheme,
host, optional root path, optional path and optional query bytes (`None` and `b""` alike mean: no
query). The final `uri_to_iri` call is the model's text-level `uriToIriText` on both sides. -/
theorem get_current_url_eq (o : Url.UrlOpaque) (scheme host : Pre.Str)
    (root_path path : Option Pre.Str) (query_string : Option Bytes) :
    Gen.PyFns_Url.get_current_url (Url.uriToIriText o) scheme host root_path path query_string
      = Url.getCurrentUrlOpt o scheme host root_path path (query_string.getD []) := by
  unfold Gen.PyFns_Url.get_current_url Url.getCurrentUrlOpt
  simp only [join_nil_eq_flatten, rstripChars_slash, lstripChars_slash, curRootSafe_lit, curPathSafe_lit,
    curQuerySafe_lit, sep_lit]
  cases root_path with
  | none => dsimp only; split <;> (rename_i h; rw [← h]; simp)
  | some r =>
    cases path with
    | none => dsimp only; split <;> (rename_i h; rw [← h]; simp)
    | some p =>
      cases query_string with
      | none => dsimp only; split <;> (rename_i h; rw [← h]; simp)
      | some q =>
        cases q with
        | nil =>
          simp only [Option.getD, List.isEmpty_nil, Bool.not_true, if_true, Bool.false_eq_true, if_false]
          split <;> (rename_i h; rw [← h]; simp)
        | cons b t =>
          simp only [Option.getD, List.isEmpty_cons, Bool.not_false, if_true, Bool.false_eq_true, if_false]
          split <;> (rename_i h; rw [← h]; simp)

/-! ## `iri_to_uri` / `uri_to_iri` on split components -/

/-- the `SplitResult` attributes the translated functions read, as the translation passes them:
`(scheme, hostname, port, username, password, path, query, fragment)` -/
abbrev SplitAttrs :=
  Pre.Str × Option Pre.Str × Option Int × Option Pre.Str × Option Pre.Str × Pre.Str × Pre.Str × Pre.Str

/-- the argument of `urlunsplit` as the translation represents it -/
def tuple5 (s : Url.Split) : Pre.Str × Pre.Str × Pre.Str × Pre.Str × Pre.Str :=
  (s.scheme, s.netloc, s.path, s.query, s.fragment)

/-- the model's `Parts` for a split result whose hostname has been through the IDNA step (`h`) -/
def partsOfAttrs (p : SplitAttrs) (h : Pre.Str) : Url.Parts :=
  { scheme := p.1, username := p.2.2.2.1, password := p.2.2.2.2.1, host := h,
    port := p.2.2.1.map Int.toNat, path := p.2.2.2.2.2.1, query := p.2.2.2.2.2.2.1,
    fragment := p.2.2.2.2.2.2.2 }

/-- `if parts.hostname: netloc = conv(parts.hostname) else: netloc = ""` -/
def hostAfter (conv : Pre.Str → Except String Pre.Str) (hostname : Option Pre.Str) : Except String Pre.Str :=
  match hostname with
  | none => .ok []
  | some [] => .ok []
  | some h => conv h

/-- `if parts.hostname: netloc = conv(parts.hostname) else: netloc = ""` for a conversion that does not raise -/
def hostAfterTotal (conv : Pre.Str → Pre.Str) (hostname : Option Pre.Str) : Pre.Str :=
  match hostname with
  | none => []
  | some [] => []
  | some h => conv h

/-- `SplitResult.port` is `None` or a non-negative `int` -/
def PortOk (p : SplitAttrs) : Prop := ∀ k, p.2.2.1 = some k → 0 ≤ k

theorem truthy_none : Url.truthy none = none := rfl
theorem truthy_nil : Url.truthy (some []) = none := rfl
theorem truthy_cons (x : Char) (t : List Char) : Url.truthy (some (x :: t)) = some (x :: t) := rfl

/-- the netloc assembly of both directions (`[...]` around a host with `:`, `:port` for a truthy
port, `user[:password]@` for a truthy user name), written the way the source does it, is the model's
`netloc` -/
theorem netloc_eq (fu fp : Pre.Str → Pre.Str) (u pw : Option Pre.Str) (h : Pre.Str) (port : Option Nat)
    (sc pa q f : Pre.Str) :
    Url.netloc fu fp { scheme := sc, username := u, password := pw, host := h, port := port,
                       path := pa, query := q, fragment := f }
      = (let n := if h.contains ':' then ['['] ++ h ++ [']'] else h
         let n := match port with
           | none => n
           | some k => if k = 0 then n else n ++ [':'] ++ Pre.strOfInt (k : Int)
         match u with
         | none => n
         | some [] => n
         | some (x :: t) =>
           match pw with
           | none => fu (x :: t) ++ ['@'] ++ n
           | some [] => fu (x :: t) ++ ['@'] ++ n
           | some (y :: t') => fu (x :: t) ++ [':'] ++ fp (y :: t') ++ ['@'] ++ n) := by
  unfold Url.netloc
  simp only [strOfInt_nat]
  rcases u with _ | _ | ⟨x, t⟩ <;> rcases pw with _ | _ | ⟨y, t'⟩ <;> rcases port with _ | _ | k <;>
    simp [truthy_none, truthy_nil, truthy_cons]

/-- `iri_to_uri_eq` with the port given as a natural number (the form the proof works on) -/
theorem iri_to_uri_eq_nat (sc : Pre.Str) (hn : Option Pre.Str) (port : Option Nat) (u pw : Option Pre.Str)
    (pa q f : Pre.Str) (idna : Pre.Str → Except String Pre.Str) (iri : Pre.Str) :
    Gen.PyFns_Url.iri_to_uri (fun _ => (sc, hn, port.map Int.ofNat, u, pw, pa, q, f)) idna iri
      = (hostAfter idna hn).map fun h =>
          tuple5 (Url.iriToUri { scheme := sc, username := u, password := pw, host := h, port := port,
                                 path := pa, query := q, fragment := f }) := by
  unfold Gen.PyFns_Url.iri_to_uri Url.iriToUri tuple5 hostAfter
  simp only [netloc_eq, iriPathSafe_lit, iriQuerySafe_lit, iriFragmentSafe_lit, iriUserSafe_lit,
    iriPasswordSafe_lit, contains_singleton]
  have hk : ∀ k : Nat, ¬ ((k : Int) + 1 = 0) := by omega
  rcases hn with _ | _ | ⟨c, hs⟩
  · rcases u with _ | _ | ⟨x, t⟩ <;> rcases pw with _ | _ | ⟨y, t'⟩ <;> rcases port with _ | _ | k <;>
      simp [Except.map, hk]
  · rcases u with _ | _ | ⟨x, t⟩ <;> rcases pw with _ | _ | ⟨y, t'⟩ <;> rcases port with _ | _ | k <;>
      simp [Except.map, hk]
  · cases hi : idna (c :: hs) with
    | error e => simp [Except.map, hi]
    | ok h =>
      rcases u with _ | _ | ⟨x, t⟩ <;> rcases pw with _ | _ | ⟨y, t'⟩ <;> rcases port with _ | _ | k <;>
        simp [Except.map, hk, hi]

/-- `uri_to_iri_eq` with the port given as a natural number (the form the proof works on) -/
theorem uri_to_iri_eq_nat (sc : Pre.Str) (hn : Option Pre.Str) (port : Option Nat) (u pw : Option Pre.Str)
    (pa q f : Pre.Str) (decode_idna : Pre.Str → Pre.Str) (uri : Pre.Str) :
    Gen.PyFns_Url.uri_to_iri (fun _ => (sc, hn, port.map Int.ofNat, u, pw, pa, q, f)) decode_idna uri
      = .ok (tuple5 (Url.uriToIri { scheme := sc, username := u, password := pw,
                                    host := hostAfterTotal decode_idna hn, port := port,
                                    path := pa, query := q, fragment := f })) := by
  unfold Gen.PyFns_Url.uri_to_iri Url.uriToIri tuple5 hostAfterTotal
  simp only [netloc_eq, contains_singleton]
  have hk : ∀ k : Nat, ¬ ((k : Int) + 1 = 0) := by omega
  rcases hn with _ | _ | ⟨c, hs⟩ <;> rcases u with _ | _ | ⟨x, t⟩ <;> rcases pw with _ | _ | ⟨y, t'⟩ <;>
    rcases port with _ | _ | k <;> simp [hk]

theorem port_ofNat_toNat (p : SplitAttrs) (h : PortOk p) :
    p.2.2.1 = (p.2.2.1.map Int.toNat).map Int.ofNat := by
  unfold PortOk at h
  cases hp : p.2.2.1 with
  | none => rfl
  | some k =>
    have := h k hp
    simp only [Option.map_some, Option.some.injEq]
    exact (Int.toNat_of_nonneg this).symm

/-- `werkzeug.urls.iri_to_uri`, as translated from the current source, between `urlsplit` and
`urlunsplit`: for every split result `p` whose port is `None` or non-negative, every IDNA codec and
every input text, the 5-tuple handed to `urlunsplit` is the model's `iriToUri` of the components
(host = the IDNA-encoded hostname, `""` for a missing or empty hostname), and the call raises exactly
when the IDNA step raises (with the same exception). This covers the five `safe=` literals (pinned
against `Gen.UrlTables.iri*Safe`), the `[...]` around a host containing `:`, `if parts.port:` (port 0
is dropped, like `None`), and the truthiness tests of user name and password. -/
theorem iri_to_uri_eq (p : SplitAttrs) (hp : PortOk p) (idna : Pre.Str → Except String Pre.Str)
    (iri : Pre.Str) :
    Gen.PyFns_Url.iri_to_uri (fun _ => p) idna iri
      = (hostAfter idna p.2.1).map fun h => tuple5 (Url.iriToUri (partsOfAttrs p h)) := by
  have h := port_ofNat_toNat p hp
  obtain ⟨sc, hn, port, u, pw, pa, q, f⟩ := p
  simp only at h
  have key := iri_to_uri_eq_nat sc hn (port.map Int.toNat) u pw pa q f idna iri
  rw [← h] at key
  exact key

/-- `werkzeug.urls.uri_to_iri`, as translated from the current source, between `urlsplit` and
`urlunsplit`: for every split result `p` whose port is `None` or non-negative, every `_decode_idna`
and every input text, the call does not raise and the 5-tuple handed to `urlunsplit` is the model's
`uriToIri` of the components (host = `_decode_idna(hostname)`, `""` for a missing or empty hostname):
the `_unquote_partial` tables per component, the `[...]` around a host containing `:`,
`if parts.port:` and the truthiness tests of user name and password. -/
theorem uri_to_iri_eq (p : SplitAttrs) (hp : PortOk p) (decode_idna : Pre.Str → Pre.Str) (uri : Pre.Str) :
    Gen.PyFns_Url.uri_to_iri (fun _ => p) decode_idna uri
      = .ok (tuple5 (Url.uriToIri (partsOfAttrs p (hostAfterTotal decode_idna p.2.1)))) := by
  have h := port_ofNat_toNat p hp
  obtain ⟨sc, hn, port, u, pw, pa, q, f⟩ := p
  simp only at h
  have key := uri_to_iri_eq_nat sc hn (port.map Int.toNat) u pw pa q f decode_idna uri
  rw [← h] at key
  exact key

/-! The hypothesis `PortOk` cannot be dropped: for a negative port (which `SplitResult.port` never
returns - it raises `ValueError` outside `0..65535`) the code would print `:-1` while the model, whose
port is a natural number, has nothing to print. -/
example : (Gen.PyFns_Url.uri_to_iri (fun _ => ([], some ['h'], some (-1), none, none, [], [], [])) id []).toOption.map
    (·.2.1) = some "h:-1".toList := by decide
example : (tuple5 (Url.uriToIri (partsOfAttrs ([], some ['h'], some (-1), none, none, [], [], []) ['h']))).2.1
    = ['h'] := by decide

/-! ## the text-level model functions through the translated bodies -/

/-- the `SplitResult` attributes of a model `Parts` value whose host is already converted -/
def attrsOf (p : Url.Parts) : SplitAttrs :=
  (p.scheme, some p.host, p.port.map Int.ofNat, p.username, p.password, p.path, p.query, p.fragment)

def splitOfTuple (t : Pre.Str × Pre.Str × Pre.Str × Pre.Str × Pre.Str) : Url.Split :=
  { scheme := t.1, netloc := t.2.1, path := t.2.2.1, query := t.2.2.2.1, fragment := t.2.2.2.2 }

/-- The model's text-level `uri_to_iri` (`uriToIriText`, the function `get_current_url_eq` is stated
with) is: the model's `urlsplit` and attribute extraction, then the body of `uri_to_iri` *as translated
from the current source*, then the model's `urlunsplit`. -/
theorem uriToIriText_via_translated (o : Url.UrlOpaque) (url : Pre.Str) :
    Url.uriToIriText o url =
      (Url.urlsplit o url >>= Url.partsOf o.hostToUnicode) >>= fun p =>
        (Gen.PyFns_Url.uri_to_iri (fun _ => attrsOf p) id url).map fun t => Url.urlunsplit (splitOfTuple t) := by
  unfold Url.uriToIriText
  cases Url.urlsplit o url with
  | error e => rfl
  | ok sp =>
    cases hp : Url.partsOf o.hostToUnicode sp with
    | error e => simp [bind, Except.bind, hp]
    | ok p =>
      have key := uri_to_iri_eq_nat p.scheme (some p.host) p.port p.username p.password p.path p.query
        p.fragment id url
      have hh : hostAfterTotal id (some p.host) = p.host := by
        unfold hostAfterTotal; cases p.host <;> rfl
      simp only [bind, Except.bind, hp, attrsOf, key, hh, Except.map, splitOfTuple, tuple5]

/-- The model's text-level `iri_to_uri` (`iriToUriText`) is: the model's `urlsplit` and attribute
extraction, then the body of `iri_to_uri` *as translated from the current source*, then the model's
`urlunsplit`. -/
theorem iriToUriText_via_translated (o : Url.UrlOpaque) (url : Pre.Str) :
    Url.iriToUriText o url =
      (Url.urlsplit o url >>= Url.partsOf o.hostToAscii) >>= fun p =>
        (Gen.PyFns_Url.iri_to_uri (fun _ => attrsOf p) .ok url).map fun t => Url.urlunsplit (splitOfTuple t) := by
  unfold Url.iriToUriText
  cases Url.urlsplit o url with
  | error e => rfl
  | ok sp =>
    cases hp : Url.partsOf o.hostToAscii sp with
    | error e => simp [bind, Except.bind, hp]
    | ok p =>
      have key := iri_to_uri_eq_nat p.scheme (some p.host) p.port p.username p.password p.path p.query
        p.fragment .ok url
      have hh : hostAfter .ok (some p.host) = .ok p.host := by
        unfold hostAfter; cases p.host <;> rfl
      simp only [bind, Except.bind, hp, attrsOf, key, hh, Except.map, splitOfTuple, tuple5]

end Wz.PyFnsEq.Url
