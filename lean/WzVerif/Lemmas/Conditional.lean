/-
Helper lemmas for C11: byte-list facts about the range wrapper model. Core Lean only.
-/
import WzVerif.Model.Conditional
import WzVerif.Lemmas.DateText
namespace Wz.Cond
open Wz

/-- every chunk the wrapper emits is non-empty (what `__next__` guarantees) -/
def AllNonEmpty (l : List Bytes) : Prop := ∀ c ∈ l, c ≠ []

theorem isEmpty_false_ne {c : Bytes} (h : c.isEmpty = false) : c ≠ [] := by
  intro hc; subst hc; simp at h

/-- the iterations after the first one emit exactly the next `endB - rl` bytes of what is left -/
theorem rwRest_flatten (endB : Nat) (cs : List Bytes) (rl : Nat) (h : rl ≤ endB) :
    (rwRest endB cs rl).flatten = cs.flatten.take (endB - rl) := by
  induction cs generalizing rl with
  | nil => simp [rwRest]
  | cons c cs ih =>
    simp only [rwRest, List.flatten_cons]
    split
    · rename_i hge
      have hle : endB - rl ≤ c.length := by omega
      rw [List.take_append_of_le_length hle]
      split
      · rename_i he
        have : List.take (endB - rl) c = [] := by simpa using he
        simp [this]
      · simp
    · rename_i hlt
      have hlt' : rl + c.length < endB := by omega
      have ih' := ih (rl + c.length) (by omega)
      have e1 : endB - rl - c.length = endB - (rl + c.length) := by omega
      rw [List.take_append, List.take_of_length_le (by omega : c.length ≤ endB - rl), e1]
      split
      · rename_i he
        have : c = [] := by simpa using he
        subst this
        simpa using ih'
      · simp [List.flatten_cons, ih']

theorem rwRest_nonEmpty (endB : Nat) (cs : List Bytes) (rl : Nat) :
    AllNonEmpty (rwRest endB cs rl) := by
  induction cs generalizing rl with
  | nil => intro c hc; simp [rwRest] at hc
  | cons c cs ih =>
    intro x hx
    simp only [rwRest] at hx
    split at hx
    · split at hx
      · simp at hx
      · rename_i hne
        simp only [List.mem_singleton] at hx
        subst hx
        exact isEmpty_false_ne (by simpa using hne)
    · split at hx
      · exact ih _ x hx
      · rename_i hne
        rcases List.mem_cons.mp hx with rfl | hx
        · exact isEmpty_false_ne (by simpa using hne)
        · exact ih _ x hx

/-- the first iteration of the iterator path: the produced chunk followed by the remaining chunks is
the input from byte `start - rl` on, and `read_length` ends `|chunk|` past `start` -/
theorem rwFirst_some (start : Nat) (cs : List Bytes) (rl : Nat) (h : rl ≤ start)
    (c : Bytes) (cs' : List Bytes) (rl' : Nat) (hf : rwFirst start cs rl = some (c, cs', rl')) :
    c ++ cs'.flatten = cs.flatten.drop (start - rl) ∧ rl' = start + c.length ∧ c ≠ [] := by
  induction cs generalizing rl with
  | nil => simp [rwFirst] at hf
  | cons x xs ih =>
    simp only [rwFirst] at hf
    split at hf
    · rename_i hle
      obtain ⟨h1, h2, h3⟩ := ih (rl + x.length) hle hf
      refine ⟨?_, h2, h3⟩
      rw [List.flatten_cons, List.drop_append, List.drop_of_length_le (by omega : x.length ≤ start - rl)]
      have : start - rl - x.length = start - (rl + x.length) := by omega
      rw [this, List.nil_append]
      exact h1
    · rename_i hgt
      simp only [Option.some.injEq, Prod.mk.injEq] at hf
      obtain ⟨rfl, rfl, rfl⟩ := hf
      have e : x.length - (rl + x.length - start) = start - rl := by omega
      rw [e]
      refine ⟨?_, ?_, ?_⟩
      · rw [List.flatten_cons, List.drop_append_of_le_length (by omega : start - rl ≤ x.length)]
      · rw [List.length_drop]; omega
      · intro hc
        have := congrArg List.length hc
        rw [List.length_drop] at this
        simp at this
        omega

theorem rwFirst_none (start : Nat) (cs : List Bytes) (rl : Nat) (h : rl ≤ start)
    (hf : rwFirst start cs rl = none) : rl + cs.flatten.length ≤ start := by
  induction cs generalizing rl with
  | nil => simpa using h
  | cons x xs ih =>
    simp only [rwFirst] at hf
    split at hf
    · rename_i hle
      have := ih (rl + x.length) hle hf
      simp only [List.flatten_cons, List.length_append]
      omega
    · cases hf

/-- FileWrapper blocks: with enough fuel they concatenate to the data and none is empty -/
theorem blocks_flatten (b : Nat) (hb : 0 < b) (fuel : Nat) (d : Bytes) (h : d.length < fuel) :
    (blocks b fuel d).flatten = d := by
  induction fuel generalizing d with
  | zero => omega
  | succ n ih =>
    simp only [blocks]
    split
    · rename_i he
      have hb' : (b == 0) = false := by simp; omega
      simp only [hb', Bool.or_false] at he
      have : d = [] := by simpa using he
      simp [this]
    · rename_i he
      have hne : d ≠ [] := by
        intro hd; subst hd; simp at he
      have hlen : 0 < d.length := List.length_pos_iff.mpr hne
      rw [List.flatten_cons, ih (d.drop b) (by rw [List.length_drop]; omega)]
      exact List.take_append_drop b d

/-! ### entity-tag text -/

/-- `"tag"` -/
def quoteTag (tag : Str) : Str := '"' :: tag ++ ['"']

/-- no `"` and no line feed inside -/
def CleanTag (tag : Str) : Prop := ∀ c ∈ tag, c ≠ '"' ∧ c ≠ '\n'

theorem quotedTag_clean (tag acc : Str) (h : CleanTag tag) :
    quotedTag (tag ++ ['"']) acc = some (acc.reverse ++ tag, []) := by
  induction tag generalizing acc with
  | nil => simp [quotedTag, etagDelim]
  | cons c t ih =>
    have hc := h c (by simp)
    have ht : CleanTag t := fun x hx => h x (by simp [hx])
    simp only [List.cons_append, quotedTag]
    have h1 : (c == '"') = false := by simpa using hc.1
    have h2 : (c == '\n') = false := by simpa using hc.2
    simp only [h1, h2, Bool.false_eq_true, ↓reduceIte]
    rw [ih (c :: acc) ht]
    simp

theorem parseEtags_quoted (tag : Str) (h : CleanTag tag) :
    parseEtags (some (quoteTag tag)) = ⟨[some tag], [], false⟩ := by
  unfold parseEtags quoteTag
  have hq := quotedTag_clean tag [] h
  simp only [List.reverse_nil, List.nil_append] at hq
  simp [parseEtagsLoop, weakPrefix, etagMatch, quotedAt, hq]

theorem strip_quoteTag (tag : Str) : Py.strip (quoteTag tag) = quoteTag tag := by
  unfold Py.strip Py.rstripBy quoteTag
  have h1 : Py.isSpace '"' = false := by decide
  simp [h1]

theorem getLast_quote (tag : Str) : ('"' :: (tag ++ ['"'])).getLast? = some '"' := by
  rw [← List.cons_append, List.getLast?_append]
  simp

theorem unquoteEtag_quoted (tag : Str) : unquoteEtag (quoteTag tag) = some (tag, false) := by
  unfold unquoteEtag
  rw [strip_quoteTag]
  simp [quoteTag, getLast_quote]

/-! ### Range header text -/

/-- a non-empty string of ASCII digits -/
def IsDigits (ds : Str) : Prop := ds ≠ [] ∧ ∀ c ∈ ds, isDigitA c = true

theorem digit_not_space {c : Char} (h : isDigitA c = true) : Py.isSpace c = false := by
  simp only [isDigitA, Bool.and_eq_true, decide_eq_true_eq] at h
  have h1 : 48 ≤ c.toNat := h.1
  have h2 : c.toNat ≤ 57 := h.2
  simp only [Py.isSpace]
  simp
  omega

theorem digit_ne {c d : Char} (h : isDigitA c = true) (hd : isDigitA d = false) : c ≠ d := by
  intro e; subst e; rw [h] at hd; cases hd

theorem dropWhile_head_false {p : Char → Bool} {s : Str} (h : ∀ c, s.head? = some c → p c = false) :
    s.dropWhile p = s := by
  cases s with
  | nil => rfl
  | cons c t => simp [h c rfl]

theorem strip_noSpace (s : Str) (h : ∀ c ∈ s, Py.isSpace c = false) : Py.strip s = s := by
  unfold Py.strip Py.rstripBy
  rw [dropWhile_head_false (s := s)]
  · rw [dropWhile_head_false (s := s.reverse)]
    · simp
    · intro c hc
      have : c ∈ s.reverse := List.mem_of_mem_head? hc
      exact h c (by simpa using this)
  · intro c hc
    exact h c (List.mem_of_mem_head? hc)

theorem plainInt_digits (ds : Str) (h : IsDigits ds) : plainInt ds = some (digitsVal ds : Int) := by
  unfold plainInt
  rw [strip_noSpace ds (fun c hc => digit_not_space (h.2 c hc))]
  cases ds with
  | nil => exact absurd rfl h.1
  | cons c t =>
    have hc : c ≠ '-' := digit_ne (h.2 c (by simp)) (by decide)
    have hall : (c :: t).all isDigitA = true := List.all_eq_true.mpr h.2
    simp [hc, hall]

theorem plainInt_neg_digits (ds : Str) (h : IsDigits ds) :
    plainInt ('-' :: ds) = some (-(digitsVal ds : Int)) := by
  unfold plainInt
  have hsp : ∀ c ∈ '-' :: ds, Py.isSpace c = false := by
    intro c hc
    rcases List.mem_cons.mp hc with rfl | hc
    · decide
    · exact digit_not_space (h.2 c hc)
  rw [strip_noSpace _ hsp]
  have hall : ds.all isDigitA = true := List.all_eq_true.mpr h.2
  have hne : ds.isEmpty = false := by
    cases ds with
    | nil => exact absurd rfl h.1
    | cons _ _ => rfl
  simp [hall, hne]

theorem splitOnChar_none (d : Char) (s acc : Str) (h : ∀ c ∈ s, c ≠ d) :
    splitOnChar d s acc = [acc.reverse ++ s] := by
  induction s generalizing acc with
  | nil => simp [splitOnChar]
  | cons c t ih =>
    have hc : (c == d) = false := by simpa using h c (by simp)
    simp only [splitOnChar, hc, Bool.false_eq_true, ↓reduceIte]
    rw [ih (c :: acc) (fun x hx => h x (by simp [hx]))]
    simp

theorem takeWhile_digits_dash (ds rest : Str) (h : ∀ c ∈ ds, isDigitA c = true) :
    (ds ++ '-' :: rest).takeWhile (· != '-') = ds ∧
    (ds ++ '-' :: rest).dropWhile (· != '-') = '-' :: rest := by
  induction ds with
  | nil => simp
  | cons c t ih =>
    have hc : c ≠ '-' := digit_ne (h c (by simp)) (by decide)
    have := ih (fun x hx => h x (by simp [hx]))
    simp [hc, this.1, this.2]

theorem item_first_last (d1 d2 : Str) (h1 : IsDigits d1) (h2 : IsDigits d2)
    (hle : digitsVal d1 ≤ digitsVal d2) (lastEnd : Int) (hl : 0 ≤ lastEnd) (hb : lastEnd ≤ digitsVal d1)
    (rest : List Str) (acc : List (Int × Option Int)) :
    parseRangeItems ((d1 ++ '-' :: d2) :: rest) lastEnd acc =
      parseRangeItems rest ((digitsVal d2 : Int) + 1) (((digitsVal d1 : Int), some ((digitsVal d2 : Int) + 1)) :: acc) := by
  have hsp : ∀ c ∈ d1 ++ '-' :: d2, Py.isSpace c = false := by
    intro c hc
    rcases List.mem_append.mp hc with hc | hc
    · exact digit_not_space (h1.2 c hc)
    · rcases List.mem_cons.mp hc with rfl | hc
      · decide
      · exact digit_not_space (h2.2 c hc)
  have htd := takeWhile_digits_dash d1 d2 h1.2
  have hhead : (d1 ++ '-' :: d2).head? ≠ some '-' := by
    cases d1 with
    | nil => exact absurd rfl h1.1
    | cons c t =>
      have hc : c ≠ '-' := digit_ne (h1.2 c (by simp)) (by decide)
      simpa using hc
  have hcont : (d1 ++ '-' :: d2).contains '-' = true := by simp
  have hs1 := strip_noSpace d1 (fun c hc => digit_not_space (h1.2 c hc))
  have hs2 := strip_noSpace d2 (fun c hc => digit_not_space (h2.2 c hc))
  have he2 : d2.isEmpty = false := by
    cases d2 with
    | nil => exact absurd rfl h2.1
    | cons _ _ => rfl
  rw [parseRangeItems]
  simp only [strip_noSpace _ hsp, hcont, Bool.not_true, Bool.false_eq_true, ↓reduceIte, htd.1, htd.2,
    List.drop_succ_cons, List.drop_zero, hs1, hs2, plainInt_digits d1 h1, plainInt_digits d2 h2, he2]
  have c1 : ((d1 ++ '-' :: d2).head? == some '-') = false := by simpa using hhead
  simp only [c1, Bool.false_eq_true, ↓reduceIte]
  have c2 : (decide ((digitsVal d1 : Int) < lastEnd) || decide (lastEnd < 0)) = false := by
    simp; omega
  simp only [c2, Bool.false_eq_true, ↓reduceIte]
  have c3 : ¬ ((digitsVal d1 : Int) ≥ (digitsVal d2 : Int) + 1) := by omega
  simp [c3]

theorem item_open (d1 : Str) (h1 : IsDigits d1) (lastEnd : Int) (hl : 0 ≤ lastEnd)
    (hb : lastEnd ≤ digitsVal d1) (rest : List Str) (acc : List (Int × Option Int)) :
    parseRangeItems ((d1 ++ ['-']) :: rest) lastEnd acc =
      parseRangeItems rest (-1) (((digitsVal d1 : Int), none) :: acc) := by
  have hsp : ∀ c ∈ d1 ++ ['-'], Py.isSpace c = false := by
    intro c hc
    rcases List.mem_append.mp hc with hc | hc
    · exact digit_not_space (h1.2 c hc)
    · simp only [List.mem_singleton] at hc; subst hc; decide
  have htd := takeWhile_digits_dash d1 [] h1.2
  have hhead : (d1 ++ ['-']).head? ≠ some '-' := by
    cases d1 with
    | nil => exact absurd rfl h1.1
    | cons c t =>
      have hc : c ≠ '-' := digit_ne (h1.2 c (by simp)) (by decide)
      simpa using hc
  have hcont : (d1 ++ ['-']).contains '-' = true := by simp
  have hs1 := strip_noSpace d1 (fun c hc => digit_not_space (h1.2 c hc))
  have hs0 : Py.strip [] = [] := by decide
  rw [parseRangeItems]
  simp only [strip_noSpace _ hsp, hcont, Bool.not_true, Bool.false_eq_true, ↓reduceIte, htd.1, htd.2,
    List.drop_succ_cons, List.drop_zero, hs1, hs0, plainInt_digits d1 h1]
  have c1 : ((d1 ++ ['-']).head? == some '-') = false := by simpa using hhead
  simp only [c1, Bool.false_eq_true, ↓reduceIte]
  have c2 : (decide ((digitsVal d1 : Int) < lastEnd) || decide (lastEnd < 0)) = false := by
    simp; omega
  simp [c2]

theorem item_suffix (d : Str) (h : IsDigits d) (hpos : 0 < digitsVal d) (lastEnd : Int) (hl : 0 ≤ lastEnd)
    (rest : List Str) (acc : List (Int × Option Int)) :
    parseRangeItems (('-' :: d) :: rest) lastEnd acc =
      parseRangeItems rest (-1) ((-(digitsVal d : Int), none) :: acc) := by
  have hsp : ∀ c ∈ '-' :: d, Py.isSpace c = false := by
    intro c hc
    rcases List.mem_cons.mp hc with rfl | hc
    · decide
    · exact digit_not_space (h.2 c hc)
  rw [parseRangeItems]
  have c0 : ¬ lastEnd < 0 := by omega
  have c1 : ¬ (digitsVal d = 0) := by omega
  simp [strip_noSpace _ hsp, plainInt_neg_digits d h, c0, c1]

/-- a suffix length of zero makes the whole header unparsable (84dd3fe) -/
theorem item_suffix_zero (d : Str) (h : IsDigits d) (hz : digitsVal d = 0) (lastEnd : Int)
    (rest : List Str) (acc : List (Int × Option Int)) :
    parseRangeItems (('-' :: d) :: rest) lastEnd acc = none := by
  have hsp : ∀ c ∈ '-' :: d, Py.isSpace c = false := by
    intro c hc
    rcases List.mem_cons.mp hc with rfl | hc
    · decide
    · exact digit_not_space (h.2 c hc)
  rw [parseRangeItems]
  simp [strip_noSpace _ hsp, plainInt_neg_digits d h, hz]

/-- after an open-ended or suffix item every further item makes the header unparsable -/
theorem item_after_open (item : Str) (rest : List Str) (acc : List (Int × Option Int)) :
    parseRangeItems (item :: rest) (-1) acc = none := by
  rw [parseRangeItems]
  simp only
  split
  · rfl
  · split
    · simp
    · cases plainInt (Py.strip (List.takeWhile (fun x => x != '-') (Py.strip item))) with
      | none => rfl
      | some b => simp

theorem splitOnChar_cons (d : Char) (s1 s2 acc : Str) (h : ∀ c ∈ s1, c ≠ d) :
    splitOnChar d (s1 ++ d :: s2) acc = (acc.reverse ++ s1) :: splitOnChar d s2 [] := by
  induction s1 generalizing acc with
  | nil => simp [splitOnChar]
  | cons c t ih =>
    have hc : (c == d) = false := by simpa using h c (by simp)
    simp only [List.cons_append, splitOnChar, hc, Bool.false_eq_true, ↓reduceIte]
    rw [ih (c :: acc) (fun x hx => h x (by simp [hx]))]
    simp

def bytesEq : Str := ['b', 'y', 't', 'e', 's', '=']

/-- `bytes=<specs>`: the unit is recognised and the specs are split at commas -/
theorem parseRangeHeader_bytes (specs : Str) :
    parseRangeHeader (some (bytesEq ++ specs)) =
      (parseRangeItems (splitOnChar ',' specs []) 0 []).map fun rs => ⟨bytesUnit, rs⟩ := by
  have hs : Py.strip ['b', 'y', 't', 'e', 's'] = ['b', 'y', 't', 'e', 's'] := by decide
  have hl : lowerA ['b', 'y', 't', 'e', 's'] = bytesUnit := by decide
  simp [parseRangeHeader, bytesEq, hs, hl]

theorem digits_no_comma {d : Str} (h : ∀ c ∈ d, isDigitA c = true) : ∀ c ∈ d, c ≠ ',' :=
  fun c hc => digit_ne (h c hc) (by decide)

/-! ### dates as text (C06's IMF-fixdate model) -/

/-- an instant (seconds from 0001-01-01) that `http_date` writes with a year 0100 … 9999 -/
def InDateRange (t : Nat) : Prop := Date.tMin ≤ t ∧ t ≤ Date.tMax

theorem dateOfText_httpDate (t : Nat) (h : InDateRange t) :
    dateOfText (some (Date.httpDate t)) = some (t : Int) := by
  simp [dateOfText, Date.date_roundtrip_any t h.1 h.2]

theorem httpDate_ne_nil (t : Nat) (h : InDateRange t) : Date.httpDate t ≠ [] := by
  intro e
  have := Date.date_roundtrip_any t h.1 h.2
  rw [e] at this
  simp [Date.parseDate, Date.parseImfFixdate] at this

theorem filter_nonEmpty_flatten (chunks : List Bytes) :
    (chunks.filter (!·.isEmpty)).flatten = chunks.flatten := by
  induction chunks with
  | nil => rfl
  | cons c cs ih =>
    simp only [List.filter_cons, List.flatten_cons]
    cases hc : c.isEmpty with
    | true =>
      have : c = [] := by simpa using hc
      simp [this, ih]
    | false => simp [ih]

theorem alpha_not_space_quote (c : Char) (h : c.isAlpha = true) :
    Py.isSpace c = false ∧ c ≠ '"' ∧ c ≠ '/' := by
  have hn : (65 ≤ c.toNat ∧ c.toNat ≤ 90) ∨ (97 ≤ c.toNat ∧ c.toNat ≤ 122) := by
    simp only [Char.isAlpha, Char.isUpper, Char.isLower, Bool.or_eq_true, Bool.and_eq_true,
      decide_eq_true_eq] at h
    simp only [UInt32.le_iff_toNat_le] at h
    have e : c.val.toNat = c.toNat := rfl
    simp only [e] at h
    rcases h with h | h
    · left; exact ⟨h.1, h.2⟩
    · right; exact ⟨h.1, h.2⟩
  refine ⟨?_, ?_, ?_⟩
  · simp only [Py.isSpace]; simp; omega
  all_goals (intro e; subst e; revert hn; decide)

theorem httpDate_not_etag_like (t : Nat) (h : InDateRange t) : looksLikeEtag (Date.httpDate t) = false := by
  have hp := Date.date_roundtrip_any t h.1 h.2
  generalize Date.httpDate t = s at hp
  unfold Date.parseDate Date.parseImfFixdate at hp
  split at hp
  · rename_i w1 w2 w3 d1 d2 m1 m2 m3 y1 y2 y3 y4 h1 h2 i1 i2 s1 s2
    by_cases ha : (w1.isAlpha && w2.isAlpha && w3.isAlpha) = true
    · simp only [Bool.and_eq_true] at ha
      have a1 := alpha_not_space_quote w1 ha.1.1
      have a2 := alpha_not_space_quote w2 ha.1.2
      unfold looksLikeEtag
      simp only [List.dropWhile_cons, a1.1, Bool.false_eq_true, ↓reduceIte]
      split
      · rename_i heq; simp only [List.cons.injEq] at heq; exact absurd heq.1 a1.2.1
      · rename_i heq; simp only [List.cons.injEq] at heq; exact absurd heq.2.1 a2.2.2
      · rename_i heq; simp only [List.cons.injEq] at heq; exact absurd heq.2.1 a2.2.2
      · rfl
    · simp [ha] at hp
  · simp at hp

end Wz.Cond
