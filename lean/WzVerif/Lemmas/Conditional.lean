/-
Helper lemmas for C11: byte-list facts about the range wrapper model. Core Lean only.
-/
import WzVerif.Model.Conditional
namespace Wz.Cond
open Wz

/-- every chunk the wrapper emits is non-empty (what `__next__` guarantees) -/
def AllNonEmpty (l : List Bytes) : Prop := ∀ c ∈ l, c ≠ []

theorem isEmpty_false_ne {c : Bytes} (h : c.isEmpty = false) : c ≠ [] := by
  intro hc; subst hc; simp at h

/-- the iterations after the first one emit exactly the next `endB - rl` bytes of what is left -/
theorem rwRest_flatten (endB : Nat) (cs : List Bytes) (rl : Nat) (h : rl ≤ endB) :
    (rwRest endB cs rl).flatten = cs.flatten.take (endB - rl) := by
  induction cs generalizing rl with
  | nil => simp [rwRest]
  | cons c cs ih =>
    simp only [rwRest, List.flatten_cons]
    split
    · rename_i hge
      have hle : endB - rl ≤ c.length := by omega
      rw [List.take_append_of_le_length hle]
      split
      · rename_i he
        have : List.take (endB - rl) c = [] := by simpa using he
        simp [this]
      · simp
    · rename_i hlt
      have hlt' : rl + c.length < endB := by omega
      have ih' := ih (rl + c.length) (by omega)
      have e1 : endB - rl - c.length = endB - (rl + c.length) := by omega
      rw [List.take_append, List.take_of_length_le (by omega : c.length ≤ endB - rl), e1]
      split
      · rename_i he
        have : c = [] := by simpa using he
        subst this
        simpa using ih'
      · simp [List.flatten_cons, ih']

theorem rwRest_nonEmpty (endB : Nat) (cs : List Bytes) (rl : Nat) :
    AllNonEmpty (rwRest endB cs rl) := by
  induction cs generalizing rl with
  | nil => intro c hc; simp [rwRest] at hc
  | cons c cs ih =>
    intro x hx
    simp only [rwRest] at hx
    split at hx
    · split at hx
      · simp at hx
      · rename_i hne
        simp only [List.mem_singleton] at hx
        subst hx
        exact isEmpty_false_ne (by simpa using hne)
    · split at hx
      · exact ih _ x hx
      · rename_i hne
        rcases List.mem_cons.mp hx with rfl | hx
        · exact isEmpty_false_ne (by simpa using hne)
        · exact ih _ x hx

/-- the first iteration of the iterator path: the produced chunk followed by the remaining chunks is
the input from byte `start - rl` on, and `read_length` ends `|chunk|` past `start` -/
theorem rwFirst_some (start : Nat) (cs : List Bytes) (rl : Nat) (h : rl ≤ start)
    (c : Bytes) (cs' : List Bytes) (rl' : Nat) (hf : rwFirst start cs rl = some (c, cs', rl')) :
    c ++ cs'.flatten = cs.flatten.drop (start - rl) ∧ rl' = start + c.length ∧ c ≠ [] := by
  induction cs generalizing rl with
  | nil => simp [rwFirst] at hf
  | cons x xs ih =>
    simp only [rwFirst] at hf
    split at hf
    · rename_i hle
      obtain ⟨h1, h2, h3⟩ := ih (rl + x.length) hle hf
      refine ⟨?_, h2, h3⟩
      rw [List.flatten_cons, List.drop_append, List.drop_of_length_le (by omega : x.length ≤ start - rl)]
      have : start - rl - x.length = start - (rl + x.length) := by omega
      rw [this, List.nil_append]
      exact h1
    · rename_i hgt
      simp only [Option.some.injEq, Prod.mk.injEq] at hf
      obtain ⟨rfl, rfl, rfl⟩ := hf
      have e : x.length - (rl + x.length - start) = start - rl := by omega
      rw [e]
      refine ⟨?_, ?_, ?_⟩
      · rw [List.flatten_cons, List.drop_append_of_le_length (by omega : start - rl ≤ x.length)]
      · rw [List.length_drop]; omega
      · intro hc
        have := congrArg List.length hc
        rw [List.length_drop] at this
        simp at this
        omega

theorem rwFirst_none (start : Nat) (cs : List Bytes) (rl : Nat)
    (hf : rwFirst start cs rl = none) : rl + cs.flatten.length ≤ start := by
  induction cs generalizing rl with
  | nil => simp [rwFirst] at hf ⊢; sorry
  | cons x xs ih =>
    simp only [rwFirst] at hf
    split at hf
    · have := ih (rl + x.length) hf
      simp only [List.flatten_cons, List.length_append]
      omega
    · cases hf

/-- FileWrapper blocks: with enough fuel they concatenate to the data and none is empty -/
theorem blocks_flatten (b : Nat) (hb : 0 < b) (fuel : Nat) (d : Bytes) (h : d.length < fuel) :
    (blocks b fuel d).flatten = d := by
  induction fuel generalizing d with
  | zero => omega
  | succ n ih =>
    simp only [blocks]
    split
    · rename_i he
      have hb' : (b == 0) = false := by simp; omega
      simp only [hb', Bool.or_false] at he
      have : d = [] := by simpa using he
      simp [this]
    · rename_i he
      have hne : d ≠ [] := by
        intro hd; subst hd; simp at he
      have hlen : 0 < d.length := List.length_pos_iff.mpr hne
      rw [List.flatten_cons, ih (d.drop b) (by rw [List.length_drop]; omega)]
      exact List.take_append_drop b d

end Wz.Cond
