/-
The `HeaderSet` constructor's case-insensitive de-duplication (C06, after repair 1a2e0e6 / F08c):
the result has no two members equal ignoring case, and a list without such duplicates is kept as is —
hence `parse_set_header(HeaderSet(items).to_header())` has the members of `HeaderSet(items)` for
*every* list, and parsing is a normal form on duplicate-bearing text.
-/
import WzVerif.Lemmas.Http
namespace Wz.Http
open Wz

theorem hsDedupGo_spec (seen : List Str) (l : List Str) :
    ((hsDedupGo seen l).map pyLower).Nodup ∧ ∀ x ∈ hsDedupGo seen l, pyLower x ∉ seen := by
  induction l generalizing seen with
  | nil => simp [hsDedupGo]
  | cons h t ih =>
    unfold hsDedupGo
    by_cases hc : seen.contains (pyLower h) = true
    · simp only [hc, if_true]; exact ih seen
    · simp only [hc, Bool.false_eq_true, if_false]
      obtain ⟨h1, h2⟩ := ih (pyLower h :: seen)
      constructor
      · simp only [List.map_cons, List.nodup_cons]
        refine ⟨?_, h1⟩
        intro hm
        obtain ⟨x, hx, hxe⟩ := List.mem_map.1 hm
        exact h2 x hx (by rw [hxe]; exact List.mem_cons_self)
      · intro x hx
        rcases List.mem_cons.1 hx with rfl | hx
        · simpa using hc
        · intro hs
          exact h2 x hx (List.mem_cons_of_mem _ hs)

theorem hsDedupGo_id (seen : List Str) (l : List Str) (hn : (l.map pyLower).Nodup)
    (hd : ∀ x ∈ l, pyLower x ∉ seen) : hsDedupGo seen l = l := by
  induction l generalizing seen with
  | nil => rfl
  | cons h t ih =>
    unfold hsDedupGo
    have hc : seen.contains (pyLower h) = false := by
      have := hd h List.mem_cons_self
      simpa using this
    simp only [hc, Bool.false_eq_true, if_false]
    simp only [List.map_cons, List.nodup_cons] at hn
    rw [ih (pyLower h :: seen) hn.2 (by
      intro x hx hm
      rcases List.mem_cons.1 hm with e | e
      · exact hn.1 (by rw [← e]; exact List.mem_map_of_mem hx)
      · exact hd x (List.mem_cons_of_mem _ hx) e)]

theorem headerSetMembers_nodup (items : List Str) : ((headerSetMembers items).map pyLower).Nodup :=
  (hsDedupGo_spec [] items).1

theorem headerSetMembers_of_nodup (items : List Str) (h : (items.map pyLower).Nodup) : headerSetMembers items = items :=
  hsDedupGo_id [] items h (by simp)

theorem headerSetMembers_idem (items : List Str) : headerSetMembers (headerSetMembers items) = headerSetMembers items :=
  headerSetMembers_of_nodup _ (headerSetMembers_nodup items)

/-- list level: the text `to_header` writes for a member list parses back to that list -/
theorem parseSet_list_dump_any (items : List Str) : parseSetHeader (headerSetToHeader items) = items := by
  unfold parseSetHeader headerSetToHeader
  have h := parseList_dump_any items
  unfold dumpHeaderList at h
  split
  · next he =>
    cases items with
    | nil => rfl
    | cons v vs =>
      exfalso
      rw [List.isEmpty_iff] at he
      rw [he] at h
      simp [parseListHeader, parseHttpList, httpListGo] at h
  · exact h

/-- `list(parse_set_header(HeaderSet(items).to_header())) == list(HeaderSet(items))` for every list -/
theorem parseSet_dump_any (items : List Str) :
    parseSetMembers (headerSetToHeader (headerSetMembers items)) = headerSetMembers items := by
  unfold parseSetMembers
  rw [parseSet_list_dump_any, headerSetMembers_idem]

/-- normal form on arbitrary (duplicate-bearing) text -/
theorem parseSet_normal_form_any (h : Str) :
    parseSetMembers (headerSetToHeader (parseSetMembers h)) = parseSetMembers h := by
  unfold parseSetMembers
  rw [parseSet_list_dump_any, headerSetMembers_idem]

end Wz.Http
