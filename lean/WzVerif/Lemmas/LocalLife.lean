/-
Helper lemmas for C18, object lifecycle: the invariant "every var a context holds a value for was
created before", lifted over histories with create / drop / gc events. Core Lean only.
-/
import WzVerif.Lemmas.Local
import WzVerif.Model.LocalLife
namespace Wz.Local
open Wz.Gen.LocalOps

/-- a disciplined call in context `c` on cell `v` re-binds no other (context, cell) pair -/
theorem call_ctxs_other {w : World} (hw : WF w) (c v : Nat) (p : Prog) (a : Args)
    (hp : CopyBeforeWrite p) {c' v' : Nat} (hne : ¬(c' = c ∧ v' = v)) :
    (stepEvent w (.call c v p a)).ctxs c' v' = w.ctxs c' v' := by
  simp only [stepEvent]
  split
  · exact (runProg_inv hw c v a p hp).ctxOther c' v' hne
  · rfl

structure LInv (lw : LWorld) : Prop where
  wf : WF lw.w
  /-- a context holds values only for vars that exist -/
  bound : ∀ c v id, lw.w.ctxs c v = some id → v < lw.nvar
  /-- every instance's var exists -/
  instLt : ∀ i ∈ lw.insts, i.var < lw.nvar

theorem linv_init : LInv LWorld.init :=
  ⟨wf_init, by intro c v id h; simp [LWorld.init, World.init] at h, by intro i h; simp [LWorld.init] at h⟩

theorem inst?_mem {lw : LWorld} {h : Nat} {i : Inst} (hi : lw.inst? h = some i) : i ∈ lw.insts := by
  unfold LWorld.inst? at hi
  split at hi
  · cases hi
  · exact List.mem_of_getElem? hi

theorem lstep_inv {lw : LWorld} (hinv : LInv lw) (e : LEvent) (hc : e.cbw) (ho : e.ownVar) :
    LInv (lstep lw e) ∧ lw.w.nctx ≤ (lstep lw e).w.nctx ∧ lw.nvar ≤ (lstep lw e).nvar ∧
    ∀ c' v', c' < lw.w.nctx → ¬ e.touches lw c' v' →
      obs (lstep lw e).w c' v' = obs lw.w c' v' := by
  cases e with
  | create pol addr st =>
    have hp : pol = .ownFresh := ho
    subst hp
    refine ⟨⟨hinv.wf, ?_, ?_⟩, Nat.le_refl _, by simp [lstep], fun _ _ _ _ => rfl⟩
    · intro c v id h
      have := hinv.bound c v id h
      simp only [lstep]; omega
    · intro i hi
      simp only [lstep, List.mem_append, List.mem_singleton] at hi ⊢
      rcases hi with hi | rfl
      · have := hinv.instLt i hi; omega
      · simp
  | createSharing h addr =>
    simp only [lstep]
    cases hi : lw.inst? h with
    | none => exact ⟨hinv, Nat.le_refl _, Nat.le_refl _, fun _ _ _ _ => rfl⟩
    | some i =>
      refine ⟨⟨hinv.wf, hinv.bound, ?_⟩, Nat.le_refl _, Nat.le_refl _, fun _ _ _ _ => rfl⟩
      intro j hj
      simp only [List.mem_append, List.mem_singleton] at hj
      rcases hj with hj | rfl
      · exact hinv.instLt j hj
      · exact hinv.instLt i (inst?_mem hi)
  | drop h => exact ⟨⟨hinv.wf, hinv.bound, hinv.instLt⟩, Nat.le_refl _, Nat.le_refl _, fun _ _ _ _ => rfl⟩
  | gc => exact ⟨hinv, Nat.le_refl _, Nat.le_refl _, fun _ _ _ _ => rfl⟩
  | call c h p a =>
    have hp : CopyBeforeWrite p := hc
    simp only [lstep]
    cases hi : lw.inst? h with
    | none => exact ⟨hinv, Nat.le_refl _, Nat.le_refl _, fun _ _ _ _ => rfl⟩
    | some i =>
      obtain ⟨h1, h2, h3⟩ := stepEvent_inv hinv.wf (.call c i.var p a) hp
      refine ⟨⟨h1, ?_, hinv.instLt⟩, h2, Nat.le_refl _, ?_⟩
      · intro c' v' id hid
        by_cases hcv : c' = c ∧ v' = i.var
        · rw [hcv.2]; exact hinv.instLt i (inst?_mem hi)
        · rw [call_ctxs_other hinv.wf c i.var p a hp hcv] at hid
          exact hinv.bound c' v' id hid
      · intro c' v' hc' hnt
        apply h3 c' v' hc'
        intro ht
        exact hnt ⟨ht.1, i, hi, ht.2⟩
  | copyCtx parent =>
    obtain ⟨h1, h2, h3⟩ := stepEvent_inv hinv.wf (.copyCtx parent) trivial
    refine ⟨⟨h1, ?_, hinv.instLt⟩, h2, Nat.le_refl _, fun c' v' hc' _ => h3 c' v' hc' (by simp [Event.touches])⟩
    intro c v id hid
    simp only [lstep, stepEvent] at hid
    split at hid
    · split at hid
      · exact hinv.bound parent v id hid
      · cases hid
    · exact hinv.bound c v id hid
  | freshCtx =>
    obtain ⟨h1, h2, h3⟩ := stepEvent_inv hinv.wf .freshCtx trivial
    refine ⟨⟨h1, ?_, hinv.instLt⟩, h2, Nat.le_refl _, fun c' v' hc' _ => h3 c' v' hc' (by simp [Event.touches])⟩
    intro c v id hid
    simp only [lstep, stepEvent] at hid
    split at hid
    · cases hid
    · exact hinv.bound c v id hid
  | cvSet c j x =>
    simp only [lstep]
    split
    · exact ⟨⟨hinv.wf, hinv.bound, hinv.instLt⟩, Nat.le_refl _, Nat.le_refl _, fun _ _ _ _ => rfl⟩
    · exact ⟨hinv, Nat.le_refl _, Nat.le_refl _, fun _ _ _ _ => rfl⟩

theorem lrun_inv {lw : LWorld} (hinv : LInv lw) :
    ∀ (es : List LEvent), (∀ e ∈ es, e.cbw) → (∀ e ∈ es, e.ownVar) →
    LInv (lrun lw es) ∧ lw.w.nctx ≤ (lrun lw es).w.nctx ∧ lw.nvar ≤ (lrun lw es).nvar ∧
    ∀ c' v', c' < lw.w.nctx → NoTouch c' v' lw es → obs (lrun lw es).w c' v' = obs lw.w c' v' := by
  intro es
  induction es generalizing lw with
  | nil => intro _ _; exact ⟨hinv, Nat.le_refl _, Nat.le_refl _, fun _ _ _ _ => rfl⟩
  | cons e t ih =>
    intro hc ho
    obtain ⟨h1, h2, h2', h3⟩ := lstep_inv hinv e (hc e (by simp)) (ho e (by simp))
    obtain ⟨g1, g2, g2', g3⟩ := ih h1 (fun x hx => hc x (List.mem_cons_of_mem _ hx))
      (fun x hx => ho x (List.mem_cons_of_mem _ hx))
    simp only [lrun, List.foldl_cons] at g1 g2 g2' g3 ⊢
    refine ⟨g1, Nat.le_trans h2 g2, Nat.le_trans h2' g2', ?_⟩
    intro c' v' hc' hnt
    rw [g3 c' v' (by omega) hnt.2]
    exact h3 c' v' hc' hnt.1

/-! ### own vars are pairwise distinct -/

/-- two different instances that were both created without `context_var` have different cells -/
def OwnDistinct (lw : LWorld) : Prop :=
  ∀ (a b : Nat) (ia ib : Inst), lw.insts[a]? = some ia → lw.insts[b]? = some ib → a ≠ b →
    ia.own = true → ib.own = true → ia.var ≠ ib.var

theorem ownDistinct_init : OwnDistinct LWorld.init := by
  intro a b ia ib ha; simp [LWorld.init] at ha

theorem getElem?_append_singleton {α} (l : List α) (x : α) (a : Nat) (y : α)
    (h : (l ++ [x])[a]? = some y) : l[a]? = some y ∨ (a = l.length ∧ y = x) := by
  by_cases hlt : a < l.length
  · rw [List.getElem?_append_left hlt] at h; exact Or.inl h
  · rw [List.getElem?_append_right (by omega)] at h
    by_cases he : a = l.length
    · subst he; simp at h; exact Or.inr ⟨rfl, h.symm⟩
    · have : a - l.length ≠ 0 := by omega
      cases hk : a - l.length with
      | zero => exact absurd hk this
      | succ k => rw [hk] at h; simp at h

theorem lstep_ownDistinct {lw : LWorld} (hinv : LInv lw) (hd : OwnDistinct lw) (e : LEvent)
    (ho : e.ownVar) : OwnDistinct (lstep lw e) := by
  unfold OwnDistinct at hd ⊢
  cases e with
  | create pol addr st =>
    have hp : pol = .ownFresh := ho
    subst hp
    intro a b ia ib ha hb hab hoa hob
    simp only [lstep] at ha hb
    rcases getElem?_append_singleton _ _ _ _ ha with ha | ⟨ha1, ha2⟩ <;>
    rcases getElem?_append_singleton _ _ _ _ hb with hb | ⟨hb1, hb2⟩
    · exact hd a b ia ib ha hb hab hoa hob
    · have := hinv.instLt ia (List.mem_of_getElem? ha)
      subst hb2; simp only; omega
    · have := hinv.instLt ib (List.mem_of_getElem? hb)
      subst ha2; simp only; omega
    · omega
  | createSharing h addr =>
    simp only [lstep]
    cases hi : lw.inst? h with
    | none => exact hd
    | some i =>
      intro a b ia ib ha hb hab hoa hob
      simp only at ha hb
      rcases getElem?_append_singleton _ _ _ _ ha with ha | ⟨_, ha2⟩ <;>
      rcases getElem?_append_singleton _ _ _ _ hb with hb | ⟨_, hb2⟩
      · exact hd a b ia ib ha hb hab hoa hob
      · subst hb2; simp at hob
      · subst ha2; simp at hoa
      · subst ha2; simp at hoa
  | drop h => exact hd
  | gc => exact hd
  | call c h p a =>
    simp only [lstep]
    cases lw.inst? h <;> exact hd
  | copyCtx parent => exact hd
  | freshCtx => exact hd
  | cvSet c j x =>
    simp only [lstep]
    split <;> exact hd

theorem lrun_ownDistinct {lw : LWorld} (hinv : LInv lw) (hd : OwnDistinct lw) :
    ∀ (es : List LEvent), (∀ e ∈ es, e.cbw) → (∀ e ∈ es, e.ownVar) → OwnDistinct (lrun lw es) := by
  intro es
  induction es generalizing lw with
  | nil => intro _ _; exact hd
  | cons e t ih =>
    intro hc ho
    have h1 := (lstep_inv hinv e (hc e (by simp)) (ho e (by simp))).1
    have h2 := lstep_ownDistinct hinv hd e (ho e (by simp))
    exact ih h1 h2 (fun x hx => hc x (List.mem_cons_of_mem _ hx))
      (fun x hx => ho x (List.mem_cons_of_mem _ hx))

/-- nothing is bound: what the three faces of both proxy kinds show -/
theorem proxyView_unbound {w : World} {c v : Nat} (h : obs w c v = none) (name : Nat) :
    proxyView w c (.attr v name) = { obj := none, truthy := false, fallbackRepr := true } ∧
    proxyView w c (.top v) = { obj := none, truthy := false, fallbackRepr := true } := by
  have h1 : resolve w c (.attr v name) = none := by rw [resolve_attr_eq, h]
  have h2 : resolve w c (.top v) = none := by rw [resolve_top_eq, h]
  simp [proxyView, h1, h2]

end Wz.Local
