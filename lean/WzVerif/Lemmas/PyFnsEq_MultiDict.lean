/-
PyFnsEq_MultiDict — the 20 methods of `werkzeug.datastructures.structures.MultiDict` *as regenerated
from the source* by `tools/py2lean.py` (`Gen/PyFns_MultiDict.lean`, rewritten on every check run)
against the hand-written model of `Model/Containers.lean` (`Wz.PyDict`, `Wz.MD`) that the C08 property
theorems are about.

A translated method takes the object's state (`self_d`, the underlying `dict` of lists as an
insertion-ordered association list) and returns the new state and/or the result; a method that can
raise returns `Except String` with the Python exception class name.

1. The prelude's dict primitives (`Pre.dictHas`, `dictGet?`, `dictSet`, `dictDel`, `dictPop`, …, written
   with `any` / `find?` / `map` / `filter` over *all* entries) against the model's `PyDict` operations
   (written with `lookup` / replace-first / erase-first). The lookups agree on every association list;
   `dictSet` / `dictDel` agree with `set` / `erase` exactly when the key occurs at most once
   (`AtMostOnce d k`, implied by the representation invariant `NodupKeys d` of a dict): the `example`s
   after the section show that the hypothesis cannot be dropped. This is an artefact of the list
   representation (a Python dict cannot hold a key twice), not a difference with the real code.
2. Reads: every translated read equals the model's read on every state (`to_dict` needs distinct keys
   because it rebuilds a dict).
3. Mutators: every translated mutator equals `MD.step d op` seen through the `view` of its result shape
   (and, losslessly, `MD.step d op = wrap (translated …)`), error strings included; the `IndexError` arm
   of `lst[0]` after a length test is unreachable (it disappears inside the equalities).
4. Some C08 theorems restated on the translated definitions.
5. Key uniqueness is preserved by every translated mutator, so the hypothesis of 1. is an invariant.

No discrepancy between the translation and the model was found.
-/
import WzVerif.Gen.PyFns_MultiDict
import WzVerif.Props.C08
import WzVerif.Lemmas.PyFns_Prelude
namespace Wz.PyFnsEq.MultiDict
open Wz Wz.PyDict

/-! ## 1. the prelude's dict primitives against the model's `PyDict` -/
section prims
variable {κ α : Type} [DecidableEq κ]

/-- the key `k` occurs at most once among the keys of the association list `d` (what the dict
invariant "keys are unique" says about the one key an operation touches) -/
def AtMostOnce (d : Dict κ α) (k : κ) : Prop := (keys d).count k ≤ 1

/-- a dict with distinct keys holds every key at most once -/
theorem atMostOnce_of_nodupKeys {d : Dict κ α} (hn : NodupKeys d) (k : κ) : AtMostOnce d k :=
  List.nodup_iff_count.mp hn k

/-- a key that is not in the dict occurs at most once -/
theorem atMostOnce_of_not_mem {d : Dict κ α} {k : κ} (h : k ∉ keys d) : AtMostOnce d k := by
  unfold AtMostOnce; rw [List.count_eq_zero_of_not_mem h]; exact Nat.zero_le _

/-- if `k` heads the list and occurs at most once, it is not among the remaining keys -/
theorem atMostOnce_cons_self {k : κ} {y : α} {t : Dict κ α} (h : AtMostOnce ((k, y) :: t) k) : k ∉ keys t := by
  intro hm
  have := List.count_pos_iff.mpr hm
  simp only [AtMostOnce, keys, List.map_cons, List.count_cons_self] at h this
  omega

/-- an entry with another key in front does not change how often `k` occurs -/
theorem atMostOnce_cons_ne {k k' : κ} {y : α} {t : Dict κ α} (hk : k' ≠ k) :
    AtMostOnce ((k', y) :: t) k ↔ AtMostOnce t k := by
  simp [AtMostOnce, keys, hk]

/-- the model's `erase` of a key that is not in the dict changes nothing -/
theorem erase_of_not_mem (d : Dict κ α) (k : κ) (h : k ∉ keys d) : PyDict.erase d k = d := by
  induction d with
  | nil => rfl
  | cons e t ih =>
    obtain ⟨k', y⟩ := e
    simp only [keys, List.map_cons, List.mem_cons, not_or] at h
    have h1 : ¬ k' = k := fun e => h.1 e.symm
    simp only [PyDict.erase, h1, if_false]
    rw [ih]; simpa [keys] using h.2

/-- the model's `d.get(k)` is `None` exactly when `k` is not a key -/
theorem get?_eq_none_iff (d : Dict κ α) (k : κ) : PyDict.get? d k = none ↔ k ∉ keys d := by
  rw [← has_iff]; unfold PyDict.has PyDict.get?
  cases d.lookup k <;> simp

/-- the model's `d[k] = x` never makes a key occur twice -/
theorem atMostOnce_set {d : Dict κ α} {k' : κ} (h : AtMostOnce d k') (k : κ) (x : α) :
    AtMostOnce (PyDict.set d k x) k' := by
  unfold AtMostOnce at *
  rw [keys_set]
  by_cases hm : k ∈ keys d
  · simpa [hm] using h
  · by_cases he : k = k'
    · subst he
      have := List.count_eq_zero_of_not_mem hm
      simp [hm, List.count_append, this]
    · simp [hm, List.count_append, he]; exact h

/-- the translated test `len(l) == 0` is the emptiness test -/
theorem int_len_beq_zero (l : List α) : ((Int.ofNat l.length) == 0) = l.isEmpty := by
  cases l with
  | nil => rfl
  | cons x t =>
    have : ¬ ((t.length : Int) + 1 = 0) := by omega
    simp [this]

/-- the translated test `len(l) > 0` is the non-emptiness test -/
theorem int_len_pos (l : List α) : decide (Int.ofNat l.length > 0) = !l.isEmpty := by
  cases l with
  | nil => rfl
  | cons x t =>
    have : (0 : Int) < (t.length : Int) + 1 := by omega
    simp [this]

/-- the model's `k in d` is "`d.get(k)` is not `None`" -/
theorem has_eq_isSome (d : Dict κ α) (k : κ) : PyDict.has d k = (PyDict.get? d k).isSome := rfl

variable [BEq κ] [LawfulBEq κ]

/-- `k in d`: the prelude's `any`-based test and the model's `lookup`-based test agree on every
association list (no uniqueness needed) -/
theorem dictHas_eq (d : Dict κ α) (k : κ) : Pre.dictHas d k = PyDict.has d k := by
  induction d with
  | nil => rfl
  | cons e t ih =>
    obtain ⟨k', y⟩ := e
    simp only [Pre.dictHas, PyDict.has, List.any_cons, List.lookup_cons] at ih ⊢
    by_cases h : k' = k
    · subst h; simp
    · have h1 : (k' == k) = false := by simpa using h
      have h2 : (@BEq.beq κ instBEqOfDecidableEq k k') = false := by simpa using fun e => h e.symm
      simp [h1, h2, ih]

/-- `d.get(k)`: the prelude's `find?`-based lookup and the model's `lookup` agree on every
association list (both take the first entry of the key) -/
theorem dictGet?_eq (d : Dict κ α) (k : κ) : Pre.dictGet? d k = PyDict.get? d k := by
  induction d with
  | nil => rfl
  | cons e t ih =>
    obtain ⟨k', y⟩ := e
    simp only [Pre.dictGet?, PyDict.get?, List.find?_cons, List.lookup_cons] at ih ⊢
    by_cases h : k' = k
    · subst h; simp
    · have h1 : (k' == k) = false := by simpa using h
      have h2 : (@BEq.beq κ instBEqOfDecidableEq k k') = false := by simpa using fun e => h e.symm
      simp [h1, h2, ih]

/-- `d.get(k, x)` of the prelude is the model's lookup with default -/
theorem dictGetD_eq (d : Dict κ α) (k : κ) (x : α) : Pre.dictGetD d k x = (PyDict.get? d k).getD x := by
  simp [Pre.dictGetD, dictGet?_eq]

/-- `d[k]` of the prelude: the model's lookup, `KeyError` when absent -/
theorem dictGetItem_eq (d : Dict κ α) (k : κ) :
    Pre.dictGetItem d k = match PyDict.get? d k with
      | some v => .ok v
      | none => .error "KeyError" := by
  unfold Pre.dictGetItem
  rw [dictGet?_eq]
  cases PyDict.get? d k <;> rfl

/-- `d[k] = x`: the prelude replaces the value in *every* entry of the key, the model in the first;
they agree when the key occurs at most once (necessity: first `example` after the section) -/
theorem dictSet_eq (d : Dict κ α) (k : κ) (x : α) (h : AtMostOnce d k) :
    Pre.dictSet d k x = PyDict.set d k x := by
  induction d with
  | nil => rfl
  | cons e t ih =>
    obtain ⟨k', y⟩ := e
    by_cases hk : k' = k
    · subst hk
      have hnot : k' ∉ keys t := atMostOnce_cons_self h
      have hmap : t.map (fun p => if p.1 == k' then (p.1, x) else p) = t := by
        conv => rhs; rw [← List.map_id t]
        apply List.map_congr_left
        intro p hp
        have : p.1 ≠ k' := fun e => hnot (e ▸ List.mem_map_of_mem hp)
        simp [this]
      simp only [beq_iff_eq] at hmap
      simp [Pre.dictSet, Pre.dictHas, PyDict.set, hmap]
    · have h1 : (k' == k) = false := by simpa using hk
      have ht : AtMostOnce t k := (atMostOnce_cons_ne hk).mp h
      have := ih ht
      simp only [Pre.dictSet, Pre.dictHas, List.any_cons, h1, Bool.false_or, PyDict.set, hk, if_false,
        List.map_cons, Bool.false_eq_true, List.cons_append] at this ⊢
      rw [← this]
      by_cases ha : (t.any fun p => p.1 == k) = true <;> simp [ha]

/-- `del d[k]` / the dict after `pop`: the prelude filters out *every* entry of the key, the model
erases the first; they agree when the key occurs at most once (necessity: second `example` after the
section) -/
theorem dictDel_eq (d : Dict κ α) (k : κ) (h : AtMostOnce d k) : Pre.dictDel d k = PyDict.erase d k := by
  induction d with
  | nil => rfl
  | cons e t ih =>
    obtain ⟨k', y⟩ := e
    by_cases hk : k' = k
    · subst hk
      have hnot : k' ∉ keys t := atMostOnce_cons_self h
      have hf : t.filter (fun p => p.1 != k') = t := by
        rw [List.filter_eq_self]
        intro p hp
        have : p.1 ≠ k' := fun e => hnot (e ▸ List.mem_map_of_mem hp)
        simpa using this
      simp [Pre.dictDel, PyDict.erase, hf]
    · have hne : (k' != k) = true := by simpa using hk
      have ht : AtMostOnce t k := (atMostOnce_cons_ne hk).mp h
      have := ih ht
      simp only [Pre.dictDel] at this
      simp [Pre.dictDel, PyDict.erase, hk, hne, this]


/-- `d.pop(k)` of the prelude in terms of the model's `get?` / `erase` (key at most once) -/
theorem dictPop_eq (d : Dict κ α) (k : κ) (h : AtMostOnce d k) :
    Pre.dictPop d k = match PyDict.get? d k with
      | some v => .ok (v, PyDict.erase d k)
      | none => .error "KeyError" := by
  unfold Pre.dictPop
  rw [dictGet?_eq, dictDel_eq d k h]
  cases PyDict.get? d k <;> rfl

/-- `d.pop(k, x)` of the prelude in terms of the model's `get?` / `erase` (key at most once) -/
theorem dictPopD_eq (d : Dict κ α) (k : κ) (x : α) (h : AtMostOnce d k) :
    Pre.dictPopD d k x = ((PyDict.get? d k).getD x, PyDict.erase d k) := by
  unfold Pre.dictPopD
  rw [dictGet?_eq, dictDel_eq d k h]

omit [DecidableEq κ] [BEq κ] [LawfulBEq κ] in
/-- `d.popitem()`: the prelude and the model both take the last entry; `KeyError` for the empty
dict. No hypothesis. -/
theorem dictPopitem_eq (d : Dict κ α) :
    Pre.dictPopitem d = match PyDict.popitem d with
      | some r => .ok r
      | none => .error "KeyError" := by
  unfold Pre.dictPopitem PyDict.popitem
  cases d.getLast? <;> rfl

/-- the prelude's `d[k] = x` keeps the keys distinct -/
theorem nodupKeys_dictSet (d : Dict κ α) (k : κ) (x : α) (hn : NodupKeys d) : NodupKeys (Pre.dictSet d k x) := by
  rw [dictSet_eq d k x (atMostOnce_of_nodupKeys hn k)]
  exact nodupKeys_set d k x hn

omit [DecidableEq κ] [LawfulBEq κ] in
/-- the prelude's `del d[k]` keeps the keys distinct -/
theorem nodupKeys_dictDel (d : Dict κ α) (k : κ) (hn : NodupKeys d) : NodupKeys (Pre.dictDel d k) :=
  nodupKeys_filter d _ hn

omit [DecidableEq κ] [BEq κ] [LawfulBEq κ] in
/-- `popitem` (dropping the last entry) keeps the keys distinct -/
theorem nodupKeys_dropLast (d : Dict κ α) (hn : NodupKeys d) : NodupKeys d.dropLast := by
  unfold NodupKeys at *
  exact List.Nodup.sublist (List.Sublist.map _ (List.dropLast_sublist d)) hn

/-- inserting pairs one by one with the prelude's `dictSet` into a dict with distinct keys is the
model's `dictOf`, and the keys stay distinct -/
theorem foldl_dictSet_eq (l : List (κ × α)) : ∀ (acc : Dict κ α), NodupKeys acc →
    l.foldl (fun d kv => Pre.dictSet d kv.1 kv.2) acc = Pickle.dictOf acc l ∧
      NodupKeys (Pickle.dictOf acc l) := by
  induction l with
  | nil => intro acc hn; exact ⟨rfl, hn⟩
  | cons e t ih =>
    intro acc hn
    simp only [List.foldl_cons, Pickle.dictOf]
    rw [dictSet_eq acc e.1 e.2 (atMostOnce_of_nodupKeys hn e.1)]
    exact ih _ (nodupKeys_set acc e.1 e.2 hn)

/-- `dict(pairs)` of the prelude is the model's `dictOf []` for every list of pairs (the accumulator
always has distinct keys) -/
theorem dictOfPairs_eq (l : List (κ × α)) : Pre.dictOfPairs l = Pickle.dictOf [] l :=
  (foldl_dictSet_eq l [] (by simp [NodupKeys])).1

/-- `dict(pairs)` has distinct keys -/
theorem nodupKeys_dictOfPairs (l : List (κ × α)) : NodupKeys (Pre.dictOfPairs l) := by
  rw [dictOfPairs_eq]; exact (foldl_dictSet_eq l [] (by simp [NodupKeys])).2

/-- `dict(d.items()) == d` as lists exactly when the keys of the list `d` are distinct -/
theorem dictOfPairs_self_iff (d : Dict κ α) : Pre.dictOfPairs d = d ↔ NodupKeys d := by
  constructor
  · intro h; rw [← h]; exact nodupKeys_dictOfPairs d
  · intro hn; rw [dictOfPairs_eq]; exact C08L.dictOf_self d hn

end prims

/-- necessity of `AtMostOnce` in `dictSet_eq` / `dictDel_eq`: with a key twice the prelude touches both
entries, the model the first -/
example : Pre.dictSet [(1, 10), (1, 20)] 1 7 ≠ PyDict.set [(1, 10), (1, 20)] 1 7 := by decide
example : Pre.dictDel [(1, 10), (1, 20)] 1 ≠ PyDict.erase [(1, 10), (1, 20)] 1 := by decide


/-! ## 2. reads -/
section reads
open Wz.Gen.PyFns_MultiDict
variable {ν : Type}

/-- **`MultiDict.__getitem__`** as translated equals the model's `getitem` on every state: first
value, `BadRequestKeyError` for a missing key or an empty list; the `IndexError` arm of `lst[0]` is
unreachable after the `len(lst) > 0` test -/
theorem md_getitem_eq (d : MD.St Pre.Str ν) (k : Pre.Str) : md_getitem d k = MD.getitem d k := by
  unfold md_getitem MD.getitem
  rw [dictHas_eq, dictGetItem_eq, has_eq_isSome]
  simp only [int_len_pos]
  cases h : PyDict.get? d k with
  | none => simp
  | some l => cases l <;> simp [Pre.getItem_zero_cons]

/-- **`MultiDict.getlist(key)`** (no `type`) as translated equals the model's `getlist`: the key's
list, `[]` when missing -/
theorem md_getlist_eq (d : MD.St Pre.Str ν) (k : Pre.Str) : md_getlist d k () = MD.getlist d k := by
  unfold md_getlist MD.getlist
  rw [dictGetItem_eq]
  cases PyDict.get? d k <;> rfl

/-- the `for item in rv` loop of `getlist(key, type)`: appends the converted items for which
`type(item)` succeeded -/
theorem md_getlist_typed_loop_eq {τ Conv : Type} (ct : Conv → ν → Except String τ) (t : Conv) (l : List ν) :
    ∀ acc : List τ, md_getlist_typed.loop1 ct t l acc = .fall (acc ++ l.filterMap fun v => (ct t v).toOption) := by
  induction l with
  | nil => intro acc; simp [md_getlist_typed.loop1]
  | cons x r ih =>
    intro acc
    unfold md_getlist_typed.loop1
    cases h : ct t x <;> simp [h, ih, Except.toOption]

/-- **`MultiDict.getlist(key, type)`** as translated equals the model's `getlistTyped conv` when the
model's conversion `conv` is `type` with its errors mapped to `None` (the translator is told that
`type` raises only ValueError / TypeError, so its `except (ValueError, TypeError)` arm takes every
error of `call_type`) -/
theorem md_getlist_typed_eq {τ Conv : Type} (ct : Conv → ν → Except String τ) (t : Conv) (conv : ν → Option τ)
    (hconv : ∀ v, conv v = (ct t v).toOption) (d : MD.St Pre.Str ν) (k : Pre.Str) :
    md_getlist_typed ct d k t = MD.getlistTyped conv d k := by
  have hc : conv = fun v => (ct t v).toOption := funext hconv
  subst hc
  unfold md_getlist_typed MD.getlistTyped MD.getlist
  rw [dictGetItem_eq]
  cases PyDict.get? d k with
  | none => rfl
  | some l => simp [md_getlist_typed_loop_eq]

/-- the loop of `MultiDict.lists`: yields every `(key, list(values))` -/
theorem md_lists_loop_eq (l acc : List (Pre.Str × List ν)) : md_lists.loop1 l acc = .fall (acc ++ l) := by
  induction l generalizing acc with
  | nil => simp [md_lists.loop1]
  | cons x r ih => unfold md_lists.loop1; simp [ih]

/-- **`MultiDict.lists()`** as translated is the model's `lists` (the state itself) -/
theorem md_lists_eq (d : MD.St Pre.Str ν) : md_lists d = MD.lists d := by
  simp [md_lists, md_lists_loop_eq, Pre.dictItems, MD.lists]

/-- the loop of `MultiDict.values` over `dict.values()`: the first values, or `IndexError` at the
first empty list -/
theorem md_values_loop_eq (c : MD.St Pre.Str ν) : ∀ acc : List ν,
    md_values.loop1 (c.map (·.2)) acc =
      match MD.itemsFirst c with
      | .ok r => .fall (acc ++ r.map (·.2))
      | .error e => .ret (.error e) := by
  induction c with
  | nil => intro acc; simp [md_values.loop1, MD.itemsFirst]
  | cons x r ih =>
    intro acc
    obtain ⟨k, vs⟩ := x
    cases vs with
    | nil => simp [md_values.loop1, MD.itemsFirst, Pre.getItem]
    | cons v vs' =>
      simp only [List.map_cons, md_values.loop1, Pre.getItem_zero_cons, MD.itemsFirst, ih]
      cases MD.itemsFirst r <;> simp

/-- **`MultiDict.values()`** as translated equals the model's `values`, including `IndexError` for a
key with zero values -/
theorem md_values_eq (d : MD.St Pre.Str ν) : md_values d = MD.values d := by
  simp only [md_values, MD.values, Pre.dictValues, md_values_loop_eq]
  cases MD.itemsFirst d <;> simp [Except.map]

/-- **`MultiDict.listvalues()`** as translated is the model's `listvalues` -/
theorem md_listvalues_eq (d : MD.St Pre.Str ν) : md_listvalues d = MD.listvalues d := rfl

/-- the inner `for value in values` loop of `items(multi=True)`: yields `(key, value)` for each
value and never returns -/
theorem md_items_loop2_eq (k : Pre.Str) (vs : List ν) : ∀ acc : List (Pre.Str × ν),
    md_items.loop2 k vs acc = .fall (acc ++ vs.map fun v => (k, v)) := by
  induction vs with
  | nil => intro acc; simp [md_items.loop2]
  | cons v r ih => intro acc; unfold md_items.loop2; simp [ih]

/-- the outer loop of `items(multi=True)`: yields the model's `itemsMulti` -/
theorem md_items_loop1_multi_eq (c : MD.St Pre.Str ν) : ∀ acc : List (Pre.Str × ν),
    md_items.loop1 true c acc = .fall (acc ++ MD.itemsMulti c) := by
  induction c with
  | nil => intro acc; simp [md_items.loop1, MD.itemsMulti]
  | cons x r ih =>
    intro acc
    unfold md_items.loop1
    simp only [if_true, md_items_loop2_eq, ih]
    simp [MD.itemsMulti]

/-- the outer loop of `items()` (`multi=False`): `(key, values[0])` for each key, or `IndexError` at
the first empty list -/
theorem md_items_loop1_first_eq (c : MD.St Pre.Str ν) : ∀ acc : List (Pre.Str × ν),
    md_items.loop1 false c acc =
      match MD.itemsFirst c with
      | .ok r => .fall (acc ++ r)
      | .error e => .ret (.error e) := by
  induction c with
  | nil => intro acc; simp [md_items.loop1, MD.itemsFirst]
  | cons x r ih =>
    intro acc
    obtain ⟨k, vs⟩ := x
    cases vs with
    | nil => simp [md_items.loop1, MD.itemsFirst, Pre.getItem]
    | cons v vs' =>
      simp only [md_items.loop1, Bool.false_eq_true, if_false, Pre.getItem_zero_cons, MD.itemsFirst, ih]
      cases MD.itemsFirst r <;> simp

/-- **`MultiDict.items(multi=True)`** as translated never raises and yields the model's `itemsMulti`
-/
theorem md_items_multi_eq (d : MD.St Pre.Str ν) : md_items d true = .ok (MD.itemsMulti d) := by
  simp [md_items, Pre.dictItems, md_items_loop1_multi_eq]

/-- **`MultiDict.items()`** as translated equals the model's `itemsFirst`, including `IndexError`
for a key with zero values -/
theorem md_items_first_eq (d : MD.St Pre.Str ν) : md_items d false = MD.itemsFirst d := by
  simp only [md_items, Pre.dictItems, md_items_loop1_first_eq]
  cases MD.itemsFirst d <;> simp

/-- `to_dict()` as translated is `dict(...)` of the model's `items()`, on every association list -/
theorem md_to_dict_flat_eq' (d : MD.St Pre.Str ν) :
    md_to_dict_flat d true = (MD.toDictFlat d).map Pre.dictOfPairs := by
  unfold md_to_dict_flat MD.toDictFlat
  rw [md_items_first_eq]
  cases MD.itemsFirst d <;> rfl

end reads

/-! ## 3. mutators: views of the model's result, then one equality per method -/
section views
variable {κ ν : Type}

/-- the value of a `Ret.val`; any other shape is an error string no translated method produces -/
def unVal : MD.Ret κ ν → Except String ν
  | .val v => .ok v
  | _ => .error "view: the model's result is not Ret.val"
/-- the list of a `Ret.vals` -/
def unVals : MD.Ret κ ν → Except String (List ν)
  | .vals vs => .ok vs
  | _ => .error "view: the model's result is not Ret.vals"
/-- the pair of a `Ret.item` -/
def unItem : MD.Ret κ ν → Except String (κ × ν)
  | .item k v => .ok (k, v)
  | _ => .error "view: the model's result is not Ret.item"
/-- the pair of a `Ret.itemlist` -/
def unItemlist : MD.Ret κ ν → Except String (κ × List ν)
  | .itemlist k vs => .ok (k, vs)
  | _ => .error "view: the model's result is not Ret.itemlist"

/-- view of a model step for a method returning `None`: the new state -/
def viewNone (r : MD.Res κ ν (MD.Ret κ ν)) : MD.St κ ν := r.1
/-- view of a model step for a method returning one value -/
def viewVal (r : MD.Res κ ν (MD.Ret κ ν)) : MD.St κ ν × Except String ν := (r.1, r.2.bind unVal)
/-- view of a model step for a method returning a list of values (and able to raise) -/
def viewVals (r : MD.Res κ ν (MD.Ret κ ν)) : MD.St κ ν × Except String (List ν) := (r.1, r.2.bind unVals)
/-- view of a model step for a method returning a list of values that cannot raise (`poplist`);
lossless together with the `_step` form -/
def viewValsT (r : MD.Res κ ν (MD.Ret κ ν)) : MD.St κ ν × List ν :=
  (r.1, match r.2 with | .ok (.vals vs) => vs | _ => [])
/-- view of a model step for a method returning a `(key, value)` pair -/
def viewItem (r : MD.Res κ ν (MD.Ret κ ν)) : MD.St κ ν × Except String (κ × ν) := (r.1, r.2.bind unItem)
/-- view of a model step for a method returning a `(key, values)` pair -/
def viewItemlist (r : MD.Res κ ν (MD.Ret κ ν)) : MD.St κ ν × Except String (κ × List ν) :=
  (r.1, r.2.bind unItemlist)

/-- a translated result (state only) as a model result -/
def wrapNone (c : MD.St κ ν) : MD.Res κ ν (MD.Ret κ ν) := (c, .ok .none)
/-- a translated result (state, value or error) as a model result -/
def wrapVal (r : MD.St κ ν × Except String ν) : MD.Res κ ν (MD.Ret κ ν) := (r.1, r.2.map .val)
/-- a translated result (state, list or error) as a model result -/
def wrapVals (r : MD.St κ ν × Except String (List ν)) : MD.Res κ ν (MD.Ret κ ν) := (r.1, r.2.map .vals)
/-- a translated result (state, list) as a model result -/
def wrapValsT (r : MD.St κ ν × List ν) : MD.Res κ ν (MD.Ret κ ν) := (r.1, .ok (.vals r.2))
/-- a translated result (state, pair or error) as a model result -/
def wrapItem (r : MD.St κ ν × Except String (κ × ν)) : MD.Res κ ν (MD.Ret κ ν) :=
  (r.1, r.2.map fun p => .item p.1 p.2)
/-- a translated result (state, `(key, values)` or error) as a model result -/
def wrapItemlist (r : MD.St κ ν × Except String (κ × List ν)) : MD.Res κ ν (MD.Ret κ ν) :=
  (r.1, r.2.map fun p => .itemlist p.1 p.2)

/-- `view` undoes `wrap` (shape `None`) -/
theorem viewNone_wrapNone (c : MD.St κ ν) : viewNone (wrapNone c) = c := rfl
/-- `view` undoes `wrap` (shape value) -/
theorem viewVal_wrapVal (r : MD.St κ ν × Except String ν) : viewVal (wrapVal r) = r := by
  obtain ⟨c, e⟩ := r; cases e <;> rfl
/-- `view` undoes `wrap` (shape list) -/
theorem viewVals_wrapVals (r : MD.St κ ν × Except String (List ν)) : viewVals (wrapVals r) = r := by
  obtain ⟨c, e⟩ := r; cases e <;> rfl
/-- `view` undoes `wrap` (shape list, total) -/
theorem viewValsT_wrapValsT (r : MD.St κ ν × List ν) : viewValsT (wrapValsT r) = r := rfl
/-- `view` undoes `wrap` (shape pair) -/
theorem viewItem_wrapItem (r : MD.St κ ν × Except String (κ × ν)) : viewItem (wrapItem r) = r := by
  obtain ⟨c, e⟩ := r; cases e <;> rfl
/-- `view` undoes `wrap` (shape `(key, values)`) -/
theorem viewItemlist_wrapItemlist (r : MD.St κ ν × Except String (κ × List ν)) :
    viewItemlist (wrapItemlist r) = r := by
  obtain ⟨c, e⟩ := r; cases e <;> rfl

end views

section mutators
open Wz.Gen.PyFns_MultiDict
variable {ν : Type}

/-- `md[key] = value` as translated is the model's `set d key [value]` (key at most once) -/
theorem md_setitem_set (d : MD.St Pre.Str ν) (k : Pre.Str) (v : ν) (h : AtMostOnce d k) :
    md_setitem d k v = PyDict.set d k [v] := by
  unfold md_setitem; exact dictSet_eq d k [v] h

/-- **`MultiDict.__setitem__`**: the model step is the translated method's result (lossless form) -/
theorem md_setitem_step (d : MD.St Pre.Str ν) (k : Pre.Str) (v : ν) (h : AtMostOnce d k) :
    MD.step d (.setitem k v) = wrapNone (md_setitem d k v) := by
  rw [md_setitem_set d k v h]; rfl

/-- **`MultiDict.__setitem__`** as translated equals the model step `.setitem`, for a dict that
holds the key at most once -/
theorem md_setitem_eq (d : MD.St Pre.Str ν) (k : Pre.Str) (v : ν) (h : AtMostOnce d k) :
    md_setitem d k v = viewNone (MD.step d (.setitem k v)) := by
  rw [md_setitem_step d k v h, viewNone_wrapNone]

/-- `md.add(key, value)` as translated (`setdefault(key, []).append(value)` as a `dict_set` of the
extended list) is the model's `add` (key at most once) -/
theorem md_add_add (d : MD.St Pre.Str ν) (k : Pre.Str) (v : ν) (h : AtMostOnce d k) :
    md_add d k v = MD.add d k v := by
  unfold md_add MD.add
  rw [dictGetD_eq, dictSet_eq d k _ h]
  cases PyDict.get? d k <;> rfl

/-- **`MultiDict.add`**: the model step is the translated method's result (lossless form) -/
theorem md_add_step (d : MD.St Pre.Str ν) (k : Pre.Str) (v : ν) (h : AtMostOnce d k) :
    MD.step d (.add k v) = wrapNone (md_add d k v) := by
  rw [md_add_add d k v h]; rfl

/-- **`MultiDict.add`** as translated equals the model step `.add` -/
theorem md_add_eq (d : MD.St Pre.Str ν) (k : Pre.Str) (v : ν) (h : AtMostOnce d k) :
    md_add d k v = viewNone (MD.step d (.add k v)) := by
  rw [md_add_step d k v h, viewNone_wrapNone]

/-- **`MultiDict.setlist`**: the model step is the translated method's result (lossless form) -/
theorem md_setlist_step (d : MD.St Pre.Str ν) (k : Pre.Str) (vs : List ν) (h : AtMostOnce d k) :
    MD.step d (.setlist k vs) = wrapNone (md_setlist d k vs) := by
  unfold md_setlist
  simp only [id, dictSet_eq d k vs h]; rfl

/-- **`MultiDict.setlist`** as translated equals the model step `.setlist` (also for an empty list,
which leaves the key with zero values) -/
theorem md_setlist_eq (d : MD.St Pre.Str ν) (k : Pre.Str) (vs : List ν) (h : AtMostOnce d k) :
    md_setlist d k vs = viewNone (MD.step d (.setlist k vs)) := by
  rw [md_setlist_step d k vs h, viewNone_wrapNone]

/-- **`MultiDict.setdefault`**: the model step is the translated method's result, on every
association list (a present key is not written, a missing one is appended): state, returned value,
and `BadRequestKeyError` for a present key with zero values -/
theorem md_setdefault_step (d : MD.St Pre.Str ν) (k : Pre.Str) (v : ν) :
    MD.step d (.setdefault k v) = wrapVal (md_setdefault d k v) := by
  unfold md_setdefault
  rw [dictHas_eq]
  cases hh : PyDict.has d k with
  | true =>
    simp only [MD.step, hh, if_true, Bool.not_true, Bool.false_eq_true, if_false, md_getitem_eq, wrapVal]
    cases MD.getitem d k <;> rfl
  | false =>
    have hk : k ∉ keys d := fun hm => by simp [(has_iff d k).mpr hm] at hh
    simp only [MD.step, hh, Bool.false_eq_true, if_false, Bool.not_false, if_true,
      md_setitem_set d k v (atMostOnce_of_not_mem hk), md_getitem_eq, wrapVal]
    cases MD.getitem (PyDict.set d k [v]) k <;> rfl

/-- **`MultiDict.setdefault`** as translated equals the model step `.setdefault` -/
theorem md_setdefault_eq (d : MD.St Pre.Str ν) (k : Pre.Str) (v : ν) :
    md_setdefault d k v = viewVal (MD.step d (.setdefault k v)) := by
  rw [md_setdefault_step, viewVal_wrapVal]

/-- after the model's `d[k] = x`, `d.get(k)` is `x` -/
theorem get?_set_self (d : Dict Pre.Str (List ν)) (k : Pre.Str) (x : List ν) :
    PyDict.get? (PyDict.set d k x) k = some x := lookup_set_self d k x

/-- **`MultiDict.setlistdefault(key, default_list)`**: the model step (with `None` read as the empty
list, as `list(default_list or ())` does) is the translated method's result, on every association
list; the `KeyError` arm of the final `dict.__getitem__` is unreachable -/
theorem md_setlistdefault_step (d : MD.St Pre.Str ν) (k : Pre.Str) (o : Option (List ν)) :
    MD.step d (.setlistdefault k (o.getD [])) = wrapVals (md_setlistdefault d k o) := by
  unfold md_setlistdefault
  rw [dictHas_eq]
  cases hh : PyDict.has d k with
  | true =>
    simp only [MD.step, hh, if_true, Bool.not_true, Bool.false_eq_true, if_false, dictGetItem_eq, wrapVals,
      MD.getlist]
    rw [has_eq_isSome] at hh
    cases hg : PyDict.get? d k with
    | none => simp [hg] at hh
    | some l => rfl
  | false =>
    have hk : k ∉ keys d := fun hm => by simp [(has_iff d k).mpr hm] at hh
    have hs : ∀ x : List ν, Pre.dictSet d k x = PyDict.set d k x :=
      fun x => dictSet_eq d k x (atMostOnce_of_not_mem hk)
    cases o with
    | none =>
      simp only [MD.step, hh, Bool.false_eq_true, if_false, Bool.not_false, if_true, id, hs, dictGetItem_eq,
        get?_set_self, wrapVals, MD.getlist, Option.getD]
      rfl
    | some l =>
      have hl : (if !l.isEmpty then l else []) = l := by cases l <;> rfl
      simp only [MD.step, hh, Bool.false_eq_true, if_false, Bool.not_false, if_true, id, hs, dictGetItem_eq,
        get?_set_self, wrapVals, MD.getlist, Option.getD, hl]
      rfl

/-- **`MultiDict.setlistdefault`** as translated equals the model step `.setlistdefault` -/
theorem md_setlistdefault_eq (d : MD.St Pre.Str ν) (k : Pre.Str) (o : Option (List ν)) :
    md_setlistdefault d k o = viewVals (MD.step d (.setlistdefault k (o.getD []))) := by
  rw [md_setlistdefault_step, viewVals_wrapVals]

/-- the model's `add` never makes a key occur twice -/
theorem atMostOnce_add {d : MD.St Pre.Str ν} {k' : Pre.Str} (h : AtMostOnce d k') (k : Pre.Str) (v : ν) :
    AtMostOnce (MD.add d k v) k' := by
  unfold MD.add; cases PyDict.get? d k <;> exact atMostOnce_set h k _

/-- the `for key, value in iter_multi_items(mapping): self.add(key, value)` loop is the model's
`addAll`, when every key of the argument occurs at most once in the dict -/
theorem md_update_loop_eq (l : List (Pre.Str × ν)) : ∀ (d : MD.St Pre.Str ν), (∀ p ∈ l, AtMostOnce d p.1) →
    md_update.loop1 l d = .fall (MD.addAll d l) := by
  induction l with
  | nil => intro d _; rfl
  | cons p t ih =>
    intro d h
    obtain ⟨k, v⟩ := p
    simp only [md_update.loop1, MD.addAll]
    rw [md_add_add d k v (h (k, v) List.mem_cons_self)]
    exact ih _ fun q hq => atMostOnce_add (h q (List.mem_cons_of_mem _ hq)) k v

/-- `md.update(pairs)` as translated is the model's `addAll` -/
theorem md_update_addAll (d : MD.St Pre.Str ν) (l : List (Pre.Str × ν)) (h : ∀ p ∈ l, AtMostOnce d p.1) :
    md_update d l = MD.addAll d l := by
  simp only [md_update, id, md_update_loop_eq l d h]

/-- **`MultiDict.update`** (iterable of pairs): the model step is the translated method's result
(lossless form) -/
theorem md_update_step (d : MD.St Pre.Str ν) (l : List (Pre.Str × ν)) (h : ∀ p ∈ l, AtMostOnce d p.1) :
    MD.step d (.update (.pairs l)) = wrapNone (md_update d l) := by
  rw [md_update_addAll d l h]; rfl

/-- **`MultiDict.update`** as translated equals the model step `.update (.pairs l)` -/
theorem md_update_eq (d : MD.St Pre.Str ν) (l : List (Pre.Str × ν)) (h : ∀ p ∈ l, AtMostOnce d p.1) :
    md_update d l = viewNone (MD.step d (.update (.pairs l))) := by
  rw [md_update_step d l h, viewNone_wrapNone]

/-- **`MultiDict.pop(key)`**: the model step `.pop key none` is the translated method's result: the
popped state, the first value, `BadRequestKeyError` for a missing key and for a key with zero values
(which is removed all the same); the `IndexError` arm of `lst[0]` is unreachable -/
theorem md_pop_step (d : MD.St Pre.Str ν) (k : Pre.Str) (h : AtMostOnce d k) :
    MD.step d (.pop k none) = wrapVal (md_pop d k ()) := by
  unfold md_pop
  rw [dictPop_eq d k h]
  simp only [MD.step, wrapVal, int_len_beq_zero]
  cases PyDict.get? d k with
  | none => rfl
  | some l => cases l <;> simp [Pre.getItem_zero_cons, Except.map]

/-- **`MultiDict.pop(key)`** as translated equals the model step `.pop key none` -/
theorem md_pop_eq (d : MD.St Pre.Str ν) (k : Pre.Str) (h : AtMostOnce d k) :
    md_pop d k () = viewVal (MD.step d (.pop k none)) := by
  rw [md_pop_step d k h, viewVal_wrapVal]

/-- **`MultiDict.pop(key, default)`**: the model step `.pop key (some default)` is the translated
method's result (the default for a missing key and for a key with zero values, which is removed) -/
theorem md_pop_default_step (d : MD.St Pre.Str ν) (k : Pre.Str) (dflt : ν) (h : AtMostOnce d k) :
    MD.step d (.pop k (some dflt)) = wrapVal (md_pop_default d k dflt) := by
  unfold md_pop_default
  rw [dictPop_eq d k h]
  simp only [MD.step, wrapVal, int_len_beq_zero]
  cases PyDict.get? d k with
  | none => rfl
  | some l => cases l <;> simp [Pre.getItem_zero_cons, Except.map]

/-- **`MultiDict.pop(key, default)`** as translated equals the model step `.pop key (some default)`
-/
theorem md_pop_default_eq (d : MD.St Pre.Str ν) (k : Pre.Str) (dflt : ν) (h : AtMostOnce d k) :
    md_pop_default d k dflt = viewVal (MD.step d (.pop k (some dflt))) := by
  rw [md_pop_default_step d k dflt h, viewVal_wrapVal]

/-- **`MultiDict.popitem`**: the model step is the translated method's result on every association
list: last entry removed, `(key, first value)`, `BadRequestKeyError` for an empty dict and for a
last key with zero values -/
theorem md_popitem_step (d : MD.St Pre.Str ν) : MD.step d .popitem = wrapItem (md_popitem d) := by
  unfold md_popitem
  rw [dictPopitem_eq]
  simp only [MD.step, wrapItem, int_len_beq_zero]
  cases PyDict.popitem d with
  | none => rfl
  | some r =>
    obtain ⟨⟨k, vs⟩, c'⟩ := r
    cases vs <;> simp [Pre.getItem_zero_cons, Except.map]

/-- **`MultiDict.popitem`** as translated equals the model step `.popitem` -/
theorem md_popitem_eq (d : MD.St Pre.Str ν) : md_popitem d = viewItem (MD.step d .popitem) := by
  rw [md_popitem_step, viewItem_wrapItem]

/-- **`MultiDict.poplist`**: the model step is the translated method's result (lossless form: the
model answers `.ok (.vals …)` always) -/
theorem md_poplist_step (d : MD.St Pre.Str ν) (k : Pre.Str) (h : AtMostOnce d k) :
    MD.step d (.poplist k) = wrapValsT (md_poplist d k) := by
  unfold md_poplist
  simp only [dictPopD_eq d k [] h, MD.step, wrapValsT]
  cases hg : PyDict.get? d k with
  | none =>
    simp [erase_of_not_mem d k ((get?_eq_none_iff d k).mp hg)]
  | some l => rfl

/-- **`MultiDict.poplist`** as translated equals the model step `.poplist`: the key's list (or `[]`)
and the dict without the key -/
theorem md_poplist_eq (d : MD.St Pre.Str ν) (k : Pre.Str) (h : AtMostOnce d k) :
    md_poplist d k = viewValsT (MD.step d (.poplist k)) := by
  rw [md_poplist_step d k h, viewValsT_wrapValsT]

/-- **`MultiDict.popitemlist`**: the model step is the translated method's result on every
association list -/
theorem md_popitemlist_step (d : MD.St Pre.Str ν) : MD.step d .popitemlist = wrapItemlist (md_popitemlist d) := by
  unfold md_popitemlist
  rw [dictPopitem_eq]
  simp only [MD.step, wrapItemlist]
  cases PyDict.popitem d with
  | none => rfl
  | some r => obtain ⟨⟨k, vs⟩, c'⟩ := r; rfl

/-- **`MultiDict.popitemlist`** as translated equals the model step `.popitemlist` -/
theorem md_popitemlist_eq (d : MD.St Pre.Str ν) : md_popitemlist d = viewItemlist (MD.step d .popitemlist) := by
  rw [md_popitemlist_step, viewItemlist_wrapItemlist]

end mutators

/-! ## `to_dict` (rebuilds a dict: needs distinct keys) -/
section todict
open Wz.Gen.PyFns_MultiDict
variable {ν : Type}

/-- `items()` lists the keys of the dict in order -/
theorem keys_itemsFirst (d : MD.St Pre.Str ν) (r : List (Pre.Str × ν)) (h : MD.itemsFirst d = .ok r) :
    keys r = keys d := by
  induction d generalizing r with
  | nil => simp [MD.itemsFirst] at h; subst h; rfl
  | cons e t ih =>
    obtain ⟨k, vs⟩ := e
    cases vs with
    | nil => simp [MD.itemsFirst] at h
    | cons v vs' =>
      simp only [MD.itemsFirst] at h
      cases ht : MD.itemsFirst t with
      | error e => simp [ht] at h
      | ok r' =>
        simp [ht] at h
        subst h
        simp [keys] at *
        exact ih r' ht

/-- **`MultiDict.to_dict()`** (`flat=True`) as translated (`dict(self.items())`) equals the model's
`toDictFlat` for a dict with distinct keys (the rebuilt dict is then the item list itself);
`IndexError` for a key with zero values on both sides. Necessity of the hypothesis: the `example`
below. -/
theorem md_to_dict_flat_eq (d : MD.St Pre.Str ν) (hn : NodupKeys d) :
    md_to_dict_flat d true = MD.toDictFlat d := by
  rw [md_to_dict_flat_eq']
  unfold MD.toDictFlat
  cases h : MD.itemsFirst d with
  | error e => rfl
  | ok r =>
    have hr : NodupKeys r := by
      have := keys_itemsFirst d r h
      unfold NodupKeys; unfold keys at this; rw [this]; exact hn
    simp [Except.map, (dictOfPairs_self_iff r).mpr hr]

example : md_to_dict_flat [(['a'], [1]), (['a'], [2])] true ≠ MD.toDictFlat [(['a'], [1]), (['a'], [2])] :=
  fun h => absurd (congrArg Except.toOption h) (by decide)

/-- `to_dict(flat=False)` as translated is `dict(...)` of the state, on every association list -/
theorem md_to_dict_lists_eq' (d : MD.St Pre.Str ν) : md_to_dict_lists d false = Pre.dictOfPairs d := by
  unfold md_to_dict_lists; rw [md_lists_eq]; rfl

/-- **`MultiDict.to_dict(flat=False)`** as translated (`dict(self.lists())`) is the model's answer
(`lists`) exactly when the keys are distinct -/
theorem md_to_dict_lists_eq_iff (d : MD.St Pre.Str ν) : md_to_dict_lists d false = MD.lists d ↔ NodupKeys d := by
  rw [md_to_dict_lists_eq']; exact dictOfPairs_self_iff d

end todict

/-! ## necessity of `AtMostOnce` in the mutator equalities: on a list holding the key twice the
translation (prelude: all entries) and the model (first entry) differ. Not reachable from Python. -/
section witnesses
open Wz.Gen.PyFns_MultiDict

/-- an association list that is not a dict: the key `a` twice -/
def dup : MD.St Pre.Str Nat := [(['a'], [1]), (['a'], [2])]

example : md_setitem dup ['a'] 9 ≠ viewNone (MD.step dup (.setitem ['a'] 9)) := by decide
example : md_add dup ['a'] 9 ≠ viewNone (MD.step dup (.add ['a'] 9)) := by decide
example : md_setlist dup ['a'] [9] ≠ viewNone (MD.step dup (.setlist ['a'] [9])) := by decide
example : md_update dup [(['a'], 9)] ≠ viewNone (MD.step dup (.update (.pairs [(['a'], 9)]))) := by decide
example : md_pop dup ['a'] () ≠ viewVal (MD.step dup (.pop ['a'] none)) :=
  fun h => absurd (congrArg Prod.fst h) (by decide)
example : md_pop_default dup ['a'] 0 ≠ viewVal (MD.step dup (.pop ['a'] (some 0))) :=
  fun h => absurd (congrArg Prod.fst h) (by decide)
example : md_poplist dup ['a'] ≠ viewValsT (MD.step dup (.poplist ['a'])) := by decide

end witnesses

/-! ## the error arms that remain -/
section never
open Wz.Gen.PyFns_MultiDict
variable {ν : Type}

/-- `md[key]` as translated raises nothing but `BadRequestKeyError` (in particular not the
`IndexError` of `lst[0]`, nor the `KeyError` of `dict.__getitem__`) -/
theorem md_getitem_error (d : MD.St Pre.Str ν) (k : Pre.Str) (e : String) (h : md_getitem d k = .error e) :
    e = "BadRequestKeyError" := by
  rw [md_getitem_eq] at h
  unfold MD.getitem at h
  split at h <;> simp at h
  exact h.symm

/-- `md.pop(key)` as translated raises nothing but `BadRequestKeyError` -/
theorem md_pop_error (d : MD.St Pre.Str ν) (k : Pre.Str) (hk : AtMostOnce d k) (e : String)
    (h : (md_pop d k ()).2 = .error e) : e = "BadRequestKeyError" := by
  rw [md_pop_eq d k hk] at h
  simp only [viewVal, MD.step] at h
  cases hg : PyDict.get? d k with
  | none => simp [hg, Except.bind] at h; exact h.symm
  | some l => cases l <;> simp [hg, Except.bind, unVal] at h; exact h.symm

/-- `md.popitem()` as translated raises nothing but `BadRequestKeyError` -/
theorem md_popitem_error (d : MD.St Pre.Str ν) (e : String)
    (h : (md_popitem d).2 = .error e) : e = "BadRequestKeyError" := by
  rw [md_popitem_eq d] at h
  simp only [viewItem, MD.step] at h
  cases hg : PyDict.popitem d with
  | none => simp [hg, Except.bind] at h; exact h.symm
  | some r =>
    obtain ⟨⟨k, vs⟩, c'⟩ := r
    cases vs <;> simp [hg, Except.bind, unItem] at h; exact h.symm

end never

/-! ## 4. C08 property theorems on the translated definitions -/
section c08
open Wz.Gen.PyFns_MultiDict MDSpec
variable {ν : Type}

/-- C08 `md_step_refines` on the translated `__setitem__`: on a well-formed state (distinct keys, no
empty list) it does what the abstract insertion-ordered multimap does -/
theorem md_setitem_spec (d : MD.St Pre.Str ν) (h : WF d) (k : Pre.Str) (v : ν) :
    md_setitem d k v = viewNone (MDSpec.step d (.setitem k v)) := by
  rw [md_setitem_eq d k v (atMostOnce_of_nodupKeys h.1 k), (Props.C08.md_step_refines d h _ rfl).1]

/-- C08 `md_step_refines` on the translated `add` -/
theorem md_add_spec (d : MD.St Pre.Str ν) (h : WF d) (k : Pre.Str) (v : ν) :
    md_add d k v = viewNone (MDSpec.step d (.add k v)) := by
  rw [md_add_eq d k v (atMostOnce_of_nodupKeys h.1 k), (Props.C08.md_step_refines d h _ rfl).1]

/-- C08 `md_step_refines` on the translated `setdefault` -/
theorem md_setdefault_spec (d : MD.St Pre.Str ν) (h : WF d) (k : Pre.Str) (v : ν) :
    md_setdefault d k v = viewVal (MDSpec.step d (.setdefault k v)) := by
  rw [md_setdefault_eq d k v, (Props.C08.md_step_refines d h _ rfl).1]

/-- C08 `md_step_refines` on the translated `pop(key)` -/
theorem md_pop_spec (d : MD.St Pre.Str ν) (h : WF d) (k : Pre.Str) :
    md_pop d k () = viewVal (MDSpec.step d (.pop k none)) := by
  rw [md_pop_eq d k (atMostOnce_of_nodupKeys h.1 k), (Props.C08.md_step_refines d h _ rfl).1]

/-- C08 `md_step_refines` on the translated `popitem` -/
theorem md_popitem_spec (d : MD.St Pre.Str ν) (h : WF d) :
    md_popitem d = viewItem (MDSpec.step d .popitem) := by
  rw [md_popitem_eq d, (Props.C08.md_step_refines d h _ rfl).1]

/-- C08 `md_read_refines` on the translated reads: on a well-formed state `items()`, `values()` and
`to_dict()` as translated never raise `IndexError` and give the first value of every key -/
theorem md_reads_total (d : MD.St Pre.Str ν) (h : WF d) :
    md_items d false = .ok (d.filterMap fun e => e.2.head?.map fun v => (e.1, v)) ∧
    md_values d = .ok (d.filterMap (·.2.head?)) ∧
    md_to_dict_flat d true = .ok (d.filterMap fun e => e.2.head?.map fun v => (e.1, v)) := by
  have h1 := Props.C08.md_read_refines d h (.items false)
  have h2 := Props.C08.md_read_refines d h .values
  have h3 := Props.C08.md_read_refines d h (.toDict true)
  simp only [MD.read, MDSpec.read] at h1 h2 h3
  rw [md_items_first_eq, md_values_eq, md_to_dict_flat_eq d h.1]
  refine ⟨?_, ?_, ?_⟩
  · cases hi : MD.itemsFirst d <;> simp [hi, Except.map] at h1 ⊢; exact h1
  · cases hi : MD.values d <;> simp [hi, Except.map] at h2 ⊢; exact h2
  · cases hi : MD.toDictFlat d <;> simp [hi, Except.map] at h3 ⊢; exact h3

/-- C08 `md_update_getlist` on the translated methods: after `update(pairs)` every key has its old
values followed by the values the argument gives it, in order -/
theorem md_update_getlist (d : MD.St Pre.Str ν) (l : List (Pre.Str × ν)) (h : ∀ p ∈ l, AtMostOnce d p.1)
    (k : Pre.Str) :
    md_getlist (md_update d l) k () = md_getlist d k () ++ (l.filter (fun p => p.1 = k)).map (·.2) := by
  rw [md_getlist_eq, md_getlist_eq, md_update_eq d l h]
  exact (Props.C08.md_update_getlist d (.pairs l) k).1

/-- C08 `md_mutator_laws` on the translated methods: after `md[k] = v`, `getlist(k)` is `[v]` and
every other key keeps its list -/
theorem md_setitem_getlist (d : MD.St Pre.Str ν) (h : WF d) (k k' : Pre.Str) (v : ν) :
    md_getlist (md_setitem d k v) k' () = if k' = k then [v] else md_getlist d k' () := by
  rw [md_getlist_eq, md_getlist_eq, md_setitem_eq d k v (atMostOnce_of_nodupKeys h.1 k)]
  exact (Props.C08.md_mutator_laws d h k k' v [] none).1

end c08

/-! ## 5. key uniqueness is an invariant -/
section invariant
open Wz.Gen.PyFns_MultiDict
variable {κ ν : Type} [DecidableEq κ]

/-- the model's `erase` keeps the keys distinct -/
theorem nodupKeys_erase (d : Dict κ ν) (k : κ) (hn : NodupKeys d) : NodupKeys (PyDict.erase d k) := by
  rw [erase_eq_filter d k hn]; exact nodupKeys_filter d _ hn

/-- the model's `addAll` keeps the keys distinct -/
theorem nodupKeys_addAll (l : List (κ × ν)) : ∀ (d : MD.St κ ν), NodupKeys d → NodupKeys (MD.addAll d l) := by
  induction l with
  | nil => intro d hn; exact hn
  | cons p t ih => intro d hn; obtain ⟨k, v⟩ := p; exact ih _ (MDLemmas.nodup_add d hn k v)

omit [DecidableEq κ] in
/-- the dict left by the model's `popitem` is the dict without its last entry -/
theorem popitem_some {d : Dict κ ν} {p : κ × ν} {c' : Dict κ ν} (h : PyDict.popitem d = some (p, c')) :
    c' = d.dropLast := by
  unfold PyDict.popitem at h
  cases hl : d.getLast? <;> simp [hl] at h
  exact h.2.symm

/-- every mutator of the model keeps the keys distinct -/
theorem nodupKeys_step (d : MD.St κ ν) (hn : NodupKeys d) (op : MD.Op κ ν) : NodupKeys (MD.step d op).1 := by
  cases op with
  | setitem k v => exact nodupKeys_set d k _ hn
  | delitem k =>
    simp only [MD.step]; split
    · exact nodupKeys_erase d k hn
    · exact hn
  | add k v => exact MDLemmas.nodup_add d hn k v
  | setlist k vs => exact nodupKeys_set d k _ hn
  | setdefault k v =>
    simp only [MD.step]; split
    · exact hn
    · exact nodupKeys_set d k _ hn
  | setlistdefault k vs =>
    simp only [MD.step]; split
    · exact hn
    · exact nodupKeys_set d k _ hn
  | update a => exact nodupKeys_addAll _ d hn
  | ior a => exact nodupKeys_addAll _ d hn
  | pop k dflt =>
    simp only [MD.step]
    cases PyDict.get? d k with
    | none => exact hn
    | some l => cases l <;> exact nodupKeys_erase d k hn
  | popitem =>
    simp only [MD.step]
    cases h : PyDict.popitem d with
    | none => exact hn
    | some r =>
      obtain ⟨⟨k, vs⟩, c'⟩ := r
      have := popitem_some h
      subst this
      cases vs <;> exact nodupKeys_dropLast d hn
  | poplist k =>
    simp only [MD.step]
    cases PyDict.get? d k with
    | none => exact hn
    | some l => exact nodupKeys_erase d k hn
  | popitemlist =>
    simp only [MD.step]
    cases h : PyDict.popitem d with
    | none => exact hn
    | some r =>
      obtain ⟨⟨k, vs⟩, c'⟩ := r
      have := popitem_some h
      subst this
      exact nodupKeys_dropLast d hn
  | clear => simp [MD.step, NodupKeys]

/-- **every translated mutator keeps the keys of the dict distinct**, so the hypothesis `AtMostOnce`
/ `NodupKeys` of the equalities above holds along every history that starts from a dict -/
theorem md_mutators_nodupKeys {ν : Type} (d : MD.St Pre.Str ν) (hn : NodupKeys d) (k : Pre.Str) (v : ν) (vs : List ν)
    (o : Option (List ν)) (l : List (Pre.Str × ν)) :
    NodupKeys (md_setitem d k v) ∧ NodupKeys (md_add d k v) ∧ NodupKeys (md_setlist d k vs) ∧
    NodupKeys (md_setdefault d k v).1 ∧ NodupKeys (md_setlistdefault d k o).1 ∧ NodupKeys (md_update d l) ∧
    NodupKeys (md_pop d k ()).1 ∧ NodupKeys (md_pop_default d k v).1 ∧ NodupKeys (md_popitem d).1 ∧
    NodupKeys (md_poplist d k).1 ∧ NodupKeys (md_popitemlist d).1 := by
  have hk := atMostOnce_of_nodupKeys hn k
  have hl : ∀ p ∈ l, AtMostOnce d p.1 := fun p _ => atMostOnce_of_nodupKeys hn p.1
  refine ⟨?_, ?_, ?_, ?_, ?_, ?_, ?_, ?_, ?_, ?_, ?_⟩
  · rw [md_setitem_eq d k v hk]; exact nodupKeys_step d hn _
  · rw [md_add_eq d k v hk]; exact nodupKeys_step d hn _
  · rw [md_setlist_eq d k vs hk]; exact nodupKeys_step d hn _
  · rw [md_setdefault_eq d k v]; exact nodupKeys_step d hn _
  · rw [md_setlistdefault_eq d k o]; exact nodupKeys_step d hn _
  · rw [md_update_eq d l hl]; exact nodupKeys_step d hn _
  · rw [md_pop_eq d k hk]; exact nodupKeys_step d hn _
  · rw [md_pop_default_eq d k v hk]; exact nodupKeys_step d hn _
  · rw [md_popitem_eq d]; exact nodupKeys_step d hn _
  · rw [md_poplist_eq d k hk]; exact nodupKeys_step d hn _
  · rw [md_popitemlist_eq d]; exact nodupKeys_step d hn _

end invariant
end Wz.PyFnsEq.MultiDict
