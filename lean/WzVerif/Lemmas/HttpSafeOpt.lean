import WzVerif.Lemmas.HttpSafe
set_option linter.unusedSimpArgs false
namespace Wz.Http
open Wz

/-! ### `parse_options_header` never indexes an empty string -/

def PartOk (p : Str × Str) : Prop := p.1 ≠ [] ∧ p.2 ≠ []

theorem pyLower_ne_nil {k : Str} (h : k ≠ []) : pyLower k ≠ [] := by
  cases k with
  | nil => exact absurd rfl h
  | cons _ _ => simp [pyLower]

theorem scanQuoted_ne_nil (q acc qs r : Str) (h : scanQuoted q acc = some (qs, r)) : qs ≠ [] := by
  fun_induction scanQuoted q acc with
  | case1 => simp at h
  | case2 t acc ih => exact ih h
  | case3 t acc ih => exact ih h
  | case4 t acc =>
    simp only [Option.some.injEq, Prod.mk.injEq] at h
    rw [← h.1]; simp
  | case5 c t acc _ _ _ ih => exact ih h

theorem optStep_part (rest r : Str) (p : Str × Str) (h : optStep rest = (r, some p)) : PartOk p := by
  unfold optStep at h
  simp only at h
  split at h
  · next rr hk heq =>
    have hkey : rest.takeWhile isKeyCh ≠ [] := by
      intro e; rw [e] at hk; simp at hk
    split at h
    · next htv =>
      simp only [Prod.mk.injEq, Option.some.injEq] at h
      rw [← h.2]
      exact ⟨pyLower_ne_nil hkey, by intro e; simp only at e; rw [e] at htv; simp at htv⟩
    · split at h
      · next q =>
        split at h
        · next qs r' hq =>
          simp only [Prod.mk.injEq, Option.some.injEq] at h
          rw [← h.2]
          exact ⟨pyLower_ne_nil hkey, scanQuoted_ne_nil _ _ _ _ hq⟩
        · simp at h
      · simp at h
  · simp at h

theorem optScan_parts (fuel : Nat) (rest : Str) (acc : List (Str × Str)) (hacc : ∀ p ∈ acc, PartOk p) :
    ∀ p ∈ optScan fuel rest acc, PartOk p := by
  induction fuel generalizing rest acc with
  | zero => intro p hp; simp [optScan] at hp; exact hacc p hp
  | succ f ih =>
    intro p hp
    rw [optScan] at hp
    generalize hs : optStep rest = sr at hp
    obtain ⟨rest1, part⟩ := sr
    simp only at hp
    have hacc1 : ∀ q ∈ (match part with | some p => p :: acc | none => acc), PartOk q := by
      cases part with
      | none => exact hacc
      | some p0 =>
        intro q hq
        simp only [List.mem_cons] at hq
        rcases hq with rfl | hq
        · exact optStep_part rest rest1 q hs
        · exact hacc q hq
    split at hp
    · simp only [List.mem_reverse] at hp; exact hacc1 p hp
    · exact ih _ _ hacc1 p hp

theorem unquoteToBytes_ne_nil {s : Str} (h : s ≠ []) : unquoteToBytes s ≠ [] := by
  fun_cases unquoteToBytes s <;> simp_all

theorem decodeReplaceFuel_ne_nil (n : Nat) (b : UInt8) (t : Bytes) : Py.decodeReplaceFuel (n + 1) (b :: t) ≠ [] := by
  unfold Py.decodeReplaceFuel
  simp only
  repeat' split
  all_goals simp

theorem decodeEnc_ne_nil (enc : Enc) {bs : Bytes} (h : bs ≠ []) : decodeEnc enc bs ≠ [] := by
  cases bs with
  | nil => exact absurd rfl h
  | cons b t =>
    cases enc with
    | ascii => simp [decodeEnc]
    | latin1 => simp [decodeEnc, Py.latin1Dec]
    | utf8 => exact decodeReplaceFuel_ne_nil _ b t

theorem pctGo_ne_nil (enc : Enc) (s run : Str) (h : s ≠ [] ∨ run ≠ []) : pctGo enc s run ≠ [] := by
  induction s generalizing run with
  | nil =>
    have hr : run ≠ [] := by rcases h with h | h; exact absurd rfl h; exact h
    have hre : run.isEmpty = false := by cases run <;> simp_all
    simp only [pctGo, pctFlush, hre, Bool.false_eq_true, if_false]
    exact decodeEnc_ne_nil enc (unquoteToBytes_ne_nil (by simpa using hr))
  | cons c t ih =>
    rw [pctGo]
    split
    · exact ih (c :: run) (Or.inr (by simp))
    · simp

theorem pctUnquote_ne_nil (enc : Enc) {s : Str} (h : s ≠ []) : pctUnquote enc s ≠ [] := by
  unfold pctUnquote
  split
  · exact pctGo_ne_nil enc s [] (Or.inl h)
  · exact h

theorem charsetValue_ne_nil {pv e v : Str} (h : charsetValue? pv = some (e, v)) : v ≠ [] := by
  unfold charsetValue? at h
  simp only at h
  split at h
  · split at h
    · split at h
      · simp at h
      · next hne =>
        simp only [Option.some.injEq, Prod.mk.injEq] at h
        rw [← h.2]
        intro e0; rw [e0] at hne; simp at hne
    · simp at h
  · simp at h

theorem optStar_ne_nil (st : OptState) {pv : Str} (h : pv ≠ []) : (optStar st pv).2 ≠ [] := by
  unfold optStar
  simp only
  have hsp : (match charsetValue? pv with
      | some (e, v) => (({ st with encoding := some (pyLower e) } : OptState), v)
      | none => (st, pv)).2 ≠ [] := by
    split
    · next e v hc => exact charsetValue_ne_nil hc
    · exact h
  split
  · exact pctUnquote_ne_nil _ hsp
  · exact hsp

theorem optUnquote_safe {pv : Str} (h : pv ≠ []) : Safe (optUnquote pv) := by
  unfold optUnquote
  obtain ⟨f, hf⟩ := first!_safe h
  obtain ⟨e, he⟩ := last!_safe (k := pv) (by cases pv <;> simp_all)
  rw [hf, he]
  simp only [ok_bind]
  split <;> exact ⟨_, rfl⟩

theorem optPart_safe (st : OptState) (pk pv : Str) (h : PartOk (pk, pv)) : Safe (optPart st pk pv) := by
  unfold optPart
  obtain ⟨l, hl⟩ := last!_safe (k := pk) (by have := h.1; cases pk <;> simp_all)
  rw [hl]
  simp only [ok_bind]
  split
  · split
    · exact ⟨st, rfl⟩
    · obtain ⟨v, hv⟩ := optUnquote_safe (optStar_ne_nil st h.2)
      rw [hv]; exact ⟨_, rfl⟩
  · obtain ⟨v, hv⟩ := optUnquote_safe h.2
    rw [hv]; exact ⟨_, rfl⟩

theorem foldlM_safe_mem {α β : Type} (f : β → α → Except String β) (l : List α) (init : β)
    (h : ∀ b, ∀ a ∈ l, Safe (f b a)) : Safe (l.foldlM f init) := by
  induction l generalizing init with
  | nil => exact ⟨init, rfl⟩
  | cons x t ih =>
    rw [List.foldlM_cons]
    obtain ⟨b, hb⟩ := h init x (by simp)
    rw [hb]
    exact ih b (fun b a ha => h b a (by simp [ha]))

theorem parseOptionsHeader_safe (s : Str) : Safe (parseOptionsHeader s) := by
  unfold parseOptionsHeader
  simp only
  generalize partition ';' s = p
  obtain ⟨v0, f, r0⟩ := p
  simp only
  split
  · exact ⟨_, rfl⟩
  · have hparts := optScan_parts ((strip r0).length + 1) (strip r0) [] (by simp)
    obtain ⟨st, hst⟩ := foldlM_safe_mem optFold _ ({} : OptState) (fun b a ha => by
      unfold optFold
      exact optPart_safe b a.1 a.2 (hparts a ha))
    rw [hst]
    exact ⟨_, rfl⟩

end Wz.Http
