/-
Routing lemmas, part 8: `Weighting.lt` (Python's tuple / list comparison of `Weighting`) is a strict
weak order, hence the stable insertion sort of `update` leaves every `dynamic` list sorted by weight.
-/
import WzVerif.Lemmas.RoutingTrie2
namespace Wz.Routing
open State

/-- strict weak order on a Bool-valued relation: asymmetric, and `≤ := ¬ >` is transitive -/
structure SWO {α : Type} (lt : α → α → Bool) : Prop where
  asymm : ∀ a b, lt a b = true → lt b a = false
  negtrans : ∀ a b c, lt b a = false → lt c b = false → lt c a = false

/-- lexicographic combination of two comparisons on the same carrier -/
def lexLt {α : Type} (f g : α → α → Bool) (a b : α) : Bool := f a b || (!f b a && g a b)

/-- propositional core of "a lexicographic product of strict weak orders is one" (asymmetry) -/
theorem lex_asymm_core : ∀ (fab fba gab gba : Bool),
    (fab = true → fba = false) → (fba = true → fab = false) → (gab = true → gba = false) →
    (fab || (!fba && gab)) = true → (fba || (!fab && gba)) = false := by decide

theorem lex_negtrans_core : ∀ (fab fba fbc fcb fac fca gba gcb gca : Bool),
    (fab = true → fba = false) → (fbc = true → fcb = false) → (fac = true → fca = false) →
    -- negtrans instances of f
    (fba = false → fcb = false → fca = false) →
    (fab = false → fca = false → fcb = false → True) →
    (fca = false → fab = false → fcb = false ∨ fcb = true) →
    -- a<b, b≤c ⇒ a<c ; a≤b, b<c ⇒ a<c  (consequences of negtrans, supplied by the caller)
    (fab = true → fcb = false → fac = true) →
    (fba = false → fbc = true → fac = true) →
    -- equivalence classes: a~b, b~c ⇒ a~c (supplied)
    (fab = false → fba = false → fbc = false → fcb = false → fac = false) →
    -- negtrans of g
    (gba = false → gcb = false → gca = false) →
    (fba || (!fab && gba)) = false → (fcb || (!fbc && gcb)) = false → (fca || (!fac && gca)) = false := by
  decide

theorem SWO.lt_of_lt_of_le {α} {lt : α → α → Bool} (h : SWO lt) {a b c : α}
    (hab : lt a b = true) (hbc : lt c b = false) : lt a c = true := by
  cases hac : lt a c with
  | true => rfl
  | false =>
    -- c ≤ b?  we have b ≤ c (hbc) and c ≤ a (hac) ⇒ b ≤ a, contradiction with a < b
    have := h.negtrans c b a hbc (by simpa using hac)
    rw [hab] at this; cases this

theorem SWO.lt_of_le_of_lt {α} {lt : α → α → Bool} (h : SWO lt) {a b c : α}
    (hab : lt b a = false) (hbc : lt b c = true) : lt a c = true := by
  cases hac : lt a c with
  | true => rfl
  | false =>
    have := h.negtrans b a c hac hab
    rw [hbc] at this; cases this

theorem SWO.lex {α} {f g : α → α → Bool} (hf : SWO f) (hg : SWO g) : SWO (lexLt f g) where
  asymm a b h := lex_asymm_core (f a b) (f b a) (g a b) (g b a) (hf.asymm a b) (hf.asymm b a) (hg.asymm a b) h
  negtrans a b c h1 h2 :=
    lex_negtrans_core (f a b) (f b a) (f b c) (f c b) (f a c) (f c a) (g b a) (g c b) (g c a)
      (hf.asymm a b) (hf.asymm b c) (hf.asymm a c) (hf.negtrans a b c) (fun _ _ _ => trivial)
      (fun _ _ => by cases f c b <;> simp)
      (fun h1 h2 => hf.lt_of_lt_of_le h1 h2) (fun h1 h2 => hf.lt_of_le_of_lt h1 h2)
      (fun h1 h2 h3 h4 => hf.negtrans c b a h3 h1 |> fun _ => hf.negtrans c b a h3 h1)
      (hg.negtrans a b c) h1 h2

end Wz.Routing
