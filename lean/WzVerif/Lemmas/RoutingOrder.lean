/-
Routing lemmas, part 8: `Weighting.lt` (Python's tuple / list comparison of `Weighting`) is a strict
weak order, hence the stable insertion sort of `update` leaves every `dynamic` list sorted by weight.
-/
import WzVerif.Lemmas.RoutingTrie2
namespace Wz.Routing
open State

/-- strict weak order on a Bool-valued relation: asymmetric, and `x ≤ y := ¬ y < x` is transitive -/
structure SWO {α : Type} (lt : α → α → Bool) : Prop where
  asymm : ∀ a b, lt a b = true → lt b a = false
  negtrans : ∀ a b c, lt b a = false → lt c b = false → lt c a = false

theorem SWO.lt_of_lt_of_le {α} {lt : α → α → Bool} (h : SWO lt) {a b c : α}
    (hab : lt a b = true) (hbc : lt c b = false) : lt a c = true := by
  cases hac : lt a c with
  | true => rfl
  | false =>
    have := h.negtrans b c a hbc hac
    rw [hab] at this; cases this

theorem SWO.lt_of_le_of_lt {α} {lt : α → α → Bool} (h : SWO lt) {a b c : α}
    (hab : lt b a = false) (hbc : lt b c = true) : lt a c = true := by
  cases hac : lt a c with
  | true => rfl
  | false =>
    have := h.negtrans c a b hac hab
    rw [hbc] at this; cases this

/-- lexicographic combination of two comparisons on the same carrier -/
def lexLt {α : Type} (f g : α → α → Bool) (a b : α) : Bool := f a b || (!f b a && g a b)

theorem SWO.lex {α} {f g : α → α → Bool} (hf : SWO f) (hg : SWO g) : SWO (lexLt f g) where
  asymm a b h := by
    simp only [lexLt, Bool.or_eq_true, Bool.and_eq_true, Bool.not_eq_true'] at h
    simp only [lexLt, Bool.or_eq_false_iff, Bool.and_eq_false_imp, Bool.not_eq_true']
    rcases h with h | ⟨h1, h2⟩
    · exact ⟨hf.asymm a b h, fun h' => by rw [h] at h'; cases h'⟩
    · exact ⟨h1, fun _ => hg.asymm a b h2⟩
  negtrans a b c h1 h2 := by
    simp only [lexLt, Bool.or_eq_false_iff, Bool.and_eq_false_imp, Bool.not_eq_true'] at h1 h2 ⊢
    obtain ⟨h1a, h1b⟩ := h1
    obtain ⟨h2a, h2b⟩ := h2
    refine ⟨hf.negtrans a b c h1a h2a, ?_⟩
    intro hac
    cases hab : f a b with
    | false =>
      cases hbc : f b c with
      | false => exact hg.negtrans a b c (h1b hab) (h2b hbc)
      | true => have := hf.lt_of_le_of_lt h1a hbc; rw [hac] at this; cases this
    | true => have := hf.lt_of_lt_of_le hab h2a; rw [hac] at this; cases this


theorem SWO.int_key {α} (k : α → Int) : SWO (fun a b => decide (k a < k b)) where
  asymm a b h := by simp only [decide_eq_true_eq, decide_eq_false_iff_not] at h ⊢; omega
  negtrans a b c h1 h2 := by simp only [decide_eq_false_iff_not] at h1 h2 ⊢; omega

theorem swo_intLt : SWO intLt := by
  have := SWO.int_key (fun (x : Int) => x)
  exact this

theorem swo_pairLt : SWO pairLt := by
  have h := SWO.lex (SWO.int_key (fun (x : Int × Int) => x.1)) (SWO.int_key (fun (x : Int × Int) => x.2))
  have heq : pairLt = lexLt (fun a b => decide (a.1 < b.1)) (fun a b => decide (a.2 < b.2)) := by
    funext a b
    simp only [pairLt, lexLt]
    by_cases h1 : a.1 < b.1
    · simp [h1]
    · by_cases h2 : b.1 < a.1
      · have : ¬ a.1 = b.1 := by omega
        simp [h1, h2, this]
      · have : a.1 = b.1 := by omega
        simp [h1, h2, this]
  rw [heq]; exact h

/-- Python list comparison over a strict weak order is a strict weak order -/
theorem swo_listLt {α} {lt : α → α → Bool} (h : SWO lt) : SWO (listLt lt) where
  asymm := by
    intro a
    induction a with
    | nil => intro b hb; cases b <;> simp_all [listLt]
    | cons x xs ih =>
      intro b hb
      cases b with
      | nil => simp [listLt] at hb
      | cons y ys =>
        simp only [listLt, Bool.or_eq_true, Bool.and_eq_true, Bool.not_eq_true'] at hb
        simp only [listLt, Bool.or_eq_false_iff, Bool.and_eq_false_imp, Bool.not_eq_true']
        rcases hb with hb | ⟨h1, h2⟩
        · exact ⟨h.asymm x y hb, fun h' => by rw [hb] at h'; cases h'⟩
        · exact ⟨h1, fun _ => ih ys h2⟩
  negtrans := by
    intro a
    induction a with
    | nil =>
      intro b c h1 h2
      cases c with
      | nil => rfl
      | cons z zs =>
        simp [listLt]
    | cons x xs ih =>
      intro b c h1 h2
      cases b with
      | nil => simp [listLt] at h1
      | cons y ys =>
        cases c with
        | nil => simp [listLt] at h2
        | cons z zs =>
          simp only [listLt, Bool.or_eq_false_iff, Bool.and_eq_false_imp, Bool.not_eq_true'] at h1 h2 ⊢
          obtain ⟨h1a, h1b⟩ := h1
          obtain ⟨h2a, h2b⟩ := h2
          refine ⟨h.negtrans x y z h1a h2a, ?_⟩
          intro hac
          cases hab : lt x y with
          | false =>
            cases hbc : lt y z with
            | false => exact ih ys zs (h1b hab) (h2b hbc)
            | true => have := h.lt_of_le_of_lt h1a hbc; rw [hac] at this; cases this
          | true => have := h.lt_of_lt_of_le hab h2a; rw [hac] at this; cases this

theorem SWO.comap {α β} {lt : β → β → Bool} (h : SWO lt) (k : α → β) : SWO (fun a b => lt (k a) (k b)) :=
  ⟨fun a b => h.asymm (k a) (k b), fun a b c => h.negtrans (k a) (k b) (k c)⟩

theorem swo_weighting : SWO Weighting.lt := by
  have h := SWO.lex (SWO.int_key (fun (w : Weighting) => w.nStatic))
    (SWO.lex ((swo_listLt swo_pairLt).comap (fun (w : Weighting) => w.statics))
      (SWO.lex (SWO.int_key (fun (w : Weighting) => w.nArgs))
        ((swo_listLt swo_intLt).comap (fun (w : Weighting) => w.args))))
  have heq : Weighting.lt = lexLt (fun a b => decide (a.nStatic < b.nStatic))
      (lexLt (fun a b => listLt pairLt a.statics b.statics)
        (lexLt (fun a b => decide (a.nArgs < b.nArgs)) (fun a b => listLt intLt a.args b.args))) := by
    funext a b
    simp only [Weighting.lt, lexLt]
    have e1 : (a.nStatic == b.nStatic) = (!decide (b.nStatic < a.nStatic) && !decide (a.nStatic < b.nStatic)) := by
      by_cases h1 : a.nStatic < b.nStatic
      · have : ¬ a.nStatic = b.nStatic := by omega
        have h2 : ¬ b.nStatic < a.nStatic := by omega
        simp [h1, h2, this]
      · by_cases h2 : b.nStatic < a.nStatic
        · have : ¬ a.nStatic = b.nStatic := by omega
          simp [h1, h2, this]
        · have : a.nStatic = b.nStatic := by omega
          simp [h1, h2, this]
    have e2 : (a.nArgs == b.nArgs) = (!decide (b.nArgs < a.nArgs) && !decide (a.nArgs < b.nArgs)) := by
      by_cases h1 : a.nArgs < b.nArgs
      · have : ¬ a.nArgs = b.nArgs := by omega
        have h2 : ¬ b.nArgs < a.nArgs := by omega
        simp [h1, h2, this]
      · by_cases h2 : b.nArgs < a.nArgs
        · have : ¬ a.nArgs = b.nArgs := by omega
          simp [h1, h2, this]
        · have : a.nArgs = b.nArgs := by omega
          simp [h1, h2, this]
    rw [e1, e2]
    cases decide (a.nStatic < b.nStatic) <;> cases decide (b.nStatic < a.nStatic) <;>
      cases decide (a.nArgs < b.nArgs) <;> cases decide (b.nArgs < a.nArgs) <;> simp
  rw [heq]; exact h

/-! ### sortedness -/

/-- no later entry is strictly lighter than an earlier one -/
def DynSortedList (l : List (Part × State)) : Prop :=
  l.Pairwise (fun a b => b.1.weight.lt a.1.weight = false)

theorem insertDyn_sorted {x : Part × State} {l : List (Part × State)} (h : DynSortedList l) :
    DynSortedList (insertDyn x l) := by
  induction l with
  | nil => simp [insertDyn, DynSortedList]
  | cons y t ih =>
    simp only [DynSortedList, List.pairwise_cons] at h
    obtain ⟨hy, ht⟩ := h
    simp only [insertDyn]
    split
    · rename_i hlt
      simp only [DynSortedList, List.pairwise_cons]
      refine ⟨?_, ih ht⟩
      intro z hz
      rcases List.mem_cons.1 ((insertDyn_perm x t).mem_iff.1 hz) with rfl | hz
      · exact swo_weighting.asymm _ _ hlt
      · exact hy z hz
    · rename_i hlt
      have hlt : y.1.weight.lt x.1.weight = false := by simpa using hlt
      simp only [DynSortedList, List.pairwise_cons]
      refine ⟨?_, hy, ht⟩
      intro z hz
      rcases List.mem_cons.1 hz with rfl | hz
      · exact hlt
      · exact swo_weighting.negtrans _ _ _ hlt (hy z hz)

theorem sortDyn_sorted (l : List (Part × State)) : DynSortedList (sortDyn l) := by
  induction l with
  | nil => simp [sortDyn, DynSortedList]
  | cons x t ih => exact insertDyn_sorted ih

/-- every `dynamic` list below `st` is sorted by weight -/
inductive Sorted : State → Prop
  | node {rs ss ds} : DynSortedList ds → (∀ k s, (k, s) ∈ ss → Sorted s) → (∀ p s, (p, s) ∈ ds → Sorted s) →
      Sorted (.node rs ss ds)

theorem Sorted.update (st : State) : Sorted (State.update st) := by
  induction st using State.induct with
  | h rs ss ds ihs ihd =>
    rw [update_node]
    refine .node (sortDyn_sorted _) ?_ ?_
    · intro k s hm
      obtain ⟨s0, hm', rfl⟩ := mem_map_update.1 hm
      exact ihs k s0 hm'
    · intro p s hm
      obtain ⟨s0, hm', rfl⟩ := mem_map_update.1 ((sortDyn_perm _).mem_iff.1 hm)
      exact ihd p s0 hm'

theorem Sorted.buildRoot (rules : List Rule) : Sorted (buildRoot rules) := by
  rw [buildRoot_eq]; exact Sorted.update _

end Wz.Routing
