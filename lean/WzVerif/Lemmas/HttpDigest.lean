import WzVerif.Lemmas.HttpAuth
set_option linter.unusedSimpArgs false
namespace Wz.Http
open Wz

/-! ### WWW-Authenticate: Digest (some keys always quoted) -/

/-- what `parse_http_list` accumulates for `quote_header_value(v, allow_token)` -/
def qimg (allow : Bool) (v : Str) : Str := if allow then img v else '"' :: (v ++ ['"'])

theorem qimg_scans (allow : Bool) (v : Str) : Scans (quoteHeaderValue v allow) (qimg allow v) := by
  have := scans_quote v allow
  unfold qimg
  exact this

theorem qimg_ne_nil (allow : Bool) (v : Str) : qimg allow v ≠ [] := by
  unfold qimg; split
  · exact img_ne_nil v
  · simp

theorem qimg_tight (allow : Bool) (v : Str) : Tight (qimg allow v) := by
  unfold qimg; split
  · exact img_tight v
  · constructor
    · intro c hc; simp at hc; subst hc; decide
    · intro c hc
      have : ('"' :: (v ++ ['"'])).getLast? = some '"' := by rw [← List.cons_append, List.getLast?_concat]
      rw [this] at hc; simp at hc; subst hc; decide

theorem qimg_unwrap (allow : Bool) (v : Str) : (stripDq? (qimg allow v)).getD (qimg allow v) = v := by
  unfold qimg; split
  · exact unwrap_img v
  · simp [stripDq_wrap]

theorem qimg_last (allow : Bool) (v : Str) : ∀ c, (qimg allow v).getLast? = some c → c ≠ '=' ∧ Py.isSpace c = false := by
  intro c hc
  unfold qimg at hc
  split at hc
  · -- img v: token or quoted
    unfold img at hc
    split at hc
    · simp at hc; subst hc; exact ⟨by decide, by decide⟩
    · split at hc
      · next h1 =>
        have := (List.all_eq_true.mp h1) c (List.mem_of_getLast? hc)
        exact ⟨isToken_ne_eq this, isToken_not_space this⟩
      · rw [← List.cons_append, List.getLast?_concat] at hc
        simp at hc; subst hc; exact ⟨by decide, by decide⟩
  · rw [← List.cons_append, List.getLast?_concat] at hc
    simp at hc; subst hc; exact ⟨by decide, by decide⟩

/-- wire text / scanner image of one digest parameter -/
def digestItemText (kv : Str × Str) : Str := kv.1 ++ '=' :: quoteHeaderValue kv.2 (allowToken := !isDigestQuoted kv.1)
def digestItemImg (kv : Str × Str) : Str := kv.1 ++ '=' :: qimg (!isDigestQuoted kv.1) kv.2

theorem digestItem_scans (kv : Str × Str) (hk : KeyOk kv.1 = true) :
    Scans (digestItemText kv) (digestItemImg kv) ∧ Tight (digestItemImg kv) ∧ digestItemImg kv ≠ [] := by
  obtain ⟨k, v⟩ := kv
  have hall := keyOk_all hk
  have hne := keyOk_ne_nil hk
  refine ⟨?_, ?_, ?_⟩
  · have := (scans_token hall).append (scans_eq.append (qimg_scans (!isDigestQuoted k) v))
    simpa [digestItemText, digestItemImg] using this
  · apply tight_append hne (by simp) (token_tight hall).1
    intro c hc
    have hin := qimg_ne_nil (!isDigestQuoted k) v
    cases hi : qimg (!isDigestQuoted k) v with
    | nil => exact absurd hi hin
    | cons a t =>
      simp only at hc
      rw [hi, List.getLast?_cons_cons, ← hi] at hc
      exact (qimg_last _ v c hc).2
  · simp [digestItemImg, hne]

theorem digest_dictItem (kv : Str × Str) (hk : KeyOk kv.1 = true) :
    dictItem (digestItemImg kv) = .ok (some (kv.1, some kv.2)) := by
  obtain ⟨k, v⟩ := kv
  obtain ⟨l, hl, hne, _⟩ := keyOk_last hk
  have hs : strip k = k := strip_tight (token_tight (keyOk_all hk))
  have hne' : k.isEmpty = false := by
    cases k with
    | nil => exact absurd rfl (keyOk_ne_nil hk)
    | cons _ _ => rfl
  simp [dictItem, digestItemImg, partition_found (keyOk_no_eq hk), hs, hne',
    last!_of_getLast? hl, hne, strip_tight (qimg_tight _ v), qimg_unwrap]

theorem digest_parseList (d : List (Str × Str)) (hk : ∀ x ∈ d, KeyOk x.1 = true) :
    parseListHeader (join ", " (d.map digestItemText)) = d.map digestItemImg := by
  unfold parseListHeader
  have := parseHttpList_join (d.map fun x => (digestItemText x, digestItemImg x)) (by
    intro y hy
    simp only [List.mem_map] at hy
    obtain ⟨x, hx, rfl⟩ := hy
    exact digestItem_scans x (hk x hx))
  simp only [List.map_map, Function.comp_def] at this
  rw [this, List.map_map]
  apply List.map_congr_left
  intro x hx
  obtain ⟨k, v⟩ := x
  have hall := keyOk_all (hk _ hx)
  cases k with
  | nil => exact absurd rfl (keyOk_ne_nil (hk _ hx))
  | cons c t =>
    simp only [List.all_cons, Bool.and_eq_true] at hall
    simp [digestItemImg, stripDq_none_of_head (isToken_ne_dq hall.1)]

theorem digest_foldlM (d : List (Str × Str)) (acc : Dict (Option Str)) (hk : ∀ x ∈ d, KeyOk x.1 = true)
    (hnd : (d.map (·.1)).Nodup) (hdis : ∀ x ∈ d, dictHas acc x.1 = false) :
    (d.map digestItemImg).foldlM dictStep acc = .ok (acc ++ d.map fun kv => (kv.1, some kv.2)) := by
  induction d generalizing acc with
  | nil => simp
  | cons x t ih =>
    obtain ⟨k, v⟩ := x
    simp only [List.map_cons, List.foldlM_cons]
    simp only [dictStep]
    rw [digest_dictItem (k, v) (hk (k, v) (by simp))]
    simp only [ok_bind, pure_eq_ok]
    have hk0 : dictHas acc k = false := hdis (k, v) (by simp)
    simp only [dictSet, hk0, Bool.false_eq_true, if_false]
    simp only [List.map_cons, List.nodup_cons] at hnd
    rw [ih (acc ++ [(k, some v)]) (fun y hy => hk y (by simp [hy])) hnd.2]
    · simp
    · intro y hy
      rw [dictHas_append_single, hdis y (by simp [hy])]
      simp
      intro e
      exact hnd.1 (by rw [e]; exact List.mem_map_of_mem hy)

theorem digestItemText_ne_nil (kv : Str × Str) (hk : KeyOk kv.1 = true) : digestItemText kv ≠ [] := by
  simp [digestItemText, keyOk_ne_nil hk]

theorem digestItemText_last (kv : Str × Str) :
    ∀ c, (digestItemText kv).getLast? = some c → c ≠ '=' ∧ Py.isSpace c = false := by
  intro c hc
  obtain ⟨k, v⟩ := kv
  simp only [digestItemText] at hc
  have hne : '=' :: quoteHeaderValue v (allowToken := !isDigestQuoted k) ≠ [] := by simp
  rw [getLast?_append_of_ne_nil hne] at hc
  -- the quoted text ends like its image
  have hq : ∀ (a : Bool) c, (quoteHeaderValue v a).getLast? = some c → c ≠ '=' ∧ Py.isSpace c = false := by
    intro a c hc
    cases a with
    | true => exact quote_last_ne_eq v c hc
    | false =>
      unfold quoteHeaderValue at hc
      split at hc
      · simp at hc; subst hc; exact ⟨by decide, by decide⟩
      · simp only [Bool.false_and, Bool.false_eq_true, if_false] at hc
        rw [List.getLast?_concat] at hc
        simp at hc; subst hc; exact ⟨by decide, by decide⟩
  cases hv : quoteHeaderValue v (allowToken := !isDigestQuoted k) with
  | nil =>
    exfalso
    cases hb : (!isDigestQuoted k) with
    | true => rw [hb] at hv; exact quote_ne_nil v hv
    | false => rw [hb] at hv; unfold quoteHeaderValue at hv; split at hv <;> simp at hv
  | cons a t =>
    rw [hv, List.getLast?_cons_cons, ← hv] at hc
    exact hq _ c hc

/-- `WWWAuthenticate.from_header(WWWAuthenticate("digest", d).to_header())` returns the same
parameters for every non-empty dict of distinct token keys without `*` and string values -/
theorem www_digest_roundtrip_any (x : Str × Str) (d : List (Str × Str))
    (hk : ∀ y ∈ x :: d, KeyOk y.1 = true) (hnd : ((x :: d).map (·.1)).Nodup) :
    (wwwToHeader ⟨"digest".toList, (x :: d).map (fun kv => (kv.1, some kv.2)), none⟩ >>= wwwFromHeader)
      = .ok (some ⟨"digest".toList, (x :: d).map (fun kv => (kv.1, some kv.2)), none⟩) := by
  have hdump : wwwToHeader ⟨"digest".toList, (x :: d).map (fun kv => (kv.1, some kv.2)), none⟩
      = .ok ("Digest".toList ++ ' ' :: join ", " ((x :: d).map digestItemText)) := by
    unfold wwwToHeader
    simp only [beq_self_eq_true, if_true, List.map_map, Function.comp_def, optText]
    rfl
  rw [hdump]
  simp only [ok_bind]
  -- shape of the parameter text
  generalize hwd : join ", " ((x :: d).map digestItemText) = w
  have hne : ∀ y ∈ (x :: d).map digestItemText, y ≠ [] := by
    intro y hy
    simp only [List.mem_map] at hy
    obtain ⟨z, hz, rfl⟩ := hy
    exact digestItemText_ne_nil z (hk z hz)
  have hw : w = List.intercalate ", ".toList (digestItemText x :: d.map digestItemText) := by simp [← hwd, join]
  obtain ⟨z, hz, hl⟩ := intercalate_last ", ".toList (digestItemText x) (d.map digestItemText) (by simpa using hne)
  have hz' : ∃ y ∈ x :: d, z = digestItemText y := by
    have : z ∈ (x :: d).map digestItemText := by simpa using hz
    simp only [List.mem_map] at this
    obtain ⟨y, hy, rfl⟩ := this
    exact ⟨y, hy, rfl⟩
  obtain ⟨y, hy, rfl⟩ := hz'
  have hlast : ∀ c, w.getLast? = some c → c ≠ '=' ∧ Py.isSpace c = false := by
    intro c hc
    rw [hw, hl] at hc
    exact digestItemText_last y c hc
  have hhead : ∀ c, w.head? = some c → Py.isSpace c = false := by
    intro c hc
    rw [hw, intercalate_head _ _ _ (digestItemText_ne_nil x (hk x (by simp)))] at hc
    have hk0 := hk x (by simp)
    have hc' : x.1.head? = some c := by
      have hkn := keyOk_ne_nil hk0
      cases hx : x.1 with
      | nil => exact absurd hx hkn
      | cons a t => simp [digestItemText, hx] at hc; simp [hc]
    exact isToken_not_space ((List.all_eq_true.mp (keyOk_all hk0)) c (List.mem_of_head? hc'))
  have hstrip : strip w = w := strip_tight ⟨hhead, fun c hc => (hlast c hc).2⟩
  have hrs : Py.rstripBy (· == '=') w = w := rstripBy_noop (fun c hc => by simpa using (hlast c hc).1)
  have heq : '=' ∈ w := by
    rw [hw]
    cases d with
    | nil => simp [digestItemText]
    | cons b t => rw [List.map_cons, List.intercalate_cons_cons]; simp [digestItemText]
  have hparse : parseDictHeader w = .ok ((x :: d).map fun kv => (kv.1, some kv.2)) := by
    unfold parseDictHeader
    rw [← hwd, digest_parseList (x :: d) hk]
    have := digest_foldlM (x :: d) [] hk hnd (by intro _ _; rfl)
    simpa using this
  unfold wwwFromHeader
  have hne2 : ("Digest".toList ++ ' ' :: w).isEmpty = false := rfl
  have hsp : ' ' ∉ "Digest".toList := by decide
  have hl2 : pyLower "Digest".toList = "digest".toList := by decide
  simp only [hne2, Bool.false_eq_true, if_false, partition_found hsp, hl2, hstrip]
  have heq' : '=' ∈ Py.rstripBy (fun x => x == '=') w := by rw [hrs]; exact heq
  simp [authRest, heq', hparse]

end Wz.Http
