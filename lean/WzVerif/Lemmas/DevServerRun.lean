/-
Helper lemmas for the `run_wsgi` state machine (Model/DevServerRun.lean).
-/
import WzVerif.Model.DevServerRun
import WzVerif.Lemmas.DevServer
namespace Wz.RunWsgi
open Wz Wz.Chunked Wz.DevServer

/-- the framed body bytes of a list of `write` calls -/
def framesOf (chunked : Bool) (ps : List Bytes) : Bytes := ps.flatMap (frame chunked)

theorem frame_eq_framedPiece (chunked : Bool) (d : Bytes) : frame chunked d = framedPiece chunked d := rfl

theorem bodyWire_frames (chunked : Bool) (ps : List Bytes) :
    bodyWire chunked ps = framesOf chunked ps ++ (if chunked then zeroChunk else []) := by
  rw [bodyWire_eq]; rfl

theorem framesOf_append (chunked : Bool) (a b : List Bytes) :
    framesOf chunked (a ++ b) = framesOf chunked a ++ framesOf chunked b := by
  simp [framesOf]

/-- invariant of the writer between events (the terminating chunk not yet written) -/
structure WInv (c : Conf) (pre : Bytes) (st : HState) : Prop where
  notDone : st.done = false
  unsent : st.statusSent = none → st.headersSent = none ∧ st.wire = pre ∧ st.pieces = [] ∧ st.chunk = false
  sent : ∀ s, st.statusSent = some s → ∃ h, st.headersSent = some h ∧
    st.chunk = (respOf c s h).chunked ∧ st.wire = pre ++ (respOf c s h).head ++ framesOf st.chunk st.pieces
  /-- once a header list was sent, `headers_set` cannot be replaced any more -/
  frozen : st.headersSent.isSome = true → st.headersSet = st.headersSent

theorem WInv.fresh (c : Conf) (pre : Bytes) : WInv c pre { wire := pre } := by
  constructor <;> simp

/-- once the head is out, the sent status / headers / framing decision never change -/
structure Stable (st st' : HState) : Prop where
  status : ∀ s, st.statusSent = some s → st'.statusSent = some s
  headers : ∀ s, st.statusSent = some s → st'.headersSent = st.headersSent
  chunk : ∀ s, st.statusSent = some s → st'.chunk = st.chunk
  pieces : ∃ more, st'.pieces = st.pieces ++ more

theorem Stable.refl (st : HState) : Stable st st := ⟨fun _ h => h, fun _ _ => rfl, fun _ _ => rfl, ⟨[], by simp⟩⟩

theorem Stable.trans {a b c : HState} (h1 : Stable a b) (h2 : Stable b c) : Stable a c := by
  refine ⟨fun s h => h2.status s (h1.status s h), fun s h => ?_, fun s h => ?_, ?_⟩
  · rw [h2.headers s (h1.status s h), h1.headers s h]
  · rw [h2.chunk s (h1.status s h), h1.chunk s h]
  · obtain ⟨m1, e1⟩ := h1.pieces
    obtain ⟨m2, e2⟩ := h2.pieces
    exact ⟨m1 ++ m2, by rw [e2, e1, List.append_assoc]⟩

theorem step_inv {c : Conf} {pre : Bytes} {st st' : HState} {e : Ev} (h : WInv c pre st)
    (hs : step c st e = some st') : WInv c pre st' ∧ Stable st st' := by
  cases e with
  | start status headers exc =>
    have key : st' = { st with statusSet := some status, headersSet := some headers } ∧
        (st.headersSent.isSome = true → False) := by
      simp only [step] at hs
      by_cases hx : exc = true
      · simp only [hx, if_true] at hs
        by_cases ht : st.headersSent.isSome = true
        · simp [ht] at hs
        · simp only [ht, Bool.false_eq_true, if_false, Option.some.injEq] at hs
          exact ⟨hs.symm, ht⟩
      · simp only [hx, Bool.false_eq_true, if_false] at hs
        by_cases ht : st.headersSet.isSome = true
        · simp [ht] at hs
        · simp only [ht, Bool.false_eq_true, if_false, Option.some.injEq] at hs
          refine ⟨hs.symm, fun hsent => ?_⟩
          rw [h.frozen hsent] at ht
          exact ht hsent
    obtain ⟨rfl, hnt⟩ := key
    refine ⟨⟨h.notDone, h.unsent, h.sent, fun ht => absurd ht (by simpa using hnt)⟩, ?_⟩
    exact ⟨fun _ h => h, fun _ _ => rfl, fun _ _ => rfl, ⟨[], by simp⟩⟩
  | emit data =>
    simp only [step] at hs
    cases hss : st.statusSet with
    | none => simp [hss] at hs
    | some status =>
      cases hhs : st.headersSet with
      | none => simp [hss, hhs] at hs
      | some headers =>
        simp only [hss, hhs, Option.some.injEq] at hs
        cases hsent : st.statusSent with
        | some s =>
          simp only [hsent, Option.isSome_some, if_true] at hs
          subst hs
          obtain ⟨hh, h1, h2, h3⟩ := h.sent s hsent
          refine ⟨⟨h.notDone, fun hn => by simp at hn, ?_, h.frozen⟩, ?_⟩
          · intro s' hs'
            simp only [Option.some.injEq] at hs'
            subst hs'
            refine ⟨hh, h1, h2, ?_⟩
            simp only [framesOf_append, h3, List.append_assoc]
            simp [framesOf]
          · exact ⟨fun x hx => by rw [hsent] at hx; exact hx, fun _ _ => rfl, fun _ _ => rfl, ⟨[data], rfl⟩⟩
        | none =>
          simp only [hsent, Option.isSome_none, Bool.false_eq_true, if_false] at hs
          subst hs
          obtain ⟨hu1, hu2, hu3, hu4⟩ := h.unsent hsent
          refine ⟨⟨h.notDone, fun hn => by simp at hn, ?_, fun _ => by simp⟩, ?_⟩
          · intro s' hs'
            simp only [Option.some.injEq] at hs'
            subst hs'
            refine ⟨headers, rfl, rfl, ?_⟩
            simp [hu2, hu3, framesOf, List.append_assoc]
          · exact ⟨fun s h => by simp [hsent] at h, fun s h => by simp [hsent] at h,
              fun s h => by simp [hsent] at h, ⟨[data], by simp [hu3]⟩⟩

theorem runEvs_inv {c : Conf} {pre : Bytes} : ∀ (evs : List Ev) (st : HState), WInv c pre st →
    WInv c pre (runEvs c st evs).1 ∧ Stable st (runEvs c st evs).1 := by
  intro evs
  induction evs with
  | nil => intro st h; exact ⟨h, Stable.refl st⟩
  | cons e es ih =>
    intro st h
    simp only [runEvs]
    cases hs : step c st e with
    | none => exact ⟨h, Stable.refl st⟩
    | some st' =>
      obtain ⟨h1, s1⟩ := step_inv h hs
      obtain ⟨h2, s2⟩ := ih st' h1
      exact ⟨h2, s1.trans s2⟩

/-- what `execute` leaves behind: the invariant with the terminating chunk accounted for -/
structure Final (c : Conf) (pre : Bytes) (st : HState) : Prop where
  unsent : st.statusSent = none → st.wire = pre ∧ st.done = false
  sent : ∀ s, st.statusSent = some s → ∃ h, st.headersSent = some h ∧ st.chunk = (respOf c s h).chunked ∧
    st.wire = pre ++ (respOf c s h).head ++ framesOf st.chunk st.pieces ++ (if st.done then zeroChunk else [])
  done_chunk : st.done = true → st.chunk = true

theorem WInv.final {c : Conf} {pre : Bytes} {st : HState} (h : WInv c pre st) : Final c pre st := by
  refine ⟨fun hn => ⟨(h.unsent hn).2.1, h.notDone⟩, fun s hs => ?_, fun hd => by simp [h.notDone] at hd⟩
  obtain ⟨hh, h1, h2, h3⟩ := h.sent s hs
  exact ⟨hh, h1, h2, by simp [h.notDone, h3]⟩

/-- `execute` from a state satisfying the invariant: when it raises the invariant still holds (no
terminating chunk was written); when it completes, the head has been sent and the terminating chunk
is there exactly when the response is chunked -/
theorem execute_spec {c : Conf} {pre : Bytes} (st : HState) (a : AppRun) (h : WInv c pre st) :
    Stable st (execute c st a).1 ∧
    ((execute c st a).2.2 = true → WInv c pre (execute c st a).1) ∧
    ((execute c st a).2.2 = false → Final c pre (execute c st a).1 ∧
      (execute c st a).1.statusSent.isSome = true ∧ (execute c st a).1.done = (execute c st a).1.chunk) := by
  unfold execute
  obtain ⟨h1, s1⟩ := runEvs_inv a.call st h
  rcases hr1 : runEvs c st a.call with ⟨st1, r1⟩
  rw [hr1] at h1 s1
  simp only
  by_cases hc : (r1 || a.callRaises) = true
  · simp only [hc, if_true]
    exact ⟨s1, fun _ => h1, fun hf => by simp at hf⟩
  · simp only [hc, Bool.false_eq_true, if_false]
    obtain ⟨h2, s2⟩ := runEvs_inv a.iter st1 h1
    rcases hr2 : runEvs c st1 a.iter with ⟨st2, r2⟩
    rw [hr2] at h2 s2
    simp only
    by_cases hi : (r2 || a.iterRaises) = true
    · simp only [hi, if_true]
      exact ⟨s1.trans s2, fun _ => h2, fun hf => by simp at hf⟩
    · simp only [hi, Bool.false_eq_true, if_false]
      -- the closing `write(b"")`
      have hfin : ∀ st3, (if st2.headersSent.isSome = true then some st2 else step c st2 (.emit [])) = some st3 →
          WInv c pre st3 ∧ Stable st2 st3 ∧ st3.statusSent.isSome = true := by
        intro st3 h3
        by_cases ht : st2.headersSent.isSome = true
        · simp only [ht, if_true, Option.some.injEq] at h3
          subst h3
          refine ⟨h2, Stable.refl _, ?_⟩
          cases hss : st2.statusSent with
          | some s => rfl
          | none => rw [(h2.unsent hss).1] at ht; simp at ht
        · simp only [ht, Bool.false_eq_true, if_false] at h3
          obtain ⟨h4, s4⟩ := step_inv h2 h3
          refine ⟨h4, s4, ?_⟩
          simp only [step] at h3
          cases hss : st2.statusSet with
          | none => simp [hss] at h3
          | some status =>
            cases hhs : st2.headersSet with
            | none => simp [hss, hhs] at h3
            | some headers =>
              simp only [hss, hhs, Option.some.injEq] at h3
              subst h3
              cases hsent : st2.statusSent <;> simp [hsent]
      cases hm : (if st2.headersSent.isSome = true then some st2 else step c st2 (.emit [])) with
      | none => exact ⟨s1.trans s2, fun _ => h2, fun hf => by simp at hf⟩
      | some st3 =>
        obtain ⟨h3, s3, hsome⟩ := hfin st3 hm
        simp only
        refine ⟨?_, fun hf => by simp at hf, fun _ => ⟨?_, hsome, by simp⟩⟩
        · have s := (s1.trans s2).trans s3
          exact ⟨s.status, s.headers, s.chunk, s.pieces⟩
        · refine ⟨fun hn => ?_, fun s hs => ?_, fun hd => hd⟩
          · have hn' : st3.statusSent = none := hn
            rw [hn'] at hsome
            simp at hsome
          obtain ⟨hh, e1, e2, e3⟩ := h3.sent s hs
          refine ⟨hh, e1, e2, ?_⟩
          simp only [e3]
          cases st3.chunk <;> simp

/-- the data of the `write` calls among the events -/
def emitsOf : List Ev → List Bytes
  | [] => []
  | .emit d :: es => d :: emitsOf es
  | .start .. :: es => emitsOf es

theorem emitsOf_append (a b : List Ev) : emitsOf (a ++ b) = emitsOf a ++ emitsOf b := by
  induction a with
  | nil => rfl
  | cons e es ih => cases e <;> simp [emitsOf, ih]

theorem step_pieces {c : Conf} {st st' : HState} {e : Ev} (hs : step c st e = some st') :
    st'.pieces = st.pieces ++ emitsOf [e] := by
  cases e with
  | start status headers exc =>
    simp only [step] at hs
    split at hs
    · split at hs
      · cases hs
      · simp only [Option.some.injEq] at hs; subst hs; simp [emitsOf]
    · split at hs
      · cases hs
      · simp only [Option.some.injEq] at hs; subst hs; simp [emitsOf]
  | emit data =>
    simp only [step] at hs
    split at hs
    · simp only [Option.some.injEq] at hs
      subst hs
      split <;> simp [emitsOf]
    · cases hs

theorem runEvs_pieces {c : Conf} : ∀ (evs : List Ev) (st : HState), (runEvs c st evs).2 = false →
    (runEvs c st evs).1.pieces = st.pieces ++ emitsOf evs := by
  intro evs
  induction evs with
  | nil => intro st _; simp [runEvs, emitsOf]
  | cons e es ih =>
    intro st h
    simp only [runEvs] at h ⊢
    cases hs : step c st e with
    | none => simp [hs] at h
    | some st' =>
      simp only [hs] at h ⊢
      rw [ih st' h, step_pieces hs]
      have : emitsOf (e :: es) = emitsOf [e] ++ emitsOf es := by
        rw [← emitsOf_append]; rfl
      rw [this, List.append_assoc]

/-- a run that completes delivered exactly the data of the application's `write` calls and yielded
pieces (the closing `write(b"")` adds an empty piece at most) -/
theorem execute_pieces {c : Conf} (st : HState) (a : AppRun) (h : (execute c st a).2.2 = false) :
    (execute c st a).1.pieces.flatten = (st.pieces ++ emitsOf (a.call ++ a.iter)).flatten := by
  unfold execute at h ⊢
  rcases hr1 : runEvs c st a.call with ⟨st1, r1⟩
  rw [hr1] at h
  simp only at h ⊢
  by_cases hc : (r1 || a.callRaises) = true
  · simp [hc] at h
  · simp only [hc, Bool.false_eq_true, if_false] at h ⊢
    rcases hr2 : runEvs c st1 a.iter with ⟨st2, r2⟩
    rw [hr2] at h
    simp only at h ⊢
    by_cases hi : (r2 || a.iterRaises) = true
    · simp [hi] at h
    · simp only [hi, Bool.false_eq_true, if_false] at h ⊢
      have hr1f : r1 = false := by cases r1 <;> simp_all
      have hr2f : r2 = false := by cases r2 <;> simp_all
      have p1 := runEvs_pieces a.call st (by rw [hr1]; exact hr1f)
      have p2 := runEvs_pieces a.iter st1 (by rw [hr2]; exact hr2f)
      rw [hr1] at p1
      rw [hr2] at p2
      simp only at p1 p2
      cases hm : (if st2.headersSent.isSome = true then some st2 else step c st2 (.emit [])) with
      | none => simp [hm] at h
      | some st3 =>
        simp only
        by_cases ht : st2.headersSent.isSome = true
        · simp only [ht, if_true, Option.some.injEq] at hm
          subst hm
          rw [p2, p1, emitsOf_append, List.append_assoc]
        · simp only [ht, Bool.false_eq_true, if_false] at hm
          rw [step_pieces hm, p2, p1, emitsOf_append]
          simp [emitsOf, List.append_assoc]

/-- the roll-back of the error path keeps the invariant -/
theorem rollback_inv {c : Conf} {pre : Bytes} {st : HState} (h : WInv c pre st) : WInv c pre (rollback st) := by
  unfold rollback
  by_cases hn : st.statusSent.isNone = true
  · simp only [hn, if_true]
    have hnone : st.statusSent = none := by simpa using hn
    refine ⟨h.notDone, h.unsent, h.sent, fun ht => ?_⟩
    have : st.headersSent = none := (h.unsent hnone).1
    simp [this] at ht
  · simp only [hn, Bool.false_eq_true, if_false]; exact h

end Wz.RunWsgi
