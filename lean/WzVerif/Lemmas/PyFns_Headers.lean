/-
Helper lemmas for Props/C08T (translated `Headers` / `HeaderSet` methods against the hand-written
models of `Model/Headers.lean` and `Model/Containers.lean`): facts about the models and the prelude
that do not mention the generated definitions.
-/
import WzVerif.Model.Containers
import WzVerif.Lemmas.PyFns_Prelude
open Wz Wz.Hdr

namespace Wz.PyFnsHeaders

theorem newlineReSearch_eq (v : List Char) : (Pre.newlineReSearch v).isSome = hasNL v := by
  unfold Pre.newlineReSearch hasNL
  have : (fun c => c == '\r' || c == '\n') = isNL := rfl
  rw [this]
  cases v.any isNL <;> rfl

theorem lower_eq (s : List Char) : Pre.lower s = Hdr.lower s := rfl

/-- prefix before the first pair whose key matches, and the pairs after it -/
def firstSplit (k : Str) : HList → Option (HList × HList)
  | [] => none
  | p :: t => if keyEq k p then some ([], t) else (firstSplit k t).map fun ab => (p :: ab.1, ab.2)

theorem firstSplit_spec (k : Str) (t a b : HList) (h : firstSplit k t = some (a, b)) :
    ∃ p, t = a ++ p :: b := by
  induction t generalizing a b with
  | nil => simp [firstSplit] at h
  | cons p t ih =>
    unfold firstSplit at h
    by_cases hk : keyEq k p = true
    · simp only [hk, if_true, Option.some.injEq, Prod.mk.injEq] at h
      exact ⟨p, by rw [← h.1, ← h.2]; rfl⟩
    · simp only [hk, Bool.false_eq_true, if_false] at h
      cases hf : firstSplit k t with
      | none => simp [hf] at h
      | some ab =>
        obtain ⟨a', b'⟩ := ab
        simp only [hf, Option.map_some, Option.some.injEq, Prod.mk.injEq] at h
        obtain ⟨q, hq⟩ := ih a' b' hf
        exact ⟨q, by rw [← h.1, ← h.2, hq]; rfl⟩

theorem setLoop_firstSplit (k vs : Str) (t : HList) :
    setLoop k vs t = (firstSplit k t).map fun ab => ab.1 ++ (k, vs) :: ab.2.filter (fun q => !keyEq k q) := by
  induction t with
  | nil => rfl
  | cons p t ih =>
    unfold setLoop firstSplit
    by_cases hk : keyEq k p = true
    · simp [hk]
    · simp only [hk, Bool.false_eq_true, if_false, ih]
      cases firstSplit k t <;> simp


/-! ### Python index normalisation: the model's `pyIdx` against the prelude's `getItem` / `setItem` -/

theorem pyIdx_none {α : Type} (L : List α) (i : Int) (h : Hdr.pyIdx L.length i = none) :
    Pre.getItem L i = .error "IndexError" := by
  unfold Hdr.pyIdx at h
  unfold Pre.getItem
  by_cases hi : i < 0
  · simp only [hi, if_true] at h ⊢
    by_cases h2 : -i ≤ (L.length : Int)
    · simp [h2] at h
    · have h3 : (i + (L.length : Int) < 0) := by omega
      simp [h3]
  · simp only [hi, if_false] at h ⊢
    by_cases h2 : i.toNat < L.length
    · simp [h2] at h
    · have : L[i.toNat]? = none := by simp; omega
      simp [this]

theorem pyIdx_some {α : Type} (L : List α) (i : Int) (k : Nat) (h : Hdr.pyIdx L.length i = some k) :
    ∃ hk : k < L.length, Pre.getItem L i = .ok L[k] ∧ ∀ v, Pre.setItem L i v = .ok (L.set k v) := by
  unfold Hdr.pyIdx at h
  by_cases hi : i < 0
  · simp only [hi, if_true] at h
    by_cases h2 : -i ≤ (L.length : Int)
    · simp only [h2, if_true, Option.some.injEq] at h
      have hk : k < L.length := by omega
      have h3 : ¬ (i + (L.length : Int) < 0) := by omega
      have h4 : (i + (L.length : Int)).toNat = k := by omega
      refine ⟨hk, ?_, ?_⟩
      · simp [Pre.getItem, hi, h3, h4, hk]
      · intro v; simp [Pre.setItem, Pre.pyIndex, hi, h3, h4, hk]
    · simp [h2] at h
  · simp only [hi, if_false] at h
    by_cases h2 : i.toNat < L.length
    · simp only [h2, if_true, Option.some.injEq] at h
      have hk : k < L.length := by omega
      refine ⟨hk, ?_, ?_⟩
      · simp [Pre.getItem, hi, h, hk]
      · intro v; simp [Pre.setItem, Pre.pyIndex, hi, h, hk]
    · simp [h2] at h

end Wz.PyFnsHeaders
