/-
Helper lemmas for Props/C04T (translated `NumberConverter.to_python` / `to_url` against the
hand-written routing model): the prelude's `zfill` / `str(int)` against the model's own.
Nothing here mentions the generated definitions.
-/
import WzVerif.Model.RoutingBuild
import WzVerif.Util.PyPrelude
namespace Wz.PyFnsRouting
open Wz Wz.Pre Wz.Routing

/-- `s.zfill(w)` as modelled by the prelude (sign-aware for `-` and `+`) and by the routing model
(sign-aware for `-` only) agree on every text that does not start with `+` -/
theorem zfill_eq (w : Nat) (s : List Char) (h : s.head? ≠ some '+') :
    Pre.zfill s (w : Int) = Routing.zfill w s := by
  unfold Pre.zfill Routing.zfill
  have : ((w : Int) - (s.length : Int)).toNat = w - s.length := by omega
  rw [this]
  match s with
  | [] => rfl
  | c :: t =>
    by_cases h1 : c = '-'
    · subst h1; rfl
    · by_cases h2 : c = '+'
      · subst h2; simp at h
      · simp [h1, h2]

/-- `str(i)` never starts with `+` -/
theorem strOfInt_head (i : Int) : (Pre.strOfInt i).head? ≠ some '+' := by
  unfold Pre.strOfInt
  cases i with
  | ofNat n =>
    have h : (toString (Int.ofNat n)).toList = Nat.toDigits 10 n := by
      show (toString n).toList = _
      exact Nat.toList_repr
    rw [h]
    intro hh
    have hm : '+' ∈ Nat.toDigits 10 n := List.mem_of_mem_head? hh
    have := Nat.isDigit_of_mem_toDigits (by decide) (by decide) hm
    simp [Char.isDigit] at this
  | negSucc n =>
    have h : (toString (Int.negSucc n)).toList = '-' :: (toString (n + 1)).toList := by
      show ("-" ++ toString (n+1)).toList = _
      simp
    rw [h]; simp

end Wz.PyFnsRouting
