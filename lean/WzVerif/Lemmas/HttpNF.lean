/-
Normal form on *arbitrary header text* (C06): whatever a parser returns lies in the domain of the
corresponding round-trip theorem, so `parse (dump (parse h)) = parse h` for every text `h`.
-/
import WzVerif.Lemmas.HttpCRange
import WzVerif.Lemmas.HttpCsp
import WzVerif.Lemmas.HttpSafeMisc
import WzVerif.Lemmas.HttpHist
set_option linter.unusedSimpArgs false
set_option linter.unusedVariables false
namespace Wz.Http
open Wz

/-! ### Content-Range -/

theorem splitWs2_units_ok (s units rangedef : Str) (h : splitWs2 s = .ok (units, rangedef)) : CUnitsOk units = true := by
  unfold splitWs2 at h
  simp only at h
  split at h
  · cases h
  · next hne =>
    simp only [Except.ok.injEq, Prod.mk.injEq] at h
    obtain ⟨hu, _⟩ := h
    subst hu
    simp only [Bool.or_eq_true, not_or, Bool.not_eq_true] at hne
    unfold CUnitsOk
    simp only [Bool.and_eq_true, Bool.not_eq_true', hne.1, true_and]
    exact List.all_takeWhile

theorem catching_map_some_eq {α : Type} (x : Except String α) (r : α)
    (h : catching ["ValueError"] (x.map some) none = .ok (some r)) : x = .ok r := by
  cases x with
  | ok a => simp [Except.map, catching] at h; rw [h]
  | error e =>
    simp only [Except.map, catching] at h
    split at h <;> cases h

/-- every value `parse_content_range_header` returns is in the domain of the round trip -/
theorem parseContentRange_image_ok (s : Str) (c : ContentRangeV) (h : parseContentRangeHeader s = .ok (some c)) :
    CRangeOk c = true := by
  unfold parseContentRangeHeader at h
  obtain ⟨r, hr⟩ : Safe (catching ["ValueError"] ((splitWs2 (strip s)).map some) none) :=
    catching_safe (onlyRaises_map _ (splitWs2_onlyRaises _))
  rw [hr] at h
  simp only [ok_bind] at h
  cases r with
  | none => simp at h
  | some ur =>
    obtain ⟨units, rangedef⟩ := ur
    have hu := splitWs2_units_ok _ _ _ (catching_map_some_eq _ _ hr)
    simp only at h
    split at h
    · cases h
    · generalize partition '/' rangedef = p at h
      obtain ⟨rng, f, lengthStr⟩ := p
      simp only at h
      obtain ⟨ol, hol⟩ := parseLength_safe lengthStr
      rw [hol] at h
      simp only [ok_bind] at h
      cases ol with
      | none => cases h
      | some length =>
        simp only at h
        split at h
        · split at h
          · cases h
          · next hv =>
            cases h
            simp only [CRangeOk, hu, Bool.true_and]
            simpa using hv
        · split at h
          · cases h
          · generalize partition '-' rng = q at h
            obtain ⟨a, g, b⟩ := q
            simp only at h
            obtain ⟨se, hse⟩ := startStop_safe a b
            rw [hse] at h
            simp only [ok_bind] at h
            cases se with
            | none => cases h
            | some x =>
              obtain ⟨s0, e0⟩ := x
              simp only at h
              split at h
              · next hv =>
                cases h
                simp only [CRangeOk, hu, Bool.true_and]
                exact hv
              · cases h

/-- **normal form on arbitrary text**: for every header text `s`, if `parse_content_range_header(s)`
returns an object `c`, then `parse_content_range_header(c.to_header())` returns `c` again -/
theorem contentRange_normal_form_any (s : Str) (c : ContentRangeV) (h : parseContentRangeHeader s = .ok (some c)) :
    parseContentRangeHeader (contentRangeToHeader c) = .ok (some c) :=
  contentRange_roundtrip_any c (parseContentRange_image_ok s c h)

end Wz.Http

namespace Wz.Http
open Wz

/-! ### generic facts about `str.strip()` and `str.split(c)` -/

theorem mem_dropWhile_of_not {p : Char → Bool} {c : Char} : ∀ {l : Str}, c ∈ l → p c = false → c ∈ l.dropWhile p
  | [], h, _ => by cases h
  | x :: t, h, hp => by
    rw [List.dropWhile_cons]
    split
    · next hx =>
      rcases List.mem_cons.1 h with e | e
      · subst e; rw [hp] at hx; cases hx
      · exact mem_dropWhile_of_not e hp
    · exact h

theorem strip_mem_of_not_space {s : Str} {c : Char} (hc : c ∈ s) (hn : Py.isSpace c = false) : c ∈ strip s := by
  unfold strip Py.strip Py.rstripBy
  rw [List.mem_reverse]
  apply mem_dropWhile_of_not _ hn
  rw [List.mem_reverse]
  exact mem_dropWhile_of_not hc hn

theorem dropWhile_head_not {p : Char → Bool} : ∀ (l : Str) (c : Char), (l.dropWhile p).head? = some c → p c = false
  | [], c, h => by simp at h
  | x :: t, c, h => by
    rw [List.dropWhile_cons] at h
    split at h
    · exact dropWhile_head_not t c h
    · next hx => simp at h; subst h; simpa using hx

theorem dropWhile_suffix_split (p : Char → Bool) (l : Str) : ∃ w, l = w ++ l.dropWhile p :=
  ⟨l.takeWhile p, (List.takeWhile_append_dropWhile).symm⟩

theorem mem_takeWhile_holds' {p : Char → Bool} {c : Char} : ∀ {l : Str}, c ∈ l.takeWhile p → p c = true
  | [], h => by cases h
  | x :: t, h => by
    rw [List.takeWhile_cons] at h
    split at h
    · next hx =>
      rcases List.mem_cons.1 h with e | e
      · subst e; exact hx
      · exact mem_takeWhile_holds' e
    · cases h

/-- `s.strip()` is empty or begins and ends with a non-space character -/
theorem strip_nil_or_stripped (s : Str) : strip s = [] ∨ isStripped (strip s) = true := by
  unfold strip Py.strip Py.rstripBy
  generalize hd : s.dropWhile Py.isSpace = d
  generalize hr : d.reverse.dropWhile Py.isSpace = r
  have hdhead : ∀ c, d.head? = some c → Py.isSpace c = false := by
    intro c hc; rw [← hd] at hc; exact dropWhile_head_not s c hc
  have hrhead : ∀ c, r.head? = some c → Py.isSpace c = false := by
    intro c hc; rw [← hr] at hc; exact dropWhile_head_not _ c hc
  obtain ⟨w, hw⟩ := dropWhile_suffix_split Py.isSpace d.reverse
  rw [hr] at hw
  have hdeq : d = r.reverse ++ w.reverse := by
    have := congrArg List.reverse hw
    simpa using this
  cases hrr : r with
  | nil => left; rfl
  | cons x t =>
    right
    have hx : Py.isSpace x = false := hrhead x (by rw [hrr]; rfl)
    unfold isStripped
    simp only [List.reverse_cons, Bool.and_eq_true, Bool.not_eq_true']
    refine ⟨⟨by simp, ?_⟩, ?_⟩
    · cases hh : (t.reverse ++ [x]).head? with
      | none => simp
      | some y =>
        simp only [Option.all_some, Bool.not_eq_true']
        apply hdhead y
        rw [hdeq, hrr, List.reverse_cons]
        cases ht : t.reverse ++ [x] with
        | nil => simp at ht
        | cons z u => rw [ht] at hh; simp at hh; subst hh; rfl
    · simp [hx]

theorem splitOnChar_go_noSep_mem (c : Char) : ∀ (s acc : Str), c ∉ acc → ∀ x ∈ splitOnChar.go c s acc, c ∉ x
  | [], acc, hacc, x, hx => by
    simp only [splitOnChar.go, List.mem_singleton] at hx
    subst hx
    simpa using hacc
  | y :: t, acc, hacc, x, hx => by
    unfold splitOnChar.go at hx
    split at hx
    · rcases List.mem_cons.1 hx with e | e
      · subst e; simpa using hacc
      · exact splitOnChar_go_noSep_mem c t [] (by simp) x e
    · next hy =>
      refine splitOnChar_go_noSep_mem c t (y :: acc) ?_ x hx
      intro hm
      rcases List.mem_cons.1 hm with e | e
      · subst e; simp at hy
      · exact hacc e

/-- no piece of `s.split(c)` contains `c` -/
theorem splitOnChar_noSep (c : Char) (s : Str) : ∀ x ∈ splitOnChar c s, c ∉ x :=
  splitOnChar_go_noSep_mem c s [] (by simp)

/-! ### Content-Security-Policy -/

theorem not_mem_of_strip {s : Str} {c : Char} (h : c ∉ s) : c ∉ strip s := fun hm => h (strip_subset s c hm)

/-- the `(directive, value)` pair `parse_csp_header` stores for one policy is in the round trip's domain -/
theorem cspPolicy_item_ok (policy : Str) (hsemi : ';' ∉ policy) (hsp : (strip policy).contains ' ' = true) :
    CspItemOk (strip (partition ' ' (strip policy)).1, strip (partition ' ' (strip policy)).2.2) = true := by
  have hsemiP : ';' ∉ strip policy := not_mem_of_strip hsemi
  have hst := strip_nil_or_stripped policy
  generalize hP : strip policy = P at hsp hsemiP hst ⊢
  have hPne : P ≠ [] := by intro e; rw [e] at hsp; simp at hsp
  have hPst : isStripped P = true := hst.resolve_left hPne
  have hmem : ' ' ∈ P := by simpa using hsp
  -- the shape of the partition
  have hsplit : P = P.takeWhile (· != ' ') ++ P.dropWhile (· != ' ') := (List.takeWhile_append_dropWhile).symm
  have hdrop : ∃ v, P.dropWhile (· != ' ') = ' ' :: v := by
    cases hd : P.dropWhile (· != ' ') with
    | nil =>
      have : ' ' ∈ P.dropWhile (· != ' ') := mem_dropWhile_of_not hmem (by simp)
      rw [hd] at this; cases this
    | cons x v =>
      have := dropWhile_head_not P x (by rw [hd]; rfl)
      simp at this
      exact ⟨v, by rw [this]⟩
  obtain ⟨v, hv⟩ := hdrop
  have hpart : partition ' ' P = (P.takeWhile (· != ' '), true, v) := by
    unfold partition
    simp only [hv]
  rw [hpart]
  simp only
  have hDsp : ' ' ∉ P.takeWhile (· != ' ') := by
    intro hm
    have := mem_takeWhile_holds' hm
    simp at this
  have hhd : ∀ c t, P = c :: t → c ∈ P.takeWhile (· != ' ') ∧ Py.isSpace c = false := by
    intro c t hPc
    have hh := hPst
    simp only [isStripped, Bool.and_eq_true, Bool.not_eq_true'] at hh
    have hc : Py.isSpace c = false := by
      have := hh.1.2; rw [hPc] at this; simpa using this
    refine ⟨?_, hc⟩
    rw [hPc, List.takeWhile_cons]
    have : (c != ' ') = true := by
      simp only [bne_iff_ne, ne_eq]
      intro e; subst e; simp [Py.isSpace] at hc
    simp [this]
  generalize hD : P.takeWhile (· != ' ') = D at hsplit hDsp hhd ⊢
  have hPeq : P = D ++ ' ' :: v := by rw [hsplit, hv]
  have hDmem : ∃ c, c ∈ D ∧ Py.isSpace c = false := by
    cases hPc : P with
    | nil => exact absurd hPc hPne
    | cons c t => exact ⟨c, hhd c t hPc⟩
  have hlast : (P.getLast?.all fun c => !Py.isSpace c) = true := by
    have hh := hPst
    simp only [isStripped, Bool.and_eq_true] at hh
    exact hh.2
  have hvmem : ∃ c, c ∈ v ∧ Py.isSpace c = false := by
    have hl : P.getLast? = (' ' :: v).getLast? := by
      rw [hPeq]; exact getLast?_append_of_ne_nil (by simp)
    cases hvc : v with
    | nil =>
      rw [hvc] at hl
      rw [hl] at hlast
      simp [Py.isSpace] at hlast
    | cons a b =>
      rw [hvc] at hl
      have hl2 : (' ' :: a :: b).getLast? = (a :: b).getLast? := by simp [List.getLast?_cons_cons]
      rw [hl2] at hl
      cases hz : (a :: b).getLast? with
      | none => simp at hz
      | some z =>
        rw [hl, hz] at hlast
        simp at hlast
        exact ⟨z, List.mem_of_getLast? hz, hlast⟩
  obtain ⟨c1, hc1, hn1⟩ := hDmem
  obtain ⟨c2, hc2, hn2⟩ := hvmem
  have hD1 : strip D ≠ [] := fun e => by have := strip_mem_of_not_space hc1 hn1; rw [e] at this; cases this
  have hv1 : strip v ≠ [] := fun e => by have := strip_mem_of_not_space hc2 hn2; rw [e] at this; cases this
  have hDst : isStripped (strip D) = true := (strip_nil_or_stripped D).resolve_left hD1
  have hvst : isStripped (strip v) = true := (strip_nil_or_stripped v).resolve_left hv1
  have hDsemi : ';' ∉ D := fun hm => hsemiP (by rw [hPeq]; exact List.mem_append_left _ hm)
  have hvsemi : ';' ∉ v := fun hm => hsemiP (by rw [hPeq]; exact List.mem_append_right _ (List.mem_cons_of_mem _ hm))
  unfold CspItemOk
  simp only [hDst, hvst, Bool.true_and, Bool.and_eq_true, Bool.not_eq_true', Bool.and_true]
  refine ⟨⟨?_, ?_⟩, ?_⟩
  · simpa using not_mem_of_strip hDsp
  · simpa using not_mem_of_strip hDsemi
  · simpa using not_mem_of_strip hvsemi

end Wz.Http

namespace Wz.Http
open Wz

theorem parseCsp_fold_ok (pieces : List Str) (hp : ∀ x ∈ pieces, ';' ∉ x) (d : Dict Str) (hd : CspDictOk d) :
    CspDictOk (pieces.foldl (init := d) fun d policy =>
      let policy := strip policy
      if policy.contains ' ' then
        let (directive, _, v) := partition ' ' policy
        dictSet d (strip directive) (strip v)
      else d) := by
  induction pieces generalizing d with
  | nil => exact hd
  | cons x t ih =>
    simp only [List.foldl_cons]
    apply ih (fun y hy => hp y (List.mem_cons_of_mem _ hy))
    by_cases hc : (strip x).contains ' ' = true
    · simp only [hc, if_true]
      exact cspDictOk_set d _ _ hd (cspPolicy_item_ok x (hp x List.mem_cons_self) hc)
    · simp only [hc]
      exact hd

/-- every dict `parse_csp_header` returns is in the domain of the round trip -/
theorem parseCsp_image_ok (h : Str) : CspDictOk (parseCsp h) := by
  unfold parseCsp
  exact parseCsp_fold_ok _ (splitOnChar_noSep ';' h) [] ⟨by simp, by simp⟩

/-- **normal form on arbitrary text** for Content-Security-Policy -/
theorem csp_normal_form_any (h : Str) : parseCsp (dumpCsp (parseCsp h)) = parseCsp h :=
  csp_roundtrip_any _ (parseCsp_image_ok h).1 (parseCsp_image_ok h).2

end Wz.Http

namespace Wz.Http
open Wz

/-! ### Range -/

theorem strip_strip (s : Str) : strip (strip s) = strip s := by
  rcases strip_nil_or_stripped s with h | h
  · rw [h]; rfl
  · exact strip_tight (tight_of_isStripped h)

theorem plainInt_dash_nonpos (t : Str) (b : Int) (hst : strip ('-' :: t) = '-' :: t)
    (h : plainInt ('-' :: t) = .ok b) : b ≤ 0 := by
  unfold plainInt at h
  rw [hst] at h
  simp only [signSplit] at h
  split at h
  · simp only [Except.ok.injEq, if_true] at h
    omega
  · cases h

theorem catching_some_eq {α : Type} (x : Except String α) (r : α)
    (h : catching ["ValueError"] (x.map some) none = .ok (some r)) : x = .ok r :=
  catching_map_some_eq x r h

/-- invariant of the item loop of `parse_range_header`: what has been collected (`acc`, reversed)
followed by anything acceptable after `lastEnd` is an acceptable range list; every item adds one range -/
theorem rangeItems_image (items : List Str) (lastEnd : Int) (acc : List (Int × Option Int))
    (hacc : ∀ tail, rangesOk lastEnd tail = true → rangesOk 0 (acc.reverse ++ tail) = true) :
    ∃ res, rangeItems items lastEnd acc = .ok res ∧
      ∀ rs, res = some rs → rangesOk 0 rs = true ∧ rs.length = acc.length + items.length := by
  induction items generalizing lastEnd acc with
  | nil =>
    refine ⟨some acc.reverse, by simp [rangeItems], ?_⟩
    intro rs hrs
    simp only [Option.some.injEq] at hrs
    subst hrs
    have := hacc [] (by simp [rangesOk])
    simp only [List.append_nil] at this
    exact ⟨this, by simp⟩
  | cons item0 more ih =>
    rw [rangeItems]
    simp only
    split
    · exact ⟨none, rfl, by simp⟩
    · split
      · -- suffix form `-n`
        next t heq =>
        split
        · exact ⟨none, rfl, by simp⟩
        · next hle =>
          obtain ⟨ob, hob⟩ := catching_plainInt_safe (strip item0)
          rw [hob]
          simp only [ok_bind]
          cases ob with
          | none => exact ⟨none, rfl, by simp⟩
          | some b =>
            simp only
            split
            · exact ⟨none, rfl, by simp⟩
            · next hb0 =>
              have hpi := catching_some_eq _ _ hob
              have hble : b ≤ 0 := by
                rw [heq] at hpi
                exact plainInt_dash_nonpos t b (by rw [← heq]; exact strip_strip item0) hpi
              have hbneg : b < 0 := by
                have : b ≠ 0 := by simpa using hb0
                omega
              obtain ⟨res, hres, hP⟩ := ih (-1) ((b, none) :: acc) (by
                intro tail htail
                simp only [List.reverse_cons, List.append_assoc, List.singleton_append]
                apply hacc
                simp only [rangesOk, Bool.and_eq_true, decide_eq_true_eq, Bool.or_eq_true]
                exact ⟨⟨by omega, Or.inl hbneg⟩, htail⟩)
              refine ⟨res, hres, ?_⟩
              intro rs hrs
              obtain ⟨h1, h2⟩ := hP rs hrs
              exact ⟨h1, by rw [h2]; simp; omega⟩
      · generalize hp : partition '-' (strip item0) = p
        obtain ⟨bs, f, es⟩ := p
        simp only
        obtain ⟨ob, hob⟩ := catching_plainInt_safe (strip bs)
        rw [hob]
        simp only [ok_bind]
        cases ob with
        | none => exact ⟨none, rfl, by simp⟩
        | some b =>
          simp only
          split
          · exact ⟨none, rfl, by simp⟩
          · next hlt =>
            have hle : lastEnd ≤ b ∧ 0 ≤ lastEnd := by
              simp only [Bool.or_eq_true, decide_eq_true_eq, not_or, Int.not_lt] at hlt
              exact hlt
            split
            · obtain ⟨oe, hoe⟩ := catching_plainInt_safe (strip es)
              rw [hoe]
              simp only [ok_bind]
              cases oe with
              | none => exact ⟨none, rfl, by simp⟩
              | some e1 =>
                simp only
                split
                · exact ⟨none, rfl, by simp⟩
                · next hge =>
                  obtain ⟨res, hres, hP⟩ := ih (e1 + 1) ((b, some (e1 + 1)) :: acc) (by
                    intro tail htail
                    simp only [List.reverse_cons, List.append_assoc, List.singleton_append]
                    apply hacc
                    simp only [rangesOk, Bool.and_eq_true, decide_eq_true_eq]
                    simp only [ge_iff_le, decide_eq_true_eq, Int.not_le] at hge
                    exact ⟨⟨⟨by omega, hle.1⟩, by omega⟩, htail⟩)
                  refine ⟨res, hres, ?_⟩
                  intro rs hrs
                  obtain ⟨h1, h2⟩ := hP rs hrs
                  exact ⟨h1, by rw [h2]; simp; omega⟩
            · obtain ⟨res, hres, hP⟩ := ih (-1) ((b, none) :: acc) (by
                intro tail htail
                simp only [List.reverse_cons, List.append_assoc, List.singleton_append]
                apply hacc
                simp only [rangesOk, Bool.and_eq_true, decide_eq_true_eq, Bool.or_eq_true]
                exact ⟨⟨by omega, Or.inr hle.1⟩, htail⟩)
              refine ⟨res, hres, ?_⟩
              intro rs hrs
              obtain ⟨h1, h2⟩ := hP rs hrs
              exact ⟨h1, by rw [h2]; simp; omega⟩

end Wz.Http

namespace Wz.Http
open Wz

/-! facts about `str.lower()` on U+0000..U+00FF from the generated table, lifted to all characters
(the model's `lowerChar` is the identity above U+00FF) -/

theorem lowerChar_tbl_facts : ∀ n, n < 256 →
    lowerChar (lowerChar (Char.ofNat n)) = lowerChar (Char.ofNat n) ∧
    Py.isSpace (lowerChar (Char.ofNat n)) = Py.isSpace (Char.ofNat n) ∧
    (lowerChar (Char.ofNat n) = '=' → n = 61) := by
  decide +kernel

theorem lowerChar_high {c : Char} (h : ¬ c.toNat < 256) : lowerChar c = c := by
  simp [lowerChar, h]

theorem lowerChar_idem (c : Char) : lowerChar (lowerChar c) = lowerChar c := by
  by_cases h : c.toNat < 256
  · have := (lowerChar_tbl_facts c.toNat h).1
    rwa [Char.ofNat_toNat] at this
  · rw [lowerChar_high h, lowerChar_high h]

theorem lowerChar_isSpace (c : Char) : Py.isSpace (lowerChar c) = Py.isSpace c := by
  by_cases h : c.toNat < 256
  · have := (lowerChar_tbl_facts c.toNat h).2.1
    rwa [Char.ofNat_toNat] at this
  · rw [lowerChar_high h]

theorem lowerChar_eq_eq (c : Char) (he : lowerChar c = '=') : c = '=' := by
  by_cases h : c.toNat < 256
  · have h3 := (lowerChar_tbl_facts c.toNat h).2.2
    rw [Char.ofNat_toNat] at h3
    have := h3 he
    have hc : c = Char.ofNat c.toNat := (Char.ofNat_toNat c).symm
    rw [hc, this]
  · rw [lowerChar_high h] at he; exact he

theorem pyLower_idem (s : Str) : pyLower (pyLower s) = pyLower s := by
  simp [pyLower, List.map_map, Function.comp_def, lowerChar_idem]

theorem isSpace_comp_lower : (Py.isSpace ∘ lowerChar) = Py.isSpace := by
  funext c; exact lowerChar_isSpace c

theorem strip_pyLower (s : Str) : strip (pyLower s) = pyLower (strip s) := by
  unfold strip Py.strip Py.rstripBy pyLower
  rw [List.dropWhile_map, isSpace_comp_lower, ← List.map_reverse, List.dropWhile_map, isSpace_comp_lower,
    ← List.map_reverse]

theorem unitsOk_image (u : Str) (hu : '=' ∉ u) : UnitsOk (pyLower (strip u)) = true := by
  unfold UnitsOk
  simp only [Bool.and_eq_true, Bool.not_eq_true', beq_iff_eq]
  constructor
  · cases hc : (pyLower (strip u)).contains '=' with
    | false => rfl
    | true =>
      exfalso
      have hm : '=' ∈ pyLower (strip u) := by simpa using hc
      unfold pyLower at hm
      obtain ⟨c, hcm, hce⟩ := List.mem_map.1 hm
      have := lowerChar_eq_eq c hce
      subst this
      exact hu (strip_subset u _ hcm)
  · rw [strip_pyLower, strip_strip, pyLower_idem]

theorem splitOnChar_go_ne_nil (c : Char) : ∀ (s acc : Str), splitOnChar.go c s acc ≠ []
  | [], acc => by simp [splitOnChar.go]
  | x :: t, acc => by
    unfold splitOnChar.go
    split
    · simp
    · exact splitOnChar_go_ne_nil c t (x :: acc)

/-- every value `parse_range_header` returns is in the domain of the round trip -/
theorem parseRange_image_ok (s : Str) (r : RangeV) (h : parseRangeHeader s = .ok (some r)) :
    UnitsOk r.units = true ∧ r.ranges ≠ [] ∧ rangesOk 0 r.ranges = true := by
  unfold parseRangeHeader at h
  simp only [bind, Except.bind, pure, Except.pure] at h
  split at h
  · cases h
  · generalize hp : partition '=' s = p at h
    obtain ⟨u, f, rng⟩ := p
    simp only at h
    have hnu : '=' ∉ u := by
      have := partition_fst_noSep '=' s
      rw [hp] at this; exact this
    obtain ⟨res, hres, hP⟩ := rangeItems_image (splitOnChar ',' rng) 0 [] (by intro tail ht; simpa using ht)
    rw [hres] at h
    simp only at h
    cases res with
    | none => cases h
    | some rs =>
      simp only at h
      obtain ⟨hok, hlen⟩ := hP rs rfl
      unfold rangeCtor at h
      by_cases hb : rs.any badRange = true
      · simp [hb] at h
      · simp only [hb, Bool.false_eq_true, if_false, Except.ok.injEq, Option.some.injEq] at h
        subst h
        refine ⟨unitsOk_image u hnu, ?_, hok⟩
        intro e
        simp only at e
        rw [e] at hlen
        have : (splitOnChar ',' rng).length ≠ 0 := by
          intro h0
          exact splitOnChar_go_ne_nil ',' rng [] (List.length_eq_zero_iff.1 h0)
        simp at hlen
        exact this (by omega)

/-- **normal form on arbitrary text** for Range -/
theorem range_normal_form_any (s : Str) (r : RangeV) (h : parseRangeHeader s = .ok (some r)) :
    parseRangeHeader (rangeToHeader r) = .ok (some r) := by
  obtain ⟨h1, h2, h3⟩ := parseRange_image_ok s r h
  exact range_roundtrip_any r.units r.ranges h1 h2 h3

end Wz.Http

namespace Wz.Http
open Wz

/-! ### key=value dicts / Cache-Control -/

theorem dictStep_nodup (d : Dict (Option Str)) (item : Str) (d' : Dict (Option Str))
    (h : dictStep d item = .ok d') (hn : (d.map (·.1)).Nodup) : (d'.map (·.1)).Nodup := by
  unfold dictStep at h
  cases hi : dictItem item with
  | error e => rw [hi] at h; cases h
  | ok r =>
    rw [hi] at h
    simp only [ok_bind] at h
    cases r with
    | none => simp [pure, Except.pure] at h; subst h; exact hn
    | some kv =>
      obtain ⟨k, v⟩ := kv
      simp [pure, Except.pure] at h
      subst h
      exact nodup_keys_dictSet d k v hn

theorem foldlM_dictStep_nodup (items : List Str) (d d' : Dict (Option Str))
    (h : items.foldlM dictStep d = .ok d') (hn : (d.map (·.1)).Nodup) : (d'.map (·.1)).Nodup := by
  induction items generalizing d with
  | nil => simp [List.foldlM, pure, Except.pure] at h; subst h; exact hn
  | cons x t ih =>
    rw [List.foldlM_cons] at h
    cases hs : dictStep d x with
    | error e => rw [hs] at h; cases h
    | ok d1 =>
      rw [hs] at h
      exact ih d1 h (dictStep_nodup d x d1 hs hn)

/-- the keys of a parsed dict are pairwise distinct (it is a Python dict) -/
theorem parseDict_keys_nodup (s : Str) (d : Dict (Option Str)) (h : parseDictHeader s = .ok d) :
    (d.map (·.1)).Nodup :=
  foldlM_dictStep_nodup _ [] d h (by simp)

/-- **normal form on header text** for `parse_dict_header` / Cache-Control: whenever every key the
parser returned is a token without `*`, dumping and parsing again returns the same dict -/
theorem parseDict_normal_form_text_any (s : Str) (d : Dict (Option Str)) (h : parseDictHeader s = .ok d)
    (hk : ∀ x ∈ d, KeyOk x.1 = true) : (dumpHeaderDict d >>= parseDictHeader) = .ok d :=
  parseDict_dump_any d hk (parseDict_keys_nodup s d h)

end Wz.Http

namespace Wz.Http
open Wz

/-! ### Age -/

theorem parseAge_image_le (s : Str) (n : Nat) (h : parseAge s = .ok (some n)) : n ≤ Gen.Http.timedeltaMaxSeconds := by
  unfold parseAge at h
  split at h
  · cases h
  · obtain ⟨r, hr⟩ : Safe (catching ["ValueError"] ((pyInt s).map some) none) :=
      catching_safe (onlyRaises_map _ (pyInt_onlyRaises s))
    rw [hr] at h
    simp only [ok_bind] at h
    cases r with
    | none => cases h
    | some secs =>
      simp only at h
      split at h
      · cases h
      · split at h
        · cases h
        · next hgt =>
          simp only [pure, Except.pure, Except.ok.injEq, Option.some.injEq] at h
          subst h
          omega

/-- **normal form on arbitrary text** for Age -/
theorem age_normal_form_any (s : Str) (n : Nat) (h : parseAge s = .ok (some n)) : parseAge (dumpAge n) = .ok (some n) :=
  age_roundtrip_any n (parseAge_image_le s n h)

end Wz.Http
