/-
The `_search_position` kept in PREAMBLE (as repaired for F01c) never hides the first delimiter
(C01 P0). Core only.
-/
import WzVerif.Lemmas.Multipart
namespace Wz.Multipart
open Wz

/-! ### `bytes.rfind(sub, start)` -/

theorem rfindFrom_spec (sub : Bytes) : ∀ (buf : Bytes) (i start : Nat),
    match rfindFrom sub buf i start with
    | none => ∀ k, k < buf.length → start ≤ i + k → sub.isPrefixOf (buf.drop k) = false
    | some p => ∃ k, p = i + k ∧ k < buf.length ∧ start ≤ p ∧ sub.isPrefixOf (buf.drop k) = true ∧
        ∀ k', k' < buf.length → start ≤ i + k' → sub.isPrefixOf (buf.drop k') = true → k' ≤ k := by
  intro buf
  induction buf with
  | nil => intro i start; simp [rfindFrom]
  | cons a t ih =>
    intro i start
    have := ih (i + 1) start
    simp only [rfindFrom]
    cases hr : rfindFrom sub t (i + 1) start with
    | some p =>
      rw [hr] at this
      simp only at this ⊢
      rcases this with ⟨k, hp, hk, hs, hpre, hmax⟩
      refine ⟨k + 1, by omega, by simp; omega, hs, by simpa using hpre, ?_⟩
      intro k' hk' hs' hp'
      cases k' with
      | zero => omega
      | succ k'' =>
        have := hmax k'' (by simpa using hk') (by omega) (by simpa using hp')
        omega
    | none =>
      rw [hr] at this
      simp only at this ⊢
      by_cases hc : (start ≤ i && sub.isPrefixOf (a :: t)) = true
      · rw [if_pos hc]
        simp only [Bool.and_eq_true, decide_eq_true_eq] at hc
        refine ⟨0, rfl, by simp, hc.1, by simpa using hc.2, ?_⟩
        intro k' hk' hs' hp'
        cases k' with
        | zero => omega
        | succ k'' =>
          have := this k'' (by simpa using hk') (by omega)
          simp only [List.drop_succ_cons] at hp'
          rw [this] at hp'; simp at hp'
      · rw [if_neg hc]
        intro k hk hs
        cases k with
        | zero =>
          simp only [List.drop_zero]
          simp only [Bool.and_eq_true, decide_eq_true_eq, not_and] at hc
          cases hq : sub.isPrefixOf (a :: t) with
          | false => rfl
          | true => exact absurd hq (hc (by omega))
        | succ k'' =>
          simp only [List.drop_succ_cons]
          exact this k'' (by simpa using hk) (by omega)

/-! ### `--boundary` followed by white space only does not overlap itself -/

/-- if `X` occurs again at an offset `k ≥ 1` inside `X ++ H` with `H` horizontal white space, then
`X` is horizontal white space -/
theorem self_overlap_hws {H : Bytes} (hH : ∀ x ∈ H, isHws x = true) :
    ∀ (n : Nat) (X : Bytes), X.length ≤ n → ∀ k, 1 ≤ k → (∃ Z, (X ++ H).drop k = X ++ Z) →
      ∀ x ∈ X, isHws x = true := by
  intro n
  induction n with
  | zero =>
    intro X hX k _ _ x hx
    have : X = [] := List.eq_nil_of_length_eq_zero (by omega)
    rw [this] at hx; simp at hx
  | succ n ih =>
    intro X hX k hk hZ
    rcases hZ with ⟨Z, hZ⟩
    by_cases hkX : X.length ≤ k
    · -- the second occurrence lies inside `H`
      rw [List.drop_append, List.drop_of_length_le hkX, List.nil_append] at hZ
      intro x hx
      have hmem : x ∈ H.drop (k - X.length) := by rw [hZ]; exact List.mem_append_left _ hx
      exact hH x (List.mem_of_mem_drop hmem)
    · have hklt : k < X.length := by omega
      -- X = X1 ++ X2 with |X1| = k; X2 ++ H = X1 ++ X2 ++ Z
      have hsplit : X = X.take k ++ X.drop k := (List.take_append_drop k X).symm
      have h1 : (X ++ H).drop k = X.drop k ++ H := List.drop_append_of_le_length (by omega)
      rw [h1] at hZ
      -- X2 occurs at offset k in X2 ++ H
      have h2 : ((X.drop k) ++ H).drop k = X.drop k ++ Z := by
        rw [hZ]
        conv => lhs; rw [hsplit]
        rw [List.append_assoc]
        have hl : (X.take k).length = k := by simp; omega
        have := List.drop_left' (l₂ := X.drop k ++ Z) hl
        rw [this]
      have hx2 := ih (X.drop k) (by simp; omega) k hk ⟨Z, h2⟩
      -- X1 is the prefix of length k of X2 ++ H
      have hx1 : ∀ x ∈ X.take k, isHws x = true := by
        intro x hx
        have hpre : X.take k <+: (X.drop k ++ H) := by
          rw [hZ]
          conv => rhs; rw [hsplit]
          rw [List.append_assoc]
          exact List.prefix_append _ _
        have hmem := hpre.subset hx
        rcases List.mem_append.1 hmem with hm | hm
        · exact hx2 x hm
        · exact hH x hm
      intro x hx
      rw [hsplit] at hx
      rcases List.mem_append.1 hx with hm | hm
      · exact hx1 x hm
      · exact hx2 x hm

/-! ### the search position never hides a delimiter -/

/-- no extension of the buffer has a `preamble_re` match that starts before `sp` -/
def NoEarly (bnd : Bytes) (sp : Nat) (buf : Bytes) : Prop :=
  ∀ c j, j < sp → matchDelimAt bnd true ((buf ++ c).drop j) = none

theorem NoEarly.zero (bnd buf : Bytes) : NoEarly bnd 0 buf := fun _ _ h => absurd h (Nat.not_lt_zero _)

theorem NoEarly.append {bnd buf : Bytes} {sp : Nat} (h : NoEarly bnd sp buf) (c : Bytes) :
    NoEarly bnd sp (buf ++ c) := by
  intro c' j hj
  rw [List.append_assoc]
  exact h (c ++ c') j hj

/-- searching from such a position is searching from the start -/
theorem NoEarly.search {bnd buf : Bytes} {sp : Nat} (h : NoEarly bnd sp buf) :
    searchDelimFrom bnd true sp buf = searchDelim bnd true buf := by
  rw [searchDelimFrom_eq_shift]
  symm
  apply searchDelim_skip
  intro j hj
  have := h [] j hj
  simpa using this

theorem nextSearchPos_le (bnd buf : Bytes) (sp : Nat) :
    nextSearchPos bnd buf sp ≤ buf.length - bnd.length - searchExtra := by
  unfold nextSearchPos
  simp only
  split
  · exact Nat.min_le_left _ _
  · exact Nat.le_refl _

/-- **the repaired rule is sound for every buffer**: if nothing can match before the old search
position and `preamble_re` finds nothing in the buffer, nothing can match before the new search
position either, whatever arrives later — no bound on padding -/
theorem noEarly_next {bnd buf : Bytes} {sp : Nat} (h : NoEarly bnd sp buf)
    (hnone : searchDelim bnd true buf = none) : NoEarly bnd (nextSearchPos bnd buf sp) buf := by
  intro c j hj
  cases hm : matchDelimAt bnd true ((buf ++ c).drop j) with
  | none => rfl
  | some v =>
    exfalso
    rcases v with ⟨n, f⟩
    have hle := nextSearchPos_le bnd buf sp
    rw [searchExtra_eq] at hle
    have hjlen : j + bnd.length + 8 < buf.length := by omega
    -- the old position does not hide the match
    have hjsp : sp ≤ j := by
      apply Nat.le_of_not_lt
      intro hlt
      rw [h c j hlt] at hm; simp at hm
    let X := buf.drop j
    have hXlen : X.length = buf.length - j := by simp [X]
    have hdropX : (buf ++ c).drop j = X ++ c := List.drop_append_of_le_length (by omega)
    rw [hdropX] at hm
    rcases matchDelimAt_iff'.1 hm with ⟨r, m, _, hd, hmt, _⟩
    have hlb : lbLen (X ++ c) = lbLen X := lbLen_append_of_two_le c (by omega)
    have hlb2 := lbLen_le_two X
    rw [hlb, List.drop_append_of_le_length (lbLen_le_length X)] at hd
    -- `--boundary` lies inside the buffer
    have hdl : (delim bnd).length ≤ (X.drop (lbLen X)).length := by
      rw [delim_length]; simp; omega
    have hp : (delim bnd).isPrefixOf (X.drop (lbLen X) ++ c) = true := by
      rw [hd, List.isPrefixOf_iff_prefix]; exact List.prefix_append _ _
    rw [isPrefixOf_append_of_length_le c hdl, List.isPrefixOf_iff_prefix] at hp
    rcases hp with ⟨rb, hrb⟩
    have hr : r = rb ++ c := by
      rw [← hrb, List.append_assoc] at hd
      exact (List.append_cancel_left hd).symm
    have hrblen : 5 ≤ rb.length := by
      have := congrArg List.length hrb
      rw [List.length_append, delim_length] at this
      simp at this
      omega
    -- the rest of the delimiter line is not complete inside the buffer
    have hnomt : matchTail rb = none := by
      cases hq : matchTail rb with
      | none => rfl
      | some w =>
        exfalso
        rcases w with ⟨m', f'⟩
        have : matchDelimAt bnd true (buf.drop j) = some (lbLen X + (bnd.length + 2) + m', f') :=
          matchDelimAt_iff'.2 ⟨rb, m', by simp, hrb.symm, hq, rfl⟩
        exact searchDelim_of_match_drop this hnone
    -- so what the buffer holds of it is horizontal white space
    have hhws : ∀ x ∈ rb, isHws x = true := by
      rw [hr] at hmt
      cases f with
      | true =>
        exfalso
        rcases matchTail_true_iff.1 hmt with ⟨r2, he, _⟩
        match rb, hrblen with
        | x :: y :: t, _ =>
          simp at he
          rw [he.1, he.2.1] at hnomt
          rw [matchTail_final (by simp [List.isPrefixOf])] at hnomt
          simp at hnomt
      | false =>
        rcases matchTail_false_iff.1 hmt with ⟨hh, a, t, he, hall, hn, _⟩
        rcases List.append_eq_append_iff.1 he with ⟨a', hh', _⟩ | ⟨c', hrb', hc'⟩
        · intro x hx
          exact hall x (by rw [hh']; exact List.mem_append_left _ hx)
        · cases c' with
          | nil => intro x hx; rw [hrb', List.append_nil] at hx; exact hall x hx
          | cons y t' =>
            exfalso
            simp at hc'
            rw [hrb', ← hc'.1] at hnomt
            have := matchTail_false_iff.2 ⟨hh, a, t', rfl, hall, hn, rfl⟩
            rw [this] at hnomt; simp at hnomt
    -- the occurrence of `--boundary` at q = j + lb
    let q := j + lbLen X
    have hq : buf.drop q = delim bnd ++ rb := by
      simp only [q]
      rw [← List.drop_drop]
      exact hrb.symm
    have hqlen : q < buf.length := by simp only [q]; omega
    have hqp : (delim bnd).isPrefixOf (buf.drop q) = true := by
      rw [hq, List.isPrefixOf_iff_prefix]; exact List.prefix_append _ _
    have hspec := rfindFrom_spec (delim bnd) buf 0 sp
    -- it is the last one, so the new position is at most q - 2 ≤ j
    have hfinal : nextSearchPos bnd buf sp ≤ q - 2 := by
      unfold nextSearchPos
      simp only
      show (match rfindFrom (delim bnd) buf 0 sp with
        | some p => min (buf.length - bnd.length - searchExtra) (p - 2)
        | none => buf.length - bnd.length - searchExtra) ≤ q - 2
      cases hr : rfindFrom (delim bnd) buf 0 sp with
      | none =>
        rw [hr] at hspec
        have := hspec q hqlen (by simp only [q]; omega)
        rw [hqp] at this; simp at this
      | some p =>
        rw [hr] at hspec
        simp only at hspec ⊢
        rcases hspec with ⟨k, hpk, hk, _, hpre, hmax⟩
        have hqk := hmax q hqlen (by simp only [q]; omega) hqp
        have hkp : k = p := by omega
        subst hkp
        have hpq : k = q := by
          apply Nat.le_antisymm _ hqk
          apply Nat.le_of_not_lt
          intro hlt
          -- a later occurrence overlaps the first one
          have hov : ∃ Z, (delim bnd ++ rb).drop (k - q) = delim bnd ++ Z := by
            rw [← hq, List.drop_drop]
            have : q + (k - q) = k := by omega
            rw [this]
            rw [List.isPrefixOf_iff_prefix] at hpre
            rcases hpre with ⟨Z, hZ⟩
            exact ⟨Z, hZ.symm⟩
          have := self_overlap_hws hhws (delim bnd).length (delim bnd) (Nat.le_refl _) (k - q) (by omega) hov
          have h45 := this 45 (by simp [delim])
          revert h45; decide
        rw [hpq]
        exact Nat.min_le_right _ _
    simp only [q] at hfinal
    omega

end Wz.Multipart
