/-
PyFnsEq_Conv — the converter classes of `werkzeug/routing/converters.py` *as regenerated from the
source* by `tools/py2lean.py` (`Gen/PyFns_Routing.lean`, rewritten on every check run) are equal, for
all inputs, to the hand-written routing model the C04 theorems are about (`Model/RoutingConv.lean`:
`Conv`, `Conv.regexText`, `classRegex`, `reEscape`, `toPython`; `Model/RoutingBuild.lean`: `toUrl`,
`pyStr`; `Model/RoutingUrl.lean`: `quote`, `pathSafe`). A change of the Python source changes the
generated definition and breaks these obligations. (`NumberConverter.to_python` / `to_url` are in
`Props/C04T.lean`.)

Main theorems: `base_to_python_eq`, `base_to_url_eq`, `base_to_url_toUrl`, `unicode_init_eq`
(`unicode_init_eq_toList`), `any_init_regex_eq` (`any_init_regex_eq_toList`), `any_init_items`,
`any_init_items_contains`, `any_init_eq`, `any_to_url_eq`, `any_to_url_of_contains`,
`number_signed_regex_eq`, `number_init_eq`, `number_init_int_eq`, `number_init_float_eq`,
`number_init_attrs`.
Everything else is a helper (candidates for a shared library: `join_eq_intercalate`,
`join_map_ofList`, the `frozenset` membership facts, `strOfInt_natCast`).

The model carries lengths / digit counts as `Nat` and regex text as `String`; the translation uses
`Int` and `List Char`. The statements bridge with explicit casts (`(n : Int)`, `Option.map Int.ofNat`,
`String.ofList`, `.toList`).
-/
import WzVerif.Gen.PyFns_Routing
import WzVerif.Model.RoutingBuild
import WzVerif.Lemmas.PyFns_Prelude
namespace Wz.PyFnsEq.Conv
open Wz Wz.Pre Wz.Routing
open Gen.PyFns_Routing

/-! ## helpers: `str(int)`, `sep.join`, `frozenset` -/

/-- `str(n)` of a natural number, in the `toString` form the model uses -/
theorem strOfInt_natCast (n : Nat) : String.ofList (Pre.strOfInt (n : Int)) = toString n := by
  rw [Pre.strOfInt_nat, String.ofList_toList]

/-- `sep.join(ws)` of the prelude is `List.intercalate` -/
theorem join_eq_intercalate (sep : List α) (ws : List (List α)) :
    Pre.join sep ws = sep.intercalate ws := by
  induction ws with
  | nil => rfl
  | cons w t ih =>
    cases t with
    | nil => simp [Pre.join, List.intercalate]
    | cons w2 t2 =>
      simp only [Pre.join] at ih ⊢
      rw [ih]
      simp [List.intercalate, List.intersperse]

/-- `sep.join(ws)` of the prelude (lists of characters) against `String.intercalate` -/
theorem join_map_ofList (sep : List Char) (ws : List (List Char)) :
    Pre.join sep ws = ((String.ofList sep).intercalate (ws.map String.ofList)).toList := by
  rw [join_eq_intercalate, String.toList_intercalate, String.toList_ofList, List.map_map]
  congr 1
  induction ws with
  | nil => rfl
  | cons w t ih => simp

theorem setAdd_contains [BEq α] [LawfulBEq α] (s : List α) (y x : α) :
    (Pre.setAdd s y).contains x = (s.contains x || x == y) := by
  unfold Pre.setAdd
  by_cases h : y ∈ s
  · by_cases hx : x = y
    · subst hx; simp [h]
    · simp [h, hx]
  · by_cases hx : x = y
    · subst hx; simp [h]
    · by_cases hs : x ∈ s <;> simp [h, hx, hs]

theorem foldl_setAdd_contains [BEq α] [LawfulBEq α] (l : List α) : ∀ (acc : List α) (x : α),
    (l.foldl Pre.setAdd acc).contains x = (acc.contains x || l.contains x) := by
  induction l with
  | nil => intro acc x; simp
  | cons y t ih =>
    intro acc x
    rw [List.foldl_cons, ih, setAdd_contains, List.contains_cons, Bool.or_assoc]

/-- `x in set(l)` iff `x in l` -/
theorem frozenset_contains [BEq α] [LawfulBEq α] (l : List α) (x : α) :
    (Pre.frozenset l).contains x = l.contains x := by
  unfold Pre.frozenset
  rw [foldl_setAdd_contains]; simp

theorem frozenset_mem [BEq α] [LawfulBEq α] (l : List α) (x : α) :
    x ∈ Pre.frozenset l ↔ x ∈ l := by
  have := frozenset_contains l x
  simpa using this

/-! ## `BaseConverter` -/

/-- the converters of the model whose class inherits `to_python` / `to_url` from `BaseConverter`
unchanged: `UnicodeConverter` (`string`, `default`) and `PathConverter` -/
def InheritsBase : Routing.Conv → Prop
  | .string .. => True
  | .path => True
  | _ => False

/-- `BaseConverter.to_python(value)`, as translated from the current source (`return value`), is what
the model's `toPython` answers for every converter whose class does not override it —
`UnicodeConverter` (`string` / `default`, any length options), `AnyConverter` (any items) and
`PathConverter`: the matched text itself, never a `ValidationError`. So for these converters the
regex alone decides whether a rule matches. -/
theorem base_to_python_eq (c : Routing.Conv) (s : List Char)
    (hc : InheritsBase c ∨ ∃ items, c = .any items) :
    toPython c s = some (.str (base_to_python s)) := by
  unfold base_to_python
  rcases hc with hc | ⟨items, rfl⟩
  · cases c <;> simp [InheritsBase] at hc <;> rfl
  · rfl

/-- the three instances of `base_to_python_eq` spelled out -/
theorem base_to_python_string (mn : Nat) (mx len : Option Nat) (s : List Char) :
    toPython (.string mn mx len) s = some (.str (base_to_python s)) := rfl
theorem base_to_python_any (items : List (List Char)) (s : List Char) :
    toPython (.any items) s = some (.str (base_to_python s)) := rfl
theorem base_to_python_path (s : List Char) :
    toPython .path s = some (.str (base_to_python s)) := rfl

/-- `BaseConverter.to_url(value)`, as translated from the current source
(`quote(str(value), safe="!$&'()*+,/:;=@")`), is the model's `quote pathSafe`: the `safe=` literal
written in `converters.py` is exactly the model's `pathSafe` (the WHATWG path-segment set), for every
text. A change of that literal in the source breaks this theorem. -/
theorem base_to_url_eq (s : List Char) : base_to_url s = Routing.quote Routing.pathSafe s := by
  unfold base_to_url quoteL
  rfl

/-- What the model's `toUrl` answers for the converters inheriting `BaseConverter.to_url`
(`UnicodeConverter` with any length options, `PathConverter`) is the translated
`BaseConverter.to_url` applied to `str(value)` — for every value, in particular
`toUrl c (.str s) = .ok (base_to_url s)`: URL building percent-encodes the value with the safe set of
the source and never fails for these converters. -/
theorem base_to_url_toUrl (c : Routing.Conv) (hc : InheritsBase c) (v : Routing.Value) :
    toUrl c v = .ok (base_to_url (pyStr v)) := by
  cases c <;> simp [InheritsBase] at hc <;> simp [toUrl, base_to_url_eq]

theorem base_to_url_toUrl_str (c : Routing.Conv) (hc : InheritsBase c) (s : List Char) :
    toUrl c (.str s) = .ok (base_to_url s) := base_to_url_toUrl c hc (.str s)

/-! ## `UnicodeConverter.__init__` -/

/-- The regex text the translated `UnicodeConverter.__init__` stores in `self.regex`
(`[^/]{length}`, or `[^/]{minlength,maxlength}` with an empty upper bound for `maxlength=None`) is the
model's `Conv.regexText` of the `string` converter, for all natural `minlength`, `maxlength`,
`length`: `length` wins over `minlength` / `maxlength`, exactly as in the model's `Conv.kind`. -/
theorem unicode_init_eq (mn : Nat) (mx len : Option Nat) :
    String.ofList (unicode_init () (mn : Int) (mx.map Int.ofNat) (len.map Int.ofNat))
      = (Routing.Conv.string mn mx len).regexText := by
  unfold unicode_init Routing.Conv.regexText
  cases len with
  | some n =>
    simp only [Option.map_some, id, String.ofList_append]
    rw [show (Int.ofNat n) = (n : Int) from rfl, strOfInt_natCast]
    rfl
  | none =>
    cases mx with
    | none =>
      simp only [Option.map_none, id, String.ofList_append]
      rw [strOfInt_natCast]
      rfl
    | some m =>
      simp only [Option.map_none, Option.map_some, id, String.ofList_append]
      rw [show (Int.ofNat m) = (m : Int) from rfl, strOfInt_natCast, strOfInt_natCast]
      rfl

/-- `unicode_init_eq` read in the translation's text type -/
theorem unicode_init_eq_toList (mn : Nat) (mx len : Option Nat) :
    unicode_init () (mn : Int) (mx.map Int.ofNat) (len.map Int.ofNat)
      = (Routing.Conv.string mn mx len).regexText.toList := by
  rw [← unicode_init_eq, String.toList_ofList]

/-! ## `AnyConverter` -/

/-- The regex text the translated `AnyConverter.__init__` stores in `self.regex`
(`(?:` + the `re.escape`d items joined by `|` + `)`) is the model's `Conv.regexText (.any items)`, for
every list of items (including the empty list and duplicates, which stay in the regex). -/
theorem any_init_regex_eq (items : List (List Char)) :
    String.ofList (any_init () items).2 = (Routing.Conv.any items).regexText := by
  unfold any_init Routing.Conv.regexText
  simp only [String.ofList_append]
  rw [join_map_ofList, String.ofList_toList, List.map_map]
  rfl

/-- `any_init_regex_eq` read in the translation's text type -/
theorem any_init_regex_eq_toList (items : List (List Char)) :
    (any_init () items).2 = (Routing.Conv.any items).regexText.toList := by
  rw [← any_init_regex_eq, String.toList_ofList]

/-- `self.items` as stored by the translated `AnyConverter.__init__` is `set(items)` -/
theorem any_init_items (items : List (List Char)) :
    (any_init () items).1 = Pre.frozenset items := rfl

/-- `value in self.items` after the translated `AnyConverter.__init__` is `value in items`: the model's
`Conv.any items` keeps the argument list where the class keeps a set; membership agrees. -/
theorem any_init_items_contains (items : List (List Char)) (s : List Char) :
    (any_init () items).1.contains s = items.contains s := by
  rw [any_init_items, frozenset_contains]

theorem any_init_items_mem (items : List (List Char)) (s : List Char) :
    s ∈ (any_init () items).1 ↔ s ∈ items := by
  rw [any_init_items, frozenset_mem]

/-- `AnyConverter.__init__` in one statement: the stored regex is the model's regex text and the stored
set has the membership of the model's item list -/
theorem any_init_eq (items : List (List Char)) :
    String.ofList (any_init () items).2 = (Routing.Conv.any items).regexText ∧
    (any_init () items).1 = Pre.frozenset items ∧
    ∀ s, (any_init () items).1.contains s = items.contains s :=
  ⟨any_init_regex_eq items, any_init_items items, any_init_items_contains items⟩

/-- `AnyConverter.to_url(value)` on any stored set with the membership of `items`: the model's
`toUrl (.any items)`. (The text `valid_values` built from `sorted(self.items)` only feeds the message
of the `ValueError`.) -/
theorem any_to_url_of_contains (self_items items : List (List Char)) (s : List Char)
    (h : self_items.contains s = items.contains s) :
    any_to_url self_items s = toUrl (.any items) (.str s) := by
  unfold any_to_url toUrl
  simp only [h, base_to_url_eq]

/-- `AnyConverter.to_url(value)`, as translated from the current source, on the object the translated
`AnyConverter.__init__` builds from `items`, is the model's `toUrl (.any items)` for every item list
and every text: a value among the items is percent-encoded by `BaseConverter.to_url`, any other
value raises `ValueError` (so URL building with an `any` converter rejects values the rule could
never match). -/
theorem any_to_url_eq (items : List (List Char)) (s : List Char) :
    any_to_url (any_init () items).1 s = toUrl (.any items) (.str s) :=
  any_to_url_of_contains _ items s (any_init_items_contains items s)

/-! ## `NumberConverter.__init__` / `signed_regex` -/

/-- the `self.regex` text the model's `Conv.regexText` gives a number converter whose class-level
regex is `cls` -/
def numRegex (cls : String) (signed : Bool) : String := (if signed then "-?" else "") ++ cls

/-- `NumberConverter.signed_regex`, as translated from the current source (`f"-?{self.regex}"`), is
the signed form of the model's number regex -/
theorem number_signed_regex_eq (cls : String) :
    String.ofList (number_signed_regex cls.toList) = numRegex cls true := by
  unfold number_signed_regex numRegex
  simp only [String.ofList_append, String.ofList_toList]
  rfl

/-- `NumberConverter.__init__`, as translated from the current source, on a class whose class-level
`regex` is `cls`: `self.regex` becomes `-?` + `cls` when `signed`, and stays `cls` otherwise; the
other attributes are the arguments. -/
theorem number_init_eq (cls : String) (fixed : Int) (mn mx : Option Int) (signed : Bool) :
    number_init cls.toList () fixed mn mx signed
      = ((numRegex cls signed).toList, fixed, mn, mx, signed) := by
  unfold number_init number_signed_regex numRegex
  cases signed <;> simp <;> rfl

/-- the attributes the translated `NumberConverter.__init__` stores besides `regex` are its arguments
(`fixed_digits`, `min`, `max`, `signed`), whatever the class-level regex -/
theorem number_init_attrs (r : List Char) (fixed : Int) (mn mx : Option Int) (signed : Bool) :
    (number_init r () fixed mn mx signed).2 = (fixed, mn, mx, signed) := by
  unfold number_init
  cases signed <;> rfl

/-- `IntegerConverter(map, fixed_digits, min, max, signed)`: the regex text the translated
`NumberConverter.__init__` stores, started from the class-level `IntegerConverter.regex` (`\d+`), is
the model's `Conv.regexText` of the `int` converter — `-?\d+` exactly when `signed` — and the stored
`fixed_digits`, `min`, `max`, `signed` are the fields of the model's `Conv.int`. -/
theorem number_init_int_eq (fixed : Nat) (mn mx : Option Int) (signed : Bool) :
    String.ofList (number_init (classRegex "int").toList () (fixed : Int) mn mx signed).1
        = (Routing.Conv.int fixed signed mn mx).regexText ∧
    (number_init (classRegex "int").toList () (fixed : Int) mn mx signed).2
        = ((fixed : Int), mn, mx, signed) := by
  rw [number_init_eq]
  exact ⟨String.ofList_toList, rfl⟩

/-- `FloatConverter(map, min, max, signed)` (`fixed_digits` is not offered: `super().__init__` gets
the default `0`): the regex text the translated `NumberConverter.__init__` stores, started from the
class-level `FloatConverter.regex` (`\d+\.\d+`), is the model's `Conv.regexText` of the `float`
converter for any bounds `mn'`, `mx'` of the model (the model keeps float bounds as decimals, the
regex does not depend on them), and the stored attributes are the arguments. -/
theorem number_init_float_eq (fixed : Int) (mn mx : Option Int) (mn' mx' : Option Routing.Dec)
    (signed : Bool) :
    String.ofList (number_init (classRegex "float").toList () fixed mn mx signed).1
        = (Routing.Conv.float signed mn' mx').regexText ∧
    (number_init (classRegex "float").toList () fixed mn mx signed).2
        = (fixed, mn, mx, signed) := by
  rw [number_init_eq]
  exact ⟨String.ofList_toList, rfl⟩

/-! ## concrete checks -/

example : String.ofList (unicode_init () 2 none none) = "[^/]{2,}" := by decide
example : String.ofList (unicode_init () 1 (some 5) none) = "[^/]{1,5}" := by decide
example : String.ofList (unicode_init () 1 (some 5) (some 3)) = "[^/]{3}" := by decide
example : String.ofList (any_init () ["a.b".toList, "c".toList]).2 = "(?:a\\.b|c)" := by decide
example : (any_to_url (any_init () ["a b".toList]).1 "a b".toList).toOption = some "a%20b".toList := by
  decide
example : (any_to_url (any_init () ["a".toList]).1 "b".toList).toOption = none := by decide
example : String.ofList (number_init (classRegex "int").toList () 0 none none true).1 = "-?\\d+" := by
  decide

end Wz.PyFnsEq.Conv
