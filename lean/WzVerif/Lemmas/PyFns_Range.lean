/-
Helper lemmas for Props/C11T (translated `parse_range_header` / `Range.__init__` against the
hand-written model of `Model/Conditional.lean`): the prelude's split / search primitives against the
model's own, and the fact that every range list the model returns passes the validation of
`Range.__init__`. Nothing here mentions the generated definitions.
-/
import WzVerif.Model.Conditional
import WzVerif.Lemmas.PyFns_Prelude
open Wz Wz.Pre

namespace Wz.PyFnsRange

theorem startswith_singleton_head [BEq α] [LawfulBEq α] (s : List α) (c : α) :
    startswith s [c] = (s.head? == some c) := by
  cases s with
  | nil => simp [startswith_singleton_nil]
  | cons x t =>
    rw [startswith_singleton_cons]
    by_cases h : c = x
    · subst h; simp
    · have h1 : (c == x) = false := by simpa using h
      have h2 : ¬ x = c := fun h' => h h'.symm
      simp [h1, h2]

theorem splitOnce_singleton_mem [BEq α] [LawfulBEq α] (s : List α) (c : α) (h : c ∈ s) :
    splitOnce s [c] = .ok (s.takeWhile (· != c), (s.dropWhile (· != c)).drop 1) := by
  rcases split_at_first c s with ⟨h1, _, _⟩ | ⟨pre, post, h1, h2, h3, h4⟩
  · exact absurd h h1
  · rw [h3, h4]
    simp [splitOnce, h1, findIdx?_singleton_append c pre post h2]

theorem splitOnce_singleton_not_mem [BEq α] [LawfulBEq α] (s : List α) (c : α) (h : c ∉ s) :
    splitOnce s [c] = .error "ValueError" := by
  simp [splitOnce, findIdx?_singleton_not_mem c s h]

theorem splitOnAux_singleton (c : Char) (s cur : Str) :
    splitOnAux [c] s 0 cur = Cond.splitOnChar c s cur := by
  induction s generalizing cur with
  | nil => rfl
  | cons x t ih =>
    simp only [splitOnAux, isPrefixOf_singleton, List.length_singleton, Nat.sub_self, Cond.splitOnChar, ih]
    by_cases h : c = x
    · subst h; simp
    · have h1 : (c == x) = false := by simpa using h
      have h2 : (x == c) = false := by simpa using fun h' => h h'.symm
      simp [h1, h2]

theorem splitOn_singleton (c : Char) (s : Str) : splitOn s [c] = Cond.splitOnChar c s [] :=
  splitOnAux_singleton c s []

theorem cond_plainInt_eq (v : Str) : Cond.plainInt v = (Pre.plainInt v).toOption := by
  have e1 : Cond.isDigitA = Pre.isDigitA := rfl
  have e2 : Cond.digitsVal = Pre.digitsVal := rfl
  unfold Cond.plainInt Pre.plainInt Pre.isPlainIntText Pre.plainIntVal
  simp only [e1, e2]
  generalize Py.strip v = s
  cases hn : (s.head? == some '-') <;> simp only [Bool.false_eq_true, ↓reduceIte]
  · cases h1 : s.isEmpty <;> cases h2 : s.all isDigitA <;> simp [Except.toOption]
  · cases h1 : (s.drop 1).isEmpty <;> cases h2 : (s.drop 1).all isDigitA <;> simp [Except.toOption]

/-- the model's `unquoteEtag` with its pattern match on `W/` / `w/` spelled with `startswith` -/
theorem unquoteEtag_spec (s : List Char) :
    Cond.unquoteEtag s =
      if s.isEmpty then none
      else
        let e := Py.strip s
        let w := startswith e ['W', '/'] || startswith e ['w', '/']
        let g := if w then e.drop 2 else e
        some (if g.head? == some '"' && g.getLast? == some '"' then (g.drop 1).dropLast else g, w) := by
  unfold Cond.unquoteEtag
  by_cases he : s.isEmpty = true
  · simp [he]
  · simp only [he, Bool.false_eq_true, if_false]
    generalize Py.strip s = e
    match e with
    | [] => simp [startswith, List.isPrefixOf]
    | [a] => simp [startswith, List.isPrefixOf]
    | a :: b :: t =>
      by_cases hb : b = '/'
      · subst hb
        by_cases h1 : a = 'W'
        · subst h1; simp [startswith, List.isPrefixOf]
        · by_cases h2 : a = 'w'
          · subst h2; simp [startswith, List.isPrefixOf]
          · have e1 : ('W' == a) = false := by simpa using fun h => h1 h.symm
            have e2 : ('w' == a) = false := by simpa using fun h => h2 h.symm
            simp [startswith, List.isPrefixOf, e1, e2, h1, h2]
      · have e3 : ('/' == b) = false := by simpa using fun h => hb h.symm
        simp [startswith, List.isPrefixOf, e3, hb]


/-- is the value spelled like an entity tag (what `parse_if_range_header` tests before it tries a date)? -/
def quotedLike (v : List Char) : Bool :=
  startswith (lstrip v) ['"'] || startswith (lstrip v) ['W', '/', '"'] || startswith (lstrip v) ['w', '/', '"']

/-- the `IfRange` object as the pair (etag, date) -/
def ifRangeOf : Cond.IfRange → Option (List Char) × Option Int
  | .none => (none, none)
  | .date d => (none, some d)
  | .etag e => (some e, none)


/-- the model's `looksLikeEtag` (pattern match) is the code's test (`lstrip` + `startswith` of a tuple) -/
theorem looksLikeEtag_eq (v : List Char) : Cond.looksLikeEtag v = quotedLike v := by
  unfold Cond.looksLikeEtag quotedLike Pre.lstrip
  generalize v.dropWhile Py.isSpace = e
  unfold startswith
  split
  · simp [List.isPrefixOf]
  · simp [List.isPrefixOf]
  · simp [List.isPrefixOf]
  · rename_i h1 h2 h3
    match e, h1, h2, h3 with
    | [], _, _, _ => simp [List.isPrefixOf]
    | [a], h1, _, _ =>
      have : ('"' == a) = false := by simpa using fun h => h1 [] (by rw [h])
      simp [List.isPrefixOf, this]
    | [a, b], h1, _, _ =>
      have : ('"' == a) = false := by simpa using fun h => h1 [b] (by rw [h])
      simp [List.isPrefixOf, this]
    | a :: b :: c :: t, h1, h2, h3 =>
      have e1 : ('"' == a) = false := by simpa using fun h => h1 (b :: c :: t) (by rw [h])
      have e2 : ¬ ('W' = a ∧ '/' = b ∧ '"' = c) := fun ⟨x, y, z⟩ => h2 t (by rw [x, y, z])
      have e3 : ¬ ('w' = a ∧ '/' = b ∧ '"' = c) := fun ⟨x, y, z⟩ => h3 t (by rw [x, y, z])
      have b2 : ('W' == a && ('/' == b && '"' == c)) = false := by
        cases hh : ('W' == a && ('/' == b && '"' == c))
        · rfl
        · simp only [Bool.and_eq_true, beq_iff_eq] at hh; exact absurd hh (fun ⟨x, y, z⟩ => e2 ⟨x, y, z⟩)
      have b3 : ('w' == a && ('/' == b && '"' == c)) = false := by
        cases hh : ('w' == a && ('/' == b && '"' == c))
        · rfl
        · simp only [Bool.and_eq_true, beq_iff_eq] at hh; exact absurd hh (fun ⟨x, y, z⟩ => e3 ⟨x, y, z⟩)
      simp [List.isPrefixOf, e1, b2, b3]


/-- what `Range.__init__` accepts -/
def ValidPair (p : Int × Option Int) : Prop :=
  match p.2 with
  | none => True
  | some e => 0 ≤ p.1 ∧ p.1 < e

def AllValid (l : List (Int × Option Int)) : Prop := ∀ p ∈ l, ValidPair p

theorem parseRangeItems_valid (items : List Str) : ∀ (le : Int) (acc rs : List (Int × Option Int)),
    Cond.parseRangeItems items le acc = some rs → AllValid acc → AllValid rs := by
  induction items with
  | nil =>
    intro le acc rs h hv
    simp [Cond.parseRangeItems] at h
    subst h
    intro p hp; exact hv p (by simpa using hp)
  | cons item rest ih =>
    intro le acc rs h hv
    have hcons : ∀ (x : Int × Option Int), ValidPair x → AllValid (x :: acc) := by
      intro x hx p hp
      rcases List.mem_cons.mp hp with rfl | hp
      · exact hx
      · exact hv p hp
    unfold Cond.parseRangeItems at h
    simp only at h
    split at h
    · cases h
    · split at h
      · split at h
        · cases h
        · split at h
          · cases h
          · split at h
            · cases h
            · exact ih _ _ _ h (hcons _ (by simp [ValidPair]))
      · split at h
        · cases h
        · rename_i b hb
          split at h
          · cases h
          · rename_i hle
            split at h
            · split at h
              · cases h
              · rename_i e he
                split at h
                · cases h
                · rename_i hbe
                  refine ih _ _ _ h (hcons _ ?_)
                  simp only [Bool.or_eq_true, decide_eq_true_eq, not_or, Int.not_lt] at hle
                  simp only [ValidPair]
                  omega
            · exact ih _ _ _ h (hcons _ (by simp [ValidPair]))

/-- `ValidPair` as a Bool -/
def validB (p : Int × Option Int) : Bool :=
  match p.2 with
  | none => true
  | some e => decide (0 ≤ p.1) && decide (p.1 < e)

theorem validB_iff (p : Int × Option Int) : validB p = true ↔ ValidPair p := by
  obtain ⟨b, e⟩ := p
  cases e <;> simp [validB, ValidPair]

theorem all_validB_iff (l : List (Int × Option Int)) : l.all validB = true ↔ AllValid l := by
  simp [AllValid, List.all_eq_true, validB_iff]


/-- a list of `(begin, end)` pairs -/
abbrev R := List (Int × Option Int)

/-- summary of the loop's outcome: `some none` = returned None, `some (some rs)` = fell through with `rs` -/
def summ : Pre.Loop (Except String (Option (List Char × R))) (Int × R) → Option (Option R)
  | .ret (.ok none) => some none
  | .fall (_, rs) => some (some rs)
  | _ => none


end Wz.PyFnsRange
