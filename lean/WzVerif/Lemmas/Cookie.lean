/-
Helper lemmas for Props/C13.lean.
Layer 1: facts about the regenerated tables, each by `decide +kernel` over all 256 bytes.
Layer 2: the escaping pass as a closed formula (`esc1`) and its inverse.
-/
import WzVerif.Model.Cookie
namespace Wz.Cookie
open Wz

/-- RFC 6265 cookie-octet: %x21 / %x23-2B / %x2D-3A / %x3C-5B / %x5D-7E -/
def cookieOctet (n : Nat) : Bool :=
  n == 0x21 || (0x23 ≤ n && n ≤ 0x2B) || (0x2D ≤ n && n ≤ 0x3A) || (0x3C ≤ n && n ≤ 0x5B) ||
  (0x5D ≤ n && n ≤ 0x7E)

/-- bytes `dump_cookie` leaves unescaped inside quotes -/
def plainByte (n : Nat) : Bool := cookieOctet n || n == 0x20

def octDigit (n : Nat) : UInt8 := UInt8.ofNat (48 + n)

/-- the escape werkzeug documents for byte `n`: `\"`, `\\`, or backslash + three octal digits -/
def expectedEscape (n : Nat) : Bytes :=
  if n == 0x22 then [0x5C, 0x22] else if n == 0x5C then [0x5C, 0x5C]
  else [0x5C, octDigit (n / 64), octDigit (n / 8 % 8), octDigit (n % 8)]

/-- closed form of what the live tables do to one byte -/
def esc1 (b : UInt8) : Bytes := if plainByte b.toNat then [b] else expectedEscape b.toNat

theorem table_escape :
    ∀ n, n < 256 →
      (if plainByte n then inSlashSet (UInt8.ofNat n) = false
       else inSlashSet (UInt8.ofNat n) = true ∧ slashEntry (UInt8.ofNat n) = some (expectedEscape n)) := by
  decide +kernel

theorem ofNat_toNat (b : UInt8) : UInt8.ofNat b.toNat = b := by
  cases b using UInt8.casesOn with | _ v => simp

theorem escapeBytes_eq (bs : Bytes) : escapeBytes bs = some (bs.flatMap esc1) := by
  induction bs with
  | nil => rfl
  | cons b t ih =>
    have h := table_escape b.toNat b.toNat_lt
    rw [ofNat_toNat] at h
    simp only [escapeBytes, ih, esc1, List.flatMap_cons]
    by_cases hp : plainByte b.toNat = true
    · simp [hp] at h ⊢; simp [h]
    · simp [hp] at h ⊢; simp [h.1, h.2]


/-! ### the escaped text is ASCII and has the shape the quoted-string scanner expects -/

def toCh (b : UInt8) : Char := Char.ofNat b.toNat

def esc1N (n : Nat) : Bytes := if plainByte n then [UInt8.ofNat n] else expectedEscape n

theorem esc1_eq (b : UInt8) : esc1 b = esc1N b.toNat := by
  simp [esc1, esc1N, ofNat_toNat]

def escChars (n : Nat) : List Char := (esc1N n).map toCh

theorem table_ascii : ∀ n, n < 256 → (esc1N n).all (· < 0x80) = true := by decide +kernel

theorem asciiDec_of_all (bs : Bytes) (h : bs.all (· < 0x80) = true) :
    asciiDec bs = some (bs.map toCh) := by
  induction bs with
  | nil => rfl
  | cons b t ih =>
    simp only [List.all_cons, Bool.and_eq_true, decide_eq_true_eq] at h
    simp [asciiDec, h.1, ih h.2, toCh]

theorem all_flatMap_esc1 (bs : Bytes) : (bs.flatMap esc1).all (· < 0x80) = true := by
  induction bs with
  | nil => rfl
  | cons b t ih =>
    simp only [List.flatMap_cons, List.all_append, Bool.and_eq_true]
    exact ⟨by rw [esc1_eq]; exact table_ascii _ b.toNat_lt, ih⟩

/-- one-character / escaped-pair / octal-escape shapes -/
def shapeOK (l : List Char) : Bool :=
  match l with
  | [c] => c != '"' && c != '\\'
  | ['\\', a] => a != '\n'
  | ['\\', a, x, y] => a != '\n' && x != '"' && x != '\\' && y != '"' && y != '\\'
  | _ => false

theorem table_shape : ∀ n, n < 256 → shapeOK (escChars n) = true := by decide +kernel

theorem quotedBody_plain (c : Char) (rest : List Char) (h1 : c ≠ '"') (h2 : c ≠ '\\') :
    quotedBody (c :: rest) = (quotedBody rest).map (fun p => (c :: p.1, p.2)) := by
  conv => lhs; unfold quotedBody
  split
  · simp_all
  · simp_all
  · simp_all
  · simp_all
  · rename_i c' rest' _ _ heq
    simp only [List.cons.injEq] at heq
    obtain ⟨rfl, rfl⟩ := heq
    cases hq : quotedBody rest <;> simp [hq]

theorem quotedBody_pair (a : Char) (rest : List Char) (h : a ≠ '\n') :
    quotedBody ('\\' :: a :: rest) = (quotedBody rest).map (fun p => ('\\' :: a :: p.1, p.2)) := by
  conv => lhs; unfold quotedBody
  have h' : (a == '\n') = false := by simpa using h
  cases hq : quotedBody rest <;> simp [h', hq]

theorem quotedBody_esc (n : Nat) (hn : n < 256) (rest : List Char) :
    quotedBody (escChars n ++ rest) = (quotedBody rest).map (fun p => (escChars n ++ p.1, p.2)) := by
  have h := table_shape n hn
  generalize escChars n = l at h
  unfold shapeOK at h
  split at h
  · rename_i c
    simp only [bne_iff_ne, ne_eq, Bool.and_eq_true] at h
    simpa using quotedBody_plain c rest h.1 h.2
  · rename_i a
    simp only [bne_iff_ne, ne_eq] at h
    simpa using quotedBody_pair a rest h
  · rename_i a x y
    simp only [bne_iff_ne, ne_eq, Bool.and_eq_true] at h
    obtain ⟨⟨⟨⟨ha, hx1⟩, hx2⟩, hy1⟩, hy2⟩ := h
    have e1 := quotedBody_pair a (x :: y :: rest) ha
    have e2 := quotedBody_plain x (y :: rest) hx1 hx2
    have e3 := quotedBody_plain y rest hy1 hy2
    simp only [List.cons_append, List.nil_append, e1, e2, e3]
    cases hq : quotedBody rest <;> simp [hq]
  · simp at h

theorem quotedBody_flatMap (ns : List Nat) (hns : ∀ n ∈ ns, n < 256) (rest : List Char) :
    quotedBody (ns.flatMap escChars ++ '"' :: rest) = some (ns.flatMap escChars, rest) := by
  induction ns with
  | nil => simp [quotedBody]
  | cons n t ih =>
    have hn : n < 256 := hns n (by simp)
    have ht : ∀ m ∈ t, m < 256 := fun m hm => hns m (by simp [hm])
    simp only [List.flatMap_cons, List.append_assoc]
    rw [quotedBody_esc n hn, ih ht]
    rfl

/-! ### unslash inverts the escaping pass -/

def oct1 (b : UInt8) : Bool := byteTbl Gen.Cookie.unslashOct1 b
def oct23 (b : UInt8) : Bool := byteTbl Gen.Cookie.unslashOct23 b
def dotOK (b : UInt8) : Bool := byteTbl Gen.Cookie.unslashDot b

def unslashOK (n : Nat) : Bool :=
  match esc1N n with
  | [b] => b != 0x5C && b == UInt8.ofNat n
  | [0x5C, a] => !oct1 a && dotOK a && a == UInt8.ofNat n
  | [0x5C, a, x, y] =>
    oct1 a && oct23 x && oct23 y &&
      UInt8.ofNat ((a.toNat - 48) * 64 + (x.toNat - 48) * 8 + (y.toNat - 48)) == UInt8.ofNat n
  | _ => false

theorem table_unslash : ∀ n, n < 256 → unslashOK n = true := by decide +kernel

theorem unslash_plain (b : UInt8) (rest : Bytes) (h : b ≠ 0x5C) :
    unslash (b :: rest) = b :: unslash rest := by
  conv => lhs; unfold unslash
  split <;> simp_all

theorem unslash_pair (a : UInt8) (rest : Bytes) (h1 : oct1 a = false) (h2 : dotOK a = true) :
    unslash (0x5C :: a :: rest) = a :: unslash rest := by
  conv => lhs; unfold unslash
  split
  · simp_all
  · rename_i a' b c t2 heq
    simp only [List.cons.injEq, true_and] at heq
    obtain ⟨rfl, rfl⟩ := heq
    simp only [oct1, dotOK] at h1 h2
    simp [h1, h2]
  · rename_i a' t _ heq
    simp only [List.cons.injEq, true_and] at heq
    obtain ⟨rfl, rfl⟩ := heq
    simp only [dotOK] at h2
    simp [h2]
  · rename_i b t hne1 hne2 heq
    simp only [List.cons.injEq] at heq
    obtain ⟨rfl, rfl⟩ := heq
    exact (hne2 a rest rfl rfl).elim

theorem unslash_oct (a x y : UInt8) (rest : Bytes) (h1 : oct1 a = true) (h2 : oct23 x = true)
    (h3 : oct23 y = true) :
    unslash (0x5C :: a :: x :: y :: rest) =
      UInt8.ofNat ((a.toNat - 48) * 64 + (x.toNat - 48) * 8 + (y.toNat - 48)) :: unslash rest := by
  conv => lhs; unfold unslash
  simp only [oct1, oct23] at h1 h2 h3
  simp [h1, h2, h3]

theorem unslash_esc (n : Nat) (hn : n < 256) (rest : Bytes) :
    unslash (esc1N n ++ rest) = UInt8.ofNat n :: unslash rest := by
  have h := table_unslash n hn
  unfold unslashOK at h
  generalize esc1N n = l at h
  split at h
  · rename_i b
    simp only [bne_iff_ne, ne_eq, Bool.and_eq_true, beq_iff_eq] at h
    obtain ⟨hb, rfl⟩ := h
    simpa using unslash_plain _ rest hb
  · rename_i a
    simp only [Bool.and_eq_true, Bool.not_eq_true', beq_iff_eq] at h
    obtain ⟨⟨ha, hd⟩, rfl⟩ := h
    simpa using unslash_pair _ rest ha hd
  · rename_i a x y
    simp only [Bool.and_eq_true, beq_iff_eq] at h
    obtain ⟨⟨⟨ha, hx⟩, hy⟩, hv⟩ := h
    rw [← hv]
    simpa using unslash_oct a x y rest ha hx hy
  · simp at h

theorem unslash_flatMap (bs : Bytes) : unslash (bs.flatMap esc1) = bs := by
  induction bs with
  | nil => simp [unslash]
  | cons b t ih =>
    simp only [List.flatMap_cons, esc1_eq]
    rw [unslash_esc _ b.toNat_lt, ih, ofNat_toNat]

/-! ### ASCII text <-> bytes -/

theorem utf8Enc_ascii_table : ∀ n, n < 128 → String.utf8EncodeChar (Char.ofNat n) = [UInt8.ofNat n] := by
  decide +kernel

theorem utf8Enc_map_toCh (bs : Bytes) (h : bs.all (· < 0x80) = true) : utf8Enc (bs.map toCh) = bs := by
  induction bs with
  | nil => rfl
  | cons b t ih =>
    simp only [List.all_cons, Bool.and_eq_true, decide_eq_true_eq] at h
    have hb : b.toNat < 128 := by
      have := h.1
      exact UInt8.lt_iff_toNat_lt.mp this
    have := utf8Enc_ascii_table b.toNat hb
    simp only [utf8Enc, List.map_cons, List.flatMap_cons, toCh, this, ofNat_toNat] at *
    simp [ih h.2]

/-! ### strip is the identity on text that does not start or end with white space -/

theorem dropWhile_head {p : Char → Bool} {c : Char} {t : List Char} (h : p c = false) :
    (c :: t).dropWhile p = c :: t := by simp [List.dropWhile, h]

theorem rstripBy_id (p : Char → Bool) (s : List Char) (h : ∀ c, s.getLast? = some c → p c = false) :
    Py.rstripBy p s = s := by
  unfold Py.rstripBy
  cases hs : s.reverse with
  | nil => simp_all
  | cons c t =>
    have : s.getLast? = some c := by
      rw [List.getLast?_eq_head?_reverse, hs]; rfl
    rw [dropWhile_head (h c this), ← hs, List.reverse_reverse]

theorem strip_id (s : List Char) (h1 : ∀ c, s.head? = some c → Py.isSpace c = false)
    (h2 : ∀ c, s.getLast? = some c → Py.isSpace c = false) : Py.strip s = s := by
  unfold Py.strip
  have : s.dropWhile Py.isSpace = s := by
    cases s with
    | nil => rfl
    | cons c t => exact dropWhile_head (h1 c rfl)
  rw [this, rstripBy_id _ _ h2]

/-! ### one cookie pair through the `_cookie_re` scanner -/

/-- characters allowed in a cookie name for the round-trip theorems: anything but `=`, `;` and
white space (a superset of RFC 6265 tokens) -/
def keyChar (c : Char) : Bool := !isSep c && !Py.isSpace c

theorem takeWhile_key (k rest : List Char) (hk : k.all keyChar = true) (c : Char) (hc : isSep c = true) :
    (k ++ c :: rest).takeWhile (fun c => !isSep c) = k ∧
    (k ++ c :: rest).dropWhile (fun c => !isSep c) = c :: rest := by
  induction k with
  | nil => simp [List.takeWhile, List.dropWhile, hc]
  | cons a t ih =>
    simp only [List.all_cons, Bool.and_eq_true, keyChar, Bool.not_eq_true'] at hk
    have := ih (by simpa [keyChar] using hk.2)
    simp [List.takeWhile, List.dropWhile, hk.1.1, this]

theorem takeWhile_noSemi (v rest : List Char) (hv : ∀ c ∈ v, c ≠ ';') :
    (v ++ ';' :: rest).takeWhile (· != ';') = v ∧ (v ++ ';' :: rest).dropWhile (· != ';') = ';' :: rest := by
  induction v with
  | nil => simp [List.takeWhile, List.dropWhile]
  | cons a t ih =>
    have ha : a ≠ ';' := hv a (by simp)
    have := ih (fun c hc => hv c (by simp [hc]))
    simp [List.takeWhile, List.dropWhile, ha, this]

theorem matchRest_eq (key rest0 : List Char) :
    matchRest key ('=' :: rest0) = matchValue key (rest0.dropWhile Py.isReSpaceA) := rfl

theorem matchValue_quoted (key b after rest q : List Char) (h1 : quotedBody q = some (b, after))
    (h2 : after.dropWhile Py.isReSpaceA = ';' :: rest) :
    matchValue key ('"' :: q) = some (key, '"' :: b ++ ['"'], rest.dropWhile Py.isReSpaceA) := by
  simp only [matchValue, h1, h2]

theorem matchValue_noquote (key : List Char) (c : Char) (t : List Char) (hc : c ≠ '"') :
    matchValue key (c :: t) = alt2 key (c :: t) := by
  unfold matchValue
  split
  · rename_i q heq
    simp only [List.cons.injEq] at heq
    exact absurd heq.1 hc
  · rfl

/-- a quoted value followed by `;` and anything: the scanner returns exactly the quoted text -/
theorem matchOne_quoted_gen (k : List Char) (ns : List Nat) (rest : List Char) (hk : k.all keyChar = true)
    (hns : ∀ n ∈ ns, n < 256) :
    matchOne (k ++ '=' :: ('"' :: ns.flatMap escChars ++ ['"']) ++ ';' :: rest) =
      some (k, '"' :: ns.flatMap escChars ++ ['"'], rest.dropWhile Py.isReSpaceA) := by
  have hs : k ++ '=' :: ('"' :: ns.flatMap escChars ++ ['"']) ++ ';' :: rest =
      k ++ '=' :: ('"' :: (ns.flatMap escChars ++ '"' :: ';' :: rest)) := by simp
  rw [hs]
  obtain ⟨h1, h2⟩ := takeWhile_key k ('"' :: (ns.flatMap escChars ++ '"' :: ';' :: rest)) hk '=' (by decide)
  have hq : Py.isReSpaceA '"' = false := by decide
  have hsemi : Py.isReSpaceA ';' = false := by decide
  unfold matchOne
  rw [h1, h2, matchRest_eq, dropWhile_head hq,
    matchValue_quoted k _ _ rest _ (quotedBody_flatMap ns hns (';' :: rest)) (dropWhile_head hsemi)]

theorem matchOne_quoted (k : List Char) (ns : List Nat) (hk : k.all keyChar = true)
    (hns : ∀ n ∈ ns, n < 256) :
    matchOne (k ++ '=' :: ('"' :: ns.flatMap escChars ++ ['"']) ++ [';']) =
      some (k, '"' :: ns.flatMap escChars ++ ['"'], []) := by
  simpa using matchOne_quoted_gen k ns [] hk hns

/-- an unquoted value without `;`, not starting with `"` or white space, not ending in white space -/
theorem matchOne_plain_gen (k v rest : List Char) (hk : k.all keyChar = true)
    (hsemi : ∀ c ∈ v, c ≠ ';')
    (hhead : ∀ c, v.head? = some c → c ≠ '"' ∧ Py.isReSpaceA c = false)
    (hlast : ∀ c, v.getLast? = some c → Py.isReSpaceA c = false) :
    matchOne (k ++ '=' :: v ++ ';' :: rest) = some (k, v, rest.dropWhile Py.isReSpaceA) := by
  have hs : k ++ '=' :: v ++ ';' :: rest = k ++ '=' :: (v ++ ';' :: rest) := by simp
  rw [hs]
  obtain ⟨h1, h2⟩ := takeWhile_key k (v ++ ';' :: rest) hk '=' (by decide)
  obtain ⟨h3, h4⟩ := takeWhile_noSemi v rest hsemi
  have hdw : (v ++ ';' :: rest).dropWhile Py.isReSpaceA = v ++ ';' :: rest := by
    cases v with
    | nil => exact dropWhile_head (by decide)
    | cons c t => exact dropWhile_head (hhead c rfl).2
  have halt : alt2 k (v ++ ';' :: rest) = some (k, v, rest.dropWhile Py.isReSpaceA) := by
    unfold alt2
    rw [h4, h3, rstripBy_id _ _ hlast]
  unfold matchOne
  rw [h1, h2, matchRest_eq, hdw, ← halt]
  cases v with
  | nil => exact matchValue_noquote k ';' rest (by decide)
  | cons c t => exact matchValue_noquote k c _ (hhead c rfl).1

theorem matchOne_plain (k v : List Char) (hk : k.all keyChar = true)
    (hsemi : ∀ c ∈ v, c ≠ ';')
    (hhead : ∀ c, v.head? = some c → c ≠ '"' ∧ Py.isReSpaceA c = false)
    (hlast : ∀ c, v.getLast? = some c → Py.isReSpaceA c = false) :
    matchOne (k ++ '=' :: v ++ [';']) = some (k, v, []) := by
  simpa using matchOne_plain_gen k v [] hk hsemi hhead hlast

/-! ### putting it together -/

theorem noQuote_facts :
    Gen.Cookie.noQuoteHigh = false ∧
    ∀ n, n < 256 → tbl Gen.Cookie.noQuote n = true →
      cookieOctet n = true ∧ Py.isSpace (Char.ofNat n) = false ∧ Py.isReSpaceA (Char.ofNat n) = false
        ∧ n ≠ 0x3B ∧ n ≠ 0x22 := by
  refine ⟨by decide, ?_⟩
  decide +kernel

theorem noQuoteChar_facts (c : Char) (h : noQuoteChar c = true) :
    cookieOctet c.toNat = true ∧ Py.isSpace c = false ∧ Py.isReSpaceA c = false ∧ c ≠ ';' ∧ c ≠ '"' := by
  unfold noQuoteChar at h
  by_cases hc : c.toNat < 256
  · simp only [hc, if_true] at h
    have := noQuote_facts.2 c.toNat hc h
    have hcc : Char.ofNat c.toNat = c := by simp
    rw [hcc] at this
    refine ⟨this.1, this.2.1, this.2.2.1, ?_, ?_⟩
    · intro e; subst e; exact this.2.2.2.1 rfl
    · intro e; subst e; exact this.2.2.2.2 rfl
  · simp only [hc, if_false, noQuote_facts.1] at h
    exact absurd h (by decide)

theorem dumpValue_quoted (v : List Char) (h : v.all noQuoteChar = false) :
    dumpValue v = .ok ('"' :: ((utf8Enc v).map UInt8.toNat).flatMap escChars ++ ['"']) := by
  unfold dumpValue
  rw [if_neg (by simp [h]), escapeBytes_eq]
  simp only [asciiDec_of_all _ (all_flatMap_esc1 _)]
  simp only [Except.ok.injEq, List.cons.injEq, true_and, List.append_cancel_right_eq]
  induction utf8Enc v with
  | nil => rfl
  | cons b t ih => simp [List.flatMap_cons, ih, esc1_eq, escChars]

theorem unquote_quoted (bs : Bytes) :
    unquoteValue ('"' :: (bs.map UInt8.toNat).flatMap escChars ++ ['"']) = Py.decodeReplace bs := by
  have hmap : (bs.map UInt8.toNat).flatMap escChars = (bs.flatMap esc1).map toCh := by
    induction bs with
    | nil => rfl
    | cons b t ih => simp [List.flatMap_cons, ih, esc1_eq, escChars]
  unfold unquoteValue
  simp only [List.cons_append, List.reverse_append, List.reverse_cons, List.reverse_nil,
    List.nil_append, List.singleton_append, List.reverse_reverse]
  rw [hmap, utf8Enc_map_toCh _ (all_flatMap_esc1 _), unslash_flatMap]

theorem unquote_plain (v : List Char) (h : ∀ c ∈ v, c ≠ '"') : unquoteValue v = v := by
  unfold unquoteValue
  cases v with
  | nil => rfl
  | cons c t =>
    have : c ≠ '"' := h c (by simp)
    split
    · rename_i rest heq
      simp only [List.cons.injEq] at heq
      exact absurd heq.1 this
    · rfl

theorem findAll_single (s k val : List Char) (h : matchOne s = some (k, val, [])) (hs : s ≠ []) :
    findAll (s.length + 1) s = [(k, val)] := by
  cases s with
  | nil => exact absurd rfl hs
  | cons c t => simp [findAll, h]

/-! ### one pair, then a whole `Cookie:` header of pairs joined by `; ` -/

/-- Names for which the round trip is claimed: non-empty, without `=`, `;` or white space
(a superset of RFC 6265 tokens). -/
def ValidKey (k : List Char) : Prop := k ≠ [] ∧ k.all keyChar = true

theorem keyChar_notSpace (k : List Char) (hk : k.all keyChar = true) (c : Char) (hc : c ∈ k) :
    Py.isSpace c = false := by
  have := List.all_eq_true.mp hk c hc
  simp only [keyChar, Bool.and_eq_true, Bool.not_eq_true'] at this
  exact this.2

theorem reSpace_isSpace (c : Char) (h : Py.isSpace c = false) : Py.isReSpaceA c = false := by
  simp only [Py.isSpace, Py.isReSpaceA, Bool.or_eq_false_iff, Bool.and_eq_false_iff,
    decide_eq_false_iff_not, beq_eq_false_iff_ne] at *
  omega

theorem strip_key (k : List Char) (hk : k.all keyChar = true) : Py.strip k = k :=
  strip_id k (fun c hc => keyChar_notSpace k hk c (List.mem_of_mem_head? hc))
    (fun c hc => keyChar_notSpace k hk c (List.mem_of_getLast? hc))

/-- everything `parse_cookie` does to one emitted pair -/
theorem pair_facts (k v hv : List Char) (hk : ValidKey k) (h : dumpValue v = .ok hv) :
    (∀ rest, matchOne (k ++ '=' :: hv ++ ';' :: rest) = some (k, hv, rest.dropWhile Py.isReSpaceA)) ∧
    unquoteValue (Py.strip hv) = v := by
  obtain ⟨_, hkc⟩ := hk
  by_cases hq : v.all noQuoteChar = true
  · have hdv : dumpValue v = .ok v := by simp [dumpValue, hq]
    rw [hdv] at h
    obtain rfl := Except.ok.inj h
    have hf := fun c hc => noQuoteChar_facts c (List.all_eq_true.mp hq c hc)
    refine ⟨fun rest => ?_, ?_⟩
    · exact matchOne_plain_gen k v rest hkc (fun c hc => (hf c hc).2.2.2.1)
        (fun c hc => ⟨(hf c (List.mem_of_mem_head? hc)).2.2.2.2, (hf c (List.mem_of_mem_head? hc)).2.2.1⟩)
        (fun c hc => (hf c (List.mem_of_getLast? hc)).2.2.1)
    · rw [strip_id v (fun c hc => (hf c (List.mem_of_mem_head? hc)).2.1)
        (fun c hc => (hf c (List.mem_of_getLast? hc)).2.1)]
      exact unquote_plain v (fun c hc => (hf c hc).2.2.2.2)
  · have hq' : v.all noQuoteChar = false := by simpa using hq
    rw [dumpValue_quoted v hq'] at h
    obtain rfl := Except.ok.inj h
    have hns : ∀ n ∈ (utf8Enc v).map UInt8.toNat, n < 256 := by
      intro n hn
      simp only [List.mem_map] at hn
      obtain ⟨b, _, rfl⟩ := hn
      exact b.toNat_lt
    refine ⟨fun rest => matchOne_quoted_gen k _ rest hkc hns, ?_⟩
    have hvstrip : Py.strip ('"' :: ((utf8Enc v).map UInt8.toNat).flatMap escChars ++ ['"']) =
        '"' :: ((utf8Enc v).map UInt8.toNat).flatMap escChars ++ ['"'] := by
      apply strip_id
      · intro c hc
        simp only [List.cons_append, List.head?_cons, Option.some.injEq] at hc
        subst hc; decide
      · intro c hc
        have : ('"' :: (((utf8Enc v).map UInt8.toNat).flatMap escChars ++ ['"'])).getLast? = some '"' := by
          rw [← List.cons_append, List.getLast?_append]; simp
        simp only [List.cons_append] at hc
        rw [this] at hc
        obtain rfl := Option.some.inj hc
        decide
    rw [hvstrip, unquote_quoted, Py.decodeReplace_utf8Enc]

-- `jarText` (pairs joined by `; `) lives in Model/Cookie.lean so that the driver can run it

/-- what the scanner needs to know about one raw pair -/
def ScanGood (p : List Char × List Char) : Prop :=
  ValidKey p.1 ∧
    ∀ rest, matchOne (p.1 ++ '=' :: p.2 ++ ';' :: rest) = some (p.1, p.2, rest.dropWhile Py.isReSpaceA)

theorem findAll_nil (fuel : Nat) : findAll fuel [] = [] := by cases fuel <;> rfl

theorem jarText_head (p : List Char × List Char) (t : List (List Char × List Char)) (hp : ScanGood p)
    (tail : List Char) :
    (jarText (p :: t) ++ tail).dropWhile Py.isReSpaceA = jarText (p :: t) ++ tail := by
  obtain ⟨⟨hne, hkc⟩, _⟩ := hp
  obtain ⟨k, hv⟩ := p
  cases k with
  | nil => exact absurd rfl hne
  | cons c kt =>
    have hc : Py.isReSpaceA c = false :=
      reSpace_isSpace c (keyChar_notSpace (c :: kt) hkc c (by simp))
    cases t <;> exact dropWhile_head hc

theorem findAll_jar (l : List (List Char × List Char)) (hne : l ≠ []) (hg : ∀ p ∈ l, ScanGood p)
    (fuel : Nat) (hf : l.length ≤ fuel) : findAll fuel (jarText l ++ [';']) = l := by
  induction l generalizing fuel with
  | nil => exact absurd rfl hne
  | cons p t ih =>
    obtain ⟨k, hv⟩ := p
    have hp := hg (k, hv) (by simp)
    cases fuel with
    | zero => simp at hf
    | succ f =>
      cases t with
      | nil =>
        have hm := hp.2 []
        have hs : jarText [(k, hv)] ++ [';'] = k ++ '=' :: hv ++ ';' :: [] := by simp [jarText]
        rw [hs]
        have hne' : k ++ '=' :: hv ++ ';' :: [] ≠ [] := by cases k <;> simp
        cases hcs : k ++ '=' :: hv ++ ';' :: [] with
        | nil => exact absurd hcs hne'
        | cons c s' =>
          rw [← hcs]
          simp only [findAll, hcs]
          rw [← hcs, hm]
          simp [List.dropWhile, findAll_nil]
      | cons p2 t2 =>
        have hs : jarText ((k, hv) :: p2 :: t2) ++ [';'] =
            k ++ '=' :: hv ++ ';' :: (' ' :: (jarText (p2 :: t2) ++ [';'])) := by simp [jarText]
        rw [hs]
        have hm := hp.2 (' ' :: (jarText (p2 :: t2) ++ [';']))
        have hsp : Py.isReSpaceA ' ' = true := by decide
        have hdw : (' ' :: (jarText (p2 :: t2) ++ [';'])).dropWhile Py.isReSpaceA =
            jarText (p2 :: t2) ++ [';'] := by
          rw [List.dropWhile_cons_of_pos hsp]
          exact jarText_head p2 t2 (hg p2 (by simp)) [';']
        rw [hdw] at hm
        have hne' : k ++ '=' :: hv ++ ';' :: (' ' :: (jarText (p2 :: t2) ++ [';'])) ≠ [] := by
          cases k <;> simp
        cases hcs : k ++ '=' :: hv ++ ';' :: (' ' :: (jarText (p2 :: t2) ++ [';'])) with
        | nil => exact absurd hcs hne'
        | cons c s' =>
          simp only [findAll]
          rw [← hcs, hm]
          simp only [List.cons.injEq, true_and]
          exact ih (by simp) (fun q hq => hg q (by simp [hq])) f (by simp at hf ⊢; omega)

theorem jarText_length (l : List (List Char × List Char)) : l.length ≤ (jarText l).length + 1 := by
  induction l with
  | nil => simp
  | cons p t ih =>
    obtain ⟨k, hv⟩ := p
    cases t with
    | nil => simp [jarText]
    | cons p2 t2 =>
      simp only [jarText, List.length_cons, List.length_append] at ih ⊢
      omega

/-! ### the environ-level parser: latin-1 → UTF-8 dance is the identity on ASCII text -/

def asciiText (s : List Char) : Bool := s.all (fun c => c.toNat < 128)

theorem utf8Enc_asciiText (s : List Char) (h : asciiText s = true) :
    utf8Enc s = s.map (fun c => UInt8.ofNat c.toNat) := by
  induction s with
  | nil => rfl
  | cons c t ih =>
    simp only [asciiText, List.all_cons, Bool.and_eq_true, decide_eq_true_eq] at h
    have hc := utf8Enc_ascii_table c.toNat h.1
    have hcc : Char.ofNat c.toNat = c := by simp
    rw [hcc] at hc
    simp only [utf8Enc, List.flatMap_cons, hc, List.map_cons] at *
    simp [ih (by simpa [asciiText] using h.2)]

theorem latin1Enc_asciiText (s : List Char) (h : asciiText s = true) :
    Py.latin1Enc s = some (s.map (fun c => UInt8.ofNat c.toNat)) := by
  induction s with
  | nil => rfl
  | cons c t ih =>
    simp only [asciiText, List.all_cons, Bool.and_eq_true, decide_eq_true_eq] at h
    have : c.toNat < 256 := by omega
    simp [Py.latin1Enc, this, ih (by simpa [asciiText] using h.2)]

theorem dance_asciiText (s : List Char) (h : asciiText s = true) :
    (Py.latin1Enc s).map Py.decodeReplace = some s := by
  rw [latin1Enc_asciiText s h, ← utf8Enc_asciiText s h]
  simp [Py.decodeReplace_utf8Enc]

/-! ### the `Set-Cookie` header splits at `; ` into exactly the parts `dump_cookie` joined -/

/-- what a user agent does first with a `Set-Cookie` header: split it at `; ` -/
def splitSemi : List Char → List (List Char)
  | [] => [[]]
  | ';' :: ' ' :: t => [] :: splitSemi t
  | c :: t =>
    match splitSemi t with
    | [] => [[c]]
    | h :: r => (c :: h) :: r

theorem splitSemi_ne_nil (s : List Char) : splitSemi s ≠ [] := by
  fun_induction splitSemi s <;> simp_all

theorem splitSemi_cons (c : Char) (t : List Char) (hc : c ≠ ';') :
    splitSemi (c :: t) = (match splitSemi t with
      | [] => [[c]]
      | h :: r => (c :: h) :: r) := by
  conv => lhs; unfold splitSemi
  split
  · simp_all
  · rename_i heq; simp only [List.cons.injEq] at heq; exact absurd heq.1 hc
  · rename_i c' t' _ heq
    simp only [List.cons.injEq] at heq
    obtain ⟨rfl, rfl⟩ := heq
    rfl

theorem splitSemi_noSemi (p : List Char) (hp : ∀ c ∈ p, c ≠ ';') : splitSemi p = [p] := by
  induction p with
  | nil => rfl
  | cons c t ih =>
    have := ih (fun x hx => hp x (by simp [hx]))
    rw [splitSemi_cons c t (hp c (by simp)), this]

theorem splitSemi_append (p rest : List Char) (hp : ∀ c ∈ p, c ≠ ';') :
    splitSemi (p ++ ';' :: ' ' :: rest) = p :: splitSemi rest := by
  induction p with
  | nil => simp [splitSemi]
  | cons c t ih =>
    have := ih (fun x hx => hp x (by simp [hx]))
    simp only [List.cons_append]
    rw [splitSemi_cons c _ (hp c (by simp)), this]

theorem splitSemi_intercalate (parts : List (List Char)) (hne : parts ≠ [])
    (hp : ∀ p ∈ parts, ∀ c ∈ p, c ≠ ';') :
    splitSemi (List.intercalate "; ".toList parts) = parts := by
  induction parts with
  | nil => exact absurd rfl hne
  | cons p t ih =>
    cases t with
    | nil => simpa [List.intercalate] using splitSemi_noSemi p (hp p (by simp))
    | cons q r =>
      have hrec := ih (by simp) (fun x hx => hp x (by simp [hx]))
      have : List.intercalate "; ".toList (p :: q :: r) =
          p ++ ';' :: ' ' :: List.intercalate "; ".toList (q :: r) := by
        simp [List.intercalate, List.intersperse]
      rw [this, splitSemi_append p _ (hp p (by simp)), hrec]

theorem nat_toString_digits (n : Nat) (c : Char) (hc : c ∈ (toString n).toList) : c.isDigit = true := by
  have : (toString n).toList = Nat.toDigits 10 n := by
    show (Nat.repr n).toList = _
    exact Nat.toList_repr
  rw [this] at hc
  exact Nat.isDigit_of_mem_toDigits (by decide) (by decide) hc

theorem intText_no_semi (i : Int) : ∀ c ∈ intText i, c ≠ ';' := by
  intro c hc h
  subst h
  unfold intText at hc
  cases i with
  | ofNat n =>
    have : (toString (Int.ofNat n)) = toString n := by simp [toString, Int.repr]
    rw [this] at hc
    have := nat_toString_digits n ';' hc
    simp [Char.isDigit] at this
  | negSucc n =>
    have : (toString (Int.negSucc n)) = "-" ++ toString (n+1) := by simp [toString, Int.repr]
    rw [this] at hc
    simp only [String.toList_append, List.mem_append] at hc
    rcases hc with hc | hc
    · simp at hc
    · have := nat_toString_digits (n+1) ';' hc
      simp [Char.isDigit] at this

end Wz.Cookie
