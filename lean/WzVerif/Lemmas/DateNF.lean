/-
Normal form on arbitrary text for HTTP dates (C06): every instant the IMF-fixdate parser returns lies
in the range of `date_roundtrip`, so `parse_date(http_date(parse_date(w))) == parse_date(w)`.
-/
import WzVerif.Lemmas.DateText
namespace Wz.Date
open Wz

theorem dby_ge_100 (y : Nat) (h : 100 ≤ y) : 36159 ≤ daysBeforeYear y := by
  obtain ⟨q, rfl⟩ : ∃ q, y = q + 1 := ⟨y - 1, by omega⟩
  have e : daysBeforeYear (q + 1) = q * 365 + q / 4 - q / 100 + q / 400 := rfl
  rw [e]
  have g1 : q / 100 ≤ q / 4 := by omega
  have g3 : 24 + q / 100 ≤ q / 4 := by omega
  have g4 : 36135 ≤ q * 365 := by omega
  omega

theorem dby_le_10000 (y : Nat) (h : y ≤ 10000) : daysBeforeYear y ≤ 3652059 := by
  simp only [daysBeforeYear]; omega

/-- the civil fields the parser accepts (after the two-digit-year fix-up) denote an instant in the
range of the round trip -/
theorem secondsOfCivil_range (c : Civil) (hv : c.valid = true) (hy : 100 ≤ c.y) :
    tMin ≤ secondsOfCivil c ∧ secondsOfCivil c ≤ tMax := by
  simp only [Civil.valid, Bool.and_eq_true, decide_eq_true_eq] at hv
  obtain ⟨⟨⟨⟨⟨⟨⟨⟨_, hy2⟩, hm1⟩, hm2⟩, hd1⟩, hd2⟩, hh⟩, hmi⟩, hss⟩ := hv
  have hlo := dby_ge_100 c.y hy
  have hspan := month_span (isLeap c.y) c.mo (by omega)
  have hsucc := dby_succ c.y (by omega)
  have hhi := dby_le_10000 (c.y + 1) (by omega)
  rw [tMin_val, tMax_val]
  unfold secondsOfCivil ymd2ord
  constructor <;> omega

theorem parseImfFixdate_image (s : Str) (c : Civil) (h : parseImfFixdate s = some c) : c.valid = true ∧ 100 ≤ c.y := by
  unfold parseImfFixdate at h
  split at h
  · dsimp only at h
    split at h
    · simp at h
    · simp only [Option.bind_eq_bind, Option.bind_eq_some_iff] at h
      obtain ⟨d, _, mo, _, y, _, hh, _, mi, _, ss, _, hc⟩ := h
      by_cases hv : (Civil.valid ⟨if y < 100 then if y > 68 then y + 1900 else y + 2000 else y, mo, d, hh, mi, ss⟩) = true
      · simp only [hv, if_true, Option.some.injEq] at hc
        subst hc
        refine ⟨hv, ?_⟩
        show 100 ≤ (if y < 100 then if y > 68 then y + 1900 else y + 2000 else y)
        split
        · split <;> omega
        · omega
      · simp only [hv] at hc
        cases hc
  · cases h

/-- every instant the IMF-fixdate parser returns is in the range of the round trip -/
theorem parseDate_image_range (w : Str) (t : Nat) (h : parseDate w = some t) : tMin ≤ t ∧ t ≤ tMax := by
  unfold parseDate at h
  cases hc : parseImfFixdate w with
  | none => rw [hc] at h; cases h
  | some c =>
    rw [hc] at h
    simp only [Option.map_some, Option.some.injEq] at h
    subst h
    obtain ⟨hv, hy⟩ := parseImfFixdate_image w c hc
    exact secondsOfCivil_range c hv hy

/-- **normal form on arbitrary text** for HTTP dates (IMF-fixdate layout) -/
theorem date_normal_form_any (w : Str) (t : Nat) (h : parseDate w = some t) : parseDate (httpDate t) = some t := by
  obtain ⟨h1, h2⟩ := parseDate_image_range w t h
  exact date_roundtrip_any t h1 h2

end Wz.Date
