/-
The round-trip facts of Props/C13.lean as lemmas, so that the jar / response lemmas can build on
them (a Props file holds property theorems only and cannot be imported by a Lemmas file).
-/
import WzVerif.Lemmas.Cookie
namespace Wz.Cookie
open Wz

/-- a character that cannot end the pair or separate attributes: printable ASCII other than `;` `,` -/
def inertChar (c : Char) : Bool := 0x20 ≤ c.toNat && c.toNat ≤ 0x7E && c != ';' && c != ','

theorem inert_table' : ∀ n, n < 256 → (escChars n).all inertChar = true := by decide +kernel

theorem octet_inert' : ∀ n, n < 256 → cookieOctet n = true → inertChar (Char.ofNat n) = true := by
  decide +kernel

theorem dumpValue_inert (v out : List Char) (h : dumpValue v = .ok out) :
    out.all inertChar = true := by
  by_cases hq : v.all noQuoteChar = true
  · have : dumpValue v = .ok v := by simp [dumpValue, hq]
    rw [this] at h
    obtain rfl := Except.ok.inj h
    apply List.all_eq_true.mpr
    intro c hc
    have hf := noQuoteChar_facts c (List.all_eq_true.mp hq c hc)
    have hlt : c.toNat < 256 := by
      have := hf.1
      simp only [cookieOctet, Bool.or_eq_true, beq_iff_eq, Bool.and_eq_true, decide_eq_true_eq] at this
      omega
    have := octet_inert' c.toNat hlt hf.1
    simpa using this
  · rw [dumpValue_quoted v (by simpa using hq)] at h
    obtain rfl := Except.ok.inj h
    simp only [List.cons_append, List.all_cons, List.all_append, List.all_nil, Bool.and_true,
      List.all_flatMap, Bool.and_eq_true]
    refine ⟨by decide, ?_, by decide⟩
    apply List.all_eq_true.mpr
    intro n hn
    simp only [List.mem_map] at hn
    obtain ⟨b, _, rfl⟩ := hn
    exact inert_table' _ b.toNat_lt

theorem dumpValue_no_semi (v hv : List Char) (h : dumpValue v = .ok hv) : ∀ c ∈ hv, c ≠ ';' := by
  intro c hc
  have := List.all_eq_true.mp (dumpValue_inert v hv h) c hc
  simp only [inertChar, Bool.and_eq_true, bne_iff_ne, ne_eq] at this
  exact this.1.2

theorem dumpValue_ascii (v hv : List Char) (h : dumpValue v = .ok hv) : asciiText hv = true := by
  apply List.all_eq_true.mpr
  intro c hc
  have := List.all_eq_true.mp (dumpValue_inert v hv h) c hc
  simp only [inertChar, Bool.and_eq_true, decide_eq_true_eq] at this
  simp only [decide_eq_true_eq]
  omega

theorem dumpValue_total' (v : List Char) : ∃ out, dumpValue v = .ok out := by
  by_cases h : v.all noQuoteChar = true
  · exact ⟨v, by simp [dumpValue, h]⟩
  · exact ⟨_, dumpValue_quoted v (by simpa using h)⟩

/-- the emitted value neither starts nor ends with white space -/
theorem dumpValue_strip (v hv : List Char) (h : dumpValue v = .ok hv) : Py.strip hv = hv := by
  by_cases hq : v.all noQuoteChar = true
  · have hdv : dumpValue v = .ok v := by simp [dumpValue, hq]
    rw [hdv] at h
    obtain rfl := Except.ok.inj h
    have hf := fun c hc => noQuoteChar_facts c (List.all_eq_true.mp hq c hc)
    exact strip_id v (fun c hc => (hf c (List.mem_of_mem_head? hc)).2.1)
      (fun c hc => (hf c (List.mem_of_getLast? hc)).2.1)
  · rw [dumpValue_quoted v (by simpa using hq)] at h
    obtain rfl := Except.ok.inj h
    apply strip_id
    · intro c hc
      simp only [List.cons_append, List.head?_cons, Option.some.injEq] at hc
      subst hc; decide
    · intro c hc
      have : ('"' :: (((utf8Enc v).map UInt8.toNat).flatMap escChars ++ ['"'])).getLast? = some '"' := by
        rw [← List.cons_append, List.getLast?_append]; simp
      simp only [List.cons_append] at hc
      rw [this] at hc
      obtain rfl := Option.some.inj hc
      decide

theorem pair_roundtrip (k v hv : List Char) (hk : ValidKey k) (h : dumpValue v = .ok hv) :
    parseCookie (k ++ '=' :: hv) = [(k, v)] := by
  obtain ⟨hm, hu⟩ := pair_facts k v hv hk h
  have hcookie : (k ++ '=' :: hv).isEmpty = false := by cases k <;> simp
  unfold parseCookie
  rw [if_neg (by simp [hcookie])]
  have hs : (k ++ '=' :: hv) ++ [';'] = k ++ '=' :: hv ++ ';' :: [] := by simp
  have hm' := hm []
  simp only [List.dropWhile] at hm'
  rw [hs, findAll_single _ k hv hm' (by cases k <;> simp)]
  simp only [postProcess, List.filterMap_cons, List.filterMap_nil, strip_key k hk.2, hu]
  rw [if_neg (by cases k <;> simp_all [ValidKey])]

theorem jarText_roundtrip (items : List (List Char × List Char × List Char)) (hne : items ≠ [])
    (h : ∀ it ∈ items, ValidKey it.1 ∧ dumpValue it.2.1 = .ok it.2.2) :
    parseCookie (jarText (items.map fun it => (it.1, it.2.2))) = items.map fun it => (it.1, it.2.1) := by
  have hl : (items.map fun it => (it.1, it.2.2)) ≠ [] := by cases items <;> simp_all
  have hg : ∀ p ∈ (items.map fun it => (it.1, it.2.2)), ScanGood p := by
    intro p hp
    simp only [List.mem_map] at hp
    obtain ⟨it, hit, rfl⟩ := hp
    obtain ⟨hk, hd⟩ := h it hit
    exact ⟨hk, (pair_facts it.1 it.2.1 it.2.2 hk hd).1⟩
  have hnonempty : (jarText (items.map fun it => (it.1, it.2.2))).isEmpty = false := by
    cases items with
    | nil => exact absurd rfl hne
    | cons it t =>
      obtain ⟨hk, _⟩ := h it (by simp)
      cases t <;> (simp only [List.map_cons, List.map_nil, jarText]; cases hkk : it.1 <;> simp_all [ValidKey])
  unfold parseCookie
  rw [if_neg (by simp [hnonempty])]
  rw [findAll_jar _ hl hg _ (by
    have := jarText_length (items.map fun it => (it.1, it.2.2))
    simp only [List.length_append, List.length_cons, List.length_nil] at this ⊢
    omega)]
  clear hl hg hnonempty hne
  induction items with
  | nil => rfl
  | cons it t ih =>
    obtain ⟨hk, hd⟩ := h it (by simp)
    have hu := (pair_facts it.1 it.2.1 it.2.2 hk hd).2
    simp only [postProcess, List.map_cons, List.filterMap_cons, strip_key it.1 hk.2, hu]
    rw [if_neg (by obtain ⟨hne', _⟩ := hk; cases hkk : it.1 <;> simp_all)]
    simp only [List.cons.injEq, true_and]
    exact ih (fun it' hit' => h it' (by simp [hit']))

theorem pair_roundtrip_env (k v hv : List Char) (hk : ValidKey k) (hka : asciiText k = true)
    (h : dumpValue v = .ok hv) :
    parseCookieEnviron (k ++ '=' :: hv) = some [(k, v)] := by
  have hascii : asciiText (k ++ '=' :: hv) = true := by
    have hin := dumpValue_ascii v hv h
    simp only [asciiText, List.all_append, List.all_cons, Bool.and_eq_true] at hka hin ⊢
    exact ⟨hka, by decide, hin⟩
  unfold parseCookieEnviron
  rw [if_neg (by cases k <;> simp)]
  have hd := dance_asciiText _ hascii
  cases hl : Py.latin1Enc (k ++ '=' :: hv) with
  | none => simp [hl] at hd
  | some bs =>
    simp only [hl, Option.map_some, Option.some.injEq] at hd ⊢
    rw [hd, pair_roundtrip k v hv hk h]

/-- an ASCII name is emitted as it is (`key.encode().decode("latin1")`) -/
theorem key_dance_ascii (k : List Char) (h : asciiText k = true) : Py.latin1Dec (utf8Enc k) = k := by
  rw [utf8Enc_asciiText k h]
  unfold Py.latin1Dec
  rw [List.map_map]
  have : ∀ t : List Char, asciiText t = true →
      t.map ((fun b : UInt8 => Char.ofNat b.toNat) ∘ fun c => UInt8.ofNat c.toNat) = t := by
    intro t ht
    induction t with
    | nil => rfl
    | cons c r ih =>
      simp only [asciiText, List.all_cons, Bool.and_eq_true, decide_eq_true_eq] at ht
      simp only [List.map_cons, Function.comp]
      rw [ih (by simpa [asciiText] using ht.2)]
      congr 1
      have hc : c.toNat < 256 := by omega
      simp [UInt8.toNat_ofNat, Nat.mod_eq_of_lt hc]
  exact this k h

end Wz.Cookie
