/-
Helper lemmas for the attribute side of Props/C13.lean (Model/CookieAttrs.lean):
the Path quoting, the domain pipeline, SameSite spelling, the size warning.
-/
import WzVerif.Lemmas.Cookie
import WzVerif.Model.CookieAttrs
namespace Wz.Cookie
open Wz

/-! ### `quote(path, safe=...)` -/

/-- a character a quoted Path may contain: printable ASCII without SP, `;`, `"`, `\` -/
def pathChar (c : Char) : Bool :=
  0x21 ≤ c.toNat && c.toNat ≤ 0x7E && c != ';' && c != '"' && c != '\\'

theorem table_quote : ∀ n, n < 256 → (quoteByte (UInt8.ofNat n)).all pathChar = true := by
  decide +kernel

theorem quotePath_chars (p : Str) : (quotePath p).all pathChar = true := by
  unfold quotePath
  rw [List.all_flatMap]
  apply List.all_eq_true.mpr
  intro b _
  have := table_quote b.toNat b.toNat_lt
  rwa [ofNat_toNat] at this

theorem quotePath_no_semi (p : Str) : ∀ c ∈ quotePath p, c ≠ ';' := by
  intro c hc
  have := List.all_eq_true.mp (quotePath_chars p) c hc
  simp only [pathChar, Bool.and_eq_true, bne_iff_ne, ne_eq] at this
  exact this.1.1.2

/-! ### the domain pipeline -/

theorem mem_dropWhile {α} (p : α → Bool) (l : List α) (x : α) (h : x ∈ l.dropWhile p) : x ∈ l :=
  (List.dropWhile_sublist p).subset h

theorem domainHost_subset (d : Str) (c : Char) (h : c ∈ domainHost d) : c ∈ d := by
  unfold domainHost at h
  exact (List.takeWhile_sublist _).subset (mem_dropWhile _ _ _ h)

theorem domainHost_no_colon (d : Str) : ∀ c ∈ domainHost d, c ≠ ':' := by
  intro c hc
  unfold domainHost at hc
  have := List.all_eq_true.mp (List.all_takeWhile (p := (· != ':')) (l := d)) c (mem_dropWhile _ _ _ hc)
  simpa using this

theorem domainHost_head (d : Str) : (domainHost d).head? ≠ some '.' := by
  unfold domainHost
  intro h
  have := List.head?_dropWhile_not (· == '.') (d.takeWhile (· != ':'))
  rw [h] at this
  simp at this

/-- the codec's ASCII fast path returns its input or refuses it -/
theorem idnaEnc_ascii (lib : Lib) (s : Str) (h : isAsciiStr s = true) :
    idnaEnc lib s = .ok s ∨ idnaEnc lib s = .error "UnicodeError" := by
  unfold idnaEnc
  by_cases he : s.isEmpty = true
  · left; simp only [he, if_true]; cases s <;> simp_all
  · simp only [he, h, if_true]
    by_cases hl : labelsOK (splitOn '.' s) = true <;> simp [hl]

/-! ### SameSite -/

theorem table_case : ∀ n, n < 128 →
    (Char.ofNat n).toUpper.toLower = (Char.ofNat n).toLower ∧
    (Char.ofNat n).toLower.toLower = (Char.ofNat n).toLower := by decide +kernel

theorem alpha_lt (c : Char) (h : c.isAlpha = true) : c.toNat < 128 := by
  simp only [Char.isAlpha, Char.isUpper, Char.isLower, Bool.or_eq_true, Bool.and_eq_true,
    decide_eq_true_eq] at h
  have h1 : ∀ a b : Char, a ≤ b → a.toNat ≤ b.toNat := fun a b hab => hab
  rcases h with ⟨_, h⟩ | ⟨_, h⟩
  · have := h1 _ _ h; simp at this; omega
  · have := h1 _ _ h; simp at this; omega

theorem case_facts (c : Char) (h : c.isAlpha = true) :
    c.toUpper.toLower = c.toLower ∧ c.toLower.toLower = c.toLower := by
  have := table_case c.toNat (alpha_lt c h)
  simpa using this

theorem titleGo_lower (s : Str) (b : Bool) : (titleAscii.go s b).map Char.toLower = s.map Char.toLower := by
  induction s generalizing b with
  | nil => rfl
  | cons c t ih =>
    unfold titleAscii.go
    by_cases hc : c.isAlpha = true
    · have := case_facts c hc
      cases b <;> simp [hc, ih, this.1, this.2]
    · simp [hc, ih]

/-- `str.title()` changes nothing but the case of ASCII letters -/
theorem titleAscii_lower (s : Str) : (titleAscii s).map Char.toLower = s.map Char.toLower :=
  titleGo_lower s false

/-- every upper/lower-case spelling of a word -/
def caseVariants : Str → List Str
  | [] => [[]]
  | c :: t => (caseVariants t).flatMap fun r => [c.toLower :: r, c.toUpper :: r]

/-! ### the size warning never touches the header -/

theorem dumpCookieFull_maxSize (lib : Lib) (a : DumpArgs) (m : Int) :
    dumpCookieFull lib { a with maxSize := m } =
      (dumpCookieFull lib a).map (fun r => (r.1, sizeWarning m r.1)) := by
  unfold dumpCookieFull resolveAttrs
  cases resolveDomain lib a.domain with
  | error e => rfl
  | ok dom =>
    simp only
    cases resolveExpires lib a.expires (resolveMaxAge a.maxAge) a.syncExpires with
    | error e => rfl
    | ok exp =>
      simp only
      cases dumpCookie a.key a.value _ with
      | error e => rfl
      | ok h => rfl

/-! ### the attribute parts contain no `;` -/

theorem canonSameSite_cases (s : Option Str) (ss : Option Str) (h : canonSameSite s = .ok ss) :
    ss = none ∨ ss = some "Strict".toList ∨ ss = some "Lax".toList ∨ ss = some "None".toList := by
  unfold canonSameSite at h
  cases hs : s with
  | none => simp [hs] at h; exact Or.inl h.symm
  | some x =>
    simp only [hs] at h
    split at h
    · rename_i hcond
      simp only [Except.ok.injEq] at h
      simp only [Bool.or_eq_true, beq_iff_eq] at hcond
      rcases hcond with (h1 | h2) | h3
      · right; left; rw [← h, h1]
      · right; right; left; rw [← h, h2]
      · right; right; right; rw [← h, h3]
    · simp at h

theorem attrParts_no_semi (a : Attrs) (ss : Option Str)
    (hcanon : ss = none ∨ ss = some "Strict".toList ∨ ss = some "Lax".toList ∨ ss = some "None".toList)
    (hdom : ∀ x, a.domain = some x → ∀ c ∈ x, c ≠ ';')
    (hexp : ∀ x, a.expires = some x → ∀ c ∈ x, c ≠ ';')
    (hpath : ∀ x, a.path = some x → ∀ c ∈ x, c ≠ ';') :
    ∀ p ∈ attrParts a ss, ∀ c ∈ p, c ≠ ';' := by
  intro p hp c hc
  simp only [attrParts, List.mem_append] at hp
  have kvcase : ∀ (k : String) (v : Option (List Char)), (∀ c ∈ k.toList, c ≠ ';') →
      (∀ x, v = some x → ∀ c ∈ x, c ≠ ';') → p ∈ kvPart k v → c ≠ ';' := by
    intro k v hk hv' hpk
    unfold kvPart at hpk
    cases v with
    | none => simp at hpk
    | some x =>
      simp only [List.mem_singleton] at hpk
      subst hpk
      simp only [List.mem_append, List.mem_cons] at hc
      rcases hc with hc | rfl | hc
      · exact hk c hc
      · decide
      · exact hv' x rfl c hc
  have flcase : ∀ (k : String) (b : Bool), (∀ c ∈ k.toList, c ≠ ';') → p ∈ flagPart k b → c ≠ ';' := by
    intro k b hk hpk
    unfold flagPart at hpk
    split at hpk
    · simp only [List.mem_singleton] at hpk; subst hpk; exact hk c hc
    · simp at hpk
  rcases hp with ((((((hp | hp) | hp) | hp) | hp) | hp) | hp) | hp
  · exact kvcase "Domain" _ (by decide) hdom hp
  · exact kvcase "Expires" _ (by decide) hexp hp
  · refine kvcase "Max-Age" _ (by decide) ?_ hp
    intro x hx
    cases hm : a.maxAge with
    | none => simp [hm] at hx
    | some i => simp only [hm, Option.map_some, Option.some.injEq] at hx; subst hx; exact intText_no_semi i
  · exact flcase "Secure" _ (by decide) hp
  · exact flcase "HttpOnly" _ (by decide) hp
  · exact kvcase "Path" _ (by decide) hpath hp
  · refine kvcase "SameSite" _ (by decide) ?_ hp
    intro x hx
    rcases hcanon with h0 | h1 | h2 | h3
    · simp [h0] at hx
    · rw [h1] at hx; obtain rfl := Option.some.inj hx; decide
    · rw [h2] at hx; obtain rfl := Option.some.inj hx; decide
    · rw [h3] at hx; obtain rfl := Option.some.inj hx; decide
  · exact flcase "Partitioned" _ (by decide) hp

/-- everything `dumpCookie` does, as one fact -/
theorem dumpCookie_ok (key value h : Str) (a : Attrs) (hd : dumpCookie key value a = .ok h) :
    ∃ hv ss, dumpValue value = .ok hv ∧ canonSameSite a.samesite = .ok ss ∧
      h = List.intercalate "; ".toList ((Py.latin1Dec (utf8Enc key) ++ '=' :: hv) :: attrParts a ss) := by
  unfold dumpCookie at hd
  cases hss : canonSameSite a.samesite with
  | error e => simp [hss] at hd
  | ok ss =>
    cases hdv : dumpValue value with
    | error e => simp [hss, hdv] at hd
    | ok hv =>
      simp only [hss, hdv, Except.ok.injEq] at hd
      exact ⟨hv, ss, rfl, rfl, hd.symm⟩

/-! ### the argument normalisation -/

theorem resolveAttrs_ok (lib : Lib) (a : DumpArgs) (at' : Attrs) (h : resolveAttrs lib a = .ok at') :
    resolveDomain lib a.domain = .ok at'.domain ∧
    resolveExpires lib a.expires (resolveMaxAge a.maxAge) a.syncExpires = .ok at'.expires ∧
    at'.maxAge = resolveMaxAge a.maxAge ∧ at'.path = a.path.map quotePath ∧
    at'.secure = a.secure ∧ at'.httponly = a.httponly ∧ at'.samesite = a.samesite ∧
    at'.partitioned = a.partitioned := by
  unfold resolveAttrs at h
  cases hd : resolveDomain lib a.domain with
  | error e => simp [hd] at h
  | ok dom =>
    simp only [hd] at h
    cases he : resolveExpires lib a.expires (resolveMaxAge a.maxAge) a.syncExpires with
    | error e => simp [he] at h
    | ok exp =>
      simp only [he, Except.ok.injEq] at h
      subst h
      exact ⟨rfl, rfl, rfl, rfl, rfl, rfl, rfl, rfl⟩

theorem dumpCookieFull_ok (lib : Lib) (a : DumpArgs) (h : Str) (w : Bool)
    (hd : dumpCookieFull lib a = .ok (h, w)) :
    ∃ at', resolveAttrs lib a = .ok at' ∧ dumpCookie a.key a.value at' = .ok h ∧ w = sizeWarning a.maxSize h := by
  unfold dumpCookieFull at hd
  cases hr : resolveAttrs lib a with
  | error e => simp [hr] at hd
  | ok at' =>
    simp only [hr] at hd
    cases hdc : dumpCookie a.key a.value at' with
    | error e => simp [hdc] at hd
    | ok h' =>
      simp only [hdc, Except.ok.injEq, Prod.mk.injEq] at hd
      obtain ⟨h1, h2⟩ := hd
      subst h1
      exact ⟨at', rfl, hdc, h2.symm⟩

/-- the resolved Domain contains no `;` when neither the argument nor the idna codec's answer does -/
theorem resolveDomain_no_semi (lib : Lib) (d : Option Str) (x : Str)
    (hraw : ∀ y, d = some y → ∀ c ∈ y, c ≠ ';')
    (hidna : ∀ s y, lib.idna s = .ok y → ∀ c ∈ y, c ≠ ';')
    (h : resolveDomain lib d = .ok (some x)) : ∀ c ∈ x, c ≠ ';' := by
  unfold resolveDomain at h
  cases d with
  | none => simp at h
  | some y =>
    cases y with
    | nil => simp at h; subst h; intro c hc; simp at hc
    | cons c0 t =>
      simp only at h
      cases hi : idnaEnc lib (domainHost (c0 :: t)) with
      | error e => simp [hi, Except.map] at h
      | ok r =>
        simp only [hi, Except.map, Except.ok.injEq, Option.some.injEq] at h
        subst h
        unfold idnaEnc at hi
        split at hi
        · simp only [Except.ok.injEq] at hi; subst hi; intro c hc; simp at hc
        · split at hi
          · split at hi
            · simp only [Except.ok.injEq] at hi
              subst hi
              intro c hc
              exact hraw _ rfl c (domainHost_subset _ c hc)
            · simp at hi
          · exact hidna _ _ hi

theorem resolveExpires_no_semi (lib : Lib) (e : Option ExpiresArg) (ma : Option Int) (sync : Bool) (x : Str)
    (hstr : ∀ s, e = some (.str s) → ∀ c ∈ s, c ≠ ';')
    (hdate : ∀ l y, lib.httpDate l = .ok y → ∀ c ∈ y, c ≠ ';')
    (hsync : ∀ m y, lib.syncDate m = .ok y → ∀ c ∈ y, c ≠ ';')
    (h : resolveExpires lib e ma sync = .ok (some x)) : ∀ c ∈ x, c ≠ ';' := by
  unfold resolveExpires at h
  cases e with
  | some ea =>
    cases ea with
    | str s => simp only [Except.ok.injEq, Option.some.injEq] at h; subst h; exact hstr s rfl
    | obj l =>
      simp only at h
      cases hl : lib.httpDate l with
      | error e => simp [hl, Except.map] at h
      | ok y => simp only [hl, Except.map, Except.ok.injEq, Option.some.injEq] at h; subst h; exact hdate l y hl
  | none =>
    simp only at h
    cases ma with
    | none => simp at h
    | some m =>
      simp only at h
      cases sync with
      | false => simp at h
      | true =>
        simp only [if_true] at h
        cases hl : lib.syncDate m with
        | error e => simp [hl, Except.map] at h
        | ok y => simp only [hl, Except.map, Except.ok.injEq, Option.some.injEq] at h; subst h; exact hsync m y hl

end Wz.Cookie
