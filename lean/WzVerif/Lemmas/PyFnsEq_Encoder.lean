/-
PyFnsEq_Encoder — `MultipartEncoder.send_event` of src/werkzeug/sansio/multipart.py *as regenerated
from werkzeug's source* by `tools/py2lean.py` (`Gen/PyFns_Encoder.lean`, rewritten on every check run;
one definition per event class, because the `isinstance` tests are decided by the declared class of
`event`: `send_event_preamble`, `send_event_field` (+ its header loop `send_event_field.loop1`),
`send_event_file` (+ `send_event_file.loop1`), `send_event_data`, `send_event_epilogue`) is equal, for
all inputs, to the hand-written model `Multipart.sendEvent` (Model/Multipart.lean) the C02 theorems
are about. A change of the Python source changes the generated definitions and breaks these
obligations.

How the two sides are related. A translated function takes `self.boundary`, `self.state` and the
event's fields and returns `(new self.state, returned bytes / exception)`; the model returns
`Except String (Bytes × State)`. A model outcome is *read as* a translated outcome by `view`: on a
normal return the new state and the bytes, on an exception the exception and the state the call
started in (`send_event` assigns `self.state` only on paths that return). The Python dataclasses
declare `name: str`, so the translation has a plain string where the model has `Option Str`: the
translated Field / File functions are compared with the model at `some n`. All theorems are plain
equalities `translated … = view st (model …)` for every boundary, state and event.

Content.
* helpers (no generated definition involved): `utf8Enc_append`, `lines_cons`, `headerLines`
  (+ `headerLines_nil`, `headerLines_cons`, `headerLines_step`), `str_cdName`, `str_filename`,
  `sendEvent_field_some`, `sendEvent_file_some`, `validPart_named`, `partHeadEvent_named`;
* the reading `view`;
* loops: `field_loop_eq`, `file_loop_eq`;
* per event class: `send_event_preamble_eq`, `send_event_field_eq`, `send_event_file_eq`,
  `send_event_data_eq`, `send_event_epilogue_eq`;
* composition: `sendEventT` (dispatch on the event constructor to the five translated functions),
  `sendEventT_eq`, `encodeEventsT` (the fold), `encodeEventsT_eq`;
* the C02 theorems restated on the translated definitions:
  `encoder_writes_disposition_translated`, `decode_encode_translated`.

No input was found on which translation and model differ; nothing is weakened or left open.
One remark on `sendEventT`: for a Field / File event whose name is `None` (outside the declared type
`name: str`, so there is no translated function for it) the answer cannot be a flat
`AttributeError`: the state test comes first in the Python code, so in a state that does not allow a
part the call raises `ValueError` (`noname_wrong_state`; replayed on the real code:
`Field(name=None)` in state DATA_START raises ValueError, in state PREAMBLE raises AttributeError).
`sendEventT` therefore answers `AttributeError` only in the three states that allow a part. `ValidPart`
(the hypothesis of `decode_encode`) forces `name = some _` (`validPart_named`), so the events of
`decode_encode_translated` only ever reach translated functions (`partHeadEvent_named`).
-/
import WzVerif.Gen.PyFns_Encoder
import WzVerif.Props.C02
namespace Wz.PyFnsEq.Encoder
open Wz Wz.Gen.PyFns_Encoder

/-! ## helpers (no generated definition involved) -/

/-- UTF-8 encoding distributes over concatenation: `(a + b).encode() == a.encode() + b.encode()` -/
theorem utf8Enc_append (a b : List Char) : utf8Enc (a ++ b) = utf8Enc a ++ utf8Enc b := by
  simp [utf8Enc, List.flatMap_append]

/-- `"\r\n".encode() == b"\r\n"` -/
theorem utf8Enc_crlf : utf8Enc [Char.ofNat 13, Char.ofNat 10] = Multipart.crlf := by decide +kernel

/-- one step of "keep the headers that pass a test on the name, write a line for each, concatenate":
the first header contributes its line iff it passes the test -/
theorem lines_cons (p : List Char → Bool) (g : List Char × List Char → Bytes) (k v : List Char)
    (hs : Multipart.Headers) :
    ((((k, v) :: hs).filter fun (k, _) => p k).map g).flatten =
      (if p k then g (k, v) else []) ++ ((hs.filter fun (k, _) => p k).map g).flatten := by
  cases h : p k <;> simp [h]

/-- the bytes the model writes for the extra headers of a Field / File event: for every header whose
lower-cased name is not `content-disposition`, in order, `name: value` in UTF-8 and CRLF -/
def headerLines (hs : Multipart.Headers) : Bytes :=
  ((hs.filter fun (k, _) => Multipart.lowerAscii k != "content-disposition".toList).map
    fun (k, v) => utf8Enc (k ++ ':' :: ' ' :: v) ++ Multipart.crlf).flatten

/-- no headers, no header lines -/
theorem headerLines_nil : headerLines [] = [] := rfl

/-- the header lines of `(k, v) :: hs`: the line of `(k, v)` unless `k` is Content-Disposition (in
any letter case), then the lines of `hs` -/
theorem headerLines_cons (k v : List Char) (hs : Multipart.Headers) :
    headerLines ((k, v) :: hs) =
      (if Multipart.lowerAscii k != "content-disposition".toList then
        utf8Enc (k ++ ':' :: ' ' :: v) ++ Multipart.crlf else []) ++ headerLines hs :=
  lines_cons (fun k => Multipart.lowerAscii k != "content-disposition".toList) _ k v hs

/-- the string literal `"content-disposition"` as the list of characters the translator writes -/
theorem cdLit : ("content-disposition".toList : List Char) =
    ['c', 'o', 'n', 't', 'e', 'n', 't', '-', 'd', 'i', 's', 'p', 'o', 's', 'i', 't', 'i', 'o', 'n'] := by
  decide

/-- One iteration of the Python loop body
`if name.lower() != "content-disposition": data += f"{name}: {value}\r\n".encode()` on the
accumulator `acc`, followed by the model's lines for the remaining headers, is `acc` followed by the
model's lines for all the headers. -/
theorem headerLines_step (k v : List Char) (hs : Multipart.Headers) (acc : Bytes) :
    (if (!(Pre.lower k == ['c', 'o', 'n', 't', 'e', 'n', 't', '-', 'd', 'i', 's', 'p', 'o', 's', 'i', 't', 'i', 'o', 'n'])) = true
      then acc ++ Pre.encodeUtf8 (k ++ [':', ' '] ++ v ++ [Char.ofNat 13, Char.ofNat 10]) else acc) ++
      headerLines hs = acc ++ headerLines ((k, v) :: hs) := by
  have e : Pre.encodeUtf8 (k ++ [':', ' '] ++ v ++ [Char.ofNat 13, Char.ofNat 10]) =
      utf8Enc (k ++ ':' :: ' ' :: v) ++ Multipart.crlf := by
    show utf8Enc _ = _
    rw [utf8Enc_append, utf8Enc_crlf]
    simp
  rw [headerLines_cons, e, ← cdLit]
  show (if (!(Multipart.lowerAscii k == _)) = true then _ else _) ++ _ = _
  generalize "content-disposition".toList = c
  cases h : (Multipart.lowerAscii k == c) <;> simp [h, bne]

/-- the bytes literal `b'Content-Disposition: form-data; name="'` of the Python source is the model's
string constant -/
theorem str_cdName : Multipart.str "Content-Disposition: form-data; name=\"" =
    [67, 111, 110, 116, 101, 110, 116, 45, 68, 105, 115, 112, 111, 115, 105, 116, 105, 111, 110, 58, 32,
     102, 111, 114, 109, 45, 100, 97, 116, 97, 59, 32, 110, 97, 109, 101, 61, 34] := by
  decide +kernel

/-- the bytes literal `b'; filename="'` of the Python source is the model's string constant -/
theorem str_filename : Multipart.str "; filename=\"" =
    [59, 32, 102, 105, 108, 101, 110, 97, 109, 101, 61, 34] := by
  decide +kernel

/-- the model on a named Field event, written out: in the states PREAMBLE, PART, DATA the boundary
line, the Content-Disposition line, the extra header lines, and the new state DATA_START; in every
other state ValueError -/
theorem sendEvent_field_some (bnd : Bytes) (st : Multipart.State) (n : List Char)
    (hs : Multipart.Headers) :
    Multipart.sendEvent bnd st (.field (some n) hs) =
      if st == .preamble || st == .part || st == .data then
        .ok (Multipart.crlf ++ 45 :: 45 :: bnd ++ Multipart.crlf ++
          Multipart.str "Content-Disposition: form-data; name=\"" ++ utf8Enc n ++ [34] ++
          Multipart.crlf ++ headerLines hs, .dataStart)
      else .error "ValueError" := rfl

/-- the model on a named File event, written out: as for a Field, with `; filename="…"` after the
name -/
theorem sendEvent_file_some (bnd : Bytes) (st : Multipart.State) (n f : List Char)
    (hs : Multipart.Headers) :
    Multipart.sendEvent bnd st (.file (some n) f hs) =
      if st == .preamble || st == .part || st == .data then
        .ok (Multipart.crlf ++ 45 :: 45 :: bnd ++ Multipart.crlf ++
          Multipart.str "Content-Disposition: form-data; name=\"" ++ utf8Enc n ++ [34] ++
          Multipart.str "; filename=\"" ++ utf8Enc f ++ [34] ++ Multipart.crlf ++
          headerLines hs, .dataStart)
      else .error "ValueError" := rfl

/-- The model on a Field event without a name (`Field(name=None)`, outside the declared type) in a
state that does not allow a part: the state test comes first, the call raises ValueError, not
AttributeError. -/
theorem noname_wrong_state (bnd : Bytes) (hs : Multipart.Headers) (f : List Char) :
    Multipart.sendEvent bnd .dataStart (.field none hs) = .error "ValueError" ∧
    Multipart.sendEvent bnd .dataStart (.file none f hs) = .error "ValueError" ∧
    Multipart.sendEvent bnd .part (.field none hs) = .error "AttributeError" ∧
    Multipart.sendEvent bnd .part (.file none f hs) = .error "AttributeError" :=
  ⟨rfl, rfl, rfl, rfl⟩

/-- a part that satisfies `ValidPart` (the hypothesis of `decode_encode`) has a name -/
theorem validPart_named {nl : Multipart.Nl} {bnd : Bytes} {p : Multipart.Part}
    (h : Multipart.ValidPart nl bnd p) : ∃ n, p.name = some n := by
  unfold Multipart.ValidPart at h
  cases hn : p.name with
  | none => rw [hn] at h; exact h.elim
  | some n => exact ⟨n, rfl⟩

/-- the Field / File event sent for a valid part carries a name: it is one of the events the
translated `send_event_field` / `send_event_file` are about -/
theorem partHeadEvent_named {nl : Multipart.Nl} {bnd : Bytes} {p : Multipart.Part}
    (h : Multipart.ValidPart nl bnd p) :
    ∃ n, Multipart.partHeadEvent p = .field (some n) p.headers ∨
      ∃ f, Multipart.partHeadEvent p = .file (some n) f p.headers := by
  rcases validPart_named h with ⟨n, hn⟩
  refine ⟨n, ?_⟩
  unfold Multipart.partHeadEvent
  rw [hn]
  cases p.filename with
  | none => exact .inl rfl
  | some f => exact .inr ⟨f, rfl⟩

/-! ## the reading of a model outcome -/

/-- A model outcome of `sendEvent bnd st ev` read as the outcome of the translated `send_event`
started in state `st`: on a normal return the new `self.state` and the returned bytes; on an
exception the exception, with `self.state` as it was. -/
def view (st : Multipart.State) :
    Except String (Bytes × Multipart.State) → Multipart.State × Except String Bytes
  | .ok (out, st') => (st', .ok out)
  | .error e => (st, .error e)

/-! ## the header loops -/

/-- The `for name, value in event.headers:` loop of `send_event` for a Field event never returns from
inside and leaves in `data` what it started with followed by one `name: value\r\n` line (UTF-8) for
every header whose lower-cased name is not `content-disposition`, in order: the model's
`filter` / `map` / `flatten`. -/
theorem field_loop_eq (st : Multipart.State) (hs : List (Pre.Str × Pre.Str)) (acc : Bytes) :
    send_event_field.loop1 st hs acc = .fall (acc ++ headerLines hs) := by
  induction hs generalizing acc with
  | nil => simp [send_event_field.loop1, headerLines_nil]
  | cons x t ih =>
    obtain ⟨k, v⟩ := x
    simp only [send_event_field.loop1, ih, headerLines_step]

/-- the same for the header loop of a File event -/
theorem file_loop_eq (st : Multipart.State) (hs : List (Pre.Str × Pre.Str)) (acc : Bytes) :
    send_event_file.loop1 st hs acc = .fall (acc ++ headerLines hs) := by
  induction hs generalizing acc with
  | nil => simp [send_event_file.loop1, headerLines_nil]
  | cons x t ih =>
    obtain ⟨k, v⟩ := x
    simp only [send_event_file.loop1, ih, headerLines_step]

/-! ## the five event classes -/

/-- `send_event(Preamble(d))` as translated from the source is the model, in every state: in state
PREAMBLE it returns `d` and moves to PART, in every other state it raises ValueError and leaves the
state alone. -/
theorem send_event_preamble_eq (bnd d : Bytes) (st : Multipart.State) :
    send_event_preamble bnd st d = view st (Multipart.sendEvent bnd st (.preamble d)) := by
  cases st <;> simp [send_event_preamble, Multipart.sendEvent, view]

/-- `send_event(Field(name=n, headers=hs))` as translated from the source is the model at
`some n`, for every boundary, state, name and header list: same bytes (boundary line,
Content-Disposition line, the other headers), same new state, same ValueError in the states that do
not allow a part. -/
theorem send_event_field_eq (bnd : Bytes) (st : Multipart.State) (n : Pre.Str)
    (hs : List (Pre.Str × Pre.Str)) :
    send_event_field bnd st (n, hs) = view st (Multipart.sendEvent bnd st (.field (some n) hs)) := by
  rw [sendEvent_field_some, str_cdName]
  cases st <;> simp [send_event_field, field_loop_eq, view, Multipart.crlf, Pre.encodeUtf8]

/-- `send_event(File(name=n, filename=f, headers=hs))` as translated from the source is the model at
`some n`, for every boundary, state, name, file name and header list. -/
theorem send_event_file_eq (bnd : Bytes) (st : Multipart.State) (n f : Pre.Str)
    (hs : List (Pre.Str × Pre.Str)) :
    send_event_file bnd st (n, f, hs) = view st (Multipart.sendEvent bnd st (.file (some n) f hs)) := by
  rw [sendEvent_file_some, str_cdName, str_filename]
  cases st <;> simp [send_event_file, file_loop_eq, view, Multipart.crlf, Pre.encodeUtf8]

/-- `send_event(Data(data=d, more_data=more))` as translated from the source is the model, for every
state, chunk and flag: in DATA_START a non-empty chunk is written after CRLF and moves to DATA, an
empty chunk writes nothing and moves to DATA exactly when `more_data` is false; in DATA the chunk is
written as is; in every other state ValueError. -/
theorem send_event_data_eq (bnd : Bytes) (st : Multipart.State) (d : Bytes) (more : Bool) :
    send_event_data bnd st (d, more) = view st (Multipart.sendEvent bnd st (.data d more)) := by
  cases d <;> cases more <;> cases st <;>
    simp [send_event_data, Multipart.sendEvent, view, Multipart.crlf]

/-- `send_event(Epilogue(d))` as translated from the source is the model, in every state: the closing
delimiter `\r\n--boundary--\r\n`, then `d`, and the state COMPLETE. -/
theorem send_event_epilogue_eq (bnd : Bytes) (st : Multipart.State) (d : Bytes) :
    send_event_epilogue bnd st d = view st (Multipart.sendEvent bnd st (.epilogue d)) := by
  simp [send_event_epilogue, Multipart.sendEvent, view, Multipart.crlf]

/-! ## composition: any event, any event list -/

/-- `send_event(ev)` on the translated definitions: dispatch on the class of the event to the five
translated functions. A Field / File event whose name is `None` (outside the declared type, no
translated function) raises ValueError in a state that does not allow a part (the state test comes
first) and AttributeError (`None.encode`) otherwise; `NeedData` is not an event the encoder accepts. -/
def sendEventT (bnd : Bytes) (st : Multipart.State) :
    Multipart.Event → Multipart.State × Except String Bytes
  | .preamble d => send_event_preamble bnd st d
  | .field (some n) hs => send_event_field bnd st (n, hs)
  | .file (some n) f hs => send_event_file bnd st (n, f, hs)
  | .field none _ | .file none _ _ =>
    if st == .preamble || st == .part || st == .data then (st, .error "AttributeError")
    else (st, .error "ValueError")
  | .data d more => send_event_data bnd st (d, more)
  | .epilogue d => send_event_epilogue bnd st d
  | .needData => (st, .error "ValueError")

/-- For every boundary, state and event, the translated `send_event` is the model. -/
theorem sendEventT_eq (bnd : Bytes) (st : Multipart.State) (ev : Multipart.Event) :
    sendEventT bnd st ev = view st (Multipart.sendEvent bnd st ev) := by
  cases ev with
  | preamble d => exact send_event_preamble_eq bnd d st
  | field n hs =>
    cases n with
    | some n => exact send_event_field_eq bnd st n hs
    | none => cases st <;> simp [sendEventT, Multipart.sendEvent, view]
  | file n f hs =>
    cases n with
    | some n => exact send_event_file_eq bnd st n f hs
    | none => cases st <;> simp [sendEventT, Multipart.sendEvent, view]
  | data d more => exact send_event_data_eq bnd st d more
  | epilogue d => exact send_event_epilogue_eq bnd st d
  | needData => simp [sendEventT, Multipart.sendEvent, view]

/-- feed a list of events through the translated `send_event`, starting in state `st`: the
concatenated output, or the first exception -/
def encodeEventsT (bnd : Bytes) : Multipart.State → List Multipart.Event → Except String Bytes
  | _, [] => .ok []
  | st, ev :: t =>
    match sendEventT bnd st ev with
    | (_, .error e) => .error e
    | (st', .ok out) =>
      match encodeEventsT bnd st' t with
      | .error e => .error e
      | .ok rest => .ok (out ++ rest)

/-- Feeding any list of events through the translated `send_event`, from any state, gives what the
model's `encodeEvents` gives: the same bytes or the same first exception. -/
theorem encodeEventsT_eq (bnd : Bytes) (st : Multipart.State) (evs : List Multipart.Event) :
    encodeEventsT bnd st evs = Multipart.encodeEvents bnd st evs := by
  induction evs generalizing st with
  | nil => rfl
  | cons ev t ih =>
    unfold encodeEventsT Multipart.encodeEvents
    rw [sendEventT_eq]
    cases h : Multipart.sendEvent bnd st ev with
    | error e => rfl
    | ok r =>
      obtain ⟨out, st'⟩ := r
      simp only [view]
      rw [ih]
      cases Multipart.encodeEvents bnd st' t <;> rfl

/-! ## the C02 theorems on the translated definitions -/

/-- `Props.C02.encoder_writes_disposition` on the translated code: in state PART,
`send_event(Field(name=n, headers=hs))` as translated from the source returns the boundary line, then
`Content-Disposition: ` followed by the UTF-8 of `dispositionValue n none` (the text
`parse_options_header` is proved to read back as `n`), CRLF, and the lines of the other headers; and
it moves to DATA_START. -/
theorem encoder_writes_disposition_translated (bnd : Bytes) (n : List Char) (hs : Multipart.Headers) :
    send_event_field bnd .part (n, hs) =
      (.dataStart,
       .ok (Multipart.crlf ++ 45 :: 45 :: bnd ++ Multipart.crlf ++
            (Multipart.str "Content-Disposition: " ++ utf8Enc (FormOptions.dispositionValue n none)) ++
            Multipart.crlf ++
            ((hs.filter fun (k, _) => Multipart.lowerAscii k != "content-disposition".toList).map
              fun (k, v) => utf8Enc (k ++ ':' :: ' ' :: v) ++ Multipart.crlf).flatten)) := by
  rw [send_event_field_eq, Props.C02.encoder_writes_disposition]
  rfl

/-- `Props.C02.decode_encode` on the translated code: for every boundary without CR / LF and every
list of parts satisfying `ValidPart .crlf`, sending Preamble(b""), per part Field/File + Data, and
Epilogue(b"") through `send_event` *as translated from the source* succeeds, and decoding the bytes
with `MultipartDecoder` raises nothing and returns exactly the parts, in order, with byte-exact
payloads. -/
theorem decode_encode_translated {bnd : Bytes} (hb : Multipart.BoundaryOk bnd)
    (parts : List Multipart.Part) (hv : ∀ p ∈ parts, Multipart.ValidPart .crlf bnd p) :
    ∃ body,
      encodeEventsT bnd .preamble
        (.preamble [] :: (parts.flatMap Multipart.partEvents ++ [.epilogue []])) = .ok body ∧
      (Multipart.decodeChunks bnd none none [body]).err = none ∧
      Multipart.partsOf (Multipart.decodeChunks bnd none none [body]).events =
        parts.map Multipart.decodedPart := by
  rw [encodeEventsT_eq]
  exact Props.C02.decode_encode hb parts hv

end Wz.PyFnsEq.Encoder
