/-
PyFnsEq_Response — the response glue of C05 / C11 *as regenerated from werkzeug's source* by
`tools/py2lean.py` (`Gen/PyFns_Response.lean`, rewritten on every check run: `Response._clean_status`,
`Response.get_app_iter`, `Response._is_range_request_processable`, `Response._process_range_request`,
`Range.to_content_range_header`) is equal to the hand-written models of `Model/Response.lean` (C05)
and `Model/Conditional.lean` (C11) that the C05 / C11 theorems are about. A change of the Python
source changes the generated definitions and breaks these obligations.

Main theorems: `get_app_iter_eq`, `get_app_iter_model`, `is_range_request_processable_eq`,
`clean_status_int_eq`, `clean_status_str_eq_with` (all texts, modulo the `int()` model),
`clean_status_str_eq_of_agree`, `clean_status_str_eq`, `pyInt_agree`,
`range_to_content_range_header_eq`, `process_range_request_bool_eq`, `process_range_request_str_eq`.
Found on the way (`clean_status_str_ne_*`): the two hand models of `int()` differ, and each is wrong
against CPython on some status text.
-/
import WzVerif.Gen.PyFns_Response
import WzVerif.Gen.Response
import WzVerif.Model.Response
import WzVerif.Model.Conditional
import WzVerif.Model.Views
import WzVerif.Props.C11T
import WzVerif.Lemmas.PyFns_Http
import WzVerif.Lemmas.PyFns_HttpDict
import WzVerif.Lemmas.PyFnsEq_HttpDict
import WzVerif.Lemmas.HttpAge
import WzVerif.Lemmas.ViewsCodec
namespace Wz.PyFnsEq.Response
open Wz Wz.Pre Wz.Gen.PyFns_Response

/-! ### `get_app_iter` -/

/-- `Response.get_app_iter(environ)`, as translated from the current source of
`werkzeug/wrappers/response.py` (the test `REQUEST_METHOD == "HEAD" or 100 <= status < 200 or status in
(204, 304)`, then `direct_passthrough`), chooses the iterable exactly as the model's `bodyless` and the
branch order of `Resp.getAppIter` say: code 0 (`ClosingIterator((), self.close)` - no body) for a HEAD
request and for a 1xx / 204 / 304 response, otherwise code 1 (`self.response` itself) under
`direct_passthrough`, otherwise code 2 (`ClosingIterator(self.iter_encoded(), self.close)`); for every
method text, every status code (any int) and both values of `direct_passthrough`. -/
theorem get_app_iter_eq (method : List Char) (status : Int) (dp : Bool) :
    get_app_iter method status dp ()
      = if Resp.bodyless status method then 0 else if dp then 1 else 2 := by
  unfold get_app_iter Resp.bodyless
  have e : "HEAD".toList = ['H', 'E', 'A', 'D'] := rfl
  simp only [e, Bool.or_assoc, id_eq]

/-- `Response._is_range_request_processable(environ)`, as translated from the current source
(`("HTTP_IF_RANGE" not in environ or not is_resource_modified(…, ignore_if_range=False)) and
"HTTP_RANGE" in environ`), is the model's `rangeProcessable` once its three readings of the environ are
the model's: If-Range present, Range present, and `is_resource_modified` = the model's
`isResourceModified q etag last_modified false`; for every request and response. -/
theorem is_range_request_processable_eq (q : Cond.CondReq) (r : Cond.RespIn) :
    is_range_request_processable q.ifRange.isSome q.range.isSome
        (Cond.isResourceModified q r.etag (Cond.lmOf r) false) ()
      = Cond.rangeProcessable q r := by
  unfold is_range_request_processable Cond.rangeProcessable
  cases q.ifRange <;> rfl

/-! ### `_clean_status` -/

/-- `HTTP_STATUS_CODES.get(code)` read from the regenerated table `Gen.Response.statusCodes` (the same
lookup `Resp.codeLine` does): the `status_phrase` argument of the translated `_clean_status` -/
def phraseOf (i : Int) : Option Pre.Str :=
  if i < 0 then none else (Gen.Response.statusCodes.find? (fun e => e.1 == i.toNat)).map (·.2.toList)

/-- `Response._clean_status(value)` for an `int` (or `HTTPStatus`), as translated from the current
source of `werkzeug/sansio/response.py` (`int(value)`, `HTTP_STATUS_CODES[status_code].upper()` with
`except KeyError` giving `UNKNOWN`), never raises and returns exactly the model's
`cleanStatus (.code i)` - the line `"<code> <PHRASE>"` with the phrase of the regenerated status table,
`"<code> UNKNOWN"` for a code the table lacks (negative ones included), and the code - for every int. -/
theorem clean_status_int_eq (i : Int) :
    clean_status_int phraseOf i = Resp.cleanStatus (.code i) := by
  unfold clean_status_int statusPhraseUpper phraseOf Resp.cleanStatus Resp.codeLine
  by_cases h : i < 0
  · simp [h, PyFnsHttp.strOfInt_eq, C16L.httpIntText_eq]
  · simp only [h, if_false, id]
    cases Gen.Response.statusCodes.find? (fun e => e.1 == i.toNat) with
    | none => simp [PyFnsHttp.strOfInt_eq, C16L.httpIntText_eq]
    | some e => simp [PyFnsHttp.strOfInt_eq, C16L.httpIntText_eq, Pre.upper, Resp.upper]

/-! ### the two `int()` models -/

/-- the views model's `int()` answer as an `Except`: `none` is ValueError -/
def optInt (o : Option Int) : Except String Int :=
  match o with
  | some i => .ok i
  | none => .error "ValueError"

/-- the regenerated `isdecimal` table holds nothing but the ASCII digits below U+0100 -/
theorem decimal_tbl_only : ∀ n, n < 256 → Http.tbl Gen.Http.decimalTbl n = true → 48 ≤ n ∧ n ≤ 57 := by
  decide +kernel

/-- a decimal digit of C06's `int()` model is an ASCII digit (and conversely) -/
theorem isDecimalCh_eq_isDigit (c : Char) : Http.isDecimalCh c = c.isDigit := by
  cases h : c.isDigit with
  | true => exact Http.isDecimalCh_of_isDigit h
  | false =>
    cases h2 : Http.isDecimalCh c with
    | false => rfl
    | true =>
      simp only [Http.isDecimalCh, Bool.and_eq_true, decide_eq_true_eq] at h2
      have := decimal_tbl_only _ h2.1 h2.2
      have h3 : c.isDigit = true := by
        simp only [Char.isDigit, Bool.and_eq_true, decide_eq_true_eq]
        exact ⟨UInt32.le_iff_toNat_le.mpr this.1, UInt32.le_iff_toNat_le.mpr this.2⟩
      rw [h] at h3; exact h3.symm

/-- without underscores the digit-group scanner of C06's `int()` model accepts exactly a run of ASCII digits -/
theorem intBody_go_plain (t : Str) : ∀ acc : Str, '_' ∉ t →
    Http.intBody?.go t acc = if t.all Char.isDigit then some (acc.reverse ++ t) else none := by
  induction t with
  | nil => intro acc _; simp [Http.intBody?.go]
  | cons d r ih =>
    intro acc hu
    have hd : d ≠ '_' := fun e => hu (by simp [e])
    have hr : '_' ∉ r := fun e => hu (by simp [e])
    rw [Http.intBody?.go.eq_def]
    split
    · next heq => simp at heq
    · next d' t' heq => simp at heq; exact absurd heq.1 hd
    · next d' t' hno heq =>
      simp at heq
      obtain ⟨rfl, rfl⟩ := heq
      rw [isDecimalCh_eq_isDigit]
      cases hdg : d.isDigit <;> simp [hdg, ih _ hr]

/-- … and so does `intBody?`: non-empty, all ASCII digits, returned unchanged -/
theorem intBody_plain (d : Str) (hu : '_' ∉ d) :
    Http.intBody? d = if d.isEmpty || !d.all Char.isDigit then none else some d := by
  cases d with
  | nil => rfl
  | cons x t =>
    have hr : '_' ∉ t := fun e => hu (by simp [e])
    simp only [Http.intBody?, isDecimalCh_eq_isDigit, intBody_go_plain t [x] hr]
    cases hx : x.isDigit
    · simp [hx]
    · cases ht : t.all Char.isDigit <;> simp [hx, ht]

/-- no whitespace character, no underscore, ASCII only (CPython's `int()` also accepts the decimal
digits of other scripts, which the views model's `CC.pyInt` does not) -/
def PlainText (c : Str) : Prop := ∀ ch ∈ c, Py.isSpace ch = false ∧ ch ≠ '_' ∧ ch.toNat < 128

theorem signSplit2_other (x : Char) (d : Str) (h1 : x ≠ '-') (h2 : x ≠ '+') :
    Http.signSplit2 (x :: d) = (false, x :: d) := by
  unfold Http.signSplit2
  split
  · next r heq => simp at heq; exact absurd heq.1 h1
  · next r heq => simp at heq; exact absurd heq.1 h2
  · rfl

theorem ccPyInt_other (x : Char) (d : Str) (h1 : x ≠ '-') (h2 : x ≠ '+') :
    Views.CC.pyInt (x :: d) = (Views.CC.digitsVal (x :: d)).map (fun n => (n : Int)) := by
  unfold Views.CC.pyInt
  split
  · next r heq => simp at heq; exact absurd heq.1 h1
  · next r heq => simp at heq; exact absurd heq.1 h2
  · rfl

/-- The two hand models of `int(text)` - C06's `Http.pyInt` (what the translation calls: strips
whitespace, allows `_` between digits) and the views model's `CC.pyInt` (what `Resp.cleanStatus` calls:
sign and ASCII digits only) - agree on every text that contains no whitespace character and no
underscore and is ASCII: same value, or ValueError on both sides. -/
theorem pyInt_agree (c : Str) (h : PlainText c) : Http.pyInt c = optInt (Views.CC.pyInt c) := by
  have ht : Http.Tight c :=
    ⟨fun a ha => (h a (List.mem_of_head? ha)).1, fun a ha => (h a (List.mem_of_getLast? ha)).1⟩
  unfold Http.pyInt
  rw [Http.toAsciiDecimal_ascii c (fun a ha => (h a ha).2.2), Http.intStrip_tight ht]
  match c, h with
  | [], _ => rfl
  | x :: d, h =>
    have hd : '_' ∉ d := fun e => (h '_' (by simp [e])).2.1 rfl
    have hx : x ≠ '_' := (h x (by simp)).2.1
    by_cases h1 : x = '-'
    · subst h1
      simp only [Http.signSplit2, intBody_plain d hd, Views.CC.pyInt, Views.CC.digitsVal]
      cases hc : (d.isEmpty || !d.all Char.isDigit) <;> simp [optInt, Http.digitsVal]
    · by_cases h2 : x = '+'
      · subst h2
        simp only [Http.signSplit2, intBody_plain d hd, Views.CC.pyInt, Views.CC.digitsVal]
        cases hc : (d.isEmpty || !d.all Char.isDigit) <;> simp [optInt, Http.digitsVal]
      · have hxd : '_' ∉ x :: d := by simp [hd, Ne.symm hx]
        rw [signSplit2_other x d h1 h2, ccPyInt_other x d h1 h2]
        simp only [intBody_plain (x :: d) hxd, Views.CC.digitsVal]
        cases hc : ((x :: d).isEmpty || !(x :: d).all Char.isDigit) <;> simp [optInt, Http.digitsVal]

theorem plain_of_digitsVal (d : Str) (n : Nat) (h : Views.CC.digitsVal d = some n) : PlainText d := by
  unfold Views.CC.digitsVal at h
  by_cases hc : (d.isEmpty || !d.all Char.isDigit) = true
  · simp [hc] at h
  · simp only [Bool.or_eq_true, Bool.not_eq_true', not_or, Bool.not_eq_false] at hc
    intro ch hch
    have hdg : ch.isDigit = true := List.all_eq_true.mp hc.2 ch hch
    exact ⟨Http.isDigit_not_space hdg, Http.isDigit_ne hdg (by decide), Http.isDigit_lt128 hdg⟩

theorem plainText_cons (x : Char) (d : Str) (hx : Py.isSpace x = false ∧ x ≠ '_' ∧ x.toNat < 128) (hd : PlainText d) :
    PlainText (x :: d) := by
  intro ch hch
  rcases List.mem_cons.mp hch with rfl | h
  · exact hx
  · exact hd ch h

/-- a text the views model's `int()` accepts consists of a sign and ASCII digits: no whitespace, no `_` -/
theorem plain_of_ccPyInt (c : Str) (i : Int) (h : Views.CC.pyInt c = some i) : PlainText c := by
  unfold Views.CC.pyInt at h
  split at h
  · next d =>
    cases hv : Views.CC.digitsVal d with
    | none => simp [hv] at h
    | some n => exact plainText_cons _ _ (by decide) (plain_of_digitsVal d n hv)
  · next d =>
    cases hv : Views.CC.digitsVal d with
    | none => simp [hv] at h
    | some n => exact plainText_cons _ _ (by decide) (plain_of_digitsVal d n hv)
  · cases hv : Views.CC.digitsVal c with
    | none => simp [hv] at h
    | some n => exact plain_of_digitsVal c n hv

/-- the text `_clean_status` hands to `int()`: the stripped value up to its first space -/
def codeText (s : Str) : Str := (Py.strip s).takeWhile (· != ' ')

/-- the views model's `partition`, all three components -/
theorem partitionCh_eq (c : Char) (s : Str) :
    Views.partitionCh c s = (s.takeWhile (· != c), s.contains c, (s.dropWhile (· != c)).drop 1) :=
  PyFnsEq.HttpDict.http_partition_eq c s

/-- the model's `cleanStatus` on a text, with the `int()` model as a parameter -/
def cleanStatusWith (int : Str → Except String Int) (s : Str) : Except String (Str × Int) :=
  let v := Views.strip s
  if v.isEmpty then .error "ValueError"
  else
    let p := Views.partitionCh ' ' v
    match int p.1 with
    | .error _ => .ok ("0 ".toList ++ v, 0)
    | .ok i => if p.2.1 then .ok (v, i) else .ok (Resp.codeLine i, i)

/-- `Resp.cleanStatus` on a text is `cleanStatusWith` at C06's `int()` model (since the repair of the
C05 model, which used the narrower `CC.pyInt` before) -/
theorem cleanStatusWith_model (s : Str) :
    cleanStatusWith Http.pyInt s = Resp.cleanStatus (.text s) := by
  unfold cleanStatusWith Resp.cleanStatus
  rfl

/-- `Response._clean_status(value)` for a `str`, as translated from the current source (`strip`, the
empty test with its ValueError, `partition(" ")`, `int(code_str)` with `except ValueError` giving
`("0 " + value, 0)`, `if sep`, the table lookup with `except KeyError`), is - **for every text** - the
model's `cleanStatus` with C06's `int()` model `Http.pyInt` in the place of the views model's
`CC.pyInt`: stripping, the split at the first space, the three result shapes and the status-line text
all coincide; the only thing that differs between translation and model is which hand model of `int()`
reads the code text. -/
theorem clean_status_str_eq_with (s : Str) :
    clean_status_str phraseOf s = cleanStatusWith Http.pyInt s := by
  unfold clean_status_str cleanStatusWith
  simp only [Pre.strip, Views.strip, PyFnsEq.HttpDict.partition_singleton, partitionCh_eq, intOfStr]
  by_cases he : (Py.strip s).isEmpty = true
  · simp [he]
  · simp only [he, Bool.false_eq_true, if_false]
    cases Http.pyInt ((Py.strip s).takeWhile (· != ' ')) with
    | error e => rfl
    | ok i =>
      have hi := clean_status_int_eq i
      unfold clean_status_int Resp.cleanStatus at hi
      simp only [id] at hi
      cases hc : (Py.strip s).contains ' ' with
      | true => simp
      | false => simp only []; exact hi

/-- `Response._clean_status(value)` for a `str`, as translated from the current source (`strip`, the
empty test with its ValueError, `partition(" ")`, `int(code_str)` with `except ValueError` giving
`("0 " + value, 0)`, `if sep`, the `HTTP_STATUS_CODES` lookup with `except KeyError`), equals the
model's `cleanStatus (.text s)` **for every text**: same ValueError for a blank value, same
`(status line, code)` otherwise. (`int()` is C06's hand model `Http.pyInt` on both sides.) -/
theorem clean_status_str_eq (s : Str) :
    clean_status_str phraseOf s = Resp.cleanStatus (.text s) := by
  rw [clean_status_str_eq_with, cleanStatusWith_model]

/-! Texts on which an earlier version of the C05 model (which read the code with the views model's
`CC.pyInt`: no `_` separators, no surrounding white space) differed from the translation and from the
real code (`Response(status=…)`, CPython 3.12); they are regression witnesses now. -/

/-- `int()`'s underscore grammar: `("200 OK", 200)` -/
theorem clean_status_str_underscore :
    clean_status_str phraseOf "2_00".toList = .ok ("200 OK".toList, 200) ∧
    Resp.cleanStatus (.text "2_00".toList) = .ok ("200 OK".toList, 200) := by decide

/-- `int()`'s white-space stripping: `("200\t OK", 200)` -/
theorem clean_status_str_tab :
    clean_status_str phraseOf "200\t OK".toList = .ok ("200\t OK".toList, 200) ∧
    Resp.cleanStatus (.text "200\t OK".toList) = .ok ("200\t OK".toList, 200) := by decide

/-- U+001F is white space for `str.strip()` but not for `int()`: `("0 200\x1f X", 0)` -/
theorem clean_status_str_unit_separator :
    clean_status_str phraseOf "200\x1f X".toList = .ok ("0 200\x1f X".toList, 0) ∧
    Resp.cleanStatus (.text "200\x1f X".toList) = .ok ("0 200\x1f X".toList, 0) := by decide

/-! ### ranges -/

/-- the text of `Content-Range: <units> a-(b-1)/l` as C06's model of `ContentRange.to_header` prints it -/
def crText (units : Str) (a b l : Int) : Str :=
  Http.contentRangeToHeader ⟨some units, some a, some b, some l⟩

/-- `Range.to_content_range_header(length)` for an int length, as translated from the current source of
`werkzeug/datastructures/range.py` (`self.range_for_length(length)`, the f-string
`"{units} {range[0]}-{range[1] - 1}/{length}"`), never raises (the `IndexError` arm of
`range_for_length` is unreachable) and returns `None` exactly when the model's `rangeForLength` does,
else the text C06's model of `ContentRange.to_header` prints for `(units, start, stop, length)`
(`crText`, spelled out by `crText_eq`); for every unit text, every range list and every length. -/
theorem range_to_content_range_header_eq (units : Str) (ranges : List (Int × Option Int)) (l : Int) :
    range_to_content_range_header units ranges l
      = .ok ((Cond.rangeForLength ⟨units, ranges⟩ (some l)).map fun p => crText units p.1 p.2 l) := by
  unfold range_to_content_range_header
  simp only [Props.C11T.range_for_length_eq]
  cases Cond.rangeForLength ⟨units, ranges⟩ (some l) with
  | none => rfl
  | some p => simp [crText, Http.contentRangeToHeader, Http.lenText, PyFnsHttp.strOfInt_eq]

/-- `range_for_length` only answers for the unit `bytes` -/
theorem rangeForLength_units (pr : Cond.Range) (l : Option Int) (p : Int × Int)
    (h : Cond.rangeForLength pr l = some p) : pr.units = Cond.bytesUnit := by
  unfold Cond.rangeForLength at h
  split at h
  · by_cases hu : pr.units = Cond.bytesUnit
    · exact hu
    · simp [hu] at h
  · simp at h

abbrev OutState := (Option Int) × (Option Pre.Str) × (Option Pre.Str) × (Option Int) × (Option (Int × Int))

/-- what `_process_range_request` does for each outcome of the model -/
def rangeResult (st : OutState) (acceptText : Str) (l : Int) : Cond.RangeOutcome → OutState × Except String Bool
  | .notRange => (st, .ok false)
  | .unsatisfiable => (st, .error "RequestedRangeNotSatisfiable")
  | .partialContent a b =>
    ((some (b - a), some acceptText, some (crText Cond.bytesUnit a b l), some 206, some (a, b - a)), .ok true)

/-- `Response._process_range_request(environ, complete_length, accept_ranges)` for `accept_ranges: bool`,
as translated from the current source of `werkzeug/wrappers/response.py` (the four-way guard,
`accept_ranges = "bytes"`, `parse_range_header(environ.get("HTTP_RANGE"))`, `range_for_length`,
`to_content_range_header`, the two `raise RequestedRangeNotSatisfiable`, the five writes to the
response), does exactly what the model's `processRangeRequest` decides, for every request / response
pair, every previous value of the five recorded attributes, every `complete_length` (or `None`) and
both values of `accept_ranges` (`rangeResult`):
* model `.notRange`: returns `False`, nothing written;
* model `.unsatisfiable`: raises `RequestedRangeNotSatisfiable`, nothing written;
* model `.partialContent a b`: returns `True` after `Content-Length = b - a`, `Accept-Ranges = "bytes"`,
  `Content-Range = "bytes a-(b-1)/complete_length"`, `status_code = 206` and
  `_wrap_range_response(a, b - a)`.
Nothing else is raised: the `ValueError` arm of `parse_range_header` and the `IndexError` arms of the
two `Range` methods are unreachable (C11T). `processable` is the model's `rangeProcessable`
(`is_range_request_processable_eq`), `HTTP_RANGE` the request's Range header. -/
theorem process_range_request_bool_eq (q : Cond.CondReq) (r : Cond.RespIn)
    (cl0 : Option Int) (ar0 cr0 : Option Str) (st0 : Option Int) (w0 : Option (Int × Int))
    (completeLength : Option Int) (acceptRanges : Bool) :
    process_range_request_bool (Cond.rangeProcessable q r) q.range cl0 ar0 cr0 st0 w0 () completeLength acceptRanges
      = rangeResult (cl0, ar0, cr0, st0, w0) Cond.bytesUnit (completeLength.getD 0)
          (Cond.processRangeRequest q r completeLength acceptRanges) := by
  unfold process_range_request_bool Cond.processRangeRequest
  cases completeLength with
  | none => rfl
  | some l =>
    simp only [Props.C11T.parse_range_header_eq, Props.C11T.range_for_length_eq,
      range_to_content_range_header_eq, Option.getD_some]
    by_cases hg : (!acceptRanges || l == 0 || !Cond.rangeProcessable q r) = true
    · simp [hg, rangeResult]
    · simp only [hg, Bool.false_eq_true, if_false]
      cases hp : Cond.parseRangeHeader q.range with
      | none => simp [rangeResult]
      | some pr =>
        obtain ⟨u, rs⟩ := pr
        cases hr : Cond.rangeForLength ⟨u, rs⟩ (some l) with
        | none => simp [hr, rangeResult]
        | some p =>
          have hu : u = Cond.bytesUnit := rangeForLength_units ⟨u, rs⟩ _ p hr
          subst hu
          obtain ⟨a, b⟩ := p
          simp only [hr, Option.map_some]
          simp [rangeResult, Cond.bytesUnit]

/-- The same for `accept_ranges: str` (a unit text such as `"bytes"` or `"none"`): the model is asked
with `acceptRanges := the text is non-empty`, and on success `Accept-Ranges` is the given text -
only *advertised*: the Range header is still read as byte ranges and `Content-Range` still says
`bytes` (the model's `AcceptArg.header` / `makeConditionalFull`). -/
theorem process_range_request_str_eq (q : Cond.CondReq) (r : Cond.RespIn)
    (cl0 : Option Int) (ar0 cr0 : Option Str) (st0 : Option Int) (w0 : Option (Int × Int))
    (completeLength : Option Int) (acceptText : Str) :
    process_range_request_str (Cond.rangeProcessable q r) q.range cl0 ar0 cr0 st0 w0 () completeLength acceptText
      = rangeResult (cl0, ar0, cr0, st0, w0) acceptText (completeLength.getD 0)
          (Cond.processRangeRequest q r completeLength (!acceptText.isEmpty)) := by
  unfold process_range_request_str Cond.processRangeRequest
  cases completeLength with
  | none => rfl
  | some l =>
    simp only [Props.C11T.parse_range_header_eq, Props.C11T.range_for_length_eq,
      range_to_content_range_header_eq, Option.getD_some, Bool.not_not]
    by_cases hg : (acceptText.isEmpty || l == 0 || !Cond.rangeProcessable q r) = true
    · simp [hg, rangeResult]
    · simp only [hg, Bool.false_eq_true, if_false]
      cases hp : Cond.parseRangeHeader q.range with
      | none => simp [rangeResult]
      | some pr =>
        obtain ⟨u, rs⟩ := pr
        cases hr : Cond.rangeForLength ⟨u, rs⟩ (some l) with
        | none => simp [hr, rangeResult]
        | some p =>
          have hu : u = Cond.bytesUnit := rangeForLength_units ⟨u, rs⟩ _ p hr
          subst hu
          obtain ⟨a, b⟩ := p
          simp only [hr, Option.map_some]
          simp [rangeResult]

/-- `False` is returned exactly when the model says `.notRange` -/
theorem rangeResult_false_iff (st : OutState) (t : Str) (l : Int) (o : Cond.RangeOutcome) :
    (rangeResult st t l o).2 = .ok false ↔ o = .notRange := by
  cases o <;> simp [rangeResult]

/-- `True` is returned exactly when the model says `.partialContent` -/
theorem rangeResult_true_iff (st : OutState) (t : Str) (l : Int) (o : Cond.RangeOutcome) :
    (rangeResult st t l o).2 = .ok true ↔ ∃ a b, o = .partialContent a b := by
  cases o <;> simp [rangeResult]

/-- an exception is raised exactly when the model says `.unsatisfiable`, and it is
`RequestedRangeNotSatisfiable` -/
theorem rangeResult_error_iff (st : OutState) (t : Str) (l : Int) (o : Cond.RangeOutcome) (e : String) :
    (rangeResult st t l o).2 = .error e ↔ (o = .unsatisfiable ∧ e = "RequestedRangeNotSatisfiable") := by
  cases o <;> simp [rangeResult, eq_comm]

/-- nothing is written to the response unless the model says `.partialContent` -/
theorem rangeResult_state (st : OutState) (t : Str) (l : Int) (o : Cond.RangeOutcome)
    (h : ∀ a b, o ≠ .partialContent a b) : (rangeResult st t l o).1 = st := by
  cases o with
  | partialContent a b => exact absurd rfl (h a b)
  | _ => rfl

/-- the Content-Range text spelled out with the prelude's `str(int)`:
`f"{units} {a}-{b - 1}/{l}"` -/
theorem crText_eq (units : Str) (a b l : Int) :
    crText units a b l
      = units ++ [' '] ++ Pre.strOfInt a ++ ['-'] ++ Pre.strOfInt (b - 1) ++ ['/'] ++ Pre.strOfInt l := by
  simp [crText, Http.contentRangeToHeader, Http.lenText, PyFnsHttp.strOfInt_eq]

/-- The code of the translated `get_app_iter` against the model's `Resp.getAppIter` (chunks the server
receives, close actions of the iterable): the code is 0, 1 or 2; with code 0 the server gets no chunk
and closing runs `Response.close`; with code 1 or 2 it gets the encoded body items; with code 2
closing runs `Response.close`; with code 1 (the bare `self.response`) closing runs only the wrapped
iterable's own `close` - `Response.close` minus the `call_on_close` callbacks. -/
theorem get_app_iter_model (r : Resp.R) (method : Str) :
    let code := get_app_iter method r.status r.directPassthrough ()
    (code = 0 ∨ code = 1 ∨ code = 2) ∧
    (code = 0 → Resp.getAppIter r method = ⟨[], Resp.respClose r⟩) ∧
    (code ≠ 0 → (Resp.getAppIter r method).chunks = r.body.items.map Resp.Item.encode) ∧
    (code = 1 → Resp.respClose r = (Resp.getAppIter r method).closeActs ++ r.onClose) ∧
    (code = 2 → (Resp.getAppIter r method).closeActs = Resp.respClose r) := by
  simp only [get_app_iter_eq]
  unfold Resp.getAppIter Resp.respClose
  cases Resp.bodyless r.status method <;> cases r.directPassthrough <;> simp

end Wz.PyFnsEq.Response
