/-
PyFnsEq_ProxyFix — `ProxyFix._get_real_value` and `ProxyFix.__call__` (up to the call of the wrapped
app) of `werkzeug/middleware/proxy_fix.py` *as regenerated from werkzeug's source* by
`tools/py2lean.py` (`Gen/PyFns_ProxyFix.lean`: `proxy_get_real_value`, `proxy_fix_environ`) are equal,
for all inputs, to `Url.realValue` / `Url.proxyFix` of `Model/UrlProxyFix.lean`, the hand-written model
the C15 ProxyFix theorems are about. The generated definitions are rewritten on every check run; a
change of the Python source changes them and breaks these obligations.

The translated `__call__` works on the WSGI environ as a dict of texts (`List (Str × Str)`, read with
`Pre.dictGet?`, written with `Pre.dictSet`); the model works on a record of the seven environ entries
it cares about (`Url.PFEnviron`) and receives the `X-Forwarded-*` headers already parsed
(`Url.PFHeaders`). `readEnv` / `hdrsOf` read that record / those headers off a dict.

Main theorems:
* `proxy_get_real_value_eq` (`trusted ≥ 0`: the model's `realValue`, never raises),
  `proxy_get_real_value_neg` (`trusted < 0`: outside the model; counts from the FRONT, may raise
  IndexError);
* `proxy_fix_environ_run` (the translated function never raises and returns `fixDict c d`, a dict-level
  restatement of the five stages), `readEnv_fixDict` (`readEnv` of it is the model's `proxyFix`),
  `fixDict_frame` (every key other than the six written ones reads as before),
  `fixDict_nodup`, `fixDict_keeps` (keys stay unique, no key is removed);
* `proxy_fix_environ_eq` (all of the above in one statement). No hypothesis on the dict is needed
  (not even unique keys), none on the trust counts: no discrepancy between translation and model.
* C15 restated on the translated function: `proxy_fix_environ_preserves_path_info`,
  `proxy_fix_environ_prefix_replaces_script_name`, `proxy_fix_environ_scheme`.
-/
import WzVerif.Gen.PyFns_ProxyFix
import WzVerif.Model.UrlProxyFix
import WzVerif.Props.C06T
import WzVerif.Lemmas.PyFns_Prelude
import WzVerif.Lemmas.PyFnsEq_MwHelpers
import WzVerif.Lemmas.UrlProxyFix
import WzVerif.Lemmas.UrlSplit
namespace Wz.PyFnsEq.ProxyFix
open Wz Wz.Pre

/-! ## helper lemmas (no generated definition is mentioned in this part) -/

section dict
variable {κ ν : Type} [BEq κ] [LawfulBEq κ]

omit [LawfulBEq κ] in
/-- `d.get(k)` on a non-empty list of pairs: the first pair decides -/
theorem dictGet?_cons (p : κ × ν) (t : List (κ × ν)) (k : κ) :
    dictGet? (p :: t) k = if p.1 == k then some p.2 else dictGet? t k := by
  unfold dictGet?
  rw [List.find?_cons]
  cases p.1 == k <;> rfl

omit [LawfulBEq κ] in
/-- `k in d` on a non-empty list of pairs -/
theorem dictHas_cons (p : κ × ν) (t : List (κ × ν)) (k : κ) :
    dictHas (p :: t) k = (p.1 == k || dictHas t k) := rfl

/-- reading after the in-place replacement `dictSet` does when the key is present -/
theorem dictGet?_map_set (d : List (κ × ν)) (k k' : κ) (v : ν) :
    dictGet? (d.map fun p => if p.1 == k then (p.1, v) else p) k' =
      if k' == k then (if dictHas d k then some v else none) else dictGet? d k' := by
  induction d with
  | nil => simp [dictGet?, dictHas]
  | cons p t ih =>
    rw [List.map_cons, dictGet?_cons, dictGet?_cons, dictHas_cons, ih]
    by_cases hp : p.1 = k
    · by_cases hk : k' = k
      · subst hp; subst hk; simp
      · subst hp
        have hk2 : (p.1 == k') = false := by simpa using fun h => hk h.symm
        simp [hk, hk2]
    · have hp' : (p.1 == k) = false := by simpa using hp
      simp only [hp', Bool.false_eq_true, if_false, Bool.false_or]
      by_cases hk : k' = k
      · subst hk; simp [hp']
      · simp [hk]

/-- **`d[k] = v; d.get(k')`**: the new value for `k' == k`, the old `d.get(k')` otherwise. Holds for
every list of pairs - unique keys are not needed (`get` finds the first pair, `d[k] = v` rewrites all
pairs with the key). -/
theorem dictGet?_dictSet (d : List (κ × ν)) (k k' : κ) (v : ν) :
    dictGet? (dictSet d k v) k' = if k' == k then some v else dictGet? d k' := by
  unfold dictSet
  by_cases h : dictHas d k = true
  · simp only [h, if_true, dictGet?_map_set]
  · have h' : dictHas d k = false := by simpa using h
    simp only [h', Bool.false_eq_true, if_false]
    induction d with
    | nil =>
      rw [List.nil_append, dictGet?_cons]
      by_cases hk : k' = k
      · subst hk; simp
      · have hk2 : (k == k') = false := by simpa using fun h => hk h.symm
        simp [hk, hk2, dictGet?]
    | cons p t ih =>
      rw [dictHas_cons, Bool.or_eq_false_iff] at h'
      rw [List.cons_append, dictGet?_cons, dictGet?_cons, ih (by simp [h'.2]) h'.2]
      by_cases hk : k' = k
      · subst hk; simp [h'.1]
      · simp [hk]

/-- `d[k] = v; d.get(k')` for another key `k'` -/
theorem dictGet?_dictSet_ne (d : List (κ × ν)) (k k' : κ) (v : ν) (h : k' ≠ k) :
    dictGet? (dictSet d k v) k' = dictGet? d k' := by
  rw [dictGet?_dictSet]; simp [h]

/-- `d[k] = v` removes no key: what `d.get(k')` found before, it still finds something -/
theorem dictGet?_dictSet_isSome (d : List (κ × ν)) (k k' : κ) (v : ν)
    (h : (dictGet? d k').isSome = true) : (dictGet? (dictSet d k v) k').isSome = true := by
  rw [dictGet?_dictSet]
  split
  · rfl
  · exact h

omit [LawfulBEq κ] in
/-- the keys after `d[k] = v`: the same, or `k` appended -/
theorem dictSet_keys (d : List (κ × ν)) (k : κ) (v : ν) :
    (dictSet d k v).map (·.1) = if dictHas d k then d.map (·.1) else d.map (·.1) ++ [k] := by
  unfold dictSet
  cases h : dictHas d k
  · simp
  · simp only [if_true, List.map_map]
    apply List.map_congr_left
    intro p _
    simp only [Function.comp]
    split <;> rfl

/-- `d[k] = v` keeps the keys distinct -/
theorem nodup_dictSet (d : List (κ × ν)) (k : κ) (v : ν) (hn : (d.map (·.1)).Nodup) :
    ((dictSet d k v).map (·.1)).Nodup := by
  rw [dictSet_keys]
  cases h : dictHas d k
  · simp only [Bool.false_eq_true, if_false]
    rw [Middleware.dictHas_eq_contains] at h
    rw [List.nodup_append]
    refine ⟨hn, by simp, ?_⟩
    intro a ha b hb
    simp only [List.mem_singleton] at hb
    subst hb
    intro e; subst e
    simp at h
    simp at ha
    obtain ⟨x, hx⟩ := ha
    exact h _ hx
  · simpa using hn

end dict

section text
open Wz.Url

/-- `xs[-n]` for `0 < n ≤ len(xs)` does not raise and is the item `len(xs) - n` -/
theorem getItem_neg_nat {α : Type} (l : List α) (n : Nat) (h0 : 0 < n) (hn : n ≤ l.length) :
    ∃ x, l[l.length - n]? = some x ∧ Pre.getItem l (-(n : Int)) = .ok x := by
  have hlt : l.length - n < l.length := by omega
  refine ⟨l[l.length - n], List.getElem?_eq_getElem hlt, ?_⟩
  unfold Pre.getItem
  have h1 : (-(n : Int)) < 0 := by omega
  have h2 : ¬ (-(n : Int) + (l.length : Int) < 0) := by omega
  have h3 : (-(n : Int) + (l.length : Int)).toNat = l.length - n := by omega
  simp only [h1, if_true, h2, if_false, h3, List.getElem?_eq_getElem hlt]

/-- `xs[n]` for `n ≥ 0`: the item, or IndexError -/
theorem getItem_nat {α : Type} (l : List α) (n : Nat) :
    Pre.getItem l (n : Int) = match l[n]? with | some x => .ok x | none => .error "IndexError" := by
  unfold Pre.getItem
  have h1 : ¬ ((n : Int) < 0) := by omega
  simp only [h1, if_false, Int.toNat_natCast]
  cases l[n]? <;> rfl

/-- `s.endswith("]")` is the model's `endsBracket` -/
theorem endswith_bracket (s : Pre.Str) : Pre.endswith s [']'] = endsBracket s := by
  unfold Pre.endswith endsBracket
  rw [List.isSuffixOf, List.getLast?_eq_head?_reverse]
  cases s.reverse with
  | nil => rfl
  | cons x t =>
    simp only [List.reverse_cons, List.reverse_nil, List.nil_append, isPrefixOf_singleton, List.head?_cons]
    by_cases h : x = ']'
    · subst h; rfl
    · have h1 : ((']' : Char) == x) = false := by simpa using fun e => h e.symm
      rw [h1]
      symm
      simpa using h

/-- `":" in s and not s.endswith("]")` is the model's `hasPort` -/
theorem hasPort_eq (s : Pre.Str) : (Pre.contains s [':'] && !Pre.endswith s [']']) = hasPort s := by
  rw [contains_singleton, endswith_bracket]; rfl

/-- the model's `hasPort` implies `":" in s` -/
theorem hasPort_mem (s : Pre.Str) (h : hasPort s = true) : ':' ∈ s := by
  unfold hasPort at h
  simp only [Bool.and_eq_true] at h
  simpa using h.1

/-- a text containing `c` splits at the last `c` -/
theorem split_at_last (c : Char) (s : Pre.Str) (h : c ∈ s) : ∃ a b, s = a ++ c :: b ∧ c ∉ b := by
  rcases split_at_first c s.reverse with ⟨h1, _, _⟩ | ⟨pre, post, h1, h2, _, _⟩
  · exact absurd (by simpa using h) h1
  · refine ⟨post.reverse, pre.reverse, ?_, by simpa using h2⟩
    have := congrArg List.reverse h1
    simpa using this

/-- `a, b = s.rsplit(":", 1)` under `":" in s` does not raise and is the model's `rpartitionChar` -/
theorem rsplitOnce_colon (s : Pre.Str) (h : ':' ∈ s) :
    Pre.rsplitOnce s [':'] = .ok (((rpartitionChar ':' s).1).getD s, (rpartitionChar ':' s).2) := by
  obtain ⟨a, b, rfl, hb⟩ := split_at_last ':' s h
  unfold Pre.rsplitOnce
  rw [Middleware.rfindIdx?_singleton_append _ _ _ hb, rpartitionChar_append _ _ hb]
  simp

/-- `s.rsplit(":", 1)[0]` under `":" in s` does not raise and is the model's `rpartitionChar` -/
theorem rsplit1_colon_head (s : Pre.Str) (h : ':' ∈ s) :
    Pre.getItem (Pre.rsplit1 s [':']) 0 = .ok (((rpartitionChar ':' s).1).getD s) := by
  obtain ⟨a, b, rfl, hb⟩ := split_at_last ':' s h
  unfold Pre.rsplit1
  rw [Middleware.rfindIdx?_singleton_append _ _ _ hb, rpartitionChar_append _ _ hb]
  simp [getItem_zero_cons]

end text

/-! ## the environ as a dict: keys, the record the model works on, the dict-level stages -/

/-- the WSGI environ as the translated code sees it: a dict of texts -/
abbrev Env := List (Str × Str)

abbrev kRemoteAddr : Str := ['R', 'E', 'M', 'O', 'T', 'E', '_', 'A', 'D', 'D', 'R']
abbrev kScheme : Str := ['w', 's', 'g', 'i', '.', 'u', 'r', 'l', '_', 's', 'c', 'h', 'e', 'm', 'e']
abbrev kHost : Str := ['H', 'T', 'T', 'P', '_', 'H', 'O', 'S', 'T']
abbrev kServerName : Str := ['S', 'E', 'R', 'V', 'E', 'R', '_', 'N', 'A', 'M', 'E']
abbrev kServerPort : Str := ['S', 'E', 'R', 'V', 'E', 'R', '_', 'P', 'O', 'R', 'T']
abbrev kScriptName : Str := ['S', 'C', 'R', 'I', 'P', 'T', '_', 'N', 'A', 'M', 'E']
abbrev kPathInfo : Str := ['P', 'A', 'T', 'H', '_', 'I', 'N', 'F', 'O']
abbrev kXFor : Str :=
  ['H', 'T', 'T', 'P', '_', 'X', '_', 'F', 'O', 'R', 'W', 'A', 'R', 'D', 'E', 'D', '_', 'F', 'O', 'R']
abbrev kXProto : Str :=
  ['H', 'T', 'T', 'P', '_', 'X', '_', 'F', 'O', 'R', 'W', 'A', 'R', 'D', 'E', 'D', '_', 'P', 'R', 'O', 'T', 'O']
abbrev kXHost : Str :=
  ['H', 'T', 'T', 'P', '_', 'X', '_', 'F', 'O', 'R', 'W', 'A', 'R', 'D', 'E', 'D', '_', 'H', 'O', 'S', 'T']
abbrev kXPort : Str :=
  ['H', 'T', 'T', 'P', '_', 'X', '_', 'F', 'O', 'R', 'W', 'A', 'R', 'D', 'E', 'D', '_', 'P', 'O', 'R', 'T']
abbrev kXPrefix : Str :=
  ['H', 'T', 'T', 'P', '_', 'X', '_', 'F', 'O', 'R', 'W', 'A', 'R', 'D', 'E', 'D', '_', 'P', 'R', 'E', 'F', 'I', 'X']

/-- the key constants are the environ keys of the Python source -/
theorem keys_spelled :
    kRemoteAddr = "REMOTE_ADDR".toList ∧ kScheme = "wsgi.url_scheme".toList ∧ kHost = "HTTP_HOST".toList ∧
    kServerName = "SERVER_NAME".toList ∧ kServerPort = "SERVER_PORT".toList ∧
    kScriptName = "SCRIPT_NAME".toList ∧ kPathInfo = "PATH_INFO".toList ∧
    kXFor = "HTTP_X_FORWARDED_FOR".toList ∧ kXProto = "HTTP_X_FORWARDED_PROTO".toList ∧
    kXHost = "HTTP_X_FORWARDED_HOST".toList ∧ kXPort = "HTTP_X_FORWARDED_PORT".toList ∧
    kXPrefix = "HTTP_X_FORWARDED_PREFIX".toList := by decide

/-- the six environ keys `ProxyFix.__call__` assigns -/
def writtenKeys : List Str := [kRemoteAddr, kScheme, kHost, kServerName, kServerPort, kScriptName]

/-- PATH_INFO and the five `X-Forwarded-*` header keys are not among the written keys -/
theorem unwritten :
    kPathInfo ∉ writtenKeys ∧ kXFor ∉ writtenKeys ∧ kXProto ∉ writtenKeys ∧ kXHost ∉ writtenKeys ∧
    kXPort ∉ writtenKeys ∧ kXPrefix ∉ writtenKeys := by decide

/-- what a field of the model's `PFHeaders` stands for: `parse_list_header(environ.get(key))`, `none`
for an absent or empty header -/
def hdr (value : Option Str) : Option (List Str) :=
  match value with
  | none => none
  | some v => if v.isEmpty then none else some (Http.parseListHeader v)

/-- the model's record of an environ dict (absent non-optional entries read as the empty text) -/
def readEnv (d : Env) : Url.PFEnviron where
  remoteAddr := dictGet? d kRemoteAddr
  urlScheme := (dictGet? d kScheme).getD []
  httpHost := dictGet? d kHost
  serverName := (dictGet? d kServerName).getD []
  serverPort := (dictGet? d kServerPort).getD []
  scriptName := (dictGet? d kScriptName).getD []
  pathInfo := (dictGet? d kPathInfo).getD []

/-- the model's parsed `X-Forwarded-*` headers of an environ dict -/
def hdrsOf (d : Env) : Url.PFHeaders where
  xfor := hdr (dictGet? d kXFor)
  proto := hdr (dictGet? d kXProto)
  host := hdr (dictGet? d kXHost)
  port := hdr (dictGet? d kXPort)
  pfx := hdr (dictGet? d kXPrefix)

/-- `self._get_real_value(t, environ_get(key))` in the model's terms -/
def rv (t : Nat) (d : Env) (key : Str) : Option Str := Url.realValue t (hdr (dictGet? d key))

/-- `if o: environ[key] = o` -/
def setIf (d : Env) (key : Str) (o : Option Str) : Env :=
  match Url.truthyV o with
  | some v => dictSet d key v
  | none => d

/-- the `x_host` stage on the dict, given the real value `o` -/
def stHost (o : Option Str) (d : Env) : Env :=
  match Url.truthyV o with
  | some v =>
    if Url.hasPort v then
      dictSet (dictSet (dictSet (dictSet d kHost v) kServerName v) kServerName
        (((Url.rpartitionChar ':' v).1).getD v)) kServerPort (Url.rpartitionChar ':' v).2
    else dictSet (dictSet d kHost v) kServerName v
  | none => d

/-- the `x_port` stage on the dict, given the real value `o` -/
def stPort (o : Option Str) (d : Env) : Env :=
  match Url.truthyV o with
  | some v =>
    match Url.truthyV (dictGet? d kHost) with
    | some host => dictSet (dictSet d kHost (Url.stripPort host ++ ':' :: v)) kServerPort v
    | none => dictSet d kServerPort v
  | none => d

def sFor (c : Url.PFConfig) (d : Env) : Env := setIf d kRemoteAddr (rv c.xFor d kXFor)
def sProto (c : Url.PFConfig) (d : Env) : Env := setIf d kScheme (rv c.xProto d kXProto)
def sHost (c : Url.PFConfig) (d : Env) : Env := stHost (rv c.xHost d kXHost) d
def sPort (c : Url.PFConfig) (d : Env) : Env := stPort (rv c.xPort d kXPort) d
def sPrefix (c : Url.PFConfig) (d : Env) : Env := setIf d kScriptName (rv c.xPrefix d kXPrefix)

/-- the environ dict `ProxyFix.__call__` hands to the wrapped app (without the bookkeeping entry
`werkzeug.proxy_fix.orig`): the five stages in the order of the source, each reading its header from
the dict the previous stage left -/
def fixDict (c : Url.PFConfig) (d : Env) : Env := sPrefix c (sPort c (sHost c (sProto c (sFor c d))))

/-- `d'` reads like `d` on every key that is not one of the six written keys -/
def Frame (d' d : Env) : Prop := ∀ k, k ∉ writtenKeys → dictGet? d' k = dictGet? d k

/-- no key of `d` is missing in `d'` -/
def Keeps (d' d : Env) : Prop := ∀ k, (dictGet? d k).isSome = true → (dictGet? d' k).isSome = true

theorem Frame.trans {a b c : Env} (h1 : Frame a b) (h2 : Frame b c) : Frame a c :=
  fun k hk => (h1 k hk).trans (h2 k hk)

theorem Keeps.trans {a b c : Env} (h1 : Keeps a b) (h2 : Keeps b c) : Keeps a c :=
  fun k hk => h1 k (h2 k hk)

/-- a dict that agrees on the unwritten keys has the same `X-Forwarded-*` headers -/
theorem Frame.hdrsOf {d' d : Env} (h : Frame d' d) : hdrsOf d' = hdrsOf d := by
  obtain ⟨_, h1, h2, h3, h4, h5⟩ := unwritten
  unfold ProxyFix.hdrsOf
  rw [h _ h1, h _ h2, h _ h3, h _ h4, h _ h5]

theorem frame_dictSet (d : Env) (key v : Str) (hk : key ∈ writtenKeys) : Frame (dictSet d key v) d := by
  intro k hn
  apply dictGet?_dictSet_ne
  intro e
  exact hn (e ▸ hk)

theorem frame_setIf (d : Env) (key : Str) (o : Option Str) (hk : key ∈ writtenKeys) :
    Frame (setIf d key o) d := by
  unfold setIf
  split
  · exact frame_dictSet _ _ _ hk
  · exact fun _ _ => rfl

theorem keeps_setIf (d : Env) (key : Str) (o : Option Str) : Keeps (setIf d key o) d := by
  unfold setIf
  split
  · exact fun k hk => dictGet?_dictSet_isSome _ _ _ _ hk
  · exact fun _ hk => hk

theorem nodup_setIf (d : Env) (key : Str) (o : Option Str) (hn : (d.map (·.1)).Nodup) :
    ((setIf d key o).map (·.1)).Nodup := by
  unfold setIf
  split
  · exact nodup_dictSet _ _ _ hn
  · exact hn

theorem frame_stHost (o : Option Str) (d : Env) : Frame (stHost o d) d := by
  unfold stHost
  split
  · split
    · exact (frame_dictSet _ _ _ (by decide)).trans ((frame_dictSet _ _ _ (by decide)).trans
        ((frame_dictSet _ _ _ (by decide)).trans (frame_dictSet _ _ _ (by decide))))
    · exact (frame_dictSet _ _ _ (by decide)).trans (frame_dictSet _ _ _ (by decide))
  · exact fun _ _ => rfl

theorem keeps_stHost (o : Option Str) (d : Env) : Keeps (stHost o d) d := by
  intro k hk
  unfold stHost
  split
  · split
    · exact dictGet?_dictSet_isSome _ _ _ _ (dictGet?_dictSet_isSome _ _ _ _
        (dictGet?_dictSet_isSome _ _ _ _ (dictGet?_dictSet_isSome _ _ _ _ hk)))
    · exact dictGet?_dictSet_isSome _ _ _ _ (dictGet?_dictSet_isSome _ _ _ _ hk)
  · exact hk

theorem nodup_stHost (o : Option Str) (d : Env) (hn : (d.map (·.1)).Nodup) :
    ((stHost o d).map (·.1)).Nodup := by
  unfold stHost
  split
  · split
    · exact nodup_dictSet _ _ _ (nodup_dictSet _ _ _ (nodup_dictSet _ _ _ (nodup_dictSet _ _ _ hn)))
    · exact nodup_dictSet _ _ _ (nodup_dictSet _ _ _ hn)
  · exact hn

theorem frame_stPort (o : Option Str) (d : Env) : Frame (stPort o d) d := by
  unfold stPort
  split
  · split
    · exact (frame_dictSet _ _ _ (by decide)).trans (frame_dictSet _ _ _ (by decide))
    · exact frame_dictSet _ _ _ (by decide)
  · exact fun _ _ => rfl

theorem keeps_stPort (o : Option Str) (d : Env) : Keeps (stPort o d) d := by
  intro k hk
  unfold stPort
  split
  · split
    · exact dictGet?_dictSet_isSome _ _ _ _ (dictGet?_dictSet_isSome _ _ _ _ hk)
    · exact dictGet?_dictSet_isSome _ _ _ _ hk
  · exact hk

theorem nodup_stPort (o : Option Str) (d : Env) (hn : (d.map (·.1)).Nodup) :
    ((stPort o d).map (·.1)).Nodup := by
  unfold stPort
  split
  · split
    · exact nodup_dictSet _ _ _ (nodup_dictSet _ _ _ hn)
    · exact nodup_dictSet _ _ _ hn
  · exact hn

/-! ### each dict-level stage reads as the model's stage -/

/-- the `x_for` stage: `if x_for: environ["REMOTE_ADDR"] = x_for` is the model's `applyFor` -/
theorem readEnv_sFor (c : Url.PFConfig) (d : Env) :
    readEnv (sFor c d) = Url.applyFor c (hdrsOf d) (readEnv d) := by
  unfold sFor setIf Url.applyFor rv
  show readEnv (match Url.truthyV (Url.realValue c.xFor (hdr (dictGet? d kXFor))) with
      | some v => dictSet d kRemoteAddr v | none => d) =
    match Url.truthyV (Url.realValue c.xFor (hdr (dictGet? d kXFor))) with
      | some v => { readEnv d with remoteAddr := some v } | none => readEnv d
  cases Url.truthyV (Url.realValue c.xFor (hdr (dictGet? d kXFor))) with
  | none => rfl
  | some v => simp [readEnv, dictGet?_dictSet]

/-- the `x_proto` stage is the model's `applyProto` -/
theorem readEnv_sProto (c : Url.PFConfig) (d : Env) :
    readEnv (sProto c d) = Url.applyProto c (hdrsOf d) (readEnv d) := by
  unfold sProto setIf Url.applyProto rv
  show readEnv (match Url.truthyV (Url.realValue c.xProto (hdr (dictGet? d kXProto))) with
      | some v => dictSet d kScheme v | none => d) =
    match Url.truthyV (Url.realValue c.xProto (hdr (dictGet? d kXProto))) with
      | some v => { readEnv d with urlScheme := v } | none => readEnv d
  cases Url.truthyV (Url.realValue c.xProto (hdr (dictGet? d kXProto))) with
  | none => rfl
  | some v => simp [readEnv, dictGet?_dictSet]

/-- the `x_host` stage (HTTP_HOST and SERVER_NAME, SERVER_NAME / SERVER_PORT again when a port is
attached) is the model's `applyHost` -/
theorem readEnv_sHost (c : Url.PFConfig) (d : Env) :
    readEnv (sHost c d) = Url.applyHost c (hdrsOf d) (readEnv d) := by
  unfold sHost stHost Url.applyHost rv
  show readEnv (match Url.truthyV (Url.realValue c.xHost (hdr (dictGet? d kXHost))) with
      | some v => _ | none => d) =
    match Url.truthyV (Url.realValue c.xHost (hdr (dictGet? d kXHost))) with
      | some v => _ | none => readEnv d
  cases Url.truthyV (Url.realValue c.xHost (hdr (dictGet? d kXHost))) with
  | none => rfl
  | some v =>
    by_cases hp : Url.hasPort v = true
    · simp [hp, readEnv, dictGet?_dictSet]
    · simp [hp, readEnv, dictGet?_dictSet]

/-- the `x_port` stage - which reads `environ.get("HTTP_HOST")` from the dict the `x_host` stage may
have written - is the model's `applyPort` -/
theorem readEnv_sPort (c : Url.PFConfig) (d : Env) :
    readEnv (sPort c d) = Url.applyPort c (hdrsOf d) (readEnv d) := by
  unfold sPort stPort Url.applyPort rv
  show readEnv (match Url.truthyV (Url.realValue c.xPort (hdr (dictGet? d kXPort))) with
      | some v => _ | none => d) =
    match Url.truthyV (Url.realValue c.xPort (hdr (dictGet? d kXPort))) with
      | some v => _ | none => readEnv d
  cases Url.truthyV (Url.realValue c.xPort (hdr (dictGet? d kXPort))) with
  | none => rfl
  | some v =>
    show readEnv (match Url.truthyV (dictGet? d kHost) with | some host => _ | none => _) =
      match Url.truthyV (dictGet? d kHost) with | some host => _ | none => _
    cases Url.truthyV (dictGet? d kHost) with
    | none => simp [readEnv, dictGet?_dictSet]
    | some host => simp [readEnv, dictGet?_dictSet]

/-- the `x_prefix` stage is the model's `applyPrefix` -/
theorem readEnv_sPrefix (c : Url.PFConfig) (d : Env) :
    readEnv (sPrefix c d) = Url.applyPrefix c (hdrsOf d) (readEnv d) := by
  unfold sPrefix setIf Url.applyPrefix rv
  show readEnv (match Url.truthyV (Url.realValue c.xPrefix (hdr (dictGet? d kXPrefix))) with
      | some v => dictSet d kScriptName v | none => d) =
    match Url.truthyV (Url.realValue c.xPrefix (hdr (dictGet? d kXPrefix))) with
      | some v => { readEnv d with scriptName := v } | none => readEnv d
  cases Url.truthyV (Url.realValue c.xPrefix (hdr (dictGet? d kXPrefix))) with
  | none => rfl
  | some v => simp [readEnv, dictGet?_dictSet]

theorem frame_sFor (c : Url.PFConfig) (d : Env) : Frame (sFor c d) d := frame_setIf _ _ _ (by decide)
theorem frame_sProto (c : Url.PFConfig) (d : Env) : Frame (sProto c d) d := frame_setIf _ _ _ (by decide)
theorem frame_sHost (c : Url.PFConfig) (d : Env) : Frame (sHost c d) d := frame_stHost _ _
theorem frame_sPort (c : Url.PFConfig) (d : Env) : Frame (sPort c d) d := frame_stPort _ _
theorem frame_sPrefix (c : Url.PFConfig) (d : Env) : Frame (sPrefix c d) d := frame_setIf _ _ _ (by decide)

/-- **the dict handed to the app agrees with the incoming environ on every key other than the six
written ones** (REMOTE_ADDR, wsgi.url_scheme, HTTP_HOST, SERVER_NAME, SERVER_PORT, SCRIPT_NAME): in
particular on PATH_INFO, QUERY_STRING and the `X-Forwarded-*` headers themselves -/
theorem fixDict_frame (c : Url.PFConfig) (d : Env) : Frame (fixDict c d) d :=
  (frame_sPrefix c _).trans ((frame_sPort c _).trans ((frame_sHost c _).trans
    ((frame_sProto c _).trans (frame_sFor c d))))

/-- no key of the incoming environ is missing in the dict handed to the app -/
theorem fixDict_keeps (c : Url.PFConfig) (d : Env) : Keeps (fixDict c d) d :=
  (keeps_setIf _ _ _).trans ((keeps_stPort _ _).trans ((keeps_stHost _ _).trans
    ((keeps_setIf _ _ _).trans (keeps_setIf _ _ _))))

/-- the dict handed to the app has distinct keys when the incoming environ has -/
theorem fixDict_nodup (c : Url.PFConfig) (d : Env) (hn : (d.map (·.1)).Nodup) :
    ((fixDict c d).map (·.1)).Nodup :=
  nodup_setIf _ _ _ (nodup_stPort _ _ (nodup_stHost _ _ (nodup_setIf _ _ _ (nodup_setIf _ _ _ hn))))

/-- **the dict-level stages read as the model**: the record of the dict handed to the app is the
model's `proxyFix` of the record and the parsed headers of the incoming environ - for every environ
(no uniqueness of keys needed) and all trust counts. Each stage reads its `X-Forwarded-*` header from
the dict the previous stages have already written to; that makes no difference because the header
keys are not among the written keys. -/
theorem readEnv_fixDict (c : Url.PFConfig) (d : Env) :
    readEnv (fixDict c d) = Url.proxyFix c (hdrsOf d) (readEnv d) := by
  have f1 := frame_sFor c d
  have f2 := (frame_sProto c _).trans f1
  have f3 := (frame_sHost c _).trans f2
  have f4 := (frame_sPort c _).trans f3
  unfold fixDict Url.proxyFix
  rw [readEnv_sPrefix, f4.hdrsOf, readEnv_sPort, f3.hdrsOf, readEnv_sHost, f2.hdrsOf, readEnv_sProto,
    f1.hdrsOf, readEnv_sFor]

/-! ## the translated functions -/

section translated
open Gen.PyFns_ProxyFix

/-- **`ProxyFix._get_real_value(trusted, value)` for `trusted ≥ 0`**, as translated from the current
source (`if not (trusted and value)`, `parse_list_header` - itself translated, see C06T -,
`len(values) >= trusted`, `values[-trusted]`), never raises (the IndexError of `values[-trusted]` is
unreachable behind the length test) and returns exactly the model's `realValue` of the parsed header,
for every trust count and every header value (absent, empty or any text). -/
theorem proxy_get_real_value_eq (trusted : Nat) (value : Option Str) :
    proxy_get_real_value (trusted : Int) value = .ok (Url.realValue trusted (hdr value)) := by
  unfold proxy_get_real_value hdr Url.realValue
  cases value with
  | none => rfl
  | some v =>
    by_cases h0 : trusted = 0
    · subst h0
      by_cases hv : v.isEmpty = true <;> simp [hv]
    · have h0' : ((trusted : Int) == 0) = false := by simpa using h0
      by_cases hv : v.isEmpty = true
      · simp [hv]
      · simp only [h0', hv, Props.C06T.parse_list_header_eq]
        by_cases hl : trusted ≤ (Http.parseListHeader v).length
        · obtain ⟨x, hx1, hx2⟩ := getItem_neg_nat (Http.parseListHeader v) trusted (by omega) hl
          simp [hl, hx1, hx2, h0]
        · simp [hl, h0]

/-- **`_get_real_value` for a negative trust count** `trusted = -(n+1)` (outside the model, whose
counts are naturals; the constructor does not refuse it): `len(values) >= trusted` always holds and
`values[-trusted]` is `values[n+1]`, counted from the FRONT - the value after the first `n+1` ones -
and raises IndexError when the header has at most `n+1` values. An absent or empty header gives
`None` as before. -/
theorem proxy_get_real_value_neg (n : Nat) (value : Option Str) :
    proxy_get_real_value (-((n + 1 : Nat) : Int)) value =
      match hdr value with
      | none => .ok none
      | some vs =>
        match vs[n + 1]? with
        | some x => .ok (some x)
        | none => .error "IndexError" := by
  unfold proxy_get_real_value hdr
  cases value with
  | none => rfl
  | some v =>
    have h0' : ((-((n + 1 : Nat) : Int)) == 0) = false := by
      have : (-((n + 1 : Nat) : Int)) ≠ 0 := by omega
      simpa using this
    by_cases hv : v.isEmpty = true
    · simp [hv]
    · have hd : (Int.ofNat (Http.parseListHeader v).length ≥ -((n + 1 : Nat) : Int)) := by
        simp only [Int.ofNat_eq_natCast]; omega
      simp only [h0', hv, Props.C06T.parse_list_header_eq, hd, Int.neg_neg, getItem_nat]
      cases hx : (Http.parseListHeader v)[n + 1]? <;> simp [hx]

/-- **`ProxyFix.__call__` never raises before it calls the app and hands it `fixDict c d`**: the
translated function (the five `_get_real_value` calls, the `if x_…:` blocks with their environ
assignments, `x_host.rsplit(":", 1)` unpacked into two names, `host.rsplit(":", 1)[0]`) returns, for
every environ dict and all trust counts, the dict the five dict-level stages produce. In particular
the ValueError of the two-name unpacking and the IndexError of `[0]` are unreachable behind the
`":" in …` tests. -/
theorem proxy_fix_environ_run (c : Url.PFConfig) (d : Env) :
    proxy_fix_environ c.xFor c.xProto c.xHost c.xPort c.xPrefix d () = .ok (fixDict c d) := by
  unfold proxy_fix_environ
  simp (config := { zeta := false }) only [proxy_get_real_value_eq, hasPort_eq]
  extract_lets xfor k8 k5 k3 k4 k2 k1
  have hk8 : ∀ e, k8 e = .ok e := fun e => rfl
  have hk5 : ∀ e, k5 e = .ok (sPrefix c e) := by
    intro e
    simp only [k5, sPrefix, rv]
    generalize Url.realValue c.xPrefix _ = o
    rcases o with _ | (_ | ⟨x, t⟩) <;> rfl
  clear_value k5
  have hk3 : ∀ e, k3 e = k5 (sPort c e) := by
    intro e
    simp only [k3, sPort, rv]
    generalize Url.realValue c.xPort _ = o
    rcases o with _ | (_ | ⟨x, t⟩)
    · rfl
    · rfl
    · simp only [stPort, Url.truthyV]
      generalize dictGet? e _ = oh
      rcases oh with _ | (_ | ⟨y, u⟩)
      · rfl
      · rfl
      · simp only [List.isEmpty_cons, Bool.not_false, if_true]
        unfold Url.stripPort
        by_cases hp : Url.hasPort (y :: u) = true
        · simp [hp, rsplit1_colon_head _ (hasPort_mem _ hp)]
        · simp [hp]
  clear_value k3
  have hk4 : ∀ e, k4 e = k3 e := fun e => rfl
  clear_value k4
  have hk2 : ∀ e, k2 e = k3 (sHost c e) := by
    intro e
    simp only [k2, sHost, rv]
    generalize Url.realValue c.xHost _ = o
    rcases o with _ | (_ | ⟨x, t⟩)
    · rfl
    · rfl
    · simp only [stHost, Url.truthyV, List.isEmpty_cons, Bool.not_false, if_true]
      by_cases hp : Url.hasPort (x :: t) = true
      · simp [hp, rsplitOnce_colon _ (hasPort_mem _ hp), hk4]
      · simp [hp, hk4]
  clear_value k2
  have hk1 : ∀ e, k1 e = k2 (sProto c e) := by
    intro e
    simp only [k1, sProto, rv]
    generalize Url.realValue c.xProto _ = o
    rcases o with _ | (_ | ⟨x, t⟩) <;> rfl
  clear_value k1
  have h0 : (match xfor with
      | none => k1 d
      | some x_for =>
        if (!List.isEmpty x_for) = true then k1 (dictSet d kRemoteAddr x_for) else k1 d)
      = k1 (sFor c d) := by
    simp only [xfor, sFor, rv]
    generalize Url.realValue c.xFor _ = o
    rcases o with _ | (_ | ⟨x, t⟩) <;> rfl
  refine h0.trans ?_
  rw [hk1, hk2, hk3, hk5]
  rfl

/-- **`ProxyFix.__call__`, as translated from the current source, is the model's `proxyFix`**: for
every config (the five trust counts) and every environ dict `d` - no hypothesis, not even distinct
keys - the translated function does not raise and hands the app a dict `d'` such that
* the record of `d'` (REMOTE_ADDR, wsgi.url_scheme, HTTP_HOST, SERVER_NAME, SERVER_PORT, SCRIPT_NAME,
  PATH_INFO) is the model's `proxyFix` applied to the record of `d` and the parsed `X-Forwarded-*`
  headers of `d`;
* every key other than the six written ones has the same value in `d'` as in `d` (PATH_INFO, the
  `X-Forwarded-*` headers, everything else): C15's "ProxyFix does not disturb PATH_INFO";
* no key of `d` is missing in `d'`, and `d'` has distinct keys when `d` has. -/
theorem proxy_fix_environ_eq (c : Url.PFConfig) (d : Env) :
    ∃ d', proxy_fix_environ c.xFor c.xProto c.xHost c.xPort c.xPrefix d () = .ok d' ∧
      readEnv d' = Url.proxyFix c (hdrsOf d) (readEnv d) ∧
      (∀ k, k ∉ writtenKeys → dictGet? d' k = dictGet? d k) ∧
      (∀ k, (dictGet? d k).isSome = true → (dictGet? d' k).isSome = true) ∧
      ((d.map (·.1)).Nodup → (d'.map (·.1)).Nodup) :=
  ⟨fixDict c d, proxy_fix_environ_run c d, readEnv_fixDict c d, fixDict_frame c d, fixDict_keeps c d,
    fixDict_nodup c d⟩

/-- `ProxyFix.__call__` never raises on its way to the wrapped app -/
theorem proxy_fix_environ_never_raises (c : Url.PFConfig) (d : Env) (e : String) :
    proxy_fix_environ c.xFor c.xProto c.xHost c.xPort c.xPrefix d () ≠ .error e := by
  rw [proxy_fix_environ_run]; intro h; cases h

/-! ### C15 on the translated function -/

/-- **C15 `proxyfix_preserves_path_info` on the translated `__call__`**: the environ handed to the app
has the PATH_INFO entry of the incoming environ (same value, or absent in both), whatever the trust
counts and the forwarded headers - and likewise every `X-Forwarded-*` header. -/
theorem proxy_fix_environ_preserves_path_info (c : Url.PFConfig) (d d' : Env)
    (h : proxy_fix_environ c.xFor c.xProto c.xHost c.xPort c.xPrefix d () = .ok d') :
    dictGet? d' kPathInfo = dictGet? d kPathInfo ∧ (readEnv d').pathInfo = (readEnv d).pathInfo ∧
    hdrsOf d' = hdrsOf d := by
  rw [proxy_fix_environ_run] at h
  cases h
  have hf := fixDict_frame c d
  refine ⟨hf _ unwritten.1, ?_, hf.hdrsOf⟩
  rw [readEnv_fixDict, Url.proxyFix_pathInfo]

/-- **C15 `proxyfix_prefix_replaces_script_name` on the translated `__call__`**: SCRIPT_NAME of the
environ handed to the app is the trusted non-empty `X-Forwarded-Prefix` value when there is one (it
REPLACES the old SCRIPT_NAME), otherwise the entry is the incoming one. -/
theorem proxy_fix_environ_prefix_replaces_script_name (c : Url.PFConfig) (d d' : Env)
    (h : proxy_fix_environ c.xFor c.xProto c.xHost c.xPort c.xPrefix d () = .ok d') :
    (readEnv d').scriptName =
      (match Url.truthyV (Url.realValue c.xPrefix (hdr (dictGet? d kXPrefix))) with
        | some v => v
        | none => (readEnv d).scriptName) := by
  rw [proxy_fix_environ_run] at h
  cases h
  rw [readEnv_fixDict]
  exact Url.proxyFix_scriptName c (hdrsOf d) (readEnv d)

/-- **C15 `proxyfix_scheme` on the translated `__call__`**: wsgi.url_scheme of the environ handed to
the app is the trusted non-empty `X-Forwarded-Proto` value when there is one, otherwise the incoming
one. -/
theorem proxy_fix_environ_scheme (c : Url.PFConfig) (d d' : Env)
    (h : proxy_fix_environ c.xFor c.xProto c.xHost c.xPort c.xPrefix d () = .ok d') :
    (readEnv d').urlScheme =
      (match Url.truthyV (Url.realValue c.xProto (hdr (dictGet? d kXProto))) with
        | some v => v
        | none => (readEnv d).urlScheme) := by
  rw [proxy_fix_environ_run] at h
  cases h
  rw [readEnv_fixDict]
  exact Url.proxyFix_urlScheme c (hdrsOf d) (readEnv d)

end translated

end Wz.PyFnsEq.ProxyFix
