/-
DispatcherMiddleware (C15): what the default app sees when no mount matches. Core Lean only.
-/
import WzVerif.Lemmas.Url
namespace Wz.Url
open Wz

/-- when the loop falls through to the default app, what is left as script has no `/` -/
theorem dispatchLoop_default_noslash (mounts : List Str) :
    ∀ (fuel : Nat) (r pi : Str), r.length < fuel → (dispatchLoop mounts fuel r pi).mount = none →
      '/' ∉ (dispatchLoop mounts fuel r pi).script := by
  intro fuel
  induction fuel with
  | zero => intro r pi h; omega
  | succ fuel ih =>
    intro r pi hf
    unfold dispatchLoop
    by_cases hs : r.contains '/' = true
    · rw [if_pos hs]
      by_cases hm : mounts.contains r.reverse = true
      · rw [if_pos hm]; intro h; cases h
      · rw [if_neg hm]
        obtain ⟨seg, rest, h1, _, h3, h4⟩ := split_last hs
        simp only [h3, h4]
        apply ih
        have := congrArg List.length h1
        simp only [List.length_append, List.length_cons] at this
        omega
    · rw [if_neg hs]
      intro _
      simp only [List.mem_reverse]
      simpa using hs

/-- **A path no mount matches reaches the default app untouched**: for a PATH_INFO that is empty or
starts with `/`, when no mount key is a `/`-boundary prefix, nothing is appended to SCRIPT_NAME and
PATH_INFO is unchanged. (A PATH_INFO without a leading `/` - not produced by a WSGI server - is moved
to SCRIPT_NAME as a whole: the concatenation is still preserved.) -/
theorem dispatch_default_unchanged (mounts : List Str) (p : Str) (hp : p = [] ∨ p.head? = some '/')
    (h : (dispatch mounts p).mount = none) :
    (dispatch mounts p).script = [] ∧ (dispatch mounts p).pathInfo = p := by
  have hc := (dispatch_spec mounts p).concat
  have hn : '/' ∉ (dispatch mounts p).script := by
    unfold dispatch at h ⊢
    exact dispatchLoop_default_noslash mounts _ _ _ (by simp) h
  have hs : (dispatch mounts p).script = [] := by
    cases hsc : (dispatch mounts p).script with
    | nil => rfl
    | cons x xs =>
      exfalso
      rw [hsc] at hc hn
      rcases hp with hp | hp
      · rw [hp] at hc; cases hc
      · rw [← hc] at hp
        simp only [List.cons_append, List.head?_cons, Option.some.injEq] at hp
        exact hn (by simp [hp])
  refine ⟨hs, ?_⟩
  rw [hs] at hc
  simpa using hc

end Wz.Url
