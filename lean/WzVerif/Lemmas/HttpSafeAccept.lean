import WzVerif.Lemmas.HttpSafeMisc
set_option linter.unusedSimpArgs false
namespace Wz.Http
open Wz

/-! ### Accept headers: safe unless a parameter key is empty (finding F07g) -/

theorem optionSegment_safe (kv : Str × Option Str) (h : kv.1 ≠ []) : Safe (optionSegment kv) := by
  unfold optionSegment
  split
  · exact ⟨none, rfl⟩
  · obtain ⟨l, hl⟩ := last!_safe (k := kv.1) (by cases hk : kv.1 <;> simp_all)
    rw [hl]
    simp only [ok_bind]
    split <;> exact ⟨_, rfl⟩

theorem mapM_safe_mem {α β : Type} (f : α → Except String β) (l : List α) (h : ∀ a ∈ l, Safe (f a)) :
    Safe (l.mapM f) := by
  induction l with
  | nil => exact ⟨[], rfl⟩
  | cons x t ih =>
    rw [List.mapM_cons]
    obtain ⟨b, hb⟩ := h x (by simp)
    obtain ⟨bs, hbs⟩ := ih (fun a ha => h a (by simp [ha]))
    rw [hb, hbs]
    exact ⟨b :: bs, rfl⟩

theorem dumpOptionsHeader_safe (h : Option Str) (opts : Dict (Option Str)) (hk : ∀ x ∈ opts, x.1 ≠ []) :
    Safe (dumpOptionsHeader h opts) := by
  unfold dumpOptionsHeader
  obtain ⟨segs, hs⟩ := mapM_safe_mem optionSegment opts (fun a ha => optionSegment_safe a (hk a ha))
  rw [hs]
  exact ⟨_, rfl⟩

/-- the header item has no parameter whose name is empty after RFC 2231 processing -/
def NoEmptyKey (item : Str) : Prop :=
  ∀ v opts, parseOptionsHeader item = .ok (v, opts) → ∀ x ∈ opts, x.1 ≠ []

theorem acceptItem_safe (item : Str) (h : NoEmptyKey item) : Safe (acceptItem item) := by
  unfold acceptItem
  obtain ⟨r, hr⟩ := parseOptionsHeader_safe item
  obtain ⟨v, options⟩ := r
  have hkeys := h v options hr
  rw [hr]
  simp only [ok_bind]
  have hdump : ∀ (o : Dict Str), (∀ x ∈ o, x.1 ≠ []) → ∀ q : Str,
      Safe (if (!o.isEmpty) = true then do
          let item ← dumpOptionsHeader (some v) (o.map fun (k, x) => (k, some x))
          pure (some (item, q))
        else pure (some (v, q)) : Except String (Option (Str × Str))) := by
    intro o ho q
    split
    · obtain ⟨w, hw⟩ := dumpOptionsHeader_safe (some v) (o.map fun (k, x) => (k, some x)) (by
        intro x hx
        simp only [List.mem_map] at hx
        obtain ⟨y, hy, rfl⟩ := hx
        exact ho y hy)
      rw [hw]; exact ⟨_, rfl⟩
    · exact ⟨_, rfl⟩
  split
  · next qs hq =>
    split
    · exact ⟨none, rfl⟩
    · next neg ip fp hqp =>
      split
      · exact ⟨none, rfl⟩
      · exact hdump _ (by
          intro x hx
          simp only [dictPop, List.mem_filter] at hx
          exact hkeys x hx.1) _
  · exact hdump _ hkeys _

theorem parseAcceptHeader_safe_partial (s : Str) (h : ∀ item ∈ parseListHeader s, NoEmptyKey item) :
    Safe (parseAcceptHeader s) := by
  unfold parseAcceptHeader
  split
  · exact ⟨[], rfl⟩
  · obtain ⟨items, hi⟩ := mapM_safe_mem acceptItem (parseListHeader s) (fun a ha => acceptItem_safe a (h a ha))
    rw [hi]; exact ⟨_, rfl⟩

end Wz.Http
