import WzVerif.Model.Http
namespace Wz.Http
open Wz

/-! ### table facts -/

/-- nat-level characterisation of the punctuation a token may not contain -/
def notSpecialNat (n : Nat) : Bool :=
  n != 34 && n != 44 && n != 59 && n != 61 && n != 92 && n != 32 &&
  !((9 ≤ n && n ≤ 13) || (28 ≤ n && n ≤ 32) || n == 133 || n == 160)

theorem tokenTbl_notSpecial : ∀ n, n < 256 → tbl Gen.Http.tokenTbl n = true → notSpecialNat n = true := by
  decide +kernel

theorem tokenHigh_false : Gen.Http.tokenHigh = false := by decide

theorem isToken_lt {c : Char} (h : isToken c = true) : c.toNat < 256 := by
  unfold isToken cls at h
  by_cases hc : c.toNat < 256
  · exact hc
  · simp [hc, tokenHigh_false] at h

theorem isToken_notSpecial {c : Char} (h : isToken c = true) : notSpecialNat c.toNat = true := by
  have hlt := isToken_lt h
  unfold isToken cls at h
  simp [hlt] at h
  exact tokenTbl_notSpecial _ hlt h

theorem char_ne_of_toNat_ne {c d : Char} (h : c.toNat ≠ d.toNat) : c ≠ d := by
  intro e; exact h (by rw [e])

theorem isToken_ne_dq {c : Char} (h : isToken c = true) : c ≠ '"' := by
  have := isToken_notSpecial h
  apply char_ne_of_toNat_ne
  simp [notSpecialNat] at this
  simp; omega

theorem isToken_not_space {c : Char} (h : isToken c = true) : Py.isSpace c = false := by
  have := isToken_notSpecial h
  have hlt := isToken_lt h
  simp [notSpecialNat] at this
  simp [Py.isSpace]
  omega

def escUnit (c : Char) : Str :=
  if c = '\\' then ['\\', '\\'] else if c = '"' then ['\\', '"'] else [c]

theorem escapeDq_nil : escapeDq [] = [] := by simp [escapeDq, replace1]

theorem escapeDq_cons (c : Char) (t : Str) : escapeDq (c :: t) = escUnit c ++ escapeDq t := by
  simp only [escapeDq, replace1, List.flatMap_cons, List.flatMap_append, escUnit]
  by_cases h1 : c = '\\'
  · subst h1; simp
  · by_cases h2 : c = '"'
    · subst h2; simp
    · simp [h1, h2]

theorem replace2_cons_ne {a b x : Char} {r t : Str} (h : x ≠ a) :
    replace2 a b r (x :: t) = x :: replace2 a b r t := by
  cases t with
  | nil => simp [replace2]
  | cons y t' => simp [replace2, h]

theorem replace2_cons_ne2 {a b x y : Char} {r t : Str} (h : y ≠ b) :
    replace2 a b r (x :: y :: t) = x :: replace2 a b r (y :: t) := by
  simp [replace2, h]

/-- after the first pass (`\\` → `\`) the escaped text has one `\` per `\` and `\"` per `"` -/
def midUnit (c : Char) : Str := if c = '"' then ['\\', '"'] else [c]

theorem pass1 (v : Str) : replace2 '\\' '\\' ['\\'] (v.flatMap escUnit) = v.flatMap midUnit := by
  induction v with
  | nil => simp [replace2]
  | cons c t ih =>
    simp only [List.flatMap_cons]
    by_cases h1 : c = '\\'
    · subst h1
      simp [escUnit, midUnit, replace2, ih]
    · by_cases h2 : c = '"'
      · subst h2
        have : replace2 '\\' '\\' ['\\'] ('\\' :: '"' :: t.flatMap escUnit)
            = '\\' :: replace2 '\\' '\\' ['\\'] ('"' :: t.flatMap escUnit) :=
          replace2_cons_ne2 (by decide)
        simp only [escUnit, midUnit]
        simp only [show ('"' : Char) ≠ '\\' from by decide, if_false, if_true, List.cons_append, List.nil_append]
        rw [this, replace2_cons_ne (by decide), ih]
      · simp only [escUnit, midUnit, h1, h2, if_false, List.cons_append, List.nil_append]
        rw [replace2_cons_ne h1, ih]

theorem midUnit_head_ne_dq (t : Str) : ∀ x r, t.flatMap midUnit = x :: r → x ≠ '"' := by
  intro x r h
  cases t with
  | nil => simp at h
  | cons c t' =>
    simp only [List.flatMap_cons, midUnit] at h
    by_cases h2 : c = '"'
    · subst h2; simp at h; rw [← h.1]; decide
    · simp [h2] at h; rw [← h.1]; exact h2

theorem pass2 (v : Str) : replace2 '\\' '"' ['"'] (v.flatMap midUnit) = v := by
  induction v with
  | nil => simp [replace2]
  | cons c t ih =>
    simp only [List.flatMap_cons]
    by_cases h2 : c = '"'
    · subst h2
      simp [midUnit, replace2, ih]
    · simp only [midUnit, h2, if_false, List.cons_append, List.nil_append]
      by_cases h1 : c = '\\'
      · subst h1
        cases hm : t.flatMap midUnit with
        | nil => rw [hm] at ih; simp [replace2] at ih ⊢; exact ih
        | cons y r =>
          have hy := midUnit_head_ne_dq t y r hm
          rw [replace2_cons_ne2 hy, ← hm, ih]
      · rw [replace2_cons_ne h1, ih]

theorem escapeDq_eq (v : Str) : escapeDq v = v.flatMap escUnit := by
  induction v with
  | nil => simp [escapeDq_nil]
  | cons c t ih => simp [escapeDq_cons, ih]

theorem unescape_escape (v : Str) : unescapeDq (escapeDq v) = v := by
  rw [unescapeDq, escapeDq_eq, pass1, pass2]


/-! ### quotes -/

theorem stripDq_wrap (s : Str) : stripDq? ('"' :: (s ++ ['"'])) = some s := by
  simp [stripDq?]

theorem stripDq_none_of_head {c : Char} {t : Str} (h : c ≠ '"') : stripDq? (c :: t) = none := by
  unfold stripDq?
  split
  · next rest heq => simp at heq; exact absurd heq.1 h
  · rfl

theorem stripDq_nil : stripDq? [] = none := by simp [stripDq?]

theorem unquote_quote_any (v : Str) (allow : Bool) :
    unquoteHeaderValue (quoteHeaderValue v allow) = v := by
  unfold quoteHeaderValue
  by_cases h0 : v.isEmpty = true
  · simp [h0, unquoteHeaderValue, stripDq?, unescapeDq, replace2]
    cases v with
    | nil => rfl
    | cons _ _ => simp at h0
  · simp only [h0]
    by_cases h1 : (allow && v.all isToken) = true
    · simp only [h1, if_true, Bool.false_eq_true, if_false]
      cases v with
      | nil => simp at h0
      | cons c t =>
        have hc : isToken c = true := by
          simp [List.all_cons] at h1; exact h1.2.1
        simp [unquoteHeaderValue, stripDq_none_of_head (isToken_ne_dq hc)]
    · simp only [h1, Bool.false_eq_true, if_false]
      simp only [unquoteHeaderValue, List.cons_append, stripDq_wrap, unescape_escape]

/-! ### parse_http_list on dumped items -/

theorem httpListGo_quoted (v rest p : Str) :
    httpListGo false true (escapeDq v ++ rest) p = httpListGo false true rest (v.reverse ++ p) := by
  induction v generalizing p with
  | nil => simp [escapeDq_nil]
  | cons c t ih =>
    rw [escapeDq_cons]
    by_cases h1 : c = '\\'
    · subst h1
      simp [escUnit, httpListGo, ih]
    · by_cases h2 : c = '"'
      · subst h2
        simp [escUnit, httpListGo, ih]
      · simp [escUnit, h1, h2, httpListGo, ih]

theorem isToken_ne_comma {c : Char} (h : isToken c = true) : c ≠ ',' := by
  have := isToken_notSpecial h
  apply char_ne_of_toNat_ne
  simp [notSpecialNat] at this
  simp; omega

theorem httpListGo_token (v rest p : Str) (hv : v.all isToken = true) :
    httpListGo false false (v ++ rest) p = httpListGo false false rest (v.reverse ++ p) := by
  induction v generalizing p with
  | nil => simp
  | cons c t ih =>
    simp only [List.all_cons, Bool.and_eq_true] at hv
    have h1 := isToken_ne_comma hv.1
    have h2 := isToken_ne_dq hv.1
    simp [httpListGo, h1, h2, ih _ hv.2]

/-- the text `parse_http_list` accumulates for a dumped item -/
def img (v : Str) : Str :=
  if v.isEmpty then ['"', '"'] else if v.all isToken then v else '"' :: (v ++ ['"'])

theorem httpListGo_item (v rest p : Str) :
    httpListGo false false (quoteHeaderValue v ++ rest) p = httpListGo false false rest ((img v).reverse ++ p) := by
  unfold quoteHeaderValue img
  by_cases h0 : v.isEmpty = true
  · simp [h0, httpListGo]
  · simp only [h0, Bool.false_eq_true, if_false, Bool.true_and]
    by_cases h1 : v.all isToken = true
    · simp only [h1, if_true]
      exact httpListGo_token v rest p h1
    · simp only [h1, Bool.false_eq_true, if_false]
      simp only [List.cons_append, List.append_assoc]
      simp [httpListGo, httpListGo_quoted]

theorem img_ne_nil (v : Str) : img v ≠ [] := by
  unfold img
  by_cases h0 : v.isEmpty = true
  · simp [h0]
  · by_cases h1 : v.all isToken = true
    · simp [h0, h1]; intro h; simp [h] at h0
    · simp [h0, h1]

theorem httpListGo_dump (v : Str) (vs : List Str) (p : Str) :
    httpListGo false false (join ", " ((v :: vs).map (quoteHeaderValue ·))) p
      = (p.reverse ++ img v) :: vs.map (fun w => ' ' :: img w) := by
  induction vs generalizing v p with
  | nil =>
    have := httpListGo_item v [] p
    simp only [List.append_nil] at this
    simp [join, List.intercalate_singleton, this, httpListGo, img_ne_nil]
  | cons w ws ih =>
    simp only [join, List.map_cons, List.intercalate_cons_cons] at ih ⊢
    rw [List.append_assoc, httpListGo_item]
    have e : ", ".toList = [',', ' '] := by decide
    rw [e]
    simp only [List.cons_append, List.nil_append, httpListGo]
    simp
    have := ih w [' ']
    simp at this
    exact this

/-! ### strip -/

/-- first and last character are not whitespace -/
def Tight (x : Str) : Prop :=
  (∀ c, x.head? = some c → Py.isSpace c = false) ∧ (∀ c, x.getLast? = some c → Py.isSpace c = false)

theorem dropWhile_tight {x : Str} (h : Tight x) : x.dropWhile Py.isSpace = x := by
  cases x with
  | nil => rfl
  | cons a t => simp [List.dropWhile_cons, h.1 a rfl]

theorem rstrip_tight {x : Str} (h : Tight x) : Py.rstripBy Py.isSpace x = x := by
  unfold Py.rstripBy
  have : x.reverse.dropWhile Py.isSpace = x.reverse := by
    cases hr : x.reverse with
    | nil => rfl
    | cons a t =>
      have : x.getLast? = some a := by
        rw [← List.head?_reverse, hr]; rfl
      simp [List.dropWhile_cons, h.2 a this]
  rw [this, List.reverse_reverse]

theorem strip_tight {x : Str} (h : Tight x) : strip x = x := by
  simp [strip, Py.strip, dropWhile_tight h, rstrip_tight h]

theorem strip_space_tight {x : Str} (h : Tight x) : strip (' ' :: x) = x := by
  have : (' ' :: x).dropWhile Py.isSpace = x := by
    rw [List.dropWhile_cons]
    simp [show Py.isSpace ' ' = true from by decide, dropWhile_tight h]
  simp [strip, Py.strip, this, rstrip_tight h]

theorem img_tight (v : Str) : Tight (img v) := by
  unfold img
  by_cases h0 : v.isEmpty = true
  · simp only [h0, if_true]
    constructor <;> intro c hc <;> simp at hc <;> subst hc <;> decide
  · simp only [h0, Bool.false_eq_true, if_false]
    by_cases h1 : v.all isToken = true
    · simp only [h1, if_true]
      rw [List.all_eq_true] at h1
      constructor
      · intro c hc
        exact isToken_not_space (h1 c (List.mem_of_head? hc))
      · intro c hc
        exact isToken_not_space (h1 c (List.mem_of_getLast? hc))
    · simp only [h1, Bool.false_eq_true, if_false]
      constructor
      · intro c hc; simp at hc; subst hc; decide
      · intro c hc
        have : ('"' :: (v ++ ['"'])).getLast? = some '"' := by
          rw [← List.cons_append, List.getLast?_concat]
        rw [this] at hc; simp at hc; subst hc; decide

theorem unwrap_img (v : Str) : (stripDq? (img v)).getD (img v) = v := by
  unfold img
  by_cases h0 : v.isEmpty = true
  · cases v with
    | nil => simp [stripDq?]
    | cons _ _ => simp at h0
  · simp only [h0, Bool.false_eq_true, if_false]
    by_cases h1 : v.all isToken = true
    · simp only [h1, if_true]
      cases v with
      | nil => simp at h0
      | cons c t =>
        simp only [List.all_cons, Bool.and_eq_true] at h1
        simp [stripDq_none_of_head (isToken_ne_dq h1.1)]
    · simp only [h1, Bool.false_eq_true, if_false]
      simp [stripDq_wrap]

theorem parseList_dump_any (vs : List Str) : parseListHeader (dumpHeaderList vs) = vs := by
  cases vs with
  | nil => simp [parseListHeader, parseHttpList, dumpHeaderList, join, httpListGo]
  | cons v ws =>
    unfold parseListHeader parseHttpList dumpHeaderList
    rw [httpListGo_dump v ws []]
    simp only [List.reverse_nil, List.nil_append, List.map_cons, List.map_map]
    rw [strip_tight (img_tight v), unwrap_img]
    congr 1
    rw [List.map_congr_left (g := id)]
    · simp
    · intro w _
      simp only [Function.comp, id]
      rw [strip_space_tight (img_tight w), unwrap_img]

/-! ### generic items for the list scanner -/

/-- scanning `w` outside quotes appends `im` to the current part and ends outside quotes -/
def Scans (w im : Str) : Prop :=
  ∀ rest p, httpListGo false false (w ++ rest) p = httpListGo false false rest (im.reverse ++ p)

theorem Scans.append {w1 im1 w2 im2 : Str} (h1 : Scans w1 im1) (h2 : Scans w2 im2) :
    Scans (w1 ++ w2) (im1 ++ im2) := by
  intro rest p
  rw [List.append_assoc, h1, h2]
  simp

theorem scans_token {v : Str} (hv : v.all isToken = true) : Scans v v :=
  fun rest p => httpListGo_token v rest p hv

theorem scans_quote (v : Str) (allow : Bool) :
    Scans (quoteHeaderValue v allow) (if allow then img v else '"' :: (v ++ ['"'])) := by
  intro rest p
  cases allow with
  | true => exact httpListGo_item v rest p
  | false =>
    unfold quoteHeaderValue
    by_cases h0 : v.isEmpty = true
    · cases v with
      | nil => simp [httpListGo]
      | cons _ _ => simp at h0
    · simp only [h0, Bool.false_eq_true, if_false, Bool.false_and]
      simp only [List.cons_append, List.append_assoc]
      simp [httpListGo, httpListGo_quoted]

theorem scans_eq : Scans ['='] ['='] := by
  intro rest p; simp [httpListGo]

theorem httpListGo_join (w im : Str) (ws : List (Str × Str)) (p : Str)
    (h : Scans w im) (hne : im ≠ [])
    (hs : ∀ x ∈ ws, Scans x.1 x.2 ∧ x.2 ≠ []) :
    httpListGo false false (join ", " (w :: ws.map (·.1))) p
      = (p.reverse ++ im) :: ws.map (fun x => ' ' :: x.2) := by
  induction ws generalizing w im p with
  | nil =>
    have := h [] p
    simp only [List.append_nil] at this
    simp [join, List.intercalate_singleton, this, httpListGo, hne]
  | cons x xs ih =>
    simp only [join, List.map_cons, List.intercalate_cons_cons] at ih ⊢
    rw [List.append_assoc, h]
    have e : ", ".toList = [',', ' '] := by decide
    rw [e]
    simp only [List.cons_append, List.nil_append, httpListGo]
    simp
    have hx := hs x (by simp)
    have := ih x.1 x.2 [' '] hx.1 hx.2 (fun y hy => hs y (by simp [hy]))
    simp at this
    exact this

theorem parseHttpList_join (ws : List (Str × Str))
    (hs : ∀ x ∈ ws, Scans x.1 x.2 ∧ Tight x.2 ∧ x.2 ≠ []) :
    parseHttpList (join ", " (ws.map (·.1))) = ws.map (·.2) := by
  cases ws with
  | nil => simp [parseHttpList, join, httpListGo]
  | cons x xs =>
    unfold parseHttpList
    have hx := hs x (by simp)
    rw [List.map_cons, httpListGo_join x.1 x.2 xs [] hx.1 hx.2.2
      (fun y hy => ⟨(hs y (by simp [hy])).1, (hs y (by simp [hy])).2.2⟩)]
    simp only [List.reverse_nil, List.nil_append, List.map_cons, List.map_map]
    rw [strip_tight hx.2.1]
    congr 1
    apply List.map_congr_left
    intro y hy
    simp only [Function.comp]
    exact strip_space_tight (hs y (by simp [hy])).2.1


/-! ### dicts -/

def KeyOk (k : Str) : Bool := !k.isEmpty && k.all isToken && !k.contains '*'

def dictItemText : Str × Option Str → Str
  | (k, none) => k
  | (k, some v) => k ++ '=' :: quoteHeaderValue v

def dictItemImg : Str × Option Str → Str
  | (k, none) => k
  | (k, some v) => k ++ '=' :: img v

@[simp] theorem ok_bind {α β : Type} (a : α) (f : α → Except String β) :
    (Except.ok a >>= f) = f a := rfl
@[simp] theorem error_bind {α β : Type} (e : String) (f : α → Except String β) :
    ((Except.error e : Except String α) >>= f) = Except.error e := rfl
@[simp] theorem pure_eq_ok {α : Type} (a : α) : (pure a : Except String α) = Except.ok a := rfl

theorem mapM_ok {α β : Type} (f : α → Except String β) (g : α → β) (l : List α)
    (h : ∀ x ∈ l, f x = .ok (g x)) : l.mapM f = .ok (l.map g) := by
  induction l with
  | nil => rfl
  | cons a t ih =>
    rw [List.mapM_cons, h a (by simp), ih (fun x hx => h x (by simp [hx]))]
    rfl

theorem keyOk_ne_nil {k : Str} (h : KeyOk k = true) : k ≠ [] := by
  intro e; subst e; simp [KeyOk] at h

theorem keyOk_all {k : Str} (h : KeyOk k = true) : k.all isToken = true := by
  simp [KeyOk] at h; simpa using h.1.2

theorem keyOk_no_star {k : Str} (h : KeyOk k = true) : '*' ∉ k := by
  simp [KeyOk] at h; exact h.2

theorem last!_of_getLast? {k : Str} {l : Char} (h : k.getLast? = some l) : last! k = .ok l := by
  simp [last!, h]

theorem keyOk_last {k : Str} (h : KeyOk k = true) : ∃ l, k.getLast? = some l ∧ l ≠ '*' ∧ isToken l = true := by
  have hne := keyOk_ne_nil h
  cases hl : k.getLast? with
  | none => simp [List.getLast?_eq_none_iff] at hl; exact absurd hl hne
  | some l =>
    refine ⟨l, rfl, ?_, ?_⟩
    · intro e; subst e; exact keyOk_no_star h (List.mem_of_getLast? hl)
    · exact (List.all_eq_true.mp (keyOk_all h)) l (List.mem_of_getLast? hl)

theorem dumpHeaderDict_ok (d : Dict (Option Str)) (hk : ∀ x ∈ d, KeyOk x.1 = true) :
    dumpHeaderDict d = .ok (join ", " (d.map dictItemText)) := by
  unfold dumpHeaderDict
  rw [mapM_ok _ dictItemText d]
  · rfl
  · intro x hx
    obtain ⟨k, v⟩ := x
    cases v with
    | none => rfl
    | some v =>
      obtain ⟨l, hl, hne, _⟩ := keyOk_last (hk _ hx)
      simp [last!_of_getLast? hl, dictItemText, hne]


theorem partition_found {c : Char} {k x : Str} (h : c ∉ k) : partition c (k ++ c :: x) = (k, true, x) := by
  induction k with
  | nil => simp [partition]
  | cons a t ih =>
    have ha : a ≠ c := fun e => h (by simp [e])
    have ht : c ∉ t := fun e => h (by simp [e])
    have := ih ht
    simp only [partition] at this ⊢
    simp only [List.cons_append, List.takeWhile_cons, List.dropWhile_cons, bne_iff_ne, ne_eq, ha,
      not_false_eq_true, ite_true]
    split at this <;> simp_all

theorem partition_notfound {c : Char} {k : Str} (h : c ∉ k) : partition c k = (k, false, []) := by
  induction k with
  | nil => simp [partition]
  | cons a t ih =>
    have ha : a ≠ c := fun e => h (by simp [e])
    have ht : c ∉ t := fun e => h (by simp [e])
    have := ih ht
    simp only [partition] at this ⊢
    simp only [List.takeWhile_cons, List.dropWhile_cons, bne_iff_ne, ne_eq, ha,
      not_false_eq_true, ite_true]
    split at this <;> simp_all

theorem isToken_ne_eq {c : Char} (h : isToken c = true) : c ≠ '=' := by
  have := isToken_notSpecial h
  apply char_ne_of_toNat_ne
  simp [notSpecialNat] at this
  simp; omega

theorem token_tight {k : Str} (h : k.all isToken = true) : Tight k := by
  rw [List.all_eq_true] at h
  exact ⟨fun c hc => isToken_not_space (h c (List.mem_of_head? hc)),
         fun c hc => isToken_not_space (h c (List.mem_of_getLast? hc))⟩

theorem keyOk_no_eq {k : Str} (h : KeyOk k = true) : '=' ∉ k := by
  intro hm
  exact isToken_ne_eq ((List.all_eq_true.mp (keyOk_all h)) _ hm) rfl

theorem dictItem_img (k : Str) (v : Option Str) (hk : KeyOk k = true) :
    dictItem (dictItemImg (k, v)) = .ok (some (k, v)) := by
  obtain ⟨l, hl, hne, _⟩ := keyOk_last hk
  have hs : strip k = k := strip_tight (token_tight (keyOk_all hk))
  have hne' : k.isEmpty = false := by
    cases k with
    | nil => exact absurd rfl (keyOk_ne_nil hk)
    | cons _ _ => rfl
  cases v with
  | none =>
    simp [dictItem, dictItemImg, partition_notfound (keyOk_no_eq hk), hs, hne']
  | some v =>
    simp [dictItem, dictItemImg, partition_found (keyOk_no_eq hk), hs, hne',
      last!_of_getLast? hl, hne, strip_tight (img_tight v), unwrap_img]


theorem tight_append {a b : Str} (ha : a ≠ []) (hb : b ≠ [])
    (h1 : ∀ c, a.head? = some c → Py.isSpace c = false)
    (h2 : ∀ c, b.getLast? = some c → Py.isSpace c = false) : Tight (a ++ b) := by
  constructor
  · intro c hc
    cases a with
    | nil => exact absurd rfl ha
    | cons x t => simp at hc; exact h1 c (by simp [hc])
  · intro c hc
    rw [List.getLast?_append] at hc
    cases hb' : b.getLast? with
    | none => simp [List.getLast?_eq_none_iff] at hb'; exact absurd hb' hb
    | some y => rw [hb'] at hc; simp at hc; subst hc; exact h2 _ hb'

theorem dictItem_scans (x : Str × Option Str) (hk : KeyOk x.1 = true) :
    Scans (dictItemText x) (dictItemImg x) ∧ Tight (dictItemImg x) ∧ dictItemImg x ≠ [] := by
  obtain ⟨k, v⟩ := x
  have hall := keyOk_all hk
  have hne := keyOk_ne_nil hk
  cases v with
  | none => exact ⟨scans_token hall, token_tight hall, hne⟩
  | some v =>
    refine ⟨?_, ?_, ?_⟩
    · have := (scans_token hall).append (scans_eq.append (scans_quote v true))
      simpa [dictItemText, dictItemImg] using this
    · have : dictItemImg (k, some v) = k ++ ('=' :: img v) := rfl
      rw [this]
      apply tight_append hne (by simp) (token_tight hall).1
      intro c hc
      have h2 := (img_tight v).2 c
      apply h2
      have hin := img_ne_nil v
      cases hi : img v with
      | nil => exact absurd hi hin
      | cons a t => rw [hi] at hc; simpa using hc
    · simp [dictItemImg, hne]

theorem stripDq_getD_dictItemImg (x : Str × Option Str) (hk : KeyOk x.1 = true) :
    (stripDq? (dictItemImg x)).getD (dictItemImg x) = dictItemImg x := by
  obtain ⟨k, v⟩ := x
  have hall := keyOk_all hk
  cases k with
  | nil => exact absurd rfl (keyOk_ne_nil hk)
  | cons c t =>
    simp only [List.all_cons, Bool.and_eq_true] at hall
    have hc := isToken_ne_dq hall.1
    cases v <;> simp [dictItemImg, stripDq_none_of_head hc]

theorem parseListHeader_dictDump (d : Dict (Option Str)) (hk : ∀ x ∈ d, KeyOk x.1 = true) :
    parseListHeader (join ", " (d.map dictItemText)) = d.map dictItemImg := by
  unfold parseListHeader
  have := parseHttpList_join (d.map fun x => (dictItemText x, dictItemImg x)) (by
    intro y hy
    simp only [List.mem_map] at hy
    obtain ⟨x, hx, rfl⟩ := hy
    exact dictItem_scans x (hk x hx))
  simp only [List.map_map, Function.comp_def] at this
  rw [this, List.map_map]
  apply List.map_congr_left
  intro x hx
  exact stripDq_getD_dictItemImg x (hk x hx)

theorem dictHas_append_single {ν : Type} (acc : Dict ν) (k y : Str) (v : ν) :
    dictHas (acc ++ [(k, v)]) y = (dictHas acc y || k == y) := by
  simp [dictHas]

theorem foldlM_dictItems (d acc : Dict (Option Str)) (hk : ∀ x ∈ d, KeyOk x.1 = true)
    (hnd : (d.map (·.1)).Nodup) (hdis : ∀ x ∈ d, dictHas acc x.1 = false) :
    (d.map dictItemImg).foldlM dictStep acc = .ok (acc ++ d) := by
  induction d generalizing acc with
  | nil => simp
  | cons x t ih =>
    obtain ⟨k, v⟩ := x
    simp only [List.map_cons, List.foldlM_cons]
    simp only [dictStep]
    rw [dictItem_img k v (hk (k, v) (by simp))]
    simp only [ok_bind, pure_eq_ok]
    have hk0 : dictHas acc k = false := hdis (k, v) (by simp)
    simp only [dictSet, hk0, Bool.false_eq_true, if_false]
    simp only [List.map_cons, List.nodup_cons] at hnd
    rw [ih (acc ++ [(k, v)]) (fun y hy => hk y (by simp [hy])) hnd.2]
    · simp
    · intro y hy
      rw [dictHas_append_single, hdis y (by simp [hy])]
      simp
      intro e
      exact hnd.1 (by rw [e]; exact List.mem_map_of_mem hy)

theorem parseDict_dump_any (d : Dict (Option Str)) (hk : ∀ x ∈ d, KeyOk x.1 = true)
    (hnd : (d.map (·.1)).Nodup) :
    (dumpHeaderDict d >>= parseDictHeader) = .ok d := by
  rw [dumpHeaderDict_ok d hk]
  simp only [ok_bind, parseDictHeader]
  rw [parseListHeader_dictDump d hk]
  have := foldlM_dictItems d [] hk hnd (by intro x _; rfl)
  simpa using this

end Wz.Http
