import WzVerif.Model.Http
namespace Wz.Http
open Wz

/-! ### table facts -/

/-- nat-level characterisation of the punctuation a token may not contain -/
def notSpecialNat (n : Nat) : Bool :=
  n != 34 && n != 44 && n != 59 && n != 61 && n != 92 && n != 32 &&
  !((9 ≤ n && n ≤ 13) || (28 ≤ n && n ≤ 32) || n == 133 || n == 160)

theorem tokenTbl_notSpecial : ∀ n, n < 256 → tbl Gen.Http.tokenTbl n = true → notSpecialNat n = true := by
  decide +kernel

theorem tokenHigh_false : Gen.Http.tokenHigh = false := by decide

theorem isToken_lt {c : Char} (h : isToken c = true) : c.toNat < 256 := by
  unfold isToken cls at h
  by_cases hc : c.toNat < 256
  · exact hc
  · simp [hc, tokenHigh_false] at h

theorem isToken_notSpecial {c : Char} (h : isToken c = true) : notSpecialNat c.toNat = true := by
  have hlt := isToken_lt h
  unfold isToken cls at h
  simp [hlt] at h
  exact tokenTbl_notSpecial _ hlt h

theorem char_ne_of_toNat_ne {c d : Char} (h : c.toNat ≠ d.toNat) : c ≠ d := by
  intro e; exact h (by rw [e])

theorem isToken_ne_dq {c : Char} (h : isToken c = true) : c ≠ '"' := by
  have := isToken_notSpecial h
  apply char_ne_of_toNat_ne
  simp [notSpecialNat] at this
  simp; omega

theorem isToken_not_space {c : Char} (h : isToken c = true) : Py.isSpace c = false := by
  have := isToken_notSpecial h
  have hlt := isToken_lt h
  simp [notSpecialNat] at this
  simp [Py.isSpace]
  omega

def escUnit (c : Char) : Str :=
  if c = '\\' then ['\\', '\\'] else if c = '"' then ['\\', '"'] else [c]

theorem escapeDq_nil : escapeDq [] = [] := by simp [escapeDq, replace1]

theorem escapeDq_cons (c : Char) (t : Str) : escapeDq (c :: t) = escUnit c ++ escapeDq t := by
  simp only [escapeDq, replace1, List.flatMap_cons, List.flatMap_append, escUnit]
  by_cases h1 : c = '\\'
  · subst h1; simp
  · by_cases h2 : c = '"'
    · subst h2; simp
    · simp [h1, h2]

theorem replace2_cons_ne {a b x : Char} {r t : Str} (h : x ≠ a) :
    replace2 a b r (x :: t) = x :: replace2 a b r t := by
  cases t with
  | nil => simp [replace2]
  | cons y t' => simp [replace2, h]

theorem replace2_cons_ne2 {a b x y : Char} {r t : Str} (h : y ≠ b) :
    replace2 a b r (x :: y :: t) = x :: replace2 a b r (y :: t) := by
  simp [replace2, h]

/-- after the first pass (`\\` → `\`) the escaped text has one `\` per `\` and `\"` per `"` -/
def midUnit (c : Char) : Str := if c = '"' then ['\\', '"'] else [c]

theorem pass1 (v : Str) : replace2 '\\' '\\' ['\\'] (v.flatMap escUnit) = v.flatMap midUnit := by
  induction v with
  | nil => simp [replace2]
  | cons c t ih =>
    simp only [List.flatMap_cons]
    by_cases h1 : c = '\\'
    · subst h1
      simp [escUnit, midUnit, replace2, ih]
    · by_cases h2 : c = '"'
      · subst h2
        have : replace2 '\\' '\\' ['\\'] ('\\' :: '"' :: t.flatMap escUnit)
            = '\\' :: replace2 '\\' '\\' ['\\'] ('"' :: t.flatMap escUnit) :=
          replace2_cons_ne2 (by decide)
        simp only [escUnit, midUnit]
        simp only [show ('"' : Char) ≠ '\\' from by decide, if_false, if_true, List.cons_append, List.nil_append]
        rw [this, replace2_cons_ne (by decide), ih]
      · simp only [escUnit, midUnit, h1, h2, if_false, List.cons_append, List.nil_append]
        rw [replace2_cons_ne h1, ih]

theorem midUnit_head_ne_dq (t : Str) : ∀ x r, t.flatMap midUnit = x :: r → x ≠ '"' := by
  intro x r h
  cases t with
  | nil => simp at h
  | cons c t' =>
    simp only [List.flatMap_cons, midUnit] at h
    by_cases h2 : c = '"'
    · subst h2; simp at h; rw [← h.1]; decide
    · simp [h2] at h; rw [← h.1]; exact h2

theorem pass2 (v : Str) : replace2 '\\' '"' ['"'] (v.flatMap midUnit) = v := by
  induction v with
  | nil => simp [replace2]
  | cons c t ih =>
    simp only [List.flatMap_cons]
    by_cases h2 : c = '"'
    · subst h2
      simp [midUnit, replace2, ih]
    · simp only [midUnit, h2, if_false, List.cons_append, List.nil_append]
      by_cases h1 : c = '\\'
      · subst h1
        cases hm : t.flatMap midUnit with
        | nil => rw [hm] at ih; simp [replace2] at ih ⊢; exact ih
        | cons y r =>
          have hy := midUnit_head_ne_dq t y r hm
          rw [replace2_cons_ne2 hy, ← hm, ih]
      · rw [replace2_cons_ne h1, ih]

theorem escapeDq_eq (v : Str) : escapeDq v = v.flatMap escUnit := by
  induction v with
  | nil => simp [escapeDq_nil]
  | cons c t ih => simp [escapeDq_cons, ih]

theorem unescape_escape (v : Str) : unescapeDq (escapeDq v) = v := by
  rw [unescapeDq, escapeDq_eq, pass1, pass2]


/-! ### quotes -/

theorem stripDq_wrap (s : Str) : stripDq? ('"' :: s ++ ['"']) = some s := by
  simp [stripDq?, List.getLast?_concat]

theorem stripDq_none_of_head {c : Char} {t : Str} (h : c ≠ '"') : stripDq? (c :: t) = none := by
  unfold stripDq?
  split
  · next rest heq => simp at heq; exact absurd heq.1 h
  · rfl

theorem stripDq_nil : stripDq? [] = none := by simp [stripDq?]

theorem unquote_quote_any (v : Str) (allow : Bool) :
    unquoteHeaderValue (quoteHeaderValue v allow) = v := by
  unfold quoteHeaderValue
  by_cases h0 : v.isEmpty = true
  · simp [h0, unquoteHeaderValue, stripDq?, unescapeDq, replace2]
    cases v with
    | nil => rfl
    | cons _ _ => simp at h0
  · simp only [h0]
    by_cases h1 : (allow && v.all isToken) = true
    · simp only [h1, if_true, Bool.false_eq_true, if_false]
      cases v with
      | nil => simp at h0
      | cons c t =>
        have hc : isToken c = true := by
          simp [List.all_cons] at h1; exact h1.2.1
        simp [unquoteHeaderValue, stripDq_none_of_head (isToken_ne_dq hc)]
    · simp only [h1, Bool.false_eq_true, if_false]
      simp [unquoteHeaderValue, stripDq_wrap, unescape_escape]

end Wz.Http
