/-
Lemmas for the history model of one Response object (C05): what the "quiet" events (registering a
callback, get_data, make_sequence, the server pulling chunks) preserve.
-/
import WzVerif.Lemmas.Response
namespace Wz.C05L
open Wz Hdr Resp

/-- events that neither close anything nor replace the body (`freeze()` buffers it and, as
repaired, keeps its close) -/
def quiet : REv → Bool
  | .callOnClose _ => true
  | .getData => true
  | .makeSequence => true
  | .take _ => true
  | .freeze _ => true
  | _ => false

/-- how often callback / close action `e` is registered by the events -/
def regs : List REv → CloseEv → Nat
  | [], _ => 0
  | .callOnClose n :: t, e => (if e = .cb n then 1 else 0) + regs t e
  | _ :: t, e => regs t e

theorem regs_append (a b : List REv) (e : CloseEv) : regs (a ++ b) e = regs a e + regs b e := by
  induction a with
  | nil => simp [regs]
  | cons x t ih =>
    cases x <;> simp only [List.cons_append, regs, ih] <;> omega

/-- the iterable the server holds is a `ClosingIterator` around `Response.close` -/
def isClosing : Held → Bool
  | .seqIter _ => true
  | .streamIter => true
  | .ownStream _ => true
  | .emptyIter => true
  | _ => false

theorem isClosing_detach (h : Held) (rest : List Item) (hc : isClosing h = true) : isClosing (detach h rest) = true := by
  cases h <;> simp_all [isClosing, detach]

theorem expected_makeSequence (r : R) (e : CloseEv) :
    (expectedClose (makeSequence r)).count e = (expectedClose r).count e := by
  unfold expectedClose makeSequence
  cases hk : r.body.kind with
  | seq => simp [hk]
  | stream c =>
    cases c with
    | true => simp only [hk, if_true, List.count_append, List.count_cons, List.count_nil]; omega
    | false => simp [hk]

theorem makeSequence_fields (r : R) :
    (makeSequence r).status = r.status ∧ (makeSequence r).directPassthrough = r.directPassthrough := by
  unfold makeSequence; split <;> exact ⟨rfl, rfl⟩

/-- what one quiet event preserves -/
theorem quiet_step (s : St) (ev : REv) (hq : quiet ev = true) :
    (nextEv s ev).1.log = s.log ∧ (nextEv s ev).1.r.status = s.r.status ∧
    (nextEv s ev).1.r.directPassthrough = s.r.directPassthrough ∧
    (isClosing s.held = true → isClosing (nextEv s ev).1.held = true) ∧
    ∀ e, (expectedClose (nextEv s ev).1.r).count e = (expectedClose s.r).count e + regs [ev] e := by
  cases ev with
  | callOnClose n =>
    refine ⟨rfl, rfl, rfl, fun h => h, fun e => ?_⟩
    simp only [nextEv, regs]
    unfold expectedClose callOnClose
    rw [← List.append_assoc, List.count_append, List.count_singleton]
    by_cases he : e = .cb n
    · subst he; simp
    · have h1 : (CloseEv.cb n == e) = false := by rw [beq_eq_false_iff_ne]; exact fun h => he h.symm
      simp [h1, he]
  | getData =>
    have key : (nextEv s .getData).1 = s ∨
        (nextEv s .getData).1 = { s with r := makeSequence s.r, held := detach s.held [] } := by
      cases hk : s.r.body.kind with
      | seq => left; simp [nextEv, ensureSequence, hk]
      | stream c =>
        cases hd : s.r.directPassthrough with
        | true => left; simp [nextEv, ensureSequence, hk, hd]
        | false =>
          cases hi : s.cfg.implicitConv with
          | true => right; simp [nextEv, ensureSequence, hk, hd, hi]
          | false => left; simp [nextEv, ensureSequence, hk, hd, hi]
    rcases key with k | k
    · rw [k]; exact ⟨rfl, rfl, rfl, fun h => h, fun e => by simp [regs]⟩
    · rw [k]
      exact ⟨rfl, (makeSequence_fields s.r).1, (makeSequence_fields s.r).2, isClosing_detach _ _,
        fun e => by simp [regs, expected_makeSequence]⟩
  | makeSequence =>
    have key : (nextEv s .makeSequence).1 = s ∨
        (nextEv s .makeSequence).1 = { s with r := makeSequence s.r, held := detach s.held [] } := by
      cases hk : s.r.body.kind with
      | seq => left; simp [nextEv, hk]
      | stream c => right; simp [nextEv, hk]
    rcases key with k | k
    · rw [k]; exact ⟨rfl, rfl, rfl, fun h => h, fun e => by simp [regs]⟩
    · rw [k]
      exact ⟨rfl, (makeSequence_fields s.r).1, (makeSequence_fields s.r).2, isClosing_detach _ _,
        fun e => by simp [regs, expected_makeSequence]⟩
  | take n =>
    obtain ⟨r, cfg, held, sent, log, wsgi⟩ := s
    cases held with
    | rawStream c sh rest => cases sh <;> simp [nextEv, isClosing, expectedClose, regs]
    | _ => simp [nextEv, isClosing, expectedClose, regs]
  | freeze etag =>
    obtain ⟨r, cfg, held, sent, log, wsgi⟩ := s
    refine ⟨rfl, rfl, rfl, fun h => ?_, fun e => ?_⟩
    · simp only [nextEv]
      cases r.body.kind with
      | seq => exact h
      | stream c => exact isClosing_detach _ _ h
    · simp only [nextEv, regs, Nat.add_zero, expectedClose]
      cases hk : r.body.kind with
      | seq => simp
      | stream c =>
        cases c with
        | true => simp only [List.count_append, List.count_cons, List.count_nil]; omega
        | false => simp
  | setData _ => cases hq
  | streamWrite _ => cases hq
  | close => cases hq
  | getWsgi _ _ _ => cases hq
  | iterClose => cases hq

theorem quiet_run (evs : List REv) (s : St) (hq : evs.all quiet = true) :
    (runEvs s evs).log = s.log ∧ (runEvs s evs).r.status = s.r.status ∧
    (runEvs s evs).r.directPassthrough = s.r.directPassthrough ∧
    (isClosing s.held = true → isClosing (runEvs s evs).held = true) ∧
    ∀ e, (expectedClose (runEvs s evs).r).count e = (expectedClose s.r).count e + regs evs e := by
  induction evs generalizing s with
  | nil => exact ⟨rfl, rfl, rfl, fun h => h, fun e => by simp [runEvs, regs]⟩
  | cons ev t ih =>
    simp only [List.all_cons, Bool.and_eq_true] at hq
    obtain ⟨q1, q2, q3, q4, q5⟩ := quiet_step s ev hq.1
    obtain ⟨i1, i2, i3, i4, i5⟩ := ih (nextEv s ev).1 hq.2
    simp only [runEvs]
    refine ⟨i1.trans q1, i2.trans q2, i3.trans q3, fun h => i4 (q4 h), fun e => ?_⟩
    rw [i5 e, q5 e]
    have : regs (ev :: t) e = regs [ev] e + regs t e := regs_append [ev] t e
    omega

theorem runEvs_append (s : St) (a b : List REv) : runEvs s (a ++ b) = runEvs (runEvs s a) b := by
  induction a generalizing s with
  | nil => rfl
  | cons x t ih => simp only [List.cons_append, runEvs, ih]

/-- `headers.pop(key, None)` leaves no entry of that key (under any spelling) -/
theorem popKey_getlist (h : HList) (k k' : Str) (hk : lower k = lower k') :
    getlist (popKey h k' (some [])).1 k = [] := by
  rw [C16L.getlist_congr _ hk]
  simp only [popKey]
  cases hg : getKey h k' with
  | ok v => exact C16L.delKey_getlist _ _
  | error e =>
    simp only []
    apply C16L.not_contains_getlist
    unfold Hdr.contains
    unfold getKey at hg
    cases hf : h.find? (keyEq k') with
    | none => rfl
    | some p => rw [hf] at hg; cases hg

end Wz.C05L
