/-
Helper lemmas for C18, preemptive semantics: the global invariant "objects a running call may
mutate are private to that call" and its preservation by every primitive effect of every context.
Core Lean only.
-/
import WzVerif.Lemmas.Local
import WzVerif.Model.LocalFine
namespace Wz.Local

/-- object `id` belongs to the call context `c` is running on cell `v`, and to nothing else: no
other (context, cell) is bound to it and no other running call holds it in a register -/
def Private (fw : FWorld) (c v id : Nat) : Prop :=
  (∀ c' v', fw.w.ctxs c' v' = some id → c' = c ∧ v' = v) ∧
  (∀ c' f', c' ≠ c → fw.run c' = some f' → ∀ r, f'.rg r ≠ some id)

structure FrameOk (fw : FWorld) (c : Nat) (f : Active) : Prop where
  ctxLt : c < fw.w.nctx
  regsLt : ∀ r id, f.rg r = some id → id < fw.w.next
  cbw : cbwPath f.owned f.rest = true
  ownedPriv : ∀ r, r ∈ f.owned → ∃ id, f.rg r = some id ∧ Private fw c f.v id

structure FInv (fw : FWorld) : Prop where
  wf : WF fw.w
  frames : ∀ c f, fw.run c = some f → FrameOk fw c f

theorem finv_init : FInv FWorld.init :=
  ⟨wf_init, by intro c f h; simp [FWorld.init] at h⟩

/-! ### what one primitive effect does, in terms the global invariant needs -/

/-- world-level facts about one effect of a call of context `c` on cell `v` with registers `rg`,
owned registers `owned` -/
structure StepFacts (w : World) (c v : Nat) (rg : Regs) (owned : List Reg) (w' : World) : Prop where
  wf' : WF w'
  nctxEq : w'.nctx = w.nctx
  nextLe : w.next ≤ w'.next
  ctxOther : ∀ c' v', ¬(c' = c ∧ v' = v) → w'.ctxs c' v' = w.ctxs c' v'
  ctxHere : w'.ctxs c v = w.ctxs c v ∨ ∃ r id, rg r = some id ∧ w'.ctxs c v = some id
  heapKeep : ∀ id, id < w.next → (¬ ∃ r, r ∈ owned ∧ rg r = some id) → w'.heap id = w.heap id

/-- facts about the registers after the effect -/
structure FrameFacts (w : World) (c v : Nat) (rg : Regs) (owned : List Reg) (w' : World)
    (rg' : Regs) (owned' : List Reg) : Prop where
  regsLt' : ∀ r id, rg' r = some id → id < w'.next
  prov : ∀ r id, rg' r = some id → (∃ r0, rg r0 = some id) ∨ w.next ≤ id ∨ w.ctxs c v = some id
  ownedProv : ∀ r, r ∈ owned' → ∃ id, rg' r = some id ∧ (w.next ≤ id ∨ ∃ r0, r0 ∈ owned ∧ rg r0 = some id)

theorem stepFacts_refl {w : World} (hw : WF w) (c v : Nat) (rg : Regs) (owned : List Reg) :
    StepFacts w c v rg owned w :=
  ⟨hw, rfl, Nat.le_refl _, fun _ _ _ => rfl, Or.inl rfl, fun _ _ _ => rfl⟩

theorem stepFacts_alloc {w : World} (hw : WF w) (c v : Nat) (rg : Regs) (owned : List Reg) (o : Obj) :
    StepFacts w c v rg owned (alloc w o) := by
  refine ⟨wf_alloc hw o, rfl, by simp [alloc], fun _ _ _ => rfl, Or.inl rfl, ?_⟩
  intro id hid _
  have : id ≠ w.next := by omega
  simp [alloc, this]

theorem frameFacts_same {w : World} {c v : Nat} {rg : Regs} {owned : List Reg}
    (hr : ∀ r id, rg r = some id → id < w.next) (ho : ∀ r, r ∈ owned → ∃ id, rg r = some id)
    (w' : World) (hn : w'.next = w.next) :
    FrameFacts w c v rg owned w' rg owned :=
  ⟨fun r id h => by rw [hn]; exact hr r id h, fun r id h => Or.inl ⟨r, h⟩, fun r h => by
    obtain ⟨id, hid⟩ := ho r h
    exact ⟨id, hid, Or.inr ⟨r, h, hid⟩⟩⟩

/-- a freshly allocated object is put into register `d`, which becomes owned -/
theorem frameFacts_new {w : World} {c v : Nat} {rg : Regs} {owned : List Reg} (o : Obj) (d : Reg)
    (hr : ∀ r id, rg r = some id → id < w.next) (ho : ∀ r, r ∈ owned → ∃ id, rg r = some id)
    (owned' : List Reg) (hsub : ∀ r, r ∈ owned' → r = d ∨ r ∈ owned) :
    FrameFacts w c v rg owned (alloc w o) (setReg rg d w.next) owned' := by
  refine ⟨?_, ?_, ?_⟩
  · intro r id h
    simp only [setReg] at h
    split at h
    · cases h; simp [alloc]
    · have := hr r id h; simp [alloc]; omega
  · intro r id h
    simp only [setReg] at h
    split at h
    · cases h; exact Or.inr (Or.inl (Nat.le_refl _))
    · exact Or.inl ⟨r, h⟩
  · intro r hr'
    by_cases hrd : r = d
    · subst hrd; exact ⟨w.next, by simp [setReg], Or.inl (Nat.le_refl _)⟩
    · rcases hsub r hr' with h | h
      · exact absurd h hrd
      · obtain ⟨id, hid⟩ := ho r h
        exact ⟨id, by simp [setReg, hrd, hid], Or.inr ⟨r, h, hid⟩⟩

/-- the conclusion about one `stepOp` -/
def OpFacts (w : World) (c v : Nat) (rg : Regs) (owned owned' : List Reg) : Step → Prop
  | .cont f' => StepFacts w c v rg owned f'.w ∧ FrameFacts w c v rg owned f'.w f'.rg owned'
  | .ret w' _ => StepFacts w c v rg owned w'
  | .skip => True

theorem stepOp_facts {w : World} (hw : WF w) (c v : Nat) (a : Args) (rg : Regs) (acc : Option Nat)
    (owned : List Reg) (hr : ∀ r id, rg r = some id → id < w.next)
    (ho : ∀ r, r ∈ owned → ∃ id, rg r = some id) (op : Op) (hok : opOk owned op = true) :
    OpFacts w c v rg owned (ownedAfter owned op) (stepOp c v a { w := w, rg := rg, acc := acc } op) := by
  have hsame := frameFacts_same (c := c) (v := v) hr ho w rfl
  have hrefl := stepFacts_refl hw c v rg owned
  cases op with
  | load d isList =>
    simp only [stepOp, ownedAfter]
    cases hb : w.ctxs c v with
    | some id =>
      refine ⟨hrefl, ?_, ?_, ?_⟩
      · intro r id' h
        simp only [setReg] at h
        split at h
        · cases h; exact hw c v id hb
        · exact hr r id' h
      · intro r id' h
        simp only [setReg] at h
        split at h
        · cases h; exact Or.inr (Or.inr hb)
        · exact Or.inl ⟨r, h⟩
      · intro r hr'
        have hm := List.mem_filter.mp hr'
        have hne : r ≠ d := by simpa using hm.2
        obtain ⟨id', hid'⟩ := ho r hm.1
        exact ⟨id', by simp [setReg, hne, hid'], Or.inr ⟨r, hm.1, hid'⟩⟩
    | none =>
      refine ⟨stepFacts_alloc hw c v rg owned _, frameFacts_new _ d hr ho _ ?_⟩
      intro r hr'
      exact Or.inr (List.mem_filter.mp hr').1
  | copy d s =>
    simp only [stepOp, ownedAfter]
    cases rg s with
    | none => exact hrefl
    | some id =>
      refine ⟨stepFacts_alloc hw c v rg owned _, frameFacts_new _ d hr ho _ ?_⟩
      intro r hr'
      rcases List.mem_cons.mp hr' with h | h
      · exact Or.inl h
      · exact Or.inr h
  | fresh d isList =>
    refine ⟨stepFacts_alloc hw c v rg owned _, frameFacts_new _ d hr ho _ ?_⟩
    intro r hr'
    rcases List.mem_cons.mp hr' with h | h
    · exact Or.inl h
    · exact Or.inr h
  | sliceInit d s =>
    simp only [stepOp, ownedAfter]
    cases rg s with
    | none => exact hrefl
    | some id =>
      simp only
      cases w.heap id with
      | dict kv => exact hrefl
      | list xs =>
        refine ⟨stepFacts_alloc hw c v rg owned _, frameFacts_new _ d hr ho _ ?_⟩
        intro r hr'
        rcases List.mem_cons.mp hr' with h | h
        · exact Or.inl h
        · exact Or.inr h
  | setItem r =>
    have hmem : r ∈ owned := by simpa [opOk] using hok
    obtain ⟨id, hid⟩ := ho r hmem
    simp only [stepOp, ownedAfter, hid]
    refine ⟨⟨hw, rfl, Nat.le_refl _, fun _ _ _ => rfl, Or.inl rfl, ?_⟩,
      frameFacts_same (c := c) (v := v) hr ho _ rfl⟩
    intro id' _ hno
    have : id' ≠ id := fun e => hno ⟨r, hmem, e ▸ hid⟩
    simp [mutate, this]
  | delItem r =>
    have hmem : r ∈ owned := by simpa [opOk] using hok
    obtain ⟨id, hid⟩ := ho r hmem
    simp only [stepOp, ownedAfter, hid]
    refine ⟨⟨hw, rfl, Nat.le_refl _, fun _ _ _ => rfl, Or.inl rfl, ?_⟩,
      frameFacts_same (c := c) (v := v) hr ho _ rfl⟩
    intro id' _ hno
    have : id' ≠ id := fun e => hno ⟨r, hmem, e ▸ hid⟩
    simp [mutate, this]
  | append r =>
    have hmem : r ∈ owned := by simpa [opOk] using hok
    obtain ⟨id, hid⟩ := ho r hmem
    simp only [stepOp, ownedAfter, hid]
    refine ⟨⟨hw, rfl, Nat.le_refl _, fun _ _ _ => rfl, Or.inl rfl, ?_⟩,
      frameFacts_same (c := c) (v := v) hr ho _ rfl⟩
    intro id' _ hno
    have : id' ≠ id := fun e => hno ⟨r, hmem, e ▸ hid⟩
    simp [mutate, this]
  | store r =>
    simp only [stepOp, ownedAfter]
    cases hid : rg r with
    | none => exact hrefl
    | some id =>
      refine ⟨⟨?_, rfl, Nat.le_refl _, ?_, Or.inr ⟨r, id, hid, by simp [bindVar]⟩, fun _ _ _ => rfl⟩,
        frameFacts_same (c := c) (v := v) hr ho _ rfl⟩
      · intro c' v' id' h
        simp only [bindVar] at h
        split at h
        · cases h; exact hr r id hid
        · exact hw c' v' id' h
      · intro c' v' hne
        simp [bindVar, hne]
  | assumeContains r b =>
    simp only [stepOp, ownedAfter]
    cases rg r with
    | none => exact hrefl
    | some id =>
      simp only
      split
      · exact ⟨hrefl, hsame⟩
      · trivial
  | assumeEmpty r b =>
    simp only [stepOp, ownedAfter]
    cases rg r with
    | none => exact hrefl
    | some id =>
      simp only
      split
      · exact ⟨hrefl, hsame⟩
      · trivial
  | peekLast r =>
    simp only [stepOp, ownedAfter]
    cases rg r with
    | none => exact hrefl
    | some id =>
      simp only
      cases w.heap id with
      | dict kv => exact hrefl
      | list xs => exact ⟨hrefl, hsame⟩
  | retAcc => exact hrefl
  | retNone => exact hrefl
  | retItem r =>
    simp only [stepOp]
    cases rg r with
    | none => exact hrefl
    | some id => simp only; cases w.heap id <;> exact hrefl
  | retItems r =>
    simp only [stepOp]
    cases rg r with
    | none => exact hrefl
    | some id => simp only; cases w.heap id <;> exact hrefl
  | retLast r =>
    simp only [stepOp]
    cases rg r with
    | none => exact hrefl
    | some id => simp only; cases w.heap id <;> exact hrefl
  | retReg r =>
    simp only [stepOp]
    cases rg r with
    | none => exact hrefl
    | some id => simp only; cases w.heap id <;> exact hrefl
  | raiseAttr => exact hrefl

/-! ### the global invariant is preserved by replacing one context's frame after one effect -/

theorem finv_update {fw : FWorld} (hinv : FInv fw) {c : Nat} {f : Active} (hf : fw.run c = some f)
    {w' : World} (hs : StepFacts fw.w c f.v f.rg f.owned w') (fo : Option Active)
    (hfo : ∀ f', fo = some f' → f'.v = f.v ∧ cbwPath f'.owned f'.rest = true ∧
      FrameFacts fw.w c f.v f.rg f.owned w' f'.rg f'.owned) :
    FInv { w := w', run := setRun fw.run c fo } ∧
    ∀ c' v', c' < fw.w.nctx → ¬(c' = c ∧ v' = f.v) → obs w' c' v' = obs fw.w c' v' := by
  have hF := hinv.frames c f hf
  refine ⟨⟨hs.wf', ?_⟩, ?_⟩
  · intro c2 f2 h2
    simp only [setRun] at h2
    by_cases hc2 : c2 = c
    · -- the updated frame of context c
      subst hc2
      simp only [if_true] at h2
      obtain ⟨hv, hcbw, hff⟩ := hfo f2 h2
      refine ⟨by simp only [hs.nctxEq]; exact hF.ctxLt, hff.regsLt', hcbw, ?_⟩
      intro r hr
      obtain ⟨id, hid, hprov⟩ := hff.ownedProv r hr
      refine ⟨id, hid, ?_, ?_⟩
      · intro c' v' hb
        rw [hv]
        by_cases hcv : c' = c2 ∧ v' = f.v
        · exact hcv
        · exfalso
          rw [hs.ctxOther c' v' hcv] at hb
          rcases hprov with hfresh | ⟨r0, hr0, hid0⟩
          · have := hinv.wf c' v' id hb; omega
          · obtain ⟨id0, hid0', hpriv⟩ := hF.ownedPriv r0 hr0
            rw [hid0] at hid0'; cases hid0'
            exact hcv (hpriv.1 c' v' hb)
      · intro c' f' hne hrun r' hreg
        simp only [setRun, hne, if_false] at hrun
        rcases hprov with hfresh | ⟨r0, hr0, hid0⟩
        · have := (hinv.frames c' f' hrun).regsLt r' id hreg; omega
        · obtain ⟨id0, hid0', hpriv⟩ := hF.ownedPriv r0 hr0
          rw [hid0] at hid0'; cases hid0'
          exact hpriv.2 c' f' hne hrun r' hreg
    · -- an untouched frame of another context
      simp only [hc2, if_false] at h2
      have hF2 := hinv.frames c2 f2 h2
      refine ⟨by simp only [hs.nctxEq]; exact hF2.ctxLt, ?_, hF2.cbw, ?_⟩
      · intro r id h
        have := hF2.regsLt r id h
        have := hs.nextLe
        simp only; omega
      · intro r hr
        obtain ⟨id, hid, hpriv⟩ := hF2.ownedPriv r hr
        refine ⟨id, hid, ?_, ?_⟩
        · intro c' v' hb
          by_cases hcv : c' = c ∧ v' = f.v
          · exfalso
            rw [hcv.1, hcv.2] at hb
            rcases hs.ctxHere with hold | ⟨r0, id0, hr0, hnew⟩
            · rw [hold] at hb
              exact hc2 (hpriv.1 c f.v hb).1.symm
            · rw [hnew] at hb; cases hb
              exact hpriv.2 c f (fun e => hc2 e.symm) hf r0 hr0
          · rw [hs.ctxOther c' v' hcv] at hb
            exact hpriv.1 c' v' hb
        · intro c' f' hne hrun r' hreg
          simp only [setRun] at hrun
          by_cases hcc : c' = c
          · subst hcc
            simp only [if_true] at hrun
            obtain ⟨_, _, hff⟩ := hfo f' hrun
            rcases hff.prov r' id hreg with ⟨r0, hr0⟩ | hfresh | hbound
            · exact hpriv.2 c' f hne hf r0 hr0
            · have := hF2.regsLt r id hid; omega
            · exact hc2 (hpriv.1 c' f.v hbound).1.symm
          · simp only [hcc, if_false] at hrun
            exact hpriv.2 c' f' hne hrun r' hreg
  · intro c' v' hc' hne
    unfold obs
    rw [hs.ctxOther c' v' hne]
    cases hb : fw.w.ctxs c' v' with
    | none => rfl
    | some id =>
      simp only [Option.map_some, Option.some.injEq]
      apply hs.heapKeep id (hinv.wf c' v' id hb)
      rintro ⟨r, hr, hid⟩
      obtain ⟨id0, hid0, hpriv⟩ := hF.ownedPriv r hr
      rw [hid] at hid0; cases hid0
      exact hne (hpriv.1 c' v' hb)

/-- dropping the frame of a context whose call is over -/
theorem finv_drop {fw : FWorld} (hinv : FInv fw) {c : Nat} {f : Active} (hf : fw.run c = some f) :
    FInv { fw with run := setRun fw.run c none } :=
  (finv_update hinv hf (stepFacts_refl hinv.wf c f.v f.rg f.owned) none (by intro f' h; cases h)).1

theorem fstep_inv {fw : FWorld} (hinv : FInv fw) (e : FEvent) (he : e.cbw) :
    FInv (fstep fw e) ∧ fw.w.nctx ≤ (fstep fw e).w.nctx ∧
    ∀ c' v', c' < fw.w.nctx → ¬ e.touches fw c' v' → obs (fstep fw e).w c' v' = obs fw.w c' v' := by
  cases e with
  | «begin» c v path a =>
    simp only [fstep]
    split
    · rename_i hcond
      refine ⟨⟨hinv.wf, ?_⟩, Nat.le_refl _, fun _ _ _ _ => rfl⟩
      intro c2 f2 h2
      simp only [setRun] at h2
      by_cases hc2 : c2 = c
      · subst hc2
        simp only [if_true, Option.some.injEq] at h2
        subst h2
        exact ⟨hcond.1, (by intro r id h; cases h), he, (by intro r hr; cases hr)⟩
      · simp only [hc2, if_false] at h2
        have hF2 := hinv.frames c2 f2 h2
        refine ⟨hF2.ctxLt, hF2.regsLt, hF2.cbw, ?_⟩
        intro r hr
        obtain ⟨id, hid, hpriv⟩ := hF2.ownedPriv r hr
        refine ⟨id, hid, hpriv.1, ?_⟩
        intro c' f' hne hrun r' hreg
        simp only [setRun] at hrun
        by_cases hcc : c' = c
        · subst hcc
          simp only [if_true, Option.some.injEq] at hrun
          subst hrun
          cases hreg
        · simp only [hcc, if_false] at hrun
          exact hpriv.2 c' f' hne hrun r' hreg
    · exact ⟨hinv, Nat.le_refl _, fun _ _ _ _ => rfl⟩
  | step c =>
    simp only [fstep]
    cases hf : fw.run c with
    | none => exact ⟨hinv, Nat.le_refl _, fun _ _ _ _ => rfl⟩
    | some f =>
      have hF := hinv.frames c f hf
      have hown : ∀ r, r ∈ f.owned → ∃ id, f.rg r = some id := fun r hr => by
        obtain ⟨id, hid, _⟩ := hF.ownedPriv r hr; exact ⟨id, hid⟩
      have hnt : ∀ c' v', ¬ (FEvent.step c).touches fw c' v' → ¬(c' = c ∧ v' = f.v) := by
        intro c' v' h hcv
        exact h ⟨hcv.1.symm, f, hf, hcv.2.symm⟩
      simp only
      cases hrest : f.rest with
      | nil =>
        exact ⟨finv_drop hinv hf, Nat.le_refl _, fun _ _ _ _ => rfl⟩
      | cons op t =>
        have hcb := hF.cbw
        rw [hrest] at hcb
        simp only [cbwPath, Bool.and_eq_true] at hcb
        have hfacts := stepOp_facts hinv.wf c f.v f.a f.rg f.acc f.owned hF.regsLt hown op hcb.1
        simp only
        cases hstep : stepOp c f.v f.a { w := fw.w, rg := f.rg, acc := f.acc } op with
        | cont f' =>
          rw [hstep] at hfacts
          obtain ⟨h1, h2⟩ := finv_update hinv hf hfacts.1
            (some { f with rest := t, rg := f'.rg, acc := f'.acc, owned := ownedAfter f.owned op })
            (by intro f'' h; cases h; exact ⟨rfl, hcb.2, hfacts.2⟩)
          exact ⟨h1, by simp only [hfacts.1.nctxEq]; exact Nat.le_refl _,
            fun c' v' hc' hn => h2 c' v' hc' (hnt c' v' hn)⟩
        | ret w' r =>
          rw [hstep] at hfacts
          obtain ⟨h1, h2⟩ := finv_update hinv hf hfacts none (by intro f'' h; cases h)
          exact ⟨h1, by simp only [hfacts.nctxEq]; exact Nat.le_refl _,
            fun c' v' hc' hn => h2 c' v' hc' (hnt c' v' hn)⟩
        | skip =>
          exact ⟨finv_drop hinv hf, Nat.le_refl _, fun _ _ _ _ => rfl⟩
  | copyCtx parent =>
    simp only [fstep]
    split
    · rename_i hidle
      obtain ⟨h1, h2, h3⟩ := stepEvent_inv hinv.wf (.copyCtx parent) trivial
      refine ⟨⟨h1, ?_⟩, h2, fun c' v' hc' _ => h3 c' v' hc' (by simp [Event.touches])⟩
      intro c2 f2 hr2
      have hF2 := hinv.frames c2 f2 hr2
      refine ⟨Nat.lt_of_lt_of_le hF2.ctxLt h2, hF2.regsLt, hF2.cbw, ?_⟩
      intro r hr
      obtain ⟨id, hid, hpriv⟩ := hF2.ownedPriv r hr
      refine ⟨id, hid, ?_, hpriv.2⟩
      intro c' v' hb
      simp only [stepEvent] at hb
      split at hb
      · split at hb
        · -- the child inherits the parent's binding: the parent is idle, so it is not `c2`
          have := (hpriv.1 parent v' hb).1
          subst this
          rw [hr2] at hidle; simp at hidle
        · cases hb
      · exact hpriv.1 c' v' hb
    · exact ⟨hinv, Nat.le_refl _, fun _ _ _ _ => rfl⟩
  | freshCtx =>
    obtain ⟨h1, h2, h3⟩ := stepEvent_inv hinv.wf .freshCtx trivial
    refine ⟨⟨h1, ?_⟩, h2, fun c' v' hc' _ => h3 c' v' hc' (by simp [Event.touches])⟩
    intro c2 f2 hr2
    have hF2 := hinv.frames c2 f2 hr2
    refine ⟨Nat.lt_of_lt_of_le hF2.ctxLt h2, hF2.regsLt, hF2.cbw, ?_⟩
    intro r hr
    obtain ⟨id, hid, hpriv⟩ := hF2.ownedPriv r hr
    refine ⟨id, hid, ?_, hpriv.2⟩
    intro c' v' hb
    simp only [fstep, stepEvent] at hb
    split at hb
    · cases hb
    · exact hpriv.1 c' v' hb

theorem frun_inv {fw : FWorld} (hinv : FInv fw) :
    ∀ (es : List FEvent), (∀ e ∈ es, e.cbw) →
    FInv (frun fw es) ∧ fw.w.nctx ≤ (frun fw es).w.nctx ∧
    ∀ c' v', c' < fw.w.nctx → NoTouchF c' v' fw es → obs (frun fw es).w c' v' = obs fw.w c' v' := by
  intro es
  induction es generalizing fw with
  | nil => intro _; exact ⟨hinv, Nat.le_refl _, fun _ _ _ _ => rfl⟩
  | cons e t ih =>
    intro hc
    obtain ⟨h1, h2, h3⟩ := fstep_inv hinv e (hc e (by simp))
    obtain ⟨g1, g2, g3⟩ := ih h1 (fun x hx => hc x (List.mem_cons_of_mem _ hx))
    simp only [frun, List.foldl_cons] at g1 g2 g3 ⊢
    refine ⟨g1, Nat.le_trans h2 g2, ?_⟩
    intro c' v' hc' hnt
    rw [g3 c' v' (by omega) hnt.2]
    exact h3 c' v' hc' hnt.1

/-! ### the atomic semantics is one of the schedules -/

theorem setRun_setRun (run : Nat → Option Active) (c : Nat) (a b : Option Active) :
    setRun (setRun run c a) c b = setRun run c b := by
  funext c'; simp only [setRun]; split <;> rfl

theorem steps_idle (c : Nat) : ∀ (n : Nat) (fw : FWorld), fw.run c = none → frun fw (stepsOf c n) = fw
  | 0, _, _ => rfl
  | n + 1, fw, h => by
    simp only [stepsOf, frun, List.foldl_cons]
    have : fstep fw (.step c) = fw := by simp [fstep, h]
    rw [this]
    exact steps_idle c n fw h

/-- running the remaining effects of a frame without interruption is `runPath` -/
theorem steps_eq_runPath (c : Nat) :
    ∀ (rest : Path) (fw : FWorld) (f : Active), fw.run c = some f → f.rest = rest →
    ∀ w' r, runPath c f.v f.a { w := fw.w, rg := f.rg, acc := f.acc } rest = some (w', r) →
    frun fw (stepsOf c (rest.length + 1)) = { w := w', run := setRun fw.run c none }
  | [], fw, f, hf, hrest, w', r, hrun => by
    simp only [runPath, Option.some.injEq, Prod.mk.injEq] at hrun
    simp only [List.length_nil, stepsOf, frun, List.foldl_cons, List.foldl_nil, fstep, hf, hrest]
    rw [← hrun.1]
  | op :: t, fw, f, hf, hrest, w', r, hrun => by
    simp only [runPath] at hrun
    have hlen : stepsOf c ((op :: t).length + 1) = .step c :: stepsOf c (t.length + 1) := rfl
    rw [hlen]
    simp only [frun, List.foldl_cons]
    cases hstep : stepOp c f.v f.a { w := fw.w, rg := f.rg, acc := f.acc } op with
    | cont f' =>
      rw [hstep] at hrun
      have h1 : fstep fw (.step c) =
          { w := f'.w, run := setRun fw.run c (some { f with rest := t, rg := f'.rg, acc := f'.acc, owned := ownedAfter f.owned op }) } := by
        simp [fstep, hf, hrest, hstep]
      rw [h1]
      have hget : ∀ (x : Option Active), setRun fw.run c x c = x := fun x => by unfold setRun; simp
      have := steps_eq_runPath c t
        { w := f'.w, run := setRun fw.run c (some { f with rest := t, rg := f'.rg, acc := f'.acc, owned := ownedAfter f.owned op }) }
        { f with rest := t, rg := f'.rg, acc := f'.acc, owned := ownedAfter f.owned op }
        (hget _) rfl w' r hrun
      simp only [frun] at this
      rw [this, setRun_setRun]
    | ret w'' r'' =>
      rw [hstep] at hrun
      simp only [Option.some.injEq, Prod.mk.injEq] at hrun
      have h1 : fstep fw (.step c) = { w := w'', run := setRun fw.run c none } := by
        simp [fstep, hf, hrest, hstep]
      rw [h1]
      have := steps_idle c (t.length + 1) { w := w'', run := setRun fw.run c none }
        (by show setRun fw.run c none c = none; unfold setRun; simp)
      simp only [frun] at this
      rw [this, hrun.1]
    | skip =>
      rw [hstep] at hrun
      cases hrun

end Wz.Local
