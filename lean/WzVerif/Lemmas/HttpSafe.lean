import WzVerif.Lemmas.HttpInt
set_option linter.unusedSimpArgs false
namespace Wz.Http
open Wz

/-! ### exception safety: no parser lets a Python exception escape -/

/-- the computation returns a value (no exception escapes) -/
def Safe {α : Type} (x : Except String α) : Prop := ∃ a, x = .ok a

theorem Safe.ok {α : Type} (a : α) : Safe (Except.ok a : Except String α) := ⟨a, rfl⟩

theorem Safe.bind {α β : Type} {x : Except String α} {f : α → Except String β}
    (hx : Safe x) (hf : ∀ a, Safe (f a)) : Safe (x >>= f) := by
  obtain ⟨a, rfl⟩ := hx
  exact hf a

theorem foldlM_safe {α β : Type} (f : β → α → Except String β) (l : List α) (init : β)
    (h : ∀ b a, Safe (f b a)) : Safe (l.foldlM f init) := by
  induction l generalizing init with
  | nil => exact ⟨init, rfl⟩
  | cons x t ih =>
    rw [List.foldlM_cons]
    obtain ⟨b, hb⟩ := h init x
    rw [hb]
    exact ih b

theorem mapM_safe {α β : Type} (f : α → Except String β) (l : List α) (h : ∀ a, Safe (f a)) :
    Safe (l.mapM f) := by
  induction l with
  | nil => exact ⟨[], rfl⟩
  | cons x t ih =>
    rw [List.mapM_cons]
    obtain ⟨b, hb⟩ := h x
    obtain ⟨bs, hbs⟩ := ih
    rw [hb, hbs]
    exact ⟨b :: bs, rfl⟩

/-- the only exception class a computation can raise -/
def OnlyRaises {α : Type} (cls : List String) (x : Except String α) : Prop :=
  ∀ e, x = .error e → e ∈ cls

theorem catching_safe {α : Type} {cls : List String} {x : Except String α} {h : α}
    (hx : OnlyRaises cls x) : Safe (catching cls x h) := by
  unfold catching
  cases x with
  | ok a => exact ⟨a, rfl⟩
  | error e =>
    have := hx e rfl
    have hc : cls.contains e = true := by simpa using this
    simp only [hc, if_true]
    exact ⟨h, rfl⟩

theorem onlyRaises_map {α β : Type} {cls : List String} {x : Except String α} (f : α → β)
    (hx : OnlyRaises cls x) : OnlyRaises cls (x.map f) := by
  intro e he
  cases x with
  | ok a => simp [Except.map] at he
  | error e' => simp [Except.map] at he; subst he; exact hx e' rfl

theorem plainInt_onlyRaises (s : Str) : OnlyRaises ["ValueError"] (plainInt s) := by
  intro e he
  unfold plainInt at he
  simp only at he
  split at he
  · simp at he
  · simp at he; subst he; simp

theorem pyInt_onlyRaises (s : Str) : OnlyRaises ["ValueError"] (pyInt s) := by
  intro e he
  unfold pyInt at he
  simp only at he
  split at he
  · simp at he
  · simp at he; subst he; simp

theorem last!_safe {k : Str} (h : k.isEmpty = false) : Safe (last! k) := by
  cases k with
  | nil => simp at h
  | cons a t =>
    unfold last!
    cases hg : (a :: t).getLast? with
    | none => simp at hg
    | some c => exact ⟨c, rfl⟩

theorem first!_safe {k : Str} (h : k ≠ []) : Safe (first! k) := by
  cases k with
  | nil => exact absurd rfl h
  | cons a t => exact ⟨a, rfl⟩

/-- `parse_dict_header` item: `key[-1]` is only evaluated on a non-empty key -/
theorem dictItem_safe (item : Str) : Safe (dictItem item) := by
  unfold dictItem
  simp only
  generalize hp : partition '=' item = p
  obtain ⟨key0, has, value0⟩ := p
  simp only
  by_cases hk : (strip key0).isEmpty = true
  · simp [hk]; exact ⟨none, rfl⟩
  · simp only [hk, Bool.false_eq_true, if_false]
    cases has with
    | false => simp; exact ⟨_, rfl⟩
    | true =>
      simp only [Bool.not_true, Bool.false_eq_true, if_false]
      obtain ⟨l, hl⟩ := last!_safe (k := strip key0) (by simpa using hk)
      rw [hl]
      simp only [ok_bind]
      by_cases hs : (l == '*') = true
      · simp only [hs, if_true]
        by_cases he : (strip key0).dropLast.isEmpty = true
        · simp [he]; exact ⟨none, rfl⟩
        · simp [he]; exact ⟨_, rfl⟩
      · simp [hs]; exact ⟨_, rfl⟩

theorem parseDictHeader_safe (s : Str) : Safe (parseDictHeader s) := by
  unfold parseDictHeader
  apply foldlM_safe
  intro d item
  unfold dictStep
  obtain ⟨r, hr⟩ := dictItem_safe item
  rw [hr]
  cases r with
  | none => exact ⟨d, rfl⟩
  | some kv => exact ⟨_, rfl⟩

end Wz.Http
