/-
Helper lemmas for C08, second part: immutable variants over the generated blocker table, bulk
updates, CombinedMultiDict as a merged multimap, pickling / equality / hashing.
-/
import WzVerif.Lemmas.Containers
namespace Wz.C08L
open Wz PyDict

/-! ### immutable variants -/
section Imm
variable {σ ρ : Type}

theorem call_blocked (cls name : String) (run : σ → σ × Except String ρ) (c : σ)
    (h : (Imm.blocked cls).contains name = true) : Imm.call cls name run c = (c, .error "TypeError") := by
  unfold Imm.call
  rw [if_pos h]

/-- a history of method calls on an immutable instance: (method name, inherited implementation) -/
def immRun (cls : String) (c : σ) : List (String × (σ → σ × Except String ρ)) → σ × List (Except String ρ)
  | [] => (c, [])
  | (name, run) :: t =>
    let r := Imm.call cls name run c
    let rest := immRun cls r.1 t
    (rest.1, r.2 :: rest.2)

theorem immRun_unchanged (cls : String) (c : σ) (calls : List (String × (σ → σ × Except String ρ)))
    (h : ∀ call ∈ calls, (Imm.blocked cls).contains call.1 = true) :
    immRun cls c calls = (c, calls.map fun _ => .error "TypeError") := by
  induction calls with
  | nil => rfl
  | cons x t ih =>
    obtain ⟨name, run⟩ := x
    have hx := h (name, run) List.mem_cons_self
    have ht := ih (fun call hc => h call (List.mem_cons_of_mem _ hc))
    simp only [immRun, call_blocked cls name run c hx, ht, List.map_cons]

end Imm

/-! ### MultiDict bulk operations -/
section Bulk
variable {κ ν : Type} [DecidableEq κ]
open MD

theorem getlist_add (c : MD.St κ ν) (k k' : κ) (v : ν) :
    MD.getlist (MD.add c k v) k' = if k' = k then MD.getlist c k ++ [v] else MD.getlist c k' := by
  unfold MD.getlist MD.add PyDict.get?
  by_cases hk : k' = k
  · subst hk
    simp only [if_true]
    cases h : c.lookup k' with
    | none => simp [lookup_set_self]
    | some vs => simp [lookup_set_self]
  · simp only [hk, if_false]
    cases h : c.lookup k with
    | none => simp only []; rw [lookup_set_ne _ _ _ _ hk]
    | some vs => simp only []; rw [lookup_set_ne _ _ _ _ hk]

/-- after adding the pairs `ps` one by one, every key has its old values followed by the values
`ps` gives it, in order -/
theorem getlist_addAll (c : MD.St κ ν) (ps : List (κ × ν)) (k : κ) :
    MD.getlist (MD.addAll c ps) k = MD.getlist c k ++ (ps.filter (fun p => p.1 == k)).map (·.2) := by
  induction ps generalizing c with
  | nil => simp [MD.addAll]
  | cons p t ih =>
    obtain ⟨pk, pv⟩ := p
    simp only [MD.addAll, ih, getlist_add, List.filter_cons]
    by_cases hk : k = pk
    · subst hk; simp
    · have : (pk == k) = false := by simpa using fun h => hk h.symm
      simp [hk, this]

theorem keys_add (c : MD.St κ ν) (k : κ) (v : ν) :
    keys (MD.add c k v) = if k ∈ keys c then keys c else keys c ++ [k] := by
  unfold MD.add PyDict.get?
  cases h : c.lookup k with
  | none =>
    have : k ∉ keys c := by rw [mem_keys_iff_lookup, h]; simp
    simp [keys_set, this]
  | some vs =>
    have : k ∈ keys c := by rw [mem_keys_iff_lookup, h]; simp
    simp [keys_set, this]

theorem lookup_erase {α : Type} (d : Dict κ α) (hn : NodupKeys d) (k k' : κ) :
    (erase d k).lookup k' = if k' = k then none else d.lookup k' := by
  induction d with
  | nil => simp [erase]
  | cons e t ih =>
    obtain ⟨ek, ev⟩ := e
    simp only [NodupKeys, List.map_cons, List.nodup_cons] at hn
    simp only [erase]
    by_cases hk : ek = k
    · subst hk
      simp only [if_true]
      by_cases hk' : k' = ek
      · subst hk'
        simp only [if_true]
        cases hl : t.lookup k' with
        | none => rfl
        | some x =>
          exact absurd ((mem_keys_iff_lookup t k').2 (by rw [hl]; rfl)) (by simpa [keys] using hn.1)
      · have hb : (k' == ek) = false := by simpa using hk'
        simp [hk', List.lookup, hb]
    · simp only [hk, if_false, List.lookup]
      by_cases hk' : k' = k
      · subst hk'
        have hb : (k' == ek) = false := by simpa using fun e => hk e.symm
        simp only [hb, if_true]
        have := ih hn.2
        simpa using this
      · simp only [hk', if_false]
        cases hb : k' == ek with
        | true => rfl
        | false =>
          have := ih hn.2
          simpa [hk'] using this

theorem getlist_set (c : MD.St κ ν) (k k' : κ) (vs : List ν) :
    MD.getlist (PyDict.set c k vs) k' = if k' = k then vs else MD.getlist c k' := by
  unfold MD.getlist PyDict.get?
  by_cases hk : k' = k
  · subst hk; simp [lookup_set_self]
  · simp [hk, lookup_set_ne _ _ _ _ hk]

theorem getlist_erase (c : MD.St κ ν) (hn : NodupKeys c) (k k' : κ) :
    MD.getlist (erase c k) k' = if k' = k then [] else MD.getlist c k' := by
  unfold MD.getlist PyDict.get?
  rw [lookup_erase c hn]
  by_cases hk : k' = k <;> simp [hk]

end Bulk

/-! ### CombinedMultiDict as the merge of the wrapped multimaps -/
section Combined
variable {κ ν : Type} [DecidableEq κ]
open MD MDSpec

/-- one step of `rv.setdefault(key, []).extend(values)` -/
def mergeStep (rv : Dict κ (List ν)) (e : κ × List ν) : Dict κ (List ν) :=
  match get? rv e.1 with
  | some vs => PyDict.set rv e.1 (vs ++ e.2)
  | none => PyDict.set rv e.1 e.2

/-- keys in order of first appearance -/
def firstOcc (acc : List κ) : List κ → List κ
  | [] => acc
  | k :: t => firstOcc (if k ∈ acc then acc else acc ++ [k]) t

theorem lists_eq_foldl (c : CMD.St κ ν) : CMD.lists c = c.flatten.foldl mergeStep [] := by
  unfold CMD.lists
  rw [List.foldl_flatten]
  rfl

theorem lookup_mergeStep (rv : Dict κ (List ν)) (e : κ × List ν) (k : κ) :
    (mergeStep rv e).lookup k =
      if k = e.1 then some ((rv.lookup e.1).getD [] ++ e.2) else rv.lookup k := by
  obtain ⟨ek, ev⟩ := e
  unfold mergeStep PyDict.get?
  by_cases hk : k = ek
  · subst hk
    cases h : rv.lookup k <;> simp [lookup_set_self]
  · simp only [hk, if_false]
    cases h : rv.lookup ek <;> simp only [] <;> rw [lookup_set_ne _ _ _ _ hk]

theorem keys_mergeStep (rv : Dict κ (List ν)) (e : κ × List ν) :
    keys (mergeStep rv e) = if e.1 ∈ keys rv then keys rv else keys rv ++ [e.1] := by
  unfold mergeStep PyDict.get?
  cases h : rv.lookup e.1 with
  | none =>
    have : e.1 ∉ keys rv := by rw [mem_keys_iff_lookup, h]; simp
    simp [keys_set, this]
  | some vs =>
    have : e.1 ∈ keys rv := by rw [mem_keys_iff_lookup, h]; simp
    simp [keys_set, this]

theorem nodup_mergeStep (rv : Dict κ (List ν)) (e : κ × List ν) (hn : NodupKeys rv) : NodupKeys (mergeStep rv e) := by
  unfold mergeStep
  cases PyDict.get? rv e.1 <;> exact nodupKeys_set _ _ _ hn

theorem keys_merge (rv : Dict κ (List ν)) (es : List (κ × List ν)) :
    keys (es.foldl mergeStep rv) = firstOcc (keys rv) (es.map (·.1)) := by
  induction es generalizing rv with
  | nil => rfl
  | cons e t ih => simp only [List.foldl_cons, List.map_cons, firstOcc, ih, keys_mergeStep]

theorem nodup_merge (rv : Dict κ (List ν)) (es : List (κ × List ν)) (hn : NodupKeys rv) :
    NodupKeys (es.foldl mergeStep rv) := by
  induction es generalizing rv with
  | nil => exact hn
  | cons e t ih => exact ih _ (nodup_mergeStep rv e hn)

theorem lookup_merge (rv : Dict κ (List ν)) (es : List (κ × List ν)) (k : κ) :
    (es.foldl mergeStep rv).lookup k =
      if k ∈ keys rv ∨ k ∈ es.map (·.1) then
        some ((rv.lookup k).getD [] ++ (es.filter (fun e => e.1 == k)).flatMap (·.2))
      else none := by
  induction es generalizing rv with
  | nil =>
    simp only [List.foldl_nil, List.map_nil, List.not_mem_nil, or_false, List.filter_nil, List.flatMap_nil,
      List.append_nil]
    by_cases h : k ∈ keys rv
    · simp only [h, if_true]
      have := (mem_keys_iff_lookup rv k).1 h
      cases hl : rv.lookup k with
      | none => rw [hl] at this; cases this
      | some v => rfl
    · simp only [h, if_false]
      cases hl : rv.lookup k with
      | none => rfl
      | some v => exact absurd ((mem_keys_iff_lookup rv k).2 (by rw [hl]; rfl)) h
  | cons e t ih =>
    obtain ⟨ek, ev⟩ := e
    simp only [List.foldl_cons, ih, lookup_mergeStep, keys_mergeStep, List.map_cons, List.mem_cons, List.filter_cons]
    by_cases hk : k = ek
    · subst hk
      have hmem : k ∈ (if k ∈ keys rv then keys rv else keys rv ++ [k]) := by
        by_cases h : k ∈ keys rv <;> simp [h]
      simp only [hmem, true_or, or_true, if_true, beq_self_eq_true, List.flatMap_cons, Option.getD_some,
        List.append_assoc]
    · have hb : (ek == k) = false := by simpa using fun h => hk h.symm
      have hmem : k ∈ (if ek ∈ keys rv then keys rv else keys rv ++ [ek]) ↔ k ∈ keys rv := by
        by_cases h : ek ∈ keys rv <;> simp [h, hk]
      simp only [hk, if_false, hb, hmem, false_or, Bool.false_eq_true]

theorem flatMap_filter_flatten (c : CMD.St κ ν) (k : κ) (hn : ∀ d ∈ c, NodupKeys d) :
    (c.flatten.filter (fun e => e.1 == k)).flatMap (·.2) = CMD.getlist c k := by
  unfold CMD.getlist
  induction c with
  | nil => rfl
  | cons d t ih =>
    have hd := hn d List.mem_cons_self
    have ht := ih (fun d' hd' => hn d' (List.mem_cons_of_mem _ hd'))
    simp only [List.flatten_cons, List.filter_append, List.flatMap_append, List.flatMap_cons, ht]
    congr 1
    have := MDLemmas.valuesOf_eq d hd k
    simp only [MDSpec.valuesOf] at this
    rw [this]; rfl

theorem contains_iff_flatten (c : CMD.St κ ν) (k : κ) :
    CMD.contains c k = true ↔ k ∈ c.flatten.map (·.1) := by
  simp only [CMD.contains, List.any_eq_true, has_iff, keys, List.mem_map, List.mem_flatten]
  constructor
  · rintro ⟨d, hd, e, he, rfl⟩; exact ⟨e, ⟨d, hd, he⟩, rfl⟩
  · rintro ⟨e, ⟨d, hd, he⟩, rfl⟩; exact ⟨d, hd, e, he, rfl⟩

/-- `CombinedMultiDict.lists()` / `to_dict(flat=False)`: keys are distinct, a key is listed iff some
wrapped dict has it, and its values are the wrapped dicts' value lists concatenated in order -/
theorem cmd_lists_spec (c : CMD.St κ ν) (hn : ∀ d ∈ c, NodupKeys d) :
    NodupKeys (CMD.lists c) ∧
    keys (CMD.lists c) = firstOcc [] (c.flatMap keys) ∧
    ∀ k, (CMD.lists c).lookup k = if CMD.contains c k then some (CMD.getlist c k) else none := by
  rw [lists_eq_foldl]
  refine ⟨nodup_merge _ _ (by simp [NodupKeys]), ?_, fun k => ?_⟩
  · rw [keys_merge]
    congr 1
    simp only [List.flatMap_def, List.map_flatten]
    rfl
  · rw [lookup_merge, flatMap_filter_flatten c k hn]
    have := contains_iff_flatten c k
    by_cases hc : CMD.contains c k = true
    · have hm := this.1 hc
      simp only [hc, if_true]
      rw [if_pos (Or.inr hm)]
      simp
    · have hc' : CMD.contains c k = false := by simpa using hc
      have hnm : k ∉ c.flatten.map (·.1) := fun h => hc (this.2 h)
      simp only [hc', Bool.false_eq_true, if_false]
      rw [if_neg]
      simpa [keys] using hnm

/-- `combined.get(key)`: the first wrapped dict that has the key answers -/
theorem cmd_get_first (c : CMD.St κ ν) (k : κ) :
    CMD.get c k = (match c.find? (has · k) with
      | some d => (MD.getitem d k).map some
      | none => .ok none) := by
  induction c with
  | nil => rfl
  | cons d t ih =>
    simp only [CMD.get, List.find?_cons]
    cases has d k <;> simp [ih]

/-- `combined.get(key, type=conv)`: the first wrapped dict that has the key *and* whose first value
converts answers; a failed conversion moves on to the next dict -/
theorem cmd_getTyped_first {τ : Type} (conv : ν → Option τ) (c : CMD.St κ ν) (k : κ)
    (hv : ∀ d ∈ c, has d k = true → ∃ v, MD.getitem d k = .ok v) :
    CMD.getTyped conv c k = .ok ((c.filterMap fun d => (MD.getTyped conv d k)).head?) := by
  induction c with
  | nil => rfl
  | cons d t ih =>
    have iht := ih (fun d' hd' => hv d' (List.mem_cons_of_mem _ hd'))
    simp only [CMD.getTyped, List.filterMap_cons]
    cases hh : has d k with
    | false =>
      have : MD.getTyped conv d k = none := by
        unfold MD.getTyped MD.getitem PyDict.get?
        unfold has at hh
        cases hl : d.lookup k with
        | none => rfl
        | some vs => simp [hl] at hh
      simp [this, iht]
    | true =>
      obtain ⟨v, hg⟩ := hv d List.mem_cons_self hh
      have hgt : MD.getTyped conv d k = conv v := by simp [MD.getTyped, hg]
      simp only [if_true, hg, hgt]
      cases hc : conv v with
      | some x => simp
      | none => simp [iht]

/-! #### `items()` / `values()` / `to_dict()` of a CombinedMultiDict: first wins -/

/-- keys of `ks` not seen before (`found` grows), in order -/
def newKeys (found : List κ) : List κ → List κ
  | [] => []
  | k :: t => if k ∈ found then newKeys found t else k :: newKeys (found ++ [k]) t

theorem firstOcc_eq_newKeys (acc ks : List κ) : firstOcc acc ks = acc ++ newKeys acc ks := by
  induction ks generalizing acc with
  | nil => simp [firstOcc, newKeys]
  | cons k t ih =>
    simp only [firstOcc, newKeys]
    by_cases h : k ∈ acc
    · simp [h, ih]
    · simp [h, ih]

theorem filter_notMem_snoc (t : List κ) (found : List κ) (k : κ) (hk : k ∉ t) :
    t.filter (fun x => !decide (x ∈ found ++ [k])) = t.filter (fun x => !decide (x ∈ found)) := by
  apply List.filter_congr
  intro x hx
  have : x ≠ k := fun e => hk (e ▸ hx)
  simp [this]

theorem newKeys_append (found ks rest : List κ) (hn : ks.Nodup) :
    newKeys found (ks ++ rest) =
      ks.filter (fun x => !decide (x ∈ found)) ++ newKeys (found ++ ks.filter (fun x => !decide (x ∈ found))) rest := by
  induction ks generalizing found with
  | nil => simp
  | cons k t ih =>
    have hk : k ∉ t := (List.nodup_cons.1 hn).1
    have ht := (List.nodup_cons.1 hn).2
    simp only [List.cons_append, newKeys, List.filter_cons]
    by_cases h : k ∈ found
    · simp only [h, if_true, decide_true, Bool.not_true, Bool.false_eq_true, if_false]
      exact ih found ht
    · simp only [h, if_false, decide_false, Bool.not_false, if_true]
      rw [ih (found ++ [k]) ht, filter_notMem_snoc t found k hk]
      simp

/-- the `(key, first value)` pairs of one dict -/
def pairsOf (d : MD.St κ ν) : List (κ × ν) := d.filterMap (fun e => e.2.head?.map (fun v => (e.1, v)))

theorem pairsOf_keys (d : MD.St κ ν) (h : ∀ e ∈ d, e.2 ≠ []) : (pairsOf d).map (·.1) = keys d := by
  induction d with
  | nil => rfl
  | cons e t ih =>
    obtain ⟨k, vs⟩ := e
    cases vs with
    | nil => exact absurd rfl (h (k, []) List.mem_cons_self)
    | cons v r =>
      have := ih (fun e he => h e (List.mem_cons_of_mem _ he))
      simp only [pairsOf] at this
      simp [pairsOf, keys, this]

theorem pairsOf_getitem (d : MD.St κ ν) (hn : NodupKeys d) (p : κ × ν) (hp : p ∈ pairsOf d) :
    has d p.1 = true ∧ MD.getitem d p.1 = .ok p.2 := by
  simp only [pairsOf, List.mem_filterMap] at hp
  obtain ⟨e, he, hm⟩ := hp
  obtain ⟨k, vs⟩ := e
  cases vs with
  | nil => simp at hm
  | cons v r =>
    simp only [List.head?_cons, Option.map_some, Option.some.injEq] at hm
    subst hm
    have hl : d.lookup k = some (v :: r) := by
      induction d with
      | nil => cases he
      | cons a t ih =>
        obtain ⟨ak, av⟩ := a
        simp only [NodupKeys, List.map_cons, List.nodup_cons] at hn
        rcases List.mem_cons.1 he with e | e
        · cases e; simp [List.lookup]
        · have hne : k ≠ ak := by
            intro e'; subst e'
            exact hn.1 (List.mem_map_of_mem (f := fun x => x.1) e)
          have hb : (k == ak) = false := by simpa using hne
          simp only [List.lookup, hb]
          exact ih hn.2 e
    simp [has, PyDict.get?, MD.getitem, hl]

/-- `CombinedMultiDict.items()` (hence `values()`, `to_dict()`): one pair per key of any wrapped
dict, keys in order of first appearance, each with the value `combined[key]` - the first value in the
first dict that has the key -/
theorem cmd_itemsFirst_spec (c : CMD.St κ ν) (hw : ∀ d ∈ c, MDSpec.WF d) (found : List κ) :
    ∃ l, CMD.itemsFirstAux found c = .ok l ∧ l.map (·.1) = newKeys found (c.flatMap keys) ∧
      ∀ p ∈ l, p.1 ∉ found ∧ CMD.getitem c p.1 = .ok p.2 := by
  induction c generalizing found with
  | nil => exact ⟨[], rfl, rfl, fun p hp => by cases hp⟩
  | cons d t ih =>
    have hd := hw d List.mem_cons_self
    have hps : MD.itemsFirst d = .ok (pairsOf d) := itemsFirst_wf d hd.2
    let new := (pairsOf d).filter (fun p => !found.contains p.1)
    obtain ⟨r, hr, hrk, hrp⟩ := ih (fun d' h' => hw d' (List.mem_cons_of_mem _ h')) (found ++ new.map (·.1))
    refine ⟨new ++ r, ?_, ?_, ?_⟩
    · simp only [CMD.itemsFirstAux, hps]
      have hr' : CMD.itemsFirstAux (found ++ List.map (fun x => x.1)
          (List.filter (fun p => !found.contains p.1) (pairsOf d))) t = .ok r := hr
      rw [hr']
    · have hkeys : new.map (·.1) = (keys d).filter (fun x => !decide (x ∈ found)) := by
        rw [← pairsOf_keys d hd.2]
        simp only [new, List.filter_map, Function.comp_def]
        congr 1
        apply List.filter_congr
        intro x _
        simp
      simp only [List.flatMap_cons, List.map_append]
      rw [newKeys_append found (keys d) _ hd.1, hrk, hkeys]
    · intro p hp
      rcases List.mem_append.1 hp with h | h
      · have hm := List.mem_filter.1 h
        have hnf : p.1 ∉ found := by simpa using hm.2
        obtain ⟨hh, hg⟩ := pairsOf_getitem d hd.1 p hm.1
        exact ⟨hnf, by simp [CMD.getitem, hh, hg]⟩
      · obtain ⟨hnf, hg⟩ := hrp p h
        have hnf1 : p.1 ∉ found := fun hm => hnf (List.mem_append_left _ hm)
        have hnd : has d p.1 = false := by
          cases hh : has d p.1 with
          | false => rfl
          | true =>
            exfalso
            have hk : p.1 ∈ keys d := (has_iff d p.1).1 hh
            rw [← pairsOf_keys d hd.2] at hk
            obtain ⟨q, hq, hqe⟩ := List.mem_map.1 hk
            apply hnf
            apply List.mem_append_right
            apply List.mem_map.2
            refine ⟨q, List.mem_filter.2 ⟨hq, ?_⟩, hqe⟩
            simpa [hqe] using hnf1
        exact ⟨hnf1, by simp [CMD.getitem, hnd, hg]⟩

end Combined

/-! ### pickling / copying / equality / hashing -/
section Pickle
variable {κ ν α : Type} [DecidableEq κ]
open MD MDSpec Pickle

theorem dictOf_append (acc : Dict κ α) (ps : List (κ × α)) (hn : NodupKeys (acc ++ ps)) :
    dictOf acc ps = acc ++ ps := by
  induction ps generalizing acc with
  | nil => simp [dictOf]
  | cons e t ih =>
    have hk : e.1 ∉ keys acc := by
      simp only [NodupKeys, List.map_append, List.map_cons] at hn
      have := (List.nodup_append.1 hn).2.2
      intro hm
      exact this _ hm _ List.mem_cons_self rfl
    have h' : NodupKeys ((acc ++ [e]) ++ t) := by simpa using hn
    simp only [dictOf, List.foldl_cons]
    rw [set_of_not_mem acc e.1 e.2 hk]
    have := ih (acc ++ [(e.1, e.2)]) (by simpa using h')
    simpa [dictOf] using this

theorem dictOf_self (d : Dict κ α) (hn : NodupKeys d) : dictOf [] d = d := by
  simpa using dictOf_append [] d (by simpa using hn)

theorem lookup_append_self (acc : Dict κ α) (k : κ) (w : α) (hk : k ∉ keys acc) :
    (acc ++ [(k, w)]).lookup k = some w := by
  induction acc with
  | nil => simp [List.lookup]
  | cons a r ihr =>
    obtain ⟨ak, av⟩ := a
    have hne : k ≠ ak := by intro e; apply hk; simp [keys, e]
    have hb : (k == ak) = false := by simpa using hne
    simp only [List.cons_append, List.lookup, hb]
    exact ihr (fun hm => hk (by simp only [keys, List.map_cons, List.mem_cons]; right; exact hm))

theorem set_append_self (acc : Dict κ α) (k : κ) (w w' : α) (hk : k ∉ keys acc) :
    PyDict.set (acc ++ [(k, w)]) k w' = acc ++ [(k, w')] := by
  induction acc with
  | nil => simp [PyDict.set]
  | cons x r ihr =>
    obtain ⟨xk, xv⟩ := x
    have hne : xk ≠ k := by intro e; apply hk; simp [keys, e]
    simp only [List.cons_append, PyDict.set, hne, if_false]
    rw [ihr (fun hm => hk (by simp only [keys, List.map_cons, List.mem_cons]; right; exact hm))]

/-- appending the values of one key to a dict that does not have it yet -/
theorem addAll_key (acc : MD.St κ ν) (k : κ) (ws vs : List ν) (hk : k ∉ keys acc) :
    MD.addAll (acc ++ [(k, ws)]) (vs.map fun v => (k, v)) = acc ++ [(k, ws ++ vs)] := by
  induction vs generalizing ws with
  | nil => simp [MD.addAll]
  | cons v t ih =>
    simp only [List.map_cons, MD.addAll]
    have hadd : MD.add (acc ++ [(k, ws)]) k v = acc ++ [(k, ws ++ [v])] := by
      unfold MD.add PyDict.get?
      rw [lookup_append_self acc k ws hk]
      exact set_append_self acc k ws (ws ++ [v]) hk
    rw [hadd, ih (ws ++ [v])]
    simp

theorem addAll_itemsMulti (acc c : MD.St κ ν) (hn : NodupKeys (acc ++ c)) (hne : ∀ e ∈ c, e.2 ≠ []) :
    MD.addAll acc (MD.itemsMulti c) = acc ++ c := by
  induction c generalizing acc with
  | nil => simp [MD.itemsMulti, MD.addAll]
  | cons e t ih =>
    obtain ⟨k, vs⟩ := e
    have hk : k ∉ keys acc := by
      simp only [NodupKeys, List.map_append, List.map_cons] at hn
      have := (List.nodup_append.1 hn).2.2
      intro hm
      exact this _ hm _ List.mem_cons_self rfl
    have hvs := hne (k, vs) List.mem_cons_self
    cases vs with
    | nil => exact absurd rfl hvs
    | cons v r =>
      have hsplit : MD.itemsMulti ((k, v :: r) :: t) = (k, v) :: ((r.map fun x => (k, x)) ++ MD.itemsMulti t) := by
        simp [MD.itemsMulti]
      rw [hsplit]
      simp only [MD.addAll]
      have hadd : MD.add acc k v = acc ++ [(k, [v])] := by
        unfold MD.add PyDict.get?
        have h0 : acc.lookup k = none := by
          cases h : acc.lookup k with
          | none => rfl
          | some x => exact absurd ((mem_keys_iff_lookup acc k).2 (by rw [h]; rfl)) hk
        rw [h0]
        exact set_of_not_mem acc k [v] hk
      rw [hadd]
      have happ : ∀ (a : MD.St κ ν) (l1 l2 : List (κ × ν)), MD.addAll a (l1 ++ l2) = MD.addAll (MD.addAll a l1) l2 := by
        intro a l1
        induction l1 generalizing a with
        | nil => intro l2; rfl
        | cons p q ihq => intro l2; obtain ⟨pk, pv⟩ := p; simp only [List.cons_append, MD.addAll]; exact ihq _ l2
      rw [happ, addAll_key acc k [v] r hk]
      have := ih (acc ++ [(k, [v] ++ r)]) (by simpa using hn) (fun e he => hne e (List.mem_cons_of_mem _ he))
      simpa using this

/-- pigeonhole: a duplicate-free list contained in a list that is not longer contains it -/
theorem subset_of_nodup_subset_length {β : Type} [DecidableEq β] :
    ∀ (a b : List β), a.Nodup → b.Nodup → (∀ x ∈ a, x ∈ b) → b.length ≤ a.length → ∀ x ∈ b, x ∈ a
  | [], b, _, _, _, hl => by
    intro x hx
    have : b = [] := List.eq_nil_of_length_eq_zero (by simpa using hl)
    subst this; cases hx
  | x :: a, b, ha, hb, hs, hl => by
    have hx : x ∈ b := hs x List.mem_cons_self
    have hxa : x ∉ a := (List.nodup_cons.1 ha).1
    have ih := subset_of_nodup_subset_length a (b.erase x) (List.nodup_cons.1 ha).2 (hb.erase x)
      (fun y hy => by
        rw [hb.mem_erase_iff]
        exact ⟨fun e => hxa (e ▸ hy), hs y (List.mem_cons_of_mem _ hy)⟩)
      (by rw [List.length_erase_of_mem hx]; simp only [List.length_cons] at hl; omega)
    intro y hy
    by_cases e : y = x
    · subst e; exact List.mem_cons_self
    · exact List.mem_cons_of_mem _ (ih y ((hb.mem_erase_iff).2 ⟨e, hy⟩))

theorem nodup_of_nodupKeys (d : Dict κ α) (hn : NodupKeys d) : d.Nodup := by
  unfold NodupKeys at hn
  exact List.Pairwise.of_map (fun e => e.1) (fun a b hab e => hab (by rw [e])) hn

theorem mem_of_lookup {d : Dict κ α} {k : κ} {v : α} (h : d.lookup k = some v) : (k, v) ∈ d := by
  induction d with
  | nil => cases h
  | cons e t ih =>
    obtain ⟨ek, ev⟩ := e
    by_cases hk : k = ek
    · subst hk
      simp only [List.lookup, beq_self_eq_true, Option.some.injEq] at h
      subst h; exact List.mem_cons_self
    · have hb : (k == ek) = false := by simpa using hk
      simp only [List.lookup, hb] at h
      exact List.mem_cons_of_mem _ (ih h)

/-- dict equality of two dicts with distinct keys: they have the same entries -/
theorem dictEq_same_entries [DecidableEq α] (a b : Dict κ α) (ha : NodupKeys a) (hb : NodupKeys b)
    (h : dictEq a b = true) : ∀ e, e ∈ a ↔ e ∈ b := by
  simp only [dictEq, Bool.and_eq_true, beq_iff_eq, List.all_eq_true] at h
  have hsub : ∀ e ∈ a, e ∈ b := fun e he => by
    have := h.2 e he
    exact mem_of_lookup (k := e.1) (v := e.2) (by simpa using this)
  have hrev := subset_of_nodup_subset_length a b (nodup_of_nodupKeys a ha) (nodup_of_nodupKeys b hb) hsub (by omega)
  exact fun e => ⟨hsub e, hrev e⟩

theorem construct_mapping_many (c : MD.St κ ν) (hne : ∀ e ∈ c, e.2 ≠ []) :
    MD.construct (some (.mapping (c.map fun e => (e.1, MD.MVal.many e.2)))) = dictOf [] c := by
  simp only [MD.construct, dictOf]
  generalize ([] : MD.St κ ν) = acc
  induction c generalizing acc with
  | nil => rfl
  | cons e t ih =>
    have he := hne e List.mem_cons_self
    have hemp : e.2.isEmpty = false := by cases h : e.2 with
      | nil => exact absurd h he
      | cons _ _ => rfl
    simp only [List.map_cons, List.foldl_cons, hemp, Bool.false_eq_true, if_false]
    exact ih (fun e' he' => hne e' (List.mem_cons_of_mem _ he')) _

theorem addPairs_clean (l : Hdr.HList) (ps : List Hdr.Pair) (h : ∀ p ∈ ps, Hdr.hasNL p.2 = false) :
    Hdr.addPairs l ps = (l ++ ps, .ok ()) := by
  induction ps generalizing l with
  | nil => simp [Hdr.addPairs]
  | cons p t ih =>
    obtain ⟨k, v⟩ := p
    have hv := h (k, v) List.mem_cons_self
    simp only [Hdr.addPairs, Hdr.add, Hdr.strHeaderValue, hv, Bool.false_eq_true, if_false]
    rw [ih _ (fun q hq => h q (List.mem_cons_of_mem _ hq))]
    simp

end Pickle

end Wz.C08L
