/-
Helper lemmas for C16: view objects shared between SEVERAL responses and several live view objects
of one response.

A world holds any number of responses (their header lists) and any number of held view objects.
Every held object remembers which response its `on_update` closure writes to (`tgt`): the response
whose property getter produced it, or - for a setter that re-binds the callback
(`Response.www_authenticate`) - the response it was last assigned to. The generic coherence
argument: whenever a held object is in sync with *its* response, re-reading that response's
property gives the held view; a view mutation never touches another response.
-/
import WzVerif.Lemmas.Views
namespace Wz.C16L
open Wz Hdr

/-- a view family together with its whole-property setter applied to a view object -/
structure Shared (σ ο : Type) extends Family σ ο where
  /-- `response.prop = view` : what the setter does to the headers of the assigned-to response -/
  assignH : HList → σ → HList
  /-- does the setter install an `on_update` that targets the assigned-to response? -/
  rebinds : Bool

/-- a held view object: content, the response its callback writes to, and whether it is known to
be in sync with that response -/
structure Held (σ : Type) where
  v : σ
  tgt : Nat
  synced : Bool

/-- the responses' header lists and the held view objects -/
structure W (σ : Type) where
  hs : Nat → HList
  held : List (Held σ)

inductive Ev2 (ο : Type) where
  /-- a mutator called on held object `j` -/
  | view (j : Nat) (op : ο)
  /-- `held[j] = response_i.prop` -/
  | fetch (j i : Nat)
  /-- `response_i.prop = held[j]` -/
  | assign (j i : Nat)
  /-- anything that only touches the headers of response `i` (direct edits, `response.headers = …`,
  assignment of text / None, `del`) -/
  | edit (i : Nat) (f : HList → HList)

variable {σ ο : Type}

def upd (hs : Nat → HList) (i : Nat) (h : HList) : Nat → HList := fun k => if k = i then h else hs k

/-- every held object whose callback targets response `i` is no longer known to be in sync -/
def desync (i : Nat) (held : List (Held σ)) : List (Held σ) :=
  held.map fun x => if x.tgt = i then { x with synced := false } else x

def next2 (F : Shared σ ο) (w : W σ) : Ev2 ο → W σ
  | .view j op =>
    match w.held[j]? with
    | none => w
    | some x =>
      let r := F.vstep x.v op
      if r.2 then
        ⟨upd w.hs x.tgt (F.write (w.hs x.tgt) r.1), (desync x.tgt w.held).set j ⟨r.1, x.tgt, true⟩⟩
      else ⟨w.hs, w.held.set j ⟨r.1, x.tgt, x.synced⟩⟩
  | .fetch j i =>
    let h := w.hs i
    ⟨upd w.hs i (F.refetchH h), (if F.refetchH h = h then w.held else desync i w.held).set j ⟨F.load h, i, true⟩⟩
  | .assign j i =>
    match w.held[j]? with
    | none => w
    | some x =>
      let h' := F.assignH (w.hs i) x.v
      if F.rebinds then ⟨upd w.hs i h', (desync i w.held).set j ⟨x.v, i, true⟩⟩
      else ⟨upd w.hs i h', desync i w.held⟩
  | .edit i f => ⟨upd w.hs i (f (w.hs i)), desync i w.held⟩

def run2 (F : Shared σ ο) (w : W σ) : List (Ev2 ο) → W σ
  | [] => w
  | e :: t => run2 F (next2 F w e) t

/-- side conditions of a history (the analogue of `okHistGood`) -/
def okHist2 (F : Shared σ ο) (E : σ → σ → Bool) (I : σ → Bool) (adm : σ → ο → Bool) (good : HList → σ → Bool)
    (w : W σ) : List (Ev2 ο) → Bool
  | [] => true
  | .view j op :: t =>
    (match w.held[j]? with
     | none => true
     | some x => adm x.v op && (let r := F.vstep x.v op; !r.2 || good (w.hs x.tgt) r.1)) &&
    okHist2 F E I adm good (next2 F w (.view j op)) t
  | .fetch j i :: t =>
    I (F.load (w.hs i)) && E (F.load (F.refetchH (w.hs i))) (F.load (w.hs i)) &&
    okHist2 F E I adm good (next2 F w (.fetch j i)) t
  | .assign j i :: t =>
    (match w.held[j]? with
     | none => true
     | some x => !F.rebinds || good (w.hs i) x.v) &&
    okHist2 F E I adm good (next2 F w (.assign j i)) t
  | .edit i f :: t => okHist2 F E I adm good (next2 F w (.edit i f)) t

/-- the invariant: every held object satisfies the family invariant, and one that is in sync
re-reads equal from the response its callback targets -/
def Inv2 (F : Shared σ ο) (E : σ → σ → Bool) (I : σ → Bool) (w : W σ) : Prop :=
  ∀ x ∈ w.held, I x.v = true ∧ (x.synced = true → E (F.load (w.hs x.tgt)) x.v = true)

theorem mem_desync {i : Nat} {held : List (Held σ)} {y : Held σ} (h : y ∈ desync i held) :
    ∃ x ∈ held, y.v = x.v ∧ y.tgt = x.tgt ∧ ((x.tgt = i ∧ y.synced = false) ∨ (x.tgt ≠ i ∧ y = x)) := by
  simp only [desync, List.mem_map] at h
  obtain ⟨x, hx, rfl⟩ := h
  refine ⟨x, hx, ?_⟩
  by_cases ht : x.tgt = i
  · simp [ht]
  · simp [ht]

theorem upd_ne (hs : Nat → HList) (i k : Nat) (h : HList) (hk : k ≠ i) : upd hs i h k = hs k := by
  simp [upd, hk]

theorem upd_self (hs : Nat → HList) (i : Nat) (h : HList) : upd hs i h i = h := by simp [upd]

/-- after the headers of response `i` changed in any way and its views were de-synchronised, the
invariant still holds -/
theorem inv2_desync (F : Shared σ ο) (E : σ → σ → Bool) (I : σ → Bool) (w : W σ) (hinv : Inv2 F E I w)
    (i : Nat) (h' : HList) : Inv2 F E I ⟨upd w.hs i h', desync i w.held⟩ := by
  intro y hy
  obtain ⟨x, hx, hv, ht, hc⟩ := mem_desync hy
  have hxi := hinv x hx
  refine ⟨by rw [hv]; exact hxi.1, ?_⟩
  rcases hc with ⟨_, hs⟩ | ⟨hne, rfl⟩
  · intro h; rw [hs] at h; cases h
  · intro h
    simp only []
    rw [upd_ne _ _ _ _ hne]
    exact hxi.2 h

/-- … and so it does after slot `j` is overwritten with an object in sync with response `i` -/
theorem inv2_set (F : Shared σ ο) (E : σ → σ → Bool) (I : σ → Bool) (w : W σ) (hinv : Inv2 F E I w)
    (j : Nat) (y : Held σ) (hy : I y.v = true ∧ (y.synced = true → E (F.load (w.hs y.tgt)) y.v = true)) :
    Inv2 F E I ⟨w.hs, w.held.set j y⟩ := by
  intro z hz
  rcases List.mem_or_eq_of_mem_set hz with h | h
  · exact hinv z h
  · subst h; exact hy

/-- the generic coherence argument for shared view objects -/
theorem coherent2 (F : Shared σ ο) (E : σ → σ → Bool) (I : σ → Bool) (adm : σ → ο → Bool) (good : HList → σ → Bool)
    (hstep : ∀ v op, I v = true → adm v op = true → I (F.vstep v op).1 = true)
    (hquiet : ∀ v op, I v = true → adm v op = true → (F.vstep v op).2 = false → (F.vstep v op).1 = v)
    (hrt : ∀ h v, I v = true → good h v = true → E (F.load (F.write h v)) v = true)
    (hrtA : F.rebinds = true → ∀ h v, I v = true → good h v = true → E (F.load (F.assignH h v)) v = true)
    (evs : List (Ev2 ο)) (w : W σ) (hinv : Inv2 F E I w)
    (hok : okHist2 F E I adm good w evs = true) : Inv2 F E I (run2 F w evs) := by
  induction evs generalizing w with
  | nil => exact hinv
  | cons e t ih =>
    cases e with
    | view j op =>
      simp only [okHist2, Bool.and_eq_true] at hok
      obtain ⟨hc, hrest⟩ := hok
      refine ih _ ?_ hrest
      simp only [next2]
      cases hj : w.held[j]? with
      | none => exact hinv
      | some x =>
        simp only [hj, Bool.and_eq_true, Bool.or_eq_true, Bool.not_eq_true'] at hc
        obtain ⟨hadm, hg⟩ := hc
        have hx := hinv x (List.mem_of_getElem? hj)
        have hI' := hstep _ _ hx.1 hadm
        simp only []
        cases hn : (F.vstep x.v op).2 with
        | true =>
          simp only [if_true]
          have hd := inv2_desync F E I w hinv x.tgt (F.write (w.hs x.tgt) (F.vstep x.v op).1)
          refine inv2_set F E I _ hd j _ ⟨hI', fun _ => ?_⟩
          simp only [upd_self]
          rcases hg with h | h
          · rw [hn] at h; cases h
          · exact hrt _ _ hI' h
        | false =>
          simp only [Bool.false_eq_true, if_false]
          refine inv2_set F E I _ hinv j _ ⟨hI', fun hs => ?_⟩
          simp only []
          rw [hquiet _ _ hx.1 hadm hn]
          exact hx.2 hs
    | fetch j i =>
      simp only [okHist2, Bool.and_eq_true] at hok
      obtain ⟨⟨hi, he⟩, hrest⟩ := hok
      refine ih _ ?_ hrest
      simp only [next2]
      by_cases hr : F.refetchH (w.hs i) = w.hs i
      · simp only [hr, if_true]
        have hw : Inv2 F E I ⟨upd w.hs i (w.hs i), w.held⟩ := by
          intro y hy
          have := hinv y hy
          refine ⟨this.1, fun hs => ?_⟩
          simp only []
          by_cases hk : y.tgt = i
          · rw [hk, upd_self, ← hk]; exact this.2 hs
          · rw [upd_ne _ _ _ _ hk]; exact this.2 hs
        refine inv2_set F E I _ hw j _ ⟨hi, fun _ => ?_⟩
        simp only [upd_self]
        rw [hr] at he; exact he
      · simp only [hr, if_false]
        have hd := inv2_desync F E I w hinv i (F.refetchH (w.hs i))
        refine inv2_set F E I _ hd j _ ⟨hi, fun _ => ?_⟩
        simp only [upd_self]
        exact he
    | assign j i =>
      simp only [okHist2, Bool.and_eq_true] at hok
      obtain ⟨hc, hrest⟩ := hok
      refine ih _ ?_ hrest
      simp only [next2]
      cases hj : w.held[j]? with
      | none => exact hinv
      | some x =>
        simp only [hj, Bool.or_eq_true, Bool.not_eq_true'] at hc
        have hx := hinv x (List.mem_of_getElem? hj)
        simp only []
        cases hb : F.rebinds with
        | false =>
          simp only [Bool.false_eq_true, if_false]
          exact inv2_desync F E I w hinv i _
        | true =>
          simp only [if_true]
          have hd := inv2_desync F E I w hinv i (F.assignH (w.hs i) x.v)
          refine inv2_set F E I _ hd j _ ⟨hx.1, fun _ => ?_⟩
          simp only [upd_self]
          rcases hc with h | h
          · rw [hb] at h; cases h
          · exact hrtA hb _ _ hx.1 h
    | edit i f =>
      simp only [okHist2] at hok
      exact ih _ (inv2_desync F E I w hinv i _) hok

/-- the setter of a re-binding family makes the assigned object a view of the assigned-to response -/
theorem assign_retargets (F : Shared σ ο) (hb : F.rebinds = true) (w : W σ) (j i : Nat) (x : Held σ)
    (hj : w.held[j]? = some x) :
    (next2 F w (.assign j i)).held[j]? = some ⟨x.v, i, true⟩ ∧
    (next2 F w (.assign j i)).hs i = F.assignH (w.hs i) x.v := by
  have hlt : j < w.held.length := by
    rcases Nat.lt_or_ge j w.held.length with h | h
    · exact h
    · rw [List.getElem?_eq_none h] at hj; cases hj
  simp only [next2, hj, hb, if_true, upd_self, and_true]
  rw [List.getElem?_set_self (by simpa [desync] using hlt)]

/-- a mutation of a held object writes only to the response its callback targets: the headers of
every other response are untouched (no cross-response leak), and the written response receives the
`on_update` serialisation of the new view -/
theorem view_frame (F : Shared σ ο) (w : W σ) (j : Nat) (op : ο) (x : Held σ) (hj : w.held[j]? = some x) :
    (∀ k, k ≠ x.tgt → (next2 F w (.view j op)).hs k = w.hs k) ∧
    ((F.vstep x.v op).2 = true →
      (next2 F w (.view j op)).hs x.tgt = F.write (w.hs x.tgt) (F.vstep x.v op).1) := by
  simp only [next2, hj]
  cases hn : (F.vstep x.v op).2 with
  | true =>
    simp only [if_true]
    exact ⟨fun k hk => upd_ne _ _ _ _ hk, fun _ => upd_self _ _ _⟩
  | false =>
    simp only [Bool.false_eq_true, if_false]
    refine ⟨fun _ _ => ?_, fun h => by cases h⟩
    first | rfl | trivial

/-- a family whose whole-property setter stores the serialisation `on_update` would store -/
def sharedOf (F : Family σ ο) (rebinds : Bool) : Shared σ ο := { F with assignH := F.write, rebinds := rebinds }

/-- `coherent2` for families compared with plain equality and no invariant / admissibility side
conditions -/
theorem coherent2_eq [DecidableEq σ] (F : Shared σ ο) (I : σ → Bool) (adm : σ → ο → Bool) (good : HList → σ → Bool)
    (hI : ∀ v, I v = true)
    (hquiet : ∀ v op, (F.vstep v op).2 = false → (F.vstep v op).1 = v)
    (hrt : ∀ h v, good h v = true → F.load (F.write h v) = v)
    (hrtA : F.rebinds = true → ∀ h v, good h v = true → F.load (F.assignH h v) = v)
    (evs : List (Ev2 ο)) (w : W σ) (hinv : ∀ x ∈ w.held, x.synced = true → F.load (w.hs x.tgt) = x.v)
    (hok : okHist2 F eqB I adm good w evs = true) :
    ∀ x ∈ (run2 F w evs).held, x.synced = true → F.load ((run2 F w evs).hs x.tgt) = x.v := by
  have := coherent2 F eqB I adm good (fun _ _ _ _ => hI _) (fun v op _ _ h => hquiet v op h)
    (fun h v _ hg => (eqB_iff _ _).2 (hrt h v hg)) (fun hb h v _ hg => (eqB_iff _ _).2 (hrtA hb h v hg))
    evs w (fun x hx => ⟨hI _, fun hs => (eqB_iff _ _).2 (hinv x hx hs)⟩) hok
  exact fun x hx hs => (eqB_iff _ _).1 ((this x hx).2 hs)

open Views in
/-- the setters `response.vary = view` / `response.content_security_policy = view` leave the
headers `on_update` of that view would leave -/
theorem assign_eq_write (h : HList) (name writeName : Str) (c : HS.St) (d : CSP.St) :
    (SetView.assign h name c).1 = SetView.write h name c ∧
    (CSP.assign h name writeName d).1 = CSP.write h name writeName d := by
  constructor
  · unfold SetView.assign SetView.write
    cases c.set.isEmpty with
    | false => rfl
    | true =>
      simp only [if_true]
      cases hc : Hdr.contains h name with
      | true => rfl
      | false =>
        simp only [Bool.false_eq_true, if_false, delKey]
        rw [List.filter_eq_self]
        intro p hp
        unfold Hdr.contains at hc
        cases hf : h.find? (keyEq name) with
        | some q => simp [hf] at hc
        | none =>
          rw [List.find?_eq_none] at hf
          simpa using hf p hp
  · unfold CSP.assign CSP.write
    cases d.isEmpty <;> rfl

end Wz.C16L
