/-
Routing lemmas, part 14 (C12): no second slash redirect — when no part of a rule other than its last
one admits the empty segment (no `//` left in the rule after merging, no converter accepting ""),
a path ending in an empty segment cannot be "one slash short" of that rule.
-/
import WzVerif.Lemmas.RoutingRedirect
namespace Wz.Routing

/-- the part rejects the empty segment, whatever follows -/
def RejectsEmpty (p : Part) : Prop := ∀ rest, step p ([] :: rest) = none

/-- every part but the last rejects the empty segment -/
def NoEmptyButLast : List Part → Prop
  | [] => True
  | [_] => True
  | p :: q :: t => RejectsEmpty p ∧ NoEmptyButLast (q :: t)

theorem step_static_rem {c x : Str} {xs a rem} (hs : step (.static c) (x :: xs) = some (a, rem)) : rem = xs := by
  simp only [step_static] at hs
  split at hs
  · cases hs; rfl
  · cases hs

theorem step_plain_rem {pre kind post w} {x : Str} {xs a rem}
    (hs : step (.dyn pre kind post false false w) (x :: xs) = some (a, rem)) : rem = xs := by
  simp only [step, Bool.false_eq_true, if_false, Bool.false_and] at hs
  cases hm : matchDyn pre kind post false x with
  | none => simp [hm] at hs
  | some vsl =>
    obtain ⟨v, sl⟩ := vsl
    simp only [hm, Option.some.injEq, Prod.mk.injEq] at hs
    exact hs.2.symm

theorem step_suffixed_trailing {pre kind post w} {x : Str} {xs a rem}
    (hs : step (.dyn pre kind post true true w) (x :: (xs ++ [[]])) = some (a, rem)) : rem = [[]] := by
  simp only [step, if_true, Bool.true_and] at hs
  have hj : joinWith '/' (x :: (xs ++ [[]])) = joinWith '/' (x :: xs) ++ ['/'] := by
    have := joinWith_append_nil '/' (x :: xs) (by simp)
    simpa using this
  rw [hj] at hs
  cases hm : matchDyn pre kind post true (joinWith '/' (x :: xs) ++ ['/']) with
  | none => simp [hm] at hs
  | some vsl =>
    obtain ⟨v, sl⟩ := vsl
    have hsl : sl = true := by
      unfold matchDyn at hm
      simp only [endsWithChar_append, Bool.and_self, if_true, List.dropLast_concat] at hm
      split at hm
      · cases hm
      · simp only [Option.map_eq_some_iff, Prod.mk.injEq] at hm
        obtain ⟨_, _, _, h⟩ := hm
        exact h.symm
    subst hsl
    simp only [hm, if_true, Option.some.injEq, Prod.mk.injEq] at hs
    exact hs.2.symm

/-- a rule whose parts (after the consumed prefix) reject the empty segment everywhere but at the end
is never "one final slash short" of an input that ends in an empty segment -/
theorem no_noslash_after_empty : ∀ (ps : List Part) (xs : List Str), FinalShape ps → NoEmptyButLast ps →
    walkVia .noslash ps (xs ++ [[]]) = none := by
  intro ps
  induction ps with
  | nil => intro xs _ _; simp [walkVia]
  | cons p t ih =>
    intro xs hshape hne
    cases hw : walkVia .noslash (p :: t) (xs ++ [[]]) with
    | none => rfl
    | some vs =>
      exfalso
      rcases walkVia_cons_inv hw with ⟨_, _, _, hin, _⟩ | ⟨a, rem, vs', hs, hw', _⟩
      · cases xs <;> simp at hin
      · cases t with
        | nil => simp [walkVia] at hw'
        | cons q t' =>
          obtain ⟨hrej, hne'⟩ := hne
          cases xs with
          | nil =>
            have := hrej []
            simp only [List.nil_append] at hs
            rw [this] at hs; cases hs
          | cons x xs' =>
            simp only [List.cons_append] at hs
            cases p with
            | static c =>
              have hrem := step_static_rem hs
              subst hrem
              have := ih xs' hshape hne'
              rw [this] at hw'; cases hw'
            | dyn pre kind post final suffixed w =>
              cases final with
              | false =>
                simp only [FinalShape, Bool.false_eq_true, if_false] at hshape
                obtain ⟨hsf, hshape'⟩ := hshape
                subst hsf
                have hrem := step_plain_rem hs
                subst hrem
                have := ih xs' hshape' hne'
                rw [this] at hw'; cases hw'
              | true =>
                simp only [FinalShape, if_true] at hshape
                cases suffixed with
                | false => simp at hshape
                | true =>
                  simp only [if_true] at hshape
                  injection hshape with hq ht
                  subst hq ht
                  have hrem := step_suffixed_trailing hs
                  subst hrem
                  simp [walkVia, step_static] at hw'

end Wz.Routing

namespace Wz.Routing

/-- the rule's first two parts (domain, leading slash) consume one segment each, and of the others
only the last may admit the empty segment -/
def Rule.SlashDomainOK (r : Rule) : Prop :=
  ∃ a b ps, r.parts = a :: b :: ps ∧ a.isFinal = false ∧ b.isFinal = false ∧ NoEmptyButLast ps

theorem step_nonfinal_rem {p : Part} (hf : p.isFinal = false) (hshape : FinalShape (p :: t)) {x : Str} {xs a rem}
    (hs : step p (x :: xs) = some (a, rem)) : rem = xs ∧ FinalShape t := by
  cases p with
  | static c => exact ⟨step_static_rem hs, hshape⟩
  | dyn pre kind post final suffixed w =>
    simp only [Part.isFinal] at hf
    subst hf
    simp only [FinalShape, Bool.false_eq_true, if_false] at hshape
    obtain ⟨hsf, hshape'⟩ := hshape
    subst hsf
    exact ⟨step_plain_rem hs, hshape'⟩

/-- a path ending in '/' is never one final slash short of such a rule -/
theorem no_noslash_trailing {r : Rule} (hshape : FinalShape r.parts) (hok : r.SlashDomainOK) (dom path : Str) :
    walkVia .noslash r.parts (segments dom (path ++ ['/'])) = none := by
  obtain ⟨a, b, ps, hparts, hfa, hfb, hne⟩ := hok
  rw [hparts] at hshape ⊢
  rw [segments_append_slash]
  simp only [segments]
  cases hsp : splitOn '/' path with
  | nil => exact absurd hsp (splitOn_ne_nil _ _)
  | cons y ys =>
    cases hw : walkVia .noslash (a :: b :: ps) (dom :: y :: ys ++ [[]]) with
    | none => rfl
    | some vs =>
      exfalso
      rcases walkVia_cons_inv hw with ⟨_, _, _, hin, _⟩ | ⟨a1, rem1, vs1, hs1, hw1, _⟩
      · simp at hin
      · simp only [List.cons_append] at hs1
        obtain ⟨hrem1, hshape1⟩ := step_nonfinal_rem hfa hshape hs1
        subst hrem1
        rcases walkVia_cons_inv hw1 with ⟨_, _, _, hin, _⟩ | ⟨a2, rem2, vs2, hs2, hw2, _⟩
        · simp at hin
        · obtain ⟨hrem2, hshape2⟩ := step_nonfinal_rem hfb hshape1 hs2
          subst hrem2
          have := no_noslash_after_empty ps ys hshape2 hne
          rw [this] at hw2; cases hw2

/-- decidable form for parts that consume one segment: the part's pattern rejects "" -/
def rejectsEmptyB (p : Part) : Bool := !p.isFinal && (step p [[]]).isNone

theorem rejectsEmptyB_sound {p : Part} (h : rejectsEmptyB p = true) : RejectsEmpty p := by
  intro rest
  simp only [rejectsEmptyB, Bool.and_eq_true, Bool.not_eq_true', Option.isNone_iff_eq_none] at h
  obtain ⟨hf, hn⟩ := h
  cases p with
  | static c =>
    simp only [step_static] at hn ⊢
    split at hn
    · cases hn
    · rename_i hc; simp [hc]
  | dyn pre kind post final suffixed w =>
    simp only [Part.isFinal] at hf
    subst hf
    simp only [step, Bool.false_eq_true, if_false] at hn ⊢
    cases hm : matchDyn pre kind post suffixed [] with
    | none => simp
    | some vsl => simp [hm] at hn

def noEmptyButLastB : List Part → Bool
  | [] => true
  | [_] => true
  | p :: q :: t => rejectsEmptyB p && noEmptyButLastB (q :: t)

theorem noEmptyButLastB_sound : ∀ ps, noEmptyButLastB ps = true → NoEmptyButLast ps
  | [], _ => trivial
  | [_], _ => trivial
  | p :: q :: t, h => by
    simp only [noEmptyButLastB, Bool.and_eq_true] at h
    exact ⟨rejectsEmptyB_sound h.1, noEmptyButLastB_sound (q :: t) h.2⟩

def slashDomainOKB (r : Rule) : Bool :=
  match r.parts with
  | a :: b :: ps => !a.isFinal && !b.isFinal && noEmptyButLastB ps
  | _ => false

theorem slashDomainOKB_sound {r : Rule} (h : slashDomainOKB r = true) : r.SlashDomainOK := by
  simp only [slashDomainOKB] at h
  split at h
  · rename_i a b ps hp
    simp only [Bool.and_eq_true, Bool.not_eq_true'] at h
    exact ⟨a, b, ps, hp, h.1.1, h.1.2, noEmptyButLastB_sound ps h.2⟩
  · cases h

end Wz.Routing
