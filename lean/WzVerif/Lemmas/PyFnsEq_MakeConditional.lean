/-
PyFnsEq_MakeConditional — `Response.make_conditional` *as regenerated from werkzeug's source* by
`tools/py2lean.py` (`Gen/PyFns_Response.lean`, `make_conditional_bool`: the method body of
`werkzeug/wrappers/response.py` for `accept_ranges: bool`, rewritten on every check run) against the
hand-written model of `Model/Conditional.lean` that the C11 theorems are about
(`Cond.makeConditionalStatus`, `Cond.respond`). A change of the Python source changes the generated
definition and breaks these obligations.

What the method reads from the request / the response are parameters of the translation; they are
instantiated from the model here: `modified` = `Cond.isResourceModified q etag last_modified true`
(`ignore_if_range` keeps its default), `if_match_given` = `bool(parse_etags(If-Match))`,
`processable` = `Cond.rangeProcessable q r`, `HTTP_RANGE` = `q.range`. What it writes is the state of six
recorded attributes (`MCState`): Date written, Content-Length, Accept-Ranges, Content-Range, the
assigned `status_code` (`none` = never assigned: the response keeps its status), the
`_wrap_range_response(start, length)` call.

Main theorems: `make_conditional_bool_eq` (one equality with `mcView` of the model's answer, any
previous state), `make_conditional_bool_status` (the same from the fresh state),
`make_conditional_bool_raises_iff`, `…_ok_iff`, `…_status_412/_304/_206/_200`, `…_out_status`,
`…_partial` (the range outcome), the frame facts `make_conditional_bool_other_method`, `…_date`,
`…_content_length_206`, `…_content_length_fill`, `…_content_length_some_iff_partial`, and
`respond_status_eq` / `respond_none_iff` / `respond_partial_eq` / `respond_content_length_eq`
(the model's WSGI answer `Cond.respond` against the translation's outputs).
No input was found on which translation and model differ.
-/
import WzVerif.Gen.PyFns_Response
import WzVerif.Model.Conditional
import WzVerif.Lemmas.PyFnsEq_Response
namespace Wz.PyFnsEq.MakeConditional
open Wz Wz.Pre Wz.Gen.PyFns_Response Wz.PyFnsEq.Response

/-- the six recorded attributes of `make_conditional`: `out_date`, then the five of
`_process_range_request` (`out_content_length`, `out_accept_ranges`, `out_content_range`, `out_status`,
`out_wrap`) -/
abbrev MCState := Bool × OutState

/-- `environ["REQUEST_METHOD"] in ("GET", "HEAD")` as the model spells it -/
def isGetHead (method : Str) : Bool := method == ['G', 'E', 'T'] || method == ['H', 'E', 'A', 'D']

/-- `out_date` after the call: set when the method is GET / HEAD and no Date header was present,
unchanged otherwise -/
def dateAfter (method : Str) (hasDate d0 : Bool) : Bool :=
  if isGetHead method && !hasDate then true else d0

/-- Content-Length after the closing block of `make_conditional`, `cl` being what was recorded before
it: `calculate_content_length()` is consulted only under `automatically_set_content_length` with no
Content-Length header present or recorded, and written only when it is not `None` -/
def fillLength (auto hasCL : Bool) (calcLen cl : Option Int) : Option Int :=
  if auto && !hasCL && cl.isNone then (match calcLen with | some n => some n | none => cl) else cl

/-- `out_status` after the call for a model status: 200 means `status_code` is never assigned -/
def statusAfter (code : Nat) (st0 : Option Int) : Option Int :=
  if code = 200 then st0 else some (code : Int)

/-- What `make_conditional` does to the recorded state `s`, and what it returns / raises, for each
answer `m` of the model's `makeConditionalStatus` (`l` is `complete_length`, 0 for `None`):
* any method but GET / HEAD: nothing is written, `self` is returned;
* model `none`: `RequestedRangeNotSatisfiable` is raised after the Date header only;
* model `some (_, .partialContent a b)`: the five writes of `_process_range_request` (Content-Length
  `b - a`, `Accept-Ranges: bytes`, `Content-Range: bytes a-(b-1)/l`, `status_code = 206`,
  `_wrap_range_response(a, b - a)`), Content-Length not touched again;
* model `some (code, _)` otherwise: `status_code = code` unless the code is 200, Content-Length filled
  from `calculate_content_length()` (`fillLength`), nothing else. -/
def mcView (method : Str) (hasDate auto hasCL : Bool) (calcLen : Option Int) (s : MCState) (l : Int)
    (m : Option (Nat × Cond.RangeOutcome)) : MCState × Except String Unit :=
  if isGetHead method then
    let d := dateAfter method hasDate s.1
    match m with
    | none => ((d, s.2), .error "RequestedRangeNotSatisfiable")
    | some (_, .partialContent a b) =>
      ((d, some (b - a), some Cond.bytesUnit, some (crText Cond.bytesUnit a b l), some 206, some (a, b - a)),
        .ok ())
    | some (code, _) =>
      ((d, fillLength auto hasCL calcLen s.2.1, s.2.2.1, s.2.2.2.1, statusAfter code s.2.2.2.2.1, s.2.2.2.2.2),
        .ok ())
  else (s, .ok ())

/-! ### facts that hold for every value of the parameters -/

/-- the translated membership test `environ["REQUEST_METHOD"] in ("GET", "HEAD")` is the model's
`method == "GET" || method == "HEAD"`, for every method text -/
theorem contains_get_head (method : Str) :
    [['G', 'E', 'T'], ['H', 'E', 'A', 'D']].contains method = isGetHead method := by
  simp only [List.contains_cons, List.contains_nil, Bool.or_false, isGetHead]

/-- `make_conditional` on a request whose method is neither GET nor HEAD writes nothing and returns
`self`: all six recorded attributes keep their previous values - whatever the headers, the response and
the arguments are (no hypothesis on the other parameters). -/
theorem make_conditional_bool_other_method (method : Str) (hasDate modified ifMatch processable : Bool)
    (httpRange : Option Str) (auto hasCL : Bool) (calcLen : Option Int) (s : MCState)
    (acceptRanges : Bool) (completeLength : Option Int) (hm : isGetHead method = false) :
    make_conditional_bool method hasDate modified ifMatch processable httpRange auto hasCL calcLen
        s.1 s.2.1 s.2.2.1 s.2.2.2.1 s.2.2.2.2.1 s.2.2.2.2.2 () acceptRanges completeLength
      = (s, .ok ()) := by
  unfold make_conditional_bool
  simp only [contains_get_head, hm, Bool.false_eq_true, if_false]

/-- The Date header, for every value of the other parameters (also when
`RequestedRangeNotSatisfiable` is raised, and whatever `is_resource_modified` answers): after
`make_conditional` `out_date` is true when the method is GET / HEAD and the response had no Date header,
and keeps its previous value otherwise. -/
theorem make_conditional_bool_date (method : Str) (hasDate modified ifMatch processable : Bool)
    (httpRange : Option Str) (auto hasCL : Bool) (calcLen : Option Int) (s : MCState)
    (acceptRanges : Bool) (completeLength : Option Int) :
    (make_conditional_bool method hasDate modified ifMatch processable httpRange auto hasCL calcLen
        s.1 s.2.1 s.2.2.1 s.2.2.2.1 s.2.2.2.2.1 s.2.2.2.2.2 () acceptRanges completeLength).1.1
      = dateAfter method hasDate s.1 := by
  obtain ⟨d0, cl0, ar0, cr0, st0, w0⟩ := s
  unfold make_conditional_bool dateAfter
  rw [contains_get_head]
  generalize process_range_request_bool processable httpRange cl0 ar0 cr0 st0 w0 () completeLength
    acceptRanges = res
  obtain ⟨⟨cl1, ar1, cr1, st1, w1⟩, e⟩ := res
  cases isGetHead method
  · rfl
  · cases hasDate <;> cases modified <;> cases ifMatch <;> cases e <;> cases auto <;> cases hasCL <;>
      cases cl0 <;> cases cl1 <;> cases calcLen <;> simp [contentLengthAbsent]

/-! ### the equality with the model -/

/-- the model only answers 200, 206, 304, 412, and a range goes with 206 exactly -/
theorem makeConditionalStatus_cases (method : Str) (q : Cond.CondReq) (r : Cond.RespIn)
    (completeLength : Option Int) (acceptRanges : Bool) :
    Cond.makeConditionalStatus method q r completeLength acceptRanges = none ∨
    Cond.makeConditionalStatus method q r completeLength acceptRanges = some (200, .notRange) ∨
    Cond.makeConditionalStatus method q r completeLength acceptRanges = some (304, .notRange) ∨
    Cond.makeConditionalStatus method q r completeLength acceptRanges = some (412, .notRange) ∨
    ∃ a b, Cond.makeConditionalStatus method q r completeLength acceptRanges
      = some (206, .partialContent a b) := by
  unfold Cond.makeConditionalStatus
  split
  · split
    · cases (Cond.parseEtags q.im).truthy <;> simp
    · cases Cond.processRangeRequest q r completeLength acceptRanges <;> simp
  · simp

/-- `Response.make_conditional(environ, accept_ranges, complete_length)` for `accept_ranges: bool`, as
translated from the current source of `werkzeug/wrappers/response.py` (the GET / HEAD test, the Date
header, `is_resource_modified` before the Range header with its 412 / 304 split on If-Match, else
`_process_range_request`, the closing Content-Length block), does exactly what the model's
`makeConditionalStatus` decides - `mcView` of its answer - for every method text, every request /
response pair, every previous value `s` of the six recorded attributes, every value of
`"date" in headers`, `automatically_set_content_length`, `"content-length" in headers`,
`calculate_content_length()`, `complete_length` (or `None`) and both values of `accept_ranges`; the
readings of the environ are the model's (`isResourceModified … true`, truthiness of
`parseEtags (If-Match)`, `rangeProcessable`, the Range header text). -/
theorem make_conditional_bool_eq (method : Str) (q : Cond.CondReq) (r : Cond.RespIn)
    (hasDate auto hasCL : Bool) (calcLen : Option Int) (s : MCState)
    (completeLength : Option Int) (acceptRanges : Bool) :
    make_conditional_bool method hasDate (Cond.isResourceModified q r.etag (Cond.lmOf r) true)
        (Cond.parseEtags q.im).truthy (Cond.rangeProcessable q r) q.range auto hasCL calcLen
        s.1 s.2.1 s.2.2.1 s.2.2.2.1 s.2.2.2.2.1 s.2.2.2.2.2 () acceptRanges completeLength
      = mcView method hasDate auto hasCL calcLen s (completeLength.getD 0)
          (Cond.makeConditionalStatus method q r completeLength acceptRanges) := by
  obtain ⟨d0, cl0, ar0, cr0, st0, w0⟩ := s
  unfold make_conditional_bool mcView Cond.makeConditionalStatus
  simp only [process_range_request_bool_eq, contains_get_head]
  have hgh : (method == ['G', 'E', 'T'] || method == ['H', 'E', 'A', 'D']) = isGetHead method := rfl
  rw [hgh]
  cases hm : isGetHead method
  · simp
  · cases hmod : Cond.isResourceModified q r.etag (Cond.lmOf r) true
    · cases (Cond.parseEtags q.im).truthy <;> cases hasDate <;> cases auto <;> cases hasCL <;>
        cases cl0 <;> cases calcLen <;>
        simp [dateAfter, hm, fillLength, statusAfter, contentLengthAbsent]
    · cases ho : Cond.processRangeRequest q r completeLength acceptRanges <;>
        cases hasDate <;> cases auto <;> cases hasCL <;> cases cl0 <;> cases calcLen <;>
        simp [rangeResult, dateAfter, hm, fillLength, statusAfter, contentLengthAbsent]

/-- the translated `make_conditional` with its readings of the environ / the response headers taken
from the model (the instantiation of `make_conditional_bool_eq`), run from the recorded state `s` -/
abbrev mcRun (method : Str) (q : Cond.CondReq) (r : Cond.RespIn) (hasDate auto hasCL : Bool)
    (calcLen : Option Int) (s : MCState) (completeLength : Option Int) (acceptRanges : Bool) :
    MCState × Except String Unit :=
  make_conditional_bool method hasDate (Cond.isResourceModified q r.etag (Cond.lmOf r) true)
    (Cond.parseEtags q.im).truthy (Cond.rangeProcessable q r) q.range auto hasCL calcLen
    s.1 s.2.1 s.2.2.1 s.2.2.2.1 s.2.2.2.2.1 s.2.2.2.2.2 () acceptRanges completeLength

/-- the state of a response on which none of the five `_process_range_request` attributes was recorded yet -/
def fresh (d0 : Bool) : MCState := (d0, none, none, none, none, none)

/-- `make_conditional_bool_eq` read from the fresh state `(d0, None, None, None, None, None)`: the
translated `make_conditional` raises `RequestedRangeNotSatisfiable` exactly when the model's
`makeConditionalStatus` is `none` (416), and otherwise returns `self` with `out_status` unassigned for
the model's 200 and `412 / 304 / 206` when the model says so, the range attributes
(`Content-Range`, `_wrap_range_response`, `Accept-Ranges`) written as `rangeResult` describes for
`.partialContent a b` and untouched otherwise, `out_date` and `out_content_length` as `dateAfter` /
`fillLength` say - all of that is `mcView … (fresh d0) …`. -/
theorem make_conditional_bool_status (method : Str) (q : Cond.CondReq) (r : Cond.RespIn)
    (hasDate auto hasCL : Bool) (calcLen : Option Int) (d0 : Bool)
    (completeLength : Option Int) (acceptRanges : Bool) :
    make_conditional_bool method hasDate (Cond.isResourceModified q r.etag (Cond.lmOf r) true)
        (Cond.parseEtags q.im).truthy (Cond.rangeProcessable q r) q.range auto hasCL calcLen
        d0 none none none none none () acceptRanges completeLength
      = mcView method hasDate auto hasCL calcLen (fresh d0) (completeLength.getD 0)
          (Cond.makeConditionalStatus method q r completeLength acceptRanges) :=
  make_conditional_bool_eq method q r hasDate auto hasCL calcLen (fresh d0) completeLength acceptRanges

/-- for a method other than GET / HEAD the model answers 200 without a range -/
theorem makeConditionalStatus_other (method : Str) (q : Cond.CondReq) (r : Cond.RespIn)
    (completeLength : Option Int) (acceptRanges : Bool) (hm : isGetHead method = false) :
    Cond.makeConditionalStatus method q r completeLength acceptRanges = some (200, .notRange) := by
  unfold Cond.makeConditionalStatus
  have hgh : (method == ['G', 'E', 'T'] || method == ['H', 'E', 'A', 'D']) = isGetHead method := rfl
  simp [hgh, hm]

/-- any other answer of the model means the method is GET or HEAD -/
theorem isGetHead_of_status (method : Str) (q : Cond.CondReq) (r : Cond.RespIn)
    (completeLength : Option Int) (acceptRanges : Bool)
    (h : Cond.makeConditionalStatus method q r completeLength acceptRanges ≠ some (200, .notRange)) :
    isGetHead method = true := by
  cases hm : isGetHead method
  · exact absurd (makeConditionalStatus_other method q r completeLength acceptRanges hm) h
  · rfl

section corollaries
variable (method : Str) (q : Cond.CondReq) (r : Cond.RespIn) (hasDate auto hasCL : Bool)
  (calcLen : Option Int) (s : MCState) (completeLength : Option Int) (acceptRanges : Bool)

/-- `make_conditional` raises an exception exactly when the model's `makeConditionalStatus` is `none`
(the 416 case), and the exception is `RequestedRangeNotSatisfiable`. -/
theorem make_conditional_bool_raises_iff (e : String) :
    (mcRun method q r hasDate auto hasCL calcLen s completeLength acceptRanges).2 = .error e
      ↔ (Cond.makeConditionalStatus method q r completeLength acceptRanges = none
          ∧ e = "RequestedRangeNotSatisfiable") := by
  rw [mcRun, make_conditional_bool_eq]
  cases hm : isGetHead method
  · simp [mcView, hm, makeConditionalStatus_other method q r completeLength acceptRanges hm]
  · rcases makeConditionalStatus_cases method q r completeLength acceptRanges with h | h | h | h | ⟨a, b, h⟩ <;>
      simp [mcView, h, hm, eq_comm]

/-- `make_conditional` returns (`self`) exactly when the model's `makeConditionalStatus` gives a status. -/
theorem make_conditional_bool_ok_iff :
    (mcRun method q r hasDate auto hasCL calcLen s completeLength acceptRanges).2 = .ok ()
      ↔ (Cond.makeConditionalStatus method q r completeLength acceptRanges).isSome = true := by
  rw [mcRun, make_conditional_bool_eq]
  cases hm : isGetHead method
  · simp [mcView, hm, makeConditionalStatus_other method q r completeLength acceptRanges hm]
  · rcases makeConditionalStatus_cases method q r completeLength acceptRanges with h | h | h | h | ⟨a, b, h⟩ <;>
      simp [mcView, h, hm]

/-- When `RequestedRangeNotSatisfiable` is raised (model `none`), the only thing written before is the
Date header: the five other attributes keep their previous values. -/
theorem make_conditional_bool_raise_state
    (h : Cond.makeConditionalStatus method q r completeLength acceptRanges = none) :
    (mcRun method q r hasDate auto hasCL calcLen s completeLength acceptRanges).1
      = (dateAfter method hasDate s.1, s.2) := by
  have hm := isGetHead_of_status method q r completeLength acceptRanges (by simp [h])
  rw [mcRun, make_conditional_bool_eq]
  simp [mcView, h, hm]

/-- Model status 412 (precondition failed: the resource counts as unmodified and If-Match carries
tags): `make_conditional` returns with `self.status_code = 412` assigned. -/
theorem make_conditional_bool_status_412 (o : Cond.RangeOutcome)
    (h : Cond.makeConditionalStatus method q r completeLength acceptRanges = some (412, o)) :
    (mcRun method q r hasDate auto hasCL calcLen s completeLength acceptRanges).2 = .ok () ∧
    (mcRun method q r hasDate auto hasCL calcLen s completeLength acceptRanges).1.2.2.2.2.1 = some 412 := by
  have hm := isGetHead_of_status method q r completeLength acceptRanges (by simp [h])
  rw [mcRun, make_conditional_bool_eq]
  rcases makeConditionalStatus_cases method q r completeLength acceptRanges with h' | h' | h' | h' | ⟨a, b, h'⟩ <;>
    simp [h'] at h <;> simp [mcView, h', hm, statusAfter]

/-- Model status 304 (not modified, no If-Match tags): `make_conditional` returns with
`self.status_code = 304` assigned. -/
theorem make_conditional_bool_status_304 (o : Cond.RangeOutcome)
    (h : Cond.makeConditionalStatus method q r completeLength acceptRanges = some (304, o)) :
    (mcRun method q r hasDate auto hasCL calcLen s completeLength acceptRanges).2 = .ok () ∧
    (mcRun method q r hasDate auto hasCL calcLen s completeLength acceptRanges).1.2.2.2.2.1 = some 304 := by
  have hm := isGetHead_of_status method q r completeLength acceptRanges (by simp [h])
  rw [mcRun, make_conditional_bool_eq]
  rcases makeConditionalStatus_cases method q r completeLength acceptRanges with h' | h' | h' | h' | ⟨a, b, h'⟩ <;>
    simp [h'] at h <;> simp [mcView, h', hm, statusAfter]

/-- Model status 206: `make_conditional` returns with `self.status_code = 206` assigned (by
`_process_range_request`). -/
theorem make_conditional_bool_status_206 (o : Cond.RangeOutcome)
    (h : Cond.makeConditionalStatus method q r completeLength acceptRanges = some (206, o)) :
    (mcRun method q r hasDate auto hasCL calcLen s completeLength acceptRanges).2 = .ok () ∧
    (mcRun method q r hasDate auto hasCL calcLen s completeLength acceptRanges).1.2.2.2.2.1 = some 206 := by
  have hm := isGetHead_of_status method q r completeLength acceptRanges (by simp [h])
  rw [mcRun, make_conditional_bool_eq]
  rcases makeConditionalStatus_cases method q r completeLength acceptRanges with h' | h' | h' | h' | ⟨a, b, h'⟩ <;>
    simp [h'] at h <;> simp [mcView, h', hm]

/-- Model status 200: `make_conditional` returns and never assigns `self.status_code` (the recorded
value stays what it was), writes no Accept-Ranges / Content-Range and does not wrap the body. -/
theorem make_conditional_bool_status_200 (o : Cond.RangeOutcome)
    (h : Cond.makeConditionalStatus method q r completeLength acceptRanges = some (200, o)) :
    (mcRun method q r hasDate auto hasCL calcLen s completeLength acceptRanges).2 = .ok () ∧
    (mcRun method q r hasDate auto hasCL calcLen s completeLength acceptRanges).1.2.2
      = s.2.2 := by
  rw [mcRun, make_conditional_bool_eq]
  rcases makeConditionalStatus_cases method q r completeLength acceptRanges with h' | h' | h' | h' | ⟨a, b, h'⟩ <;>
    simp [h'] at h <;> cases hm : isGetHead method <;> simp [mcView, h', hm, statusAfter]

/-- From the fresh state, the assigned status code read back from the model: never assigned when the
model says 200 (or when the exception is raised), else the model's code. -/
theorem make_conditional_bool_out_status (d0 : Bool) :
    (mcRun method q r hasDate auto hasCL calcLen (fresh d0) completeLength acceptRanges).1.2.2.2.2.1
      = match Cond.makeConditionalStatus method q r completeLength acceptRanges with
        | none => none
        | some (code, _) => if code = 200 then none else some (code : Int) := by
  rw [mcRun, make_conditional_bool_eq]
  cases hm : isGetHead method
  · simp [mcView, hm, fresh, makeConditionalStatus_other method q r completeLength acceptRanges hm]
  · rcases makeConditionalStatus_cases method q r completeLength acceptRanges with h | h | h | h | ⟨a, b, h⟩ <;>
      simp [mcView, h, hm, fresh, statusAfter]

/-- From the fresh state, `self.status_code = code` is assigned exactly when the model answers a
status `code` other than 200 (so: 412, 304 or 206). -/
theorem make_conditional_bool_out_status_iff (d0 : Bool) (code : Nat) :
    (mcRun method q r hasDate auto hasCL calcLen (fresh d0) completeLength acceptRanges).1.2.2.2.2.1
        = some (code : Int)
      ↔ (code ≠ 200 ∧ ∃ o, Cond.makeConditionalStatus method q r completeLength acceptRanges = some (code, o)) := by
  rw [make_conditional_bool_out_status]
  rcases makeConditionalStatus_cases method q r completeLength acceptRanges with h | h | h | h | ⟨a, b, h⟩ <;>
    simp [h] <;> omega

/-- The range outcome: when the model answers `.partialContent a b`, `make_conditional` returns after
exactly the five writes of `_process_range_request` - `Content-Length: b - a`, `Accept-Ranges: bytes`,
`Content-Range: bytes a-(b-1)/complete_length`, `status_code = 206`, `_wrap_range_response(a, b - a)` -
(and the Date header); neither `automatically_set_content_length` nor an existing Content-Length header
nor `calculate_content_length()` matter. -/
theorem make_conditional_bool_partial (code : Nat) (a b : Int)
    (h : Cond.makeConditionalStatus method q r completeLength acceptRanges = some (code, .partialContent a b)) :
    mcRun method q r hasDate auto hasCL calcLen s completeLength acceptRanges
      = ((dateAfter method hasDate s.1,
          (rangeResult s.2 Cond.bytesUnit (completeLength.getD 0) (.partialContent a b)).1), .ok ()) := by
  have hm := isGetHead_of_status method q r completeLength acceptRanges (by simp [h])
  rw [mcRun, make_conditional_bool_eq]
  simp [mcView, h, hm, rangeResult]

/-- When the model's outcome is not a partial content, `make_conditional` writes no Accept-Ranges, no
Content-Range and does not wrap the body (those three attributes keep their previous values). -/
theorem make_conditional_bool_no_range (code : Nat) (o : Cond.RangeOutcome)
    (h : Cond.makeConditionalStatus method q r completeLength acceptRanges = some (code, o))
    (ho : ∀ a b, o ≠ .partialContent a b) :
    let out := (mcRun method q r hasDate auto hasCL calcLen s completeLength acceptRanges).1
    out.2.2.1 = s.2.2.1 ∧ out.2.2.2.1 = s.2.2.2.1 ∧ out.2.2.2.2.2 = s.2.2.2.2.2 := by
  rw [mcRun, make_conditional_bool_eq]
  cases o with
  | partialContent a b => exact absurd rfl (ho a b)
  | _ => cases hm : isGetHead method <;> simp [mcView, h, hm]

/-! ### Content-Length -/

/-- Content-Length after a 206: it is the length of the range, `b - a`, written by
`_process_range_request`; the closing block of `make_conditional` leaves it alone whatever
`automatically_set_content_length` and `calculate_content_length()` are. -/
theorem make_conditional_bool_content_length_206 (code : Nat) (a b : Int)
    (h : Cond.makeConditionalStatus method q r completeLength acceptRanges = some (code, .partialContent a b)) :
    (mcRun method q r hasDate auto hasCL calcLen s completeLength acceptRanges).1.2.1 = some (b - a) := by
  rw [make_conditional_bool_partial method q r hasDate auto hasCL calcLen s completeLength acceptRanges code a b h]
  rfl

/-- `calculate_content_length()` is not consulted after a 206: the whole result is the same for any two
values of it (and of `automatically_set_content_length`, `"content-length" in headers`). -/
theorem make_conditional_bool_calc_unused_206 (code : Nat) (a b : Int) (auto' hasCL' : Bool) (calcLen' : Option Int)
    (h : Cond.makeConditionalStatus method q r completeLength acceptRanges = some (code, .partialContent a b)) :
    mcRun method q r hasDate auto hasCL calcLen s completeLength acceptRanges
      = mcRun method q r hasDate auto' hasCL' calcLen' s completeLength acceptRanges := by
  rw [make_conditional_bool_partial method q r hasDate auto hasCL calcLen s completeLength acceptRanges code a b h,
    make_conditional_bool_partial method q r hasDate auto' hasCL' calcLen' s completeLength acceptRanges code a b h]

/-- Content-Length when the method is GET / HEAD and the model's outcome is not a partial content (200,
304, 412): `fillLength` - under `automatically_set_content_length`, with no Content-Length header
present (nor recorded before), it becomes `calculate_content_length()` when that is not `None`; in every
other case it keeps its previous value. -/
theorem make_conditional_bool_content_length_fill (code : Nat) (o : Cond.RangeOutcome)
    (hm : isGetHead method = true)
    (h : Cond.makeConditionalStatus method q r completeLength acceptRanges = some (code, o))
    (ho : ∀ a b, o ≠ .partialContent a b) :
    (mcRun method q r hasDate auto hasCL calcLen s completeLength acceptRanges).1.2.1
      = fillLength auto hasCL calcLen s.2.1 := by
  rw [mcRun, make_conditional_bool_eq]
  cases o with
  | partialContent a b => exact absurd rfl (ho a b)
  | _ => simp [mcView, h, hm]

/-- `fillLength` from a state without a recorded Content-Length, spelled out: the calculated length
under `automatically_set_content_length` and no Content-Length header, else nothing. -/
theorem fillLength_none (auto hasCL : Bool) (calcLen : Option Int) :
    fillLength auto hasCL calcLen none = if auto && !hasCL then calcLen else none := by
  cases auto <;> cases hasCL <;> cases calcLen <;> rfl

/-- a Content-Length recorded before (or a header present) is never overwritten by the closing block -/
theorem fillLength_some (auto hasCL : Bool) (calcLen : Option Int) (n : Int) :
    fillLength auto hasCL calcLen (some n) = some n := by
  cases auto <;> cases hasCL <;> rfl

end corollaries

/-! ### the model's WSGI answer `Cond.respond`

`respond` is `make_conditional` followed by `get_wsgi_response`; what can be compared with the
translation without modelling `get_wsgi_headers` is: whether 416 is raised, the status, the range
headers of a 206 and - for GET / HEAD answers other than 304 - the Content-Length. Not compared: the
body chunks (`_RangeWrapper`, not part of this translation), the 304 answer's Content-Length
(`make_conditional` does write `calculate_content_length()` there; `get_wsgi_headers` removes the entity
headers of a 304 afterwards, so `respond` says `none`) and the Content-Length of other methods (written
by `get_wsgi_headers`, not by `make_conditional`). -/

/-- `calculate_content_length()` for the model's body kinds, on a GET / HEAD request: the total of the
chunks for a list (0) and for another iterable (1: `_ensure_sequence` consumes it), `None` under
`direct_passthrough` (2) -/
def kindLength (kind : Nat) (chunks : List Bytes) : Option Int :=
  if kind == 0 || kind == 1 then some ((chunks.flatten.length : Nat) : Int) else none

section respond
variable (method : Str) (q : Cond.CondReq) (r : Cond.RespIn) (hasDate auto hasCL : Bool)
  (calcLen : Option Int) (s : MCState) (completeLength : Option Int) (acceptRanges : Bool)
  (chunks : List Bytes) (seekable : Option Nat) (kind : Nat)

/-- The model's `respond` answers `none` (416) exactly when the translated `make_conditional` raises
`RequestedRangeNotSatisfiable`. -/
theorem respond_none_iff :
    Cond.respond method q r completeLength acceptRanges chunks seekable kind = none
      ↔ (mcRun method q r hasDate auto hasCL calcLen s completeLength acceptRanges).2
          = .error "RequestedRangeNotSatisfiable" := by
  rw [make_conditional_bool_raises_iff]
  unfold Cond.respond
  rcases makeConditionalStatus_cases method q r completeLength acceptRanges with h | h | h | h | ⟨a, b, h⟩ <;>
    simp [h]

/-- The status of the model's `respond` is the status the translated `make_conditional` leaves on a
response that was 200: the assigned `status_code` (from the fresh state), 200 when none was assigned. -/
theorem respond_status_eq (o : Cond.WsgiOut) (d0 : Bool)
    (ho : Cond.respond method q r completeLength acceptRanges chunks seekable kind = some o) :
    (o.status : Int)
      = ((mcRun method q r hasDate auto hasCL calcLen (fresh d0) completeLength acceptRanges).1.2.2.2.2.1).getD 200 := by
  rw [make_conditional_bool_out_status]
  unfold Cond.respond at ho
  rcases makeConditionalStatus_cases method q r completeLength acceptRanges with h | h | h | h | ⟨a, b, h⟩ <;>
    simp [h] at ho <;> subst ho <;> simp [h]

/-- A 206 of the model's `respond` carries the range headers the translated `make_conditional` wrote:
same Content-Length (`b - a`), `Accept-Ranges` present on both sides, and the model's Content-Range triple
`(first, last, length)` printed as `bytes first-last/length` is the recorded `Content-Range` text. -/
theorem respond_partial_eq (o : Cond.WsgiOut)
    (ho : Cond.respond method q r completeLength acceptRanges chunks seekable kind = some o)
    (h206 : o.status = 206) :
    let out := (mcRun method q r hasDate auto hasCL calcLen s completeLength acceptRanges).1
    o.contentLength = out.2.1 ∧ o.acceptRanges = out.2.2.1.isSome ∧ out.2.2.1 = some Cond.bytesUnit ∧
    o.contentRange.map (fun t => crText Cond.bytesUnit t.1 (t.2.1 + 1) t.2.2) = out.2.2.2.1 := by
  unfold Cond.respond at ho
  rcases makeConditionalStatus_cases method q r completeLength acceptRanges with h | h | h | h | ⟨a, b, h⟩ <;>
    simp [h] at ho <;> subst ho <;> simp at h206
  rw [make_conditional_bool_partial method q r hasDate auto hasCL calcLen s completeLength acceptRanges 206 a b h]
  simp [rangeResult]

/-- Content-Length of the model's `respond` for a GET / HEAD request whose answer is not 304 (so 200, 206
or 412): it is the Content-Length the translated `make_conditional` leaves on a fresh response with
`automatically_set_content_length` on, no Content-Length header and `calculate_content_length()` as
`kindLength` says (the range length after a 206, the total of the body for a list or an iterable, none
under `direct_passthrough`). -/
theorem respond_content_length_eq (o : Cond.WsgiOut) (d0 : Bool) (hm : isGetHead method = true)
    (ho : Cond.respond method q r completeLength acceptRanges chunks seekable kind = some o)
    (h304 : o.status ≠ 304) :
    o.contentLength
      = (mcRun method q r hasDate true false (kindLength kind chunks) (fresh d0) completeLength acceptRanges).1.2.1 := by
  have hgh : (method == ['G', 'E', 'T'] || method == ['H', 'E', 'A', 'D']) = true := hm
  rw [mcRun, make_conditional_bool_eq]
  unfold Cond.respond at ho
  rcases makeConditionalStatus_cases method q r completeLength acceptRanges with h | h | h | h | ⟨a, b, h⟩ <;>
    simp [h, hgh] at ho <;> subst ho <;> simp at h304 <;>
    simp [mcView, h, hm, fresh, fillLength, kindLength] <;>
    (by_cases h0 : kind = 0 <;> by_cases h1 : kind = 1 <;> simp [h0, h1])

end respond

end Wz.PyFnsEq.MakeConditional
