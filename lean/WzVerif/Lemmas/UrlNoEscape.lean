/-
Paths with a literal `%` (C15, known finding F15f): `quote` with a safe set that contains `%` followed by
`unquote` gives the text back exactly when no `%` of the text is followed by two hex digits - the
sharp form of `unquoteReplace_quote` (which asks for no `%` at all), and with it the
`EnvironBuilder.from_environ` round trip for every path that is not of the F15f family. Core Lean only.
-/
import WzVerif.Lemmas.UrlFromEnviron
namespace Wz.Url
open Wz

/-- is the byte an ASCII hex digit -/
def hexB (b : UInt8) : Bool := (hexVal? (Char.ofNat b.toNat)).isSome

def startsHex2 : Bytes → Bool
  | x :: y :: _ => hexB x && hexB y
  | _ => false

/-- no `%` byte is followed by two hex digits -/
def noEscB : Bytes → Bool
  | [] => true
  | b :: t => !(b == 0x25 && startsHex2 t) && noEscB t

def startsHex2C : Str → Bool
  | x :: y :: _ => (hexVal? x).isSome && (hexVal? y).isSome
  | _ => false

/-- **no `%` of the text is followed by two hex digits**: the text contains no `%XX` escape (a `%` that
starts no escape - `100%`, `%zz`, `%4` - is allowed) -/
def noEscape : Str → Bool
  | [] => true
  | c :: t => !(c == '%' && startsHex2C t) && noEscape t

theorem hexB_facts : ∀ n, n < 256 → hexB (UInt8.ofNat n) = true →
    n < 128 ∧ tbl Gen.UrlTables.alwaysSafe n = true ∧ n ≠ 0x25 := by
  decide +kernel

theorem hexB_lt {b : UInt8} (h : hexB b = true) : b < 0x80 := by
  have := (hexB_facts b.toNat b.toNat_lt (by rw [uint8_ofNat_toNat]; exact h)).1
  rw [UInt8.lt_iff_toNat_lt]; simpa using this

theorem hexB_safe (safe : Str) {b : UInt8} (h : hexB b = true) : isSafe safe b = true := by
  have := hexB_facts b.toNat b.toNat_lt (by rw [uint8_ofNat_toNat]; exact h)
  simp [isSafe, this.1, this.2.1]

theorem hexB_pct : hexB 0x25 = false := by decide

/-- a `%` that starts no escape is copied by `_unquote_impl` -/
theorem unquoteBytes_pct_lit {T : Bytes} (h : startsHex2 T = false) :
    unquoteBytes (0x25 :: T) = 0x25 :: unquoteBytes T := by
  match T, h with
  | [], _ => simp [unquoteBytes]
  | [x], _ => simp [unquoteBytes]
  | x :: y :: t, h =>
    simp only [startsHex2, hexB] at h
    cases hx : hexVal? (Char.ofNat x.toNat) <;> cases hy : hexVal? (Char.ofNat y.toNat) <;>
      simp [unquoteBytes, hx, hy] at h ⊢

theorem toBytes_byteChar (b : UInt8) : toBytes [Char.ofNat b.toNat] = [b] := by
  have : b.toNat < 256 := b.toNat_lt
  simp [toBytes, char_toNat_ofNat_lt this]

theorem toBytes_quoteByte_safe {safe : Str} {b : UInt8} (h : isSafe safe b = true) :
    toBytes (quoteByte safe b) = [b] := by
  simp [quoteByte, h, toBytes_byteChar]

theorem toBytes_quoteByte_unsafe {safe : Str} {b : UInt8} (h : isSafe safe b = false) :
    ∃ h1 h2, toBytes (quoteByte safe b) = [0x25, h1, h2] := by
  refine ⟨UInt8.ofNat (hexU (b.toNat / 16)).toNat, UInt8.ofNat (hexU (b.toNat % 16)).toNat, ?_⟩
  simp only [quoteByte, h, Bool.false_eq_true, if_false, pct, toBytes, List.map_cons, List.map_nil]
  congr 1

/-- quoting never creates nor destroys a pair of hex digits at the front -/
theorem startsHex2_quote (safe : Str) : ∀ B : Bytes,
    startsHex2 (toBytes (quoteBytes safe B)) = startsHex2 B
  | [] => rfl
  | [x] => by
    simp only [quoteBytes, List.flatMap_cons, List.flatMap_nil, List.append_nil]
    cases hs : isSafe safe x
    · obtain ⟨h1, h2, e⟩ := toBytes_quoteByte_unsafe hs
      rw [e]; simp [startsHex2, hexB_pct]
    · rw [toBytes_quoteByte_safe hs]
  | x :: y :: t => by
    simp only [quoteBytes, List.flatMap_cons, toBytes_append]
    cases hsx : isSafe safe x
    · obtain ⟨h1, h2, e⟩ := toBytes_quoteByte_unsafe hsx
      rw [e]
      have hx : hexB x = false := by
        cases hh : hexB x
        · rfl
        · rw [hexB_safe safe hh] at hsx; cases hsx
      simp [startsHex2, hexB_pct, hx]
    · rw [toBytes_quoteByte_safe hsx]
      cases hsy : isSafe safe y
      · obtain ⟨h1, h2, e⟩ := toBytes_quoteByte_unsafe hsy
        rw [e]
        have hy : hexB y = false := by
          cases hh : hexB y
          · rfl
          · rw [hexB_safe safe hh] at hsy; cases hsy
        simp [startsHex2, hexB_pct, hy]
      · rw [toBytes_quoteByte_safe hsy]
        simp [startsHex2]

/-- with `%` in the safe set, percent-decoding what `quote` produced gives the bytes back whenever
no `%` of them is followed by two hex digits -/
theorem unquoteBytes_quoteBytes_noEsc {safe : Str} (hp : isSafe safe 0x25 = true) : ∀ B : Bytes,
    noEscB B = true → unquoteBytes (toBytes (quoteBytes safe B)) = B
  | [], _ => by simp [quoteBytes, toBytes, unquoteBytes]
  | b :: B, h => by
    simp only [noEscB, Bool.and_eq_true, Bool.not_eq_true'] at h
    have ih := unquoteBytes_quoteBytes_noEsc hp B h.2
    have hq : toBytes (quoteBytes safe (b :: B)) = toBytes (quoteByte safe b) ++ toBytes (quoteBytes safe B) := by
      simp [quoteBytes, toBytes_append]
    rw [hq]
    by_cases hb : b = 0x25
    · subst hb
      have h1 : startsHex2 B = false := by simpa using h.1
      rw [toBytes_quoteByte_safe hp, List.singleton_append,
        unquoteBytes_pct_lit (by rw [startsHex2_quote]; exact h1), ih]
    · cases hs : isSafe safe b
      · have : quoteByte safe b = pct b := by simp [quoteByte, hs]
        rw [this, unquoteBytes_pct, ih]
      · rw [toBytes_quoteByte_safe hs, List.singleton_append, unquoteBytes_cons_ne hb, ih]

theorem noEscB_append_nopct : ∀ (X Y : Bytes), (0x25 : UInt8) ∉ X → noEscB (X ++ Y) = noEscB Y
  | [], _, _ => rfl
  | b :: X, Y, h => by
    have hb : (b == 0x25) = false := by
      have : b ≠ 0x25 := fun e => h (by simp [e])
      simpa using this
    simp only [List.cons_append, noEscB, hb, Bool.false_and, Bool.not_false, Bool.true_and]
    exact noEscB_append_nopct X Y (fun m => h (List.mem_cons_of_mem _ m))

/-- a hex digit at the front of the encoding of a text is its first character, a single byte -/
theorem utf8Enc_front_hex {x : Char} {t : Str} {b0 : UInt8} {rest : Bytes}
    (he : utf8Enc (x :: t) = b0 :: rest) (hh : hexB b0 = true) :
    (hexVal? x).isSome = true ∧ rest = utf8Enc t := by
  obtain ⟨c0, cs, h1, _⟩ := firstItem_encode x []
  have hsplit : utf8Enc (x :: t) = String.utf8EncodeChar x ++ utf8Enc t := by simp [utf8Enc]
  rw [hsplit, h1] at he
  simp only [List.cons_append, List.cons.injEq] at he
  obtain ⟨e0, e1⟩ := he
  subst e0
  have hlt := hexB_lt hh
  have hx : x = Char.ofNat c0.toNat := utf8EncodeChar_ascii_mem hlt (by rw [h1]; simp)
  have hxa : x.toNat < 128 := by
    rw [hx, char_toNat_ofNat_lt (by have := c0.toNat_lt; omega)]
    rw [UInt8.lt_iff_toNat_lt] at hlt; simpa using hlt
  have h2 := utf8EncodeChar_ascii hxa
  rw [h1] at h2
  simp only [List.cons.injEq] at h2
  rw [h2.2] at e1
  refine ⟨?_, by simpa using e1.symm⟩
  rw [hx]; exact hh

theorem startsHex2_utf8Enc {t : Str} (h : startsHex2 (utf8Enc t) = true) : startsHex2C t = true := by
  match t with
  | [] => simp [utf8Enc, startsHex2] at h
  | x :: t1 =>
    cases he : utf8Enc (x :: t1) with
    | nil => rw [he] at h; simp [startsHex2] at h
    | cons b0 rest =>
      rw [he] at h
      cases rest with
      | nil => simp [startsHex2] at h
      | cons b1 rest2 =>
        simp only [startsHex2, Bool.and_eq_true] at h
        obtain ⟨hx, e1⟩ := utf8Enc_front_hex he h.1
        match t1 with
        | [] => simp [utf8Enc] at e1
        | y :: t2 =>
          obtain ⟨hy, _⟩ := utf8Enc_front_hex e1.symm h.2
          simp [startsHex2C, hx, hy]

theorem noEscB_utf8Enc : ∀ (s : Str), noEscape s = true → noEscB (utf8Enc s) = true
  | [], _ => by simp [utf8Enc, noEscB]
  | c :: t, h => by
    simp only [noEscape, Bool.and_eq_true, Bool.not_eq_true'] at h
    have ih := noEscB_utf8Enc t h.2
    have hsplit : utf8Enc (c :: t) = String.utf8EncodeChar c ++ utf8Enc t := by simp [utf8Enc]
    rw [hsplit]
    by_cases hc : c = '%'
    · subst hc
      have henc : String.utf8EncodeChar '%' = [0x25] := by
        rw [utf8EncodeChar_ascii (by decide)]; rfl
      rw [henc]
      have h1 : startsHex2C t = false := by simpa using h.1
      have h2 : startsHex2 (utf8Enc t) = false := by
        cases hh : startsHex2 (utf8Enc t)
        · rfl
        · rw [startsHex2_utf8Enc hh] at h1; cases h1
      simp [noEscB, h2, ih]
    · rw [noEscB_append_nopct _ _ (utf8EncodeChar_no_pct hc)]
      exact ih

/-- **`unquote` inverts `quote` on every text that contains no `%XX` escape**, for every safe set
that contains `%` (the safe sets of `iri_to_uri`): a literal `%` that starts no escape survives. -/
theorem unquoteReplace_quote_noEscape {safe : Str} (hp : isSafe safe 0x25 = true) (s : Str)
    (h : noEscape s = true) : unquoteReplace (quote safe s) = s := by
  unfold quote
  have h1 := unquoteAuxR_ascii (quoteBytes safe (utf8Enc s)) [] [] (quoteBytes_ascii safe _)
  simp only [List.append_nil] at h1
  rw [unquoteReplace, h1]
  simp only [unquoteAuxR, List.reverse_reverse, unquoteRunR]
  rw [unquoteBytes_quoteBytes_noEsc hp _ (noEscB_utf8Enc s h), items_eq_its (Nat.le_succ _)]
  exact decode_utf8Enc renderR (fun _ _ => rfl) s

theorem noEscape_of_no_pct : ∀ (s : Str), '%' ∉ s → noEscape s = true
  | [], _ => rfl
  | c :: t, h => by
    have hc : (c == '%') = false := by
      have : c ≠ '%' := fun e => h (by simp [e])
      simpa using this
    simp only [noEscape, hc, Bool.false_and, Bool.not_false, Bool.true_and]
    exact noEscape_of_no_pct t (fun m => h (List.mem_cons_of_mem _ m))

theorem iriPathSafe_pct : isSafe Gen.UrlTables.iriPathSafe 0x25 = true := by decide

end Wz.Url
