/-
Reading the widened dispatch table of C20 (Gen/DebuggerWide.lean) and the model's prediction for its
points; lemmas about the raw PIN-cookie check.
-/
import WzVerif.Model.Debugger
import WzVerif.Gen.DebuggerWide
namespace Wz.DbgW
open Wz Wz.Dbg Wz.Gen.DebuggerWide

/-- one point of the widened product -/
structure Point where
  cmd : Nat
  sec : Nat
  host : Nat
  cookie : Nat
  frame : Nat
  evalex : Bool
  pinOn : Bool

/-- the point stored as hex digit `j` of packed row `idx` -/
def pointAt (idx j : Nat) : Point :=
  { cmd := idx / (nSec * nHost), sec := (idx / nHost) % nSec, host := idx % nHost,
    cookie := j / (nFrame * 4), frame := (j / 4) % nFrame, evalex := (j / 2) % 2 == 0, pinOn := j % 2 == 0 }

def outcomeAt (idx j : Nat) : Nat := (rows.getD idx 15 / 16 ^ j) % 16

def hostClass (p : Point) : Nat := hostClasses.getD p.host 1

abbrev PointPred := Nat → Nat → Nat → Bool

def checkInner (Q : Nat → Nat → Bool) (n : Nat) : Nat → Bool
  | 0 => true
  | k + 1 => Q k ((n / 16 ^ k) % 16) && checkInner Q n k

def checkRows (P : PointPred) (total : Nat) : List Nat → Nat → Bool
  | [], _ => true
  | _ :: _, 0 => false
  | n :: rest, k + 1 => checkInner (P (total - (k + 1))) n rowLen && checkRows P total rest k

/-- `P` holds at every point of the live wide table -/
def checkTable (P : PointPred) : Bool := checkRows P nRows rows nRows

theorem checkInner_get (Q : Nat → Nat → Bool) (n : Nat) : ∀ m, checkInner Q n m = true →
    ∀ j, j < m → Q j ((n / 16 ^ j) % 16) = true := by
  intro m
  induction m with
  | zero => intro _ j h; omega
  | succ m ih =>
    intro hc j hj
    simp only [checkInner, Bool.and_eq_true] at hc
    by_cases h : j = m
    · subst h; exact hc.1
    · exact ih hc.2 j (by omega)

theorem checkRows_get (P : PointPred) (total : Nat) : ∀ (l : List Nat) (k : Nat),
    checkRows P total l k = true → l.length = k → k ≤ total →
    ∀ i (h : i < l.length) j, j < rowLen → P (total - k + i) j ((l[i] / 16 ^ j) % 16) = true := by
  intro l
  induction l with
  | nil => intro k _ _ _ i h; simp at h
  | cons n rest ih =>
    intro k hc hl hk i hi j hj
    cases k with
    | zero => simp at hl
    | succ k =>
      simp only [checkRows, Bool.and_eq_true] at hc
      cases i with
      | zero =>
        have := checkInner_get _ n rowLen hc.1 j hj
        simpa using this
      | succ i =>
        have := ih k hc.2 (by simpa using hl) (by omega) i (by simpa using hi) j hj
        have e : total - (k + 1) + (i + 1) = total - k + i := by omega
        rw [e]; simpa using this

theorem checkTable_get {P : PointPred} (hc : checkTable P = true) (hlen : rows.length = nRows)
    (idx j : Nat) (hi : idx < nRows) (hj : j < rowLen) : P idx j (outcomeAt idx j) = true := by
  have := checkRows_get P nRows rows nRows hc hlen (Nat.le_refl _) idx (by omega) j hj
  simp only [Nat.sub_self, Nat.zero_add] at this
  unfold outcomeAt
  have hget : rows.getD idx 15 = rows[idx]'(by omega) := by
    simp [List.getD, List.getElem?_eq_getElem (show idx < rows.length by omega)]
  rw [hget]; exact this

theorem checkRows_append (P : PointPred) (total : Nat) : ∀ (a b : List Nat) (k : Nat), a.length ≤ k →
    checkRows P total (a ++ b) k = (checkRows P total a k && checkRows P total b (k - a.length)) := by
  intro a
  induction a with
  | nil => intro b k _; simp [checkRows]
  | cons n a ih =>
    intro b k hk
    cases k with
    | zero => simp at hk
    | succ k =>
      simp only [List.cons_append, checkRows, List.length_cons, Nat.add_sub_add_right]
      rw [ih b k (by simpa using hk), Bool.and_assoc]

/-- the table check in three parts (each part is one kernel evaluation of about a third of the points) -/
theorem checkTable_thirds (P : PointPred) (m1 m2 : Nat) (h12 : m1 ≤ m2) (h2 : m2 ≤ nRows)
    (hlen : rows.length = nRows)
    (hA : checkRows P nRows (rows.take m1) nRows = true)
    (hB : checkRows P nRows ((rows.drop m1).take (m2 - m1)) (nRows - m1) = true)
    (hC : checkRows P nRows (rows.drop m2) (nRows - m2) = true) : checkTable P = true := by
  unfold checkTable
  have e1 : rows = rows.take m1 ++ ((rows.drop m1).take (m2 - m1) ++ rows.drop m2) := by
    have : rows.drop m2 = (rows.drop m1).drop (m2 - m1) := by
      rw [List.drop_drop]; congr 1; omega
    rw [this, List.take_append_drop, List.take_append_drop]
  have l1 : (rows.take m1).length = m1 := by rw [List.length_take]; omega
  have l2 : ((rows.drop m1).take (m2 - m1)).length = m2 - m1 := by
    rw [List.length_take, List.length_drop]; omega
  rw [e1, checkRows_append _ _ _ _ _ (by omega), l1,
    checkRows_append _ _ _ _ _ (by omega), l2, hA, hB]
  have : nRows - m1 - (m2 - m1) = nRows - m2 := by omega
  rw [this, hC]; rfl

/-- the abstract cookie class of the point's cookie text, by the raw check with the rig's clock -/
def cookieOf (k : Nat) : Cookie :=
  classifyCookie decimalInt pinTime ['R'] (cookieTexts.getD k none) clockFloor

/-- what the raw cookie check makes of the eight cookie texts under the rig's clock, and what the
model's `hostIsTrusted` makes of the six Host texts with the default list — as literals (cheap to look
up at 32 256 points); `wide_table_complete` proves them equal to the computed values -/
def cookieLit : List Cookie := [.valid, .valid, .expired, .wrongHash, .malformed, .malformed, .malformed, .absent]
def hostLit : List Bool := [true, false, false, false, false, false]

/-- the request a wide table point stands for: commands as in `Dbg.reqOf`; every secret other than the
right one (wrong, case-swapped, truncated, empty) is `wrong`, the absent one `absent`; every frame id
other than the registered one (unknown, missing, not an integer) is unknown; the Host verdict is the
*model's* `hostIsTrusted` on the Host text, the cookie class the *raw* check's (`hostLit`, `cookieLit`) -/
def reqOfPoint (p : Point) : Req :=
  { debugger := p.cmd != 1,
    cmd := match p.cmd with
      | 0 => .other | 2 => .pinauth | 3 => .pinauth | 4 => .printpin | 5 => .resource | _ => .none,
    hasArg := p.cmd == 5,
    secret := match p.sec with | 0 => .right | 2 => .absent | _ => .wrong,
    frameKnown := p.frame == 0,
    hostTrusted := hostLit.getD p.host false,
    cookie := cookieLit.getD p.cookie .absent,
    pinRight := p.cmd == 2,
    atConsole := p.cmd == 1 }

def modelOutcome (p : Point) : Nat :=
  outcomeCode (dispatch { evalex := p.evalex, pinOn := p.pinOn } 0 (reqOfPoint p)).1

/-- the model's prediction for a row of the trusted_hosts × method table -/
def trustModel (r : Nat × Nat × Nat × Nat × Bool × Nat) : Nat :=
  let host := tHosts.getD r.2.1 none
  let trusted := tTrusted.getD r.2.2.1 []
  let req : Req :=
    { debugger := r.1 != 1,
      cmd := match r.1 with
        | 0 => .other | 2 => .pinauth | 3 => .pinauth | 4 => .printpin | 5 => .resource | _ => .none,
      hasArg := r.1 == 5, secret := .right, frameKnown := true,
      hostTrusted := hostIsTrusted asciiIdna host trusted,
      cookie := .valid, pinRight := r.1 == 2, atConsole := r.1 == 1 }
  outcomeCode (dispatch { evalex := true, pinOn := r.2.2.2.2.1 } 0 req).1

/-! ### the raw cookie check -/

theorem checkPinTrustRaw_classify (intOf : IntOf) (pinTime : Int) (hp : List Char)
    (cookie : Option (List Char)) (now : Int) :
    checkPinTrustRaw intOf pinTime (some hp) cookie now
      = checkPinTrust true (classifyCookie intOf pinTime hp cookie now) := by
  unfold checkPinTrustRaw classifyCookie
  cases cookie with
  | none => rfl
  | some val =>
    simp only
    split
    · rfl
    · cases intOf (splitBar val).1 with
      | none => rfl
      | some ts =>
        simp only
        split
        · rfl
        · split <;> rfl

end Wz.DbgW
