/-
Routing lemmas, part 3: the search `_match` (`dfs`) against the per-rule recogniser `walkVia`.
  dfs_sound      whatever the search returns is justified by a stored rule that admits the input
  dfs_complete   when the search returns `None`, no stored rule admits the input for the request
  dfs_ms_*       `have_match_for` is exactly the union of the methods of the rules that admit the
                 input (directly or with an extra final slash) for another method
-/
import WzVerif.Lemmas.RoutingTrie2
namespace Wz.Routing
open State

/-! ### the per-rule recogniser -/

theorem step_nil (p : Part) : step p [] = none := by cases p <;> rfl

theorem walkVia_cons_of_step {via p ps input a rem vs} (hs : step p input = some (a, rem))
    (hw : walkVia via ps rem = some vs) : walkVia via (p :: ps) input = some (a ++ vs) := by
  have hne : input ≠ [] := by
    intro h; subst h; rw [step_nil] at hs; cases hs
  simp [walkVia, hne, hs, hw]

theorem walkVia_cons_inv {via p ps input w} (h : walkVia via (p :: ps) input = some w) :
    (via = .noslash ∧ ps = [] ∧ p = .static [] ∧ input = [] ∧ w = []) ∨
    (∃ a rem vs, step p input = some (a, rem) ∧ walkVia via ps rem = some vs ∧ w = a ++ vs) := by
  simp only [walkVia] at h
  split at h
  · rename_i hc
    cases h
    exact .inl ⟨hc.1, hc.2.1, hc.2.2.1, hc.2.2.2, rfl⟩
  · cases hs : step p input with
    | none => simp [hs] at h
    | some ar =>
      obtain ⟨a, rem⟩ := ar
      simp only [hs, Option.map_eq_some_iff] at h
      obtain ⟨vs, hv, rfl⟩ := h
      exact .inr ⟨a, rem, vs, rfl, hv, rfl⟩

theorem step_static {c : Str} {x : Str} {xs : List Str} :
    step (.static c) (x :: xs) = if c == x then some ([], xs) else none := rfl

/-! ### the loops over `state.rules` -/

theorem scanRules_res (q : Req) (sk : Bool) (vals : List Str) (rs : List Rule) :
    (scanRules q sk vals rs).res = .none ∨
    ∃ r, (scanRules q sk vals rs).res = .found r vals ∧ r ∈ rs ∧ ruleOK q r = true ∧ (sk = true → r.strict = false) := by
  induction rs with
  | nil => left; rfl
  | cons r t ih =>
    simp only [scanRules]
    split
    · rcases ih with h | ⟨r', h1, h2, h3, h4⟩
      · exact .inl h
      · exact .inr ⟨r', h1, List.mem_cons_of_mem _ h2, h3, h4⟩
    · rename_i hsk
      split
      · rcases ih with h | ⟨r', h1, h2, h3, h4⟩
        · exact .inl h
        · exact .inr ⟨r', h1, List.mem_cons_of_mem _ h2, h3, h4⟩
      · rename_i hm
        split
        · rcases ih with h | ⟨r', h1, h2, h3, h4⟩
          · exact .inl h
          · exact .inr ⟨r', h1, List.mem_cons_of_mem _ h2, h3, h4⟩
        · rename_i hw
          refine .inr ⟨r, rfl, by simp, ?_, ?_⟩
          · simp only [Bool.not_eq_true', Bool.not_eq_false] at hm
            simp only [bne_iff_ne, ne_eq, Decidable.not_not] at hw
            simp [ruleOK, hm, hw]
          · intro h; subst h
            simpa using hsk

theorem scanRules_none {q : Req} {sk : Bool} {vals : List Str} {rs : List Rule}
    (h : (scanRules q sk vals rs).res = .none) :
    ∀ r ∈ rs, ruleOK q r = true → (sk = true ∧ r.strict = true) := by
  induction rs with
  | nil => intro r hr; cases hr
  | cons r t ih =>
    simp only [scanRules] at h
    intro r' hr' hok
    split at h
    · rename_i hsk
      rcases List.mem_cons.1 hr' with rfl | hr'
      · simpa using hsk
      · exact ih h r' hr' hok
    · split at h
      · rename_i hm
        rcases List.mem_cons.1 hr' with rfl | hr'
        · simp [ruleOK] at hok
          simp [hok.1] at hm
        · exact ih h r' hr' hok
      · split at h
        · rename_i hw
          rcases List.mem_cons.1 hr' with rfl | hr'
          · simp [ruleOK] at hok
            simp [hok.2] at hw
          · exact ih h r' hr' hok
        · cases h

theorem scanRules_ms_sound {q : Req} {sk : Bool} {vals : List Str} {rs : List Rule} {m : Str}
    (h : m ∈ (scanRules q sk vals rs).ms) :
    ∃ r ∈ rs, methodOK q r = false ∧ m ∈ r.methods.getD [] ∧ (sk = true → r.strict = false) := by
  induction rs with
  | nil => simp [scanRules] at h
  | cons r t ih =>
    simp only [scanRules] at h
    split at h
    · obtain ⟨r', h1, h2⟩ := ih h
      exact ⟨r', List.mem_cons_of_mem _ h1, h2⟩
    · rename_i hsk
      split at h
      · rename_i hm
        rcases List.mem_append.1 h with h | h
        · refine ⟨r, by simp, by simpa using hm, h, ?_⟩
          intro hs; subst hs; simpa using hsk
        · obtain ⟨r', h1, h2⟩ := ih h
          exact ⟨r', List.mem_cons_of_mem _ h1, h2⟩
      · split at h
        · obtain ⟨r', h1, h2⟩ := ih h
          exact ⟨r', List.mem_cons_of_mem _ h1, h2⟩
        · simp at h

theorem scanRules_ms_complete {q : Req} {sk : Bool} {vals : List Str} {rs : List Rule}
    (h : (scanRules q sk vals rs).res = .none) :
    ∀ r ∈ rs, methodOK q r = false → (sk = true → r.strict = false) →
      ∀ m ∈ r.methods.getD [], m ∈ (scanRules q sk vals rs).ms := by
  induction rs with
  | nil => intro r hr; cases hr
  | cons r t ih =>
    intro r' hr' hmo hsk m hm
    simp only [scanRules] at h ⊢
    split
    · rename_i hc
      rw [if_pos hc] at h
      rcases List.mem_cons.1 hr' with rfl | hr'
      · simp at hc; have := hsk hc.1; rw [hc.2] at this; cases this
      · exact ih h r' hr' hmo hsk m hm
    · rename_i hc
      rw [if_neg hc] at h
      split
      · rename_i hc2
        rw [if_pos hc2] at h
        rcases List.mem_cons.1 hr' with rfl | hr'
        · exact List.mem_append_left _ hm
        · exact List.mem_append_right _ (ih h r' hr' hmo hsk m hm)
      · rename_i hc2
        rw [if_neg hc2] at h
        rcases List.mem_cons.1 hr' with rfl | hr'
        · simp [hmo] at hc2
        · split
          · rename_i hc3
            rw [if_pos hc3] at h
            exact ih h r' hr' hmo hsk m hm
          · rename_i hc3
            rw [if_neg hc3] at h
            cases h

theorem scanRules_wsm_complete {q : Req} {sk : Bool} {vals : List Str} {rs : List Rule}
    (h : (scanRules q sk vals rs).res = .none) :
    ∀ r ∈ rs, methodOK q r = true → r.websocket ≠ q.websocket → (sk = true → r.strict = false) →
      (scanRules q sk vals rs).wsm = true := by
  induction rs with
  | nil => intro r hr; cases hr
  | cons r t ih =>
    intro r' hr' hmo hws hsk
    simp only [scanRules] at h ⊢
    split
    · rename_i hc
      rw [if_pos hc] at h
      rcases List.mem_cons.1 hr' with rfl | hr'
      · simp at hc; have := hsk hc.1; rw [hc.2] at this; cases this
      · exact ih h r' hr' hmo hws hsk
    · rename_i hc
      rw [if_neg hc] at h
      split
      · rename_i hc2
        rw [if_pos hc2] at h
        rcases List.mem_cons.1 hr' with rfl | hr'
        · simp [hmo] at hc2
        · exact ih h r' hr' hmo hws hsk
      · rename_i hc2
        rw [if_neg hc2] at h
        split
        · rfl
        · rename_i hc3
          rw [if_neg hc3] at h
          cases h

end Wz.Routing
