/-
Routing lemmas, part 3: the search `_match` (`dfs`) against the per-rule recogniser `walkVia`.
  dfs_sound      whatever the search returns is justified by a stored rule that admits the input
  dfs_complete   when the search returns `None`, no stored rule admits the input for the request
  dfs_ms_*       `have_match_for` is exactly the union of the methods of the rules that admit the
                 input (directly or with an extra final slash) for another method
-/
import WzVerif.Lemmas.RoutingTrie2
namespace Wz.Routing
open State

/-! ### the per-rule recogniser -/

theorem step_nil (p : Part) : step p [] = none := by cases p <;> rfl

theorem walkVia_cons_of_step {via p ps input a rem vs} (hs : step p input = some (a, rem))
    (hw : walkVia via ps rem = some vs) : walkVia via (p :: ps) input = some (a ++ vs) := by
  have hne : input ≠ [] := by
    intro h; subst h; rw [step_nil] at hs; cases hs
  simp [walkVia, hne, hs, hw]

theorem walkVia_cons_inv {via p ps input w} (h : walkVia via (p :: ps) input = some w) :
    (via = .noslash ∧ ps = [] ∧ p = .static [] ∧ input = [] ∧ w = []) ∨
    (∃ a rem vs, step p input = some (a, rem) ∧ walkVia via ps rem = some vs ∧ w = a ++ vs) := by
  simp only [walkVia] at h
  split at h
  · rename_i hc
    cases h
    exact .inl ⟨hc.1, hc.2.1, hc.2.2.1, hc.2.2.2, rfl⟩
  · cases hs : step p input with
    | none => simp [hs] at h
    | some ar =>
      obtain ⟨a, rem⟩ := ar
      simp only [hs, Option.map_eq_some_iff] at h
      obtain ⟨vs, hv, rfl⟩ := h
      exact .inr ⟨a, rem, vs, rfl, hv, rfl⟩

theorem step_static {c : Str} {x : Str} {xs : List Str} :
    step (.static c) (x :: xs) = if c == x then some ([], xs) else none := rfl

/-! ### the loops over `state.rules` -/

theorem scanRules_res (q : Req) (sk : Bool) (vals : List Str) (rs : List Rule) :
    (scanRules q sk vals rs).res = .none ∨
    ∃ r, (scanRules q sk vals rs).res = .found r vals ∧ r ∈ rs ∧ ruleOK q r = true ∧ (sk = true → r.strict = false) := by
  induction rs with
  | nil => left; rfl
  | cons r t ih =>
    simp only [scanRules]
    split
    · rcases ih with h | ⟨r', h1, h2, h3, h4⟩
      · exact .inl h
      · exact .inr ⟨r', h1, List.mem_cons_of_mem _ h2, h3, h4⟩
    · rename_i hsk
      split
      · rcases ih with h | ⟨r', h1, h2, h3, h4⟩
        · exact .inl h
        · exact .inr ⟨r', h1, List.mem_cons_of_mem _ h2, h3, h4⟩
      · rename_i hm
        split
        · rcases ih with h | ⟨r', h1, h2, h3, h4⟩
          · exact .inl h
          · exact .inr ⟨r', h1, List.mem_cons_of_mem _ h2, h3, h4⟩
        · rename_i hw
          refine .inr ⟨r, rfl, by simp, ?_, ?_⟩
          · simp only [Bool.not_eq_true', Bool.not_eq_false] at hm
            simp only [bne_iff_ne, ne_eq, Decidable.not_not] at hw
            simp [ruleOK, hm, hw]
          · intro h; subst h
            simpa using hsk

theorem scanRules_none {q : Req} {sk : Bool} {vals : List Str} {rs : List Rule}
    (h : (scanRules q sk vals rs).res = .none) :
    ∀ r ∈ rs, ruleOK q r = true → (sk = true ∧ r.strict = true) := by
  induction rs with
  | nil => intro r hr; cases hr
  | cons r t ih =>
    simp only [scanRules] at h
    intro r' hr' hok
    split at h
    · rename_i hsk
      rcases List.mem_cons.1 hr' with rfl | hr'
      · simpa using hsk
      · exact ih h r' hr' hok
    · split at h
      · rename_i hm
        rcases List.mem_cons.1 hr' with rfl | hr'
        · simp [ruleOK] at hok
          simp [hok.1] at hm
        · exact ih h r' hr' hok
      · split at h
        · rename_i hw
          rcases List.mem_cons.1 hr' with rfl | hr'
          · simp [ruleOK] at hok
            simp [hok.2] at hw
          · exact ih h r' hr' hok
        · cases h

theorem scanRules_ms_sound {q : Req} {sk : Bool} {vals : List Str} {rs : List Rule} {m : Str}
    (h : m ∈ (scanRules q sk vals rs).ms) :
    ∃ r ∈ rs, methodOK q r = false ∧ m ∈ r.methods.getD [] ∧ (sk = true → r.strict = false) := by
  induction rs with
  | nil => simp [scanRules] at h
  | cons r t ih =>
    simp only [scanRules] at h
    split at h
    · obtain ⟨r', h1, h2⟩ := ih h
      exact ⟨r', List.mem_cons_of_mem _ h1, h2⟩
    · rename_i hsk
      split at h
      · rename_i hm
        rcases List.mem_append.1 h with h | h
        · refine ⟨r, by simp, by simpa using hm, h, ?_⟩
          intro hs; subst hs; simpa using hsk
        · obtain ⟨r', h1, h2⟩ := ih h
          exact ⟨r', List.mem_cons_of_mem _ h1, h2⟩
      · split at h
        · obtain ⟨r', h1, h2⟩ := ih h
          exact ⟨r', List.mem_cons_of_mem _ h1, h2⟩
        · simp at h

theorem scanRules_ms_complete {q : Req} {sk : Bool} {vals : List Str} {rs : List Rule}
    (h : (scanRules q sk vals rs).res = .none) :
    ∀ r ∈ rs, methodOK q r = false → (sk = true → r.strict = false) →
      ∀ m ∈ r.methods.getD [], m ∈ (scanRules q sk vals rs).ms := by
  induction rs with
  | nil => intro r hr; cases hr
  | cons r t ih =>
    intro r' hr' hmo hsk m hm
    simp only [scanRules] at h ⊢
    split
    · rename_i hc
      rw [if_pos hc] at h
      rcases List.mem_cons.1 hr' with rfl | hr'
      · simp at hc; have := hsk hc.1; rw [hc.2] at this; cases this
      · exact ih h r' hr' hmo hsk m hm
    · rename_i hc
      rw [if_neg hc] at h
      split
      · rename_i hc2
        rw [if_pos hc2] at h
        rcases List.mem_cons.1 hr' with rfl | hr'
        · exact List.mem_append_left _ hm
        · exact List.mem_append_right _ (ih h r' hr' hmo hsk m hm)
      · rename_i hc2
        rw [if_neg hc2] at h
        rcases List.mem_cons.1 hr' with rfl | hr'
        · simp [hmo] at hc2
        · split
          · rename_i hc3
            rw [if_pos hc3] at h
            exact ih h r' hr' hmo hsk m hm
          · rename_i hc3
            rw [if_neg hc3] at h
            cases h

theorem scanRules_wsm_complete {q : Req} {sk : Bool} {vals : List Str} {rs : List Rule}
    (h : (scanRules q sk vals rs).res = .none) :
    ∀ r ∈ rs, methodOK q r = true → r.websocket ≠ q.websocket → (sk = true → r.strict = false) →
      (scanRules q sk vals rs).wsm = true := by
  induction rs with
  | nil => intro r hr; cases hr
  | cons r t ih =>
    intro r' hr' hmo hws hsk
    simp only [scanRules] at h ⊢
    split
    · rename_i hc
      rw [if_pos hc] at h
      rcases List.mem_cons.1 hr' with rfl | hr'
      · simp at hc; have := hsk hc.1; rw [hc.2] at this; cases this
      · exact ih h r' hr' hmo hws hsk
    · rename_i hc
      rw [if_neg hc] at h
      split
      · rename_i hc2
        rw [if_pos hc2] at h
        rcases List.mem_cons.1 hr' with rfl | hr'
        · simp [hmo] at hc2
        · exact ih h r' hr' hmo hws hsk
      · rename_i hc2
        rw [if_neg hc2] at h
        split
        · rfl
        · rename_i hc3
          rw [if_neg hc3] at h
          cases h


/-! ### projections of `dfs` -/

theorem dfsStatic_eq (q : Req) (ss : List (Str × State)) (x : Str) (xs vals : List Str) :
    dfsStatic q ss x xs vals =
      match lookupStatic x ss with
      | some s => dfs q s xs vals
      | none => ⟨.none, [], false⟩ := by
  induction ss with
  | nil => simp [dfsStatic, lookupStatic]
  | cons e t ih =>
    obtain ⟨k, s⟩ := e
    simp only [dfsStatic, lookupStatic]
    split <;> simp_all

/-- the third attempt of `_match`: `if parts == [""]: for rule in state.rules: ...` -/
def fallback (q : Req) (rs : List Rule) (x : Str) (xs vals : List Str) : Out :=
  if x :: xs = [[]] then scanRules q true vals rs else ⟨.none, [], false⟩

theorem dfs_nil_res (q : Req) (rs ss ds) (vals : List Str) :
    (dfs q (.node rs ss ds) [] vals).res =
      match (scanRules q false vals rs).res with
      | .none => (match lookupStatic [] ss with
                  | some child => slashCheck q vals child.rules
                  | none => .none)
      | r => r := by
  rw [dfs.eq_1]
  cases h : (scanRules q false vals rs).res with
  | none => cases hl : lookupStatic [] ss <;> simp [h]
  | found r vs => simp [h]
  | slash => simp [h]

theorem dfs_nil_ms (q : Req) (rs ss ds) (vals : List Str) :
    (dfs q (.node rs ss ds) [] vals).ms = (scanRules q false vals rs).ms := by
  rw [dfs.eq_1]
  cases h : (scanRules q false vals rs).res with
  | none => cases hl : lookupStatic [] ss <;> simp
  | found r vs => simp
  | slash => simp

theorem dfs_nil_wsm (q : Req) (rs ss ds) (vals : List Str) :
    (dfs q (.node rs ss ds) [] vals).wsm = (scanRules q false vals rs).wsm := by
  rw [dfs.eq_1]
  cases h : (scanRules q false vals rs).res with
  | none => cases hl : lookupStatic [] ss <;> simp
  | found r vs => simp
  | slash => simp

theorem dfs_cons_res (q : Req) (rs ss ds) (x : Str) (xs vals : List Str) :
    (dfs q (.node rs ss ds) (x :: xs) vals).res =
      match (dfsStatic q ss x xs vals).res with
      | .none => (match (dfsDyn q ds x xs vals).res with
                  | .none => (fallback q rs x xs vals).res
                  | r => r)
      | r => r := by
  rw [dfs.eq_2]
  cases h1 : (dfsStatic q ss x xs vals).res with
  | none =>
    cases h2 : (dfsDyn q ds x xs vals).res with
    | none => simp [h2, fallback]
    | found r vs => simp [h2]
    | slash => simp [h2]
  | found r vs => simp [h1]
  | slash => simp [h1]

/-- when the search at a state returns `None`, all three attempts did, and the bookkeeping is the
concatenation of theirs -/
theorem dfs_cons_none {q : Req} {rs ss ds} {x : Str} {xs vals : List Str}
    (h : (dfs q (.node rs ss ds) (x :: xs) vals).res = .none) :
    (dfsStatic q ss x xs vals).res = .none ∧ (dfsDyn q ds x xs vals).res = .none ∧
    (fallback q rs x xs vals).res = .none ∧
    (dfs q (.node rs ss ds) (x :: xs) vals).ms =
      (dfsStatic q ss x xs vals).ms ++ (dfsDyn q ds x xs vals).ms ++ (fallback q rs x xs vals).ms ∧
    (dfs q (.node rs ss ds) (x :: xs) vals).wsm =
      ((dfsStatic q ss x xs vals).wsm || (dfsDyn q ds x xs vals).wsm || (fallback q rs x xs vals).wsm) := by
  rw [dfs_cons_res] at h
  cases h1 : (dfsStatic q ss x xs vals).res with
  | none =>
    cases h2 : (dfsDyn q ds x xs vals).res with
    | none =>
      simp only [h1, h2] at h
      refine ⟨rfl, rfl, h, ?_, ?_⟩ <;> (rw [dfs.eq_2]; simp [h1, h2, fallback])
    | found r vs => simp [h1, h2] at h
    | slash => simp [h1, h2] at h
  | found r vs => simp [h1] at h
  | slash => simp [h1] at h

/-- everything a sub-search adds to `have_match_for` is in the enclosing search's set -/
theorem dfs_cons_ms_sub {q : Req} {rs ss ds} {x : Str} {xs vals : List Str} {m : Str}
    (h : m ∈ (dfs q (.node rs ss ds) (x :: xs) vals).ms) :
    m ∈ (dfsStatic q ss x xs vals).ms ∨ m ∈ (dfsDyn q ds x xs vals).ms ∨ m ∈ (fallback q rs x xs vals).ms := by
  rw [dfs.eq_2] at h
  cases h1 : (dfsStatic q ss x xs vals).res with
  | none =>
    cases h2 : (dfsDyn q ds x xs vals).res with
    | none =>
      simp only [h1, h2, fallback] at h ⊢
      simp only [List.mem_append] at h
      rcases h with (h | h) | h
      · exact .inl h
      · exact .inr (.inl h)
      · exact .inr (.inr h)
    | found r vs =>
      simp only [h1, h2, List.mem_append] at h
      rcases h with h | h
      · exact .inl h
      · exact .inr (.inl h)
    | slash =>
      simp only [h1, h2, List.mem_append] at h
      rcases h with h | h
      · exact .inl h
      · exact .inr (.inl h)
  | found r vs => simp only [h1] at h; exact .inl h
  | slash => simp only [h1] at h; exact .inl h

end Wz.Routing
