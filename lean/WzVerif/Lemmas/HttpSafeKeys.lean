import WzVerif.Lemmas.HttpSafeAccept
set_option linter.unusedSimpArgs false
namespace Wz.Http
open Wz

/-! ### after the F07g repair no parsed option has an empty name -/

def KeysOk (st : OptState) : Prop := ∀ x ∈ st.options, x.1 ≠ []

theorem dictSet_keys_ne {ν : Type} (d : Dict ν) (k : Str) (v : ν) (hd : ∀ x ∈ d, x.1 ≠ []) (hk : k ≠ []) :
    ∀ x ∈ dictSet d k v, x.1 ≠ [] := by
  intro x hx
  unfold dictSet at hx
  split at hx
  · simp only [List.mem_map] at hx
    obtain ⟨y, hy, rfl⟩ := hx
    split
    · exact hd y hy
    · exact hd y hy
  · simp only [List.mem_append, List.mem_singleton] at hx
    rcases hx with hx | rfl
    · exact hd x hx
    · exact hk

theorem optStore_keys (st : OptState) (pk pv : Str) (h : KeysOk st) (hpk : pk ≠ []) :
    KeysOk (optStore st pk pv) := by
  unfold optStore
  split
  · next base _ =>
    split
    · exact h
    · next hb => exact dictSet_keys_ne _ _ _ h (by intro e; rw [e] at hb; simp at hb)
  · exact dictSet_keys_ne _ _ _ h hpk

theorem optStar_options (st : OptState) (pv : Str) : (optStar st pv).1.options = st.options := by
  unfold optStar
  simp only
  split <;> split <;> split <;> rfl

theorem optPart_keys (st st' : OptState) (pk pv : Str) (h : KeysOk st) (hp : PartOk (pk, pv))
    (he : optPart st pk pv = .ok st') : KeysOk st' := by
  unfold optPart at he
  obtain ⟨l, hl⟩ := last!_safe (k := pk) (by have := hp.1; cases pk <;> simp_all)
  rw [hl] at he
  simp only [ok_bind] at he
  split at he
  · split at he
    · simp only [pure_eq_ok, Except.ok.injEq] at he; rw [← he]; exact h
    · next hne =>
      obtain ⟨v, hv⟩ := optUnquote_safe (optStar_ne_nil st hp.2)
      rw [hv] at he
      simp only [ok_bind, pure_eq_ok, Except.ok.injEq] at he
      rw [← he]
      apply optStore_keys
      · intro x hx; rw [optStar_options] at hx; exact h x hx
      · intro e; rw [e] at hne; simp at hne
  · obtain ⟨v, hv⟩ := optUnquote_safe hp.2
    rw [hv] at he
    simp only [ok_bind, pure_eq_ok, Except.ok.injEq] at he
    rw [← he]
    exact optStore_keys _ _ _ h hp.1

theorem foldlM_optFold_keys (parts : List (Str × Str)) (st st' : OptState) (h : KeysOk st)
    (hp : ∀ p ∈ parts, PartOk p) (he : parts.foldlM optFold st = .ok st') : KeysOk st' := by
  induction parts generalizing st with
  | nil => simp at he; rw [← he]; exact h
  | cons p t ih =>
    rw [List.foldlM_cons] at he
    cases h1 : optFold st p with
    | error e => rw [h1] at he; simp at he
    | ok s1 =>
      rw [h1] at he
      simp only [ok_bind] at he
      exact ih s1 (optPart_keys st s1 p.1 p.2 h (hp p (by simp)) h1) (fun q hq => hp q (by simp [hq])) he

/-- every option name returned by `parse_options_header` is non-empty -/
theorem parseOptionsHeader_keys (s v : Str) (opts : Dict Str) (h : parseOptionsHeader s = .ok (v, opts)) :
    ∀ x ∈ opts, x.1 ≠ [] := by
  unfold parseOptionsHeader at h
  simp only at h
  generalize partition ';' s = p at h
  obtain ⟨v0, f, r0⟩ := p
  simp only at h
  split at h
  · simp only [pure_eq_ok, Except.ok.injEq, Prod.mk.injEq] at h
    rw [← h.2]; simp
  · have hparts := optScan_parts ((strip r0).length + 1) (strip r0) [] (by simp)
    cases hf : (optScan ((strip r0).length + 1) (strip r0) []).foldlM optFold ({} : OptState) with
    | error e => rw [hf] at h; simp at h
    | ok st =>
      rw [hf] at h
      simp only [ok_bind, pure_eq_ok, Except.ok.injEq, Prod.mk.injEq] at h
      rw [← h.2]
      exact foldlM_optFold_keys _ _ st (by intro x hx; simp at hx) hparts hf

theorem parseAcceptHeader_safe (s : Str) : Safe (parseAcceptHeader s) :=
  parseAcceptHeader_safe_partial s (fun item _ v opts h => parseOptionsHeader_keys item v opts h)

end Wz.Http
