/-
IRI → URI → IRI is stable after one round (C15 `iri_uri_iri`): re-quoting the output of
`_unquote_partial` and unquoting again gives the same text. Core Lean only.
-/
import WzVerif.Lemmas.UrlRoundtrip
namespace Wz.Url
open Wz

theorem utf8Enc_append (a b : Str) : utf8Enc (a ++ b) = utf8Enc a ++ utf8Enc b := by simp [utf8Enc]

theorem quote_append (safe a b : Str) : quote safe (a ++ b) = quote safe a ++ quote safe b := by
  simp [quote, quoteBytes, utf8Enc_append]

theorem quote_flatMap (safe : Str) (f : α → Str) : ∀ (l : List α),
    quote safe (l.flatMap f) = l.flatMap fun x => quote safe (f x)
  | [] => by simp [quote, quoteBytes, utf8Enc]
  | x :: l => by simp only [List.flatMap_cons, quote_append, quote_flatMap safe f l]

theorem fixed_pct {safe : Str} (hp : safe.contains '%' = true) (b : UInt8) : ∀ c ∈ pct b, Fixed safe c := by
  intro c hc
  have hb := b.toNat_lt
  have : quoteByte safe (UInt8.ofNat 0xFF) = pct (UInt8.ofNat 0xFF) := by
    simp [quoteByte, isSafe]
  -- reuse quoteByte_fixed on a byte that is certainly quoted, then transfer digit by digit
  simp only [pct, List.mem_cons, List.mem_nil_iff, or_false] at hc
  have hex : ∀ d, d < 16 → Fixed safe (hexU d) := by
    intro d hd
    have h1 := hexU_ascii d hd
    refine ⟨h1, ?_⟩
    simp only [isSafe, Bool.and_eq_true, decide_eq_true_eq, Bool.or_eq_true]
    rw [uint8_toNat_ofNat_lt (by omega)]
    exact ⟨h1, Or.inl (hexU_alwaysSafe d hd)⟩
  rcases hc with rfl | rfl | rfl
  · refine ⟨by decide, ?_⟩
    simp only [isSafe, Bool.and_eq_true, decide_eq_true_eq, Bool.or_eq_true]
    refine ⟨by decide, Or.inr ?_⟩
    have : Char.ofNat (UInt8.ofNat '%'.toNat).toNat = '%' := by decide
    rw [this]; exact hp
  · exact hex _ (by omega)
  · exact hex _ (Nat.mod_lt _ (by decide))

/-- bytes of a multi-byte character item are all ≥ 0x80 -/
theorem raw_ge_of_nonascii {b0 : UInt8} {t : Bytes} {c : Char} {raw : Bytes}
    (h : firstItem b0 t = .chr c raw) (hc : 128 ≤ c.toNat) : ∀ b ∈ raw, 0x80 ≤ b := by
  have hge : ¬ b0 < 0x80 := by
    intro hlt
    have : firstItem b0 t = .chr (Char.ofNat b0.toNat) [b0] := by simp [firstItem, hlt]
    rw [h] at this
    simp only [Item.chr.injEq] at this
    rw [this.1] at hc
    rw [UInt8.lt_iff_toNat_lt] at hlt
    simp at hlt
    rw [char_toNat_ofNat_lt (by omega)] at hc
    omega
  have hb0 : 0x80 ≤ b0 := by
    rw [UInt8.le_iff_toNat_le]; rw [UInt8.lt_iff_toNat_lt] at hge; simp at hge ⊢; omega
  unfold firstItem at h
  rw [if_neg hge] at h
  cases hl : leadInfo b0 with
  | none => rw [hl] at h; cases h
  | some v =>
    obtain ⟨n, lo, hi⟩ := v
    rw [hl] at h
    simp only at h
    split at h
    · simp only [Item.chr.injEq] at h
      intro b hb
      rw [← h.2] at hb
      rcases List.mem_cons.mp hb with rfl | hb
      · exact hb0
      · exact takeCont_ge n lo hi t (leadInfo_range hl).1 b hb
    · cases h

theorem wfk_pct' {keep : List Bool} {b : UInt8} (hb : tbl keep b.toNat = false) (Y : Str) :
    wfk keep (pct b ++ Y) = wfk keep Y := by
  have hlt := b.toNat_lt
  have h1 := hexVal_hexU' (b.toNat / 16) (by omega)
  have h2 := hexVal_hexU' (b.toNat % 16) (Nat.mod_lt _ (by decide))
  have hv : 16 * (b.toNat / 16) + b.toNat % 16 = b.toNat := by omega
  simp only [pct, List.cons_append, List.nil_append, wfk, if_true, h1, h2, hv, hb]
  simp

theorem quoteBytes_high (safe : Str) : ∀ (span : Bytes), (∀ b ∈ span, 0x80 ≤ b) →
    quoteBytes safe span = span.flatMap pct
  | [], _ => rfl
  | b :: r, h => by
    have hb := h b (by simp)
    have hn : ¬ b.toNat < 128 := by rw [UInt8.le_iff_toNat_le] at hb; simp at hb; omega
    have ih := quoteBytes_high safe r (fun x hx => h x (List.mem_cons_of_mem _ hx))
    simp only [quoteBytes, List.flatMap_cons] at ih ⊢
    rw [ih]
    simp [quoteByte, isSafe, hn]

theorem wfk_pcts {keep : List Bool} (hk : KeepOK keep) (Y : Str) : ∀ (span : Bytes), (∀ b ∈ span, 0x80 ≤ b) →
    wfk keep (span.flatMap pct ++ Y) = wfk keep Y
  | [], _ => rfl
  | b :: s, h => by
    simp only [List.flatMap_cons, List.append_assoc]
    rw [wfk_pct hk (h b (by simp))]
    exact wfk_pcts hk Y s (fun x hx => h x (List.mem_cons_of_mem _ hx))

/-- condition on the bytes of a run: an ASCII byte is left raw by `quote`, or its escape is not kept -/
def ByteOK (safe : Str) (keep : List Bool) (b : UInt8) : Prop :=
  b.toNat < 128 → isSafe safe b = true ∨ tbl keep b.toNat = false

/-- re-quoting one rendered item: its bytes come back, and no kept escape appears -/
theorem requote_item {safe : Str} {keep : List Bool} (hp : safe.contains '%' = true) (hk : KeepOK keep)
    {B : Bytes} (h25 : (0x25 : UInt8) ∉ B) (hB : ∀ b ∈ B, ByteOK safe keep b) {I : Item} (hI : I ∈ its B) :
    (∀ rest, unquoteBytes (toBytes (quote safe (render I)) ++ rest) = I.raw ++ unquoteBytes rest) ∧
    (∀ Y, wfk keep (quote safe (render I) ++ Y) = wfk keep Y) := by
  obtain ⟨b0, t, rfl, hb0⟩ := mem_its B.length B (Nat.le_refl _) I hI
  have hne : b0 ≠ 0x25 := fun e => h25 (e ▸ hb0)
  rcases firstItem_cases b0 t with ⟨hb, hI⟩ | ⟨span, hI, hs⟩ | ⟨c, raw, hI, hc, _⟩
  · -- an ASCII character
    have hlt : b0.toNat < 128 := by rw [UInt8.lt_iff_toNat_lt] at hb; simpa using hb
    have henc : utf8Enc [Char.ofNat b0.toNat] = [b0] := by
      simp [utf8Enc, utf8EncodeChar_ascii (show (Char.ofNat b0.toNat).toNat < 128 by
        rw [char_toNat_ofNat_lt (by omega)]; exact hlt), char_toNat_ofNat_lt (show b0.toNat < 256 by omega)]
    rw [hI]
    simp only [render, Item.raw, quote, henc]
    refine ⟨fun rest => unquoteBytes_quoteBytes safe [b0] rest (by simpa using Ne.symm hne), ?_⟩
    intro Y
    simp only [quoteBytes, List.flatMap_cons, List.flatMap_nil, List.append_nil]
    unfold quoteByte
    split
    · simp only [List.cons_append, List.nil_append]
      apply wfk_cons_ne
      intro e
      apply hne
      have := congrArg Char.toNat e
      rw [char_toNat_ofNat_lt (by omega)] at this
      apply UInt8.toNat_inj.mp
      rw [this]; rfl
    · rename_i hns
      rcases hB b0 hb0 hlt with h | h
      · exact absurd h hns
      · exact wfk_pct' h Y
  · -- an undecodable span: the text is already quoted
    rw [hI]
    simp only [render, Item.raw]
    rw [requote_bad hs]
    have hfix : quote safe (span.flatMap pct) = span.flatMap pct := by
      apply quote_of_fixed
      intro c hc
      obtain ⟨b, _, hb⟩ := List.mem_flatMap.mp hc
      exact fixed_pct hp b c hb
    rw [hfix]
    refine ⟨fun rest => ?_, fun Y => ?_⟩
    · have := unquoteBytes_render (I := .bad span) hs
        (by intro hm; have := hs _ hm; exact absurd this (by decide)) rest
      simpa [render, requote_bad hs, Item.raw] using this
    · exact wfk_pcts hk Y span hs
  · -- a multi-byte character: quote writes its UTF-8 bytes as escapes
    have henc : utf8Enc [c] = raw := by simp [utf8Enc, encode_firstItem hI]
    have hraw := raw_ge_of_nonascii hI hc
    rw [hI]
    simp only [render, Item.raw, quote, henc]
    refine ⟨fun rest => unquoteBytes_quoteBytes safe raw rest
      (by intro hm; exact absurd (hraw _ hm) (by decide)), fun Y => ?_⟩
    rw [quoteBytes_high safe raw hraw]
    exact wfk_pcts hk Y raw hraw

/-- **Key lemma.** For the text `T` a run decodes to: `quote` of `T` contains no kept escape, and
unquoting it gives `T` back. -/
theorem requote_run {safe : Str} {keep : List Bool} (hp : safe.contains '%' = true) (hk : KeepOK keep)
    {B : Bytes} (h25 : (0x25 : UInt8) ∉ B) (hB : ∀ b ∈ B, ByteOK safe keep b) :
    let T := (its B).flatMap render
    wfk keep (quote safe T) = true ∧ unquote (quote safe T) = T := by
  intro T
  have hq : quote safe T = (its B).flatMap fun I => quote safe (render I) := quote_flatMap safe render _
  have hbytes : ∀ (Is : List Item), (∀ I ∈ Is, I ∈ its B) →
      unquoteBytes (toBytes (Is.flatMap fun I => quote safe (render I))) = Is.flatMap Item.raw ∧
      wfk keep (Is.flatMap fun I => quote safe (render I)) = true := by
    intro Is
    induction Is with
    | nil => intro _; exact ⟨by simp [toBytes, unquoteBytes], rfl⟩
    | cons I Is ih =>
      intro h
      obtain ⟨h1, h2⟩ := requote_item hp hk h25 hB (h I (by simp))
      obtain ⟨i1, i2⟩ := ih (fun J hJ => h J (List.mem_cons_of_mem _ hJ))
      simp only [List.flatMap_cons, toBytes_append]
      exact ⟨by rw [h1, i1], by rw [h2, i2]⟩
  obtain ⟨b1, b2⟩ := hbytes (its B) (fun I hI => hI)
  refine ⟨by rw [hq]; exact b2, ?_⟩
  rw [unquote_ascii (quote_ascii' safe T), hq, b1, its_raw B.length B (Nat.le_refl _)]
where
  quote_ascii' (safe T : Str) : ∀ c ∈ quote safe T, c.toNat < 128 := quoteBytes_ascii safe _

/-- the bytes a well-formed, fully quoted run stands for: each ASCII byte is safe or not kept -/
theorem byteOK_run {safe : Str} {keep : List Bool} : ∀ (a : Str), (∀ c ∈ a, Fixed safe c) →
    wfk keep a = true → ∀ b ∈ unquoteBytes (toBytes a), ByteOK safe keep b
  | [], _, _ => by simp [toBytes, unquoteBytes]
  | [c], ha, _ => by
    intro b hb _
    simp only [toBytes, List.map_cons, List.map_nil, unquoteBytes, List.mem_singleton] at hb
    subst hb
    exact Or.inl (ha c (by simp)).2
  | [c, x], ha, _ => by
    intro b hb _
    simp only [toBytes, List.map_cons, List.map_nil, unquoteBytes, List.mem_cons, List.mem_nil_iff,
      or_false] at hb
    rcases hb with rfl | rfl
    · exact Or.inl (ha c (by simp)).2
    · exact Or.inl (ha x (by simp)).2
  | c :: x :: y :: t, ha, h => by
    have hat : ∀ d ∈ t, Fixed safe d := fun d hd => ha d (by simp [hd])
    by_cases hc : c = '%'
    · subst hc
      simp only [wfk, if_true] at h
      cases hx : hexVal? x <;> cases hy : hexVal? y <;> simp only [hx, hy] at h <;> try (simp at h; done)
      rename_i hi lo
      simp only [Bool.and_eq_true, Bool.not_eq_true'] at h
      have h0 : UInt8.ofNat '%'.toNat = 0x25 := by decide
      have ih := byteOK_run t hat h.2
      simp only [toBytes, List.map_cons, unquoteBytes, h0, if_true,
        char_of_byte (ha x (by simp)).1, char_of_byte (ha y (by simp)).1, hx, hy] at ih ⊢
      intro b hb
      rcases List.mem_cons.mp hb with rfl | hb
      · intro _
        right
        have hlt : 16 * hi + lo < 256 := by have := hexVal_lt hx; have := hexVal_lt hy; omega
        rw [uint8_toNat_ofNat_lt hlt]; exact h.1
      · exact ih b hb
    · have hb := byte_ne_pct (ha c (by simp)).1 hc
      rw [wfk_cons_ne hc] at h
      have ih := byteOK_run (x :: y :: t) (fun d hd => ha d (List.mem_cons_of_mem _ hd)) h
      have : toBytes (c :: x :: y :: t) = UInt8.ofNat c.toNat :: toBytes (x :: y :: t) := rfl
      rw [this, unquoteBytes_cons_ne hb]
      intro b hb'
      rcases List.mem_cons.mp hb' with rfl | hb'
      · intro _; exact Or.inl (ha c (by simp)).2
      · exact ih b hb'

/-- segment level: for a fully quoted, well-formed segment `G` without kept escapes -/
theorem requote_segment {safe : Str} {keep : List Bool} (hp : safe.contains '%' = true) (hk : KeepOK keep)
    {G : Str} (hf : ∀ c ∈ G, Fixed safe c) (hw : wfk keep G = true) :
    wfk keep (quote safe (unquote G)) = true ∧ unquote (quote safe (unquote G)) = unquote G := by
  have ha : ∀ c ∈ G, c.toNat < 128 := fun c hc => (hf c hc).1
  rw [unquote_ascii ha]
  exact requote_run hp hk (no_pct_byte hk.1 G ha hw) (byteOK_run G hf hw)

theorem iri_uri_iri_aux {safe : Str} {keep : List Bool} (hp : safe.contains '%' = true) (hk : KeepOK keep) :
    ∀ (u seg : Str), wfk keep seg.reverse = true → (∀ c ∈ seg, Fixed safe c) →
    wellFormed u = true → (∀ c ∈ u, Fixed safe c) →
    upSpec keep (quote safe (upSpec keep u seg)) [] = upSpec keep u seg
  | [], seg, hseg, hfs, _, _ => by
    simp only [upSpec]
    obtain ⟨h1, h2⟩ := requote_segment hp hk (G := seg.reverse) (by simpa using hfs) hseg
    have := upSpec_append (quote safe (unquote seg.reverse)) [] [] h1
    simp only [List.append_nil] at this
    rw [this]
    simp only [upSpec, List.reverse_reverse]
    exact h2
  | [c], seg, hseg, hfs, hs, hfu => by
    have hc : c ≠ '%' := by intro e; simp [wellFormed, wfk, e] at hs
    rw [upSpec_cons_ne hc]
    apply iri_uri_iri_aux hp hk [] (c :: seg) _ _ rfl (by simp)
    · simp only [List.reverse_cons]
      rw [wfk_append _ _ hseg]
      simp [wfk, hc]
    · intro d hd
      rcases List.mem_cons.mp hd with rfl | hd
      · exact hfu d (by simp)
      · exact hfs d hd
  | [c, x], seg, hseg, hfs, hs, hfu => by
    have hc : c ≠ '%' := by intro e; simp [wellFormed, wfk, e] at hs
    rw [wellFormed_cons_ne hc] at hs
    rw [upSpec_cons_ne hc]
    apply iri_uri_iri_aux hp hk [x] (c :: seg) _ _ hs (fun d hd => hfu d (List.mem_cons_of_mem _ hd))
    · simp only [List.reverse_cons]
      rw [wfk_append _ _ hseg]
      simp [wfk, hc]
    · intro d hd
      rcases List.mem_cons.mp hd with rfl | hd
      · exact hfu d (by simp)
      · exact hfs d hd
  | c :: x :: y :: t, seg, hseg, hfs, hs, hfu => by
    have hft : ∀ d ∈ t, Fixed safe d := fun d hd => hfu d (by simp [hd])
    by_cases hc : c = '%'
    · subst hc
      simp only [wellFormed, wfk, if_true] at hs
      cases hx : hexVal? x <;> cases hy : hexVal? y <;> simp only [hx, hy] at hs <;> try (simp at hs; done)
      rename_i hi lo
      simp only [Bool.and_eq_true] at hs
      have hst : wellFormed t = true := hs.2
      simp only [upSpec, if_true, hx, hy]
      by_cases hkept : tbl keep (16 * hi + lo) = true
      · simp only [hkept, if_true]
        obtain ⟨h1, h2⟩ := requote_segment hp hk (G := seg.reverse) (by simpa using hfs) hseg
        have hk3 : quote safe ['%', x, y] = ['%', x, y] := by
          apply quote_of_fixed
          intro d hd
          simp only [List.mem_cons, List.mem_nil_iff, or_false] at hd
          rcases hd with rfl | rfl | rfl <;> exact hfu _ (by simp)
        have hsplit : unquote seg.reverse ++ '%' :: x :: y :: upSpec keep t [] =
            unquote seg.reverse ++ (['%', x, y] ++ upSpec keep t []) := by simp
        rw [hsplit, quote_append, quote_append, hk3, upSpec_append _ _ [] h1]
        simp only [List.append_nil, List.cons_append, List.nil_append, upSpec, if_true, hx, hy, hkept,
          List.reverse_reverse]
        rw [h2, iri_uri_iri_aux hp hk t [] rfl (by simp) hst hft]
      · simp only [hkept, Bool.false_eq_true, if_false]
        apply iri_uri_iri_aux hp hk t _ _ _ hst hft
        · simp only [List.reverse_cons, List.append_assoc, List.cons_append, List.nil_append]
          rw [wfk_append _ _ hseg]
          simp [wfk, hx, hy, hkept]
        · intro d hd
          simp only [List.mem_cons] at hd
          rcases hd with rfl | rfl | rfl | hd
          · exact hfu _ (by simp)
          · exact hfu _ (by simp)
          · exact hfu _ (by simp)
          · exact hfs d hd
    · rw [wellFormed_cons_ne hc] at hs
      rw [upSpec_cons_ne hc]
      apply iri_uri_iri_aux hp hk (x :: y :: t) (c :: seg) _ _ hs (fun d hd => hfu d (List.mem_cons_of_mem _ hd))
      · simp only [List.reverse_cons]
        rw [wfk_append _ _ hseg]
        simp [wfk, hc]
      · intro d hd
        rcases List.mem_cons.mp hd with rfl | hd
        · exact hfu d (by simp)
        · exact hfs d hd

/-- **IRI → URI → IRI is stable after one round**: for a fully quoted component `u` (every character
left alone by `quote(·, safe)`, every `%` starting an escape), with `x = _unquote_partial(u)`:
`_unquote_partial(quote(x, safe)) = x`. -/
theorem unquotePartial_quote_stable {safe : Str} {keep : List Bool} (hp : safe.contains '%' = true)
    (hk : KeepOK keep) (u : Str) (hu : wellFormed u = true) (hf : ∀ c ∈ u, Fixed safe c) :
    unquotePartial keep (quote safe (unquotePartial keep u)) = unquotePartial keep u := by
  rw [unquotePartial_eq keep u, unquotePartial_eq]
  exact iri_uri_iri_aux hp hk u [] rfl (by simp) hu hf

/-! ### quoting preserves well-formedness -/

theorem hex_alwaysSafe : ∀ n, n < 128 → (hexVal? (Char.ofNat n)).isSome = true →
    tbl Gen.UrlTables.alwaysSafe n = true := by decide +kernel

theorem fixed_of_hex {safe : Str} {x : Char} {v : Nat} (h : hexVal? x = some v) : Fixed safe x := by
  have hlt : x.toNat < 128 := by
    by_cases hl : x.toNat < 128
    · exact hl
    · rw [hexVal_nonascii (by omega)] at h; cases h
  refine ⟨hlt, ?_⟩
  have := hex_alwaysSafe x.toNat hlt (by rw [Char.ofNat_toNat, h]; rfl)
  simp only [isSafe, Bool.and_eq_true, decide_eq_true_eq, Bool.or_eq_true]
  rw [uint8_toNat_ofNat_lt (by omega)]
  exact ⟨hlt, Or.inl this⟩

theorem wfk_nil_quoteBytes (safe : Str) (Y : Str) : ∀ (B : Bytes), (0x25 : UInt8) ∉ B →
    wfk [] (quoteBytes safe B ++ Y) = wfk [] Y
  | [], _ => rfl
  | b :: B, h => by
    have hb : b ≠ 0x25 := fun e => h (by simp [e])
    have ih := wfk_nil_quoteBytes safe Y B (fun m => h (List.mem_cons_of_mem _ m))
    simp only [quoteBytes, List.flatMap_cons, List.append_assoc] at ih ⊢
    by_cases hs : isSafe safe b = true
    · have hq : quoteByte safe b = [Char.ofNat b.toNat] := by simp [quoteByte, hs]
      have hlt : b.toNat < 128 := by
        simp only [isSafe, Bool.and_eq_true, decide_eq_true_eq] at hs; exact hs.1
      rw [hq]
      simp only [List.cons_append, List.nil_append]
      rw [wfk_cons_ne, ih]
      intro e
      apply hb
      have := congrArg Char.toNat e
      rw [char_toNat_ofNat_lt (by omega)] at this
      apply UInt8.toNat_inj.mp
      rw [this]; rfl
    · have hq : quoteByte safe b = pct b := by simp [quoteByte, hs]
      rw [hq, wfk_pct' (by simp [tbl]), ih]

theorem wellFormed_quote {safe : Str} (hp : safe.contains '%' = true) : ∀ (s : Str),
    wellFormed s = true → wellFormed (quote safe s) = true
  | [], _ => rfl
  | [c], h => by
    have hc : c ≠ '%' := by intro e; simp [wellFormed, wfk, e] at h
    have := wfk_nil_quoteBytes safe [] (utf8Enc [c]) (utf8Enc_no_pct [c] (by simpa using Ne.symm hc))
    simpa [wellFormed, quote, wfk] using this
  | [c, x], h => by
    have hc : c ≠ '%' := by intro e; simp [wellFormed, wfk, e] at h
    rw [wellFormed_cons_ne hc] at h
    have hx : x ≠ '%' := by intro e; simp [wellFormed, wfk, e] at h
    have := wfk_nil_quoteBytes safe [] (utf8Enc [c, x])
      (utf8Enc_no_pct [c, x] (by simp [Ne.symm hc, Ne.symm hx]))
    simpa [wellFormed, quote, wfk] using this
  | c :: x :: y :: t, h => by
    by_cases hc : c = '%'
    · subst hc
      simp only [wellFormed, wfk, if_true] at h
      cases hx : hexVal? x <;> cases hy : hexVal? y <;> simp only [hx, hy] at h <;> try (simp at h; done)
      simp only [Bool.and_eq_true] at h
      have ih := wellFormed_quote hp t h.2
      have hk3 : quote safe ['%', x, y] = ['%', x, y] := by
        apply quote_of_fixed
        intro d hd
        simp only [List.mem_cons, List.mem_nil_iff, or_false] at hd
        rcases hd with rfl | rfl | rfl
        · exact (fixed_pct hp 0 _ (by simp [pct]))
        · exact fixed_of_hex hx
        · exact fixed_of_hex hy
      have : quote safe ('%' :: x :: y :: t) = ['%', x, y] ++ quote safe t := by
        rw [← hk3, ← quote_append]; rfl
      rw [this]
      simp only [wellFormed, List.cons_append, List.nil_append, wfk, if_true, hx, hy]
      simpa [tbl, wellFormed] using ih
    · rw [wellFormed_cons_ne hc] at h
      have ih := wellFormed_quote hp (x :: y :: t) h
      have : quote safe (c :: x :: y :: t) = quote safe [c] ++ quote safe (x :: y :: t) := by
        rw [← quote_append]; rfl
      rw [this]
      unfold wellFormed
      have := wfk_nil_quoteBytes safe (quote safe (x :: y :: t)) (utf8Enc [c])
        (utf8Enc_no_pct [c] (by simpa using Ne.symm hc))
      rw [quote, this]
      exact ih

end Wz.Url
