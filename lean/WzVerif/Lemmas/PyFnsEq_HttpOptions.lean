/-
PyFnsEq_HttpOptions — `parse_options_header` of `werkzeug.http` *as regenerated from the source* by
`tools/py2lean.py` (`Gen/PyFns_HttpOptions.lean`, rewritten on every check run) is equal, for every
input text and every sufficient amount of fuel, to the hand-written model `Http.parseOptionsHeader` of
`Model/Http.lean` - the function the C06 round-trip theorems and the C07 totality / termination
theorems are about.

Main theorems: `loop2_eq` (the inner `while pos < length` quoted-string scan = `Http.scanQuoted`),
`loop1_step` (one turn of the outer `while True` scanner = `Http.optStep` + `Http.afterSemi?`),
`loop1_eq` (the outer loop = `Http.optScan`), `loop3_step` / `optPart_step` / `loop3_eq` (the
`for pk, pv in parts` pass = `foldlM Http.optFold`), `parse_options_header_eq_of_rest`,
`parse_options_header_eq`, `parse_options_header_none`, `parse_options_header_ok`.
Nothing is weakened: the equality is exact (values and errors); the only hypothesis is the fuel bound
`len(value) ≤ fuel` (sharper: more fuel than the stripped text after the first `;` has characters).
The four regexes enter as the hand models the generated file names (`parameterKeyReMatch`, … =
C06's character classes); `unquote(pv, encoding=…)` is `Gen.PyFns_HttpDict.unquoteEnc`, whose
"encoding outside the model" marker is shown unreachable behind the `encoding in {…}` guard.

Helper lemmas that do not mention generated definitions (`slice_append_two`, `getItemStr_append`,
`slice_to_append`, `slice_from_append`, `replace3_eq`, `continuation?_prefix`, `slice_continuation`,
`lower_key`, `encOfName_eq_dict`, `safeName_test`, `optScan_acc`, `optStore_eq`, `strip_length_le`,
`optPart_step`) are candidates for the shared libraries Lemmas/PyFns_Prelude.lean / Lemmas/PyFns_Http.lean.
-/
import WzVerif.Props.C06T
import WzVerif.Gen.PyFns_HttpOptions
import WzVerif.Lemmas.PyFnsEq_HttpDict
import WzVerif.Lemmas.PyFns_Host
import WzVerif.Lemmas.HttpTermOpt
namespace Wz.PyFnsEq.HttpOptions
open Wz Wz.Pre Wz.PyFnsHttp Wz.Gen.PyFns_HttpOptions Wz.PyFnsEq.HttpDict

/-! ### slicing and indexing at the end of a known prefix -/

theorem slice_append_two (pre suf : Str) (n : Nat) (hn : pre.length = n) :
    Pre.slice (pre ++ suf) (some (n : Int)) (some ((n : Int) + 2)) = suf.take 2 := by
  subst hn
  have : ((pre.length : Int) + 2) = ((pre.length + 2 : Nat) : Int) := by push_cast; rfl
  rw [this, slice_nat]
  simp [List.take_append]

theorem getItemStr_append (pre : Str) (c : Char) (t : Str) (n : Nat) (hn : pre.length = n) :
    Pre.getItemStr (pre ++ c :: t) (n : Int) = .ok [c] := by
  subst hn
  unfold Pre.getItemStr Pre.getItem
  have : ¬ ((pre.length : Int) < 0) := by omega
  simp [this]

theorem slice_to_append (pre : Str) (c : Char) (t : Str) (n : Nat) (hn : pre.length = n) :
    Pre.slice (pre ++ c :: t) none (some ((n : Int) + 1)) = pre ++ [c] := by
  subst hn
  have : ((pre.length : Int) + 1) = ((pre.length + 1 : Nat) : Int) := by push_cast; rfl
  rw [this, slice_none_nat]
  simp [List.take_append, List.take_of_length_le]

theorem slice_from_append (pre : Str) (c : Char) (t : Str) (n : Nat) (hn : pre.length = n) :
    Pre.slice (pre ++ c :: t) (some ((n : Int) + 1)) none = t := by
  subst hn
  have : ((pre.length : Int) + 1) = ((pre.length + 1 : Nat) : Int) := by push_cast; rfl
  rw [this, slice_nat_none]
  simp [List.drop_append]

/-! ### the inner `while pos < length` loop -/

/-- the loop test fails at the end of the text -/
theorem loop2_end (pk : Str) (parts : List (Str × Str)) (pre : Str) (f n : Nat) (hn : pre.length = n) :
    parse_options_header.loop2 pk (pre.length : Int) (f + 1) (n : Int) parts pre = .fall ((n : Int), parts, pre) := by
  subst hn
  rw [parse_options_header.loop2]
  simp

/-- an escaped backslash or quote is skipped as a pair -/
theorem loop2_esc (pk : Str) (parts : List (Str × Str)) (pre t : Str) (b : Char) (f n : Nat)
    (hn : pre.length = n) (hb : b = '\\' ∨ b = '"') :
    parse_options_header.loop2 pk ((pre ++ '\\' :: b :: t).length : Int) (f + 1) (n : Int) parts (pre ++ '\\' :: b :: t)
      = parse_options_header.loop2 pk ((pre ++ '\\' :: b :: t).length : Int) f ((n : Int) + 2) parts (pre ++ '\\' :: b :: t) := by
  rw [parse_options_header.loop2]
  have hlt : ((n : Int) < ((pre ++ '\\' :: b :: t).length : Int)) := by subst hn; simp; omega
  simp only [hlt, decide_true, if_true, slice_append_two pre _ n hn]
  rcases hb with rfl | rfl <;> simp

/-- an unescaped quote ends the scan -/
theorem loop2_quote (pk : Str) (parts : List (Str × Str)) (pre t : Str) (f n : Nat) (hn : pre.length = n) :
    parse_options_header.loop2 pk ((pre ++ '"' :: t).length : Int) (f + 1) (n : Int) parts (pre ++ '"' :: t)
      = .fall ((n : Int), parts ++ [(pk, pre ++ ['"'])], t) := by
  rw [parse_options_header.loop2]
  have hlt : ((n : Int) < ((pre ++ '"' :: t).length : Int)) := by subst hn; simp; omega
  simp only [hlt, decide_true, if_true, slice_append_two pre _ n hn, getItemStr_append pre _ _ n hn,
    slice_to_append pre _ _ n hn, slice_from_append pre _ _ n hn]
  cases t <;> simp

/-- any other character is skipped -/
theorem loop2_other (pk : Str) (parts : List (Str × Str)) (pre t : Str) (c : Char) (f n : Nat) (hn : pre.length = n)
    (h1 : ∀ t', c :: t ≠ '\\' :: '\\' :: t') (h2 : ∀ t', c :: t ≠ '\\' :: '"' :: t') (h3 : c ≠ '"') :
    parse_options_header.loop2 pk ((pre ++ c :: t).length : Int) (f + 1) (n : Int) parts (pre ++ c :: t)
      = parse_options_header.loop2 pk ((pre ++ c :: t).length : Int) f ((n : Int) + 1) parts (pre ++ c :: t) := by
  rw [parse_options_header.loop2]
  have hlt : ((n : Int) < ((pre ++ c :: t).length : Int)) := by subst hn; simp; omega
  have hc : (([c] : Str) == ['"']) = false := by simpa using h3
  have hs : [['\\', '\\'], ['\\', '"']].contains ((c :: t).take 2) = false := by
    cases t with
    | nil => simp
    | cons d t' =>
      simp only [List.take_succ_cons, List.take_zero, List.contains_cons, List.contains_nil, Bool.or_false,
        Bool.or_eq_false_iff, beq_eq_false_iff_ne, ne_eq]
      constructor
      · intro e; cases e; exact h1 t' rfl
      · intro e; cases e; exact h2 t' rfl
  simp only [hlt, decide_true, if_true, slice_append_two pre _ n hn, getItemStr_append pre _ _ n hn, hs, hc,
    Bool.false_eq_true, if_false]

/-- what the quoted-string scan leaves behind: the new `parts` and `rest` -/
def quotedOut (pk : Str) (parts : List (Str × Str)) (rest : Str) (r : Option (Str × Str)) :
    List (Str × Str) × Str :=
  match r with
  | some (qs, r') => (parts ++ [(pk, qs)], r')
  | none => (parts, rest)

/-- The inner `while pos < length:` loop of `parse_options_header` (the search for the closing quote
of a quoted parameter value), as translated from the current source (`rest[pos : pos + 2] in
{"\\\\", '\\"'}` skips an escaped backslash or quote as a pair, `rest[pos] == '"'` appends
`(pk, rest[: pos + 1])`, cuts `rest = rest[pos + 1 :]` and `break`s, anything else advances by one),
started at the position of any split `rest = acc.reverse ++ suf` of the text, with more fuel than
`suf` has characters: it never leaves the function (no `IndexError` from `rest[pos]`, no
"out of fuel") and falls through with exactly what C06's model scanner `Http.scanQuoted suf acc`
finds - the quoted text including both quotes as a new part and the text after the closing quote as
the new `rest`, or `parts` and `rest` untouched when there is no closing quote. (The final value of
`pos` is not used by the function.) -/
theorem loop2_eq (pk : Str) (parts : List (Str × Str)) (suf acc : Str) :
    ∀ (fuel : Nat) (rest : Str), suf.length < fuel → rest = acc.reverse ++ suf →
    ∃ p : Int, parse_options_header.loop2 pk (rest.length : Int) fuel (acc.length : Int) parts rest
      = .fall (p, quotedOut pk parts rest (Http.scanQuoted suf acc)) := by
  fun_induction Http.scanQuoted suf acc with
  | case1 acc =>
    intro fuel rest hf hr
    cases fuel with
    | zero => omega
    | succ f =>
      simp only [List.append_nil] at hr
      subst hr
      exact ⟨_, loop2_end pk parts _ f _ (by simp)⟩
  | case2 t acc ih =>
    intro fuel rest hf hr
    cases fuel with
    | zero => omega
    | succ f =>
      obtain ⟨p, hp⟩ := ih f rest (by simp at hf; omega) (by simp [hr])
      refine ⟨p, ?_⟩
      rw [← hp, hr, loop2_esc pk parts _ t '\\' f _ (by simp) (Or.inl rfl)]
      simp only [List.length_cons]; push_cast; rfl
  | case3 t acc ih =>
    intro fuel rest hf hr
    cases fuel with
    | zero => omega
    | succ f =>
      obtain ⟨p, hp⟩ := ih f rest (by simp at hf; omega) (by simp [hr])
      refine ⟨p, ?_⟩
      rw [← hp, hr, loop2_esc pk parts _ t '"' f _ (by simp) (Or.inr rfl)]
      simp only [List.length_cons]; push_cast; rfl
  | case4 t acc =>
    intro fuel rest hf hr
    cases fuel with
    | zero => omega
    | succ f =>
      subst hr
      refine ⟨(acc.length : Int), ?_⟩
      rw [loop2_quote pk parts _ t f _ (by simp)]
      simp [quotedOut]
  | case5 c t acc h1 h2 h3 ih =>
    intro fuel rest hf hr
    cases fuel with
    | zero => omega
    | succ f =>
      obtain ⟨p, hp⟩ := ih f rest (by simp at hf; omega) (by simp [hr])
      refine ⟨p, ?_⟩
      rw [← hp, hr, loop2_other pk parts _ t c f _ (by simp) (fun t' e => by cases e; exact h1 t' rfl rfl)
        (fun t' e => by cases e; exact h2 t' rfl rfl) (fun e => h3 e)]
      simp only [List.length_cons]; push_cast; rfl

/-! ### the outer `while True` scanner loop -/

abbrev L1 := Pre.Loop (Except String (Str × List (Str × Str))) (Str × List (Str × Str))

/-- the tail of every path through the body of the `while True` loop -/
def tailM (fuel_ : Nat) (r : Str) (parts : List (Str × Str)) : L1 :=
  match Http.afterSemi? r with
  | none => .fall (r, parts)
  | some after => parse_options_header.loop1 fuel_ (Http.lstrip after) parts

theorem tail_eq (fuel_ : Nat) (r : Str) (parts : List (Str × Str)) :
    (if (Pre.find r [';'] == (-1 : Int)) = true then (Pre.Loop.fall (r, parts) : L1)
     else parse_options_header.loop1 fuel_ (Pre.lstrip (Pre.slice r (some (Pre.find r [';'] + 1)) none)) parts)
    = tailM fuel_ r parts := by
  unfold tailM Http.afterSemi?
  rcases split_at_first ';' r with ⟨h1, _, h3⟩ | ⟨pre, post, h1, h2, _, h4⟩
  · rw [PyFnsHost.find_singleton_not_mem _ _ h1, h3]; rfl
  · rw [h4]
    subst h1
    rw [PyFnsHost.find_singleton_append _ _ _ h2, slice_from_append pre _ _ _ rfl]
    have : ((pre.length : Int) == -1) = false := by
      rw [beq_eq_false_iff_ne]; omega
    simp only [this, Bool.false_eq_true, if_false]
    rfl


/-- what `optStep` returns once `key=` has been read: the value alternatives -/
def optVal (pk r : Str) : Str × Option (Str × Str) :=
  if !(r.takeWhile Http.isTokValCh).isEmpty then (r, some (pk, r.takeWhile Http.isTokValCh))
  else
    match r with
    | '"' :: q =>
      match Http.scanQuoted q ['"'] with
      | some (qs, r') => (r', some (pk, qs))
      | none => (r, none)
    | _ => (r, none)

/-- `_parameter_key_re.match(rest)` and the model's `optStep` look at the same thing -/
theorem key_cases (rest : Str) :
    (parameterKeyReMatch rest = none ∧ Http.optStep rest = (rest, none)) ∨
    (∃ key r, rest = key ++ '=' :: r ∧ (∀ c ∈ key, Http.isKeyCh c = true) ∧
      parameterKeyReMatch rest = some (key, (key.length : Int) + 1) ∧
      Http.optStep rest = optVal (Http.pyLower key) r) := by
  have hsplit := List.takeWhile_append_dropWhile (p := Http.isKeyCh) (l := rest)
  have hall : ∀ c ∈ rest.takeWhile Http.isKeyCh, Http.isKeyCh c = true := fun c hc =>
    List.all_eq_true.mp List.all_takeWhile c hc
  unfold parameterKeyReMatch Http.optStep optVal
  generalize rest.takeWhile Http.isKeyCh = key at *
  generalize rest.dropWhile Http.isKeyCh = d at *
  cases hk : key.isEmpty with
  | true => left; simp [hk]
  | false =>
    simp only [hk]
    cases d with
    | nil => left; exact ⟨rfl, rfl⟩
    | cons x r =>
      by_cases hx : x = '='
      · subst hx
        right
        exact ⟨key, r, hsplit.symm, hall, rfl, rfl⟩
      · left
        constructor
        · split
          · rename_i h1 h2; cases h2; exact absurd rfl hx
          · rfl
        · split
          · rename_i h1 h2; cases h2; exact absurd rfl hx
          · rfl


/-- On the characters `_parameter_key_re` allows in a key (`[\w!#$%&'*+\-.^`|~]` under `re.ASCII`: nothing
above U+00FF, table regenerated from the live pattern) the model's table-driven `str.lower()` is ASCII
lower-casing. `decide` over the complete 256-row tables. -/
theorem lower_key_tbl : Gen.Http.paramKeyHigh = false ∧
    ∀ n, n < 256 → Http.tbl Gen.Http.paramKeyCls n = true →
      Char.ofNat (Gen.Http.lowerTbl.getD n n) = (Char.ofNat n).toLower := by
  refine ⟨by decide, ?_⟩
  decide +kernel

theorem lowerChar_of_key (c : Char) (h : Http.isKeyCh c = true) : Http.lowerChar c = c.toLower := by
  unfold Http.isKeyCh Http.cls at h
  unfold Http.lowerChar
  by_cases hlt : c.toNat < 256
  · simp only [hlt, if_true] at h ⊢
    rw [lower_key_tbl.2 _ hlt h, Char.ofNat_toNat]
  · simp only [hlt, if_false, lower_key_tbl.1] at h
    cases h

theorem lower_key (key : Str) (h : ∀ c ∈ key, Http.isKeyCh c = true) : Pre.lower key = Http.pyLower key := by
  unfold Http.pyLower Pre.lower
  apply List.map_congr_left
  intro c hc
  exact (lowerChar_of_key c (h c hc)).symm

/-- One turn of the outer `while True:` scanner loop of `parse_options_header`, as translated from the
current source (`_parameter_key_re.match`, `m.group(1).lower()`, `rest[m.end():]`, the token value
`_parameter_token_value_re.match`, otherwise the quoted value with its nested loop - which runs on
the fuel the outer loop has left -, then `rest.find(";")`, `break` or `rest[end + 1:].lstrip()`), with
at least as much fuel left as `rest` has characters: the part it appends and the text it goes on
with are exactly those of the model's `Http.optStep`, and it stops (`.fall`) or continues
(`loop1 fuel_ …`) exactly as the model's `Http.afterSemi?` says (`tailM`). In particular `str.lower()`
on a key (`Pre.lower`) agrees with the model's table-driven lower-casing on the characters
`_parameter_key_re` allows. -/
theorem loop1_step (fuel_ : Nat) (rest : Str) (parts : List (Str × Str)) (h : rest.length ≤ fuel_) :
    parse_options_header.loop1 (fuel_ + 1) rest parts
      = tailM fuel_ (Http.optStep rest).1 (parts ++ (Http.optStep rest).2.toList) := by
  rw [parse_options_header.loop1]
  simp only [if_true, tail_eq]
  rcases key_cases rest with ⟨h1, h2⟩ | ⟨key, r, hr, hall, h1, h2⟩
  · simp only [h1, h2, Option.toList_none, List.append_nil]
  · simp only [h1, h2]
    subst hr
    simp only [slice_from_append key '=' r _ rfl, lower_key key hall]
    unfold parameterTokenValueReMatch optVal
    by_cases htv : (r.takeWhile Http.isTokValCh).isEmpty = true
    · simp only [htv, if_true, Bool.not_true, Bool.false_eq_true, if_false]
      have hs1 : Pre.slice r none (some 1) = r.take 1 := slice_none_nat r 1
      rw [hs1]
      match r, h with
      | [], _ => simp
      | c :: q, h =>
        by_cases hc : c = '"'
        · subst hc
          obtain ⟨p, hp⟩ := loop2_eq (Http.pyLower key) parts q ['"'] fuel_ ('"' :: q)
            (by simp at h; omega) rfl
          have hp' : parse_options_header.loop2 (Http.pyLower key) (Int.ofNat ('"' :: q).length) fuel_ 1 parts ('"' :: q)
              = .fall (p, quotedOut (Http.pyLower key) parts ('"' :: q) (Http.scanQuoted q ['"'])) := hp
          rw [hp']
          simp only [List.take_succ_cons, List.take_zero, beq_self_eq_true, if_true]
          cases Http.scanQuoted q ['"'] with
          | none => simp [quotedOut]
          | some x => simp [quotedOut]
        · have : (([c] : Str) == ['"']) = false := by simpa using hc
          simp only [List.take_succ_cons, List.take_zero, this, Bool.false_eq_true, if_false]
          split
          · rename_i e; cases e; exact absurd rfl hc
          · simp
    · simp only [htv, if_false, Bool.false_eq_true, id, Bool.not_false, if_true, Option.toList_some]


/-- the model's scanner with a non-empty (reversed) accumulator -/
theorem optScan_acc : ∀ (fuel : Nat) (rest : Str) (acc : List (Str × Str)),
    Http.optScan fuel rest acc = acc.reverse ++ Http.optScan fuel rest [] := by
  intro fuel
  induction fuel with
  | zero => intro rest acc; simp [Http.optScan]
  | succ f ih =>
    intro rest acc
    rw [Http.optScan, Http.optScan]
    generalize Http.optStep rest = sr
    obtain ⟨rest1, part⟩ := sr
    simp only []
    cases Http.afterSemi? rest1 with
    | none => cases part <;> simp
    | some after =>
      cases part with
      | none => simp only []; rw [ih _ acc]
      | some p => simp only []; rw [ih _ (p :: acc), ih _ [p]]; simp

/-- The outer `while True:` scanner loop of `parse_options_header`, as translated from the current
source, started on any text `rest` with any list `parts` and more fuel than `rest` has characters:
it never returns from the function and never runs out of fuel - neither itself nor the nested
quoted-string loop, which gets the fuel the outer loop has left and needs fewer iterations than
`rest` has characters - and falls through with `parts` extended by exactly the raw `(key, value)`
parts the model scanner `Http.optScan` collects. Every turn consumes at least one character (the
`;`), which is why `len(rest) + 1` units of fuel suffice. -/
theorem loop1_eq : ∀ (fuel : Nat) (rest : Str) (parts : List (Str × Str)), rest.length < fuel →
    ∃ rest', parse_options_header.loop1 fuel rest parts = .fall (rest', parts ++ Http.optScan fuel rest []) := by
  intro fuel
  induction fuel with
  | zero => intro rest parts h; omega
  | succ f ih =>
    intro rest parts h
    rw [loop1_step f rest parts (by omega), Http.optScan]
    have hle := Http.optStep_shrinks rest
    generalize Http.optStep rest = sr at hle
    obtain ⟨rest1, part⟩ := sr
    unfold tailM
    simp only [] at hle ⊢
    cases ha : Http.afterSemi? rest1 with
    | none => exact ⟨rest1, by cases part <;> simp⟩
    | some after =>
      have h3 := Http.afterSemi_shrinks _ _ ha
      have h4 : (Http.lstrip after).length ≤ after.length := Http.length_dropWhile_le' _ _
      obtain ⟨rest', hr⟩ := ih (Http.lstrip after) (parts ++ part.toList) (by omega)
      refine ⟨rest', ?_⟩
      simp only [hr]
      cases part with
      | none => simp
      | some p => simp only []; rw [optScan_acc f _ [p]]; simp


/-! ### `str.replace` with a three-character pattern -/

theorem replaceAux_triple (a b c : Char) (r : Str) (s : Str) :
    Pre.replaceAux [a, b, c] r s 0 = Http.replace3 a b c r s := by
  fun_induction Http.replace3 a b c r s with
  | case1 x y z t h ih =>
    simp only [Bool.and_eq_true, beq_iff_eq] at h
    obtain ⟨⟨rfl, rfl⟩, rfl⟩ := h
    simp [Pre.replaceAux, List.isPrefixOf, ih]
  | case2 x y z t h ih =>
    have hp : ([a, b, c] : List Char).isPrefixOf (x :: y :: z :: t) = false := by
      simp only [Bool.and_eq_true, beq_iff_eq, not_and] at h
      simp only [List.isPrefixOf, Bool.and_true, Bool.and_eq_false_imp, beq_iff_eq, beq_eq_false_iff_ne]
      intro h1 h2; subst h1; subst h2; intro h3; exact h ⟨rfl, rfl⟩ h3.symm
    rw [Pre.replaceAux, hp]
    simp only [Bool.false_eq_true, if_false, ih]
  | case3 l h =>
    match l with
    | [] => rfl
    | [x] => simp [Pre.replaceAux, List.isPrefixOf]
    | [x, y] => simp [Pre.replaceAux, List.isPrefixOf]
    | x :: y :: z :: t => exact absurd rfl (h x y z t)

/-- `s.replace(a + b + c, r)` for a three-character pattern: the model's `replace3` -/
theorem replace3_eq (a b c : Char) (r s : Str) : Pre.replace s [a, b, c] r = Http.replace3 a b c r s := by
  simp [Pre.replace, replaceAux_triple]

/-! ### `_continuation_re.search(pk)` -/

theorem continuation?_prefix (pk base : Str) (h : Http.continuation? pk = some base) :
    ∃ suf, pk = base ++ suf := by
  unfold Http.continuation? at h
  simp only [] at h
  have hsplit := List.takeWhile_append_dropWhile (p := Http.isContDigit) (l := pk.reverse)
  split at h
  · rename_i before _ hd
    cases h
    refine ⟨'*' :: (pk.reverse.takeWhile Http.isContDigit).reverse, ?_⟩
    rw [hd] at hsplit
    have := congrArg List.reverse hsplit
    simp only [List.reverse_append, List.reverse_cons, List.reverse_reverse, List.append_assoc,
      List.singleton_append] at this
    exact this.symm
  · cases h

/-- `pk[: match.start()]` is the key without its `*N` suffix -/
theorem slice_continuation (pk base : Str) (h : Http.continuation? pk = some base) :
    Pre.slice pk none (some (base.length : Int)) = base := by
  obtain ⟨suf, rfl⟩ := continuation?_prefix pk base h
  rw [slice_none_nat]
  simp


/-! ### the `for pk, pv in parts` loop: the shared tail (unquoting, continuation, store) -/

/-- the model's `optStore` on the dict alone -/
def storeOpts (options : List (Str × Str)) (pk pv : Str) : List (Str × Str) :=
  (Http.optStore ⟨options, none, none⟩ pk pv).options

theorem optStore_eq (st : Http.OptState) (pk pv : Str) :
    Http.optStore st pk pv = { st with options := storeOpts st.options pk pv } := by
  unfold storeOpts Http.optStore
  cases Http.continuation? pk with
  | none => rfl
  | some base => by_cases hb : base.isEmpty = true <;> simp [hb]

/-- `match = _continuation_re.search(pk)` … `options[pk] = …` followed by anything that uses
`options` (`K`), as the translator emits it -/
theorem store_eq {β : Type} (K : List (Str × Str) → β) (options : List (Str × Str)) (pk pv : Str) :
    (match continuationReSearch pk with
      | none => K (Pre.dictSet options pk pv)
      | some m =>
        if (Pre.slice pk none (some m.1)).isEmpty then K options
        else K (Pre.dictSet options (Pre.slice pk none (some m.1))
            (Pre.dictGetD options (Pre.slice pk none (some m.1)) [] ++ pv)))
    = K (storeOpts options pk pv) := by
  unfold continuationReSearch storeOpts Http.optStore
  cases h : Http.continuation? pk with
  | none => rfl
  | some base =>
    simp only [Option.map_some, slice_continuation pk base h]
    by_cases hb : base.isEmpty = true
    · simp [hb]
    · simp only [hb, Bool.false_eq_true, if_false]; rfl

/-- `if pv[0] == pv[-1] == '"': pv = pv[1:-1].replace(…)…` followed by anything that uses `pv` -/
theorem unquote_step {β : Type} (pv : Str) (f : Str → β) (e : String → β) :
    (match Pre.getItemStr pv 0 with
      | .error x => e x
      | .ok a =>
        match Pre.getItemStr pv (-1) with
        | .error x => e x
        | .ok b =>
          if (a == b) && (b == ['"']) then
            f (Pre.replace (Pre.replace (Pre.replace (Pre.slice pv (some 1) (some (-1))) ['\\', '\\'] ['\\'])
              ['\\', '"'] ['"']) ['%', '2', '2'] ['"'])
          else f pv)
    = (match Http.optUnquote pv with
      | .ok pv' => f pv'
      | .error x => e x) := by
  unfold Http.optUnquote
  rw [last!_eq]
  cases pv with
  | nil => rfl
  | cons x t =>
    have hl : (x :: t).getLast? = some ((x :: t).getLast (by simp)) := List.getLast?_eq_some_getLast (by simp)
    simp only [getItemStr_zero_cons, getItemStr_neg_one_cons, dq_cmp, hl, Http.first!, slice_one_neg_one,
      replace2_eq, replace3_eq, bind, Except.bind, Http.unescapeDq, List.drop_succ_cons, List.drop_zero]
    generalize (x :: t).getLast (by simp) = z
    by_cases h : x = '"' ∧ z = '"'
    · obtain ⟨rfl, rfl⟩ := h; simp [pure, Except.pure]
    · have : (x == '"' && z == '"') = false := by
        rw [Bool.and_eq_false_iff]; simp only [beq_eq_false_iff_ne]
        by_cases hx : x = '"'
        · right; exact fun hz => h ⟨hx, hz⟩
        · left; exact hx
      simp [h, this, pure, Except.pure]

/-- the rest of the loop body once the value is final: unquote, store, go on (`K`) -/
def finish {β : Type} (K : List (Str × Str) → β) (E : String → β) (options : List (Str × Str)) (pk pv : Str) : β :=
  match Http.optUnquote pv with
  | .ok pv' => K (storeOpts options pk pv')
  | .error e => E e

/-- … as the translator emits it -/
def finishG {β : Type} (K : List (Str × Str) → β) (E : String → β) (options : List (Str × Str)) (pk pv : Str) : β :=
  match Pre.getItemStr pv 0 with
  | .error x => E x
  | .ok a =>
    match Pre.getItemStr pv (-1) with
    | .error x => E x
    | .ok b =>
      if (a == b) && (b == ['"']) then
        let pv := Pre.replace (Pre.replace (Pre.replace (Pre.slice pv (some 1) (some (-1))) ['\\', '\\'] ['\\'])
          ['\\', '"'] ['"']) ['%', '2', '2'] ['"']
        match continuationReSearch pk with
        | none => K (Pre.dictSet options pk pv)
        | some m =>
          if (Pre.slice pk none (some m.1)).isEmpty then K options
          else K (Pre.dictSet options (Pre.slice pk none (some m.1))
              (Pre.dictGetD options (Pre.slice pk none (some m.1)) [] ++ pv))
      else
        match continuationReSearch pk with
        | none => K (Pre.dictSet options pk pv)
        | some m =>
          if (Pre.slice pk none (some m.1)).isEmpty then K options
          else K (Pre.dictSet options (Pre.slice pk none (some m.1))
              (Pre.dictGetD options (Pre.slice pk none (some m.1)) [] ++ pv))

theorem finishG_eq {β : Type} (K : List (Str × Str) → β) (E : String → β) (options : List (Str × Str)) (pk pv : Str) :
    finishG K E options pk pv = finish K E options pk pv := by
  unfold finishG finish
  simp only [store_eq]
  exact unquote_step pv (fun pv' => K (storeOpts options pk pv')) E


/-! ### the charset step of a starred key -/

/-- the options variant of the charset-name lookup is the dict variant (the two regenerated literal
sets are the same four names) -/
theorem encOfName_eq_dict (n : Str) : Http.encOfName n = Http.encOfNameDict n := by
  have h2 : Gen.Http.safeEncodingsDict = [["ascii", "iso-8859-1", "us-ascii", "utf-8"]] := by decide
  have h1 : Gen.Http.safeEncodingsOptions = [["ascii", "iso-8859-1", "us-ascii", "utf-8"]] := by decide
  unfold Http.encOfNameDict
  rw [h2]
  unfold Http.encOfName
  rw [h1]
  simp only []
  split <;> simp_all

instance instDecSafeName (e : Str) : Decidable (SafeName e) := by unfold SafeName; infer_instance

theorem safeName_test (e : Str) :
    (e == ['a', 's', 'c', 'i', 'i'] || e == ['u', 's', '-', 'a', 's', 'c', 'i', 'i'] || e == ['u', 't', 'f', '-', '8']
      || e == ['i', 's', 'o', '-', '8', '8', '5', '9', '-', '1']) = decide (SafeName e) := by
  unfold SafeName
  by_cases h1 : e = ['a', 's', 'c', 'i', 'i'] <;> by_cases h2 : e = ['u', 's', '-', 'a', 's', 'c', 'i', 'i'] <;>
    by_cases h3 : e = ['u', 't', 'f', '-', '8'] <;> by_cases h4 : e = ['i', 's', 'o', '-', '8', '8', '5', '9', '-', '1'] <;>
    simp [h1, h2, h3, h4]

theorem safeName_test_opt (enc : Option Str) :
    (enc == some ['a', 's', 'c', 'i', 'i'] || enc == some ['u', 's', '-', 'a', 's', 'c', 'i', 'i']
      || enc == some ['u', 't', 'f', '-', '8'] || enc == some ['i', 's', 'o', '-', '8', '8', '5', '9', '-', '1'])
    = match enc with
      | none => false
      | some e => decide (SafeName e) := by
  cases enc with
  | none => rfl
  | some e => simp only [← safeName_test]; rfl

theorem encOfName_safe (e : Str) (h : SafeName e) (pv : Str) :
    ∃ c, Http.encOfName e = some c ∧ Gen.PyFns_HttpDict.unquoteEnc pv e = .ok (Http.pctUnquote c pv) := by
  rw [encOfName_eq_dict, unquoteEnc_safe e pv h]
  unfold decVal
  rw [encOfNameDict_spec]
  rcases h with rfl | rfl | rfl | rfl <;> exact ⟨_, rfl, rfl⟩

theorem encOfName_other (e : Str) (h : ¬ SafeName e) : Http.encOfName e = none := by
  rw [encOfName_eq_dict, encOfNameDict_spec]
  simp only [SafeName, not_or] at h
  obtain ⟨h1, h2, h3, h4⟩ := h
  simp [h1, h2, h3, h4]

/-- the model's charset step once the effective charset name `enc` is known (`if encoding in {…}:
continued_encoding = encoding; pv = unquote(pv, encoding=encoding)`), then `finish` -/
def afterEnc {β : Type} (K : Option Str → Option Str → List (Str × Str) → β) (E : String → β)
    (options : List (Str × Str)) (pk : Str) (enc cont : Option Str) (pv : Str) : β :=
  match enc.bind Http.encOfName with
  | some e => finish (K enc enc) E options pk (Http.pctUnquote e pv)
  | none => finish (K enc cont) E options pk pv

/-- … as the translator emits it when `encoding` is a `str` -/
def encStrG {β : Type} (K : Option Str → Option Str → List (Str × Str) → β) (E : String → β)
    (options : List (Str × Str)) (pk : Str) (e : Str) (cont : Option Str) (pv : Str) : β :=
  if e == ['a', 's', 'c', 'i', 'i'] || e == ['u', 's', '-', 'a', 's', 'c', 'i', 'i'] || e == ['u', 't', 'f', '-', '8']
      || e == ['i', 's', 'o', '-', '8', '8', '5', '9', '-', '1'] then
    match Gen.PyFns_HttpDict.unquoteEnc pv e with
    | .error e_ => E e_
    | .ok v => finishG (K (some e) (some e)) E options pk v
  else finishG (K (some e) cont) E options pk pv

/-- … and when it is a `str | None` -/
def encOptG {β : Type} (K : Option Str → Option Str → List (Str × Str) → β) (E : String → β)
    (options : List (Str × Str)) (pk : Str) (enc cont : Option Str) (pv : Str) : β :=
  if enc == some ['a', 's', 'c', 'i', 'i'] || enc == some ['u', 's', '-', 'a', 's', 'c', 'i', 'i']
      || enc == some ['u', 't', 'f', '-', '8'] || enc == some ['i', 's', 'o', '-', '8', '8', '5', '9', '-', '1'] then
    match enc with
    | none => E "TypeError"
    | some e =>
      match Gen.PyFns_HttpDict.unquoteEnc pv e with
      | .error e_ => E e_
      | .ok v => finishG (K enc enc) E options pk v
  else finishG (K enc cont) E options pk pv

theorem encStrG_eq {β : Type} (K : Option Str → Option Str → List (Str × Str) → β) (E : String → β)
    (options : List (Str × Str)) (pk : Str) (e : Str) (cont : Option Str) (pv : Str) :
    encStrG K E options pk e cont pv = afterEnc K E options pk (some e) cont pv := by
  unfold encStrG afterEnc
  rw [safeName_test]
  simp only [finishG_eq, Option.bind_some]
  by_cases h : SafeName e
  · obtain ⟨c, hc, hu⟩ := encOfName_safe e h pv
    simp only [h, decide_true, if_true, hc, hu]
  · simp only [h, decide_false, Bool.false_eq_true, if_false, encOfName_other e h]

theorem encOptG_eq {β : Type} (K : Option Str → Option Str → List (Str × Str) → β) (E : String → β)
    (options : List (Str × Str)) (pk : Str) (enc cont : Option Str) (pv : Str) :
    encOptG K E options pk enc cont pv = afterEnc K E options pk enc cont pv := by
  cases enc with
  | none =>
    unfold encOptG afterEnc
    simp only [finishG_eq]
    rfl
  | some e =>
    rw [← encStrG_eq]
    unfold encOptG encStrG
    rw [safeName_test_opt, safeName_test]


/-! ### one turn of the `for pk, pv in parts` loop -/

abbrev L3 := Pre.Loop (Except String (Str × List (Str × Str))) (Option Str × Option Str × List (Str × Str))

/-- `if not encoding: encoding = continued_encoding` -/
def effEnc (enc cont : Option Str) : Option Str :=
  match enc with
  | some (c :: t) => some (c :: t)
  | _ => cont

theorem effEnc_none (cont : Option Str) : effEnc none cont = cont := rfl
theorem effEnc_nil (cont : Option Str) : effEnc (some []) cont = cont := rfl
theorem effEnc_cons (c : Char) (t : Str) (cont : Option Str) : effEnc (some (c :: t)) cont = some (c :: t) := rfl

/-- one turn of the loop, written with the primitives the two sides share; `K` = go on with the next
part in the state (encoding, continued_encoding, options), `E` = raise -/
def stepG {β : Type} (K : Option Str → Option Str → List (Str × Str) → β) (E : String → β)
    (enc cont : Option Str) (options : List (Str × Str)) (pk pv : Str) : β :=
  match pk.getLast? with
  | none => E "IndexError"
  | some l =>
    if l == '*' then
      if pk.dropLast.isEmpty then K enc cont options
      else
        match Http.charsetValue? pv with
        | none => afterEnc K E options pk.dropLast (effEnc enc cont) cont pv
        | some m => afterEnc K E options pk.dropLast (effEnc (some (Pre.lower m.1)) cont) cont m.2
    else finish (K enc cont) E options pk pv

/-- One turn of the `for pk, pv in parts:` loop of `parse_options_header`, as translated from the
current source (`pk[-1] == "*"`, `pk[:-1]`, the `continue` on an empty key, `_charset_value_re.match`,
`encoding.lower()`, `if not encoding: encoding = continued_encoding`, the guarded
`continued_encoding = encoding; pv = unquote(pv, encoding=encoding)`, the unquoting idiom with its
three `replace` calls, `_continuation_re.search`, `pk[: match.start()]`, the second `continue`,
`options[pk] = options.get(pk, "") + pv` / `options[pk] = pv`; the translator shares the statements
after each `if` through local continuations `k1_ … k8_`): it is `stepG` - the step written with the
primitives the two sides share - continuing with the loop on the remaining parts. The translator's
`TypeError` arm (`unquote(pv, encoding=None)`) and the "encoding outside the model" marker of
`unquoteEnc` are unreachable behind the `encoding in {"ascii", "us-ascii", "utf-8", "iso-8859-1"}`
guard; `IndexError` arises exactly for an empty `pk` or (final) `pv`, as in the model. -/
theorem loop3_step (rest_ : List (Str × Str)) (enc cont : Option Str) (options : List (Str × Str)) (pk pv : Str) :
    parse_options_header.loop3 ((pk, pv) :: rest_) enc cont options
      = stepG (parse_options_header.loop3 rest_) (fun e => (.ret (.error e) : L3)) enc cont options pk pv := by
  rw [parse_options_header.loop3]
  simp only [getItemStr_neg_one pk, slice_none_neg_one]
  unfold stepG
  cases hl : pk.getLast? with
  | none => rfl
  | some l =>
    simp only []
    by_cases hs : l = '*'
    · subst hs
      simp only [beq_self_eq_true, if_true]
      by_cases hd : pk.dropLast.isEmpty = true
      · simp only [hd, if_true]
      · simp only [hd, Bool.false_eq_true, if_false]
        cases hm : Http.charsetValue? pv with
        | none =>
          simp only []
          cases enc with
          | none =>
            rw [effEnc_none, ← encOptG_eq]; rfl
          | some e =>
            cases e with
            | nil => simp only [List.isEmpty_nil, if_true]; rw [effEnc_nil, ← encOptG_eq]; rfl
            | cons c t =>
              simp only [List.isEmpty_cons, Bool.false_eq_true, if_false]; rw [effEnc_cons, ← encStrG_eq]; rfl
        | some m =>
          simp only [id]
          cases hlow : Pre.lower m.1 with
          | nil => simp only [List.isEmpty_nil, if_true]; rw [effEnc_nil, ← encOptG_eq]; rfl
          | cons c t =>
            simp only [List.isEmpty_cons, Bool.false_eq_true, if_false]; rw [effEnc_cons, ← encStrG_eq]; rfl
    · have hs' : (([l] : Str) == ['*']) = false := by simpa using hs
      have hs'' : (l == '*') = false := by simpa using hs
      simp only [hs', hs'', Bool.false_eq_true, if_false]
      rw [← finishG_eq]
      rfl


/-! ### the model's `optPart` in the same terms -/

theorem finish_model {β : Type} (K : Option Str → Option Str → List (Str × Str) → β) (E : String → β)
    (st : Http.OptState) (pk pv : Str) :
    (match (do let v ← Http.optUnquote pv; pure (Http.optStore st pk v) : Except String Http.OptState) with
      | .ok st' => K st'.encoding st'.continued st'.options
      | .error e => E e)
    = finish (K st.encoding st.continued) E st.options pk pv := by
  unfold finish
  cases Http.optUnquote pv with
  | error e => rfl
  | ok v => simp only [bind, Except.bind, pure, Except.pure, optStore_eq]

theorem optStar_model {β : Type} (K : Option Str → Option Str → List (Str × Str) → β) (E : String → β)
    (st : Http.OptState) (pk pv : Str) :
    (match (do let v ← Http.optUnquote (Http.optStar st pv).2; pure (Http.optStore (Http.optStar st pv).1 pk v)
        : Except String Http.OptState) with
      | .ok st' => K st'.encoding st'.continued st'.options
      | .error e => E e)
    = match Http.charsetValue? pv with
      | none => afterEnc K E st.options pk (effEnc st.encoding st.continued) st.continued pv
      | some m => afterEnc K E st.options pk (effEnc (some (Pre.lower m.1)) st.continued) st.continued m.2 := by
  refine (finish_model K E (Http.optStar st pv).1 pk (Http.optStar st pv).2).trans ?_
  unfold Http.optStar afterEnc
  cases hm : Http.charsetValue? pv with
  | none =>
    simp only []
    obtain ⟨o, enc, cont⟩ := st
    simp only []
    match enc with
    | none => simp only [effEnc_none]; cases cont.bind Http.encOfName <;> rfl
    | some [] => simp only [effEnc_nil]; cases cont.bind Http.encOfName <;> rfl
    | some (c :: t) => simp only [effEnc_cons]; cases (some (c :: t) : Option Str).bind Http.encOfName <;> rfl
  | some m =>
    obtain ⟨e, v⟩ := m
    simp only [charsetValue?_lower pv e v hm]
    obtain ⟨o, enc, cont⟩ := st
    simp only []
    match Pre.lower e with
    | [] => simp only [effEnc_nil]; cases cont.bind Http.encOfName <;> rfl
    | c :: t => simp only [effEnc_cons]; cases (some (c :: t) : Option Str).bind Http.encOfName <;> rfl

/-- the model's `optPart` is the same `stepG` (so the two sides take the same step) -/
theorem optPart_step {β : Type} (K : Option Str → Option Str → List (Str × Str) → β) (E : String → β)
    (st : Http.OptState) (pk pv : Str) :
    (match Http.optPart st pk pv with
      | .ok st' => K st'.encoding st'.continued st'.options
      | .error e => E e)
    = stepG K E st.encoding st.continued st.options pk pv := by
  unfold Http.optPart stepG
  rw [last!_eq]
  cases pk.getLast? with
  | none => rfl
  | some l =>
    simp only [Http.ok_bind]
    by_cases hs : l = '*'
    · subst hs
      simp only [beq_self_eq_true, if_true]
      by_cases hd : pk.dropLast.isEmpty = true
      · simp only [hd, if_true]; rfl
      · simp only [hd, Bool.false_eq_true, if_false]
        exact optStar_model K E st pk.dropLast pv
    · have hs'' : (l == '*') = false := by simpa using hs
      simp only [hs'', Bool.false_eq_true, if_false]
      exact finish_model K E st pk pv


/-! ### the `for pk, pv in parts` loop against the model's fold -/

/-- The `for pk, pv in parts:` loop of `parse_options_header`, as translated from the current source,
for every list of parts and every state (`options`, `encoding`, `continued_encoding`): it ends with
exactly the state the model's fold `foldlM Http.optFold` reaches, or leaves the function with the
model's error (`IndexError` for an empty key or value - which the scanner never produces, see C07's
`parseOptions_total_safe`). -/
theorem loop3_eq (parts : List (Str × Str)) : ∀ st : Http.OptState,
    parse_options_header.loop3 parts st.encoding st.continued st.options =
      match parts.foldlM Http.optFold st with
      | .ok st' => .fall (st'.encoding, st'.continued, st'.options)
      | .error e => .ret (.error e) := by
  induction parts with
  | nil => intro st; rw [parse_options_header.loop3]; rfl
  | cons p t ih =>
    intro st
    obtain ⟨pk, pv⟩ := p
    rw [loop3_step, ← optPart_step, List.foldlM_cons]
    unfold Http.optFold
    cases Http.optPart st pk pv with
    | error e => rfl
    | ok st' => exact ih st'

/-! ### assembly -/

/-- `parse_options_header(None)` is `("", {})`; no fuel is used. -/
theorem parse_options_header_none (fuel : Nat) :
    parse_options_header fuel none = .ok ([], []) := rfl

theorem strip_length_le (s : Str) : (Py.strip s).length ≤ s.length := by
  unfold Py.strip Py.rstripBy
  have h1 : (s.dropWhile Py.isSpace).length ≤ s.length := (List.dropWhile_sublist _).length_le
  have h2 := (List.dropWhile_sublist Py.isSpace (l := (s.dropWhile Py.isSpace).reverse)).length_le
  simp only [List.length_reverse] at h2 ⊢
  omega

/-- the text `parse_options_header` scans for parameters: what follows the first `;`, stripped -/
def optRest (v : Str) : Str := Py.strip ((v.dropWhile (· != ';')).drop 1)

theorem optRest_length (v : Str) (h : optRest v ≠ []) : (optRest v).length < v.length := by
  unfold optRest at h ⊢
  have h1 := strip_length_le ((v.dropWhile (· != ';')).drop 1)
  have h2 : (v.dropWhile (· != ';')).length ≤ v.length := (List.dropWhile_sublist _).length_le
  cases hd : v.dropWhile (· != ';') with
  | nil => rw [hd] at h; exact absurd rfl h
  | cons x t => rw [hd] at h1 h2; simp at h1 h2 ⊢; omega

/-- `parse_options_header(value)` equals the model with the sharp fuel bound: more fuel than the
stripped text after the first `;` (`optRest value`) has characters - and no fuel at all when that
text is empty (the function returns before its loops). -/
theorem parse_options_header_eq_of_rest (fuel : Nat) (v : List Char)
    (hf : optRest v ≠ [] → (optRest v).length < fuel) :
    parse_options_header fuel (some v) = Http.parseOptionsHeader v := by
  unfold optRest at hf
  unfold parse_options_header Http.parseOptionsHeader
  simp only [partition_singleton, http_partition_eq, Pre.strip, Http.strip]
  generalize Py.strip (v.takeWhile (· != ';')) = value at *
  generalize Py.strip ((v.dropWhile (· != ';')).drop 1) = rest at *
  by_cases he : (value.isEmpty || rest.isEmpty) = true
  · simp only [he, if_true]; rfl
  · simp only [he, Bool.false_eq_true, if_false]
    have hne : rest ≠ [] := by
      intro e; apply he; simp [e]
    have hf' := hf hne
    obtain ⟨rest', h1⟩ := loop1_eq fuel rest [] hf'
    rw [h1]
    simp only [List.nil_append]
    rw [Http.optScan_fuel_irrelevant fuel (rest.length + 1) rest [] hf' (by omega)]
    have h3 := loop3_eq (Http.optScan (rest.length + 1) rest []) ({} : Http.OptState)
    simp only [] at h3
    rw [h3]
    cases List.foldlM Http.optFold ({} : Http.OptState) (Http.optScan (rest.length + 1) rest []) with
    | error e => rfl
    | ok st => rfl

/-- **`parse_options_header(value)`**, as translated from the current source of `werkzeug/http.py`
(`value.partition(";")`, the two `strip`s, the early `return value, {}`, the `while True` scanner
with its nested quoted-string loop, the `for pk, pv in parts` pass with RFC 2231 charsets and
continuations, `return value, options`), for every header text `value` and every amount of fuel
`≥ len(value)`: the marker error "py2lean: out of fuel" does not occur - the real loops terminate -,
and the function returns exactly what C06's model `Http.parseOptionsHeader` returns: the same main
value, the same options in the same insertion order, and (in principle) the same errors. All C06 /
C07 theorems about `Http.parseOptionsHeader` (`options_roundtrip`, `parseOptions_total_safe`,
`parseOptions_scanner_terminates`, `parseOptions_keys_nonempty`) therefore speak about the current
source. -/
theorem parse_options_header_eq (fuel : Nat) (v : List Char) (hf : v.length ≤ fuel) :
    parse_options_header fuel (some v) = Http.parseOptionsHeader v :=
  parse_options_header_eq_of_rest fuel v (fun h => Nat.lt_of_lt_of_le (optRest_length v h) hf)

/-- `parse_options_header` never raises on a `str` (C07's totality theorem, transported to the
translated source). -/
theorem parse_options_header_ok (fuel : Nat) (v : List Char) (hf : v.length ≤ fuel) :
    ∃ r, parse_options_header fuel (some v) = .ok r := by
  rw [parse_options_header_eq fuel v hf]
  exact Http.parseOptionsHeader_safe v

/-- the fuel hypothesis is satisfiable -/
example : ("text/html; charset=\"UTF-8\"; a*0=x; a*1=y".toList).length ≤ 50 := by decide

example : parse_options_header 50 (some "text/html; charset=\"UTF-8\"; a*0=x; a*1=y".toList)
    = .ok ("text/html".toList, [("charset".toList, "UTF-8".toList), ("a".toList, "xy".toList)]) := by decide

/-- the fuel hypothesis cannot be dropped: with too little fuel the translation reports its marker
error (here the nested quoted-string loop, running on the two units the outer loop has left, gives up) -/
example : parse_options_header 3 (some "a; k=\"abc; z=1".toList) = .error "py2lean: out of fuel" := by decide

end Wz.PyFnsEq.HttpOptions
