/-
The query component of the reconstructed URL denotes the mapping given to the builder (C15):
`_unquote_partial` with the query's keep set never changes what `parse_qsl` reads - the raw `&`, `=`,
`+` it splits at stay, their escapes stay quoted, and everything else is only unquoted earlier -, and
`quote` leaves the output of `_urlencode` alone. Uses C02's `parse_qsl` / `_urlencode` model and lemmas
(read-only import) through the model equality of Lemmas/UrlUnquoteEq.lean. Core Lean only.
-/
import WzVerif.Lemmas.UrlUnquoteEq
import WzVerif.Lemmas.UrlFamilySplit
import WzVerif.Lemmas.UrlPartialChars
namespace Wz.Url
open Wz

/-! ### `unquote` / `_unquote_partial` split at a literal ASCII character other than `%` -/

/-- an ASCII character other than `%` -/
structure Plain (d : Char) : Prop where
  ascii : d.toNat < 128
  not_pct : d ≠ '%'

theorem Plain.byte_lt {d : Char} (hd : Plain d) : UInt8.ofNat d.toNat < 0x80 := by
  rw [UInt8.lt_iff_toNat_lt, uint8_toNat_ofNat_lt (by have := hd.ascii; omega)]
  exact hd.ascii

/-- a literal plain character splits the ASCII run it sits in -/
theorem run_split_plain {d : Char} (hd : Plain d) {Xa Ya : Str} (hXa : ∀ c ∈ Xa, c.toNat < 128)
    (hw : wfk [] Xa = true) :
    unquoteRun (toBytes (Xa ++ d :: Ya)) = unquoteRun (toBytes Xa) ++ d :: unquoteRun (toBytes Ya) := by
  have hk : unquoteBytes (toBytes (d :: Ya)) = UInt8.ofNat d.toNat :: unquoteBytes (toBytes Ya) := by
    have : toBytes (d :: Ya) = UInt8.ofNat d.toNat :: toBytes Ya := rfl
    rw [this, unquoteBytes_cons_ne (byte_ne_pct hd.ascii hd.not_pct)]
  have hlt := hd.byte_lt
  have hnc : ∀ b, (UInt8.ofNat d.toNat :: unquoteBytes (toBytes Ya)).head? = some b → isCont b = false := by
    intro b hb
    simp only [List.head?_cons, Option.some.injEq] at hb
    subst hb; exact ascii_not_cont hlt
  rw [unquoteRun_eq, unquoteRun_eq, unquoteRun_eq, toBytes_append, unquoteBytes_append_wf Xa _ hXa hw, hk,
    its_append _ _ _ (Nat.le_refl _) hnc, its_ascii_cons hlt]
  simp only [List.flatMap_append, List.flatMap_cons, render, List.singleton_append, char_of_byte hd.ascii]

theorem unquote_split_plain_ascii {d : Char} (hd : Plain d) {Xa : Str} (hXa : ∀ c ∈ Xa, c.toNat < 128)
    (hw : wfk [] Xa = true) (Y : Str) :
    unquote (Xa ++ d :: Y) = unquote Xa ++ d :: unquote Y := by
  obtain ⟨Ya, rest, h1, h2, h3⟩ := ascii_span Y
  have hpre : ∀ c ∈ Xa ++ d :: Ya, c.toNat < 128 := by
    intro c hc
    simp only [List.mem_append, List.mem_cons] at hc
    rcases hc with hc | rfl | hc
    · exact hXa c hc
    · exact hd.ascii
    · exact h2 c hc
  rcases h3 with h3 | ⟨c, Y', h3, hc⟩
  · subst h3
    simp only [List.append_nil] at h1
    subst h1
    rw [unquote_eq_run hpre, run_split_plain hd hXa hw, unquote_eq_run hXa, unquote_eq_run h2]
  · subst h3; subst h1
    have e : Xa ++ d :: (Ya ++ c :: Y') = (Xa ++ d :: Ya) ++ c :: Y' := by simp
    rw [e, unquote_append_nonascii hc, unquote_append_nonascii hc, unquote_eq_run hpre, run_split_plain hd hXa hw,
      unquote_eq_run hXa, unquote_eq_run h2]
    simp

/-- **`unquote` splits at a literal plain character** that follows token-aligned text -/
theorem unquote_split_plain {d : Char} (hd : Plain d) (Y : Str) : ∀ (n : Nat) (X : Str), X.length ≤ n →
    wfk [] X = true → unquote (X ++ d :: Y) = unquote X ++ d :: unquote Y := by
  intro n
  induction n with
  | zero =>
    intro X hl hw
    have : X = [] := List.eq_nil_of_length_eq_zero (by omega)
    subst this
    exact unquote_split_plain_ascii hd (by simp) rfl Y
  | succ n ih =>
    intro X hl hw
    obtain ⟨a, rest, h1, h2, h3⟩ := ascii_span X
    rcases h3 with h3 | ⟨c, r, h3, hc⟩
    · subst h3
      simp only [List.append_nil] at h1
      subst h1
      exact unquote_split_plain_ascii hd h2 hw Y
    · subst h3; subst h1
      obtain ⟨hwa, hwr⟩ := wfk_split hc r a hw
      have e : (a ++ c :: r) ++ d :: Y = a ++ c :: (r ++ d :: Y) := by simp
      rw [e, unquote_append_nonascii hc, unquote_append_nonascii hc, ih r (by simp at hl; omega) hwr]
      simp

theorem unquote_snoc_plain {d : Char} (hd : Plain d) {X : Str} (hw : wfk [] X = true) :
    unquote (X ++ [d]) = unquote X ++ [d] := by
  rw [unquote_split_plain hd [] _ X (Nat.le_refl _) hw]
  rfl

/-- text accumulated before a literal plain character can be flushed at it -/
theorem upSpec_flush_plain {keep : List Bool} {d : Char} (hd : Plain d) {seg : Str}
    (hw : wfk [] seg.reverse = true) : ∀ (B T : Str),
    upSpec keep B (T ++ d :: seg) = unquote (seg.reverse ++ [d]) ++ upSpec keep B T
  | [], T => by
    simp only [upSpec, List.reverse_append, List.reverse_cons, List.append_assoc, List.singleton_append]
    rw [unquote_split_plain hd _ _ _ (Nat.le_refl _) hw, unquote_snoc_plain hd hw]
    simp
  | [c], T => by
    have := upSpec_flush_plain (keep := keep) hd hw [] (c :: T)
    simp only [upSpec] at this ⊢
    exact this
  | [c, x], T => by
    have := upSpec_flush_plain (keep := keep) hd hw [] (x :: c :: T)
    simp only [upSpec] at this ⊢
    exact this
  | c :: x :: y :: t, T => by
    simp only [upSpec]
    split
    · split
      · split
        · have := upSpec_flush_plain (keep := keep) hd hw [] T
          simp only [upSpec] at this
          rw [this]
          simp
        · exact upSpec_flush_plain hd hw t (y :: x :: c :: T)
      · exact upSpec_flush_plain hd hw (x :: y :: t) (c :: T)
    · exact upSpec_flush_plain hd hw (x :: y :: t) (c :: T)

/-- `_unquote_partial` splits at a literal plain character that follows `%XX`-well-formed text -/
theorem upSpec_split_plain {keep : List Bool} {d : Char} (hd : Plain d) (B : Str) : ∀ (A seg : Str),
    wellFormed A = true → wfk [] seg.reverse = true →
    upSpec keep (A ++ d :: B) seg = upSpec keep A seg ++ d :: upSpec keep B []
  | [], seg, _, hseg => by
    simp only [List.nil_append]
    rw [upSpec_cons_ne hd.not_pct]
    have := upSpec_flush_plain (keep := keep) hd hseg B []
    simp only [List.nil_append] at this
    rw [this, unquote_snoc_plain hd hseg]
    simp [upSpec]
  | [c], seg, hA, hseg => by
    have hc : c ≠ '%' := by intro e; simp [wellFormed, wfk, e] at hA
    simp only [List.cons_append, List.nil_append]
    rw [upSpec_cons_ne hc, upSpec_cons_ne hc]
    have := upSpec_split_plain (keep := keep) hd B [] (c :: seg) rfl (by
      simp only [List.reverse_cons]; rw [wfk_append _ _ hseg]; simp [wfk, hc])
    simpa using this
  | [c, x], seg, hA, hseg => by
    have hc : c ≠ '%' := by intro e; simp [wellFormed, wfk, e] at hA
    rw [wellFormed_cons_ne hc] at hA
    simp only [List.cons_append, List.nil_append]
    rw [upSpec_cons_ne hc, upSpec_cons_ne hc]
    have := upSpec_split_plain (keep := keep) hd B [x] (c :: seg) hA (by
      simp only [List.reverse_cons]; rw [wfk_append _ _ hseg]; simp [wfk, hc])
    simpa using this
  | c :: x :: y :: t, seg, hA, hseg => by
    by_cases hc : c = '%'
    · subst hc
      simp only [wellFormed, wfk, if_true] at hA
      cases hx : hexVal? x <;> cases hy : hexVal? y <;> simp only [hx, hy] at hA <;> try (simp at hA; done)
      rename_i hi lo
      simp only [Bool.and_eq_true] at hA
      have hst : wellFormed t = true := hA.2
      simp only [List.cons_append, upSpec, if_true, hx, hy]
      by_cases hkept : tbl keep (16 * hi + lo) = true
      · simp only [hkept, if_true]
        have := upSpec_split_plain (keep := keep) hd B t [] hst rfl
        rw [this]
        simp
      · simp only [hkept, Bool.false_eq_true, if_false]
        exact upSpec_split_plain hd B t (y :: x :: '%' :: seg) hst (by
          simp only [List.reverse_cons, List.append_assoc, List.cons_append, List.nil_append]
          rw [wfk_append _ _ hseg]
          simp [wfk, hx, hy, tbl])
    · rw [wellFormed_cons_ne hc] at hA
      simp only [List.cons_append]
      rw [upSpec_cons_ne hc, upSpec_cons_ne hc]
      have := upSpec_split_plain (keep := keep) hd B (x :: y :: t) (c :: seg) hA (by
        simp only [List.reverse_cons]; rw [wfk_append _ _ hseg]; simp [wfk, hc])
      simpa using this

/-- **`_unquote_partial` splits at a literal plain character** after `%XX`-well-formed text -/
theorem unquotePartial_split_plain (keep : List Bool) {d : Char} (hd : Plain d) {A : Str}
    (hA : wellFormed A = true) (B : Str) :
    unquotePartial keep (A ++ d :: B) = unquotePartial keep A ++ d :: unquotePartial keep B := by
  rw [unquotePartial_eq, unquotePartial_eq, unquotePartial_eq]
  exact upSpec_split_plain hd B A [] hA rfl

/-! ### well-formedness splits at a literal character that is neither `%` nor a hex digit -/

theorem wfk_split_plain {keep : List Bool} {d : Char} (hp : d ≠ '%') (hh : hexVal? d = none) (b : Str) :
    ∀ (a : Str), wfk keep (a ++ d :: b) = true → wfk keep a = true ∧ wfk keep b = true
  | [], h => by
    simp only [List.nil_append] at h
    rw [wfk_cons_ne hp] at h
    exact ⟨rfl, h⟩
  | [c], h => by
    by_cases hc : c = '%'
    · subst hc
      exfalso
      cases b with
      | nil => simp [wfk] at h
      | cons y t => simp [wfk, hh] at h
    · simp only [List.cons_append, List.nil_append] at h
      rw [wfk_cons_ne hc, wfk_cons_ne hp] at h
      exact ⟨by simp [wfk, hc], h⟩
  | [c, x], h => by
    by_cases hc : c = '%'
    · subst hc
      exfalso
      simp only [List.cons_append, List.nil_append, wfk, if_true, hh] at h
      cases hexVal? x <;> simp at h
    · simp only [List.cons_append, List.nil_append] at h
      rw [wfk_cons_ne hc] at h
      have := wfk_split_plain hp hh b [x] h
      exact ⟨by rw [wfk_cons_ne hc]; exact this.1, this.2⟩
  | c :: x :: y :: t, h => by
    by_cases hc : c = '%'
    · subst hc
      simp only [List.cons_append, wfk, if_true] at h ⊢
      cases hx : hexVal? x <;> cases hy : hexVal? y <;> simp only [hx, hy] at h ⊢ <;> try (simp at h; done)
      simp only [Bool.and_eq_true] at h ⊢
      have := wfk_split_plain hp hh b t h.2
      exact ⟨⟨h.1, this.1⟩, this.2⟩
    · simp only [List.cons_append] at h
      rw [wfk_cons_ne hc] at h
      have := wfk_split_plain hp hh b (x :: y :: t) h
      exact ⟨by rw [wfk_cons_ne hc]; exact this.1, this.2⟩

/-! ### splitting at the first occurrence -/

theorem exists_first {d : Char} : ∀ {s : Str}, d ∈ s → ∃ a b, s = a ++ d :: b ∧ d ∉ a
  | c :: t, h => by
    by_cases hc : c = d
    · subst hc; exact ⟨[], t, rfl, by simp⟩
    · have ht : d ∈ t := by
        rcases List.mem_cons.mp h with e | e
        · exact absurd e.symm hc
        · exact e
      obtain ⟨a, b, e, hn⟩ := exists_first ht
      refine ⟨c :: a, b, by rw [e]; rfl, ?_⟩
      intro hm
      rcases List.mem_cons.mp hm with e' | e'
      · exact hc e'.symm
      · exact hn e'

/-- a character of the query's keep set that `_unquote_partial` can neither produce nor consume -/
structure Sep (keep : List Bool) (d : Char) : Prop where
  kept : KeptChar keep d

theorem Sep.plain {keep : List Bool} {d : Char} (h : Sep keep d) : Plain d := ⟨h.kept.ascii, h.kept.not_pct⟩

/-- **`_unquote_partial` commutes with splitting at a kept separator** -/
theorem splitOn_unquotePartial {keep : List Bool} (hk : KeepOK keep) {d : Char} (hd : Sep keep d) :
    ∀ (n : Nat) (s : Str), s.length ≤ n → wellFormed s = true →
      Urlencode.splitOn d (unquotePartial keep s) = (Urlencode.splitOn d s).map (unquotePartial keep) := by
  intro n
  induction n with
  | zero =>
    intro s hl _
    have : s = [] := List.eq_nil_of_length_eq_zero (by omega)
    subst this
    rfl
  | succ n ih =>
    intro s hl hw
    by_cases hm : d ∈ s
    · obtain ⟨a, b, e, hn⟩ := exists_first hm
      subst e
      obtain ⟨hwa, hwb⟩ := wfk_split_plain hd.kept.not_pct hd.kept.not_hex b a hw
      have hna : d ∉ unquotePartial keep a := fun h => hn (kept_mem_unquotePartial hk hd.kept hwa h)
      rw [unquotePartial_split_plain keep hd.plain hwa, Urlencode.splitOn_append_sep _ hna,
        Urlencode.splitOn_append_sep _ hn, ih b (by simp at hl; omega) hwb]
      rfl
    · have hn : d ∉ unquotePartial keep s := fun h => hm (kept_mem_unquotePartial hk hd.kept hw h)
      rw [Urlencode.splitOn_no_sep hn, Urlencode.splitOn_no_sep hm]
      rfl

/-- the pieces of `%XX`-well-formed text between separators are well-formed -/
theorem splitOn_wellFormed {d : Char} (hp : d ≠ '%') (hh : hexVal? d = none) :
    ∀ (n : Nat) (s : Str), s.length ≤ n → wellFormed s = true →
      ∀ p ∈ Urlencode.splitOn d s, wellFormed p = true := by
  intro n
  induction n with
  | zero =>
    intro s hl _ p hp'
    have : s = [] := List.eq_nil_of_length_eq_zero (by omega)
    subst this
    simp [Urlencode.splitOn] at hp'
    subst hp'; rfl
  | succ n ih =>
    intro s hl hw p hp'
    by_cases hm : d ∈ s
    · obtain ⟨a, b, e, hn⟩ := exists_first hm
      subst e
      obtain ⟨hwa, hwb⟩ := wfk_split_plain hp hh b a hw
      rw [Urlencode.splitOn_append_sep _ hn] at hp'
      rcases List.mem_cons.mp hp' with e | e
      · rw [e]; exact hwa
      · exact ih b (by simp at hl; omega) hwb p e
    · rw [Urlencode.splitOn_no_sep hm] at hp'
      simp at hp'
      rw [hp']; exact hw

/-! ### the output of `_unquote_partial` is `%XX`-well-formed -/

theorem wellFormed_upSpec {keep : List Bool} (hk : KeepOK keep) : ∀ (s seg : Str),
    wfk keep seg.reverse = true → wellFormed s = true → wfk [] (upSpec keep s seg) = true
  | [], seg, hseg, _ => by
    simp only [upSpec]
    exact wfk_mono _ (wfk_unquote hk _ hseg)
  | [c], seg, hseg, hs => by
    have hc : c ≠ '%' := by intro e; simp [wellFormed, wfk, e] at hs
    rw [upSpec_cons_ne hc]
    apply wellFormed_upSpec hk [] (c :: seg) _ rfl
    simp only [List.reverse_cons]
    rw [wfk_append _ _ hseg]
    simp [wfk, hc]
  | [c, x], seg, hseg, hs => by
    have hc : c ≠ '%' := by intro e; simp [wellFormed, wfk, e] at hs
    rw [wellFormed_cons_ne hc] at hs
    rw [upSpec_cons_ne hc]
    apply wellFormed_upSpec hk [x] (c :: seg) _ hs
    simp only [List.reverse_cons]
    rw [wfk_append _ _ hseg]
    simp [wfk, hc]
  | c :: x :: y :: t, seg, hseg, hs => by
    by_cases hc : c = '%'
    · subst hc
      simp only [wellFormed, wfk, if_true] at hs
      cases hx : hexVal? x <;> cases hy : hexVal? y <;> simp only [hx, hy] at hs <;> try (simp at hs; done)
      rename_i hi lo
      simp only [Bool.and_eq_true] at hs
      have hst : wellFormed t = true := hs.2
      simp only [upSpec, if_true, hx, hy]
      by_cases hkept : tbl keep (16 * hi + lo) = true
      · simp only [hkept, if_true]
        rw [wfk_append _ _ (wfk_mono _ (wfk_unquote hk _ hseg))]
        simp only [wfk, if_true, hx, hy, tbl]
        simpa using wellFormed_upSpec hk t [] rfl hst
      · simp only [hkept, Bool.false_eq_true, if_false]
        apply wellFormed_upSpec hk t _ _ hst
        simp only [List.reverse_cons, List.append_assoc, List.cons_append, List.nil_append]
        rw [wfk_append _ _ hseg]
        simp [wfk, hx, hy, hkept]
    · rw [wellFormed_cons_ne hc] at hs
      rw [upSpec_cons_ne hc]
      apply wellFormed_upSpec hk (x :: y :: t) (c :: seg) _ hs
      simp only [List.reverse_cons]
      rw [wfk_append _ _ hseg]
      simp [wfk, hc]

theorem wellFormed_unquotePartial {keep : List Bool} (hk : KeepOK keep) (s : Str) (hs : wellFormed s = true) :
    wellFormed (unquotePartial keep s) = true := by
  rw [unquotePartial_eq]
  exact wellFormed_upSpec hk s [] rfl hs

/-! ### `plusToSpace`, then `unquote`: the same after partial unquoting -/

theorem plusToSpace_append (a b : Str) :
    Urlencode.plusToSpace (a ++ b) = Urlencode.plusToSpace a ++ Urlencode.plusToSpace b := by
  simp [Urlencode.plusToSpace]

theorem plusToSpace_no_plus {a : Str} (h : '+' ∉ a) : Urlencode.plusToSpace a = a := by
  induction a with
  | nil => rfl
  | cons c t ih =>
    have hc : c ≠ '+' := fun e => h (by simp [e])
    have ht : '+' ∉ t := fun m => h (List.mem_cons_of_mem _ m)
    have := ih ht
    simp only [Urlencode.plusToSpace, List.map_cons] at this ⊢
    rw [this]
    simp [hc]

theorem plusToSpace_wf : ∀ (a : Str), wfk [] a = true → wfk [] (Urlencode.plusToSpace a) = true
  | [], _ => rfl
  | [c], h => by
    have hc : c ≠ '%' := by intro e; simp [wfk, e] at h
    by_cases hp : c = '+' <;> simp [Urlencode.plusToSpace, wfk, hp, hc]
  | [c, x], h => by
    have hc : c ≠ '%' := by intro e; simp [wfk, e] at h
    rw [wfk_cons_ne hc] at h
    have hx : x ≠ '%' := by intro e; simp [wfk, e] at h
    by_cases hp : c = '+' <;> by_cases hq : x = '+' <;> simp [Urlencode.plusToSpace, wfk, hp, hq, hc, hx]
  | c :: x :: y :: t, h => by
    by_cases hc : c = '%'
    · subst hc
      simp only [wfk, if_true] at h
      cases hx : hexVal? x <;> cases hy : hexVal? y <;> simp only [hx, hy] at h <;> try (simp at h; done)
      simp only [Bool.and_eq_true] at h
      have ih := plusToSpace_wf t h.2
      have hxp : x ≠ '+' := by intro e; subst e; simp [hexVal?] at hx
      have hyp : y ≠ '+' := by intro e; subst e; simp [hexVal?] at hy
      have e : Urlencode.plusToSpace ('%' :: x :: y :: t) = '%' :: x :: y :: Urlencode.plusToSpace t := by
        simp [Urlencode.plusToSpace, hxp, hyp]
      rw [e]
      simp only [wfk, if_true, hx, hy, tbl]
      simpa using ih
    · rw [wfk_cons_ne hc] at h
      have ih := plusToSpace_wf (x :: y :: t) h
      have e : Urlencode.plusToSpace (c :: x :: y :: t) = (if c == '+' then ' ' else c) :: Urlencode.plusToSpace (x :: y :: t) := by
        simp [Urlencode.plusToSpace]
      rw [e]
      have hc' : (if c == '+' then ' ' else c) ≠ '%' := by
        split
        · decide
        · exact hc
      rw [wfk_cons_ne hc']
      exact ih

/-- **`unquote(piece.replace("+", " "))` is the same before and after `_unquote_partial`**, for a keep
set that keeps `+` and SPACE quoted -/
theorem unquote_plusToSpace_unquotePartial {keep : List Bool} (hk : KeepOK keep) (hplus : KeptChar keep '+') :
    ∀ (n : Nat) (x : Str), x.length ≤ n → wellFormed x = true →
      unquote (Urlencode.plusToSpace (unquotePartial keep x)) = unquote (Urlencode.plusToSpace x) := by
  have hsp : Plain ' ' := ⟨by decide, by decide⟩
  intro n
  induction n with
  | zero =>
    intro x hl _
    have : x = [] := List.eq_nil_of_length_eq_zero (by omega)
    subst this
    rfl
  | succ n ih =>
    intro x hl hw
    by_cases hm : '+' ∈ x
    · obtain ⟨a, b, e, hn⟩ := exists_first hm
      subst e
      obtain ⟨hwa, hwb⟩ := wfk_split_plain hplus.not_pct hplus.not_hex b a hw
      have hna : '+' ∉ unquotePartial keep a := fun h => hn (kept_mem_unquotePartial hk hplus hwa h)
      have hwua : wfk [] (unquotePartial keep a) = true := by
        exact wellFormed_unquotePartial hk a hwa
      rw [unquotePartial_split_plain keep ⟨hplus.ascii, hplus.not_pct⟩ hwa]
      have e1 : Urlencode.plusToSpace (unquotePartial keep a ++ '+' :: unquotePartial keep b)
          = unquotePartial keep a ++ ' ' :: Urlencode.plusToSpace (unquotePartial keep b) := by
        rw [plusToSpace_append, plusToSpace_no_plus hna]
        simp [Urlencode.plusToSpace]
      have e2 : Urlencode.plusToSpace (a ++ '+' :: b) = a ++ ' ' :: Urlencode.plusToSpace b := by
        rw [plusToSpace_append, plusToSpace_no_plus hn]
        simp [Urlencode.plusToSpace]
      rw [e1, e2, unquote_split_plain hsp _ _ _ (Nat.le_refl _) hwua,
        unquote_split_plain hsp _ _ _ (Nat.le_refl _) hwa, unquote_unquotePartial hk a hwa,
        ih b (by simp at hl; omega) hwb]
    · have hn : '+' ∉ unquotePartial keep x := fun h => hm (kept_mem_unquotePartial hk hplus hw h)
      rw [plusToSpace_no_plus hn, plusToSpace_no_plus hm, unquote_unquotePartial hk x hw]

/-! ### `parse_qsl` reads the same before and after `_unquote_partial` -/

theorem takeWhile_dropWhile_no {d : Char} : ∀ {x : Str}, d ∉ x →
    x.takeWhile (· != d) = x ∧ x.dropWhile (· != d) = []
  | [], _ => ⟨rfl, rfl⟩
  | c :: t, h => by
    have hc : (c != d) = true := by
      have : c ≠ d := fun e => h (by simp [e])
      simpa using this
    have ih := takeWhile_dropWhile_no (x := t) (fun m => h (List.mem_cons_of_mem _ m))
    simp [hc, ih.1, ih.2]

theorem takeWhile_dropWhile_first {d : Char} (b : Str) : ∀ {a : Str}, d ∉ a →
    (a ++ d :: b).takeWhile (· != d) = a ∧ (a ++ d :: b).dropWhile (· != d) = d :: b
  | [], _ => by simp
  | c :: t, h => by
    have hc : (c != d) = true := by
      have : c ≠ d := fun e => h (by simp [e])
      simpa using this
    have ih := takeWhile_dropWhile_first b (a := t) (fun m => h (List.mem_cons_of_mem _ m))
    simp [hc, ih.1, ih.2]

/-- `unquote(x.replace("+", " "))` in C02's spelling -/
theorem field_unquotePartial {keep : List Bool} (hk : KeepOK keep) (hplus : KeptChar keep '+') (x : Str)
    (hw : wellFormed x = true) :
    Urlencode.unquote (Urlencode.plusToSpace (unquotePartial keep x)) =
      Urlencode.unquote (Urlencode.plusToSpace x) := by
  rw [unquote_models_eq, unquote_models_eq]
  exact unquote_plusToSpace_unquotePartial hk hplus _ x (Nat.le_refl _) hw

/-- one `name=value` piece of `parse_qsl` -/
theorem parsePair_unquotePartial {keep : List Bool} (hk : KeepOK keep) (heq : KeptChar keep '=')
    (hplus : KeptChar keep '+') (nv : Str) (hw : wellFormed nv = true) :
    Urlencode.parsePair true (unquotePartial keep nv) = Urlencode.parsePair true nv := by
  unfold Urlencode.parsePair
  rw [unquotePartial_isEmpty]
  by_cases he : nv.isEmpty = true
  · simp [he]
  · simp only [he, Bool.false_eq_true, if_false]
    by_cases hm : '=' ∈ nv
    · obtain ⟨a, b, e, hn⟩ := exists_first hm
      subst e
      obtain ⟨hwa, hwb⟩ := wfk_split_plain heq.not_pct heq.not_hex b a hw
      have hna : '=' ∉ unquotePartial keep a := fun h => hn (kept_mem_unquotePartial hk heq hwa h)
      rw [unquotePartial_split_plain keep ⟨heq.ascii, heq.not_pct⟩ hwa]
      obtain ⟨t1, d1⟩ := takeWhile_dropWhile_first (unquotePartial keep b) hna
      obtain ⟨t2, d2⟩ := takeWhile_dropWhile_first b hn
      rw [t1, d1, t2, d2]
      simp only [Bool.or_true, if_true]
      rw [field_unquotePartial hk hplus a hwa, field_unquotePartial hk hplus b hwb]
    · have hn : '=' ∉ unquotePartial keep nv := fun h => hm (kept_mem_unquotePartial hk heq hw h)
      obtain ⟨t1, d1⟩ := takeWhile_dropWhile_no hn
      obtain ⟨t2, d2⟩ := takeWhile_dropWhile_no hm
      rw [t1, d1, t2, d2]
      simp only [if_true]
      rw [field_unquotePartial hk hplus nv hw]

theorem filterMap_congr' {α β : Type} {f g : α → Option β} : ∀ {l : List α}, (∀ x ∈ l, f x = g x) →
    l.filterMap f = l.filterMap g
  | [], _ => rfl
  | a :: t, h => by
    have ih := filterMap_congr' (l := t) (fun x hx => h x (List.mem_cons_of_mem _ hx))
    simp only [List.filterMap_cons, h a (by simp), ih]

/-- **`parse_qsl` reads the same pairs before and after `_unquote_partial`**, for every `%XX`-well-formed
query text and every keep set that keeps `&`, `=`, `+` (and SPACE, `%`) quoted: partial unquoting
("URI to IRI") of a query never changes the mapping it denotes. -/
theorem parseQsl_unquotePartial {keep : List Bool} (hk : KeepOK keep) (hamp : KeptChar keep '&')
    (heq : KeptChar keep '=') (hplus : KeptChar keep '+') (s : Str) (hw : wellFormed s = true) :
    Urlencode.parseQsl true (unquotePartial keep s) = Urlencode.parseQsl true s := by
  unfold Urlencode.parseQsl
  rw [unquotePartial_isEmpty]
  by_cases he : s.isEmpty = true
  · simp [he]
  · simp only [he, Bool.false_eq_true, if_false]
    rw [splitOn_unquotePartial hk ⟨hamp⟩ _ s (Nat.le_refl _) hw, List.filterMap_map]
    apply filterMap_congr'
    intro p hp
    exact parsePair_unquotePartial hk heq hplus p
      (splitOn_wellFormed hamp.not_pct hamp.not_hex _ s (Nat.le_refl _) hw p hp)

/-- the query's keep table (evaluated from the live pattern) keeps `&`, `=`, `+` quoted -/
theorem keepQuery_seps : KeptChar Gen.UrlTables.keepQuery '&' ∧ KeptChar Gen.UrlTables.keepQuery '=' ∧
    KeptChar Gen.UrlTables.keepQuery '+' :=
  ⟨⟨by decide, by decide, by decide, by decide⟩, ⟨by decide, by decide, by decide, by decide⟩,
   ⟨by decide, by decide, by decide, by decide⟩⟩

/-! ### the output of `_urlencode` -/

/-- is the byte left alone by `get_current_url`'s `quote(query_string, safe=...)` -/
def qFixed (x : UInt8) : Prop := x.toNat < 128 ∧ isSafe Gen.UrlTables.curQuerySafe x = true

instance (x : UInt8) : Decidable (qFixed x) := by unfold qFixed; infer_instance

/-- every byte `_urlencode` can write - a byte its `quote_plus` keeps, `+`, `%`, an upper-case hex
digit, `&`, `=` - is in the safe set of `get_current_url`'s query quoting (two regenerated literals) -/
theorem urlencode_alphabet_fixed :
    (∀ n, n < 256 → Urlencode.kept Gen.Urlencode.urlencodeSafe (UInt8.ofNat n) = true → qFixed (UInt8.ofNat n)) ∧
    (∀ n, n < 16 → qFixed (Urlencode.hexUpper n)) ∧ qFixed 43 ∧ qFixed 37 ∧ qFixed 38 ∧ qFixed 61 := by
  refine ⟨by decide +kernel, by decide +kernel, by decide, by decide, by decide, by decide⟩

theorem encPlus_fixed (b x : UInt8) (hx : x ∈ Urlencode.encPlus Gen.Urlencode.urlencodeSafe b) : qFixed x := by
  unfold Urlencode.encPlus at hx
  split at hx
  · simp only [List.mem_singleton] at hx; subst hx; exact urlencode_alphabet_fixed.2.2.1
  · split at hx
    · rename_i hk
      simp only [List.mem_singleton] at hx; subst hx
      have := urlencode_alphabet_fixed.1 x.toNat x.toNat_lt (by rw [uint8_ofNat_toNat]; exact hk)
      rwa [uint8_ofNat_toNat] at this
    · simp only [Urlencode.pct, List.mem_cons, List.mem_nil_iff, or_false] at hx
      rcases hx with rfl | rfl | rfl
      · exact urlencode_alphabet_fixed.2.2.2.1
      · exact urlencode_alphabet_fixed.2.1 _ (Urlencode.div16_lt b)
      · exact urlencode_alphabet_fixed.2.1 _ (Urlencode.mod16_lt b)

theorem urlencode_fixed (l : List (Str × Str)) : ∀ x ∈ Urlencode.wzUrlencode l, qFixed x := by
  intro x hx
  unfold Urlencode.wzUrlencode Urlencode.urlencode at hx
  rcases Urlencode.mem_joinWith hx with rfl | ⟨p, hp, hxp⟩
  · exact urlencode_alphabet_fixed.2.2.2.2.1
  · simp only [List.mem_map] at hp
    obtain ⟨⟨k, v⟩, _, rfl⟩ := hp
    simp only [List.mem_append, List.mem_cons] at hxp
    have hq : ∀ s : Str, x ∈ Urlencode.quotePlusStr Gen.Urlencode.urlencodeSafe s → qFixed x := by
      intro s hs
      unfold Urlencode.quotePlusStr at hs
      rw [Urlencode.quotePlus_eq_flatMap] at hs
      obtain ⟨b, _, hb⟩ := List.mem_flatMap.1 hs
      exact encPlus_fixed b x hb
    rcases hxp with h | rfl | h
    · exact hq k h
    · exact urlencode_alphabet_fixed.2.2.2.2.2
    · exact hq v h

/-- **`get_current_url`'s `quote` leaves the output of `_urlencode` alone** -/
theorem quote_urlencodeText (l : List (Str × Str)) :
    quote Gen.UrlTables.curQuerySafe (urlencodeText l) = urlencodeText l := by
  apply quote_of_fixed
  intro c hc
  obtain ⟨x, hx, rfl⟩ := Urlencode.mem_asciiStr hc
  have := urlencode_fixed l x hx
  refine ⟨by rw [Urlencode.byteChar_toNat]; exact this.1, ?_⟩
  rw [Urlencode.byteChar_toNat, uint8_ofNat_toNat]
  exact this.2

theorem hexUpper_hexVal : ∀ n, n < 16 → hexVal? (Char.ofNat (Urlencode.hexUpper n).toNat) = some n := by
  decide

theorem wfk_encPlus {safe : Bytes} (hs : Urlencode.SafeOk safe) (b : UInt8) :
    wfk [] (Urlencode.asciiStr (Urlencode.encPlus safe b)) = true := by
  unfold Urlencode.encPlus
  split
  · decide
  · split
    · rename_i hk
      have hb : b ≠ 37 := by intro e; rw [e, hs.1] at hk; cases hk
      have hc : Char.ofNat b.toNat ≠ '%' := by
        intro e
        exact hb (Urlencode.byteChar_inj (a := b) (b := 37) (by rw [e]; rfl))
      simp [Urlencode.asciiStr, wfk, hc]
    · simp only [Urlencode.pct, Urlencode.asciiStr, List.map_cons, List.map_nil]
      have h1 := hexUpper_hexVal _ (Urlencode.div16_lt b)
      have h2 := hexUpper_hexVal _ (Urlencode.mod16_lt b)
      simp [wfk, h1, h2, tbl]

theorem wfk_quotePlus {safe : Bytes} (hs : Urlencode.SafeOk safe) (bs : Bytes) :
    wfk [] (Urlencode.asciiStr (Urlencode.quotePlus safe bs)) = true := by
  rw [Urlencode.quotePlus_eq_flatMap]
  induction bs with
  | nil => rfl
  | cons b t ih =>
    simp only [List.flatMap_cons, Urlencode.asciiStr_append]
    rw [wfk_append _ _ (wfk_encPlus hs b)]
    exact ih

theorem wfk_joinS {sep : Char} (hsep : sep ≠ '%') : ∀ (ps : List Str), (∀ p ∈ ps, wfk [] p = true) →
    wfk [] (Urlencode.joinS sep ps) = true
  | [], _ => rfl
  | [x], h => h x (by simp)
  | x :: y :: t, h => by
    simp only [Urlencode.joinS]
    rw [wfk_append _ _ (h x (by simp)), wfk_cons_ne hsep]
    exact wfk_joinS hsep (y :: t) (fun p hp => h p (List.mem_cons_of_mem _ hp))

/-- **the output of `_urlencode` is `%XX`-well-formed** -/
theorem wellFormed_urlencodeText (hs : Urlencode.SafeOk Gen.Urlencode.urlencodeSafe) (l : List (Str × Str)) :
    wellFormed (urlencodeText l) = true := by
  unfold wellFormed urlencodeText Urlencode.wzUrlencode Urlencode.urlencode
  rw [Urlencode.asciiStr_joinWith]
  apply wfk_joinS (by decide)
  intro p hp
  simp only [List.mem_map] at hp
  obtain ⟨q, ⟨⟨k, v⟩, _, rfl⟩, rfl⟩ := hp
  simp only [Urlencode.asciiStr_append, Urlencode.asciiStr_cons, Urlencode.quotePlusStr]
  rw [wfk_append _ _ (wfk_quotePlus hs _), wfk_cons_ne (by decide)]
  exact wfk_quotePlus hs _

/-- **The query text of the reconstructed URL denotes the mapping**: `_urlencode(items)`, quoted by
`get_current_url`, partially unquoted by `uri_to_iri`'s query unquoter and parsed by
`parse_qsl(keep_blank_values=True)`, is `items` - for every list of pairs over Unicode. -/
theorem parseQsl_url_query (hs : Urlencode.SafeOk Gen.Urlencode.urlencodeSafe)
    (hk : KeepOK Gen.UrlTables.keepQuery) (l : List (Str × Str)) :
    Urlencode.parseQsl true
      (unquotePartial Gen.UrlTables.keepQuery (quote Gen.UrlTables.curQuerySafe (urlencodeText l))) = l := by
  rw [quote_urlencodeText, parseQsl_unquotePartial hk keepQuery_seps.1 keepQuery_seps.2.1 keepQuery_seps.2.2 _
    (wellFormed_urlencodeText hs l)]
  exact Urlencode.parseQsl_urlencode_lemma hs l

/-! ### from the builder's arguments to the query component of `Request.url` -/

/-- `request_url_denotes` with the query component as text -/
theorem request_url_query_text {o : UrlOpaque} (laws : HostLaws o)
    (kt : KeepOK Gen.UrlTables.keepPath ∧ KeepOK Gen.UrlTables.keepQuery ∧
      KeepOK Gen.UrlTables.keepFragment ∧ KeepOK Gen.UrlTables.keepUser)
    {scheme ha hu root p qs : Str} {port : Option Nat}
    (ci : CurInput o scheme ha port (rstripSlash root) (utf8Enc qs)) (hconv : o.hostToUnicode ha = some hu)
    (hgh : getHost scheme (hostBr ha ++ portText port) = hostBr ha ++ portText port) :
    ∃ rv t, requestView o (danceEnviron scheme (hostBr ha ++ portText port) root p qs) = .ok rv ∧
      urlsplit o rv.url = .ok t ∧
      t.query = unquotePartial Gen.UrlTables.keepQuery (quote Gen.UrlTables.curQuerySafe qs) := by
  obtain ⟨r, hr, hsplit⟩ := getCurrentUrl_splits laws kt (path := '/' :: lstripSlash p) ci hconv
  refine ⟨⟨'/' :: lstripSlash p, rstripSlash root, hostBr ha ++ portText port, r⟩, _, ?_, hsplit, rfl⟩
  unfold requestView danceEnviron
  simp only [dance_roundtrip']
  have hq : Py.latin1Enc (encodingDance qs) = some (utf8Enc qs) := latin1Enc_latin1Dec _
  simp only [hq, hgh, hr]

/-- `builder_request_roundtrip` with the query component of `Request.url` as text -/
theorem builder_request_query_text {o : UrlOpaque} (laws : HostLaws o)
    (kt : KeepOK Gen.UrlTables.keepPath ∧ KeepOK Gen.UrlTables.keepQuery ∧
      KeepOK Gen.UrlTables.keepFragment ∧ KeepOK Gen.UrlTables.keepUser)
    {scheme h ha hu root p qs : Str} {port : Option Nat}
    (b : BaseArg o scheme h port root) (hp : PathArg p) (hpp : '%' ∉ p) (hrp : '%' ∉ root)
    (hq : wellFormed (quoteBytes Gen.UrlTables.curQuerySafe (utf8Enc qs)) = true)
    (hconv : o.hostToAscii h = some ha) (hconvu : o.hostToUnicode ha = some hu) :
    ∃ e rv t, builderEnviron o p (baseText scheme h port root) qs = .ok e ∧ requestView o e = .ok rv ∧
      urlsplit o rv.url = .ok t ∧
      t.query = unquotePartial Gen.UrlTables.keepQuery (quote Gen.UrlTables.curQuerySafe qs) := by
  obtain ⟨e, he, e1, e2, e3, e4, e5⟩ := builderEnviron_eq laws qs b hp hconv
  have hrp' : '%' ∉ rstripSlash root := fun hm => hrp ((rstripSlash_prefix root).subset hm)
  rw [unquoteReplace_quote _ _ hrp'] at e1
  rw [unquoteReplace_quote _ _ hpp] at e2
  have hE : e = danceEnviron scheme (hostBr ha ++ portText port) (rstripSlash root) p qs := by
    cases e
    simp only at e1 e2 e3 e4 e5
    simp only [danceEnviron, e1, e2, e3, e4, e5]
  let port' := dropDefaultPort scheme port
  have hgh : getHost scheme (hostBr ha ++ portText port') = hostBr ha ++ portText port' := by
    rw [getHost_hostport, dropDefaultPort_idem]
  have ci : CurInput o scheme ha port' (rstripSlash (rstripSlash root)) (utf8Enc qs) :=
    ⟨b.scheme, (laws.a_chars _ _ hconv).1, (laws.a_chars _ _ hconv).2, by
      intro k hk
      rcases dropDefaultPort_cases scheme port with h0 | h0
      · rw [show port' = none from h0] at hk; cases hk
      · rw [show port' = port from h0] at hk; exact b.port k hk,
      laws.bracket_a _ _ hconv, rstripSlash_form (rstripSlash_form b.root_form), hq⟩
  obtain ⟨rv0, t, g1, g4, g8⟩ :=
    request_url_query_text laws kt (root := rstripSlash root) (p := p) ci hconvu hgh
  have hsame := requestView_getHost o scheme (hostBr ha ++ portText port) (hostBr ha ++ portText port')
    (rstripSlash root) p qs (by rw [getHost_hostport, hgh])
  rw [g1] at hsame
  cases hrv : requestView o (danceEnviron scheme (hostBr ha ++ portText port) (rstripSlash root) p qs) with
  | error x => rw [hrv] at hsame; cases hsame
  | ok rv =>
    rw [hrv] at hsame
    simp only [Except.map, Except.ok.injEq, Prod.mk.injEq] at hsame
    obtain ⟨_, _, _, s4⟩ := hsame
    exact ⟨e, rv, t, he, by rw [hE]; exact hrv, by rw [s4]; exact g4, g8⟩

/-- a mapping given as `query_string` builds the environ of its `_urlencode` text given as a `str` -/
theorem builderInit_items_environ (o : UrlOpaque) (path : Str) (base : Option Str) (l : List (Str × Str)) :
    (builderInit o path base (.items l)).map (fun b => b.environ.toEnviron) =
      (builderInit o path base (.text (urlencodeText l))).map (fun b => b.environ.toEnviron) := by
  unfold builderInit
  by_cases hq : path.contains '?' = true
  · simp only [hq, QueryArg.given, Bool.true_and, if_true]
  · simp only [hq, QueryArg.given, Bool.true_and, Bool.false_eq_true, if_false]
    cases urlsplit o path with
    | error e => rfl
    | ok ru =>
      simp only [Except.bind]
      cases iriToUriText o ru.path with
      | error e => rfl
      | ok sp =>
        simp only
        cases baseIri o base with
        | error e => rfl
        | ok b' =>
          simp only
          cases baseUrlSetter o b' with
          | error e => rfl
          | ok t => rfl

/-- **The query component of the reconstructed URL denotes the mapping given to the builder.** -/
theorem builder_url_query_mapping {o : UrlOpaque} (laws : HostLaws o)
    (kt : KeepOK Gen.UrlTables.keepPath ∧ KeepOK Gen.UrlTables.keepQuery ∧
      KeepOK Gen.UrlTables.keepFragment ∧ KeepOK Gen.UrlTables.keepUser)
    (hs : Urlencode.SafeOk Gen.Urlencode.urlencodeSafe)
    {scheme h ha hu root p : Str} {port : Option Nat} (l : List (Str × Str))
    (b : BaseArg o scheme h port root) (hp : PathArg p) (hpp : '%' ∉ p) (hrp : '%' ∉ root)
    (hconv : o.hostToAscii h = some ha) (hconvu : o.hostToUnicode ha = some hu) :
    ∃ bd rv t, builderInit o p (some (baseText scheme h port root)) (.items l) = .ok bd ∧
      requestView o bd.environ.toEnviron = .ok rv ∧ urlsplit o rv.url = .ok t ∧
      Urlencode.parseQsl true t.query = l := by
  have hq : wellFormed (quoteBytes Gen.UrlTables.curQuerySafe (utf8Enc (urlencodeText l))) = true := by
    have := quote_urlencodeText l
    unfold quote at this
    rw [this]
    exact wellFormed_urlencodeText hs l
  obtain ⟨e, rv, t, he, hrv, ht, htq⟩ := builder_request_query_text laws kt b hp hpp hrp hq hconv hconvu
  rw [builderEnviron_eq_init, ← builderInit_items_environ] at he
  cases hb : builderInit o p (some (baseText scheme h port root)) (.items l) with
  | error x => rw [hb] at he; cases he
  | ok bd =>
    rw [hb] at he
    simp only [Except.map, Except.ok.injEq] at he
    refine ⟨bd, rv, t, rfl, by rw [he]; exact hrv, ht, ?_⟩
    rw [htq]
    exact parseQsl_url_query hs kt.2.1 l

end Wz.Url
