/-
C15: `EnvironBuilder.from_environ` after repair 18c1dce (`_quote_url_syntax`): quoting `%`, `?`, `#`
before the URL-syntax `path` parameter makes `quote` / `unquote` inside `__init__` / `get_environ` an
exact round trip for EVERY decoded path. Core Lean only.
-/
import WzVerif.Lemmas.UrlNoEscape
namespace Wz.Url

/-- an ASCII byte does not occur in the UTF-8 encoding of any other character -/
theorem utf8EncodeChar_no_ascii {c : Char} (x : UInt8) (hx : x < 0x80) (hc : c ≠ Char.ofNat x.toNat) :
    x ∉ String.utf8EncodeChar c := by
  obtain ⟨b0, cs, h1, h2⟩ := firstItem_encode c []
  rw [h1]
  simp only [List.append_nil] at h2
  rcases firstItem_cases b0 cs with ⟨hb, hI⟩ | ⟨span, hI, _⟩ | ⟨c', raw, hI, hc', hcont⟩
  · rw [h2] at hI
    simp only [Item.chr.injEq] at hI
    obtain ⟨e1, e2⟩ := hI
    simp only [List.cons.injEq, true_and] at e2
    subst e2
    simp only [List.mem_singleton]
    intro e
    apply hc
    rw [e1, ← e]
  · rw [h2] at hI; cases hI
  · intro hm
    have hraw : ∀ b ∈ b0 :: cs, 0x80 ≤ b := by
      have hge : ¬ b0 < 0x80 := by
        intro hlt
        have : firstItem b0 cs = .chr (Char.ofNat b0.toNat) [b0] := by simp [firstItem, hlt]
        rw [hI] at this
        simp only [Item.chr.injEq] at this
        rw [this.1] at hc'
        rw [UInt8.lt_iff_toNat_lt] at hlt
        simp at hlt
        rw [char_toNat_ofNat_lt (by omega)] at hc'
        omega
      have hb0 : 0x80 ≤ b0 := by
        rw [UInt8.le_iff_toNat_le]; rw [UInt8.lt_iff_toNat_lt] at hge; simp at hge ⊢; omega
      unfold firstItem at h2
      rw [if_neg hge] at h2
      cases hl : leadInfo b0 with
      | none => rw [hl] at h2; cases h2
      | some v =>
        obtain ⟨n, lo, hi⟩ := v
        rw [hl] at h2
        simp only at h2
        split at h2
        · simp only [Item.chr.injEq, List.cons.injEq, true_and] at h2
          intro b hb
          rcases List.mem_cons.mp hb with rfl | hb
          · exact hb0
          · rw [← h2.2] at hb
            exact takeCont_ge n lo hi cs (leadInfo_range hl).1 b hb
        · cases h2
    have h80 := hraw _ hm
    rw [UInt8.le_iff_toNat_le] at h80
    rw [UInt8.lt_iff_toNat_lt] at hx
    simp at h80 hx
    omega

/-- `_quote_url_syntax` on the UTF-8 bytes -/
def synB (b : UInt8) : Bytes :=
  if b = 0x25 then [0x25, 0x32, 0x35] else if b = 0x3F then [0x25, 0x33, 0x46]
  else if b = 0x23 then [0x25, 0x32, 0x33] else [b]

theorem synB_other {b : UInt8} (h1 : b ≠ 0x25) (h2 : b ≠ 0x3F) (h3 : b ≠ 0x23) : synB b = [b] := by
  simp [synB, h1, h2, h3]

theorem flatMap_synB_id : ∀ (B : Bytes), (0x25 : UInt8) ∉ B → (0x3F : UInt8) ∉ B → (0x23 : UInt8) ∉ B →
    B.flatMap synB = B
  | [], _, _, _ => rfl
  | b :: B, h1, h2, h3 => by
    have e1 : b ≠ 0x25 := fun e => h1 (by simp [e])
    have e2 : b ≠ 0x3F := fun e => h2 (by simp [e])
    have e3 : b ≠ 0x23 := fun e => h3 (by simp [e])
    simp only [List.flatMap_cons, synB_other e1 e2 e3, List.singleton_append]
    rw [flatMap_synB_id B (fun m => h1 (List.mem_cons_of_mem _ m)) (fun m => h2 (List.mem_cons_of_mem _ m))
      (fun m => h3 (List.mem_cons_of_mem _ m))]

theorem utf8Enc_quoteUrlSyntax : ∀ (s : Str), utf8Enc (quoteUrlSyntax s) = (utf8Enc s).flatMap synB
  | [] => rfl
  | c :: s => by
    have ih := utf8Enc_quoteUrlSyntax s
    have hsplit : utf8Enc (quoteUrlSyntax (c :: s)) =
        utf8Enc (if c = '%' then ['%', '2', '5'] else if c = '?' then ['%', '3', 'F']
          else if c = '#' then ['%', '2', '3'] else [c]) ++ utf8Enc (quoteUrlSyntax s) := by
      simp [quoteUrlSyntax, utf8Enc]
    rw [hsplit, ih]
    have hcons : utf8Enc (c :: s) = String.utf8EncodeChar c ++ utf8Enc s := by simp [utf8Enc]
    rw [hcons, List.flatMap_append]
    congr 1
    by_cases h1 : c = '%'
    · subst h1; decide
    · by_cases h2 : c = '?'
      · subst h2; decide
      · by_cases h3 : c = '#'
        · subst h3; decide
        · simp only [h1, h2, h3, if_false]
          have : utf8Enc [c] = String.utf8EncodeChar c := by simp [utf8Enc]
          rw [this]
          exact (flatMap_synB_id _ (utf8EncodeChar_no_ascii 0x25 (by decide) h1)
            (utf8EncodeChar_no_ascii 0x3F (by decide) h2) (utf8EncodeChar_no_ascii 0x23 (by decide) h3)).symm

/-- with `%` in the safe set, quoting the `_quote_url_syntax` form and unquoting gives the bytes back -
for ALL bytes (a `%25` written by `_quote_url_syntax` survives `quote` and is read back as `%`) -/
theorem unquoteBytes_quoteBytes_syn {safe : Str} (hp : isSafe safe 0x25 = true) : ∀ (B rest : Bytes),
    unquoteBytes (toBytes (quoteBytes safe (B.flatMap synB)) ++ rest) = B ++ unquoteBytes rest
  | [], rest => by simp [quoteBytes, toBytes]
  | b :: B, rest => by
    have ih := unquoteBytes_quoteBytes_syn hp B rest
    have hq : ∀ (X : Bytes), toBytes (quoteBytes safe (X ++ B.flatMap synB)) ++ rest =
        toBytes (quoteBytes safe X) ++ (toBytes (quoteBytes safe (B.flatMap synB)) ++ rest) := by
      intro X
      simp [quoteBytes, List.flatMap_append, toBytes_append, List.append_assoc]
    have hdig : ∀ (x : UInt8), x = 0x32 ∨ x = 0x35 ∨ x = 0x33 ∨ x = 0x46 → isSafe safe x = true := by
      intro x hx
      rcases hx with rfl | rfl | rfl | rfl <;> simp [isSafe] <;> exact Or.inl (by decide)
    have htri : ∀ (x y : UInt8), (y = 0x32 ∨ y = 0x35 ∨ y = 0x33 ∨ y = 0x46) →
        (x = 0x32 ∨ x = 0x35 ∨ x = 0x33 ∨ x = 0x46) →
        toBytes (quoteBytes safe [0x25, x, y]) = [0x25, x, y] := by
      intro x y hy hx
      have sx := hdig x hx
      have sy := hdig y hy
      rcases hx with rfl | rfl | rfl | rfl <;> rcases hy with rfl | rfl | rfl | rfl <;>
        simp [quoteBytes, quoteByte, hp, sx, sy, toBytes] <;> decide
    simp only [List.flatMap_cons]
    rw [hq]
    by_cases h1 : b = 0x25
    · subst h1
      have : synB 0x25 = [0x25, 0x32, 0x35] := by decide
      rw [this, htri 0x32 0x35 (by decide) (by decide)]
      have hpc : ([0x25, 0x32, 0x35] : Bytes) = toBytes (pct 0x25) := by decide
      rw [hpc, unquoteBytes_pct, ih]; rfl
    · by_cases h2 : b = 0x3F
      · subst h2
        have : synB 0x3F = [0x25, 0x33, 0x46] := by decide
        rw [this, htri 0x33 0x46 (by decide) (by decide)]
        have hpc : ([0x25, 0x33, 0x46] : Bytes) = toBytes (pct 0x3F) := by decide
        rw [hpc, unquoteBytes_pct, ih]; rfl
      · by_cases h3 : b = 0x23
        · subst h3
          have : synB 0x23 = [0x25, 0x32, 0x33] := by decide
          rw [this, htri 0x32 0x33 (by decide) (by decide)]
          have hpc : ([0x25, 0x32, 0x33] : Bytes) = toBytes (pct 0x23) := by decide
          rw [hpc, unquoteBytes_pct, ih]; rfl
        · rw [synB_other h1 h2 h3]
          by_cases hs : isSafe safe b = true
          · have hqb : quoteBytes safe [b] = [Char.ofNat b.toNat] := by simp [quoteBytes, quoteByte, hs]
            have hlt : b.toNat < 128 := by
              simp only [isSafe, Bool.and_eq_true, decide_eq_true_eq] at hs; exact hs.1
            rw [hqb]
            have : toBytes [Char.ofNat b.toNat] = [b] := by
              simp [toBytes, char_toNat_ofNat_lt (show b.toNat < 256 by omega)]
            rw [this, List.singleton_append, unquoteBytes_cons_ne h1, ih]
            rfl
          · have hqb : quoteBytes safe [b] = pct b := by simp [quoteBytes, quoteByte, hs]
            rw [hqb, unquoteBytes_pct, ih]
            rfl

/-- `unquote(quote(_quote_url_syntax(s), safe), errors="replace") == s` for every text `s`, whenever
`%` is in the safe set (as in `iri_to_uri`'s path component) -/
theorem unquoteReplace_quote_syn {safe : Str} (hp : isSafe safe 0x25 = true) (s : Str) :
    unquoteReplace (quote safe (quoteUrlSyntax s)) = s := by
  unfold quote
  have h1 := unquoteAuxR_ascii (quoteBytes safe (utf8Enc (quoteUrlSyntax s))) [] [] (quoteBytes_ascii safe _)
  simp only [List.append_nil] at h1
  rw [unquoteReplace, h1]
  simp only [unquoteAuxR, List.reverse_reverse, unquoteRunR]
  have := unquoteBytes_quoteBytes_syn hp (utf8Enc s) []
  simp only [List.append_nil, unquoteBytes] at this
  rw [utf8Enc_quoteUrlSyntax, this, items_eq_its (Nat.le_succ _)]
  exact decode_utf8Enc renderR (fun _ _ => rfl) s

/-! ### the round trip -/

/-- a decoded PATH_INFO of the property's domain: starts with exactly one `/`, no TAB / CR / LF
(F15c). `%`, `?`, `#` and `%XX` sequences are ordinary characters of a decoded path. -/
structure EnvPath (p : Str) : Prop where
  slash : p.head? = some '/'
  single : (p.drop 1).head? ≠ some '/'
  notab : noTab p

theorem quoteUrlSyntax_id : ∀ (s : Str), '%' ∉ s → '?' ∉ s → '#' ∉ s → quoteUrlSyntax s = s
  | [], _, _, _ => rfl
  | c :: s, h1, h2, h3 => by
    have e1 : c ≠ '%' := fun e => h1 (by simp [e])
    have e2 : c ≠ '?' := fun e => h2 (by simp [e])
    have e3 : c ≠ '#' := fun e => h3 (by simp [e])
    have ih := quoteUrlSyntax_id s (fun m => h1 (List.mem_cons_of_mem _ m))
      (fun m => h2 (List.mem_cons_of_mem _ m)) (fun m => h3 (List.mem_cons_of_mem _ m))
    simp only [quoteUrlSyntax, List.flatMap_cons, e1, e2, e3, if_false, List.singleton_append] at ih ⊢
    rw [ih]

theorem quoteUrlSyntax_mem {s : Str} {x : Char} (hx : x ∈ quoteUrlSyntax s) :
    x ∈ s ∨ x = '%' ∨ x = '2' ∨ x = '5' ∨ x = '3' ∨ x = 'F' := by
  simp only [quoteUrlSyntax, List.mem_flatMap] at hx
  obtain ⟨c, hc, hm⟩ := hx
  split at hm
  · simp at hm; rcases hm with rfl | rfl | rfl <;> simp
  · split at hm
    · simp at hm; rcases hm with rfl | rfl | rfl <;> simp
    · split at hm
      · simp at hm; rcases hm with rfl | rfl | rfl <;> simp
      · simp at hm; subst hm; exact Or.inl hc

theorem quoteUrlSyntax_no {s : Str} {x : Char} (hx : x = '?' ∨ x = '#') : x ∉ quoteUrlSyntax s := by
  intro hm
  simp only [quoteUrlSyntax, List.mem_flatMap] at hm
  obtain ⟨c, hc, hm⟩ := hm
  split at hm
  · rcases hx with rfl | rfl <;> simp at hm
  · split at hm
    · rcases hx with rfl | rfl <;> simp at hm
    · split at hm
      · rcases hx with rfl | rfl <;> simp at hm
      · rename_i n1 n2 n3
        simp at hm; subst hm
        rcases hx with rfl | rfl
        · exact n2 rfl
        · exact n3 rfl

theorem pathArg_quoteUrlSyntax {p : Str} (h : EnvPath p) : PathArg (quoteUrlSyntax p) := by
  cases p with
  | nil => have := h.slash; simp at this
  | cons x q =>
    have h1 := h.slash
    simp only [List.head?_cons, Option.some.injEq] at h1
    subst h1
    have hq : quoteUrlSyntax ('/' :: q) = '/' :: quoteUrlSyntax q := by
      simp [quoteUrlSyntax]
    refine ⟨by rw [hq]; rfl, ?_, quoteUrlSyntax_no (Or.inl rfl), quoteUrlSyntax_no (Or.inr rfl), ?_⟩
    · rw [hq]
      simp only [List.drop_succ_cons, List.drop_zero]
      cases q with
      | nil => simp [quoteUrlSyntax]
      | cons y r =>
        have hy : y ≠ '/' := by simpa using h.single
        simp only [quoteUrlSyntax, List.flatMap_cons]
        split
        · simp
        · split
          · simp
          · split
            · simp
            · simpa using hy
    · intro c hc
      rcases quoteUrlSyntax_mem hc with hm | rfl | rfl | rfl | rfl | rfl
      · exact h.notab c hm
      all_goals decide

/-- **`from_environ` round trip after repair 18c1dce.** For the environ a builder produces from a base
URL of the property's domain and ANY decoded path that starts with exactly one `/` and has no
TAB / CR / LF - `%`, `%XX`, `?`, `#` included -, `from_environ` succeeds and the builder it returns
builds the same SCRIPT_NAME, PATH_INFO, QUERY_STRING, HTTP_HOST and wsgi.url_scheme again. -/
theorem from_environ_roundtrip_fixed {o : UrlOpaque} (laws : HostLaws o) {scheme ha root p : Str}
    {port : Option Nat} (qs : Str) (b : BaseArg o scheme ha port root) (hp : EnvPath p)
    (hrp : '%' ∉ root) (hfix : o.hostToAscii ha = some ha) :
    ∃ b', fromEnviron o (danceEnviron scheme (hostBr ha ++ portText port) (rstripSlash root) p qs) = .ok b' ∧
      b'.environ.toEnviron = danceEnviron scheme (hostBr ha ++ portText port) (rstripSlash root) p qs := by
  have hpre := rstripSlash_prefix root
  have bR : BaseArg o scheme ha port (rstripSlash root) :=
    ⟨b.scheme, b.host_ne, b.host_chars, b.port, b.bracket, rstripSlash_form b.root_form,
      fun hm => b.root_chars.1 (hpre.subset hm), fun hm => b.root_chars.2.1 (hpre.subset hm),
      fun c hc => b.root_chars.2.2 c (hpre.subset hc)⟩
  have bR' : BaseArg o scheme ha port (rstripSlash root ++ ['/']) := by
    refine ⟨b.scheme, b.host_ne, b.host_chars, b.port, b.bracket, Or.inr ?_, ?_, ?_, ?_⟩
    · rcases rstripSlash_form b.root_form with h | h
      · rw [h]; rfl
      · cases hr : rstripSlash root with
        | nil => rfl
        | cons x xs => rw [hr] at h; simpa using h
    · intro hm
      rcases List.mem_append.mp hm with h | h
      · exact bR.root_chars.1 h
      · simp at h
    · intro hm
      rcases List.mem_append.mp hm with h | h
      · exact bR.root_chars.2.1 h
      · simp at h
    · intro c hc
      rcases List.mem_append.mp hc with h | h
      · exact bR.root_chars.2.2 c h
      · simp at h; subst h; decide
  have hmk := makeBaseUrl_eq laws bR (rstripSlash_idem root)
  obtain ⟨e0, he0, e1, e2, e3, e4, e5⟩ := builderEnviron_eq laws qs bR' (pathArg_quoteUrlSyntax hp) hfix
  have hs : rstripSlash (rstripSlash root ++ ['/']) = rstripSlash root := by
    rw [rstripSlash_append]
    have : rstripSlash ['/'] = [] := by decide
    rw [if_pos this, rstripSlash_idem]
  have hrp' : '%' ∉ rstripSlash root := fun hm => hrp (hpre.subset hm)
  rw [hs, unquoteReplace_quote _ _ hrp'] at e1
  rw [unquoteReplace_quote_syn iriPathSafe_pct p] at e2
  have hE : e0 = danceEnviron scheme (hostBr ha ++ portText port) (rstripSlash root) p qs := by
    cases e0
    simp only at e1 e2 e3 e4 e5
    simp only [danceEnviron, e1, e2, e3, e4, e5]
  rw [builderEnviron_eq_init] at he0
  have hroot : quoteUrlSyntax (rstripSlash root) = rstripSlash root :=
    quoteUrlSyntax_id _ hrp' bR.root_chars.1 bR.root_chars.2.1
  have hfe : fromEnviron o (danceEnviron scheme (hostBr ha ++ portText port) (rstripSlash root) p qs)
      = builderInit o (quoteUrlSyntax p) (some (baseText scheme ha port (rstripSlash root ++ ['/']))) (.text qs) := by
    unfold fromEnviron danceEnviron
    simp only [dance_roundtrip', hroot, hmk]
  rw [hfe]
  cases hb : builderInit o (quoteUrlSyntax p) (some (baseText scheme ha port (rstripSlash root ++ ['/']))) (.text qs) with
  | error x => rw [hb] at he0; cases he0
  | ok b' =>
    rw [hb] at he0
    simp only [Except.map, Except.ok.injEq] at he0
    exact ⟨b', rfl, he0.trans hE⟩

end Wz.Url
