/-
A model of `MultiDict` WITH OBJECT IDENTITY (C08, "copies are independent of the original").

The functional model `MD` identifies a MultiDict with its value; there a copy is trivially
independent. Here the inner lists are objects: a heap maps addresses to list objects, a MultiDict is
a dict from keys to *addresses*. Mutators change list objects in place exactly where the Python code
does (`add` appends to the existing list object; `d[k] = v`, `setlist`, a new key create a new list
object), `setlistdefault` hands out the live list (modelled by `Ev.via`: somebody appends to a list
object of the dict from outside), and `copy()` / `deepcopy()` / pickling allocate fresh list objects
(`(k, vs[:]) for k, vs in mapping.lists()`), whereas a plain `dict.copy` (`aliasCopy`) would share
them.
-/
import WzVerif.Model.Containers
namespace Wz.HeapMD
open Wz PyDict

abbrev Heap (ν : Type) := List (List ν)
abbrev Obj (κ : Type) := Dict κ Nat

variable {κ ν : Type} [DecidableEq κ]

/-- the list object at address `a` -/
def cell (h : Heap ν) (a : Nat) : List ν := h.getD a []

/-- the value of a MultiDict object: what the functional model sees -/
def abs (h : Heap ν) (o : Obj κ) : MD.St κ ν := o.map fun e => (e.1, cell h e.2)

def addrs (o : Obj κ) : List Nat := o.map (·.2)

/-- `dict[key] = <new list object holding vs>` -/
def putNew (h : Heap ν) (o : Obj κ) (k : κ) (vs : List ν) : Heap ν × Obj κ :=
  (h ++ [vs], PyDict.set o k h.length)

/-- in-place `list.append` / `list.extend` on the object at `a` -/
def appendAt (h : Heap ν) (a : Nat) (vs : List ν) : Heap ν := h.set a (cell h a ++ vs)

/-- `dict.setdefault(key, []).append(value)` -/
def addH (h : Heap ν) (o : Obj κ) (k : κ) (v : ν) : Heap ν × Obj κ :=
  match get? o k with
  | some a => (appendAt h a [v], o)
  | none => putNew h o k [v]

def addAllH (h : Heap ν) (o : Obj κ) : List (κ × ν) → Heap ν × Obj κ
  | [] => (h, o)
  | (k, v) :: t => addAllH (addH h o k v).1 (addH h o k v).2 t

/-- the state change of every public mutator (return values and exceptions are those of the
functional model on `abs`, see `result`) -/
def step (h : Heap ν) (o : Obj κ) : MD.Op κ ν → Heap ν × Obj κ
  | .setitem k v => putNew h o k [v]
  | .delitem k => if has o k then (h, erase o k) else (h, o)
  | .add k v => addH h o k v
  | .setlist k vs => putNew h o k vs
  | .setdefault k v => if has o k then (h, o) else putNew h o k [v]
  | .setlistdefault k vs => if has o k then (h, o) else putNew h o k vs
  | .update a => addAllH h o (MD.iterMultiItems a)
  | .ior a => addAllH h o (MD.iterMultiItems a)
  | .pop k _ => if has o k then (h, erase o k) else (h, o)
  | .popitem => (h, o.dropLast)
  | .poplist k => if has o k then (h, erase o k) else (h, o)
  | .popitemlist => (h, o.dropLast)
  | .clear => (h, [])

def result (h : Heap ν) (o : Obj κ) (op : MD.Op κ ν) : Except String (MD.Ret κ ν) := (MD.step (abs h o) op).2

/-- things that can happen to one MultiDict object -/
inductive Ev (κ ν : Type) where
  | op (op : MD.Op κ ν)
  /-- code holding the live list of key `k` (from `setlistdefault`) appends to it -/
  | via (k : κ) (vs : List ν)

def next (h : Heap ν) (o : Obj κ) : Ev κ ν → Heap ν × Obj κ
  | .op op => step h o op
  | .via k vs =>
    match get? o k with
    | some a => (appendAt h a vs, o)
    | none => (h, o)

def run (h : Heap ν) (o : Obj κ) : List (Ev κ ν) → Heap ν × Obj κ
  | [] => (h, o)
  | e :: t => run (next h o e).1 (next h o e).2 t

/-- the same events on the functional model (`via` = extend the key's list) -/
def nextAbs (c : MD.St κ ν) : Ev κ ν → MD.St κ ν
  | .op op => (MD.step c op).1
  | .via k vs =>
    match get? c k with
    | some ws => PyDict.set c k (ws ++ vs)
    | none => c

def runAbs (c : MD.St κ ν) : List (Ev κ ν) → MD.St κ ν
  | [] => c
  | e :: t => runAbs (nextAbs c e) t

/-- `MultiDict.copy()` / `copy.copy` / `deepcopy` (values as atoms) / pickling: a new dict whose
every key has a NEW list object with the same items -/
def copyObj (h : Heap ν) (o : Obj κ) : Heap ν × Obj κ :=
  o.foldl (fun acc e => (acc.1 ++ [cell h e.2], acc.2 ++ [(e.1, acc.1.length)])) (h, [])

/-- what a plain `dict.copy(self)` would be: a new dict sharing the list objects -/
def aliasCopy (h : Heap ν) (o : Obj κ) : Heap ν × Obj κ := (h, o)

end Wz.HeapMD
