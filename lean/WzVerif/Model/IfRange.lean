/-
`IfRange.to_header` / `parse_if_range_header` (property C06). The date parser is a parameter:
`email.utils.parsedate_to_datetime` accepts far more than the IMF-fixdate layout modelled in
`Model/Date.lean`, and *which* texts it accepts decides between the date and the etag reading.
-/
import WzVerif.Model.Http
import WzVerif.Model.Date
namespace Wz.Http
open Wz

inductive IfRangeV where
  | empty
  | etag (e : Str)
  | date (t : Nat)
  deriving DecidableEq

/-- `IfRange.to_header()`; ValueError from `quote_etag` when the tag contains `"` -/
def ifRangeToHeader : IfRangeV → Except String Str
  | .empty => .ok []
  | .date t => .ok (Wz.Date.httpDate t)
  | .etag e => quoteEtag e

/-- `parse_if_range_header(value)` with `parse_date` abstracted as `pd` -/
def looksLikeEtag (value : Str) : Bool :=
  match lstrip value with
  | '"' :: _ => true
  | 'W' :: '/' :: '"' :: _ => true
  | 'w' :: '/' :: '"' :: _ => true
  | _ => false

def parseIfRange (pd : Str → Option Nat) (value : Str) : IfRangeV :=
  if value.isEmpty then .empty else
  -- an entity tag is quoted, a date is not: a quoted value is never offered to the date parser
  let date := if looksLikeEtag value then none else pd value
  match date with
  | some t => .date t
  | none =>
    match unquoteEtag value with
    | some (e, _) => .etag e
    | none => .empty

end Wz.Http
